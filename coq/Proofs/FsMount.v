(* Proofs about Model/FsMount.v: every state of the filesystem-level machine is a reachable state of the resolver
   machine (so all C12 theorems apply to it), and a layer registered under a mountpoint is an unreleased layerRef
   (so it stays usable until Unmount).  Built on Proofs/Resolver.v and Proofs/ResolverLock.v. *)
From Coq Require Import List Arith ZArith Bool Lia.
From SV Require Import Model.Refcache Proofs.Refcache.
From SV Require Model.Resolver Model.FsMount.
From SV Require Import Proofs.Resolver Proofs.ResolverLock.
Import ListNotations.

Module M := SV.Model.Resolver.
Module F := SV.Model.FsMount.
Arguments cnt {A} p l : simpl never.

(* ---------- how the list of handed-out layerRefs moves ---------- *)
Lemma lc_do_uh s o : M.uh (fst (M.lc_do s o)) = M.uh s.
Proof. destruct (lc_do_frame s o) as ((_ & A & _) & _). exact A. Qed.
Lemma bc_do_uh s o : M.uh (fst (M.bc_do s o)) = M.uh s.
Proof. destruct (bc_do_frame s o) as ((_ & A & _) & _). exact A. Qed.
Lemma setpc_uh s t n p : M.uh (M.setpc s t n p) = M.uh s. Proof. reflexivity. Qed.
Lemma finish_uh s t n : M.uh (M.finish s t n) = M.uh s. Proof. reflexivity. Qed.
Lemma rmdir_uh s d : M.uh (M.rmdir s d) = M.uh s. Proof. reflexivity. Qed.
Lemma set_uh_uh s x : M.uh (M.set_uh s x) = x. Proof. reflexivity. Qed.
Lemma set_lobjs_uh s x : M.uh (M.set_lobjs s x) = M.uh s. Proof. reflexivity. Qed.
Lemma set_bobjs_uh s x : M.uh (M.set_bobjs s x) = M.uh s. Proof. reflexivity. Qed.
Lemma set_locks_uh s x : M.uh (M.set_locks s x) = M.uh s. Proof. reflexivity. Qed.
Lemma mkdir_uh s k : M.uh (fst (M.mkdir s k)) = M.uh s. Proof. reflexivity. Qed.
Global Hint Rewrite lc_do_uh bc_do_uh setpc_uh finish_uh rmdir_uh set_uh_uh set_lobjs_uh set_bobjs_uh set_locks_uh mkdir_uh : proj.

Definition is_ret (e : M.ev) : bool := match e with M.ERet _ _ => true | _ => false end.

(* a sub-step hands out a new layerRef exactly when it returns a layer; otherwise the list is untouched *)
Lemma tstep_uh s t ok :
  let s' := fst (M.tstep s t ok) in let e := snd (M.tstep s t ok) in
  (is_ret e = false /\ M.uh s' = M.uh s) \/ (is_ret e = true /\ exists h, M.uh s' = M.uh s ++ [(h, false)]).
Proof.
  unfold M.tstep. destruct (nth_error (M.thrs s) t) as [th|]; [|left; split; reflexivity].
  destruct (M.t_pc th) as [|h|h| | |bh|bh| | |d|bh|bh d|]; cbn [fst snd]; cbv zeta.
  - destruct (M.mem _ _); [left; split; reflexivity|].
    destruct (snd (M.lc_do _ _)); cbn [fst snd]; left; autorewrite with proj; split; reflexivity.
  - destruct (M.layer_flags s h). destruct (_ && _); [|left; split; reflexivity].
    destruct (M.hval _ _); [|left; split; reflexivity]. cbn [fst snd]. right. autorewrite with proj. split; [reflexivity|eauto].
  - left. autorewrite with proj. split; reflexivity.
  - left. autorewrite with proj. split; reflexivity.
  - destruct (snd (M.bc_do _ _)); cbn [fst snd]; left; autorewrite with proj; split; reflexivity.
  - destruct (_ && _); left; split; reflexivity.
  - left. autorewrite with proj. split; reflexivity.
  - left. autorewrite with proj. split; reflexivity.
  - left. split; reflexivity.
  - destruct ok; [destruct (snd (M.bc_do _ _)) as [[? []]|]|]; cbn [fst snd]; left; autorewrite with proj; split; reflexivity.
  - left. split; reflexivity.
  - destruct ok.
    + destruct (snd (M.lc_do _ _)) as [[? []]|]; cbn [fst snd].
      * right. autorewrite with proj. split; [reflexivity|eauto].
      * right. autorewrite with proj. split; [reflexivity|eauto].
      * left. split; reflexivity.
    + cbn [fst snd]. left. autorewrite with proj. split; reflexivity.
  - left. split; reflexivity.
Qed.

Lemma release_uh s u ev :
  M.uh (M.release s u ev) = match nth_error (M.uh s) u with Some (h, _) => upd (M.uh s) u (h, true) | None => M.uh s end.
Proof. unfold M.release. destruct (nth_error (M.uh s) u) as [[h r]|]; [|reflexivity]. autorewrite with proj. reflexivity. Qed.

(* ---------- every filesystem-level state is a reachable resolver state ---------- *)
Lemma exec_app s a b : M.exec s (a ++ b) = M.exec (M.exec s a) b.
Proof. unfold M.exec. apply fold_left_app. Qed.

Lemma starts_exec ns : forall s, F.starts s ns = M.exec s (map M.RStart ns).
Proof. induction ns as [|n ns IH]; intros s; simpl; [reflexivity|]. apply IH. Qed.

Lemma fstep_exec s o : exists os, F.rs (fst (F.fstep s o)) = M.exec (F.rs s) os.
Proof.
  destruct o as [mp n vok nbs|t ok|mp ok1 r|mp|mp|mp|n|n]; cbn [F.fstep].
  - exists (map M.RStart (n :: nbs)). cbn [fst F.rs]. apply starts_exec.
  - destruct (M.step (F.rs s) (M.RStep t ok)) as [r e] eqn:E. cbn [fst].
    assert (Hr : r = M.exec (F.rs s) [M.RStep t ok]) by (unfold M.exec; cbn [fold_left]; rewrite E; reflexivity).
    unfold F.after_ret. destruct e; try (exists [M.RStep t ok]; exact Hr).
    destruct (nth_error (F.roles s) t) as [[mp [|]|]|];
      [exists [M.RStep t ok]; exact Hr
      |exists [M.RStep t ok; M.Done (length (M.uh (F.rs s)))]; cbn [F.rs]; rewrite Hr; reflexivity
      |exists [M.RStep t ok; M.Done (length (M.uh (F.rs s)))]; cbn [F.rs]; rewrite Hr; reflexivity
      |exists [M.RStep t ok]; exact Hr].
  - destruct (F.lookup mp (F.mnts s)) as [u|]; [|exists []; reflexivity].
    destruct (F.check_ev (F.rs s) u ok1); try (exists []; reflexivity);
      (destruct (M.step (F.rs s) (M.Refresh u r)) as [r1 e] eqn:E; exists [M.Refresh u r]; unfold M.exec; cbn [fold_left fst F.rs]; rewrite E; reflexivity).
  - destruct (F.lookup mp (F.mnts s)) as [u|]; [exists [M.Close u]|exists []]; reflexivity.
  - exists []. destruct (F.lookup mp (F.mnts s)); reflexivity.
  - exists []. destruct (F.lookup mp (F.mnts s)); reflexivity.
  - exists [M.ExpireL n]. reflexivity.
  - exists [M.ExpireB n]. reflexivity.
Qed.

Lemma fexec_reach fos : forall s, exists os, F.rs (F.fexec s fos) = M.exec (F.rs s) os.
Proof.
  unfold F.fexec. induction fos as [|o fos IH]; intros s; simpl; [exists []; reflexivity|].
  destruct (IH (fst (F.fstep s o))) as [os2 H2]. destruct (fstep_exec s o) as [os1 H1].
  exists (os1 ++ os2). rewrite H2, H1, exec_app. reflexivity.
Qed.

Lemma freach fos : exists os, F.rs (F.fexec F.finit fos) = M.exec M.init os.
Proof. apply (fexec_reach fos F.finit). Qed.

(* ---------- the mount table holds unreleased layerRefs, one per mountpoint ---------- *)
Record FI (s : F.fst_) : Prop := mkFI {
  f_held : forall mp u, In (mp, u) (F.mnts s) -> exists h, nth_error (M.uh (F.rs s)) u = Some (h, false);
  f_inj : NoDup (map snd (F.mnts s))
}.

Lemma lookup_in mp l u : F.lookup mp l = Some u -> In (mp, u) l.
Proof.
  induction l as [|[m v] l IH]; simpl; [discriminate|]. destruct (Nat.eqb_spec m mp) as [->|Hne].
  - intros E. inversion E; subst. left. reflexivity.
  - intros E. right. apply IH. exact E.
Qed.

Lemma unreg_in mp l m u : In (m, u) (F.unreg mp l) -> In (m, u) l /\ m <> mp.
Proof.
  induction l as [|[a v] l IH]; simpl; [tauto|]. destruct (Nat.eqb_spec a mp) as [->|Hne].
  - intros H. destruct (IH H). tauto.
  - intros [E|H]; [inversion E; subst; tauto|]. destruct (IH H). tauto.
Qed.

Lemma unreg_nodup mp l : NoDup (map snd l) -> NoDup (map snd (F.unreg mp l)).
Proof.
  induction l as [|[a v] l IH]; simpl; intros H; [constructor|]. inversion H as [|? ? Hn Hd]; subst.
  destruct (a =? mp); [apply IH; exact Hd|]. simpl. constructor; [|apply IH; exact Hd].
  intros Hin. apply Hn. apply in_map_iff in Hin. destruct Hin as ([m u] & Eu & Hin). simpl in Eu. subst u.
  apply unreg_in in Hin. apply in_map_iff. exists (m, v). split; [reflexivity|tauto].
Qed.

Lemma FI_same_uh s r ms rl : FI s -> M.uh r = M.uh (F.rs s) -> (forall m u, In (m, u) ms -> In (m, u) (F.mnts s)) ->
  NoDup (map snd ms) -> FI (F.mkF r ms rl).
Proof.
  intros [A B] E Hs Hn. constructor; cbn; [|exact Hn]. intros mp u Hin. rewrite E. apply (A mp). apply Hs. exact Hin.
Qed.

Lemma fstep_FI s o : FI s -> FI (fst (F.fstep s o)).
Proof.
  intros I. destruct o as [mp n vok nbs|t ok|mp ok1 r|mp|mp|mp|n|n]; cbn [F.fstep].
  - cbn [fst]. apply (FI_same_uh s); [exact I| |tauto|apply (f_inj _ I)].
    rewrite starts_exec. assert (E : forall l s0, M.uh (M.exec s0 (map M.RStart l)) = M.uh s0).
    { induction l as [|a l IH]; intros s0; [reflexivity|]. change (M.exec s0 (map M.RStart (a :: l))) with (M.exec (fst (M.step s0 (M.RStart a))) (map M.RStart l)). rewrite IH. reflexivity. }
    apply E.
  - cbn [M.step]. destruct (M.tstep (F.rs s) t ok) as [r e] eqn:E. cbn [fst].
    pose proof (tstep_uh (F.rs s) t ok) as Hu. rewrite E in Hu. cbn [fst snd] in Hu.
    destruct Hu as [[Hne Hsame]|[Hret (h & Happ)]].
    + unfold F.after_ret. destruct e; try discriminate;
        (apply (FI_same_uh s); [exact I|exact Hsame|tauto|apply (f_inj _ I)]).
    + destruct e; try discriminate. unfold F.after_ret.
      set (u := length (M.uh (F.rs s))).
      assert (Hold : forall m u', In (m, u') (F.mnts s) -> u' < u).
      { intros m u' Hin. destruct (f_held _ I m u' Hin) as [h' Hh']. eapply nth_some_lt; eauto. }
      destruct (nth_error (F.roles s) t) as [[mp [|]|]|].
      * constructor; cbn.
        -- intros m u' [Eq|Hin].
           ++ inversion Eq; subst. exists h. rewrite Happ. rewrite nth_error_app2 by (unfold u; lia). unfold u. rewrite Nat.sub_diag. reflexivity.
           ++ apply unreg_in in Hin. destruct Hin as [Hin _]. destruct (f_held _ I m u' Hin) as [h' Hh']. exists h'.
              rewrite Happ. rewrite nth_error_app1; [exact Hh'|]. eapply nth_some_lt; eauto.
        -- constructor; [|apply unreg_nodup; apply (f_inj _ I)].
           intros Hin. apply in_map_iff in Hin. destruct Hin as ([m u'] & Eu & Hin). simpl in Eu. subst u'.
           apply unreg_in in Hin. destruct Hin as [Hin _]. specialize (Hold m u Hin). lia.
      * constructor; cbn; [|apply (f_inj _ I)]. intros m u' Hin. cbn [M.step fst]. rewrite release_uh, Happ.
        rewrite nth_error_app2 by (unfold u; lia). unfold u at 1. rewrite Nat.sub_diag. cbn.
        specialize (Hold m u' Hin). destruct (f_held _ I m u' Hin) as [h' Hh']. exists h'.
        rewrite nth_upd_ne by (unfold u in *; lia). rewrite nth_error_app1 by exact Hold. exact Hh'.
      * constructor; cbn; [|apply (f_inj _ I)]. intros m u' Hin. cbn [M.step fst]. rewrite release_uh, Happ.
        rewrite nth_error_app2 by (unfold u; lia). unfold u at 1. rewrite Nat.sub_diag. cbn.
        specialize (Hold m u' Hin). destruct (f_held _ I m u' Hin) as [h' Hh']. exists h'.
        rewrite nth_upd_ne by (unfold u in *; lia). rewrite nth_error_app1 by exact Hold. exact Hh'.
      * constructor; cbn; [|apply (f_inj _ I)]. intros m u' Hin. destruct (f_held _ I m u' Hin) as [h' Hh']. exists h'.
        rewrite Happ. rewrite nth_error_app1; [exact Hh'|]. eapply nth_some_lt; eauto.
  - destruct (F.lookup mp (F.mnts s)) as [u|]; [|exact I].
    assert (Hr : forall e : M.ev, FI (fst (let '(r1, e0) := M.step (F.rs s) (M.Refresh u r) in (F.mkF r1 (F.mnts s) (F.roles s), e0)))).
    { intros _. destruct (M.step (F.rs s) (M.Refresh u r)) as [r1 e0] eqn:E. cbn [fst].
      apply (FI_same_uh s); [exact I| |tauto|apply (f_inj _ I)].
      replace r1 with (fst (M.step (F.rs s) (M.Refresh u r))) by (rewrite E; reflexivity).
      cbn [M.step]. destruct (nth_error (M.uh (F.rs s)) u) as [[h r0]|]; [|reflexivity]. destruct (M.layer_flags (F.rs s) h).
      destruct (_ && _); [|reflexivity]. destruct r, (M.blob_of (F.rs s) h); reflexivity. }
    destruct (F.check_ev (F.rs s) u ok1); try exact I; apply (Hr M.ENone).
  - destruct (F.lookup mp (F.mnts s)) as [u|] eqn:Hl; [|exact I]. cbn [fst]. apply lookup_in in Hl.
    constructor; cbn; [|apply unreg_nodup; apply (f_inj _ I)].
    intros m u' Hin. apply unreg_in in Hin. destruct Hin as [Hin Hne].
    destruct (f_held _ I m u' Hin) as [h' Hh']. exists h'. rewrite release_uh.
    destruct (f_held _ I mp u Hl) as [h Hh]. rewrite Hh.
    assert (Hu : u <> u').
    { intros <-. pose proof (f_inj _ I) as Hn.
      assert (forall l, NoDup (map snd l) -> In (mp, u) l -> In (m, u) l -> m = mp) as Huniq.
      { induction l as [|[a v] l IH]; simpl; intros Hnd H1 H2; [tauto|]. inversion Hnd as [|? ? Hn' Hd']; subst.
        destruct H1 as [E1|H1], H2 as [E2|H2].
        - congruence.
        - inversion E1; subst. exfalso. apply Hn'. apply in_map_iff. exists (m, u). split; [reflexivity|exact H2].
        - inversion E2; subst. exfalso. apply Hn'. apply in_map_iff. exists (mp, u). split; [reflexivity|exact H1].
        - apply IH; assumption. }
      apply Hne. apply (Huniq _ Hn Hl Hin). }
    rewrite nth_upd_ne by exact Hu. exact Hh'.
  - destruct (F.lookup mp (F.mnts s)); exact I.
  - destruct (F.lookup mp (F.mnts s)); exact I.
  - cbn [fst]. apply (FI_same_uh s); [exact I|cbn [M.step fst]; apply lc_do_uh|tauto|apply (f_inj _ I)].
  - cbn [fst]. apply (FI_same_uh s); [exact I|cbn [M.step fst]; apply bc_do_uh|tauto|apply (f_inj _ I)].
Qed.

Lemma FI_init : FI F.finit.
Proof. constructor; cbn; [tauto|constructor]. Qed.

Lemma fexec_FI fos : forall s, FI s -> FI (F.fexec s fos).
Proof. unfold F.fexec. induction fos as [|o fos IH]; simpl; intros s I; [exact I|]. apply IH. apply fstep_FI. exact I. Qed.

(* ---------- a mounted layer stays usable ---------- *)
Lemma mounted_usable fos mp u : let s := F.fexec F.finit fos in
  F.lookup mp (F.mnts s) = Some u ->
  (exists h, nth_error (M.uh (F.rs s)) u = Some (h, false) /\ M.layer_flags (F.rs s) h = (false, false)) /\
  F.fstep s (F.FUse mp) = (s, M.EUse false false) /\
  (forall r, F.fstep s (F.FCheck mp true r) = (s, M.ENone)) /\
  snd (F.fstep s (F.FCheck mp false M.RfOk)) = M.ENone.
Proof.
  intros s Hl. pose proof (fexec_FI fos _ FI_init) as I. fold s in I.
  destruct (freach fos) as [os Hos]. fold s in Hos.
  destruct (f_held _ I mp u (lookup_in _ _ _ Hl)) as [h Hh].
  assert (RI' : RInv (F.rs s)) by (rewrite Hos; apply reach_inv).
  destruct (held_usable (F.rs s) u h RI' Hh) as [Hf _].
  split; [exists h; split; assumption|].
  cbn [F.fstep]. rewrite Hl. unfold F.check_ev. cbn [M.step]. rewrite Hh, Hf. cbn.
  repeat split; try reflexivity. destruct (M.blob_of (F.rs s) h); reflexivity.
Qed.

(* a refused Refresh (resolution error, blob of another size) through Check leaves the filesystem state untouched *)
Lemma check_refused_nop s mp ok1 r : r = M.RfErr \/ r = M.RfSize -> fst (F.fstep s (F.FCheck mp ok1 r)) = s.
Proof.
  intros Hr. cbn [F.fstep]. destruct (F.lookup mp (F.mnts s)) as [u|]; [|reflexivity].
  destruct (F.check_ev (F.rs s) u ok1); try reflexivity;
    (pose proof (refused_refresh_nop (F.rs s) u r Hr) as E; destruct (M.step (F.rs s) (M.Refresh u r)) as [r1 e]; cbn [fst] in *; subst r1; destruct s; reflexivity).
Qed.

(* ---------- the coarse steps of the harness are sequences of fsteps ---------- *)
Section Closed.
  Variable P : F.fst_ -> Prop.
  Hypothesis HP : forall s o, P s -> P (fst (F.fstep s o)).

  Lemma run_script_closed f : forall s t sc, P s -> P (fst (F.run_script f s t sc)).
  Proof.
    induction f as [|f IH]; intros s t sc Hs; cbn [F.run_script]; [exact Hs|].
    destruct (F.fstep s (F.FStep t _)) as [s1 e] eqn:E.
    assert (H1 : P s1) by (replace s1 with (fst (F.fstep s (F.FStep t match sc with b :: _ => b | [] => true end))) by (rewrite E; reflexivity); apply HP; exact Hs).
    destruct e; try exact H1. destruct (M.pc_of (F.rs s1) t); try exact H1; apply IH; exact H1.
  Qed.

  Lemma run_all_closed scs : forall s t, P s -> P (fst (F.run_all s t scs)).
  Proof.
    induction scs as [|sc scs IH]; intros s t Hs; cbn [F.run_all]; [exact Hs|].
    destruct (F.run_script 40 s t sc) as [s1 e] eqn:E1. destruct (F.run_all s1 (S t) scs) as [s2 es] eqn:E2. cbn [fst].
    replace s2 with (fst (F.run_all s1 (S t) scs)) by (rewrite E2; reflexivity). apply IH.
    replace s1 with (fst (F.run_script 40 s t sc)) by (rewrite E1; reflexivity). apply run_script_closed. exact Hs.
  Qed.

  Lemma cfstep_closed s o : P s -> P (fst (F.cfstep s o)).
  Proof.
    intros Hs. destruct o as [mp n vok nbs scs|o]; cbn [F.cfstep]; [|apply HP; exact Hs].
    destruct (F.run_all _ _ scs) as [s2 es] eqn:E. cbn [fst].
    replace s2 with (fst (F.run_all (fst (F.fstep s (F.FMount mp n vok nbs))) (length (M.thrs (F.rs s))) scs)) by (rewrite E; reflexivity).
    apply run_all_closed. apply HP. exact Hs.
  Qed.
End Closed.

Definition cfexec (s : F.fst_) (os : list F.cop) : F.fst_ := fold_left (fun s o => fst (F.cfstep s o)) os s.

Definition good (s : F.fst_) : Prop := FI s /\ RInv (F.rs s) /\ LI (F.rs s).

Lemma good_fstep s o : good s -> good (fst (F.fstep s o)).
Proof.
  intros (A & B & C). split; [apply fstep_FI; exact A|]. destruct (fstep_exec s o) as [os H]. rewrite H.
  split; [apply Proofs.Resolver.exec_inv; exact B|apply exec_LI; exact C].
Qed.

Lemma cfexec_good os : forall s, good s -> good (cfexec s os).
Proof.
  unfold cfexec. induction os as [|o os IH]; simpl; intros s G; [exact G|]. apply IH. apply (cfstep_closed good good_fstep). exact G.
Qed.

Lemma good_init : good F.finit.
Proof. split; [apply FI_init|]. split; [apply RInv_init|apply LI_init]. Qed.

Lemma coarse_mounted_usable os mp u : let s := cfexec F.finit os in
  F.lookup mp (F.mnts s) = Some u -> F.fstep s (F.FUse mp) = (s, M.EUse false false).
Proof.
  intros s Hl. destruct (cfexec_good os _ good_init) as (I & RI' & _). fold s in I, RI'.
  destruct (f_held _ I mp u (lookup_in _ _ _ Hl)) as [h Hh].
  destruct (held_usable (F.rs s) u h RI' Hh) as [Hf _].
  cbn [F.fstep]. rewrite Hl. cbn [M.step]. rewrite Hh, Hf. reflexivity.
Qed.
