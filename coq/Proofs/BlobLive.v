(* A success (non-vacuity / liveness) result: when the registry answers the data request with the whole blob
   (status 200, the complete body), ReadAt does not fail: together with byte-exactness it returns exactly the
   requested bytes.  So "or an error" in the exactness theorems is not an escape hatch of the model. *)
From Coq Require Import List ZArith NArith Bool Lia Sorted.
From SV Require Import Model.Region Model.BlobRead Proofs.Region Proofs.BlobRead.
Import ListNotations.
Open Scope Z_scope.

Definition seen_incl (a b : list region) : Prop := forall r, mem_region r a = true -> mem_region r b = true.

Lemma mem_region_cons r x l : mem_region r (x :: l) = region_eqb x r || mem_region r l.
Proof. reflexivity. Qed.

(* feeding the rest of the blob to the chunks walked from i: every chunk is committed and recorded as seen *)
Lemma cache_chunks_full c B e : cfg_ok c B -> forall fuel i f,
  0 <= i -> Forall wsafe (f_ws f) ->
  exists f', cache_chunks f (walk_loop fuel (c_size c) (c_cs c) i e) (skipn (Z.to_nat i) B) = (f', SOk) /\
    Forall wsafe (f_ws f') /\ map w_chunk (f_ws f') = map w_chunk (f_ws f) /\
    seen_incl (f_seen f) (f_seen f') /\
    (forall ck, In ck (walk_loop fuel (c_size c) (c_cs c) i e) -> mem_region ck (f_seen f') = true).
Proof.
  intros [Hsz Hcs]. induction fuel as [|fuel IH]; intros i f Hi Hsafe.
  - exists f. simpl. split; [reflexivity|]. split; [exact Hsafe|]. split; [reflexivity|]. split; [intros r H; exact H|intros ck []].
  - cbn [walk_loop]. destruct ((i <=? e) && (i <? c_size c)) eqn:Econd.
    2:{ exists f. simpl. split; [reflexivity|]. split; [exact Hsafe|]. split; [reflexivity|]. split; [intros r H; exact H|intros ck []]. }
    apply andb_true_iff in Econd. destruct Econd as [E1 E2]. apply Z.leb_le in E1. apply Z.ltb_lt in E2.
    set (ck := (i, if c_size c <=? i + c_cs c - 1 then c_size c - 1 else i + c_cs c - 1)).
    assert (Hrs : 0 < rsize ck /\ i + rsize ck <= c_size c /\ (rsize ck = c_cs c \/ c_size c <= i + c_cs c)).
    { unfold ck, rsize, rb, re; simpl. destruct (Z.leb_spec (c_size c) (i + c_cs c - 1)); lia. }
    destruct Hrs as (R1 & R2 & R3).
    cbn [cache_chunks]. unfold cache_chunk.
    set (n := Z.to_nat (rsize ck)).
    destruct (ws_write_some ck (firstn n (skipn (Z.to_nat i) B)) (f_ws f) (f_p f) Hsafe) as (p' & ws' & Ew & Hsafe').
    rewrite Ew.
    assert (Hlen : zlen (firstn n (skipn (Z.to_nat i) B)) = rsize ck).
    { unfold zlen in *. rewrite firstn_length, skipn_length. unfold n. lia. }
    destruct (Z.ltb_spec (zlen (firstn n (skipn (Z.to_nat i) B))) (rsize ck)) as [Hshort|_]; [lia|].
    assert (Hkeys : map w_chunk ws' = map w_chunk (f_ws f)).
    { clear - Ew. revert Ew. generalize (f_p f) p' ws'. induction (f_ws f) as [|w t IHt]; intros p0 p1 ws1; simpl.
      - intros E; inversion E; reflexivity.
      - destruct (region_eqb (w_chunk w) ck).
        + destruct (bw_write p0 w _) as [[p2 w2]|] eqn:Eb; [|discriminate].
          destruct (ws_write p2 t ck _) as [[p3 t3]|] eqn:Et; [|discriminate].
          intros E; inversion E; subst. simpl. rewrite (IHt _ _ _ Et). f_equal.
          unfold bw_write in Eb.
          repeat match type of Eb with context [if ?b then _ else _] => destruct b end; inversion Eb; reflexivity.
        + destruct (ws_write p0 t ck _) as [[p3 t3]|] eqn:Et; [|discriminate].
          intros E; inversion E; subst. simpl. rewrite (IHt _ _ _ Et). reflexivity. }
    set (f1 := mkF (cache_put (f_cache f) ck (firstn n (skipn (Z.to_nat i) B))) (add (f_fetched f) ck) (ck :: f_ever f) p' ws' (ck :: f_seen f)).
    rewrite skipn_skipn_add.
    destruct R3 as [R3|R3].
    + replace (Z.to_nat i + n)%nat with (Z.to_nat (i + c_cs c)) by (unfold n; lia).
      destruct (IH (i + c_cs c) f1 ltac:(lia) Hsafe') as (f' & E' & S' & K' & I' & M').
      exists f'. split; [exact E'|]. split; [exact S'|]. split; [rewrite K'; exact Hkeys|]. split.
      * intros r Hr. apply I'. simpl. rewrite Hr. apply orb_true_r.
      * intros ck' [<-|Hin]; [|apply M'; exact Hin]. apply I'. simpl. rewrite region_eqb_refl. reflexivity.
    + rewrite walk_loop_nil by lia. exists f1. split; [reflexivity|]. split; [exact Hsafe'|].
      split; [exact Hkeys|]. split.
      * intros r Hr. simpl. rewrite Hr. apply orb_true_r.
      * intros ck' [<-|[]]. simpl. rewrite region_eqb_refl. reflexivity.
Qed.

Lemma prepare_conc_chunks off lk : forall chunks p p' ws,
  prepare_conc off p chunks lk = Some (p', ws) -> forall w, In w ws -> In (w_chunk w) chunks.
Proof.
  induction chunks as [|ck t IH]; intros p p' ws; simpl.
  - intros E; inversion E; subst. intros w [].
  - destruct (prepare_chunk off p ck (lk ck)) as [[p1 ow]|] eqn:E1; [|discriminate].
    destruct (prepare_conc off p1 t lk) as [[p2 ws2]|] eqn:E2; [|discriminate].
    intros E; inversion E; subst. intros w Hin.
    assert (Hrec : forall w0, In w0 ws2 -> In (w_chunk w0) t) by (eapply IH; eauto).
    destruct ow as [w1|]; [|right; auto].
    destruct Hin as [<-|Hin]; [|right; auto]. left.
    unfold prepare_chunk in E1. destruct (chunk_geom off (zlen p) ck) as [[b0 l0] e0].
    destruct ((e0 <? 0) || (zlen p <? b0 + e0)); [discriminate|].
    destruct (lk ck) as [data|]; [|inversion E1; reflexivity].
    destruct (e0 <=? zlen (skipn (Z.to_nat l0) data)); inversion E1. reflexivity.
Qed.

(* a chunk on the grid of the blob is visited by the walk over the whole blob *)
Lemma whole_walk_member size cs ck :
  0 < cs -> 0 <= rb ck -> rb ck mod cs = 0 -> rb ck < size -> re ck = Z.min (rb ck + cs - 1) (size - 1) ->
  In ck (walk_loop (walk_fuel size cs 0 (size - 1)) size cs 0 (size - 1)).
Proof.
  intros Hcs H0 Hal Hlt Hre.
  destruct (walk_loop_cover size cs (size - 1) (rb ck) Hcs (walk_fuel size cs 0 (size - 1)) 0) as (c' & Hin & Hc'); try lia.
  { unfold walk_fuel. rewrite Z2Nat.id; [lia|].
    assert (0 <= (Z.min (size - 1) (size - 1) - 0) / cs) by (apply Z.div_pos; lia). lia. }
  pose proof (walk_loop_in size cs (size - 1) Hcs _ _ _ Hin) as (A1 & A2 & A3 & A4 & A5).
  rewrite Z.sub_0_r in A5.
  assert (Heq : rb c' = rb ck).
  { pose proof (Z.div_mod (rb c') cs ltac:(lia)) as D1. pose proof (Z.div_mod (rb ck) cs ltac:(lia)) as D2.
    rewrite A5 in D1. rewrite Hal in D2.
    assert (rb ck < rb c' + cs) by lia.
    assert (rb c' / cs <= rb ck / cs) by nia. assert (rb ck / cs < rb c' / cs + 1) by nia. nia. }
  assert (c' = ck).
  { destruct c' as [a b], ck as [a' b']; unfold rb, re in *; simpl in *. subst a'. f_equal. lia. }
  subst. exact Hin.
Qed.

(* ReadAt succeeds when the registry answers the data request with the whole blob *)
Lemma read_whole_body_succeeds c B s off p0 rest s' r q :
  cfg_ok c B -> c_handler c = false -> 0 <= off -> SIs c B s ->
  read_at c s off p0 (R200 (c_size c) B :: rest) = (s', r, q) ->
  r = ROk (expected B off (zlen p0)).
Proof.
  intros Hc Hh Ho HS E.
  assert (Hhon : Forall (resp_honest B) (R200 (c_size c) B :: rest) \/ True) by (right; exact I).
  (* honesty of the first reply is all that is consumed; make the rest irrelevant *)
  assert (Hex : exists d, r = ROk d).
  { destruct Hc as [Hsz Hcs]. revert E. unfold read_at.
    destruct ((zlen p0 =? 0) || (c_size c <? off)) eqn:E0.
    { intros E; inversion E; subst. eauto. }
    apply orb_false_iff in E0. destruct E0 as [E0a E0b]. apply Z.eqb_neq in E0a. apply Z.ltb_ge in E0b.
    pose proof (zlen_nonneg p0) as Hn0.
    destruct (read_walk (c_size c) (c_cs c) off (zlen p0) Hcs Ho ltac:(lia)) as (chunks & Ew & Hck & Hcov).
    rewrite Ew.
    assert (Hrc : Forall (rchunk (zlen B) off (zlen p0)) chunks).
    { rewrite Forall_forall. intros ck Hin. destruct (Hck ck Hin) as (K1 & K2 & K3 & K4 & K5).
      unfold rchunk. rewrite <- Hsz. repeat split; auto. }
    assert (Hlk : lookups_honest B (cache_get (s_cache s))).
    { intros ck. unfold lookup_honest. destruct (cache_get (s_cache s) ck) eqn:Eg; auto. apply (proj1 HS). exact Eg. }
    unfold prepare.
    destruct (prepare_conc_spec B off (zlen p0) _ Ho ltac:(lia) Hlk chunks p0 eq_refl Hrc) as (p1 & ws & E1 & S1 & W1 & C1 & D1).
    rewrite E1. unfold fetch_range.
    destruct ws as [|w0 wt]; [intros E; inversion E; subst; simpl; eauto|].
    unfold fetch_any. rewrite Hh. cbn [fetch0 reply_parts].
    unfold fetch_regions. cbn [fetch_parts]. unfold walk_chunks. cbn [rb re fst snd].
    rewrite Z.rem_0_l by lia. simpl (0 =? 0).
    set (f0 := mkF (s_cache s) (s_fetched s) (s_ever s) p1 (w0 :: wt) []).
    destruct (cache_chunks_full c B (c_size c - 1) (conj Hsz Hcs) (walk_fuel (c_size c) (c_cs c) 0 (c_size c - 1)) 0 f0 ltac:(lia))
      as (f' & Ec & Sf & Kf & If & Mf).
    { simpl. eapply wok_wsafe; eauto. }
    simpl skipn in Ec. rewrite Ec. cbn [fetch_parts negb].
    assert (Hall : all_seen (f_ws f') (f_seen f') = true).
    { unfold all_seen. apply forallb_forall. intros w Hin.
      assert (Hc1 : In (w_chunk w) (map w_chunk (f_ws f'))) by (apply in_map; exact Hin).
      rewrite Kf in Hc1. simpl f_ws in Hc1. apply in_map_iff in Hc1. destruct Hc1 as (w1 & Hk1 & Hin1).
      rewrite <- Hk1. apply Mf.
      pose proof (prepare_conc_chunks off _ chunks p0 p1 (w0 :: wt) E1 w1 Hin1) as Hinc.
      (* chunks of the read walk lie on the blob's chunk grid *)
      unfold walk_chunks, all_region in Ew. cbn [rb re fst snd] in Ew.
      destruct (Z.rem (floorZ off (c_cs c)) (c_cs c) =? 0); [|discriminate]. inversion Ew as [Hcks]. rewrite <- Hcks in Hinc.
      pose proof (walk_loop_in (c_size c) (c_cs c) _ Hcs _ _ _ Hinc) as (A1 & A2 & A3 & A4 & A5).
      rewrite floor_spec in A1, A5 by lia.
      assert (0 <= c_cs c * (off / c_cs c)) by (apply Z.mul_nonneg_nonneg; [lia|apply Z.div_pos; lia]).
      apply whole_walk_member; auto; try lia.
      replace (rb (w_chunk w1)) with ((rb (w_chunk w1) - c_cs c * (off / c_cs c)) + (off / c_cs c) * c_cs c) by lia.
      rewrite Z.mod_add by lia. exact A5. }
    rewrite Hall. intros E; inversion E; subst. simpl. eauto. }
  destruct Hex as [d Hd].
  (* exactness: the consumed reply is honest; the unconsumed tail does not matter for read_at *)
  clear Hhon. subst r.
  assert (Hpre : read_at c s off p0 [R200 (c_size c) B] = read_at c s off p0 (R200 (c_size c) B :: rest)).
  { unfold read_at. destruct ((zlen p0 =? 0) || (c_size c <? off)); auto.
    destruct (walk_chunks _ _ _); auto. destruct (prepare _ _ _ _) as [[p1 ws]|]; auto.
    unfold fetch_range. destruct ws; auto. unfold fetch_any. rewrite Hh. reflexivity. }
  rewrite <- Hpre in E.
  assert (Hh1 : Forall (resp_honest B) [R200 (c_size c) B]).
  { constructor; [|constructor]. simpl. split; [lia|]. exists (length B). simpl. symmetry. apply firstn_all. }
  destruct (read_at_spec c B s off p0 _ s' (ROk d) q Hc Ho HS Hh1 E) as (_ & _ & _ & X).
  f_equal. apply X. reflexivity.
Qed.
