(* Invariant of the snapshotter model and its preservation by every operation. *)
From Coq Require Import List Arith Bool Lia.
From SV Require Import Model.Snap Proofs.SnapBase Proofs.SnapPrim.
Import ListNotations.

Arguments rm_dirent : simpl never.
Arguments rm_mount : simpl never.

Definition parent_ok (m : list (name * info)) (i : info) : Prop :=
  match i_parent i with
  | None => True
  | Some p => exists pi, lookup m p = Some pi /\ i_kind pi = KCommitted
  end.

(* the metadata list is topologically sorted: the parent of an entry lies behind it (new and committed entries are
   put in front; a parent exists before its child is created / rebased onto it). This is what makes the
   parent-chain walk terminate; ids are NOT ordered along a chain once a commit may rebase (WithParent). *)
Fixpoint topo (m : list (name * info)) : Prop :=
  match m with
  | [] => True
  | (n, i) :: t => match i_parent i with None => True | Some p => exists pi, lookup t p = Some pi end /\ topo t
  end.

Record Inv (s : st) : Prop := {
  inv_names : NoDup (map fst (meta s));
  inv_ids   : NoDup (ids_of (meta s));
  inv_le    : forall n i, In (n, i) (meta s) -> i_id i <= seq s;
  inv_par   : forall n i, In (n, i) (meta s) -> parent_ok (meta s) i;
  inv_topo  : topo (meta s);
  inv_dirs  : forall id, In (DId id) (dirs s) -> id <= seq s;
  inv_has   : closed s = false -> forall n i, In (n, i) (meta s) -> In (DId (i_id i)) (dirs s);
  inv_mnd   : NoDup (map fst (mounts s));
  inv_mle   : forall x, In x (mounts s) -> fst x <= seq s
}.

Lemma inv_init a : Inv (init a).
Proof. constructor; simpl; try constructor; intros; try contradiction. Qed.

(* ---------- more metadata helpers ---------- *)
Lemma lookup_none_names m k : lookup m k = None -> ~ In k (map fst m).
Proof.
  intros H F. apply in_map_iff in F. destruct F as [[n i] [E F]]. simpl in E; subst.
  eapply lookup_none; eauto.
Qed.

Lemma ids_inj m n i n' i' :
  NoDup (ids_of m) -> In (n, i) m -> In (n', i') m -> i_id i = i_id i' -> (n, i) = (n', i').
Proof.
  unfold ids_of. induction m as [|[k j] m IH]; simpl; intros ND A B E; [contradiction|].
  inversion ND as [|? ? Hn ND']; subst.
  destruct A as [A|A], B as [B|B].
  - congruence.
  - inversion A; subst. exfalso. apply Hn. apply in_map_iff. exists (n', i'). simpl. auto.
  - inversion B; subst. exfalso. apply Hn. apply in_map_iff. exists (n, i). simpl. auto.
  - auto.
Qed.

Lemma has_child_false m k : has_child m k = false -> forall n j, In (n, j) m -> i_parent j <> Some k.
Proof.
  unfold has_child. intros H n j I E.
  assert (X : existsb (fun p => match i_parent (snd p) with Some q => Nat.eqb q k | None => false end) m = true).
  { apply existsb_exists. exists (n, j). split; auto. simpl. rewrite E. apply Nat.eqb_refl. }
  congruence.
Qed.

Lemma upd_names m k l : map fst (upd_labels m k l) = map fst m.
Proof.
  unfold upd_labels. rewrite map_map. apply map_ext. intros [a b]; simpl. destruct (Nat.eqb a k); reflexivity.
Qed.

Lemma upd_ids m k l : ids_of (upd_labels m k l) = ids_of m.
Proof.
  unfold ids_of, upd_labels. rewrite map_map. apply map_ext. intros [a b]; simpl. destruct (Nat.eqb a k); reflexivity.
Qed.

Lemma upd_in m k l n i' : In (n, i') (upd_labels m k l) ->
  exists i, In (n, i) m /\ i_id i' = i_id i /\ i_kind i' = i_kind i /\ i_parent i' = i_parent i.
Proof.
  unfold upd_labels. intros H. apply in_map_iff in H. destruct H as [[a b] [E H]]. simpl in E.
  exists b. destruct (Nat.eqb a k); inversion E; subst; simpl; auto.
Qed.

Lemma upd_lookup m k l p :
  lookup (upd_labels m k l) p =
  match lookup m p with
  | Some i => Some (if Nat.eqb p k then mkI (i_id i) (i_kind i) (i_parent i) l else i)
  | None => None
  end.
Proof.
  induction m as [|[a b] m IH]; simpl; auto.
  destruct (Nat.eqb_spec a k); simpl.
  - subst. destruct (Nat.eqb_spec k p).
    + subst. rewrite Nat.eqb_refl. reflexivity.
    + exact IH.
  - destruct (Nat.eqb_spec a p).
    + subst. destruct (Nat.eqb_spec p k); [congruence|]. destruct b; reflexivity.
    + exact IH.
Qed.

(* ---------- generic preservation under "shrink" ---------- *)
Lemma inv_shrink s s' E :
  Inv s -> shrink s s' E ->
  (closed s = false -> forall n i, In (n, i) (meta s) -> In (DId (i_id i)) (dirs s')) ->
  Inv s'.
Proof.
  intros I Sh K. destruct I, Sh. constructor.
  - rewrite sh_meta. assumption.
  - rewrite sh_meta. assumption.
  - rewrite sh_meta, sh_seq. assumption.
  - rewrite sh_meta. assumption.
  - rewrite sh_meta. assumption.
  - rewrite sh_seq. auto.
  - rewrite sh_meta, sh_closed. assumption.
  - auto.
  - rewrite sh_seq. auto.
Qed.

(* ---------- createSnapshot ---------- *)
Lemma meta_create_ok s k key parent sn :
  meta_create s k key parent = inr sn ->
  lookup (meta s) key = None /\ sn_id sn = S (seq s) /\ sn_kind sn = k /\
  match parent with
  | None => sn_parents sn = []
  | Some p => exists pi, lookup (meta s) p = Some pi /\ i_kind pi = KCommitted /\
                         parents (fuel_of s) (meta s) p = POk (sn_parents sn)
  end.
Proof.
  unfold meta_create. destruct parent as [p|].
  - destruct (lookup (meta s) p) as [pi|] eqn:LP; [|discriminate].
    destruct (kind_eqb (i_kind pi) KCommitted) eqn:KC; [|discriminate].
    destruct (lookup (meta s) key) eqn:LK; [discriminate|].
    destruct (parents (fuel_of s) (meta s) p) eqn:PP; try discriminate.
    intros H; inversion H; subst; simpl. repeat split; auto.
    exists pi. repeat split; auto. destruct (i_kind pi); simpl in KC; congruence.
  - destruct (lookup (meta s) key) eqn:LK; [discriminate|].
    intros H; inversion H; subst; simpl. auto.
Qed.

Definition fresh_dir (s : st) : dirent := DTemp (tmpc s).

Lemma create_ok s k key parent l s' sn :
  create_snapshot s k key parent l = (s', inr sn) ->
  closed s = false /\ lookup (meta s) key = None /\ sn_id sn = S (seq s) /\ sn_kind sn = k /\
  s' = mkSt (async s) ((key, mkI (S (seq s)) k parent l) :: meta s) (S (seq s))
            (DId (S (seq s)) :: rm_dirent (fresh_dir s :: dirs s) (fresh_dir s)) (S (tmpc s)) (mounts s) false (log s) /\
  In (DId (S (seq s))) (dirs s) = In (DId (S (seq s))) (dirs s) /\
  ~ In (DId (S (seq s))) (dirs s) /\
  match parent with
  | None => sn_parents sn = []
  | Some p => exists pi, lookup (meta s) p = Some pi /\ i_kind pi = KCommitted /\
                         parents (fuel_of s) (meta s) p = POk (sn_parents sn)
  end.
Proof.
  unfold create_snapshot. destruct (closed s) eqn:C; [discriminate|].
  set (s1 := set_tmpc (set_dirs s (DTemp (tmpc s) :: dirs s)) (S (tmpc s))).
  destruct (meta_create s1 k key parent) as [e|sn0] eqn:MC; [discriminate|].
  destruct (negb match sn_parents sn0 with [] => true | p :: _ => has_dir s1 (DId p) end); [discriminate|].
  destruct (has_dir s1 (DId (sn_id sn0))) eqn:HD; [discriminate|].
  intros H. inversion H; subst sn0. clear H.
  apply meta_create_ok in MC. simpl in MC. destruct MC as [LK [ID [KD PR]]].
  split; [reflexivity|]. split; [exact LK|]. split; [exact ID|]. split; [exact KD|].
  split; [|split; [reflexivity|split]].
  - unf_set. rewrite ID, C. unfold fresh_dir. reflexivity.
  - rewrite ID in HD. intros F.
    assert (X : has_dir s1 (DId (S (seq s))) = true).
    { apply has_dir_in. simpl. right. exact F. }
    congruence.
  - exact PR.
Qed.

(* the temp directory of a failed createSnapshot comes and goes *)
Lemma tmp_cleanup s :
  let td := DTemp (tmpc s) in
  let s1 := set_tmpc (set_dirs s (td :: dirs s)) (S (tmpc s)) in
  shrink s (cleanup_dir [] s1 td) [EvUnmount td false false; EvRmDir td] /\
  (forall x, In x (dirs (cleanup_dir [] s1 td)) <-> In x (dirs s) /\ x <> td) /\
  mounts (cleanup_dir [] s1 td) = mounts s.
Proof.
  intros td s1. subst td s1. unfold cleanup_dir, fs_unmount. simpl. split; [|split].
  - constructor; simpl; auto.
    + intros d H. apply rm_dirent_in in H. destruct H as [[H|H] N]; [congruence|exact H].
    + rewrite <- app_assoc. reflexivity.
  - intros x. rewrite rm_dirent_in. simpl. split.
    + intros [[H|H] N]; [congruence|auto].
    + intros [H N]. auto.
  - reflexivity.
Qed.

(* failure of createSnapshot: nothing but the temp directory came and went *)
Lemma create_err s k key parent l s' e :
  create_snapshot s k key parent l = (s', inl e) ->
  exists E, shrink s s' E /\
    (forall id, In (DId id) (dirs s) -> id <= seq s -> In (DId id) (dirs s')) /\
    (forall x, In x (mounts s) -> fst x <= seq s -> In x (mounts s')) /\
    selfd (fun d => exists id, d = DId id /\ seq s < id) E /\ ctrace (fun _ => True) E.
Proof.
  unfold create_snapshot. destruct (closed s) eqn:C.
  { intros H; inversion H; subst. exists []. split; [apply shrink_refl|]. split; [auto|]. split; [auto|].
    split; [apply selfd_nil|constructor]. }
  destruct (tmp_cleanup s) as [Sh1 [D1 M1]].
  set (td := DTemp (tmpc s)) in *.
  set (s1 := set_tmpc (set_dirs s (td :: dirs s)) (S (tmpc s))) in *.
  assert (simple : exists E, shrink s (cleanup_dir [] s1 td) E /\
    (forall id, In (DId id) (dirs s) -> id <= seq s -> In (DId id) (dirs (cleanup_dir [] s1 td))) /\
    (forall x, In x (mounts s) -> fst x <= seq s -> In x (mounts (cleanup_dir [] s1 td))) /\
    selfd (fun d => exists id, d = DId id /\ seq s < id) E /\ ctrace (fun _ => True) E).
  { eexists. split; [exact Sh1|]. split; [|split; [|split]].
    - intros id H _. apply D1. split; auto. unfold td. discriminate.
    - intros x H _. rewrite M1. exact H.
    - apply selfd_pair. discriminate.
    - apply ct_cons; [exact I|discriminate|apply ct_nil]. }
  destruct (meta_create s1 k key parent) as [e0|sn] eqn:MC.
  { intros H; inversion H; subst. exact simple. }
  destruct (negb match sn_parents sn with [] => true | p :: _ => has_dir s1 (DId p) end).
  { intros H; inversion H; subst. exact simple. }
  destruct (has_dir s1 (DId (sn_id sn))) eqn:HD; [|discriminate].
  intros H; inversion H; subst. clear H simple.
  apply meta_create_ok in MC. simpl in MC. destruct MC as [_ [ID _]].
  set (s2 := cleanup_dir [] s1 td) in *.
  destruct (cleanup_dir_spec [] s2 (DId (sn_id sn))) as [lv [ok [Sh2 [D2 [L2 K2]]]]].
  eexists. split; [eapply shrink_trans; eauto|]. split; [|split; [|split]].
  - intros id H Le. rewrite D2. apply rm_dirent_in. split.
    + apply D1. split; auto. unfold td. discriminate.
    + rewrite ID. intros Q. inversion Q. lia.
  - intros x H Le. apply K2.
    + rewrite M1. exact H.
    + rewrite ID. intros Q. inversion Q. lia.
  - apply selfd_app.
    + apply selfd_pair. discriminate.
    + apply selfd_pair. intros _. exists (sn_id sn). split; auto. rewrite ID. lia.
  - apply ct_cons; [exact I|discriminate|apply ct_cons; [exact I|intros _; eauto|apply ct_nil]].
Qed.

(* ---------- preservation: createSnapshot success ---------- *)
Lemma parent_ok_cons m key x i : lookup m key = None -> parent_ok m i -> parent_ok ((key, x) :: m) i.
Proof.
  unfold parent_ok. intros LK H. destruct (i_parent i) as [p|]; auto.
  destruct H as [pi [L K]]. exists pi. split; auto. simpl.
  destruct (Nat.eqb_spec key p); auto. subst. congruence.
Qed.

Lemma topo_del m k : topo m -> (forall n j, In (n, j) m -> i_parent j <> Some k) -> topo (del m k).
Proof.
  induction m as [|[n i] m IH]; simpl; intros T H; auto. destruct T as [T1 T2].
  destruct (Nat.eqb_spec n k).
  - apply IH; auto. intros n1 j F. eapply H; eauto.
  - simpl. split; [|apply IH; auto; intros n1 j F; eapply H; eauto].
    destruct (i_parent i) as [p|] eqn:P; auto. destruct T1 as [pi LP]. exists pi.
    rewrite lookup_del_ne; auto. intros Q; subst. eapply (H n i); eauto.
Qed.


Lemma create_inv s k key parent l s' sn :
  Inv s -> create_snapshot s k key parent l = (s', inr sn) -> Inv s'.
Proof.
  intros I H. apply create_ok in H. destruct H as [C [LK [ID [KD [E [_ [ND PR]]]]]]].
  subst s'. destruct I. constructor; simpl.
  - constructor; auto. apply lookup_none_names. exact LK.
  - constructor; auto. intros F. apply in_ids in F. destruct F as [n [i [F Q]]].
    apply inv_le0 in F. lia.
  - intros n i [F|F].
    + injection F as Q1 Q2; subst n i. simpl. lia.
    + apply inv_le0 in F. lia.
  - intros n i [F|F].
    + injection F as Q1 Q2; subst n i. unfold parent_ok. simpl. destruct parent as [p|]; auto.
      destruct PR as [pi [LP [KP _]]]. exists pi. split; auto.
      destruct (Nat.eqb_spec key p); auto. subst. congruence.
    + apply parent_ok_cons; auto. eapply inv_par0; eauto.
  - split; [|assumption]. destruct parent as [p|]; auto. destruct PR as [pi [LP _]]. eauto.
  - intros id [F|F].
    + inversion F. lia.
    + apply rm_dirent_in in F. destruct F as [[F|F] N]; [discriminate|].
      apply inv_dirs0 in F. lia.
  - intros _ n i [F|F].
    + injection F as Q1 Q2; subst n i. simpl. left. reflexivity.
    + right. apply rm_dirent_in. split; [right; eapply inv_has0; eauto|]. unfold fresh_dir. discriminate.
  - assumption.
  - intros x F. apply inv_mle0 in F. lia.
Qed.

(* ---------- preservation: backend mount ---------- *)
Lemma mount_inv s id l ok : Inv s -> id <= seq s -> mounted s id = false -> Inv (fs_mount s id l ok).
Proof.
  intros I Le NM. unfold fs_mount. destruct ok.
  - destruct I. constructor; simpl; auto.
    + constructor; auto. intros F. apply in_map_iff in F. destruct F as [[a b] [Q F]]. simpl in Q; subst.
      assert (X : mounted s id = true) by (apply mounted_in; eauto). congruence.
    + intros x [F|F]; [subst; simpl; auto|auto].
  - destruct I. constructor; simpl; auto.
Qed.

(* ---------- preservation: commit ---------- *)
Definition parent_checked (m : list (name * info)) (np : option name) : Prop :=
  match np with
  | None => True
  | Some p => exists pi, lookup m p = Some pi /\ i_kind pi = KCommitted
  end.

Lemma commit_ok s nm key l r s' :
  commit_active s nm key l r = (s', None) ->
  closed s = false /\ exists i np, lookup (meta s) key = Some i /\ lookup (meta s) nm = None /\ i_kind i = KActive /\
    commit_parent (i_parent i) (l_wp l) = inr np /\ parent_checked (meta s) np /\
    s' = set_meta s ((nm, mkI (i_id i) KCommitted np l) :: del (meta s) key).
Proof.
  unfold commit_active. destruct (closed s); [discriminate|].
  destruct (lookup (meta s) key) as [i|] eqn:LK; [|discriminate].
  destruct (negb r && negb (has_dir s (DId (i_id i)))); [discriminate|].
  destruct (bad_name nm); [discriminate|].
  destruct (lookup (meta s) nm) eqn:LN; [discriminate|].
  destruct (kind_eqb (i_kind i) KActive) eqn:KA; simpl; [|discriminate].
  destruct (commit_parent (i_parent i) (l_wp l)) as [e|np] eqn:CP; [discriminate|].
  assert (PC : match np with
               | Some p => if Nat.eqb p nm then Some ENotFound else
                           match lookup (del (meta s) key) p with
                           | Some pi => if kind_eqb (i_kind pi) KCommitted then None else Some EFailedPre
                           | None => Some ENotFound
                           end
               | None => None
               end = None -> parent_checked (meta s) np).
  { unfold parent_checked. destruct np as [p|]; auto. destruct (Nat.eqb p nm); [discriminate|].
    destruct (lookup (del (meta s) key) p) as [pi|] eqn:LD; [|discriminate].
    destruct (kind_eqb (i_kind pi) KCommitted) eqn:KC; [|discriminate]. intros _. exists pi. split.
    - destruct (Nat.eqb_spec p key) as [Q|Q]; [subst; rewrite lookup_del_eq in LD; discriminate|].
      rewrite lookup_del_ne in LD; auto.
    - destruct (i_kind pi); simpl in KC; congruence. }
  destruct (match np with
            | Some p => if Nat.eqb p nm then Some ENotFound else
                        match lookup (del (meta s) key) p with
                        | Some pi => if kind_eqb (i_kind pi) KCommitted then None else Some EFailedPre
                        | None => Some ENotFound
                        end
            | None => None
            end); [discriminate|].
  intros H; inversion H; subst. split; auto. exists i, np. split; auto. split; auto. split.
  - destruct (i_kind i); simpl in KA; congruence.
  - auto.
Qed.

Lemma commit_err s nm key l r s' e : commit_active s nm key l r = (s', Some e) -> s' = s.
Proof.
  unfold commit_active. destruct (closed s); [intros H; inversion H; auto|].
  destruct (lookup (meta s) key) as [i|]; [|intros H; inversion H; auto].
  destruct (negb r && negb (has_dir s (DId (i_id i)))); [intros H; inversion H; auto|].
  destruct (bad_name nm); [intros H; inversion H; auto|].
  destruct (lookup (meta s) nm); [intros H; inversion H; auto|].
  destruct (negb (kind_eqb (i_kind i) KActive)); [intros H; inversion H; auto|].
  destruct (commit_parent (i_parent i) (l_wp l)) as [e0|np]; [intros H; inversion H; auto|].
  destruct (match np with
            | Some p => if Nat.eqb p nm then Some ENotFound else
                        match lookup (del (meta s) key) p with
                        | Some pi => if kind_eqb (i_kind pi) KCommitted then None else Some EFailedPre
                        | None => Some ENotFound
                        end
            | None => None
            end); intros H; inversion H; auto.
Qed.

Lemma commit_meta_inv s nm key l i np :
  Inv s -> lookup (meta s) key = Some i -> lookup (meta s) nm = None -> i_kind i = KActive ->
  parent_checked (meta s) np ->
  Inv (set_meta s ((nm, mkI (i_id i) KCommitted np l) :: del (meta s) key)).
Proof.
  intros I LK LN KA PCk. pose proof (lookup_in _ _ _ LK) as IK. destruct I.
  assert (PL : forall p pi, lookup (meta s) p = Some pi -> i_kind pi = KCommitted ->
               lookup (del (meta s) key) p = Some pi /\ p <> nm).
  { intros p pi LP KP. split.
    - rewrite lookup_del_ne; auto. intros Q; subst. rewrite LK in LP. inversion LP; subst. congruence.
    - intros Q; subst. congruence. }
  assert (PK : forall n j, In (n, j) (meta s) -> parent_ok (meta s) j ->
               parent_ok ((nm, mkI (i_id i) KCommitted np l) :: del (meta s) key) j).
  { intros n j F P. unfold parent_ok in *. destruct (i_parent j) as [p|]; auto.
    destruct P as [pi [LP KP]]. exists pi. split; auto. simpl.
    destruct (PL p pi LP KP) as [A B]. destruct (Nat.eqb_spec nm p); [subst; congruence|exact A]. }
  assert (NK : forall n j, In (n, j) (meta s) -> i_parent j <> Some key).
  { intros n j F Q. pose proof (inv_par0 _ _ F) as P. unfold parent_ok in P. rewrite Q in P.
    destruct P as [pi [LP KP]]. rewrite LK in LP. inversion LP; subst. congruence. }
  constructor; simpl.
  - constructor; [|apply del_names_nodup; auto].
    intros F. apply in_map_iff in F. destruct F as [[a b] [Q F]]. simpl in Q; subst.
    apply del_in in F. destruct F as [F _]. eapply lookup_none; eauto.
  - constructor; [|apply del_ids_nodup; auto].
    intros F. apply in_ids in F. destruct F as [n [j [F Q]]]. apply del_in in F. destruct F as [F N].
    assert (X : (n, j) = (key, i)) by (eapply ids_inj; eauto). inversion X. congruence.
  - intros n j [F|F].
    + injection F as Q1 Q2; subst n j. simpl. eapply inv_le0; eauto.
    + apply del_in in F. destruct F as [F _]. eapply inv_le0; eauto.
  - intros n j [F|F].
    + injection F as Q1 Q2; subst n j. unfold parent_ok, parent_checked in *. simpl.
      destruct np as [p|]; auto. destruct PCk as [pi [LP KP]]. exists pi. split; auto.
      destruct (PL p pi LP KP) as [A B]. destruct (Nat.eqb_spec nm p); [subst; congruence|exact A].
    + apply del_in in F. destruct F as [F _]. eapply PK; eauto.
  - split; [|apply topo_del; auto].
    unfold parent_checked in PCk. destruct np as [p|]; auto. destruct PCk as [pi [LP KP]].
    exists pi. apply (PL p pi LP KP).
  - assumption.
  - intros C n j [F|F].
    + injection F as Q1 Q2; subst n j. simpl. eapply inv_has0; eauto.
    + apply del_in in F. destruct F as [F _]. eapply inv_has0; eauto.
  - assumption.
  - assumption.
Qed.

Lemma commit_inv s nm key l r s' x : Inv s -> commit_active s nm key l r = (s', x) -> Inv s'.
Proof.
  intros I H. destruct x as [e|].
  - apply commit_err in H. subst. exact I.
  - apply commit_ok in H. destruct H as [_ [i [np [LK [LN [KA [_ [PCk E]]]]]]]]. subst. apply commit_meta_inv; auto.
Qed.

(* ---------- preservation: metadata removal, label update ---------- *)
Lemma remove_meta_inv s key i e :
  Inv s -> lookup (meta s) key = Some i -> has_child (meta s) key = false ->
  Inv (emit (set_meta s (del (meta s) key)) e).
Proof.
  intros I LK HC. destruct I. constructor; simpl.
  - apply del_names_nodup; auto.
  - apply del_ids_nodup; auto.
  - intros n j F. apply del_in in F. destruct F as [F _]. eauto.
  - intros n j F. apply del_in in F. destruct F as [F N].
    pose proof (inv_par0 _ _ F) as P. unfold parent_ok in *. destruct (i_parent j) as [p|] eqn:PJ; auto.
    destruct P as [pi [LP R]]. exists pi. split; auto. rewrite lookup_del_ne; auto.
    intros Q; subst. eapply has_child_false; eauto.
  - apply topo_del; auto. apply has_child_false. exact HC.
  - assumption.
  - intros C n j F. apply del_in in F. destruct F as [F _]. eauto.
  - assumption.
  - assumption.
Qed.

Lemma topo_upd m k l : topo m -> topo (upd_labels m k l).
Proof.
  induction m as [|[n i] m IH]; simpl; intros T; auto. destruct T as [T1 T2].
  assert (X : forall p, (exists pi, lookup m p = Some pi) -> exists pi, lookup (upd_labels m k l) p = Some pi).
  { intros p [pi LP]. rewrite upd_lookup, LP. eauto. }
  destruct (Nat.eqb n k); simpl; (split; [|apply IH; exact T2]); destruct (i_parent i); auto.
Qed.

Lemma update_inv s nm l : Inv s -> Inv (set_meta s (upd_labels (meta s) nm l)).
Proof.
  intros I. destruct I. constructor; simpl.
  - rewrite upd_names. assumption.
  - rewrite upd_ids. assumption.
  - intros n i' F. apply upd_in in F. destruct F as [i [F [Q _]]]. rewrite Q. eauto.
  - intros n i' F. apply upd_in in F. destruct F as [i [F [Q1 [Q2 Q3]]]].
    pose proof (inv_par0 _ _ F) as P. unfold parent_ok in *. rewrite Q3.
    destruct (i_parent i) as [p|]; auto. destruct P as [pi [LP KP]].
    rewrite upd_lookup, LP. eexists. split; [reflexivity|]. destruct (Nat.eqb p nm); simpl; auto.
  - apply topo_upd. assumption.
  - assumption.
  - intros C n i' F. apply upd_in in F. destruct F as [i [F [Q _]]]. rewrite Q. eauto.
  - assumption.
  - assumption.
Qed.

(* ---------- preservation: cleanup ---------- *)
Lemma cleanup_list_in s c d : In d (cleanup_list s c) <->
  In d (dirs s) /\ match d with
                   | DId id => if c then In id (remote_ids (meta s)) else ~ In id (ids_of (meta s))
                   | DTemp _ => c = false
                   end.
Proof.
  unfold cleanup_list. rewrite filter_In. destruct d as [id|n]; destruct c; simpl.
  - rewrite mem_in. tauto.
  - rewrite negb_true_iff, mem_false. tauto.
  - split; intros [A B]; split; auto; discriminate.
  - tauto.
Qed.

Lemma cleanup_inv ub s : Inv s -> Inv (cleanup_dirs ub s (cleanup_list s false)).
Proof.
  intros I. destruct (cleanup_dirs_spec ub (cleanup_list s false) s) as [E [Sh [D _]]].
  eapply inv_shrink; eauto. intros C n i F. apply D. split.
  - eapply inv_has; eauto.
  - intros Q. apply cleanup_list_in in Q. destruct Q as [_ Q]. apply Q. apply in_ids. eauto.
Qed.

Lemma emit_shrink s e : shrink s (emit s e) [e].
Proof. constructor; simpl; auto. Qed.

Lemma emit_inv s e : Inv s -> Inv (emit s e).
Proof. intros I. eapply inv_shrink; [exact I|apply emit_shrink|]. simpl. intros. eapply inv_has; eauto. Qed.

Lemma closed_inv s s' E : Inv s -> shrink s s' E -> Inv (set_closed s' true).
Proof.
  intros I Sh. destruct I, Sh. constructor; simpl.
  - rewrite sh_meta. assumption.
  - rewrite sh_meta. assumption.
  - rewrite sh_meta, sh_seq. assumption.
  - rewrite sh_meta. assumption.
  - rewrite sh_meta. assumption.
  - rewrite sh_seq. auto.
  - discriminate.
  - auto.
  - rewrite sh_seq. auto.
Qed.

Lemma check_avail_shrink cbad s key : exists E, shrink s (fst (check_avail cbad s key)) E /\
  dirs (fst (check_avail cbad s key)) = dirs s /\ mounts (fst (check_avail cbad s key)) = mounts s /\ Forall is_check E.
Proof.
  unfold check_avail. destruct (closed s).
  - exists []. split; [apply shrink_refl|]. simpl. auto.
  - destruct (check_chain_spec cbad (fuel_of s) s key) as [E [Sh [D [M [F _]]]]]. exists E. auto.
Qed.

Lemma mounts_of_inv cbad s sn ck : Inv s -> Inv (fst (mounts_of cbad s sn ck)).
Proof.
  intros I. unfold mounts_of. destruct ck as [k|]; [|exact I].
  destruct (check_avail_shrink cbad s k) as [E [Sh [D _]]].
  destruct (check_avail cbad s k) as [s1 ok] eqn:Q. simpl in *.
  assert (Inv s1). { eapply inv_shrink; eauto. rewrite D. intros. eapply inv_has; eauto. }
  destruct ok; exact H.
Qed.

(* ---------- every operation preserves the invariant ---------- *)
Lemma step_inv s o : Inv s -> Inv (fst (step s o)).
Proof.
  intros I. destruct o; simpl; nrm.
  - (* Prepare *)
    unfold do_prepare. destruct (create_snapshot s KActive key parent l) as [s1 [e|sn]] eqn:CS.
    + simpl. apply create_err in CS. destruct CS as [E [Sh [KD _]]].
      eapply inv_shrink; eauto. intros C n i F. apply KD; [eapply inv_has; eauto|eapply inv_le; eauto].
    + pose proof (create_inv _ _ _ _ _ _ _ I CS) as I1.
      pose proof (create_ok _ _ _ _ _ _ _ CS) as OK. destruct OK as [C [LK [ID [KD [E1 _]]]]].
      destruct (l_target lm) as [t|]; [|apply mounts_of_inv; exact I1].
      destruct (lookup (meta s1) key) as [i|] eqn:LK1; [|apply mounts_of_inv; exact I1].
      assert (IDi : i_id i = S (seq s) /\ seq s1 = S (seq s) /\ mounts s1 = mounts s).
      { subst s1. simpl in *. rewrite Nat.eqb_refl in LK1. inversion LK1; subst. simpl. auto. }
      destruct IDi as [IDi [SQ MS]].
      assert (I2 : Inv (fs_mount s1 (i_id i) lm mok)).
      { apply mount_inv; auto; [lia|].
        destruct (mounted s1 (i_id i)) eqn:M; auto. apply mounted_in in M. destruct M as [lb M].
        rewrite MS in M. apply (inv_mle _ I) in M. simpl in M. lia. }
      destruct mok; [|apply mounts_of_inv; exact I2].
      destruct (commit_active (fs_mount s1 (i_id i) lm true) t key (set_remote l) true) as [s3 x] eqn:CA.
      pose proof (commit_inv _ _ _ _ _ _ _ I2 CA) as I3.
      destruct x as [[]|]; simpl; auto. apply emit_inv. exact I3.
  - (* View *)
    unfold do_view. destruct (create_snapshot s KView key parent l) as [s1 [e|sn]] eqn:CS.
    + simpl. apply create_err in CS. destruct CS as [E [Sh [KD _]]].
      eapply inv_shrink; eauto. intros C n i F. apply KD; [eapply inv_has; eauto|eapply inv_le; eauto].
    + apply mounts_of_inv. eapply create_inv; eauto.
  - (* Commit *)
    destruct (commit_active s nm key l false) as [s1 r] eqn:CA. simpl. eapply commit_inv; eauto.
  - (* Mounts *)
    unfold do_mounts. destruct (closed s); [exact I|].
    destruct (lookup (meta s) key) as [i|]; [|exact I].
    destruct (kind_eqb (i_kind i) KCommitted); [exact I|].
    destruct (i_parent i) as [p|]; [|apply mounts_of_inv; exact I].
    destruct (parents (fuel_of s) (meta s) p); try exact I. apply mounts_of_inv; exact I.
  - (* Remove *)
    unfold do_remove. destruct (closed s); [exact I|].
    destruct (lookup (meta s) key) as [i|] eqn:LK; [|exact I].
    destruct (has_child (meta s) key) eqn:HC; [exact I|].
    destruct (match i_parent i with
              | Some p => match lookup (meta s) p with Some _ => false | None => true end
              | None => false
              end); [exact I|].
    pose proof (remove_meta_inv s key i (EvMetaRemove (i_id i)) I LK HC) as I1.
    destruct (async s); simpl; [exact I1|]. apply cleanup_inv. exact I1.
  - (* Cleanup *)
    unfold do_cleanup. destruct (closed s); [exact I|].
    simpl. apply cleanup_inv. exact I.
  - (* Update *)
    unfold do_update. destruct (closed s); [exact I|].
    destruct (lookup (meta s) nm); [|exact I]. simpl. apply update_inv. exact I.
  - (* Stat *)
    unfold do_stat. destruct (closed s); [exact I|]. destruct (lookup (meta s) nm); exact I.
  - (* Close *)
    unfold do_close. destruct (closed s); [exact I|].
    destruct (Nat.eqb (seq s) 0); simpl.
    + eapply closed_inv; [exact I|apply emit_shrink].
    + destruct (cleanup_dirs_spec ubad (cleanup_list (emit s EvClose) true) (emit s EvClose)) as [E [Sh _]].
      eapply closed_inv; [exact I|]. eapply shrink_trans; [apply emit_shrink|exact Sh].
Qed.

Lemma exec_inv os : forall s, Inv s -> Inv (exec s os).
Proof.
  induction os as [|o os IH]; intros s I; simpl; auto. apply IH. apply step_inv. exact I.
Qed.

Lemma reach_inv a os : Inv (exec (init a) os).
Proof. apply exec_inv. apply inv_init. Qed.
