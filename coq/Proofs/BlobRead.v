(* Proofs about Model/BlobRead.v. *)
From Coq Require Import List ZArith NArith Bool Lia Sorted.
From SV Require Import Model.Region Model.BlobRead Proofs.Region.
Import ListNotations.
Open Scope Z_scope.

(* ------------------------------------------------------------------------------------------ *)
(* list facts *)

Lemma nth_error_firstn_lt {A} (l : list A) : forall n x, (x < n)%nat -> nth_error (firstn n l) x = nth_error l x.
Proof.
  induction l as [|h t IH]; intros n x Hx.
  - rewrite firstn_nil. reflexivity.
  - destruct n; [lia|]. destruct x; simpl; auto. apply IH. lia.
Qed.

Lemma nth_error_firstn_ge {A} (l : list A) : forall n x, (n <= x)%nat -> nth_error (firstn n l) x = None.
Proof.
  intros n x Hx. apply nth_error_None. rewrite firstn_length. lia.
Qed.

Lemma nth_error_skipn_add {A} (l : list A) : forall n x, nth_error (skipn n l) x = nth_error l (n + x).
Proof.
  induction l as [|h t IH]; intros n x.
  - rewrite skipn_nil. destruct x, n; reflexivity.
  - destruct n; simpl; auto.
Qed.

Lemma skipn_skipn_add {A} (l : list A) : forall i m, skipn m (skipn i l) = skipn (i + m) l.
Proof.
  induction l as [|h t IH]; intros i m.
  - rewrite !skipn_nil. reflexivity.
  - destruct i; simpl; auto.
Qed.

Lemma list_ext {A} : forall (l1 l2 : list A),
  length l1 = length l2 -> (forall x, (x < length l1)%nat -> nth_error l1 x = nth_error l2 x) -> l1 = l2.
Proof.
  induction l1 as [|a l1 IH]; intros [|b l2] Hl Hn; simpl in Hl; try discriminate; auto.
  f_equal.
  - specialize (Hn 0%nat). simpl in Hn. assert (Some a = Some b) by (apply Hn; lia). congruence.
  - apply IH; [lia|]. intros x Hx. apply (Hn (S x)). simpl. lia.
Qed.

Lemma write_at_length p : forall k src, length (write_at p k src) = length p.
Proof.
  induction p as [|h t IH]; intros k src; simpl; auto.
  destruct k; simpl; [destruct src; simpl|]; auto.
Qed.

Lemma write_at_in p : forall k src x,
  (k <= x < k + length src)%nat -> (x < length p)%nat ->
  nth_error (write_at p k src) x = nth_error src (x - k).
Proof.
  induction p as [|h t IH]; intros k src x Hx Hp; simpl in Hp; [lia|].
  destruct k as [|k'].
  - destruct src as [|s src']; simpl in Hx; [lia|].
    simpl. destruct x as [|x']; simpl; auto.
    rewrite IH; simpl; try lia. f_equal. lia.
  - simpl. destruct x as [|x']; [lia|]. simpl. apply IH; simpl in *; lia.
Qed.

Lemma write_at_out p : forall k src x,
  (x < k \/ k + length src <= x)%nat ->
  nth_error (write_at p k src) x = nth_error p x.
Proof.
  induction p as [|h t IH]; intros k src x Hx; simpl; auto.
  destruct k as [|k'].
  - destruct src as [|s src']; auto.
    simpl in Hx. destruct x as [|x']; [lia|]. simpl. apply IH. simpl. lia.
  - destruct x as [|x']; simpl; auto. apply IH. lia.
Qed.

Lemma write_at_nil p k : write_at p k [] = p.
Proof.
  apply list_ext; [apply write_at_length|].
  intros x _. apply write_at_out. simpl. lia.
Qed.

(* ------------------------------------------------------------------------------------------ *)
(* honest writes: every copy into the caller's buffer puts blob byte o+x at position x *)

Definition okpos (B : bytes) (o : nat) (p : bytes) (x : nat) : Prop := nth_error p x = nth_error B (o + x).

(* src is a run of B starting at index i *)
Definition prefix_at (B : bytes) (i : nat) (src : bytes) : Prop := exists k, src = firstn k (skipn i B).

Lemma prefix_nth B i src x : prefix_at B i src -> (x < length src)%nat -> nth_error src x = nth_error B (i + x).
Proof.
  intros [k ->] Hx. rewrite firstn_length in Hx.
  rewrite nth_error_firstn_lt by lia. apply nth_error_skipn_add.
Qed.

Lemma prefix_firstn B i src m : prefix_at B i src -> prefix_at B i (firstn m src).
Proof. intros [k ->]. exists (Nat.min m k). apply firstn_firstn. Qed.

Lemma prefix_skipn B i src m : prefix_at B i src -> prefix_at B (i + m) (skipn m src).
Proof.
  intros [k ->]. exists (k - m)%nat. rewrite skipn_firstn_comm, skipn_skipn_add. reflexivity.
Qed.

Lemma prefix_slice_full B i n : prefix_at B i (firstn n (skipn i B)).
Proof. exists n. reflexivity. Qed.

Definition sound (B : bytes) (o : nat) (p p' : bytes) : Prop :=
  length p' = length p /\ forall x, nth_error p' x = nth_error p x \/ okpos B o p' x.

Lemma sound_refl B o p : sound B o p p.
Proof. split; auto. Qed.

Lemma sound_trans B o p1 p2 p3 : sound B o p1 p2 -> sound B o p2 p3 -> sound B o p1 p3.
Proof.
  intros [L1 H1] [L2 H2]. split; [congruence|].
  intros x. destruct (H2 x) as [E|E]; auto. destruct (H1 x) as [E'|E']; [left; congruence|].
  right. unfold okpos in *. congruence.
Qed.

(* window [base, base+len) of p holds the right blob bytes *)
Definition win (B : bytes) (o : nat) (p : bytes) (base len : nat) : Prop :=
  forall x, (base <= x < base + len)%nat -> okpos B o p x.

Lemma sound_win B o p p' base len : sound B o p p' -> win B o p base len -> win B o p' base len.
Proof.
  intros [L H] W x Hx. destruct (H x) as [E|E]; auto. unfold okpos in *. rewrite E. apply W. exact Hx.
Qed.

Lemma write_honest B o p k src :
  prefix_at B (o + k) src ->
  sound B o p (write_at p k src) /\
  (forall x, (k <= x < k + length src)%nat -> (x < length p)%nat -> okpos B o (write_at p k src) x).
Proof.
  intros Hp.
  assert (Hin : forall x, (k <= x < k + length src)%nat -> (x < length p)%nat -> okpos B o (write_at p k src) x).
  { intros x Hx Hl. unfold okpos. rewrite write_at_in by auto.
    rewrite (prefix_nth B (o + k) src) by (auto; lia). f_equal. lia. }
  split; auto. split; [apply write_at_length|].
  intros x.
  destruct (le_lt_dec k x) as [H1|H1]; [destruct (le_lt_dec (k + length src) x) as [H2|H2]|].
  - left. apply write_at_out. lia.
  - destruct (le_lt_dec (length p) x) as [H3|H3].
    + left. rewrite (proj2 (nth_error_None _ _)) by (rewrite write_at_length; lia).
      symmetry. apply nth_error_None. lia.
    + right. apply Hin; lia.
  - left. apply write_at_out. lia.
Qed.

(* ------------------------------------------------------------------------------------------ *)
(* bytesWriter *)

Lemma positive_max z : positive z = Z.max 0 z.
Proof. unfold positive. destruct (Z.ltb_spec z 0); lia. Qed.

Lemma zlen_nonneg {A} (l : list A) : 0 <= zlen l.
Proof. unfold zlen. lia. Qed.

Lemma region_eqb_eq a b : region_eqb a b = true <-> a = b.
Proof.
  unfold region_eqb, rb, re. destruct a as [a1 a2], b as [b1 b2]; simpl.
  rewrite andb_true_iff, !Z.eqb_eq. split; [intros [-> ->]; auto | intros H; inversion H; auto].
Qed.

Lemma region_eqb_refl a : region_eqb a a = true.
Proof. apply region_eqb_eq. reflexivity. Qed.

Lemma region_eqb_sym a b : region_eqb a b = region_eqb b a.
Proof.
  destruct (region_eqb a b) eqn:E.
  - apply region_eqb_eq in E. subst. symmetry. apply region_eqb_refl.
  - destruct (region_eqb b a) eqn:E'; auto. apply region_eqb_eq in E'. subst. rewrite region_eqb_refl in E. discriminate.
Qed.

(* geometry of a writer for a read whose first byte is blob index o: window inside p, and position base in p
   corresponds to stream (chunk) position w_off *)
Definition wgeo (o : nat) (p : bytes) (w : writer) : Prop :=
  0 <= w_base w /\ 0 <= w_len w /\ 0 <= w_off w /\ w_base w + w_len w <= zlen p /\
  0 <= rb (w_chunk w) /\ Z.of_nat o + w_base w = rb (w_chunk w) + w_off w /\
  w_off w + w_len w <= rsize (w_chunk w) /\ 0 < rsize (w_chunk w).

(* a Write of data that really is the chunk's content at stream position w_cur only puts right bytes *)
Lemma bw_write_honest B o p w data :
  wgeo o p w -> 0 <= w_cur w ->
  prefix_at B (Z.to_nat (rb (w_chunk w) + w_cur w)) data ->
  exists p', bw_write p w data = Some (p', w_advance w (zlen data)) /\ sound B o p p' /\
    (forall x, w_base w <= Z.of_nat x < w_base w + w_len w ->
               w_cur w <= w_off w + (Z.of_nat x - w_base w) < w_cur w + zlen data -> okpos B o p' x).
Proof.
  intros (G1 & G2 & G3 & G4 & G5 & G6 & G7 & G8) Hc Hp.
  unfold bw_write. rewrite !positive_max.
  pose proof (zlen_nonneg data) as Hd.
  destruct (Z.ltb_spec (w_len w) (Z.max 0 (w_cur w - w_off w))) as [E1|E1].
  { exists p. split; auto. split; [apply sound_refl|]. intros x Hx Hq. lia. }
  destruct (Z.leb_spec (zlen data) (Z.max 0 (w_off w - w_cur w))) as [E2|E2].
  { exists p. split; auto. split; [apply sound_refl|]. intros x Hx Hq. lia. }
  set (pEnd := if zlen data <? Z.max 0 (w_off w + w_len w - w_cur w) then zlen data
               else Z.max 0 (w_off w + w_len w - w_cur w)).
  assert (HpEnd : pEnd = Z.min (zlen data) (Z.max 0 (w_off w + w_len w - w_cur w))).
  { unfold pEnd. destruct (Z.ltb_spec (zlen data) (Z.max 0 (w_off w + w_len w - w_cur w))); lia. }
  destruct (Z.ltb_spec pEnd (Z.max 0 (w_off w - w_cur w))) as [E3|E3]; [lia|].
  unfold copy_into, slice.
  set (k := Z.to_nat (w_base w + Z.max 0 (w_cur w - w_off w))).
  set (src := firstn (Z.to_nat (w_len w - Z.max 0 (w_cur w - w_off w)))
                (firstn (Z.to_nat (pEnd - Z.max 0 (w_off w - w_cur w)))
                   (skipn (Z.to_nat (Z.max 0 (w_off w - w_cur w))) data))).
  assert (Hsrc : prefix_at B (o + k) src).
  { unfold src. apply prefix_firstn, prefix_firstn.
    replace (o + k)%nat with (Z.to_nat (rb (w_chunk w) + w_cur w) + Z.to_nat (Z.max 0 (w_off w - w_cur w)))%nat
      by (unfold k; lia).
    apply prefix_skipn. exact Hp. }
  destruct (write_honest B o p k src Hsrc) as [Hs Hcov].
  eexists. split; [reflexivity|]. split; [exact Hs|].
  intros x Hx Hq. apply Hcov.
  - unfold src. rewrite !firstn_length, skipn_length. unfold zlen in *. unfold k. lia.
  - unfold zlen in G4. lia.
Qed.

(* a writer that has seen its whole chunk ignores everything that follows *)
Lemma bw_write_inert p w data :
  0 <= w_len w -> 0 <= w_off w -> w_off w + w_len w <= rsize (w_chunk w) -> rsize (w_chunk w) <= w_cur w ->
  bw_write p w data = Some (p, w_advance w (zlen data)).
Proof.
  intros G2 G3 G7 Hc. unfold bw_write. rewrite !positive_max.
  pose proof (zlen_nonneg data) as Hd.
  destruct (Z.ltb_spec (w_len w) (Z.max 0 (w_cur w - w_off w))) as [E1|E1]; auto.
  destruct (Z.leb_spec (zlen data) (Z.max 0 (w_off w - w_cur w))) as [E2|E2]; auto.
  destruct (Z.ltb_spec (zlen data) (Z.max 0 (w_off w + w_len w - w_cur w))) as [E4|E4]; [lia|].
  destruct (Z.ltb_spec (Z.max 0 (w_off w + w_len w - w_cur w)) (Z.max 0 (w_off w - w_cur w))) as [E3|E3]; [lia|].
  unfold copy_into. replace (w_len w - Z.max 0 (w_cur w - w_off w)) with 0 by lia.
  simpl. rewrite write_at_nil. reflexivity.
Qed.

(* invariant of one writer during a read: geometry, and either untouched or complete with its window right *)
Definition wok (B : bytes) (o : nat) (p : bytes) (w : writer) : Prop :=
  wgeo o p w /\ re (w_chunk w) < zlen B /\
  (w_cur w = 0 \/ (rsize (w_chunk w) <= w_cur w /\ win B o p (Z.to_nat (w_base w)) (Z.to_nat (w_len w)))).

Lemma wgeo_len o p p' w : length p' = length p -> wgeo o p w -> wgeo o p' w.
Proof. unfold wgeo, zlen. intros ->. auto. Qed.

Lemma wok_sound B o p p' w : sound B o p p' -> wok B o p w -> wok B o p' w.
Proof.
  intros Hs [G [R C]]. split; [exact (wgeo_len o p p' w (proj1 Hs) G)|]. split; [exact R|].
  destruct C as [C|[C W]]; auto. right. split; auto. eapply sound_win; eauto.
Qed.

Definition seen_done (seen : list region) (w : writer) : Prop :=
  mem_region (w_chunk w) seen = true -> rsize (w_chunk w) <= w_cur w.

Lemma ws_write_ok B o c data seen : forall ws p,
  Forall (wok B o p) ws -> Forall (seen_done seen) ws ->
  prefix_at B (Z.to_nat (rb c)) data ->
  exists p' ws', ws_write p ws c data = Some (p', ws') /\ sound B o p p' /\
    (zlen data = rsize c -> Forall (wok B o p') ws' /\ Forall (seen_done (c :: seen)) ws').
Proof.
  induction ws as [|w t IH]; intros p Hw Hsd Hp.
  - exists p, []. simpl. split; auto. split; [apply sound_refl|]. intros _. split; constructor.
  - inversion Hw as [|? ? Hw1 Hwt]; subst. inversion Hsd as [|? ? Hs1 Hst]; subst.
    cbn [ws_write].
    destruct (region_eqb (w_chunk w) c) eqn:E.
    + apply region_eqb_eq in E.
      assert (Hbw : exists p1, bw_write p w data = Some (p1, w_advance w (zlen data)) /\ sound B o p p1 /\
                (zlen data = rsize c -> wok B o p1 (w_advance w (zlen data)) /\ rsize c <= w_cur w + zlen data)).
      { destruct Hw1 as [G [R C]]. destruct C as [C|[C W]].
        - destruct (bw_write_honest B o p w data G) as (p1 & E1 & S1 & Cov).
          + lia.
          + rewrite C, E. replace (rb c + 0) with (rb c) by lia. exact Hp.
          + exists p1. split; auto. split; auto. intros Hfull. split; [|lia]. split.
            * exact (wgeo_len o p p1 w (proj1 S1) G).
            * split; [exact R|]. right. simpl. split; [rewrite E; lia|].
              intros x Hx. apply Cov; destruct G as (G1 & G2 & G3 & G4 & G5 & G6 & G7 & G8); rewrite E in *; lia.
        - exists p. split; [|split; [apply sound_refl|]].
          + destruct G as (G1 & G2 & G3 & G4 & G5 & G6 & G7 & G8). apply bw_write_inert; auto.
          + intros Hfull. pose proof (zlen_nonneg data). split; [|rewrite <- E; lia].
            split; [exact G|]. split; [exact R|]. right. simpl. split; [lia|exact W]. }
      destruct Hbw as (p1 & E1 & S1 & F1). rewrite E1.
      destruct (IH p1) as (p2 & t' & E2 & S2 & F2); auto.
      { eapply Forall_impl; [|exact Hwt]. intros a. apply wok_sound. exact S1. }
      rewrite E2. exists p2, (w_advance w (zlen data) :: t'). split; auto.
      split; [eapply sound_trans; eauto|].
      intros Hfull. destruct (F1 Hfull) as [Wk Dn]. destruct (F2 Hfull) as [Wt Dt]. split; constructor; auto.
      * eapply wok_sound; eauto.
      * intros _. simpl. rewrite E. exact Dn.
    + destruct (IH p) as (p2 & t' & E2 & S2 & F2); auto.
      rewrite E2. exists p2, (w :: t'). split; auto. split; auto.
      intros Hfull. destruct (F2 Hfull) as [Wt Dt]. split; constructor; auto.
      * eapply wok_sound; eauto.
      * intros Hm. simpl in Hm. rewrite region_eqb_sym, E in Hm. simpl in Hm. apply Hs1. exact Hm.
Qed.

(* ------------------------------------------------------------------------------------------ *)
(* walkChunks *)

Lemma walk_loop_nil f size cs i e : size <= i -> walk_loop f size cs i e = [].
Proof.
  intros H. destruct f; simpl; auto.
  destruct (Z.ltb_spec i size); [lia|]. rewrite andb_false_r. reflexivity.
Qed.

(* every visited chunk starts in [i, e], below size, on the grid i + k*cs, and is clipped to the blob *)
Lemma walk_loop_in size cs e : 0 < cs -> forall f i c,
  In c (walk_loop f size cs i e) ->
  i <= rb c /\ rb c <= e /\ rb c < size /\ re c = Z.min (rb c + cs - 1) (size - 1) /\ (rb c - i) mod cs = 0.
Proof.
  intros Hcs. induction f as [|f IH]; intros i c Hin; simpl in Hin; [contradiction|].
  destruct (Z.leb_spec i e); destruct (Z.ltb_spec i size); simpl in Hin; try contradiction.
  destruct Hin as [<-|Hin].
  - unfold rb, re; simpl. rewrite Z.sub_diag, Z.mod_0_l by lia.
    destruct (Z.leb_spec size (i + cs - 1)); lia.
  - apply IH in Hin. destruct Hin as (H1 & H2 & H3 & H4 & H5). repeat split; try lia.
    replace (rb c - i) with ((rb c - (i + cs)) + 1 * cs) by lia. rewrite Z.mod_add by lia. exact H5.
Qed.

(* with the fuel of walk_fuel, every byte of [i, e] below size lies in a visited chunk *)
Lemma walk_loop_cover size cs e y : 0 < cs -> forall f i,
  (Z.min e (size - 1) - i) / cs + 1 <= Z.of_nat f ->
  i <= y -> y <= e -> y < size ->
  exists c, In c (walk_loop f size cs i e) /\ rb c <= y <= re c.
Proof.
  intros Hcs. induction f as [|f IH]; intros i Hf H1 H2 H3.
  - assert (0 <= (Z.min e (size - 1) - i) / cs) by (apply Z.div_pos; lia). lia.
  - simpl. destruct (Z.leb_spec i e); [|lia]. destruct (Z.ltb_spec i size); [|lia]. simpl.
    destruct (Z_le_gt_dec y (i + cs - 1)) as [Hy|Hy].
    + eexists. split; [left; reflexivity|]. unfold rb, re; simpl.
      destruct (Z.leb_spec size (i + cs - 1)); lia.
    + destruct (IH (i + cs)) as (c & Hin & Hc); try lia.
      * replace (Z.min e (size - 1) - (i + cs)) with ((Z.min e (size - 1) - i) + (-1) * cs) by lia.
        rewrite Z.div_add by lia. lia.
      * exists c. split; auto.
Qed.

Lemma floor_spec a u : 0 <= a -> 0 < u -> floorZ a u = u * (a / u).
Proof. intros. unfold floorZ. rewrite Z.quot_div_nonneg by lia. lia. Qed.

Lemma ceil_spec a u : 0 <= a -> 0 < u -> ceilZ a u = u * (a / u) + u.
Proof. intros. unfold ceilZ. rewrite Z.quot_div_nonneg by lia. lia. Qed.

(* the chunks ReadAt walks for [off, off+n) *)
Lemma read_walk size cs off n :
  0 < cs -> 0 <= off -> 0 < n ->
  exists chunks, walk_chunks size cs (all_region cs off n) = Some chunks /\
    (forall c, In c chunks ->
       0 <= rb c /\ rb c <= re c /\ re c < size /\ rb c <= off + n - 1 /\ (off <= size -> off <= re c + 1)) /\
    (forall y, off <= y < off + n -> y < size -> exists c, In c chunks /\ rb c <= y <= re c).
Proof.
  intros Hcs Hoff Hn. unfold walk_chunks, all_region. cbn [rb re fst snd].
  rewrite floor_spec, ceil_spec by lia.
  pose proof (Z.mul_div_le off cs Hcs) as Hf1.
  pose proof (Z.mod_pos_bound off cs Hcs) as Hf2.
  pose proof (Z.div_mod off cs ltac:(lia)) as Hf3.
  pose proof (Z.mod_pos_bound (off + n - 1) cs Hcs) as Hc2.
  pose proof (Z.div_mod (off + n - 1) cs ltac:(lia)) as Hc3.
  assert (Hfl0 : 0 <= cs * (off / cs)) by (apply Z.mul_nonneg_nonneg; [lia|apply Z.div_pos; lia]).
  rewrite Z.rem_mod_nonneg by lia.
  rewrite Z.mul_comm, Z.mod_mul by lia. simpl.
  eexists. split; [reflexivity|]. split.
  - intros c Hin. apply (walk_loop_in size cs _ Hcs) in Hin.
    destruct Hin as (H1 & H2 & H3 & H4 & H5).
    assert (Hal : rb c mod cs = 0).
    { replace (rb c) with ((rb c - off / cs * cs) + (off / cs) * cs) by lia. rewrite Z.mod_add by lia. exact H5. }
    assert (Hle : rb c <= off + n - 1).
    { pose proof (Z.div_mod (rb c) cs ltac:(lia)) as Hd. rewrite Hal in Hd.
      assert (rb c / cs < (off + n - 1) / cs + 1) by nia.
      nia. }
    repeat split; try lia.
  - intros y Hy Hs.
    apply (walk_loop_cover size cs _ y Hcs); try lia.
    unfold walk_fuel. rewrite Z2Nat.id; [lia|].
    assert (0 <= (Z.min (cs * ((off + n - 1) / cs) + cs - 1) (size - 1) - off / cs * cs) / cs) by (apply Z.div_pos; lia).
    lia.
Qed.

(* ------------------------------------------------------------------------------------------ *)
(* cache and committed-set invariants *)

Lemma cache_get_del ch k r : cache_get (cache_del ch k) r = if region_eqb k r then None else cache_get ch r.
Proof.
  induction ch as [|[k' d] t IH]; simpl.
  - destruct (region_eqb k r); reflexivity.
  - destruct (region_eqb k' k) eqn:E.
    + apply region_eqb_eq in E. subst k'. rewrite IH. destruct (region_eqb k r); reflexivity.
    + simpl. destruct (region_eqb k' r) eqn:E2.
      * apply region_eqb_eq in E2. subst k'. rewrite region_eqb_sym, E. reflexivity.
      * exact IH.
Qed.

Lemma cache_get_put ch k d r : cache_get (cache_put ch k d) r = if region_eqb k r then Some d else cache_get ch r.
Proof.
  unfold cache_put. simpl. destruct (region_eqb k r) eqn:E; auto. rewrite cache_get_del, E. reflexivity.
Qed.

Definition chunk_in (c : cfg) (r : region) : Prop := 0 <= rb r /\ rb r <= re r /\ re r < c_size c.

Definition SI (c : cfg) (B : bytes) (ch : cache) (fe ev : list region) : Prop :=
  cache_honest B ch /\ Good fe /\ Forall (chunk_in c) ev /\ (forall x, covered fe x <-> covered ev x).

Definition wsafe (w : writer) : Prop := 0 <= w_len w.

Lemma bw_write_some p w data : wsafe w -> exists p', bw_write p w data = Some (p', w_advance w (zlen data)).
Proof.
  unfold wsafe. intros Hl. unfold bw_write. rewrite !positive_max.
  pose proof (zlen_nonneg data) as Hd.
  destruct (Z.ltb_spec (w_len w) (Z.max 0 (w_cur w - w_off w))); [eauto|].
  destruct (Z.leb_spec (zlen data) (Z.max 0 (w_off w - w_cur w))); [eauto|].
  destruct (Z.ltb_spec (zlen data) (Z.max 0 (w_off w + w_len w - w_cur w)));
  match goal with |- context [if ?a <? ?b then _ else _] => destruct (Z.ltb_spec a b) end; try lia; eauto.
Qed.

Lemma ws_write_some c data : forall ws p, Forall wsafe ws ->
  exists p' ws', ws_write p ws c data = Some (p', ws') /\ Forall wsafe ws'.
Proof.
  induction ws as [|w t IH]; intros p Hs; simpl.
  - exists p, []. auto.
  - inversion Hs as [|? ? H1 Ht]; subst.
    destruct (region_eqb (w_chunk w) c).
    + destruct (bw_write_some p w data H1) as (p1 & E1). rewrite E1.
      destruct (IH p1 Ht) as (p2 & t' & E2 & S2). rewrite E2. exists p2, (w_advance w (zlen data) :: t').
      split; auto; constructor; auto.
    + destruct (IH p Ht) as (p2 & t' & E2 & S2). rewrite E2. exists p2, (w :: t'). split; auto.
Qed.

Lemma slice_length B i n : 0 <= i -> 0 <= n -> i + n <= zlen B -> zlen (slice B i n) = n.
Proof.
  intros. unfold slice, zlen in *. rewrite firstn_length, skipn_length. lia.
Qed.

(* a full-length take of an honest body is the blob's content of the chunk *)
Lemma take_blob_at B ck body :
  0 <= rb ck -> prefix_at B (Z.to_nat (rb ck)) body ->
  rsize ck <= zlen (firstn (Z.to_nat (rsize ck)) body) ->
  firstn (Z.to_nat (rsize ck)) body = blob_at B ck.
Proof.
  intros Hb [k ->] Hl. unfold blob_at, slice. rewrite firstn_firstn.
  unfold zlen in Hl. rewrite firstn_firstn, firstn_length in Hl.
  replace (Nat.min (Z.to_nat (rsize ck)) k) with (Z.to_nat (rsize ck)) by lia. reflexivity.
Qed.

Definition SIf (c : cfg) (B : bytes) (f : fstate) : Prop :=
  SI c B (f_cache f) (f_fetched f) (f_ever f) /\ Forall wsafe (f_ws f).
Definition EI (B : bytes) (o : nat) (f : fstate) : Prop :=
  Forall (wok B o (f_p f)) (f_ws f) /\ Forall (seen_done (f_seen f)) (f_ws f).
Definition grows (fe fe' : list region) : Prop := forall x, covered fe x -> covered fe' x.

Lemma SI_commit c B ch fe ev ck :
  SI c B ch fe ev -> chunk_in c ck ->
  SI c B (cache_put ch ck (blob_at B ck)) (add fe ck) (ck :: ev) /\ grows fe (add fe ck).
Proof.
  intros (H1 & H2 & H3 & H4) Hck.
  assert (Hwf : wf_reg ck) by (unfold wf_reg; destruct Hck; lia).
  destruct (region_add_spec fe ck H2 Hwf) as [HG HC].
  split; [split; [|split; [|split]]|]; auto.
  - intros r d. rewrite cache_get_put. destruct (region_eqb ck r) eqn:E.
    + apply region_eqb_eq in E. subst. intros Hd. inversion Hd. reflexivity.
    + apply H1.
  - intros x. rewrite HC, covered_cons, H4. tauto.
  - intros x Hx. apply HC. auto.
Qed.

Lemma cache_chunk_spec c B o f ck body f' rest s :
  SIf c B f -> chunk_in c ck -> prefix_at B (Z.to_nat (rb ck)) body ->
  cache_chunk f ck body = (f', rest, s) ->
  SIf c B f' /\ grows (f_fetched f) (f_fetched f') /\ s <> SPanic /\ s <> SBadScript /\
  prefix_at B (Z.to_nat (rb ck) + Z.to_nat (rsize ck)) rest /\
  (EI B o f -> s = SOk -> EI B o f' /\ sound B o (f_p f) (f_p f')).
Proof.
  intros [HSI Hsafe] Hck Hp. unfold cache_chunk.
  set (n := Z.to_nat (rsize ck)).
  destruct (ws_write_some ck (firstn n body) (f_ws f) (f_p f) Hsafe) as (p' & ws' & Ew & Hsafe').
  rewrite Ew.
  assert (Hrest : prefix_at B (Z.to_nat (rb ck) + n) (skipn n body)) by (apply prefix_skipn; exact Hp).
  destruct (Z.ltb_spec (zlen (firstn n body)) (rsize ck)) as [Hshort|Hfull]; intros E; inversion E; subst; clear E.
  - split; [split; [exact HSI|exact Hsafe']|]. split; [intros x Hx; exact Hx|].
    split; [discriminate|]. split; [discriminate|]. split; [exact Hrest|]. intros _ Hs; discriminate.
  - assert (Htake : firstn n body = blob_at B ck) by (apply take_blob_at; auto; destruct Hck; lia).
    rewrite Htake. destruct (SI_commit c B _ _ _ ck HSI Hck) as [HSI' Hg].
    split; [split; [exact HSI'|exact Hsafe']|]. split; [exact Hg|].
    split; [discriminate|]. split; [discriminate|]. split; [exact Hrest|].
    intros [Hw Hsd] _. cbn [f_p f_ws f_seen].
    destruct (ws_write_ok B o ck (firstn n body) (f_seen f) (f_ws f) (f_p f) Hw Hsd) as (p2 & ws2 & E2 & S2 & F2).
    { apply prefix_firstn. exact Hp. }
    rewrite Ew in E2. inversion E2; subst p2 ws2.
    assert (Hlen : zlen (firstn n body) = rsize ck).
    { destruct Hck as (? & ? & ?). unfold zlen, rsize in *. rewrite firstn_length in *. unfold n, rsize in *. lia. }
    destruct (F2 Hlen) as [Hw' Hsd']. split; [split; [exact Hw'|exact Hsd']|exact S2].
Qed.

Lemma grows_refl fe : grows fe fe.
Proof. intros x Hx; exact Hx. Qed.
Lemma grows_trans a b d : grows a b -> grows b d -> grows a d.
Proof. intros H1 H2 x Hx. apply H2, H1, Hx. Qed.

Ltac five := refine (conj _ (conj _ (conj _ (conj _ _)))).
Ltac stop_case :=
  let E := fresh "E" in
  intros E; inversion E; subst;
  five; [auto | auto; try apply grows_refl | try discriminate; auto | try discriminate; auto
        | let Hs := fresh "Hs" in intros ? Hs; try discriminate Hs].

(* the chunks of one replied region, fed from its body *)
Lemma cache_chunks_walk c B o e :
  0 < c_cs c -> forall fuel i f body f' s,
  0 <= i -> SIf c B f -> prefix_at B (Z.to_nat i) body ->
  cache_chunks f (walk_loop fuel (c_size c) (c_cs c) i e) body = (f', s) ->
  SIf c B f' /\ grows (f_fetched f) (f_fetched f') /\ s <> SPanic /\ s <> SBadScript /\
  (EI B o f -> s = SOk -> EI B o f' /\ sound B o (f_p f) (f_p f')).
Proof.
  intros Hcs. induction fuel as [|fuel IH]; intros i f body f' s Hi HS Hp.
  - simpl. stop_case. split; auto. apply sound_refl.
  - cbn [walk_loop].
    destruct ((i <=? e) && (i <? c_size c)) eqn:Econd.
    2:{ simpl. stop_case. split; auto. apply sound_refl. }
    apply andb_true_iff in Econd. destruct Econd as [E1 E2]. apply Z.leb_le in E1. apply Z.ltb_lt in E2.
    set (ck := (i, if c_size c <=? i + c_cs c - 1 then c_size c - 1 else i + c_cs c - 1)).
    assert (Hck : chunk_in c ck).
    { unfold chunk_in, ck, rb, re; simpl. destruct (Z.leb_spec (c_size c) (i + c_cs c - 1)); lia. }
    cbn [cache_chunks].
    destruct (cache_chunk f ck body) as [[f1 rest] s1] eqn:Ec.
    destruct (cache_chunk_spec c B o f ck body f1 rest s1 HS Hck Hp Ec) as (HS1 & G1 & N1 & N1' & P1 & X1).
    destruct s1; [|stop_case|stop_case|stop_case].
    intros E.
    destruct (Z.leb_spec (c_size c) (i + c_cs c - 1)) as [Hclip|Hnoclip].
    + rewrite walk_loop_nil in E by lia. simpl in E. inversion E; subst.
      five; [exact HS1|exact G1|discriminate|discriminate|]. intros HE _. apply X1; auto.
    + assert (Hrs : rsize ck = c_cs c) by (unfold ck, rsize, rb, re; simpl; lia).
      assert (P2 : prefix_at B (Z.to_nat (i + c_cs c)) rest).
      { replace (Z.to_nat (i + c_cs c)) with (Z.to_nat (rb ck) + Z.to_nat (rsize ck))%nat; auto.
        rewrite Hrs. unfold ck, rb; simpl. lia. }
      destruct (IH (i + c_cs c) f1 rest f' s ltac:(lia) HS1 P2 E) as (HS2 & G2 & N2 & N2' & X2).
      five; [exact HS2|eapply grows_trans; eauto|exact N2|exact N2'|].
      intros HE Hs. destruct (X1 HE eq_refl) as [HE1 S1]. destruct (X2 HE1 Hs) as [HE2 S2].
      split; auto. eapply sound_trans; eauto.
Qed.

Lemma fetch_parts_spec c B o :
  0 < c_cs c -> forall parts f f' s,
  Forall (part_honest B) parts -> SIf c B f ->
  fetch_parts c f parts = (f', s) ->
  SIf c B f' /\ grows (f_fetched f) (f_fetched f') /\ s <> SPanic /\ s <> SBadScript /\
  (EI B o f -> s = SOk -> EI B o f' /\ sound B o (f_p f) (f_p f')).
Proof.
  intros Hcs. induction parts as [|[reg body] t IH]; intros f f' s Hh HS.
  - simpl. stop_case. split; auto. apply sound_refl.
  - inversion Hh as [|? ? Hp Ht]; subst. destruct Hp as [Hb Hpre]. simpl in Hb, Hpre.
    cbn [fetch_parts]. unfold walk_chunks.
    destruct (Z.rem (rb reg) (c_cs c) =? 0); [|stop_case].
    destruct (cache_chunks f _ body) as [f1 s1] eqn:Ec.
    destruct (cache_chunks_walk c B o _ Hcs _ _ f body f1 s1 Hb HS Hpre Ec) as (HS1 & G1 & N1 & N1' & X1).
    destruct s1; [|stop_case|stop_case|stop_case].
    intros E. destruct (IH f1 f' s Ht HS1 E) as (HS2 & G2 & N2 & N2' & X2).
    five; [exact HS2|eapply grows_trans; eauto|exact N2|exact N2'|].
    intros HE Hs. destruct (X1 HE eq_refl) as [HE1 S1]. destruct (X2 HE1 Hs) as [HE2 S2].
    split; auto. eapply sound_trans; eauto.
Qed.

(* all windows of the writers hold the right bytes *)
Definition all_done (B : bytes) (o : nat) (p : bytes) (ws : list writer) : Prop :=
  Forall (fun w => win B o p (Z.to_nat (w_base w)) (Z.to_nat (w_len w))) ws.

Lemma fetch_regions_spec c B o parts ok f f' s :
  0 < c_cs c -> Forall (part_honest B) parts -> SIf c B f ->
  fetch_regions c f parts ok = (f', s) ->
  SIf c B f' /\ grows (f_fetched f) (f_fetched f') /\ s <> SPanic /\ s <> SBadScript /\
  (EI B o f -> s = SOk -> sound B o (f_p f) (f_p f') /\ all_done B o (f_p f') (f_ws f') /\ EI B o f').
Proof.
  intros Hcs Hh HS. unfold fetch_regions.
  destruct (fetch_parts c f parts) as [f1 s1] eqn:Ep.
  destruct (fetch_parts_spec c B o Hcs parts f f1 s1 Hh HS Ep) as (HS1 & G1 & N1 & N1' & X1).
  destruct s1; [|stop_case|stop_case|stop_case].
  destruct ok; simpl; [|stop_case].
  destruct (all_seen (f_ws f1) (f_seen f1)) eqn:Eall; [|stop_case].
  intros E; inversion E; subst.
  five; [exact HS1|exact G1|discriminate|discriminate|].
  intros HE _. destruct (X1 HE eq_refl) as [[Hw Hsd] S1]. split; auto. split; [|split; auto].
  unfold all_done. unfold all_seen in Eall. rewrite forallb_forall in Eall.
  rewrite Forall_forall in *. intros w Hin.
  specialize (Hw w Hin). specialize (Hsd w Hin). specialize (Eall w Hin).
  destruct Hw as [G [R [C|[C W]]]]; auto.
  specialize (Hsd Eall). destruct G as (G1' & G2 & G3 & G4 & G5 & G6 & G7 & G8). lia.
Qed.

(* the windows of the writers never change *)
Definition wkey (w : writer) : Z * Z := (w_base w, w_len w).

Lemma bw_write_key p w d p' w' : bw_write p w d = Some (p', w') -> wkey w' = wkey w.
Proof.
  unfold bw_write.
  repeat match goal with |- context [if ?b then _ else _] => destruct b end;
  intros E; inversion E; reflexivity.
Qed.

Lemma ws_write_key c d : forall ws p p' ws', ws_write p ws c d = Some (p', ws') -> map wkey ws' = map wkey ws.
Proof.
  induction ws as [|w t IH]; intros p p' ws'; simpl.
  - intros E; inversion E; reflexivity.
  - destruct (region_eqb (w_chunk w) c).
    + destruct (bw_write p w d) as [[p1 w1]|] eqn:E1; [|discriminate].
      destruct (ws_write p1 t c d) as [[p2 t2]|] eqn:E2; [|discriminate].
      intros E; inversion E; subst. simpl. rewrite (bw_write_key _ _ _ _ _ E1), (IH _ _ _ E2). reflexivity.
    + destruct (ws_write p t c d) as [[p2 t2]|] eqn:E2; [|discriminate].
      intros E; inversion E; subst. simpl. rewrite (IH _ _ _ E2). reflexivity.
Qed.

Lemma cache_chunk_key f ck body f' rest s :
  cache_chunk f ck body = (f', rest, s) -> map wkey (f_ws f') = map wkey (f_ws f).
Proof.
  unfold cache_chunk.
  destruct (ws_write (f_p f) (f_ws f) ck _) as [[p' ws']|] eqn:Ew.
  - apply ws_write_key in Ew. destruct (_ <? _); intros E; inversion E; subst; simpl; exact Ew.
  - intros E; inversion E; subst. reflexivity.
Qed.

Lemma cache_chunks_key : forall cks f body f' s,
  cache_chunks f cks body = (f', s) -> map wkey (f_ws f') = map wkey (f_ws f).
Proof.
  induction cks as [|ck t IH]; intros f body f' s; simpl.
  - intros E; inversion E; reflexivity.
  - destruct (cache_chunk f ck body) as [[f1 rest] s1] eqn:Ec. apply cache_chunk_key in Ec.
    destruct s1; try (intros E; inversion E; subst; exact Ec).
    intros E. apply IH in E. congruence.
Qed.

Lemma fetch_parts_key c : forall parts f f' s,
  fetch_parts c f parts = (f', s) -> map wkey (f_ws f') = map wkey (f_ws f).
Proof.
  induction parts as [|[reg body] t IH]; intros f f' s; simpl.
  - intros E; inversion E; reflexivity.
  - destruct (walk_chunks _ _ reg) as [cks|]; [|intros E; inversion E; reflexivity].
    destruct (cache_chunks f cks body) as [f1 s1] eqn:Ec. apply cache_chunks_key in Ec.
    destruct s1; try (intros E; inversion E; subst; exact Ec).
    intros E. apply IH in E. congruence.
Qed.

Lemma fetch_regions_key c f parts ok f' s :
  fetch_regions c f parts ok = (f', s) -> map wkey (f_ws f') = map wkey (f_ws f).
Proof.
  unfold fetch_regions. destruct (fetch_parts c f parts) as [f1 s1] eqn:Ep. apply fetch_parts_key in Ep.
  destruct s1; try (intros E; inversion E; subst; exact Ep).
  destruct (negb ok); [intros E; inversion E; subst; exact Ep|].
  destruct (all_seen _ _); intros E; inversion E; subst; exact Ep.
Qed.

Lemma all_done_key B o p ws ws' : map wkey ws' = map wkey ws -> all_done B o p ws' -> all_done B o p ws.
Proof.
  unfold all_done. intros Hk H.
  assert (Hm : forall l, Forall (fun w => win B o p (Z.to_nat (w_base w)) (Z.to_nat (w_len w))) l <->
                         Forall (fun k => win B o p (Z.to_nat (fst k)) (Z.to_nat (snd k))) (map wkey l)).
  { intros l. rewrite Forall_map. reflexivity. }
  apply Hm. rewrite <- Hk. apply Hm. exact H.
Qed.

(* ------------------------------------------------------------------------------------------ *)
(* the reply analysis hands honest parts to fetchRegions *)

Lemma reply_parts_honest B r parts ok :
  resp_honest B r -> reply_parts r = Some (FParts parts ok) -> Forall (part_honest B) parts.
Proof.
  destruct r; simpl; intros H E; inversion E; subst; auto;
    try (constructor; [exact H|constructor]).
Qed.

Lemma fetch1_honest B single regs rs parts ok rest q :
  Forall (resp_honest B) rs -> fetch1 single regs rs = (FParts parts ok, rest, q) -> Forall (part_honest B) parts.
Proof.
  destruct rs as [|r t]; simpl; intros H E; [inversion E|].
  inversion H as [|? ? Hr Ht]; subst.
  destruct (reply_parts r) as [f|] eqn:Er.
  - inversion E; subst. eapply reply_parts_honest; eauto.
  - destruct r; inversion E.
Qed.

Lemma fetch0_honest B single regs rs parts ok single' rest q :
  Forall (resp_honest B) rs -> fetch0 single regs rs = (FParts parts ok, single', rest, q) -> Forall (part_honest B) parts.
Proof.
  destruct rs as [|r t]; simpl; intros H E; [inversion E|].
  inversion H as [|? ? Hr Ht]; subst.
  destruct (reply_parts r) as [f|] eqn:Er.
  - inversion E; subst. eapply reply_parts_honest; eauto.
  - destruct r; try (inversion E; fail).
    + (* R403 *)
      destruct t as [|r2 t2]; [inversion E|].
      inversion Ht as [|? ? Hr2 Ht2]; subst.
      destruct r2; try (inversion E; fail).
      destruct (fetch1 single regs t2) as [[f1 rest1] q1] eqn:E1. inversion E; subst.
      eapply fetch1_honest; eauto.
    + (* R400 *)
      destruct single; [inversion E|].
      destruct (fetch1 true regs t) as [[f1 rest1] q1] eqn:E1. inversion E; subst.
      eapply fetch1_honest; eauto.
Qed.

Lemma fetch_any_honest B c single regs rs parts ok single' rest q :
  Forall (resp_honest B) rs -> fetch_any c single regs rs = (FParts parts ok, single', rest, q) -> Forall (part_honest B) parts.
Proof.
  unfold fetch_any. destruct (c_handler c); [|apply fetch0_honest].
  intros H. unfold fetchH. destruct (super_region (squash regs)) as [reg|]; [|intros E; inversion E].
  destruct rs as [|r t]; [intros E; inversion E|]. inversion H as [|? ? Hr Ht]; subst.
  destruct r; try (intros E; inversion E; fail).
  destruct (Z.eqb_spec b (rb reg)) as [Hb|Hb]; intros E; inversion E; subst.
  constructor; [|constructor]. unfold part_honest; simpl. simpl in Hr. exact Hr.
Qed.

Definition SIs (c : cfg) (B : bytes) (s : st) : Prop := SI c B (s_cache s) (s_fetched s) (s_ever s).

Lemma fetch_range_spec c B o s p ws rs s' p' ws' stt q :
  0 < c_cs c -> SIs c B s -> Forall wsafe ws -> Forall (resp_honest B) rs ->
  fetch_range c s p ws rs = (s', p', ws', stt, q) ->
  SIs c B s' /\ grows (s_fetched s) (s_fetched s') /\ stt <> SPanic /\
  (Forall (wok B o p) ws -> stt = SOk -> sound B o p p' /\ all_done B o p' ws).
Proof.
  intros Hcs HS Hsafe Hh. unfold fetch_range.
  destruct ws as [|w0 wt].
  { intros E; inversion E; subst. split; auto. split; [apply grows_refl|]. split; [discriminate|].
    intros _ _. split; [apply sound_refl|constructor]. }
  destruct (fetch_any c (s_single s) (map w_chunk (w0 :: wt)) rs) as [[[fr single'] rest] q0] eqn:Ef.
  destruct fr as [parts ok| |].
  - destruct (fetch_regions c _ parts ok) as [f stt0] eqn:Er.
    intros E; inversion E; subst.
    assert (Hparts : Forall (part_honest B) parts) by (eapply fetch_any_honest; eauto).
    assert (HSf : SIf c B (mkF (s_cache s) (s_fetched s) (s_ever s) p (w0 :: wt) [])) by (split; [exact HS|exact Hsafe]).
    destruct (fetch_regions_spec c B o parts ok _ f stt Hcs Hparts HSf Er) as (HS1 & G1 & N1 & N1' & X1).
    cbn [f_cache f_fetched f_ever f_p f_ws f_seen] in *.
    split; [exact (proj1 HS1)|]. split; [exact G1|]. split; [exact N1|].
    intros Hw Hs. apply fetch_regions_key in Er. cbn [f_ws] in Er.
    assert (HE : EI B o (mkF (s_cache s) (s_fetched s) (s_ever s) p (w0 :: wt) [])).
    { split; [exact Hw|]. rewrite Forall_forall. intros w _ Hm. simpl in Hm. discriminate. }
    destruct (X1 HE Hs) as (S1 & D1 & _). split; [exact S1|]. eapply all_done_key; eauto.
  - intros E; inversion E; subst. split; [exact HS|]. split; [apply grows_refl|]. split; [discriminate|].
    intros _ Hs; discriminate.
  - intros E; inversion E; subst. split; [exact HS|]. split; [apply grows_refl|]. split; [discriminate|].
    intros _ Hs; discriminate.
Qed.

(* ------------------------------------------------------------------------------------------ *)
(* prepareChunksForRead *)

(* facts about a chunk of the walk of a read [off, off+n) *)
Definition rchunk (size off n : Z) (ck : region) : Prop :=
  0 <= rb ck /\ rb ck <= re ck /\ re ck < size /\ rb ck <= off + n - 1 /\ off <= re ck + 1.

Definition gbase (off : Z) (ck : region) : Z := positive (rb ck - off).
Definition glower (off : Z) (ck : region) : Z := positive (off - rb ck).
Definition gex (off n : Z) (ck : region) : Z := rsize ck - positive (re ck + 1 - (off + n)) - positive (off - rb ck).

Lemma chunk_geom_eq off n ck : chunk_geom off n ck = (gbase off ck, glower off ck, gex off n ck).
Proof. reflexivity. Qed.

Lemma geom_facts size off n ck :
  0 <= off -> 0 < n -> rchunk size off n ck ->
  0 <= gbase off ck /\ 0 <= glower off ck /\ 0 <= gex off n ck /\ gbase off ck + gex off n ck <= n /\
  off + gbase off ck = rb ck + glower off ck /\ glower off ck + gex off n ck <= rsize ck /\
  (forall y, rb ck <= y <= re ck -> off <= y < off + n -> gbase off ck <= y - off < gbase off ck + gex off n ck).
Proof.
  intros Ho Hn (H1 & H2 & H3 & H4 & H5). unfold gbase, glower, gex. rewrite !positive_max. unfold rsize.
  repeat split; try lia.
Qed.

Lemma blob_at_length B ck : 0 <= rb ck -> rb ck <= re ck -> re ck < zlen B -> zlen (blob_at B ck) = rsize ck.
Proof. intros. unfold blob_at. apply slice_length; unfold rsize; lia. Qed.

Lemma blob_at_prefix B ck : prefix_at B (Z.to_nat (rb ck)) (blob_at B ck).
Proof. unfold blob_at, slice. apply prefix_slice_full. Qed.

Lemma prepare_chunk_spec B off p ck lk :
  0 <= off -> 0 < zlen p -> rchunk (zlen B) off (zlen p) ck -> lookup_honest B ck lk ->
  let o := Z.to_nat off in
  exists p' ow, prepare_chunk off p ck lk = Some (p', ow) /\ sound B o p p' /\
    match ow with
    | None => win B o p' (Z.to_nat (gbase off ck)) (Z.to_nat (gex off (zlen p) ck))
    | Some w => wok B o p' w /\ w_cur w = 0 /\ wkey w = (gbase off ck, gex off (zlen p) ck)
    end.
Proof.
  intros Ho Hn Hck Hlk o.
  pose proof (geom_facts (zlen B) off (zlen p) ck Ho Hn Hck) as Hg.
  unfold prepare_chunk. rewrite chunk_geom_eq.
  set (base := gbase off ck) in *. set (lower := glower off ck) in *. set (ex := gex off (zlen p) ck) in *.
  destruct Hg as (G1 & G2 & G3 & G4 & G5 & G6 & G7).
  destruct Hck as (K1 & K2 & K3 & K4 & K5).
  destruct (Z.ltb_spec ex 0); [lia|]. destruct (Z.ltb_spec (zlen p) (base + ex)); [lia|]. simpl.
  assert (Hwgeo : forall p', length p' = length p -> wgeo o p' (mkW ck base ex lower 0)).
  { intros p' Hl. unfold wgeo, zlen; simpl. rewrite Hl. unfold zlen in *. unfold rsize in *. unfold o. repeat split; lia. }
  destruct lk as [data|].
  - simpl in Hlk. subst data.
    assert (Hlen : zlen (blob_at B ck) = rsize ck) by (apply blob_at_length; lia).
    set (avail := skipn (Z.to_nat lower) (blob_at B ck)).
    assert (Hav : prefix_at B (o + Z.to_nat base) (firstn (Z.to_nat ex) avail)).
    { apply prefix_firstn. unfold avail.
      replace (o + Z.to_nat base)%nat with (Z.to_nat (rb ck) + Z.to_nat lower)%nat by (unfold o; lia).
      apply prefix_skipn. apply blob_at_prefix. }
    destruct (write_honest B o p (Z.to_nat base) _ Hav) as [Hs Hcov].
    assert (Hzl : ex <= zlen avail).
    { unfold avail, zlen in *. rewrite skipn_length. lia. }
    destruct (Z.leb_spec ex (zlen avail)); [|lia].
    eexists. exists None. split; [reflexivity|]. split; [exact Hs|].
    intros x Hx. apply Hcov.
    + rewrite firstn_length. unfold zlen in Hzl. lia.
    + unfold zlen in *. lia.
  - eexists. eexists. split; [reflexivity|]. split; [apply sound_refl|].
    split; [|split; reflexivity]. split; [apply Hwgeo; reflexivity|]. split; [simpl; lia|left; reflexivity].
Qed.

Definition chunk_served (B : bytes) (o : nat) (off n : Z) (p : bytes) (ws : list writer) (ck : region) : Prop :=
  win B o p (Z.to_nat (gbase off ck)) (Z.to_nat (gex off n ck)) \/ In (gbase off ck, gex off n ck) (map wkey ws).

Lemma prepare_conc_spec B off n lk : 0 <= off -> 0 < n -> lookups_honest B lk ->
  forall chunks p, zlen p = n -> Forall (rchunk (zlen B) off n) chunks ->
  let o := Z.to_nat off in
  exists p' ws, prepare_conc off p chunks lk = Some (p', ws) /\ sound B o p p' /\
    Forall (wok B o p') ws /\ Forall (fun w => w_cur w = 0) ws /\
    Forall (chunk_served B o off n p' ws) chunks.
Proof.
  intros Ho Hn Hlk. induction chunks as [|ck t IH]; intros p Hp Hck o.
  - exists p, []. simpl. split; auto. split; [apply sound_refl|]. repeat split; constructor.
  - inversion Hck as [|? ? Hc1 Hct]; subst.
    destruct (prepare_chunk_spec B off p ck (lk ck) Ho ltac:(lia) Hc1 (Hlk ck)) as (p1 & ow & E1 & S1 & M1).
    cbn [prepare_conc]. rewrite E1.
    assert (Hp1 : zlen p1 = zlen p) by (unfold zlen; f_equal; apply S1).
    destruct (IH p1 Hp1 Hct) as (p2 & ws & E2 & S2 & W2 & C2 & D2). rewrite E2.
    eexists. eexists. split; [reflexivity|]. split; [eapply sound_trans; eauto|].
    destruct ow as [w|].
    + destruct M1 as (Mw & Mc & Mk). split; [constructor; auto; eapply wok_sound; eauto|].
      split; [constructor; auto|]. constructor.
      * right. simpl. left. exact Mk.
      * eapply Forall_impl; [|exact D2]. intros a [H|H]; [left; exact H|right; simpl; right; exact H].
    + split; [exact W2|]. split; [exact C2|]. constructor.
      * left. eapply sound_win; eauto.
      * exact D2.
Qed.

Lemma adjust_spec size off n : 0 <= off <= size -> 0 < n -> adjust size off n = Z.min n (size - off).
Proof. intros. unfold adjust. destruct (Z.leb_spec (size - off) n); destruct (Z.ltb_spec (size - off) 0); lia. Qed.

(* if every chunk's window is right, the reported prefix of the buffer is the expected blob range *)
Lemma windows_exact B off p chunks :
  0 <= off <= zlen B -> 0 < zlen p ->
  (forall y, off <= y < off + zlen p -> y < zlen B -> exists ck, In ck chunks /\ rb ck <= y <= re ck) ->
  Forall (rchunk (zlen B) off (zlen p)) chunks ->
  Forall (fun ck => win B (Z.to_nat off) p (Z.to_nat (gbase off ck)) (Z.to_nat (gex off (zlen p) ck))) chunks ->
  firstn (Z.to_nat (adjust (zlen B) off (zlen p))) p = expected B off (zlen p).
Proof.
  intros Ho Hn Hcov Hck Hwin. rewrite adjust_spec by lia. unfold expected, slice.
  set (m := Z.to_nat (Z.min (zlen p) (zlen B - off))).
  apply list_ext.
  - rewrite !firstn_length, skipn_length. unfold m, zlen in *. lia.
  - intros x Hx. rewrite firstn_length in Hx.
    rewrite !nth_error_firstn_lt by lia. rewrite nth_error_skipn_add.
    destruct (Hcov (off + Z.of_nat x)) as (ck & Hin & Hy); [unfold m, zlen in *; lia|unfold m, zlen in *; lia|].
    rewrite Forall_forall in Hck, Hwin. specialize (Hck ck Hin). specialize (Hwin ck Hin).
    destruct (geom_facts (zlen B) off (zlen p) ck ltac:(lia) Hn Hck) as (G1 & G2 & G3 & G4 & G5 & G6 & G7).
    apply Hwin. specialize (G7 (off + Z.of_nat x) Hy). unfold m, zlen in *. lia.
Qed.

Lemma served_done B o off n p' p'' ws chunks :
  sound B o p' p'' -> all_done B o p'' ws -> Forall (chunk_served B o off n p' ws) chunks ->
  Forall (fun ck => win B o p'' (Z.to_nat (gbase off ck)) (Z.to_nat (gex off n ck))) chunks.
Proof.
  intros Hs Hd Hc. eapply Forall_impl; [|exact Hc]. intros ck [H|H].
  - eapply sound_win; eauto.
  - apply in_map_iff in H. destruct H as (w & Hk & Hin).
    unfold all_done in Hd. rewrite Forall_forall in Hd. specialize (Hd w Hin).
    unfold wkey in Hk. inversion Hk; subst. exact Hd.
Qed.

Lemma wok_wsafe B o p ws : Forall (wok B o p) ws -> Forall wsafe ws.
Proof.
  intros H. eapply Forall_impl; [|exact H]. intros w [G _]. unfold wsafe. destruct G as (G1 & G2 & _). exact G2.
Qed.

Lemma sound_zlen B o p p' : sound B o p p' -> zlen p' = zlen p.
Proof. intros [L _]. unfold zlen. rewrite L. reflexivity. Qed.

Lemma expected_empty B off n : n = 0 \/ zlen B < off -> expected B off n = [].
Proof.
  intros H. unfold expected, slice.
  replace (Z.to_nat (Z.min n (zlen B - off))) with 0%nat by (pose proof (zlen_nonneg B); lia). reflexivity.
Qed.

(* ReadAt without interference: byte-exact or an error, never a panic; the shared state keeps its invariant *)
Lemma read_at_spec c B s off p0 rs s' r q :
  cfg_ok c B -> 0 <= off -> SIs c B s -> Forall (resp_honest B) rs ->
  read_at c s off p0 rs = (s', r, q) ->
  SIs c B s' /\ grows (s_fetched s) (s_fetched s') /\ r <> RPanic /\
  (forall d, r = ROk d -> d = expected B off (zlen p0)).
Proof.
  intros [Hsz Hcs] Ho HS Hh. unfold read_at.
  destruct ((zlen p0 =? 0) || (c_size c <? off)) eqn:E0.
  { intros E; inversion E; subst. split; auto. split; [apply grows_refl|]. split; [discriminate|].
    intros d Hd. inversion Hd; subst. symmetry. apply expected_empty.
    apply orb_true_iff in E0. destruct E0 as [E0|E0]; [left; apply Z.eqb_eq in E0; auto|right; apply Z.ltb_lt in E0; lia]. }
  apply orb_false_iff in E0. destruct E0 as [E0a E0b]. apply Z.eqb_neq in E0a. apply Z.ltb_ge in E0b.
  pose proof (zlen_nonneg p0) as Hn0.
  destruct (read_walk (c_size c) (c_cs c) off (zlen p0) Hcs Ho ltac:(lia)) as (chunks & Ew & Hck & Hcov).
  rewrite Ew.
  assert (Hrc : Forall (rchunk (zlen B) off (zlen p0)) chunks).
  { rewrite Forall_forall. intros ck Hin. destruct (Hck ck Hin) as (K1 & K2 & K3 & K4 & K5).
    unfold rchunk. rewrite <- Hsz. repeat split; auto. }
  assert (Hlk : lookups_honest B (cache_get (s_cache s))).
  { intros ck. unfold lookup_honest. destruct (cache_get (s_cache s) ck) eqn:Eg; auto. apply (proj1 HS). exact Eg. }
  unfold prepare.
  destruct (prepare_conc_spec B off (zlen p0) _ Ho ltac:(lia) Hlk chunks p0 eq_refl Hrc) as (p1 & ws & E1 & S1 & W1 & C1 & D1).
  rewrite E1.
  destruct (fetch_range c s p1 ws rs) as [[[[s1 p2] ws2] stt] q1] eqn:Ef.
  destruct (fetch_range_spec c B (Z.to_nat off) s p1 ws rs s1 p2 ws2 stt q1 Hcs HS (wok_wsafe _ _ _ _ W1) Hh Ef)
    as (HS1 & G1 & N1 & X1).
  intros E; inversion E; subst. split; [exact HS1|]. split; [exact G1|].
  split; [destruct stt; simpl; try discriminate; congruence|].
  intros d Hd. destruct stt; simpl in Hd; try discriminate. inversion Hd; subst.
  destruct (X1 W1 eq_refl) as [S2 D2].
  pose proof (served_done B _ off (zlen p0) p1 p2 ws chunks S2 D2 D1) as Hwin.
  assert (Hl2 : zlen p2 = zlen p0) by (rewrite (sound_zlen _ _ _ _ S2), (sound_zlen _ _ _ _ S1); reflexivity).
  rewrite Hsz, <- Hl2. apply windows_exact with (chunks := chunks); rewrite ?Hl2; auto; try lia.
  intros y Hy Hys. apply Hcov; lia.
Qed.

(* ------------------------------------------------------------------------------------------ *)
(* the other ops, histories *)

Lemma cache_lookup_wsafe c s off sz ws : cache_lookup c s off sz = Some ws -> Forall wsafe ws.
Proof.
  unfold cache_lookup. destruct (walk_chunks _ _ _) as [chunks|]; [|discriminate].
  intros E; inversion E; subst. rewrite Forall_map. rewrite Forall_forall. intros x _. unfold wsafe; simpl. lia.
Qed.

Lemma pend_get_in pend i ws : pend_get pend i = Some ws -> In ws (map snd pend).
Proof.
  induction pend as [|[j w] t IH]; simpl; [discriminate|].
  destruct (Nat.eqb j i); [intros E; inversion E; subst; auto|intros E; right; auto].
Qed.

Lemma Forall_concat_nth {A} (P : A -> Prop) (l : list (list A)) i : Forall P (concat l) -> Forall P (nth i l []).
Proof.
  intros H. destruct (Nat.lt_ge_cases i (length l)) as [Hi|Hi].
  - rewrite Forall_forall in *. intros x Hx. apply H. apply in_concat. exists (nth i l []). split; auto. apply nth_In; auto.
  - rewrite nth_overflow by auto. constructor.
Qed.

(* Cache(): every interleaving of the pieces' sub-steps keeps the shared state's invariant *)
Lemma cache_sched_spec c B ps scripts : cfg_ok c B -> Forall (resp_honest B) (concat scripts) ->
  forall sc pend s failed s' stt q,
  SIs c B s -> Forall (Forall wsafe) (map snd pend) ->
  cache_sched c s ps pend sc scripts failed = (s', stt, q) ->
  SIs c B s' /\ grows (s_fetched s) (s_fetched s') /\ stt <> SPanic.
Proof.
  intros Hc Hh. induction sc as [|[i ph] t IH]; intros pend s failed s' stt q HS Hp; simpl.
  - intros E; inversion E; subst. split; auto. split; [apply grows_refl|]. destruct failed; discriminate.
  - destruct ph.
    + destruct (pend_get pend i) as [ws|] eqn:Eg; [|apply IH; auto].
      destruct (fetch_range c s [] ws (nth i scripts [])) as [[[[s1 p2] ws2] stt1] q1] eqn:Ef.
      assert (Hsafe : Forall wsafe ws).
      { apply pend_get_in in Eg. rewrite Forall_forall in Hp. apply Hp. exact Eg. }
      destruct (fetch_range_spec c B 0%nat s [] ws _ s1 p2 ws2 stt1 q1 (proj2 Hc) HS Hsafe (Forall_concat_nth _ _ i Hh) Ef)
        as (HS1 & G1 & N1 & _).
      destruct stt1.
      * destruct (cache_sched c s1 ps pend t scripts failed) as [[s2 stt2] q2] eqn:E2.
        destruct (IH _ _ _ _ _ _ HS1 Hp E2) as (A & G2 & N2).
        intros E; inversion E; subst. split; auto. split; auto. eapply grows_trans; eauto.
      * destruct (cache_sched c s1 ps pend t scripts true) as [[s2 stt2] q2] eqn:E2.
        destruct (IH _ _ _ _ _ _ HS1 Hp E2) as (A & G2 & N2).
        intros E; inversion E; subst. split; auto. split; auto. eapply grows_trans; eauto.
      * congruence.
      * intros E; inversion E; subst. split; [exact HS1|]. split; [exact G1|discriminate].
    + destruct (nth_error ps i) as [[o z]|].
      2:{ intros E; inversion E; subst. split; auto. split; [apply grows_refl|discriminate]. }
      destruct (cache_lookup c s o z) as [ws|] eqn:El; [|apply IH; auto].
      apply IH; auto. simpl. constructor; auto. eapply cache_lookup_wsafe; eauto.
Qed.

Lemma status_result_nopanic stt r : stt <> SPanic -> r <> RPanic -> status_result stt r <> RPanic.
Proof. destruct stt; simpl; auto; discriminate. Qed.

Lemma check_op_nopanic rs : fst (check_op rs) <> SPanic.
Proof.
  unfold check_op.
  repeat match goal with |- context [match ?x with _ => _ end] => destruct x end; simpl; discriminate.
Qed.

Lemma step_spec c B s o s' r q :
  cfg_ok c B -> SIs c B s -> op_ok B o ->
  step c s o = (s', r, q) ->
  SIs c B s' /\ grows (s_fetched s) (s_fetched s') /\ r <> RPanic /\
  (forall off p0 rs d, o = ReadAt off p0 rs -> r = ROk d -> d = expected B off (zlen p0)).
Proof.
  intros Hc HS [Hh Hoff]. destruct o as [off p0 rs|off sz sc scripts|reg|rs|rs]; simpl in *.
  - intros E. destruct (read_at_spec c B s off p0 rs s' r q Hc Hoff HS Hh E) as (H1 & H2 & H3 & H4).
    split; auto. split; auto. split; auto. intros off' p0' rs' d Heq. inversion Heq; subst. apply H4.
  - destruct (cache_sched c s _ [] sc scripts false) as [[s1 stt] q1] eqn:E1.
    destruct (cache_sched_spec c B _ scripts Hc Hh sc [] s false s1 stt q1 HS (Forall_nil _) E1) as (H1 & H2 & H3).
    intros E; inversion E; subst. split; auto. split; auto.
    split; [apply status_result_nopanic; auto; discriminate|]. intros; discriminate.
  - intros E; inversion E; subst. unfold evict; simpl. split.
    + destruct HS as (A & B0 & C & D). unfold SIs; simpl. split; [|auto].
      intros r d. rewrite cache_get_del. destruct (region_eqb reg r); [discriminate|apply A].
    + split; [apply grows_refl|]. split; [discriminate|]. intros; discriminate.
  - pose proof (check_op_nopanic rs) as Hnp.
    destruct (check_op rs) as [stt q1]. intros E; inversion E; subst.
    split; auto. split; [apply grows_refl|]. split; [|intros; discriminate].
    apply status_result_nopanic; auto; discriminate.
  - destruct (refresh_op c s rs) as [[s1 stt] q1] eqn:E1. intros E; inversion E; subst.
    assert (Hs1 : s_cache s' = s_cache s /\ s_fetched s' = s_fetched s /\ s_ever s' = s_ever s /\ stt <> SPanic).
    { unfold refresh_op in E1.
      repeat match type of E1 with
             | context [match ?x with _ => _ end] => destruct x
             end; inversion E1; subst; simpl; repeat split; discriminate. }
    destruct Hs1 as (A & B0 & C & D). unfold SIs. rewrite A, B0, C.
    split; auto. split; [apply grows_refl|]. split; [|intros; discriminate].
    apply status_result_nopanic; auto; discriminate.
Qed.

Lemma SIs_init c B : SIs c B (init c).
Proof.
  unfold SIs, init, SI; simpl. split; [intros r d H; discriminate|]. split; [apply good_nil|].
  split; [constructor|]. intros x; tauto.
Qed.

Lemma exec_inv c B : cfg_ok c B -> forall os s,
  SIs c B s -> Forall (op_ok B) os ->
  SIs c B (exec c s os) /\ grows (s_fetched s) (s_fetched (exec c s os)).
Proof.
  intros Hc. induction os as [|o t IH]; intros s HS Hok.
  - simpl. split; auto. apply grows_refl.
  - inversion Hok as [|? ? H1 Ht]; subst.
    destruct (step c s o) as [[s1 r] q] eqn:Es.
    destruct (step_spec c B s o s1 r q Hc HS H1 Es) as (HS1 & G1 & _).
    assert (Hex : exec c s (o :: t) = exec c s1 t) by (unfold exec; cbn [fold_left]; rewrite Es; reflexivity).
    rewrite Hex.
    destruct (IH s1 HS1 Ht) as [HS2 G2]. split; auto. eapply grows_trans; eauto.
Qed.

Lemma results_spec c B : cfg_ok c B -> forall os s,
  SIs c B s -> Forall (op_ok B) os ->
  forall o r, In (o, r) (results c s os) ->
    r <> RPanic /\ (forall off p0 rs d, o = ReadAt off p0 rs -> r = ROk d -> d = expected B off (zlen p0)).
Proof.
  intros Hc. induction os as [|o t IH]; intros s HS Hok o' r' Hin; simpl in Hin; [contradiction|].
  inversion Hok as [|? ? H1 Ht]; subst.
  destruct (step c s o) as [[s1 r] q] eqn:Es.
  destruct (step_spec c B s o s1 r q Hc HS H1 Es) as (HS1 & G1 & N1 & X1).
  destruct Hin as [Heq|Hin].
  - inversion Heq; subst. split; auto.
  - eapply IH; eauto.
Qed.

(* meaning of FetchedSize in every state satisfying the invariant *)
Lemma fetched_size_spec c B s :
  cfg_ok c B -> SIs c B s ->
  NoDup (points (s_fetched s)) /\
  (forall x, In x (points (s_fetched s)) <-> covered (s_ever s) x) /\
  Z.of_nat (length (points (s_fetched s))) = total_size (s_fetched s) /\
  0 <= total_size (s_fetched s) <= c_size c /\
  (forall x, covered (s_ever s) x -> 0 <= x < c_size c).
Proof.
  intros [Hsz Hcs] (H1 & H2 & H3 & H4).
  destruct (total_size_card _ H2) as (N & I & L).
  assert (Hb : forall x, covered (s_ever s) x -> 0 <= x < c_size c).
  { intros x (r & Hin & Hx). rewrite Forall_forall in H3. destruct (H3 r Hin) as (A & B0 & C). unfold inr in Hx. lia. }
  split; auto. split; [intros x; rewrite I; apply H4|]. split; auto. split; auto.
  split; [rewrite <- L; lia|].
  pose proof (total_size_bound (s_fetched s) (c_size c) H2) as Hbd.
  pose proof (zlen_nonneg B). rewrite Z.max_r in Hbd by lia. apply Hbd. intros x Hx. apply Hb, H4, Hx.
Qed.

Lemma fetched_size_mono c B s s' :
  SIs c B s -> SIs c B s' -> grows (s_fetched s) (s_fetched s') ->
  total_size (s_fetched s) <= total_size (s_fetched s').
Proof.
  intros (_ & G & _) (_ & G' & _) Hg. apply total_size_mono; auto.
Qed.

(* any interleaving of the regionSet.add calls of all goroutines (each atomic under fetchedRegionSetMu) *)
Lemma adds_any_order c : forall cks fe,
  Good fe -> Forall (chunk_in c) cks ->
  Good (fold_left add cks fe) /\
  (forall x, covered (fold_left add cks fe) x <-> covered fe x \/ covered cks x).
Proof.
  induction cks as [|ck t IH]; intros fe HG Hc; simpl.
  - split; auto. intros x. split; [auto|intros [H|H]; auto; destruct (covered_nil _ H)].
  - inversion Hc as [|? ? H1 Ht]; subst.
    assert (Hwf : wf_reg ck) by (unfold wf_reg; destruct H1; lia).
    destruct (region_add_spec fe ck HG Hwf) as [HG1 HC1].
    destruct (IH (add fe ck) HG1 Ht) as [HG2 HC2]. split; auto.
    intros x. rewrite HC2, HC1, covered_cons. tauto.
Qed.

(* ------------------------------------------------------------------------------------------ *)
(* one reader under interference *)

Lemma copy_fetched_spec B o lk : lookups_honest B lk -> forall ws p,
  Forall (wok B o p) ws ->
  exists p' ws' ok, copy_fetched p ws lk = Some (p', ws', ok) /\ sound B o p p' /\
    Forall (wok B o p') ws' /\ map wkey ws' = map wkey ws /\ (ok = true -> all_done B o p' ws').
Proof.
  intros Hlk. induction ws as [|w t IH]; intros p Hw.
  - exists p, [], true. simpl. split; auto. split; [apply sound_refl|]. repeat split; auto; constructor.
  - inversion Hw as [|? ? Hw1 Hwt]; subst. cbn [copy_fetched].
    specialize (Hlk (w_chunk w)). destruct (lk (w_chunk w)) as [data|].
    2:{ exists p, (w :: t), false. split; auto. split; [apply sound_refl|]. split; auto. split; auto. discriminate. }
    simpl in Hlk. subst data.
    destruct Hw1 as [G [R C]]. pose proof G as (G1 & G2 & G3 & G4 & G5 & G6 & G7 & G8).
    assert (Hlen : zlen (blob_at B (w_chunk w)) = rsize (w_chunk w)) by (apply blob_at_length; unfold rsize in *; lia).
    set (n := Z.to_nat (rsize (w_chunk w))).
    assert (Hfn : firstn n (blob_at B (w_chunk w)) = blob_at B (w_chunk w)).
    { apply firstn_all2. unfold zlen, n in *. lia. }
    rewrite Hfn.
    assert (Hbw : exists p1, bw_write p w (blob_at B (w_chunk w)) = Some (p1, w_advance w (rsize (w_chunk w))) /\
               sound B o p p1 /\ wok B o p1 (w_advance w (rsize (w_chunk w))) /\
               win B o p1 (Z.to_nat (w_base w)) (Z.to_nat (w_len w))).
    { destruct C as [C|[C W]].
      - destruct (bw_write_honest B o p w (blob_at B (w_chunk w)) G) as (p1 & E1 & S1 & Cov).
        + lia.
        + rewrite C. replace (rb (w_chunk w) + 0) with (rb (w_chunk w)) by lia. apply blob_at_prefix.
        + rewrite Hlen in E1. exists p1. split; auto. split; auto.
          assert (Wn : win B o p1 (Z.to_nat (w_base w)) (Z.to_nat (w_len w))).
          { intros x Hx. apply Cov; lia. }
          split; auto. split; [exact (wgeo_len o p p1 w (proj1 S1) G)|]. split; [exact R|].
          right. simpl. split; [lia|exact Wn].
      - exists p. rewrite <- Hlen. split; [apply bw_write_inert; auto|]. split; [apply sound_refl|].
        rewrite Hlen. split; auto. split; [exact G|]. split; [exact R|]. right. simpl. split; [lia|exact W]. }
    destruct Hbw as (p1 & E1 & S1 & W1 & Wn1). rewrite E1.
    destruct (Z.ltb_spec (zlen (blob_at B (w_chunk w))) (rsize (w_chunk w))); [lia|].
    destruct (IH p1) as (p2 & t' & ok & E2 & S2 & W2 & K2 & D2).
    { eapply Forall_impl; [|exact Hwt]. intros a. apply wok_sound. exact S1. }
    rewrite E2. exists p2, (w_advance w (rsize (w_chunk w)) :: t'), ok.
    split; auto. split; [eapply sound_trans; eauto|].
    split; [constructor; auto; eapply wok_sound; eauto|].
    split; [simpl; rewrite K2; reflexivity|].
    intros Hok. constructor; [|apply D2; exact Hok]. simpl. eapply sound_win; eauto.
Qed.

Lemma conc_rounds_spec c B o : 0 < c_cs c -> forall rounds f f' stt,
  Forall (round_honest B) rounds -> SIf c B f -> Forall (wok B o (f_p f)) (f_ws f) ->
  conc_rounds c f rounds = (f', stt) ->
  cache_honest B (f_cache f') /\ stt <> SPanic /\
  (stt = SOk -> sound B o (f_p f) (f_p f') /\ all_done B o (f_p f') (f_ws f)).
Proof.
  intros Hcs. induction rounds as [|rd t IH]; intros f f' stt Hh HS Hw; simpl.
  - intros E; inversion E; subst. split; [apply HS|]. split; discriminate.
  - inversion Hh as [|? ? Hr Ht]; subst. destruct rd as [single rs| |lk].
    + simpl in Hr.
      destruct (fetch_any c single (map w_chunk (f_ws f)) rs) as [[[fr single'] rest] q0] eqn:Ef.
      destruct fr as [parts ok| |]; try (intros E; inversion E; subst; split; [apply HS|]; split; discriminate).
      intros Er.
      assert (Hparts : Forall (part_honest B) parts) by (eapply fetch_any_honest; eauto).
      assert (HSf : SIf c B (mkF (f_cache f) (f_fetched f) (f_ever f) (f_p f) (f_ws f) [])) by exact HS.
      destruct (fetch_regions_spec c B o parts ok _ f' stt Hcs Hparts HSf Er) as (HS1 & G1 & N1 & N1' & X1).
      split; [apply HS1|]. split; [exact N1|]. intros Hs.
      assert (HE : EI B o (mkF (f_cache f) (f_fetched f) (f_ever f) (f_p f) (f_ws f) [])).
      { split; [exact Hw|]. rewrite Forall_forall. intros w _ Hm. simpl in Hm. discriminate. }
      destruct (X1 HE Hs) as (S1 & D1 & _). apply fetch_regions_key in Er. cbn [f_ws f_p] in *.
      split; [exact S1|]. eapply all_done_key; eauto.
    + intros E; inversion E; subst. split; [apply HS|]. split; discriminate.
    + simpl in Hr.
      destruct (copy_fetched_spec B o lk Hr (f_ws f) (f_p f) Hw) as (p' & ws' & ok & E1 & S1 & W1 & K1 & D1).
      rewrite E1. destruct ok.
      * intros E; inversion E; subst. split; [apply HS|]. split; [discriminate|]. intros _. simpl.
        split; [exact S1|]. eapply all_done_key; eauto.
      * intros E.
        assert (HS' : SIf c B (mkF (f_cache f) (f_fetched f) (f_ever f) p' ws' (f_seen f))).
        { split; [apply HS|]. simpl. eapply wok_wsafe; eauto. }
        destruct (IH _ f' stt Ht HS' W1 E) as (A & N & X). split; auto. split; auto.
        intros Hs. destruct (X Hs) as [S2 D2]. cbn [f_p f_ws] in *.
        split; [eapply sound_trans; eauto|]. eapply all_done_key; eauto.
Qed.

(* ReadAt of one reader under arbitrary honest interference (rely), with honest own commits (guarantee) *)
Lemma read_conc_spec c B off p0 lk0 rounds r commits :
  cfg_ok c B -> 0 <= off -> lookups_honest B lk0 -> Forall (round_honest B) rounds ->
  read_conc c off p0 lk0 rounds = (r, commits) ->
  r <> RPanic /\ (forall d, r = ROk d -> d = expected B off (zlen p0)) /\ cache_honest B commits.
Proof.
  intros [Hsz Hcs] Ho Hlk Hh. unfold read_conc.
  assert (Hnil : cache_honest B []) by (intros k d H; discriminate).
  destruct ((zlen p0 =? 0) || (c_size c <? off)) eqn:E0.
  { intros E; inversion E; subst. split; [discriminate|]. split; auto.
    intros d Hd. inversion Hd; subst. symmetry. apply expected_empty.
    apply orb_true_iff in E0. destruct E0 as [E0|E0]; [left; apply Z.eqb_eq in E0; auto|right; apply Z.ltb_lt in E0; lia]. }
  apply orb_false_iff in E0. destruct E0 as [E0a E0b]. apply Z.eqb_neq in E0a. apply Z.ltb_ge in E0b.
  pose proof (zlen_nonneg p0) as Hn0.
  destruct (read_walk (c_size c) (c_cs c) off (zlen p0) Hcs Ho ltac:(lia)) as (chunks & Ew & Hck & Hcov).
  rewrite Ew.
  assert (Hrc : Forall (rchunk (zlen B) off (zlen p0)) chunks).
  { rewrite Forall_forall. intros ck Hin. destruct (Hck ck Hin) as (K1 & K2 & K3 & K4 & K5).
    unfold rchunk. rewrite <- Hsz. repeat split; auto. }
  destruct (prepare_conc_spec B off (zlen p0) _ Ho ltac:(lia) Hlk chunks p0 eq_refl Hrc) as (p1 & ws & E1 & S1 & W1 & C1 & D1).
  rewrite E1.
  assert (Hfin : forall p2, sound B (Z.to_nat off) p1 p2 -> all_done B (Z.to_nat off) p2 ws ->
            firstn (Z.to_nat (adjust (c_size c) off (zlen p0))) p2 = expected B off (zlen p0)).
  { intros p2 S2 D2.
    pose proof (served_done B _ off (zlen p0) p1 p2 ws chunks S2 D2 D1) as Hwin.
    assert (Hl2 : zlen p2 = zlen p0) by (rewrite (sound_zlen _ _ _ _ S2), (sound_zlen _ _ _ _ S1); reflexivity).
    rewrite Hsz, <- Hl2. apply windows_exact with (chunks := chunks); rewrite ?Hl2; auto; try lia.
    intros y Hy Hys. apply Hcov; lia. }
  destruct ws as [|w0 wt].
  { intros E; inversion E; subst. split; [discriminate|]. split; auto.
    intros d Hd. inversion Hd; subst. apply Hfin; [apply sound_refl|constructor]. }
  destruct (conc_rounds c _ rounds) as [f stt] eqn:Ec.
  assert (HS0 : SIf c B (mkF [] [] [] p1 (w0 :: wt) [])).
  { split; [|simpl; eapply wok_wsafe; eauto]. simpl. split; [exact Hnil|]. split; [apply good_nil|].
    split; [constructor|]. intros x; tauto. }
  destruct (conc_rounds_spec c B (Z.to_nat off) Hcs rounds _ f stt Hh HS0 W1 Ec) as (A & N & X).
  intros E; inversion E; subst. split; [destruct stt; simpl; try discriminate; congruence|]. split; auto.
  intros d Hd. destruct stt; simpl in Hd; try discriminate. inversion Hd; subst.
  destruct (X eq_refl) as [S2 D2]. cbn [f_p f_ws] in *. apply Hfin; auto.
Qed.

(* ------------------------------------------------------------------------------------------ *)
(* bytesWriter: the result does not depend on how the stream is cut into Write calls *)

(* what a sequence of writes of the stream [data] (starting at stream position w_cur) does, position by position *)
Definition bw_effect (p : bytes) (w : writer) (data : bytes) (p' : bytes) : Prop :=
  length p' = length p /\
  forall x : nat,
    (w_base w <= Z.of_nat x < w_base w + w_len w /\
     w_cur w <= w_off w + (Z.of_nat x - w_base w) < w_cur w + zlen data ->
       nth_error p' x = nth_error data (Z.to_nat (w_off w + (Z.of_nat x - w_base w) - w_cur w))) /\
    (~ (w_base w <= Z.of_nat x < w_base w + w_len w /\
        w_cur w <= w_off w + (Z.of_nat x - w_base w) < w_cur w + zlen data) ->
       nth_error p' x = nth_error p x).

Lemma bw_write_effect p w data :
  0 <= w_base w -> 0 <= w_len w -> 0 <= w_off w -> w_base w + w_len w <= zlen p -> 0 <= w_cur w ->
  exists p', bw_write p w data = Some (p', w_advance w (zlen data)) /\ bw_effect p w data p'.
Proof.
  intros G1 G2 G3 G4 Hc. unfold bw_write. rewrite !positive_max.
  pose proof (zlen_nonneg data) as Hd.
  destruct (Z.ltb_spec (w_len w) (Z.max 0 (w_cur w - w_off w))) as [E1|E1].
  { exists p. split; auto. split; auto. intros x. split; [lia|auto]. }
  destruct (Z.leb_spec (zlen data) (Z.max 0 (w_off w - w_cur w))) as [E2|E2].
  { exists p. split; auto. split; auto. intros x. split; [lia|auto]. }
  set (pEnd := if zlen data <? Z.max 0 (w_off w + w_len w - w_cur w) then zlen data
               else Z.max 0 (w_off w + w_len w - w_cur w)).
  assert (HpEnd : pEnd = Z.min (zlen data) (Z.max 0 (w_off w + w_len w - w_cur w))).
  { unfold pEnd. destruct (Z.ltb_spec (zlen data) (Z.max 0 (w_off w + w_len w - w_cur w))); lia. }
  destruct (Z.ltb_spec pEnd (Z.max 0 (w_off w - w_cur w))) as [E3|E3]; [lia|].
  unfold copy_into, slice.
  set (k := Z.to_nat (w_base w + Z.max 0 (w_cur w - w_off w))).
  set (pb := Z.to_nat (Z.max 0 (w_off w - w_cur w))).
  set (src := firstn (Z.to_nat (w_len w - Z.max 0 (w_cur w - w_off w)))
                (firstn (Z.to_nat (pEnd - Z.max 0 (w_off w - w_cur w))) (skipn pb data))).
  assert (Hlen : length src = Z.to_nat (Z.min (w_len w - Z.max 0 (w_cur w - w_off w)) (pEnd - Z.max 0 (w_off w - w_cur w)))).
  { unfold src. rewrite !firstn_length, skipn_length. unfold zlen, pb in *. lia. }
  eexists. split; [reflexivity|]. split; [apply write_at_length|].
  intros x. split.
  - intros [Hx Hq]. rewrite write_at_in by (unfold zlen in *; unfold k; lia).
    unfold src. rewrite !nth_error_firstn_lt by (unfold k; lia). rewrite nth_error_skipn_add.
    f_equal. unfold pb, k. lia.
  - intros Hn. apply write_at_out. unfold k. lia.
Qed.

Lemma bw_effect_nil p w : bw_effect p w [] p.
Proof. split; auto. intros x. split; [unfold zlen; simpl; lia|auto]. Qed.

Lemma bw_writes_effect : forall pieces p w,
  0 <= w_base w -> 0 <= w_len w -> 0 <= w_off w -> w_base w + w_len w <= zlen p -> 0 <= w_cur w ->
  exists p', bw_writes p w pieces = Some (p', w_advance w (zlen (concat pieces))) /\ bw_effect p w (concat pieces) p'.
Proof.
  induction pieces as [|d t IH]; intros p w G1 G2 G3 G4 Hc.
  - exists p. simpl. split; [|apply bw_effect_nil].
    destruct w; unfold w_advance, zlen; simpl. do 2 f_equal. f_equal. lia.
  - destruct (bw_write_effect p w d G1 G2 G3 G4 Hc) as (p1 & E1 & [L1 F1]).
    cbn [bw_writes]. rewrite E1.
    pose proof (zlen_nonneg d) as Hd.
    destruct (IH p1 (w_advance w (zlen d))) as (p2 & E2 & [L2 F2]); simpl; auto; try lia.
    { unfold zlen in *. rewrite L1. exact G4. }
    rewrite E2. exists p2. split.
    + f_equal. f_equal. destruct w; unfold w_advance, zlen; simpl. rewrite app_length. f_equal. lia.
    + split; [congruence|]. intros x. simpl in F2.
      assert (Hz : zlen (d ++ concat t) = zlen d + zlen (concat t)) by (unfold zlen; rewrite app_length; lia).
      simpl concat. rewrite Hz. pose proof (zlen_nonneg (concat t)) as Ht.
      destruct (F1 x) as [F1a F1b]. destruct (F2 x) as [F2a F2b]. split.
      * intros [Hx Hq].
        destruct (Z_lt_ge_dec (w_off w + (Z.of_nat x - w_base w)) (w_cur w + zlen d)) as [Hlt|Hge].
        -- rewrite F2b by lia. rewrite F1a by lia. rewrite nth_error_app1 by (unfold zlen in *; lia). reflexivity.
        -- rewrite F2a by lia. rewrite nth_error_app2 by (unfold zlen in *; lia). f_equal. unfold zlen. lia.
      * intros Hn. rewrite F2b by lia. apply F1b. lia.
Qed.

Lemma bw_effect_unique p w d p1 p2 : bw_effect p w d p1 -> bw_effect p w d p2 -> p1 = p2.
Proof.
  intros [L1 F1] [L2 F2]. apply list_ext; [congruence|].
  intros x _. destruct (F1 x) as [A1 B1]. destruct (F2 x) as [A2 B2].
  destruct (Z_le_gt_dec (w_base w) (Z.of_nat x)); [|rewrite B1, B2 by lia; reflexivity].
  destruct (Z_lt_ge_dec (Z.of_nat x) (w_base w + w_len w)); [|rewrite B1, B2 by lia; reflexivity].
  destruct (Z_le_gt_dec (w_cur w) (w_off w + (Z.of_nat x - w_base w))); [|rewrite B1, B2 by lia; reflexivity].
  destruct (Z_lt_ge_dec (w_off w + (Z.of_nat x - w_base w)) (w_cur w + zlen d)); [|rewrite B1, B2 by lia; reflexivity].
  rewrite A1, A2 by lia. reflexivity.
Qed.

(* two ways of cutting the same stream into Write calls leave the same buffer and the same writer *)
Lemma bw_writes_partition pieces1 pieces2 p w :
  0 <= w_base w -> 0 <= w_len w -> 0 <= w_off w -> w_base w + w_len w <= zlen p -> 0 <= w_cur w ->
  concat pieces1 = concat pieces2 ->
  bw_writes p w pieces1 = bw_writes p w pieces2 /\ bw_writes p w pieces1 <> None.
Proof.
  intros G1 G2 G3 G4 Hc Heq.
  destruct (bw_writes_effect pieces1 p w G1 G2 G3 G4 Hc) as (p1 & E1 & F1).
  destruct (bw_writes_effect pieces2 p w G1 G2 G3 G4 Hc) as (p2 & E2 & F2).
  rewrite Heq in *. rewrite (bw_effect_unique _ _ _ _ _ F1 F2) in E1. rewrite E1, E2. split; [reflexivity|discriminate].
Qed.

Lemma exec_app c s os1 os2 : exec c s (os1 ++ os2) = exec c (exec c s os1) os2.
Proof. unfold exec. apply fold_left_app. Qed.

Lemma fetched_size_monotone c B os o :
  cfg_ok c B -> Forall (op_ok B) os -> op_ok B o ->
  total_size (s_fetched (exec c (init c) os)) <= total_size (s_fetched (exec c (init c) (os ++ [o]))).
Proof.
  intros Hc Hos Ho. rewrite exec_app.
  destruct (exec_inv c B Hc os (init c) (SIs_init c B) Hos) as [HS1 _].
  destruct (exec_inv c B Hc [o] _ HS1 (Forall_cons _ Ho (Forall_nil _))) as [HS2 G2].
  eapply fetched_size_mono; eauto.
Qed.

Lemma total_size_same_cover rs rs' :
  Good rs -> Good rs' -> (forall x, covered rs x <-> covered rs' x) -> total_size rs = total_size rs'.
Proof.
  intros G G' H. apply Z.le_antisymm; apply total_size_mono; auto; intros x Hx; apply H; exact Hx.
Qed.

Lemma adds_order_irrelevant c cks cks' :
  Forall (chunk_in c) cks -> Forall (chunk_in c) cks' -> (forall x, covered cks x <-> covered cks' x) ->
  total_size (fold_left add cks []) = total_size (fold_left add cks' []).
Proof.
  intros H1 H2 Hc.
  destruct (adds_any_order c cks [] good_nil H1) as [G1 C1].
  destruct (adds_any_order c cks' [] good_nil H2) as [G2 C2].
  apply total_size_same_cover; auto. intros x. rewrite C1, C2, Hc. tauto.
Qed.

(* the per-op results the theorems speak about are the ones compared with the implementation *)
Lemma run_results c : forall os s,
  map (fun x : out => fst (fst (fst (fst x)))) (run c s os) = map snd (results c s os).
Proof.
  induction os as [|o t IH]; intros s; simpl; auto.
  unfold step_out. destruct (step c s o) as [[s1 r] q]. simpl. f_equal. apply IH.
Qed.

(* Cache() with its pieces interleaved in any way, from any state satisfying the invariant *)
Lemma cache_fanout_spec c B s off sz sc scripts s' r q :
  cfg_ok c B -> SIs c B s -> Forall (resp_honest B) (concat scripts) ->
  step c s (CacheOp off sz sc scripts) = (s', r, q) ->
  SIs c B s' /\ cache_honest B (s_cache s') /\ total_size (s_fetched s) <= total_size (s_fetched s') /\ r <> RPanic.
Proof.
  intros Hc HS Hh E.
  destruct (step_spec c B s (CacheOp off sz sc scripts) s' r q Hc HS (conj Hh I) E) as (H1 & H2 & H3 & _).
  split; auto. split; [apply H1|]. split; auto. eapply fetched_size_mono; eauto.
Qed.

Lemma exec_SIs c B os : cfg_ok c B -> Forall (op_ok B) os -> SIs c B (exec c (init c) os).
Proof. intros Hc Hos. exact (proj1 (exec_inv c B Hc os (init c) (SIs_init c B) Hos)). Qed.
