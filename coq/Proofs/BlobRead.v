(* Proofs about Model/BlobRead.v. *)
From Coq Require Import List ZArith NArith Bool Lia Sorted.
From SV Require Import Model.Region Model.BlobRead Proofs.Region.
Import ListNotations.
Open Scope Z_scope.

(* ------------------------------------------------------------------------------------------ *)
(* list facts *)

Lemma nth_error_firstn_lt {A} (l : list A) : forall n x, (x < n)%nat -> nth_error (firstn n l) x = nth_error l x.
Proof.
  induction l as [|h t IH]; intros n x Hx.
  - rewrite firstn_nil. reflexivity.
  - destruct n; [lia|]. destruct x; simpl; auto. apply IH. lia.
Qed.

Lemma nth_error_firstn_ge {A} (l : list A) : forall n x, (n <= x)%nat -> nth_error (firstn n l) x = None.
Proof.
  intros n x Hx. apply nth_error_None. rewrite firstn_length. lia.
Qed.

Lemma nth_error_skipn_add {A} (l : list A) : forall n x, nth_error (skipn n l) x = nth_error l (n + x).
Proof.
  induction l as [|h t IH]; intros n x.
  - rewrite skipn_nil. destruct x, n; reflexivity.
  - destruct n; simpl; auto.
Qed.

Lemma skipn_skipn_add {A} (l : list A) : forall i m, skipn m (skipn i l) = skipn (i + m) l.
Proof.
  induction l as [|h t IH]; intros i m.
  - rewrite !skipn_nil. reflexivity.
  - destruct i; simpl; auto.
Qed.

Lemma list_ext {A} : forall (l1 l2 : list A),
  length l1 = length l2 -> (forall x, (x < length l1)%nat -> nth_error l1 x = nth_error l2 x) -> l1 = l2.
Proof.
  induction l1 as [|a l1 IH]; intros [|b l2] Hl Hn; simpl in Hl; try discriminate; auto.
  f_equal.
  - specialize (Hn 0%nat). simpl in Hn. assert (Some a = Some b) by (apply Hn; lia). congruence.
  - apply IH; [lia|]. intros x Hx. apply (Hn (S x)). simpl. lia.
Qed.

Lemma write_at_length p : forall k src, length (write_at p k src) = length p.
Proof.
  induction p as [|h t IH]; intros k src; simpl; auto.
  destruct k; simpl; [destruct src; simpl|]; auto.
Qed.

Lemma write_at_in p : forall k src x,
  (k <= x < k + length src)%nat -> (x < length p)%nat ->
  nth_error (write_at p k src) x = nth_error src (x - k).
Proof.
  induction p as [|h t IH]; intros k src x Hx Hp; simpl in Hp; [lia|].
  destruct k as [|k'].
  - destruct src as [|s src']; simpl in Hx; [lia|].
    simpl. destruct x as [|x']; simpl; auto.
    rewrite IH; simpl; try lia. f_equal. lia.
  - simpl. destruct x as [|x']; [lia|]. simpl. apply IH; simpl in *; lia.
Qed.

Lemma write_at_out p : forall k src x,
  (x < k \/ k + length src <= x)%nat ->
  nth_error (write_at p k src) x = nth_error p x.
Proof.
  induction p as [|h t IH]; intros k src x Hx; simpl; auto.
  destruct k as [|k'].
  - destruct src as [|s src']; auto.
    simpl in Hx. destruct x as [|x']; [lia|]. simpl. apply IH. simpl. lia.
  - destruct x as [|x']; simpl; auto. apply IH. lia.
Qed.

Lemma write_at_nil p k : write_at p k [] = p.
Proof.
  apply list_ext; [apply write_at_length|].
  intros x _. apply write_at_out. simpl. lia.
Qed.

(* ------------------------------------------------------------------------------------------ *)
(* honest writes: every copy into the caller's buffer puts blob byte o+x at position x *)

Definition okpos (B : bytes) (o : nat) (p : bytes) (x : nat) : Prop := nth_error p x = nth_error B (o + x).

(* src is a run of B starting at index i *)
Definition prefix_at (B : bytes) (i : nat) (src : bytes) : Prop := exists k, src = firstn k (skipn i B).

Lemma prefix_nth B i src x : prefix_at B i src -> (x < length src)%nat -> nth_error src x = nth_error B (i + x).
Proof.
  intros [k ->] Hx. rewrite firstn_length in Hx.
  rewrite nth_error_firstn_lt by lia. apply nth_error_skipn_add.
Qed.

Lemma prefix_firstn B i src m : prefix_at B i src -> prefix_at B i (firstn m src).
Proof. intros [k ->]. exists (Nat.min m k). apply firstn_firstn. Qed.

Lemma prefix_skipn B i src m : prefix_at B i src -> prefix_at B (i + m) (skipn m src).
Proof.
  intros [k ->]. exists (k - m)%nat. rewrite skipn_firstn_comm, skipn_skipn_add. reflexivity.
Qed.

Lemma prefix_slice_full B i n : prefix_at B i (firstn n (skipn i B)).
Proof. exists n. reflexivity. Qed.

Definition sound (B : bytes) (o : nat) (p p' : bytes) : Prop :=
  length p' = length p /\ forall x, nth_error p' x = nth_error p x \/ okpos B o p' x.

Lemma sound_refl B o p : sound B o p p.
Proof. split; auto. Qed.

Lemma sound_trans B o p1 p2 p3 : sound B o p1 p2 -> sound B o p2 p3 -> sound B o p1 p3.
Proof.
  intros [L1 H1] [L2 H2]. split; [congruence|].
  intros x. destruct (H2 x) as [E|E]; auto. destruct (H1 x) as [E'|E']; [left; congruence|].
  right. unfold okpos in *. congruence.
Qed.

(* window [base, base+len) of p holds the right blob bytes *)
Definition win (B : bytes) (o : nat) (p : bytes) (base len : nat) : Prop :=
  forall x, (base <= x < base + len)%nat -> okpos B o p x.

Lemma sound_win B o p p' base len : sound B o p p' -> win B o p base len -> win B o p' base len.
Proof.
  intros [L H] W x Hx. destruct (H x) as [E|E]; auto. unfold okpos in *. rewrite E. apply W. exact Hx.
Qed.

Lemma write_honest B o p k src :
  prefix_at B (o + k) src ->
  sound B o p (write_at p k src) /\
  (forall x, (k <= x < k + length src)%nat -> (x < length p)%nat -> okpos B o (write_at p k src) x).
Proof.
  intros Hp.
  assert (Hin : forall x, (k <= x < k + length src)%nat -> (x < length p)%nat -> okpos B o (write_at p k src) x).
  { intros x Hx Hl. unfold okpos. rewrite write_at_in by auto.
    rewrite (prefix_nth B (o + k) src) by (auto; lia). f_equal. lia. }
  split; auto. split; [apply write_at_length|].
  intros x.
  destruct (le_lt_dec k x) as [H1|H1]; [destruct (le_lt_dec (k + length src) x) as [H2|H2]|].
  - left. apply write_at_out. lia.
  - destruct (le_lt_dec (length p) x) as [H3|H3].
    + left. rewrite (proj2 (nth_error_None _ _)) by (rewrite write_at_length; lia).
      symmetry. apply nth_error_None. lia.
    + right. apply Hin; lia.
  - left. apply write_at_out. lia.
Qed.
