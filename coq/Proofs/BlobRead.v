(* Proofs about Model/BlobRead.v. *)
From Coq Require Import List ZArith NArith Bool Lia Sorted.
From SV Require Import Model.Region Model.BlobRead Proofs.Region.
Import ListNotations.
Open Scope Z_scope.

(* ------------------------------------------------------------------------------------------ *)
(* list facts *)

Lemma nth_error_firstn_lt {A} (l : list A) : forall n x, (x < n)%nat -> nth_error (firstn n l) x = nth_error l x.
Proof.
  induction l as [|h t IH]; intros n x Hx.
  - rewrite firstn_nil. reflexivity.
  - destruct n; [lia|]. destruct x; simpl; auto. apply IH. lia.
Qed.

Lemma nth_error_firstn_ge {A} (l : list A) : forall n x, (n <= x)%nat -> nth_error (firstn n l) x = None.
Proof.
  intros n x Hx. apply nth_error_None. rewrite firstn_length. lia.
Qed.

Lemma nth_error_skipn_add {A} (l : list A) : forall n x, nth_error (skipn n l) x = nth_error l (n + x).
Proof.
  induction l as [|h t IH]; intros n x.
  - rewrite skipn_nil. destruct x, n; reflexivity.
  - destruct n; simpl; auto.
Qed.

Lemma skipn_skipn_add {A} (l : list A) : forall i m, skipn m (skipn i l) = skipn (i + m) l.
Proof.
  induction l as [|h t IH]; intros i m.
  - rewrite !skipn_nil. reflexivity.
  - destruct i; simpl; auto.
Qed.

Lemma list_ext {A} : forall (l1 l2 : list A),
  length l1 = length l2 -> (forall x, (x < length l1)%nat -> nth_error l1 x = nth_error l2 x) -> l1 = l2.
Proof.
  induction l1 as [|a l1 IH]; intros [|b l2] Hl Hn; simpl in Hl; try discriminate; auto.
  f_equal.
  - specialize (Hn 0%nat). simpl in Hn. assert (Some a = Some b) by (apply Hn; lia). congruence.
  - apply IH; [lia|]. intros x Hx. apply (Hn (S x)). simpl. lia.
Qed.

Lemma write_at_length p : forall k src, length (write_at p k src) = length p.
Proof.
  induction p as [|h t IH]; intros k src; simpl; auto.
  destruct k; simpl; [destruct src; simpl|]; auto.
Qed.

Lemma write_at_in p : forall k src x,
  (k <= x < k + length src)%nat -> (x < length p)%nat ->
  nth_error (write_at p k src) x = nth_error src (x - k).
Proof.
  induction p as [|h t IH]; intros k src x Hx Hp; simpl in Hp; [lia|].
  destruct k as [|k'].
  - destruct src as [|s src']; simpl in Hx; [lia|].
    simpl. destruct x as [|x']; simpl; auto.
    rewrite IH; simpl; try lia. f_equal. lia.
  - simpl. destruct x as [|x']; [lia|]. simpl. apply IH; simpl in *; lia.
Qed.

Lemma write_at_out p : forall k src x,
  (x < k \/ k + length src <= x)%nat ->
  nth_error (write_at p k src) x = nth_error p x.
Proof.
  induction p as [|h t IH]; intros k src x Hx; simpl; auto.
  destruct k as [|k'].
  - destruct src as [|s src']; auto.
    simpl in Hx. destruct x as [|x']; [lia|]. simpl. apply IH. simpl. lia.
  - destruct x as [|x']; simpl; auto. apply IH. lia.
Qed.

Lemma write_at_nil p k : write_at p k [] = p.
Proof.
  apply list_ext; [apply write_at_length|].
  intros x _. apply write_at_out. simpl. lia.
Qed.

(* ------------------------------------------------------------------------------------------ *)
(* honest writes: every copy into the caller's buffer puts blob byte o+x at position x *)

Definition okpos (B : bytes) (o : nat) (p : bytes) (x : nat) : Prop := nth_error p x = nth_error B (o + x).

(* src is a run of B starting at index i *)
Definition prefix_at (B : bytes) (i : nat) (src : bytes) : Prop := exists k, src = firstn k (skipn i B).

Lemma prefix_nth B i src x : prefix_at B i src -> (x < length src)%nat -> nth_error src x = nth_error B (i + x).
Proof.
  intros [k ->] Hx. rewrite firstn_length in Hx.
  rewrite nth_error_firstn_lt by lia. apply nth_error_skipn_add.
Qed.

Lemma prefix_firstn B i src m : prefix_at B i src -> prefix_at B i (firstn m src).
Proof. intros [k ->]. exists (Nat.min m k). apply firstn_firstn. Qed.

Lemma prefix_skipn B i src m : prefix_at B i src -> prefix_at B (i + m) (skipn m src).
Proof.
  intros [k ->]. exists (k - m)%nat. rewrite skipn_firstn_comm, skipn_skipn_add. reflexivity.
Qed.

Lemma prefix_slice_full B i n : prefix_at B i (firstn n (skipn i B)).
Proof. exists n. reflexivity. Qed.

Definition sound (B : bytes) (o : nat) (p p' : bytes) : Prop :=
  length p' = length p /\ forall x, nth_error p' x = nth_error p x \/ okpos B o p' x.

Lemma sound_refl B o p : sound B o p p.
Proof. split; auto. Qed.

Lemma sound_trans B o p1 p2 p3 : sound B o p1 p2 -> sound B o p2 p3 -> sound B o p1 p3.
Proof.
  intros [L1 H1] [L2 H2]. split; [congruence|].
  intros x. destruct (H2 x) as [E|E]; auto. destruct (H1 x) as [E'|E']; [left; congruence|].
  right. unfold okpos in *. congruence.
Qed.

(* window [base, base+len) of p holds the right blob bytes *)
Definition win (B : bytes) (o : nat) (p : bytes) (base len : nat) : Prop :=
  forall x, (base <= x < base + len)%nat -> okpos B o p x.

Lemma sound_win B o p p' base len : sound B o p p' -> win B o p base len -> win B o p' base len.
Proof.
  intros [L H] W x Hx. destruct (H x) as [E|E]; auto. unfold okpos in *. rewrite E. apply W. exact Hx.
Qed.

Lemma write_honest B o p k src :
  prefix_at B (o + k) src ->
  sound B o p (write_at p k src) /\
  (forall x, (k <= x < k + length src)%nat -> (x < length p)%nat -> okpos B o (write_at p k src) x).
Proof.
  intros Hp.
  assert (Hin : forall x, (k <= x < k + length src)%nat -> (x < length p)%nat -> okpos B o (write_at p k src) x).
  { intros x Hx Hl. unfold okpos. rewrite write_at_in by auto.
    rewrite (prefix_nth B (o + k) src) by (auto; lia). f_equal. lia. }
  split; auto. split; [apply write_at_length|].
  intros x.
  destruct (le_lt_dec k x) as [H1|H1]; [destruct (le_lt_dec (k + length src) x) as [H2|H2]|].
  - left. apply write_at_out. lia.
  - destruct (le_lt_dec (length p) x) as [H3|H3].
    + left. rewrite (proj2 (nth_error_None _ _)) by (rewrite write_at_length; lia).
      symmetry. apply nth_error_None. lia.
    + right. apply Hin; lia.
  - left. apply write_at_out. lia.
Qed.

(* ------------------------------------------------------------------------------------------ *)
(* bytesWriter *)

Lemma positive_max z : positive z = Z.max 0 z.
Proof. unfold positive. destruct (Z.ltb_spec z 0); lia. Qed.

Lemma zlen_nonneg {A} (l : list A) : 0 <= zlen l.
Proof. unfold zlen. lia. Qed.

Lemma region_eqb_eq a b : region_eqb a b = true <-> a = b.
Proof.
  unfold region_eqb, rb, re. destruct a as [a1 a2], b as [b1 b2]; simpl.
  rewrite andb_true_iff, !Z.eqb_eq. split; [intros [-> ->]; auto | intros H; inversion H; auto].
Qed.

Lemma region_eqb_refl a : region_eqb a a = true.
Proof. apply region_eqb_eq. reflexivity. Qed.

Lemma region_eqb_sym a b : region_eqb a b = region_eqb b a.
Proof.
  destruct (region_eqb a b) eqn:E.
  - apply region_eqb_eq in E. subst. symmetry. apply region_eqb_refl.
  - destruct (region_eqb b a) eqn:E'; auto. apply region_eqb_eq in E'. subst. rewrite region_eqb_refl in E. discriminate.
Qed.

(* geometry of a writer for a read whose first byte is blob index o: window inside p, and position base in p
   corresponds to stream (chunk) position w_off *)
Definition wgeo (o : nat) (p : bytes) (w : writer) : Prop :=
  0 <= w_base w /\ 0 <= w_len w /\ 0 <= w_off w /\ w_base w + w_len w <= zlen p /\
  0 <= rb (w_chunk w) /\ Z.of_nat o + w_base w = rb (w_chunk w) + w_off w /\
  w_off w + w_len w <= rsize (w_chunk w).

(* a Write of data that really is the chunk's content at stream position w_cur only puts right bytes *)
Lemma bw_write_honest B o p w data :
  wgeo o p w -> 0 <= w_cur w ->
  prefix_at B (Z.to_nat (rb (w_chunk w) + w_cur w)) data ->
  exists p', bw_write p w data = Some (p', w_advance w (zlen data)) /\ sound B o p p' /\
    (forall x, w_base w <= Z.of_nat x < w_base w + w_len w ->
               w_cur w <= w_off w + (Z.of_nat x - w_base w) < w_cur w + zlen data -> okpos B o p' x).
Proof.
  intros (G1 & G2 & G3 & G4 & G5 & G6 & G7) Hc Hp.
  unfold bw_write. rewrite !positive_max.
  pose proof (zlen_nonneg data) as Hd.
  destruct (Z.ltb_spec (w_len w) (Z.max 0 (w_cur w - w_off w))) as [E1|E1].
  { exists p. split; auto. split; [apply sound_refl|]. intros x Hx Hq. lia. }
  destruct (Z.leb_spec (zlen data) (Z.max 0 (w_off w - w_cur w))) as [E2|E2].
  { exists p. split; auto. split; [apply sound_refl|]. intros x Hx Hq. lia. }
  set (pEnd := if zlen data <? Z.max 0 (w_off w + w_len w - w_cur w) then zlen data
               else Z.max 0 (w_off w + w_len w - w_cur w)).
  assert (HpEnd : pEnd = Z.min (zlen data) (Z.max 0 (w_off w + w_len w - w_cur w))).
  { unfold pEnd. destruct (Z.ltb_spec (zlen data) (Z.max 0 (w_off w + w_len w - w_cur w))); lia. }
  destruct (Z.ltb_spec pEnd (Z.max 0 (w_off w - w_cur w))) as [E3|E3]; [lia|].
  unfold copy_into, slice.
  set (k := Z.to_nat (w_base w + Z.max 0 (w_cur w - w_off w))).
  set (src := firstn (Z.to_nat (w_len w - Z.max 0 (w_cur w - w_off w)))
                (firstn (Z.to_nat (pEnd - Z.max 0 (w_off w - w_cur w)))
                   (skipn (Z.to_nat (Z.max 0 (w_off w - w_cur w))) data))).
  assert (Hsrc : prefix_at B (o + k) src).
  { unfold src. apply prefix_firstn, prefix_firstn.
    replace (o + k)%nat with (Z.to_nat (rb (w_chunk w) + w_cur w) + Z.to_nat (Z.max 0 (w_off w - w_cur w)))%nat
      by (unfold k; lia).
    apply prefix_skipn. exact Hp. }
  destruct (write_honest B o p k src Hsrc) as [Hs Hcov].
  eexists. split; [reflexivity|]. split; [exact Hs|].
  intros x Hx Hq. apply Hcov.
  - unfold src. rewrite !firstn_length, skipn_length. unfold zlen in *. unfold k. lia.
  - unfold zlen in G4. lia.
Qed.

(* a writer that has seen its whole chunk ignores everything that follows *)
Lemma bw_write_inert p w data :
  0 <= w_len w -> 0 <= w_off w -> w_off w + w_len w <= rsize (w_chunk w) -> rsize (w_chunk w) <= w_cur w ->
  bw_write p w data = Some (p, w_advance w (zlen data)).
Proof.
  intros G2 G3 G7 Hc. unfold bw_write. rewrite !positive_max.
  pose proof (zlen_nonneg data) as Hd.
  destruct (Z.ltb_spec (w_len w) (Z.max 0 (w_cur w - w_off w))) as [E1|E1]; auto.
  destruct (Z.leb_spec (zlen data) (Z.max 0 (w_off w - w_cur w))) as [E2|E2]; auto.
  destruct (Z.ltb_spec (zlen data) (Z.max 0 (w_off w + w_len w - w_cur w))) as [E4|E4]; [lia|].
  destruct (Z.ltb_spec (Z.max 0 (w_off w + w_len w - w_cur w)) (Z.max 0 (w_off w - w_cur w))) as [E3|E3]; [lia|].
  unfold copy_into. replace (w_len w - Z.max 0 (w_cur w - w_off w)) with 0 by lia.
  simpl. rewrite write_at_nil. reflexivity.
Qed.

(* invariant of one writer during a read: geometry, and either untouched or complete with its window right *)
Definition wok (B : bytes) (o : nat) (p : bytes) (w : writer) : Prop :=
  wgeo o p w /\
  (w_cur w = 0 \/ (rsize (w_chunk w) <= w_cur w /\ win B o p (Z.to_nat (w_base w)) (Z.to_nat (w_len w)))).

Lemma wgeo_len o p p' w : length p' = length p -> wgeo o p w -> wgeo o p' w.
Proof. unfold wgeo, zlen. intros ->. auto. Qed.

Lemma wok_sound B o p p' w : sound B o p p' -> wok B o p w -> wok B o p' w.
Proof.
  intros Hs [G C]. split; [exact (wgeo_len o p p' w (proj1 Hs) G)|].
  destruct C as [C|[C W]]; auto. right. split; auto. eapply sound_win; eauto.
Qed.

Definition seen_done (seen : list region) (w : writer) : Prop :=
  mem_region (w_chunk w) seen = true -> rsize (w_chunk w) <= w_cur w.

Lemma ws_write_ok B o c data seen : forall ws p,
  Forall (wok B o p) ws -> Forall (seen_done seen) ws ->
  prefix_at B (Z.to_nat (rb c)) data ->
  exists p' ws', ws_write p ws c data = Some (p', ws') /\ sound B o p p' /\
    (zlen data = rsize c -> Forall (wok B o p') ws' /\ Forall (seen_done (c :: seen)) ws').
Proof.
  induction ws as [|w t IH]; intros p Hw Hsd Hp.
  - exists p, []. simpl. split; auto. split; [apply sound_refl|]. intros _. split; constructor.
  - inversion Hw as [|? ? Hw1 Hwt]; subst. inversion Hsd as [|? ? Hs1 Hst]; subst.
    cbn [ws_write].
    destruct (region_eqb (w_chunk w) c) eqn:E.
    + apply region_eqb_eq in E.
      assert (Hbw : exists p1, bw_write p w data = Some (p1, w_advance w (zlen data)) /\ sound B o p p1 /\
                (zlen data = rsize c -> wok B o p1 (w_advance w (zlen data)) /\ rsize c <= w_cur w + zlen data)).
      { destruct Hw1 as [G C]. destruct C as [C|[C W]].
        - destruct (bw_write_honest B o p w data G) as (p1 & E1 & S1 & Cov).
          + lia.
          + rewrite C, E. replace (rb c + 0) with (rb c) by lia. exact Hp.
          + exists p1. split; auto. split; auto. intros Hfull. split; [|lia]. split.
            * exact (wgeo_len o p p1 w (proj1 S1) G).
            * right. simpl. split; [rewrite E; lia|].
              intros x Hx. apply Cov; destruct G as (G1 & G2 & G3 & G4 & G5 & G6 & G7); rewrite E in *; lia.
        - exists p. split; [|split; [apply sound_refl|]].
          + destruct G as (G1 & G2 & G3 & G4 & G5 & G6 & G7). apply bw_write_inert; auto.
          + intros Hfull. pose proof (zlen_nonneg data). split; [|rewrite <- E; lia].
            split; [exact G|]. right. simpl. split; [lia|exact W]. }
      destruct Hbw as (p1 & E1 & S1 & F1). rewrite E1.
      destruct (IH p1) as (p2 & t' & E2 & S2 & F2); auto.
      { eapply Forall_impl; [|exact Hwt]. intros a. apply wok_sound. exact S1. }
      rewrite E2. exists p2, (w_advance w (zlen data) :: t'). split; auto.
      split; [eapply sound_trans; eauto|].
      intros Hfull. destruct (F1 Hfull) as [Wk Dn]. destruct (F2 Hfull) as [Wt Dt]. split; constructor; auto.
      * eapply wok_sound; eauto.
      * intros _. simpl. rewrite E. exact Dn.
    + destruct (IH p) as (p2 & t' & E2 & S2 & F2); auto.
      rewrite E2. exists p2, (w :: t'). split; auto. split; auto.
      intros Hfull. destruct (F2 Hfull) as [Wt Dt]. split; constructor; auto.
      * eapply wok_sound; eauto.
      * intros Hm. simpl in Hm. rewrite region_eqb_sym, E in Hm. simpl in Hm. apply Hs1. exact Hm.
Qed.

(* ------------------------------------------------------------------------------------------ *)
(* walkChunks *)

Lemma walk_loop_nil f size cs i e : size <= i -> walk_loop f size cs i e = [].
Proof.
  intros H. destruct f; simpl; auto.
  destruct (Z.ltb_spec i size); [lia|]. rewrite andb_false_r. reflexivity.
Qed.

(* every visited chunk starts in [i, e], below size, on the grid i + k*cs, and is clipped to the blob *)
Lemma walk_loop_in size cs e : 0 < cs -> forall f i c,
  In c (walk_loop f size cs i e) ->
  i <= rb c /\ rb c <= e /\ rb c < size /\ re c = Z.min (rb c + cs - 1) (size - 1) /\ (rb c - i) mod cs = 0.
Proof.
  intros Hcs. induction f as [|f IH]; intros i c Hin; simpl in Hin; [contradiction|].
  destruct (Z.leb_spec i e); destruct (Z.ltb_spec i size); simpl in Hin; try contradiction.
  destruct Hin as [<-|Hin].
  - unfold rb, re; simpl. rewrite Z.sub_diag, Z.mod_0_l by lia.
    destruct (Z.leb_spec size (i + cs - 1)); lia.
  - apply IH in Hin. destruct Hin as (H1 & H2 & H3 & H4 & H5). repeat split; try lia.
    replace (rb c - i) with ((rb c - (i + cs)) + 1 * cs) by lia. rewrite Z.mod_add by lia. exact H5.
Qed.

(* with the fuel of walk_fuel, every byte of [i, e] below size lies in a visited chunk *)
Lemma walk_loop_cover size cs e y : 0 < cs -> forall f i,
  (Z.min e (size - 1) - i) / cs + 1 <= Z.of_nat f ->
  i <= y -> y <= e -> y < size ->
  exists c, In c (walk_loop f size cs i e) /\ rb c <= y <= re c.
Proof.
  intros Hcs. induction f as [|f IH]; intros i Hf H1 H2 H3.
  - assert (0 <= (Z.min e (size - 1) - i) / cs) by (apply Z.div_pos; lia). lia.
  - simpl. destruct (Z.leb_spec i e); [|lia]. destruct (Z.ltb_spec i size); [|lia]. simpl.
    destruct (Z_le_gt_dec y (i + cs - 1)) as [Hy|Hy].
    + eexists. split; [left; reflexivity|]. unfold rb, re; simpl.
      destruct (Z.leb_spec size (i + cs - 1)); lia.
    + destruct (IH (i + cs)) as (c & Hin & Hc); try lia.
      * replace (Z.min e (size - 1) - (i + cs)) with ((Z.min e (size - 1) - i) + (-1) * cs) by lia.
        rewrite Z.div_add by lia. lia.
      * exists c. split; auto.
Qed.

Lemma floor_spec a u : 0 <= a -> 0 < u -> floorZ a u = u * (a / u).
Proof. intros. unfold floorZ. rewrite Z.quot_div_nonneg by lia. lia. Qed.

Lemma ceil_spec a u : 0 <= a -> 0 < u -> ceilZ a u = u * (a / u) + u.
Proof. intros. unfold ceilZ. rewrite Z.quot_div_nonneg by lia. lia. Qed.

(* the chunks ReadAt walks for [off, off+n) *)
Lemma read_walk size cs off n :
  0 < cs -> 0 <= off -> 0 < n ->
  exists chunks, walk_chunks size cs (all_region cs off n) = Some chunks /\
    (forall c, In c chunks ->
       0 <= rb c /\ rb c <= re c /\ re c < size /\ rb c <= off + n - 1 /\ (off <= size -> off <= re c + 1)) /\
    (forall y, off <= y < off + n -> y < size -> exists c, In c chunks /\ rb c <= y <= re c).
Proof.
  intros Hcs Hoff Hn. unfold walk_chunks, all_region. cbn [rb re fst snd].
  rewrite floor_spec, ceil_spec by lia.
  pose proof (Z.mul_div_le off cs Hcs) as Hf1.
  pose proof (Z.mod_pos_bound off cs Hcs) as Hf2.
  pose proof (Z.div_mod off cs ltac:(lia)) as Hf3.
  pose proof (Z.mod_pos_bound (off + n - 1) cs Hcs) as Hc2.
  pose proof (Z.div_mod (off + n - 1) cs ltac:(lia)) as Hc3.
  assert (Hfl0 : 0 <= cs * (off / cs)) by (apply Z.mul_nonneg_nonneg; [lia|apply Z.div_pos; lia]).
  rewrite Z.rem_mod_nonneg by lia.
  rewrite Z.mul_comm, Z.mod_mul by lia. simpl.
  eexists. split; [reflexivity|]. split.
  - intros c Hin. apply (walk_loop_in size cs _ Hcs) in Hin.
    destruct Hin as (H1 & H2 & H3 & H4 & H5).
    assert (Hal : rb c mod cs = 0).
    { replace (rb c) with ((rb c - off / cs * cs) + (off / cs) * cs) by lia. rewrite Z.mod_add by lia. exact H5. }
    assert (Hle : rb c <= off + n - 1).
    { pose proof (Z.div_mod (rb c) cs ltac:(lia)) as Hd. rewrite Hal in Hd.
      assert (rb c / cs <= (off + n - 1) / cs).
      { apply Z.div_le_mono; lia. } nia. }
    repeat split; try lia.
  - intros y Hy Hs.
    apply (walk_loop_cover size cs _ y Hcs); try lia.
    unfold walk_fuel. rewrite Z2Nat.id; [lia|].
    assert (0 <= (Z.min (cs * ((off + n - 1) / cs) + cs - 1) (size - 1) - off / cs * cs) / cs) by (apply Z.div_pos; lia).
    lia.
Qed.
