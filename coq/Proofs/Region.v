(* Proofs about Model/Region.v: regionSet.add keeps the set sorted / disjoint / non-adjacent and covers exactly
   the old bytes plus the new region; totalSize is the number of distinct covered bytes. *)
From Coq Require Import List ZArith Bool Sorted Lia Permutation.
From SV Require Import Model.Region.
Import ListNotations.
Open Scope Z_scope.

(* ---- generic list facts ---- *)
Lemma SS_app_iff {A} (R : A -> A -> Prop) (l1 l2 : list A) :
  StronglySorted R (l1 ++ l2) <->
  StronglySorted R l1 /\ StronglySorted R l2 /\ Forall (fun a => Forall (R a) l2) l1.
Proof.
  induction l1 as [|a l1 IH]; simpl.
  - split; [intros H; repeat split; auto; constructor | intros (_ & H & _); exact H].
  - split.
    + intros H. inversion H as [|? ? Hs Hf]; subst.
      apply IH in Hs. destruct Hs as (H1 & H2 & H3).
      apply Forall_app in Hf. destruct Hf as [Hf1 Hf2].
      repeat split; auto; constructor; auto.
    + intros (H1 & H2 & H3).
      inversion H1 as [|? ? Hs Hf]; subst. inversion H3 as [|? ? Ha Hr]; subst.
      constructor.
      * apply IH. repeat split; auto.
      * apply Forall_app. split; auto.
Qed.

Lemma SS_rev {A} (R : A -> A -> Prop) (l : list A) :
  StronglySorted R l -> StronglySorted (fun a b => R b a) (rev l).
Proof.
  induction 1 as [|a l Hs IH Hf]; simpl.
  - constructor.
  - apply SS_app_iff. repeat split.
    + exact IH.
    + constructor; constructor.
    + apply Forall_rev. eapply Forall_impl; [|exact Hf]. intros b Hb. constructor; [exact Hb|constructor].
Qed.

(* ---- covered ---- *)
Lemma covered_nil x : ~ covered [] x.
Proof. intros (r & [] & _). Qed.

Lemma covered_cons r rs x : covered (r :: rs) x <-> inr r x \/ covered rs x.
Proof.
  unfold covered. split.
  - intros (r' & [He|Hin] & Hx); [subst; auto | right; eauto].
  - intros [Hx|(r' & Hin & Hx)]; [exists r; simpl; auto | exists r'; simpl; auto].
Qed.

Lemma covered_app l1 l2 x : covered (l1 ++ l2) x <-> covered l1 x \/ covered l2 x.
Proof.
  unfold covered. split.
  - intros (r & Hin & Hx). apply in_app_iff in Hin. destruct Hin; [left|right]; eauto.
  - intros [(r & Hin & Hx)|(r & Hin & Hx)]; exists r; split; auto; apply in_app_iff; auto.
Qed.

Lemma covered_rev l x : covered (rev l) x <-> covered l x.
Proof.
  unfold covered. split; intros (r & Hin & Hx); exists r; split; auto.
  - apply in_rev. exact Hin.
  - apply in_rev in Hin. exact Hin.
Qed.

(* ---- the loop invariant of regionSet.add ---- *)
Definition desc (l : list region) : Prop := StronglySorted (fun a b => lt_reg b a) l.

Lemma lt_reg_trans a b c : wf_reg b -> lt_reg a b -> lt_reg b c -> lt_reg a c.
Proof. unfold lt_reg, wf_reg. lia. Qed.

Lemma good_rev_append low_rev high :
  desc low_rev -> Forall wf_reg low_rev ->
  StronglySorted lt_reg high -> Forall wf_reg high ->
  Forall (fun l => Forall (lt_reg l) high) low_rev ->
  Good (rev_append low_rev high).
Proof.
  intros Hd Hw Hs Hwh Hc. rewrite rev_append_rev. split.
  - apply SS_app_iff. repeat split; auto.
    + exact (SS_rev _ _ Hd).
    + apply Forall_rev. exact Hc.
  - apply Forall_app. split; [apply Forall_rev|]; auto.
Qed.

Lemma covered_rev_append low_rev high x :
  covered (rev_append low_rev high) x <-> covered low_rev x \/ covered high x.
Proof. rewrite rev_append_rev, covered_app, covered_rev. tauto. Qed.

Lemma add_rev_spec : forall low_rev high r,
  wf_reg r ->
  desc low_rev -> Forall wf_reg low_rev ->
  StronglySorted lt_reg high -> Forall wf_reg high ->
  Forall (fun l => Forall (lt_reg l) high) low_rev ->
  Forall (lt_reg r) high ->
  Good (add_rev high low_rev r) /\
  (forall x, covered (add_rev high low_rev r) x <-> covered low_rev x \/ covered high x \/ inr r x).
Proof.
  induction low_rev as [|l rest IH]; intros high r Hr Hd Hw Hs Hwh Hc Hrh.
  - simpl. split.
    + split; constructor; auto.
    + intros x. rewrite covered_cons. split; [tauto|]. intros [H|H]; [destruct (covered_nil _ H)|tauto].
  - inversion Hd as [|? ? Hd' Hdl]; subst.
    inversion Hw as [|? ? Hwl Hw']; subst.
    inversion Hc as [|? ? Hcl Hc']; subst.
    unfold wf_reg in Hr, Hwl.
    cbn [add_rev].
    destruct ((rb l <=? rb r) && (re r <=? re l)) eqn:E1.
    { (* l contains r *)
      apply andb_true_iff in E1. destruct E1 as [E1a E1b]. apply Z.leb_le in E1a, E1b.
      split.
      - apply good_rev_append; auto.
      - intros x. rewrite covered_rev_append. rewrite (covered_cons l rest).
        unfold inr. split; [tauto|]. intros [H|[H|H]]; auto. left. left. lia. }
    destruct ((rb l <=? rb r) && (rb r <=? re l + 1) && (re l <=? re r)) eqn:E2.
    { apply andb_true_iff in E2. destruct E2 as [E2 E2c]. apply andb_true_iff in E2. destruct E2 as [E2a E2b].
      apply Z.leb_le in E2a, E2b, E2c.
      destruct (IH high (rb l, re r)) as [HG HC]; auto.
      - unfold wf_reg; simpl; lia.
      - split; auto. intros x. rewrite HC, (covered_cons l rest). unfold inr; simpl. split.
        + intros [H|[H|H]]; auto. destruct (Z_le_gt_dec (rb r) x); [right; right; lia|left; left; lia].
        + intros [[H|H]|[H|H]]; auto; right; right; lia. }
    destruct ((rb r <=? rb l) && (rb l <=? re r + 1) && (re r <=? re l)) eqn:E3.
    { apply andb_true_iff in E3. destruct E3 as [E3 E3c]. apply andb_true_iff in E3. destruct E3 as [E3a E3b].
      apply Z.leb_le in E3a, E3b, E3c.
      destruct (IH high (rb r, re l)) as [HG HC]; auto.
      - unfold wf_reg; simpl; lia.
      - split; auto. intros x. rewrite HC, (covered_cons l rest). unfold inr; simpl. split.
        + intros [H|[H|H]]; auto. destruct (Z_le_gt_dec (rb l) x); [left; left; lia|right; right; lia].
        + intros [[H|H]|[H|H]]; auto; right; right; lia. }
    destruct ((rb r <=? rb l) && (re l <=? re r)) eqn:E4.
    { apply andb_true_iff in E4. destruct E4 as [E4a E4b]. apply Z.leb_le in E4a, E4b.
      destruct (IH high r) as [HG HC]; auto.
      split; auto. intros x. rewrite HC, (covered_cons l rest). unfold inr. split.
      + tauto.
      + intros [[H|H]|[H|H]]; auto. right; right; lia. }
    (* from here: no overlap and no adjacency between l and r *)
    assert (Hno : lt_reg l r \/ lt_reg r l).
    { unfold lt_reg.
      destruct (Z.leb_spec (rb l) (rb r)); destruct (Z.leb_spec (re r) (re l));
      destruct (Z.leb_spec (rb r) (re l + 1)); destruct (Z.leb_spec (re l) (re r));
      destruct (Z.leb_spec (rb r) (rb l)); destruct (Z.leb_spec (rb l) (re r + 1));
      simpl in E1, E2, E3, E4; try discriminate; lia. }
    destruct (re l <? rb r) eqn:E5.
    { apply Z.ltb_lt in E5.
      assert (Hlr : lt_reg l r) by (destruct Hno as [H|H]; auto; unfold lt_reg in *; lia).
      assert (Hcross : Forall (fun l0 => Forall (lt_reg l0) (r :: high)) (l :: rest)).
      { constructor.
        - constructor; auto.
        - clear - Hdl Hc' Hlr Hwl.
          induction rest as [|a rest IH]; constructor.
          + inversion Hdl; inversion Hc'; subst. constructor; auto.
            eapply lt_reg_trans; eauto.
          + inversion Hdl; inversion Hc'; subst. apply IH; auto. }
      split.
      - apply good_rev_append.
        + exact Hd.
        + exact Hw.
        + constructor; [exact Hs|exact Hrh].
        + constructor; [exact Hr|exact Hwh].
        + exact Hcross.
      - intros x. rewrite covered_rev_append, (covered_cons r high). tauto. }
    { apply Z.ltb_ge in E5.
      assert (Hrl : lt_reg r l) by (destruct Hno as [H|H]; auto; unfold lt_reg in *; lia).
      assert (Hcross : Forall (fun l0 => Forall (lt_reg l0) (l :: high)) rest).
      { clear - Hdl Hc'.
        induction rest as [|a rest IH]; constructor.
        + inversion Hdl; inversion Hc'; subst. constructor; auto.
        + inversion Hdl; inversion Hc'; subst. apply IH; auto. }
      destruct (IH (l :: high) r Hr Hd' Hw') as [HG HC].
      - constructor; [exact Hs|exact Hcl].
      - constructor; [exact Hwl|exact Hwh].
      - exact Hcross.
      - constructor; [exact Hrl|exact Hrh].
      - split; auto. intros x. rewrite HC, (covered_cons l rest), (covered_cons l high). tauto. }
Qed.

Lemma good_desc_rev rs : Good rs -> desc (rev rs) /\ Forall wf_reg (rev rs).
Proof.
  intros [Hs Hw]. split.
  - apply SS_rev in Hs. exact Hs.
  - apply Forall_rev. exact Hw.
Qed.

(* region_add_spec *)
Lemma region_add_spec rs r :
  Good rs -> wf_reg r ->
  Good (add rs r) /\ (forall x, covered (add rs r) x <-> covered rs x \/ inr r x).
Proof.
  intros HG Hr. destruct (good_desc_rev rs HG) as [Hd Hw].
  destruct (add_rev_spec (rev rs) [] r) as [H1 H2]; auto.
  - constructor.
  - clear. induction (rev rs); constructor; auto.
  - split; auto. intros x. unfold add. rewrite H2, covered_rev.
    split; [intros [H|[H|H]]; auto; destruct (covered_nil _ H) | tauto].
Qed.

Lemma good_nil : Good [].
Proof. split; constructor. Qed.

(* ---- totalSize = number of distinct covered bytes ---- *)
Lemma zseq_in n : forall lo x, In x (zseq lo n) <-> lo <= x < lo + Z.of_nat n.
Proof.
  induction n as [|n IH]; intros lo x; simpl zseq.
  - simpl. lia.
  - simpl In. rewrite IH. lia.
Qed.

Lemma zseq_length n lo : length (zseq lo n) = n.
Proof. revert lo; induction n; intros; simpl; auto. Qed.

Lemma zseq_nodup n : forall lo, NoDup (zseq lo n).
Proof.
  induction n as [|n IH]; intros lo; simpl; constructor; auto.
  rewrite zseq_in. lia.
Qed.

Lemma points_in rs x : In x (points rs) <-> covered rs x.
Proof.
  unfold points. rewrite in_flat_map. unfold covered, inr, rsize. split.
  - intros (r & Hin & Hx). exists r. split; auto. apply zseq_in in Hx. lia.
  - intros (r & Hin & Hx). exists r. split; auto. apply zseq_in. lia.
Qed.

Lemma points_nodup rs : Good rs -> NoDup (points rs).
Proof.
  intros [Hs Hw]. induction Hs as [|a l Hs IH Hf]; simpl.
  - constructor.
  - inversion Hw as [|? ? Hwa Hwl]; subst.
    assert (Hd : forall x, In x (zseq (rb a) (Z.to_nat (rsize a))) -> ~ In x (points l)).
    { intros x Hx Hp. apply zseq_in in Hx. apply points_in in Hp. destruct Hp as (r & Hin & Hr).
      rewrite Forall_forall in Hf. specialize (Hf r Hin). unfold lt_reg, inr, rsize, wf_reg in *. lia. }
    generalize (zseq_nodup (Z.to_nat (rsize a)) (rb a)) Hd (IH Hwl).
    generalize (zseq (rb a) (Z.to_nat (rsize a))) (points l). clear.
    induction l as [|h t IHt]; simpl; intros l2 Hn Hd Hn2; auto.
    inversion Hn; subst. constructor.
    + intros Hin. apply in_app_iff in Hin.
      destruct Hin as [Hin|Hin]; [contradiction | exact (Hd h (or_introl eq_refl) Hin)].
    + apply IHt; auto; intros x Hx; apply Hd; right; exact Hx.
Qed.

Lemma fold_total_shift rs : forall a b,
  fold_left (fun a r => a + rsize r) rs (a + b) = a + fold_left (fun a r => a + rsize r) rs b.
Proof.
  induction rs as [|r rs IH]; intros a b; simpl.
  - reflexivity.
  - replace (a + b + rsize r) with (a + (b + rsize r)) by lia. apply IH.
Qed.

Lemma fold_total_acc rs : forall a, fold_left (fun a r => a + rsize r) rs a = a + total_size rs.
Proof.
  intros a. unfold total_size. rewrite <- fold_total_shift. f_equal. lia.
Qed.

Lemma total_size_cons r rs : total_size (r :: rs) = rsize r + total_size rs.
Proof. unfold total_size at 1. simpl. rewrite fold_total_acc. lia. Qed.

Lemma points_length rs : Forall wf_reg rs -> Z.of_nat (length (points rs)) = total_size rs.
Proof.
  induction 1 as [|r rs Hr Hrs IH]; simpl.
  - reflexivity.
  - rewrite app_length, zseq_length, total_size_cons, Nat2Z.inj_add, IH.
    unfold wf_reg, rsize in *. lia.
Qed.

(* total_size of a Good set is the cardinality of the covered set: [points rs] enumerates exactly the covered
   bytes, without repetition, and has total_size elements *)
Lemma total_size_card rs :
  Good rs ->
  NoDup (points rs) /\ (forall x, In x (points rs) <-> covered rs x) /\ Z.of_nat (length (points rs)) = total_size rs.
Proof.
  intros HG. split; [apply points_nodup; auto|]. split; [intros; apply points_in|].
  apply points_length. exact (proj2 HG).
Qed.

Lemma total_size_mono rs rs' :
  Good rs -> Good rs' -> (forall x, covered rs x -> covered rs' x) -> total_size rs <= total_size rs'.
Proof.
  intros HG HG' Hsub.
  rewrite <- (points_length rs (proj2 HG)), <- (points_length rs' (proj2 HG')).
  apply inj_le. apply NoDup_incl_length.
  - apply points_nodup; auto.
  - intros x Hx. apply points_in. apply Hsub. apply points_in. exact Hx.
Qed.

Lemma total_size_bound rs size :
  Good rs -> (forall x, covered rs x -> 0 <= x < size) -> total_size rs <= Z.max 0 size.
Proof.
  intros HG Hb. rewrite <- (points_length rs (proj2 HG)).
  assert (Hle : (length (points rs) <= length (zseq 0 (Z.to_nat size)))%nat).
  { apply NoDup_incl_length; [apply points_nodup; auto|].
    intros x Hx. apply points_in in Hx. apply Hb in Hx. apply zseq_in. lia. }
  rewrite zseq_length in Hle. lia.
Qed.

Lemma total_size_add_mono rs r : Good rs -> wf_reg r -> total_size rs <= total_size (add rs r).
Proof.
  intros HG Hr. destruct (region_add_spec rs r HG Hr) as [HG' HC].
  apply total_size_mono; auto. intros x Hx. apply HC. auto.
Qed.
