(* C04 — the entry tree (Model/HostileTree.v): initFields and assignIDs terminate on every TOC. *)
From Coq Require Import List Arith Bool Lia.
From SV Require Import Model.Footer Model.HostileTree Proofs.Footer.
Import ListNotations.

Lemma name_eqb_refl a : name_eqb a a = true.
Proof. induction a as [|x a IH]; simpl; [reflexivity|]. rewrite Nat.eqb_refl, IH. reflexivity. Qed.

(* ---- getOrCreateDir: recursion on a strictly shorter path ---- *)

Lemma removelast_length {A} (l : list A) (d : A) : l <> [] -> length (removelast l) = pred (length l).
Proof.
  intros H. pose proof (app_removelast_last d H) as E.
  apply (f_equal (@length A)) in E. rewrite app_length in E. simpl in E. lia.
Qed.

Lemma goc_ok : forall fuel d s, length d < fuel -> exists s' id, goc fuel d s = Ok (s', id).
Proof.
  induction fuel as [|f IH]; intros d s H; [lia|].
  simpl. destruct (m_find (m s) d) as [id|]; [eauto|].
  destruct d as [|x d']; [eauto|].
  set (s1 := mkSt _ _ _).
  destruct (IH (removelast (x :: d')) s1) as [s2 [pid E]].
  { rewrite (removelast_length _ 0) by discriminate. simpl in *. lia. }
  rewrite E. eauto.
Qed.

(* ---- getSource (C04-fix-4): a bounded loop ---- *)

Lemma get_source_total : forall n s id, total (get_source n s id).
Proof.
  induction n as [|n IH]; intros s id; simpl; destruct (is_hardlink (e_ty (obj s id))); auto with c04.
  destruct (m_find (m s) (e_link (obj s id))); auto with c04.
Qed.

(* ---- initFields ---- *)

Lemma pass2_total : forall fuel es i s,
  Forall (fun e => length (e_name e) <= fuel) es -> total (pass2 fuel es i s).
Proof.
  intros fuel es. induction es as [|e t IH]; intros i s HF; simpl; auto with c04.
  inversion HF as [|? ? He Ht]; subst.
  destruct (is_chunk (e_ty e)); [apply IH; assumption|].
  destruct (e_name e) as [|x nm] eqn:En; [apply IH; assumption|].
  destruct (goc_ok fuel (removelast (x :: nm)) s) as [s1 [pid E]].
  { rewrite (removelast_length _ 0) by discriminate. simpl in *. lia. }
  simpl in E. rewrite E.
  destruct (is_hardlink (e_ty e)).
  - unfold get_source_of.
    pose proof (get_source_total (S (m_size (m s1))) s1 i) as [G1 G2].
    destruct (get_source (S (m_size (m s1))) s1 i) as [org| | |]; try congruence; auto with c04.
  - apply IH; assumption.
Qed.

Lemma max_name_len_bound es : Forall (fun e => length (e_name e) <= max_name_len es) es.
Proof.
  induction es as [|e t IH]; constructor.
  - simpl. lia.
  - simpl. eapply Forall_impl; [|exact IH]. simpl. intros a Ha. lia.
Qed.

Lemma init_fields_total es : total (init_fields es).
Proof.
  unfold init_fields.
  pose proof (pass2_total (S (max_name_len es)) es 0 (mkSt es (pass1 es 0 []) [])) as H.
  assert (HF : Forall (fun e => length (e_name e) <= S (max_name_len es)) es).
  { eapply Forall_impl; [|apply max_name_len_bound]. simpl. intros a Ha. lia. }
  specialize (H HF). destruct H as [H1 H2].
  destruct (pass2 _ es 0 _) as [s| | |]; try congruence; auto with c04.
  destruct (m s); auto with c04.
Qed.

(* ---- assignIDs (C04-fix-6): depth-first walk with a visited set, on ANY child graph ---- *)

Section Visit.
  Variable s : st.

  (* every object name is in the universe U *)
  Definition univ : list name := [] :: map e_name (objs s).

  Lemma obj_name_in_univ id : In (e_name (obj s id)) univ.
  Proof.
    unfold obj, univ. destruct (nth_in_or_default id (objs s) dflt) as [H|H].
    - right. apply in_map. exact H.
    - left. rewrite H. reflexivity.
  Qed.

  Definition unvisited (vis : list name) : nat :=
    length (filter (fun k => negb (mem_name k vis)) univ).
  Definition sub (a b : list name) : Prop := forall k, mem_name k a = true -> mem_name k b = true.

  Lemma sub_refl a : sub a a. Proof. intros k H; exact H. Qed.
  Lemma sub_trans a b c : sub a b -> sub b c -> sub a c.
  Proof. intros H1 H2 k H. auto. Qed.
  Lemma sub_cons k a : sub a (k :: a).
  Proof. intros x H. simpl. rewrite H. apply orb_true_r. Qed.

  Lemma filter_le {A} (p q : A -> bool) l :
    (forall x, q x = true -> p x = true) -> length (filter q l) <= length (filter p l).
  Proof.
    intros H. induction l as [|x l IH]; simpl; [lia|].
    destruct (q x) eqn:Q.
    - rewrite (H x Q). simpl. lia.
    - destruct (p x); simpl; lia.
  Qed.

  Lemma filter_lt {A} (p q : A -> bool) l x :
    (forall y, q y = true -> p y = true) -> In x l -> p x = true -> q x = false ->
    length (filter q l) < length (filter p l).
  Proof.
    intros H. induction l as [|y l IH]; intros Hin Hp Hq; [destruct Hin|].
    simpl. destruct Hin as [->|Hin].
    - rewrite Hp, Hq. simpl. pose proof (filter_le p q l H). lia.
    - specialize (IH Hin Hp Hq). destruct (q y) eqn:Q.
      + rewrite (H y Q). simpl. lia.
      + destruct (p y); simpl; lia.
  Qed.

  Lemma unvisited_mono a b : sub a b -> unvisited b <= unvisited a.
  Proof.
    intros H. unfold unvisited. apply filter_le. intros x Hx.
    apply negb_true_iff in Hx. apply negb_true_iff.
    destruct (mem_name x a) eqn:E; [|reflexivity]. rewrite (H x E) in Hx. discriminate.
  Qed.

  Lemma unvisited_visit k vis :
    In k univ -> mem_name k vis = false -> unvisited (k :: vis) < unvisited vis.
  Proof.
    intros Hin Hm. unfold unvisited. apply (filter_lt _ _ univ k).
    - intros y Hy. apply negb_true_iff in Hy. apply negb_true_iff. simpl in Hy.
      apply orb_false_iff in Hy. tauto.
    - exact Hin.
    - rewrite Hm. reflexivity.
    - simpl. rewrite name_eqb_refl. reflexivity.
  Qed.

  Lemma unvisited_le_univ vis : unvisited vis <= length univ.
  Proof.
    unfold unvisited. generalize univ as l. induction l as [|x l IH]; simpl; [lia|].
    destruct (negb (mem_name x vis)); simpl; lia.
  Qed.

  (* the result of a visit: an error, or a larger visited set *)
  Definition good (vis : list name) (r : outcome (list name)) : Prop :=
    r = Err \/ exists vis', r = Ok vis' /\ sub vis vis'.

  Lemma go_children_good (rec : nat -> list name -> outcome (list name)) (bound : nat) :
    (forall c vis, unvisited vis < bound -> good vis (rec c vis)) ->
    forall cs vis, unvisited vis < bound -> good vis (go_children rec cs vis).
  Proof.
    intros Hrec cs. induction cs as [|[b c] t IH]; intros vis Hv; simpl.
    - right. exists vis. split; [reflexivity|apply sub_refl].
    - destruct (Hrec c vis Hv) as [E|[vis' [E Hs]]]; rewrite E.
      + left. reflexivity.
      + assert (Hv' : unvisited vis' < bound) by (pose proof (unvisited_mono _ _ Hs); lia).
        destruct (IH vis' Hv') as [E2|[vis'' [E2 Hs2]]].
        * left. exact E2.
        * right. exists vis''. split; [exact E2|]. eapply sub_trans; eassumption.
  Qed.

  Lemma visit_good (rej desc : entry -> bool) : forall fuel id vis,
    unvisited vis < fuel -> good vis (visit rej desc fuel s id vis).
  Proof.
    induction fuel as [|f IH]; intros id vis Hv; [lia|].
    simpl. destruct (rej (obj s id)); [left; reflexivity|].
    destruct (mem_name (e_name (obj s id)) vis) eqn:Em.
    - right. exists vis. split; [reflexivity|apply sub_refl].
    - pose proof (unvisited_visit _ _ (obj_name_in_univ id) Em) as Hlt.
      assert (Hrec : forall c v, unvisited v < f ->
                good v (if desc (obj s c) then visit rej desc f s c v else Ok v)).
      { intros c v Hc. destruct (desc (obj s c)); [apply IH; exact Hc|].
        right. exists v. split; [reflexivity|apply sub_refl]. }
      destruct (go_children_good _ f Hrec (children s id) (e_name (obj s id) :: vis)) as [E|[vis' [E Hs]]].
      + lia.
      + left. exact E.
      + right. exists vis'. split; [exact E|]. eapply sub_trans; [apply sub_cons|exact Hs].
  Qed.

  Lemma visit_total rej desc root : total (visit rej desc (S (S (length (objs s)))) s root []).
  Proof.
    destruct (visit_good rej desc (S (S (length (objs s)))) root []) as [E|[vis' [E _]]].
    - pose proof (unvisited_le_univ []) as H. unfold univ in H. simpl in H. rewrite map_length in H. lia.
    - rewrite E. auto with c04.
    - rewrite E. auto with c04.
  Qed.

  (* ---- how much is visited: every name at most once, only names of objects ---- *)

  Lemma name_eqb_true a : forall b, name_eqb a b = true -> a = b.
  Proof.
    induction a as [|x a IH]; intros [|y b] H; simpl in H; try discriminate; [reflexivity|].
    apply andb_true_iff in H. destruct H as [H1 H2]. apply Nat.eqb_eq in H1. rewrite (IH b H2), H1. reflexivity.
  Qed.

  Lemma mem_name_in k l : In k l -> mem_name k l = true.
  Proof.
    induction l as [|x l IH]; intros H; [destruct H|]. simpl. destruct H as [->|H].
    - rewrite name_eqb_refl. reflexivity.
    - rewrite (IH H). apply orb_true_r.
  Qed.

  Definition tidy (vis : list name) : Prop := NoDup vis /\ incl vis univ.

  Lemma go_children_tidy (rec : nat -> list name -> outcome (list name)) :
    (forall c v v', rec c v = Ok v' -> tidy v -> tidy v') ->
    forall cs v v', go_children rec cs v = Ok v' -> tidy v -> tidy v'.
  Proof.
    intros Hrec cs. induction cs as [|[b c] t IH]; intros v v' H Hv; simpl in H.
    - inversion H; subst. exact Hv.
    - destruct (rec c v) as [v1| | |] eqn:E; try discriminate.
      apply (IH v1 v' H). apply (Hrec c v v1 E Hv).
  Qed.

  Lemma visit_tidy (rej desc : entry -> bool) : forall fuel id v v',
    visit rej desc fuel s id v = Ok v' -> tidy v -> tidy v'.
  Proof.
    induction fuel as [|f IH]; intros id v v' H Hv; [discriminate|].
    simpl in H. destruct (rej (obj s id)); [discriminate|].
    destruct (mem_name (e_name (obj s id)) v) eqn:Em.
    - inversion H; subst. exact Hv.
    - apply (go_children_tidy _) with (cs := children s id) (v := e_name (obj s id) :: v) (v' := v') in H; [exact H| |].
      + intros c w w' Hc Hw. destruct (desc (obj s c)); [apply (IH c w w' Hc Hw)|inversion Hc; subst; exact Hw].
      + destruct Hv as [Hnd Hin]. split.
        * constructor; [|exact Hnd]. intros Hi. apply mem_name_in in Hi. congruence.
        * intros x [<-|Hx]; [apply obj_name_in_univ|apply Hin; exact Hx].
  Qed.

  Lemma visit_bounded rej desc fuel root vis :
    visit rej desc fuel s root [] = Ok vis -> NoDup vis /\ length vis <= S (length (objs s)).
  Proof.
    intros H. destruct (visit_tidy rej desc fuel root [] vis H) as [Hnd Hin].
    { split; [constructor|intros x []]. }
    split; [exact Hnd|]. pose proof (NoDup_incl_length Hnd Hin) as L.
    unfold univ in L. simpl in L. rewrite map_length in L. exact L.
  Qed.

  Lemma assign_ids_total root : total (assign_ids s root).
  Proof. apply visit_total. Qed.

  Lemma walk_dirs_total root : total (walk_dirs s root).
  Proof. apply visit_total. Qed.
End Visit.
