(* Proofs about Model/TaskPairs.v: a body that follows the rule "Do; defer Done" leaves every manager's
   counter where it found it on every execution path (return, fall-through, panic anywhere). *)
From Coq Require Import List Arith ZArith Bool Lia.
From SV Require Import Model.TaskPairs.
Import ListNotations.

Lemma clean_app a b : clean (a ++ b) = clean a && clean b.
Proof. unfold clean. apply forallb_app. Qed.

(* statements that do not touch the counter do not change the state, however they are left *)
Lemma clean_exec l s o s' : exec l s o s' -> clean l = true -> s' = s.
Proof.
  unfold clean. induction 1; intros Hc; simpl in Hc.
  - reflexivity.
  - reflexivity.
  - discriminate.
  - discriminate.
  - discriminate.
  - apply IHexec. exact Hc.
  - reflexivity.
  - apply IHexec. rewrite forallb_app. apply andb_true_iff in Hc. destruct Hc as [Hc1 Hc2].
    apply andb_true_iff in Hc1. destruct Hc1 as [Ha Hb]. rewrite Ha. exact Hc2.
  - apply IHexec. rewrite forallb_app. apply andb_true_iff in Hc. destruct Hc as [Hc1 Hc2].
    apply andb_true_iff in Hc1. destruct Hc1 as [Ha Hb]. rewrite Hb. exact Hc2.
  - apply IHexec. apply andb_true_iff in Hc. tauto.
  - apply IHexec. rewrite forallb_app. simpl. apply andb_true_iff in Hc. destruct Hc as [Hc1 Hc2].
    rewrite Hc1, Hc2. reflexivity.
Qed.

(* a body of the shape  pre ; X.Do() ; defer X.Done() ; rest  with counter-free pre and rest *)
Lemma shaped_exec l s o s' :
  exec l s o s' ->
  forall pre x rest, l = pre ++ SDo x :: SDeferDone x :: rest -> clean pre = true -> clean rest = true ->
  s' = s \/ s' = defer_ x (do_ x s).
Proof.
  induction 1; intros pre y rest E Hp Hr.
  - destruct pre; discriminate.
  - auto.
  - destruct pre as [|a pre]; simpl in E.
    + inversion E; subst. clear E. inversion H; subst.
      * discriminate.
      * right. eapply clean_exec; eauto.
    + inversion E; subst. simpl in Hp. discriminate.
  - destruct pre as [|a pre]; simpl in E; inversion E; subst. simpl in Hp. discriminate.
  - destruct pre as [|a pre]; simpl in E; inversion E; subst. simpl in Hp. discriminate.
  - destruct pre as [|a pre]; simpl in E; inversion E; subst.
    simpl in Hp. eapply IHexec; eauto.
  - auto.
  - destruct pre as [|c pre]; simpl in E; inversion E; subst.
    simpl in Hp. apply andb_true_iff in Hp. destruct Hp as [Hab Hp]. apply andb_true_iff in Hab. destruct Hab as [Ha Hb].
    eapply (IHexec (a ++ pre)); [rewrite <- app_assoc; reflexivity| |exact Hr].
    rewrite clean_app. unfold clean at 1. rewrite Ha. exact Hp.
  - destruct pre as [|c pre]; simpl in E; inversion E; subst.
    simpl in Hp. apply andb_true_iff in Hp. destruct Hp as [Hab Hp]. apply andb_true_iff in Hab. destruct Hab as [Ha Hb].
    eapply (IHexec (b ++ pre)); [rewrite <- app_assoc; reflexivity| |exact Hr].
    rewrite clean_app. unfold clean at 1. rewrite Hb. exact Hp.
  - destruct pre as [|c pre]; simpl in E; inversion E; subst.
    simpl in Hp. apply andb_true_iff in Hp. destruct Hp as [Hb Hp]. eapply IHexec; eauto.
  - destruct pre as [|c pre]; simpl in E; inversion E; subst.
    simpl in Hp. apply andb_true_iff in Hp. destruct Hp as [Hb Hp].
    eapply (IHexec (b ++ SLoop b :: pre)); [rewrite <- app_assoc; reflexivity| |exact Hr].
    unfold clean in *. rewrite forallb_app. simpl. rewrite Hb. simpl. exact Hp.
Qed.

Definition shaped (l : list stmt) : Prop :=
  clean l = true \/ exists pre x rest, l = pre ++ SDo x :: SDeferDone x :: rest /\ clean pre = true /\ clean rest = true.

Lemma shaped_cons a l : clean1 a = true -> shaped l -> shaped (a :: l).
Proof.
  intros Ha [Hc|[pre [x [rest [E [Hp Hr]]]]]].
  - left. unfold clean in *. simpl. rewrite Ha. exact Hc.
  - right. exists (a :: pre), x, rest. rewrite E. split; [reflexivity|]. split; [|exact Hr].
    unfold clean in *. simpl. rewrite Ha. exact Hp.
Qed.

Lemma paired_shape l : paired l = true -> shaped l.
Proof.
  induction l as [|a l IH]; intros H; [left; reflexivity|].
  destruct a; simpl in H; try discriminate.
  - destruct l as [|b l]; [discriminate|]. destruct b; try discriminate.
    apply andb_true_iff in H. destruct H as [Hx Hr]. apply Nat.eqb_eq in Hx. subst.
    right. exists [], x0, l. auto.
  - apply shaped_cons; auto.
  - apply shaped_cons; auto.
  - apply andb_true_iff in H. destruct H as [Ha H]. apply shaped_cons; auto.
  - apply andb_true_iff in H. destruct H as [Ha H]. apply shaped_cons; auto.
Qed.

Lemma final_do_defer x s y : final (defer_ x (do_ x s)) y = final s y.
Proof.
  unfold final, defer_, do_, bump. simpl. destruct (Nat.eq_dec x y) as [E|E].
  - subst. rewrite Nat.eqb_refl. lia.
  - assert (Nat.eqb y x = false) by (apply Nat.eqb_neq; auto). rewrite H. reflexivity.
Qed.

(* the property of the rule: on EVERY execution - left by return, by falling off the end, or by a panic -
   the counter of every manager is back where it was *)
Lemma paired_balanced l s o s' :
  paired l = true -> exec l s o s' -> forall y, final s' y = final s y.
Proof.
  intros Hp He. destruct (paired_shape _ Hp) as [Hc|[pre [x [rest [E [Hpre Hrest]]]]]].
  - rewrite (clean_exec _ _ _ _ He Hc). reflexivity.
  - destruct (shaped_exec _ _ _ _ He pre x rest E Hpre Hrest) as [H|H]; subst s'.
    + reflexivity.
    + intros y. apply final_do_defer.
Qed.

Lemma paired_no_leak l o s' :
  paired l = true -> exec l init o s' -> forall y, final s' y = 0%Z.
Proof. intros Hp He y. rewrite (paired_balanced _ _ _ _ Hp He). reflexivity. Qed.

(* the bounded enumeration used by the correspondence check only produces real executions *)
Lemma runs_sound fuel : forall l s s', In s' (runs fuel l s) -> exists o, exec l s o s'.
Proof.
  induction fuel as [|f IH]; intros l s s' H; simpl in H.
  - destruct (can_panic l) eqn:Ec; [|destruct H]. destruct H as [<-|[]]. exists OPanic. constructor. exact Ec.
  - apply in_app_or in H. destruct H as [H|H].
    { destruct (can_panic l) eqn:Ec; [|destruct H]. destruct H as [<-|[]]. exists OPanic. constructor. exact Ec. }
    destruct l as [|a t].
    + destruct H as [<-|[]]. exists ONorm. constructor.
    + destruct a.
      * destruct (IH _ _ _ H) as [o Ho]. exists o. constructor. exact Ho.
      * destruct (IH _ _ _ H) as [o Ho]. exists o. constructor. exact Ho.
      * destruct (IH _ _ _ H) as [o Ho]. exists o. constructor. exact Ho.
      * destruct (IH _ _ _ H) as [o Ho]. exists o. constructor. exact Ho.
      * destruct H as [<-|[]]. exists ORet. constructor.
      * apply in_app_or in H. destruct H as [H|H]; destruct (IH _ _ _ H) as [o Ho]; exists o;
          [apply XIfL|apply XIfR]; exact Ho.
      * apply in_app_or in H. destruct H as [H|H]; destruct (IH _ _ _ H) as [o Ho]; exists o;
          [apply XLoop0|apply XLoopS]; exact Ho.
Qed.
