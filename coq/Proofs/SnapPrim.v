(* Specifications of the primitives of Model/Snap.v (what each changes, which events it emits). *)
From Coq Require Import List Arith Bool Lia.
From SV Require Import Model.Snap Proofs.SnapBase.
Import ListNotations.

(* ---------- event discipline ---------- *)
Definition selfd (P : dirent -> Prop) (l : list event) : Prop := forall prev, disciplined P prev l.

Lemma selfd_nil P : selfd P [].
Proof. intros prev. exact I. Qed.

Lemma disciplined_app P l1 : forall prev l2,
  disciplined P prev l1 -> selfd P l2 -> disciplined P prev (l1 ++ l2).
Proof.
  induction l1 as [|e l1 IH]; intros prev l2 H1 H2; simpl.
  - apply H2.
  - destruct H1 as [A B]. split; [exact A|]. apply IH; assumption.
Qed.

Lemma selfd_app P l1 l2 : selfd P l1 -> selfd P l2 -> selfd P (l1 ++ l2).
Proof. intros H1 H2 prev. apply disciplined_app; auto. Qed.

Definition quiet (e : event) : Prop :=
  match e with EvUnmount _ _ _ | EvRmDir _ => False | _ => True end.

Lemma selfd_quiet P l : Forall quiet l -> selfd P l.
Proof.
  induction l as [|e l IH]; intros F prev; simpl; [exact I|].
  inversion F as [|? ? Q F']; subst. split.
  - destruct e; simpl in Q; try exact I; contradiction.
  - apply IH. exact F'.
Qed.

Lemma selfd_pair (P : dirent -> Prop) d lv ok : (lv = true -> P d) -> selfd P [EvUnmount d lv ok; EvRmDir d].
Proof.
  intros H prev. simpl. split; [|split; [|exact I]].
  - destruct lv; auto.
  - eauto.
Qed.

(* ---------- "same except" frames ---------- *)
(* [s'] differs from [s] at most in dirs (shrunk), mounts (shrunk) and log (extended by [E]) *)
Record shrink (s s' : st) (E : list event) : Prop := {
  sh_async  : async s' = async s;
  sh_meta   : meta s' = meta s;
  sh_seq    : seq s' = seq s;
  sh_closed : closed s' = closed s;
  sh_dirs   : forall d, In d (dirs s') -> In d (dirs s);
  sh_mnt    : forall x, In x (mounts s') -> In x (mounts s);
  sh_mnd    : NoDup (map fst (mounts s)) -> NoDup (map fst (mounts s'));
  sh_log    : log s' = log s ++ E
}.

Lemma shrink_refl s : shrink s s [].
Proof. constructor; auto. rewrite app_nil_r. reflexivity. Qed.

Lemma shrink_trans s1 s2 s3 E1 E2 : shrink s1 s2 E1 -> shrink s2 s3 E2 -> shrink s1 s3 (E1 ++ E2).
Proof.
  intros A B. destruct A, B. constructor; try congruence; auto.
  rewrite sh_log1, sh_log0, app_assoc. reflexivity.
Qed.

(* ---------- fs_unmount / cleanup_dir ---------- *)
Lemma fs_unmount_spec s d sc :
  exists lv ok,
    shrink s (fs_unmount s d sc) [EvUnmount d lv ok] /\
    dirs (fs_unmount s d sc) = dirs s /\
    (lv = true -> exists id, d = DId id /\ mounted s id = true) /\
    (forall x, In x (mounts s) -> DId (fst x) <> d -> In x (mounts (fs_unmount s d sc))).
Proof.
  unfold fs_unmount. destruct d as [id|n].
  - destruct (mounted s id) eqn:M.
    + destruct sc.
      * exists true, true. split; [|split; [|split]].
        -- constructor; simpl; auto.
           ++ intros x H. apply rm_mount_in in H. tauto.
           ++ apply rm_mount_nodup.
        -- reflexivity.
        -- intros _. eauto.
        -- intros x H N. simpl. apply rm_mount_in. split; auto; intros Q; apply N; congruence.
      * exists true, false. split; [|split; [|split]].
        -- constructor; simpl; auto.
        -- reflexivity.
        -- intros _. eauto.
        -- intros x H N. simpl. exact H.
    + exists false, false. split; [|split; [|split]].
      * constructor; simpl; auto.
      * reflexivity.
      * discriminate.
      * intros x H N. simpl. exact H.
  - exists false, false. split; [|split; [|split]].
    + constructor; simpl; auto.
    + reflexivity.
    + discriminate.
    + intros x H N. simpl. exact H.
Qed.

Lemma cleanup_dir_spec ub s d :
  exists lv ok,
    shrink s (cleanup_dir ub s d) [EvUnmount d lv ok; EvRmDir d] /\
    dirs (cleanup_dir ub s d) = rm_dirent (dirs s) d /\
    (lv = true -> exists id, d = DId id /\ mounted s id = true) /\
    (forall x, In x (mounts s) -> DId (fst x) <> d -> In x (mounts (cleanup_dir ub s d))).
Proof.
  unfold cleanup_dir.
  set (sc := match d with DId id => negb (mem id ub) | DTemp _ => true end).
  destruct (fs_unmount_spec s d sc) as [lv [ok [Sh [D [L K]]]]].
  exists lv, ok. split; [|split; [|split]].
  - destruct Sh. constructor; simpl; auto.
    + intros x H. apply rm_dirent_in in H. rewrite D in H. tauto.
    + rewrite sh_log0. rewrite <- app_assoc. reflexivity.
  - simpl. rewrite D. reflexivity.
  - exact L.
  - intros x H N. simpl. apply K; auto.
Qed.

(* a trace of cleanup pairs whose directories satisfy Q *)
Inductive ctrace (Q : dirent -> Prop) : list event -> Prop :=
| ct_nil : ctrace Q []
| ct_cons : forall d lv ok t, Q d -> (lv = true -> exists id, d = DId id) -> ctrace Q t ->
            ctrace Q (EvUnmount d lv ok :: EvRmDir d :: t).

Lemma ctrace_app Q l1 l2 : ctrace Q l1 -> ctrace Q l2 -> ctrace Q (l1 ++ l2).
Proof. induction 1; simpl; auto. intros. constructor; auto. Qed.

Lemma ctrace_selfd (P Q : dirent -> Prop) l : (forall id, Q (DId id) -> P (DId id)) -> ctrace Q l -> selfd P l.
Proof.
  intros PQ. induction 1 as [|d lv ok t Qd Lv CT IH].
  - apply selfd_nil.
  - change (selfd P ([EvUnmount d lv ok; EvRmDir d] ++ t)). apply selfd_app; auto.
    apply selfd_pair. intros T. destruct (Lv T) as [id ->]. auto.
Qed.

Lemma cleanup_dirs_spec ub ds : forall s,
  exists E,
    shrink s (cleanup_dirs ub s ds) E /\
    (forall x, In x (dirs (cleanup_dirs ub s ds)) <-> In x (dirs s) /\ ~ In x ds) /\
    ctrace (fun d => In d ds) E /\
    (forall x, In x (mounts s) -> ~ In (DId (fst x)) ds -> In x (mounts (cleanup_dirs ub s ds))).
Proof.
  induction ds as [|d ds IH]; intros s.
  - exists []. split; [apply shrink_refl|]. split; [|split]; simpl; auto.
    + intros x. tauto.
    + constructor.
  - unfold cleanup_dirs. simpl. fold (cleanup_dirs ub (cleanup_dir ub s d) ds).
    destruct (cleanup_dir_spec ub s d) as [lv [ok [Sh [D [L K]]]]].
    destruct (IH (cleanup_dir ub s d)) as [E [Sh2 [D2 [CT K2]]]].
    exists ([EvUnmount d lv ok; EvRmDir d] ++ E). split; [|split; [|split]].
    + eapply shrink_trans; eauto.
    + intros x. rewrite D2, D, rm_dirent_in. simpl. split.
      * intros [[A B] C]. split; auto. intros [F|F]; [congruence|contradiction].
      * intros [A B]. split; [split|]; auto; intros F; apply B; auto.
    + simpl. constructor; [left; reflexivity|intros T; destruct (L T) as [id [Q _]]; eauto|].
      clear -CT. induction CT; constructor; auto; right; assumption.
    + intros x H N. apply K2.
      * apply K; auto; intros F; apply N; left; auto.
      * intros F; apply N; right; exact F.
Qed.

(* ---------- check_chain: only Check events, nothing else changes ---------- *)
Lemma fs_check_spec s id sc :
  shrink s (fst (fs_check s id sc)) [EvCheck id (snd (fs_check s id sc))] /\
  dirs (fst (fs_check s id sc)) = dirs s /\ mounts (fst (fs_check s id sc)) = mounts s /\
  snd (fs_check s id sc) = (mounted s id && sc).
Proof.
  unfold fs_check. simpl. split; [|auto]. constructor; simpl; auto.
Qed.

Ltac triv := repeat split; simpl; auto; try discriminate; try (now constructor); try (now intros ? []).

Definition is_check (e : event) : Prop := match e with EvCheck _ _ => True | _ => False end.

Lemma check_chain_spec cbad fuel : forall s key,
  exists E,
    shrink s (fst (check_chain fuel cbad s key)) E /\
    dirs (fst (check_chain fuel cbad s key)) = dirs s /\
    mounts (fst (check_chain fuel cbad s key)) = mounts s /\
    Forall is_check E /\
    (snd (check_chain fuel cbad s key) = true ->
       forall n i, on_chain (meta s) key n i -> l_remote (i_labels i) = true ->
         mounted s (i_id i) = true /\ ~ In (i_id i) cbad /\ In (EvCheck (i_id i) true) E) /\
    (forall id, In (EvCheck id false) E -> snd (check_chain fuel cbad s key) = false).
Proof.
  induction fuel as [|f IH]; intros s key; simpl.
  - exists []. split; [apply shrink_refl|]. triv.
  - destruct (lookup (meta s) key) as [i|] eqn:L.
    2:{ exists []. split; [apply shrink_refl|]. triv. }
    (* the check of this node *)
    set (c1 := if l_remote (i_labels i) then fs_check s (i_id i) (negb (mem (i_id i) cbad)) else (s, true)).
    assert (C1 : exists E1, shrink s (fst c1) E1 /\ dirs (fst c1) = dirs s /\ mounts (fst c1) = mounts s /\
                  Forall is_check E1 /\
                  (snd c1 = true -> l_remote (i_labels i) = true ->
                     mounted s (i_id i) = true /\ ~ In (i_id i) cbad /\ In (EvCheck (i_id i) true) E1) /\
                  (forall id, In (EvCheck id false) E1 -> snd c1 = false)).
    { unfold c1. destruct (l_remote (i_labels i)) eqn:R.
      - destruct (fs_check_spec s (i_id i) (negb (mem (i_id i) cbad))) as [Sh [D [M V]]].
        eexists. split; [exact Sh|]. split; [exact D|]. split; [exact M|]. split; [constructor; [exact I|constructor]|].
        split.
        + intros T _. rewrite V in T. apply andb_true_iff in T. destruct T as [T1 T2].
          split; [exact T1|]. split.
          * apply mem_false. destruct (mem (i_id i) cbad); simpl in T2; congruence.
          * left. rewrite V, T1, T2. reflexivity.
        + intros id [Q|[]]. inversion Q. auto.
      - exists []. split; [apply shrink_refl|]. triv. }
    destruct C1 as [E1 [Sh1 [D1 [M1 [F1 [T1 N1]]]]]].
    destruct c1 as [s1 ok] eqn:C1E. simpl in *.
    destruct (i_parent i) as [p|] eqn:Par.
    + specialize (IH s1 p). destruct IH as [E2 [Sh2 [D2 [M2 [F2 [T2 N2]]]]]].
      destruct (check_chain f cbad s1 p) as [s2 ok2] eqn:C2. simpl in *.
      exists (E1 ++ E2). split; [eapply shrink_trans; eauto|].
      split; [congruence|]. split; [congruence|]. split; [apply Forall_app; auto|]. split.
      * intros T n j OC R. apply andb_true_iff in T. destruct T as [Ta Tb].
        pose proof (T1 Ta) as T1'. pose proof (T2 Tb) as T2'. clear T1 T2 Ta Tb.
        inversion OC as [k i0 L0|k i0 p0 n0 j0 L0 P0 OC']; subst.
        -- rewrite L in L0. inversion L0; subst j. destruct (T1' R) as [A [B C]].
           split; [exact A|]. split; [exact B|]. apply in_or_app. left. exact C.
        -- rewrite L in L0. inversion L0; subst i0. rewrite Par in P0. inversion P0; subst p0.
           assert (MS : meta s1 = meta s) by (destruct Sh1; auto).
           rewrite <- MS in OC'. destruct (T2' n j OC' R) as [A [B C]].
           split; [|split; [exact B|apply in_or_app; right; exact C]].
           unfold mounted in *. rewrite <- M1. exact A.
      * intros id H. apply in_app_or in H. destruct H as [H|H].
        -- rewrite (N1 id H). reflexivity.
        -- rewrite (N2 id H). apply andb_false_r.
    + exists E1. split; [exact Sh1|]. split; [exact D1|]. split; [exact M1|]. split; [exact F1|]. split.
      * intros T n j OC R.
        inversion OC as [k i0 L0|k i0 p0 n0 j0 L0 P0 OC']; subst.
        -- rewrite L in L0. inversion L0; subst j. apply T1; auto.
        -- rewrite L in L0. inversion L0; subst i0. rewrite Par in P0. discriminate.
      * exact N1.
Qed.

Lemma is_check_quiet l : Forall is_check l -> Forall quiet l.
Proof. apply Forall_impl. intros [] H; simpl in *; auto. Qed.
