(* Proofs about Model/Sort.v (C14). *)
From Coq Require Import List Arith Bool String Ascii NArith Lia Permutation.
From SV Require Import Gen.Consts Model.Sort.
Import ListNotations.

Definition keys (l : list entry) : list path := map key l.

(* ------------------------------------------------------------------ *)
(* equality tests, lookups                                             *)

Lemma path_eqb_eq : forall a b, path_eqb a b = true <-> a = b.
Proof.
  induction a as [|x a IH]; destruct b as [|y b]; cbn; split; intro H; try congruence; try discriminate.
  - apply andb_true_iff in H. destruct H as [H1 H2]. apply String.eqb_eq in H1. apply IH in H2. congruence.
  - inversion H; subst. apply andb_true_iff. split; [apply String.eqb_refl|apply IH; reflexivity].
Qed.

Lemma path_eqb_refl : forall a, path_eqb a a = true.
Proof. intro a. apply path_eqb_eq. reflexivity. Qed.

Lemma path_eqb_neq : forall a b, path_eqb a b = false <-> a <> b.
Proof.
  intros a b. split.
  - intros H E. apply path_eqb_eq in E. congruence.
  - intro H. destruct (path_eqb a b) eqn:E; [apply path_eqb_eq in E; contradiction|reflexivity].
Qed.

Lemma has_key_true : forall p l, has_key p l = true <-> In p (keys l).
Proof.
  intros p l. unfold has_key, keys. rewrite existsb_exists. rewrite in_map_iff. split.
  - intros [e [Hin He]]. apply path_eqb_eq in He. eauto.
  - intros [e [He Hin]]. exists e. split; [assumption|]. apply path_eqb_eq. assumption.
Qed.

Lemma has_key_false : forall p l, has_key p l = false <-> ~ In p (keys l).
Proof.
  intros p l. rewrite <- has_key_true. destruct (has_key p l); split; intro H; congruence.
Qed.

Lemma has_key_app : forall p a b, has_key p (a ++ b) = has_key p a || has_key p b.
Proof. intros. unfold has_key. apply existsb_app. Qed.

Lemma keys_app : forall a b, keys (a ++ b) = keys a ++ keys b.
Proof. intros. unfold keys. apply map_app. Qed.

Lemma get_some : forall l p e, get l p = Some e -> In e l /\ key e = p.
Proof.
  intros l p e H. unfold get in H. apply find_some in H. destruct H as [H1 H2].
  apply path_eqb_eq in H2. auto.
Qed.

Lemma get_none : forall l p, get l p = None <-> has_key p l = false.
Proof.
  intros l p. unfold get, has_key. induction l as [|a l IH]; cbn; [tauto|].
  destruct (path_eqb (key a) p); cbn; [split; discriminate|exact IH].
Qed.

Lemma get_has : forall l p e, get l p = Some e -> has_key p l = true.
Proof.
  intros l p e H. destruct (has_key p l) eqn:E; [reflexivity|]. apply get_none in E. congruence.
Qed.

Lemma has_get : forall l p, has_key p l = true -> exists e, get l p = Some e.
Proof.
  intros l p H. destruct (get l p) eqn:E; [eauto|]. apply get_none in E. congruence.
Qed.

Lemma nodup_keys_inj : forall l a b, NoDup (keys l) -> In a l -> In b l -> key a = key b -> a = b.
Proof.
  induction l as [|x l IH]; cbn; intros a b Hnd Ha Hb Hk; [contradiction|].
  inversion Hnd as [|? ? Hx Hnd']; subst.
  destruct Ha as [Ha|Ha], Hb as [Hb|Hb]; subst; auto.
  - exfalso. apply Hx. rewrite Hk. apply in_map. assumption.
  - exfalso. apply Hx. rewrite <- Hk. apply in_map. assumption.
Qed.

Lemma nodup_keys_nodup : forall l, NoDup (keys l) -> NoDup l.
Proof. intros l. unfold keys. apply NoDup_map_inv. Qed.

Lemma get_in_nodup : forall l e, NoDup (keys l) -> In e l -> get l (key e) = Some e.
Proof.
  intros l e Hnd Hin. destruct (get l (key e)) eqn:E.
  - apply get_some in E. destruct E as [E1 E2]. f_equal. eapply nodup_keys_inj; eauto.
  - apply get_none in E. apply has_key_false in E. exfalso. apply E. apply in_map. assumption.
Qed.

(* ------------------------------------------------------------------ *)
(* importTar                                                           *)

Lemma keys_filter_nodup : forall f l, NoDup (keys l) -> NoDup (keys (filter f l)).
Proof.
  intros f l. induction l as [|a l IH]; cbn; intro H; [constructor|].
  inversion H as [|? ? Ha Hl]; subst. destruct (f a); cbn.
  - constructor; [|auto]. intro Hin. apply Ha. unfold keys in *. apply in_map_iff in Hin.
    destruct Hin as [x [Hx Hin]]. apply filter_In in Hin. rewrite <- Hx. apply in_map. tauto.
  - auto.
Qed.

Lemma remove_key_notin : forall p l, ~ In p (keys (remove_key p l)).
Proof.
  intros p l H. unfold keys, remove_key in H. apply in_map_iff in H. destruct H as [e [He Hin]].
  apply filter_In in Hin. destruct Hin as [_ Hn]. apply negb_true_iff in Hn. apply path_eqb_neq in Hn. contradiction.
Qed.

Lemma remove_key_id : forall p l, ~ In p (keys l) -> remove_key p l = l.
Proof.
  intros p l. induction l as [|a l IH]; cbn; intro H; [reflexivity|].
  destruct (path_eqb (key a) p) eqn:E; cbn.
  - apply path_eqb_eq in E. exfalso. apply H. left. assumption.
  - f_equal. apply IH. intro Hin. apply H. right. assumption.
Qed.

Lemma nodup_app : forall (A : Type) (a b : list A),
  NoDup (a ++ b) <-> NoDup a /\ NoDup b /\ (forall x, In x a -> ~ In x b).
Proof.
  intros A a b. induction a as [|x a IH]; cbn.
  - split; [intro H; repeat split; [constructor|assumption|tauto]|tauto].
  - split.
    + intro H. inversion H as [|? ? Hx Hab]; subst. apply IH in Hab. destruct Hab as [Ha [Hb Hd]].
      repeat split; [constructor; [intro Hin; apply Hx; apply in_or_app; tauto|assumption]|assumption|].
      intros y [Hy|Hy] Hyb; [subst; apply Hx; apply in_or_app; tauto|exact (Hd y Hy Hyb)].
    + intros [Ha [Hb Hd]]. inversion Ha as [|? ? Hx Ha']; subst. constructor.
      * intro Hin. apply in_app_or in Hin. destruct Hin as [Hin|Hin]; [contradiction|]. apply (Hd x); [left; reflexivity|assumption].
      * apply IH. repeat split; [assumption|assumption|]. intros y Hy. apply Hd. right. assumption.
Qed.

Lemma nodup_snoc : forall (A : Type) (a : list A) x, NoDup a -> ~ In x a -> NoDup (a ++ [x]).
Proof.
  intros A a x Ha Hx. apply nodup_app. repeat split; [assumption|constructor; [tauto|constructor]|].
  intros y Hy [Hyx|[]]. subst. contradiction.
Qed.

Lemma import_from_nodup : forall t acc, NoDup (keys acc) -> NoDup (keys (import_from acc t)).
Proof.
  induction t as [|e t IH]; cbn; intros acc H; [assumption|].
  destruct (is_landmark (key e)); [auto|]. apply IH. rewrite keys_app. cbn.
  apply nodup_snoc; [apply keys_filter_nodup; assumption|apply remove_key_notin].
Qed.

Lemma import_nodup : forall t, NoDup (keys (import t)).
Proof. intro t. apply import_from_nodup. constructor. Qed.

Lemma import_from_in : forall t acc e, In e (import_from acc t) -> In e acc \/ In e t.
Proof.
  induction t as [|x t IH]; cbn; intros acc e H; [tauto|].
  destruct (is_landmark (key x)).
  - apply IH in H. tauto.
  - apply IH in H. destruct H as [H|H]; [|tauto]. apply in_app_or in H. destruct H as [H|[H|[]]].
    + unfold remove_key in H. apply filter_In in H. tauto.
    + subst. tauto.
Qed.

Lemma import_in : forall t e, In e (import t) -> In e t.
Proof. intros t e H. apply import_from_in in H. destruct H as [[]|H]. assumption. Qed.

Lemma import_from_no_landmark : forall t acc,
  (forall e, In e acc -> is_landmark (key e) = false) ->
  forall e, In e (import_from acc t) -> is_landmark (key e) = false.
Proof.
  induction t as [|x t IH]; cbn; intros acc Hacc e H; [auto|].
  destruct (is_landmark (key x)) eqn:E.
  - eapply IH; eauto.
  - eapply IH; [|exact H]. intros e' He'. apply in_app_or in He'. destruct He' as [He'|[He'|[]]].
    + apply Hacc. unfold remove_key in He'. apply filter_In in He'. tauto.
    + subst. assumption.
Qed.

Lemma import_no_landmark : forall t e, In e (import t) -> is_landmark (key e) = false.
Proof. intros t. apply import_from_no_landmark. intros e []. Qed.

(* a tar without landmarks and without repeated names is imported unchanged *)
Lemma import_from_id : forall t acc,
  NoDup (keys (acc ++ t)) -> (forall e, In e t -> is_landmark (key e) = false) ->
  import_from acc t = acc ++ t.
Proof.
  induction t as [|x t IH]; cbn; intros acc Hnd Hl; [rewrite app_nil_r; reflexivity|].
  rewrite (Hl x (or_introl eq_refl)).
  assert (Hx : ~ In (key x) (keys acc)).
  { rewrite keys_app in Hnd. apply nodup_app in Hnd. destruct Hnd as [_ [_ Hd]]. intro Hin. apply (Hd _ Hin). left. reflexivity. }
  rewrite (remove_key_id _ _ Hx). rewrite IH.
  - rewrite <- app_assoc. reflexivity.
  - rewrite <- app_assoc. exact Hnd.
  - intros e He. apply Hl. right. assumption.
Qed.

Lemma import_id : forall t, NoDup (keys t) -> (forall e, In e t -> is_landmark (key e) = false) -> import t = t.
Proof. intros t H1 H2. unfold import. rewrite import_from_id; auto. Qed.

(* ------------------------------------------------------------------ *)
(* ancestors, dependencies                                             *)

(* q is a proper ancestor directory of p (the root [] is an ancestor of every other path) *)
Definition is_anc (q p : path) : Prop := exists s, s <> [] /\ p = q ++ s.

(* what must precede the entry named p: its ancestor directories, and the hardlink target *)
Definition link_of (inp : list entry) (p q : path) : Prop :=
  p <> [] /\ exists e l, get inp p = Some e /\ e_link e = Some l /\ q = clean l.
Definition needs (inp : list entry) (p q : path) : Prop := is_anc q p \/ link_of inp p q.

(* one step of the recursion: to the parent, or to the hardlink target *)
Definition dep (inp : list entry) (p q : path) : Prop := (p <> [] /\ q = parent p) \/ link_of inp p q.
Inductive reach (inp : list entry) : path -> path -> Prop :=
| reach_refl : forall p, reach inp p p
| reach_step : forall p q r, dep inp p q -> reach inp q r -> reach inp p r.

Lemma parent_anc : forall p, p <> [] -> is_anc (parent p) p.
Proof.
  intros p H. exists [last p EmptyString]. split; [discriminate|]. unfold parent. apply app_removelast_last. assumption.
Qed.

Lemma anc_parent : forall q p, is_anc q p -> q = parent p \/ is_anc q (parent p).
Proof.
  intros q p [s [Hs Hp]]. destruct (exists_last Hs) as [s' [x Hs']]. subst s. subst p.
  unfold parent. rewrite app_assoc. rewrite removelast_last.
  destruct s' as [|y s'].
  - left. rewrite app_nil_r. reflexivity.
  - right. exists (y :: s'). split; [discriminate|reflexivity].
Qed.

Lemma anc_nonnil : forall q p, is_anc q p -> p <> [].
Proof. intros q p [s [Hs Hp]] E. subst. destruct q; destruct s; try discriminate; congruence. Qed.

Lemma anc_of_parent : forall q p, p <> [] -> is_anc q (parent p) -> is_anc q p.
Proof.
  intros q p Hp [s [Hs E]]. exists (s ++ [last p EmptyString]). split.
  - destruct s; discriminate.
  - rewrite app_assoc. rewrite <- E. apply app_removelast_last. assumption.
Qed.

Lemma reach_trans : forall inp a b c, reach inp a b -> reach inp b c -> reach inp a c.
Proof. intros inp a b c H. induction H; intro Hc; [assumption|]. eapply reach_step; eauto. Qed.

Lemma reach_parent : forall inp p k, p <> [] -> reach inp (parent p) k -> reach inp p k.
Proof. intros. eapply reach_step; [left; split; [assumption|reflexivity]|assumption]. Qed.

Lemma reach_link : forall inp p e l k, p <> [] -> get inp p = Some e -> e_link e = Some l ->
  reach inp (clean l) k -> reach inp p k.
Proof. intros. eapply reach_step; [right; split; [assumption|eauto]|assumption]. Qed.

(* ------------------------------------------------------------------ *)
(* moveRec: unfolding                                                  *)

Definition link_call (f : nat) (inp : list entry) (vis : list path) (p : path) (out1 : list entry) : mres :=
  match get inp p with
  | Some e => match e_link e with
              | Some l => move_rec f inp true (p :: vis) (clean l) out1
              | None => MOk out1
              end
  | None => MOk out1
  end.

Definition finish (inp : list entry) (p : path) (out2 : list entry) : mres :=
  if has_key p out2 then MOk out2
  else match get inp p with Some e => MOk (out2 ++ [e]) | None => MOk out2 end.

Lemma move_rec_cons : forall f inp req vis x p' out,
  move_rec (S f) inp req vis (x :: p') out =
  if req && negb (has_key (x :: p') inp) then MNotFound out
  else if mem_path (x :: p') vis then MCycle
  else match move_rec f inp false ((x :: p') :: vis) (parent (x :: p')) out with
       | MOk out1 => match link_call f inp vis (x :: p') out1 with
                     | MOk out2 => finish inp (x :: p') out2
                     | MNotFound o => MNotFound o
                     | MCycle => MCycle
                     | MFuel => MFuel
                     end
       | MNotFound o => MNotFound o
       | MCycle => MCycle
       | MFuel => MFuel
       end.
Proof. reflexivity. Qed.

Lemma move_rec_root : forall f inp req vis out,
  move_rec (S f) inp req vis [] out =
  match get inp [] with
  | Some e => if has_key [] out then MOk out else MOk (out ++ [e])
  | None => MOk out
  end.
Proof. reflexivity. Qed.

Lemma mem_path_true : forall p l, mem_path p l = true <-> In p l.
Proof.
  intros p l. unfold mem_path. rewrite existsb_exists. split.
  - intros [q [Hq E]]. apply path_eqb_eq in E. subst. assumption.
  - intro H. exists p. split; [assumption|apply path_eqb_refl].
Qed.

Lemma mem_path_false : forall p l, mem_path p l = false <-> ~ In p l.
Proof. intros p l. rewrite <- mem_path_true. destruct (mem_path p l); split; intro H; congruence. Qed.

(* ------------------------------------------------------------------ *)
(* moveRec only appends; what it appends                               *)

Definition res_out (r : mres) : option (list entry) :=
  match r with MOk o | MNotFound o => Some o | _ => None end.

Definition ext (inp : list entry) (p : path) (vis : list path) (out out' : list entry) : Prop :=
  exists g, out' = out ++ g
    /\ (forall e, In e g -> In e inp /\ reach inp p (key e) /\ ~ In (key e) (keys out))
    /\ NoDup (keys g)
    /\ (forall q, In q vis -> q <> [] -> ~ In q (keys g)).

Lemma ext_refl : forall inp p vis out, ext inp p vis out out.
Proof.
  intros. exists []. rewrite app_nil_r. repeat split; try constructor; intros; try contradiction. intros [].
Qed.

Lemma ext_trans : forall inp p vis p1 vis1 p2 vis2 out out1 out2,
  ext inp p1 vis1 out out1 -> ext inp p2 vis2 out1 out2 ->
  (forall k, reach inp p1 k -> reach inp p k) -> (forall k, reach inp p2 k -> reach inp p k) ->
  incl vis vis1 -> incl vis vis2 ->
  ext inp p vis out out2.
Proof.
  intros inp p vis p1 vis1 p2 vis2 out out1 out2 [g1 [E1 [A1 [N1 V1]]]] [g2 [E2 [A2 [N2 V2]]]] R1 R2 I1 I2.
  exists (g1 ++ g2). subst. rewrite app_assoc. split; [reflexivity|]. split; [|split].
  - intros e He. apply in_app_or in He. destruct He as [He|He].
    + destruct (A1 e He) as [H1 [H2 H3]]. auto.
    + destruct (A2 e He) as [H1 [H2 H3]]. repeat split; auto. intro Hin. apply H3. rewrite keys_app. apply in_or_app. tauto.
  - rewrite keys_app. apply nodup_app. repeat split; auto.
    intros k Hk1 Hk2. unfold keys in Hk2. apply in_map_iff in Hk2. destruct Hk2 as [e [Hek He]].
    destruct (A2 e He) as [_ [_ H3]]. apply H3. rewrite keys_app. apply in_or_app. right. rewrite Hek. assumption.
  - intros q Hq Hn Hin. rewrite keys_app in Hin. apply in_app_or in Hin. destruct Hin as [Hin|Hin].
    + apply (V1 q (I1 q Hq) Hn Hin).
    + apply (V2 q (I2 q Hq) Hn Hin).
Qed.

Lemma ext_snoc : forall inp p vis out e,
  get inp p = Some e -> has_key p out = false -> (p = [] \/ ~ In p vis) ->
  ext inp p vis out (out ++ [e]).
Proof.
  intros inp p vis out e Hg Hh Hv. apply get_some in Hg. destruct Hg as [Hin Hk].
  exists [e]. split; [reflexivity|]. split; [|split].
  - intros e' [He'|[]]. subst e'. rewrite Hk. repeat split; [assumption|apply reach_refl|apply has_key_false; assumption].
  - cbn. constructor; [tauto|constructor].
  - intros q Hq Hn [Hin'|[]]. rewrite Hk in Hin'. subst q. destruct Hv; contradiction.
Qed.

Lemma ext_nodup : forall inp p vis out out', ext inp p vis out out' -> NoDup (keys out) -> NoDup (keys out').
Proof.
  intros inp p vis out out' [g [E [A [N V]]]] H. subst. rewrite keys_app. apply nodup_app. repeat split; auto.
  intros k Hk1 Hk2. unfold keys in Hk2. apply in_map_iff in Hk2. destruct Hk2 as [e [Hek He]].
  destruct (A e He) as [_ [_ H3]]. apply H3. rewrite Hek. assumption.
Qed.

Lemma move_rec_ext : forall inp fuel req vis p out out',
  res_out (move_rec fuel inp req vis p out) = Some out' -> ext inp p vis out out'.
Proof.
  intros inp fuel. induction fuel as [|f IH]; intros req vis p out out' H; [discriminate|].
  destruct p as [|x p'].
  - rewrite move_rec_root in H. destruct (get inp []) as [e|] eqn:Eg.
    + destruct (has_key [] out) eqn:Eh; cbn in H; inversion H; subst.
      * apply ext_refl.
      * apply ext_snoc; auto.
    + cbn in H. inversion H. apply ext_refl.
  - rewrite move_rec_cons in H. set (p := x :: p') in *.
    assert (Hp : p <> []) by discriminate.
    destruct (req && negb (has_key p inp)); [cbn in H; inversion H; apply ext_refl|].
    destruct (mem_path p vis) eqn:Ev; [discriminate|]. apply mem_path_false in Ev.
    destruct (move_rec f inp false (p :: vis) (parent p) out) as [out1|out1| |] eqn:E1; try discriminate.
    2:{ cbn in H. inversion H; subst. specialize (IH _ _ _ _ _ (f_equal res_out E1)).
        eapply ext_trans; [exact IH|apply ext_refl| | | |].
        - intros k. apply reach_parent. assumption.
        - intros k Hk. exact Hk.
        - intros q Hq. right. assumption.
        - apply incl_refl. }
    assert (X1 : ext inp p vis out out1).
    { specialize (IH _ _ _ _ _ (f_equal res_out E1)).
      eapply ext_trans; [exact IH|apply ext_refl| | | |].
      - intros k. apply reach_parent. assumption.
      - intros k Hk. exact Hk.
      - intros q Hq. right. assumption.
      - apply incl_refl. }
    assert (X2 : forall out2, res_out (link_call f inp vis p out1) = Some out2 -> ext inp p vis out1 out2).
    { intros out2 H2. unfold link_call in H2. destruct (get inp p) as [e|] eqn:Eg.
      - destruct (e_link e) as [l|] eqn:El.
        + specialize (IH _ _ _ _ _ H2). eapply ext_trans; [exact IH|apply ext_refl| | | |].
          * intros k. eapply reach_link; eauto.
          * intros k Hk. exact Hk.
          * intros q Hq. right. assumption.
          * apply incl_refl.
        + cbn in H2. inversion H2. apply ext_refl.
      - cbn in H2. inversion H2. apply ext_refl. }
    destruct (link_call f inp vis p out1) as [out2|out2| |] eqn:E2; try discriminate.
    2:{ cbn in H. inversion H; subst. specialize (X2 _ eq_refl).
        eapply ext_trans; [exact X1|exact X2| | | |]; auto using incl_refl. }
    specialize (X2 _ eq_refl).
    assert (X12 : ext inp p vis out out2) by (eapply ext_trans; [exact X1|exact X2| | | |]; auto using incl_refl).
    unfold finish in H. destruct (has_key p out2) eqn:Eh.
    + cbn in H. inversion H; subst. assumption.
    + destruct (get inp p) as [e|] eqn:Eg; cbn in H; inversion H; subst; [|assumption].
      eapply ext_trans; [exact X12|apply ext_snoc; eauto| | | |]; auto using incl_refl.
Qed.

(* ------------------------------------------------------------------ *)
(* every placed entry is preceded by what it needs                     *)

Fixpoint closed_from (inp : list entry) (before : list path) (l : list entry) : Prop :=
  match l with
  | [] => True
  | e :: t => (forall q, needs inp (key e) q -> has_key q inp = true -> In q before)
              /\ closed_from inp (before ++ [key e]) t
  end.
Definition closed (inp l : list entry) : Prop := closed_from inp [] l.

Lemma closed_from_app : forall inp l1 l2 b,
  closed_from inp b (l1 ++ l2) <-> closed_from inp b l1 /\ closed_from inp (b ++ keys l1) l2.
Proof.
  intros inp l1. induction l1 as [|e l1 IH]; cbn; intros l2 b.
  - rewrite app_nil_r. tauto.
  - rewrite IH. rewrite <- app_assoc. cbn. tauto.
Qed.

Lemma closed_snoc : forall inp l e,
  closed inp l -> (forall q, needs inp (key e) q -> has_key q inp = true -> In q (keys l)) ->
  closed inp (l ++ [e]).
Proof.
  intros inp l e Hl He. unfold closed. apply closed_from_app. split; [assumption|]. cbn. split; [|exact I]. exact He.
Qed.

(* the readable form: whatever an entry of the list needs (and exists) occurs earlier in the list *)
Lemma closed_from_split : forall inp l b a e c,
  closed_from inp b l -> l = a ++ e :: c ->
  forall q, needs inp (key e) q -> has_key q inp = true -> In q (b ++ keys a).
Proof.
  intros inp l. induction l as [|x l IH]; intros b a e c Hc El q Hn Hh.
  - destruct a; discriminate.
  - destruct a as [|y a]; cbn in El; inversion El; subst.
    + cbn. rewrite app_nil_r. destruct Hc as [H _]. auto.
    + destruct Hc as [_ Hc]. specialize (IH _ _ _ _ Hc eq_refl q Hn Hh).
      rewrite <- app_assoc in IH. exact IH.
Qed.

Lemma closed_split : forall inp l a e c,
  closed inp l -> l = a ++ e :: c ->
  forall q, needs inp (key e) q -> has_key q inp = true -> In q (keys a).
Proof. intros inp l a e c H E q Hn Hh. exact (closed_from_split inp l [] a e c H E q Hn Hh). Qed.

(* ------------------------------------------------------------------ *)
(* successful moveRec                                                  *)

Lemma ext_incl : forall inp p vis out out', ext inp p vis out out' -> incl (keys out) (keys out').
Proof. intros inp p vis out out' [g [E _]] k Hk. subst. rewrite keys_app. apply in_or_app. tauto. Qed.

Definition covers (inp : list entry) (p : path) (out' : list entry) : Prop :=
  forall q, (q = p \/ is_anc q p) -> has_key q inp = true -> In q (keys out').

Lemma move_rec_ok : forall inp fuel req vis p out out',
  move_rec fuel inp req vis p out = MOk out' ->
  covers inp p out'
  /\ (closed inp out -> closed inp out')
  /\ (has_key p inp = true -> ~ In p (keys out) ->
      exists g' e, out' = out ++ g' ++ [e] /\ get inp p = Some e).
Proof.
  intros inp fuel. induction fuel as [|f IH]; intros req vis p out out' H; [discriminate|].
  destruct p as [|x p'].
  - rewrite move_rec_root in H. destruct (get inp []) as [e|] eqn:Eg.
    + destruct (has_key [] out) eqn:Eh; inversion H; subst.
      * split; [|split].
        -- intros q [Hq|Hq] Hh; [subst; apply has_key_true; assumption|apply anc_nonnil in Hq; congruence].
        -- auto.
        -- intros _ Hn. apply has_key_true in Eh. contradiction.
      * pose proof (get_some _ _ _ Eg) as [Hin Hk].
        split; [|split].
        -- intros q [Hq|Hq] Hh; [subst|apply anc_nonnil in Hq; congruence].
           rewrite keys_app. apply in_or_app. right. cbn. left. assumption.
        -- intro Hc. apply closed_snoc; [assumption|]. intros q Hn. rewrite Hk in Hn. destruct Hn as [Hn|[Hn _]].
           ++ apply anc_nonnil in Hn. congruence.
           ++ congruence.
        -- intros _ _. exists [], e. split; reflexivity.
    + inversion H; subst. apply get_none in Eg. split; [|split]; auto.
      * intros q [Hq|Hq] Hh; [subst; congruence|apply anc_nonnil in Hq; congruence].
      * intros Hh. congruence.
  - rewrite move_rec_cons in H. set (p := x :: p') in *.
    assert (Hp : p <> []) by discriminate.
    destruct (req && negb (has_key p inp)); [discriminate|].
    destruct (mem_path p vis) eqn:Ev; [discriminate|]. apply mem_path_false in Ev.
    destruct (move_rec f inp false (p :: vis) (parent p) out) as [out1|out1| |] eqn:E1; try discriminate.
    destruct (link_call f inp vis p out1) as [out2|out2| |] eqn:E2; try discriminate.
    pose proof (move_rec_ext _ _ _ _ _ _ _ (f_equal res_out E1)) as X1.
    destruct (IH _ _ _ _ _ E1) as [C1 [K1 _]].
    (* the hardlink target *)
    assert (X2 : ext inp p (p :: vis) out1 out2
                 /\ (closed inp out1 -> closed inp out2)
                 /\ (forall q, link_of inp p q -> has_key q inp = true -> In q (keys out2))).
    { unfold link_call in E2. destruct (get inp p) as [e|] eqn:Eg.
      - destruct (e_link e) as [l|] eqn:El.
        + pose proof (move_rec_ext _ _ _ _ _ _ _ (f_equal res_out E2)) as X.
          destruct (IH _ _ _ _ _ E2) as [C2 [K2 _]].
          split; [|split; [assumption|]].
          * destruct X as [g [Eo [A [N V]]]]. exists g. repeat split; auto.
            -- apply A. assumption.
            -- eapply reach_link; eauto. apply A. assumption.
            -- apply A. assumption.
          * intros q [_ [e' [l' [Hg [Hl Hq]]]]] Hh. rewrite Eg in Hg. inversion Hg; subst e'.
            rewrite El in Hl. inversion Hl; subst l'. subst q. apply C2; auto.
        + inversion E2; subst. split; [apply ext_refl|split; [auto|]].
          intros q [_ [e' [l' [Hg [Hl Hq]]]]]. rewrite Eg in Hg. inversion Hg; subst e'. congruence.
      - inversion E2; subst. split; [apply ext_refl|split; [auto|]].
        intros q [_ [e' [l' [Hg _]]]]. congruence. }
    destruct X2 as [X2 [K2 L2]].
    pose proof (ext_incl _ _ _ _ _ X2) as I2.
    assert (Anc : forall q, is_anc q p -> has_key q inp = true -> In q (keys out2)).
    { intros q Hq Hh. apply I2. apply C1; [|assumption]. apply anc_parent in Hq. destruct Hq; [left|right]; assumption. }
    (* p itself is not placed by the two recursive calls *)
    assert (NP : ~ In p (keys out) -> ~ In p (keys out2)).
    { intros Hn Hin. destruct X1 as [g1 [Eo1 [_ [_ V1]]]]. destruct X2 as [g2 [Eo2 [_ [_ V2]]]].
      subst out2 out1. rewrite !keys_app in Hin. apply in_app_or in Hin. destruct Hin as [Hin|Hin].
      - apply in_app_or in Hin. destruct Hin as [Hin|Hin]; [contradiction|]. apply (V1 p); [left; reflexivity|assumption|assumption].
      - apply (V2 p); [left; reflexivity|assumption|assumption]. }
    unfold finish in H. destruct (has_key p out2) eqn:Eh.
    + inversion H; subst out'. split; [|split].
      * intros q [Hq|Hq] Hh; [subst q; apply has_key_true; assumption|auto].
      * auto.
      * intros _ Hn. apply NP in Hn. apply has_key_true in Eh. contradiction.
    + destruct (get inp p) as [e|] eqn:Eg.
      * inversion H; subst out'. pose proof (get_some _ _ _ Eg) as [Hin Hk].
        split; [|split].
        -- intros q [Hq|Hq] Hh; rewrite keys_app; apply in_or_app.
           ++ right. subst q. cbn. left. assumption.
           ++ left. auto.
        -- intro Hc. apply closed_snoc; [auto|]. intros q Hn Hh. rewrite Hk in Hn. destruct Hn as [Hn|Hn]; auto.
        -- intros _ _. destruct X1 as [g1 [Eo1 _]]. destruct X2 as [g2 [Eo2 _]]. subst out2 out1.
           exists (g1 ++ g2), e. split; [|reflexivity]. rewrite <- !app_assoc. reflexivity.
      * inversion H; subst out'. apply get_none in Eg. split; [|split].
        -- intros q [Hq|Hq] Hh; [subst q; congruence|auto].
        -- auto.
        -- intros Hh. congruence.
Qed.

(* ------------------------------------------------------------------ *)
(* not found                                                           *)

(* some hardlink of the layer names a target that has no entry *)
Definition dangling (inp : list entry) : Prop :=
  exists e l, In e inp /\ e_link e = Some l /\ clean l <> [] /\ has_key (clean l) inp = false.

(* ... reached from the path p by parent / hardlink-target steps *)
Definition dangling_from (inp : list entry) (p : path) : Prop :=
  exists e l, In e inp /\ reach inp p (key e) /\ e_link e = Some l /\ clean l <> [] /\ has_key (clean l) inp = false.

Lemma dangling_from_dangling : forall inp p, dangling_from inp p -> dangling inp.
Proof. intros inp p [e [l [H1 [_ [H2 [H3 H4]]]]]]. exists e, l. tauto. Qed.

Lemma dangling_from_step : forall inp p q, dep inp p q -> dangling_from inp q -> dangling_from inp p.
Proof.
  intros inp p q Hd [e [l [H1 [H2 [H3 [H4 H5]]]]]]. exists e, l. repeat split; try assumption.
  eapply reach_step; eauto.
Qed.

Lemma move_rec_notfound : forall inp fuel req vis p out out',
  move_rec fuel inp req vis p out = MNotFound out' ->
  (req = true /\ p <> [] /\ has_key p inp = false) \/ dangling_from inp p.
Proof.
  intros inp fuel. induction fuel as [|f IH]; intros req vis p out out' H; [discriminate|].
  destruct p as [|x p'].
  - rewrite move_rec_root in H. destruct (get inp []); [destruct (has_key [] out)|]; discriminate.
  - rewrite move_rec_cons in H. set (p := x :: p') in *.
    assert (Hp : p <> []) by discriminate.
    destruct (req && negb (has_key p inp)) eqn:Er.
    { left. apply andb_true_iff in Er. destruct Er as [Er1 Er2]. apply negb_true_iff in Er2.
      repeat split; [assumption|discriminate|assumption]. }
    destruct (mem_path p vis); [discriminate|].
    destruct (move_rec f inp false (p :: vis) (parent p) out) as [out1|out1| |] eqn:E1; try discriminate.
    2:{ apply IH in E1. destruct E1 as [[E _]|E]; [discriminate|right].
        eapply dangling_from_step; [left; split; [exact Hp|reflexivity]|exact E]. }
    destruct (link_call f inp vis p out1) as [out2|out2| |] eqn:E2; try discriminate.
    2:{ unfold link_call in E2. destruct (get inp p) as [e|] eqn:Eg; [|discriminate].
        destruct (e_link e) as [l|] eqn:El; [|discriminate].
        apply IH in E2. right. destruct E2 as [[_ [E2 E3]]|E2].
        - exists e, l. pose proof (get_some _ _ _ Eg) as [Hin Hk]. rewrite Hk. repeat split; try assumption. apply reach_refl.
        - eapply dangling_from_step; [right; split; [exact Hp|eauto]|exact E2]. }
    unfold finish in H. destruct (has_key p out2); [discriminate|]. destruct (get inp p); discriminate.
Qed.

Lemma move_rec_absent : forall inp f vis p out,
  p <> [] -> has_key p inp = false -> move_rec (S f) inp true vis p out = MNotFound out.
Proof.
  intros inp f vis p out Hp Hh. destruct p as [|x p']; [congruence|].
  rewrite move_rec_cons. rewrite Hh. reflexivity.
Qed.

Lemma move_rec_ok_present : forall inp fuel vis p out out',
  move_rec fuel inp true vis p out = MOk out' -> p = [] \/ has_key p inp = true.
Proof.
  intros inp fuel vis p out out' H. destruct fuel as [|f]; [discriminate|].
  destruct p as [|x p']; [left; reflexivity|]. right.
  rewrite move_rec_cons in H. destruct (has_key (x :: p') inp); [reflexivity|discriminate].
Qed.

(* ------------------------------------------------------------------ *)
(* the recursion terminates: the fuel given by sort_entries is enough  *)

Lemma parent_cons : forall x p, parent (x :: p) = match p with [] => [] | _ => x :: parent p end.
Proof. intros x p. unfold parent. destruct p; reflexivity. Qed.

Lemma prefixes_self : forall p, In p (prefixes p).
Proof. induction p as [|x p IH]; cbn; [tauto|]. right. apply in_map. assumption. Qed.

Lemma prefixes_parent : forall p0 p, In p (prefixes p0) -> In (parent p) (prefixes p0).
Proof.
  induction p0 as [|x t IH]; cbn; intros p H.
  - destruct H as [H|[]]. subst. cbn. tauto.
  - destruct H as [H|H]; [subst; cbn; tauto|].
    apply in_map_iff in H. destruct H as [p1 [E H1]]. subst p. rewrite parent_cons.
    destruct p1 as [|y p1]; [tauto|]. right. apply in_map. apply IH. assumption.
Qed.

Lemma universe_start : forall inp p0, In p0 (universe inp p0).
Proof. intros. unfold universe. apply in_or_app. left. apply prefixes_self. Qed.

Lemma universe_parent : forall inp p0 p, In p (universe inp p0) -> In (parent p) (universe inp p0).
Proof.
  intros inp p0 p H. unfold universe in *. apply in_app_or in H. apply in_or_app. destruct H as [H|H].
  - left. apply prefixes_parent. assumption.
  - right. apply in_flat_map in H. destruct H as [e [He H]]. apply in_flat_map. exists e. split; [assumption|].
    apply in_app_or in H. apply in_or_app. destruct H as [H|H].
    + left. apply prefixes_parent. assumption.
    + right. destruct (e_link e); [apply prefixes_parent; assumption|contradiction].
Qed.

Lemma universe_link : forall inp p0 p e l,
  get inp p = Some e -> e_link e = Some l -> In (clean l) (universe inp p0).
Proof.
  intros inp p0 p e l Hg Hl. apply get_some in Hg. destruct Hg as [Hin _].
  unfold universe. apply in_or_app. right. apply in_flat_map. exists e. split; [assumption|].
  apply in_or_app. right. rewrite Hl. apply prefixes_self.
Qed.

Lemma move_rec_fuel : forall inp p0 fuel req vis p out,
  NoDup vis -> incl vis (universe inp p0) -> In p (universe inp p0) ->
  List.length (universe inp p0) < fuel + List.length vis ->
  move_rec fuel inp req vis p out <> MFuel.
Proof.
  intros inp p0 fuel. induction fuel as [|f IH]; intros req vis p out Hnd Hincl Hp Hlen.
  - exfalso. pose proof (NoDup_incl_length Hnd Hincl). lia.
  - destruct p as [|x p'].
    + rewrite move_rec_root. destruct (get inp []); [destruct (has_key [] out)|]; discriminate.
    + rewrite move_rec_cons. set (p := x :: p') in *.
      destruct (req && negb (has_key p inp)); [discriminate|].
      destruct (mem_path p vis) eqn:Ev; [discriminate|]. apply mem_path_false in Ev.
      assert (Hnd' : NoDup (p :: vis)) by (constructor; assumption).
      assert (Hincl' : incl (p :: vis) (universe inp p0)) by (intros q [Hq|Hq]; [subst; assumption|auto]).
      assert (Hlen' : List.length (universe inp p0) < f + List.length (p :: vis)) by (change (List.length (p :: vis)) with (S (List.length vis)); lia).
      pose proof (IH false (p :: vis) (parent p) out Hnd' Hincl' (universe_parent _ _ _ Hp) Hlen') as N1.
      destruct (move_rec f inp false (p :: vis) (parent p) out) as [out1|out1| |] eqn:E1; try discriminate; [|congruence].
      assert (N2 : link_call f inp vis p out1 <> MFuel).
      { unfold link_call. destruct (get inp p) as [e|] eqn:Eg; [|discriminate].
        destruct (e_link e) as [l|] eqn:El; [|discriminate].
        apply IH; auto. eapply universe_link; eauto. }
      destruct (link_call f inp vis p out1) as [out2|out2| |] eqn:E2; try discriminate; [|congruence].
      unfold finish. destruct (has_key p out2); [discriminate|]. destruct (get inp p); discriminate.
Qed.

Lemma move_top_fuel : forall inp l out, move_top inp l out <> MFuel.
Proof.
  intros inp l out. unfold move_top, fuel_for. apply (move_rec_fuel inp (clean l)).
  - constructor.
  - intros q [].
  - apply universe_start.
  - cbn. lia.
Qed.

Lemma move_rec_closed : forall inp fuel req vis p out out',
  res_out (move_rec fuel inp req vis p out) = Some out' -> closed inp out -> closed inp out'.
Proof.
  intros inp fuel. induction fuel as [|f IH]; intros req vis p out out' H Hc; [discriminate|].
  destruct (move_rec (S f) inp req vis p out) as [o|o| |] eqn:E; try discriminate.
  { cbn in H. inversion H; subst o. destruct (move_rec_ok _ _ _ _ _ _ _ E) as [_ [K _]]. auto. }
  cbn in H. inversion H; subst o. clear H.
  destruct p as [|x p'].
  - rewrite move_rec_root in E. destruct (get inp []); [destruct (has_key [] out)|]; discriminate.
  - rewrite move_rec_cons in E. set (p := x :: p') in *.
    destruct (req && negb (has_key p inp)); [inversion E; subst; assumption|].
    destruct (mem_path p vis); [discriminate|].
    destruct (move_rec f inp false (p :: vis) (parent p) out) as [out1|out1| |] eqn:E1; try discriminate.
    2:{ inversion E; subst. eapply IH; [rewrite E1; reflexivity|assumption]. }
    assert (Hc1 : closed inp out1) by (eapply IH; [rewrite E1; reflexivity|assumption]).
    destruct (link_call f inp vis p out1) as [out2|out2| |] eqn:E2; try discriminate.
    2:{ inversion E; subst. unfold link_call in E2. destruct (get inp p) as [e|]; [|discriminate].
        destruct (e_link e) as [l|]; [|discriminate]. eapply IH; [rewrite E2; reflexivity|assumption]. }
    unfold finish in E. destruct (has_key p out2); [discriminate|]. destruct (get inp p); discriminate.
Qed.

(* ------------------------------------------------------------------ *)
(* the loop over the prioritized list                                  *)

Definition absent (inp : list entry) (l : string) : Prop :=
  clean l <> [] /\ has_key (clean l) inp = false.

(* [groups inp out prio gs ms]: starting with [out] already placed, the list [prio] is served by the
   consecutive groups [gs] (one per listed path, possibly empty), and [ms] are the listed paths reported
   as missed. A group holds only entries that its listed path needs and that were not placed before;
   when the path has an entry, it is already placed or it is the last of its group. *)
Inductive groups (inp : list entry) : list entry -> list string -> list (list entry) -> list string -> Prop :=
| groups_nil : forall out, groups inp out [] [] []
| groups_ok : forall out l ls g gs ms,
    (forall e, In e g -> In e inp /\ reach inp (clean l) (key e) /\ ~ In (key e) (keys out)) ->
    (clean l = [] \/ has_key (clean l) inp = true) ->
    (forall e, get inp (clean l) = Some e -> In (clean l) (keys out) \/ exists g', g = g' ++ [e]) ->
    covers inp (clean l) (out ++ g) ->
    groups inp (out ++ g) ls gs ms ->
    groups inp out (l :: ls) (g :: gs) ms
| groups_missed : forall out l ls g gs ms,
    (forall e, In e g -> In e inp /\ reach inp (clean l) (key e) /\ ~ In (key e) (keys out)) ->
    (absent inp l \/ dangling_from inp (clean l)) ->
    groups inp (out ++ g) ls gs ms ->
    groups inp out (l :: ls) (g :: gs) (l :: ms).

Lemma move_all_spec : forall inp allow prio out missed G M,
  move_all inp allow prio out missed = AOk G M ->
  exists gs ms, G = out ++ List.concat gs /\ M = missed ++ ms /\ groups inp out prio gs ms
    /\ (NoDup (keys out) -> NoDup (keys G))
    /\ (closed inp out -> closed inp G)
    /\ (allow = false -> ms = []).
Proof.
  intros inp allow prio. induction prio as [|l ls IH]; intros out missed G M H.
  - cbn in H. inversion H; subst. exists [], []. cbn. rewrite !app_nil_r. repeat split; auto. constructor.
  - cbn [move_all] in H. destruct (move_top inp l out) as [out1|out1| |] eqn:E1; try discriminate.
    + (* placed *)
      unfold move_top in E1.
      pose proof (move_rec_ext _ _ _ _ _ _ _ (f_equal res_out E1)) as X.
      destruct (move_rec_ok _ _ _ _ _ _ _ E1) as [C [K L]].
      pose proof (move_rec_ok_present _ _ _ _ _ _ E1) as P.
      destruct (IH _ _ _ _ H) as [gs [ms [EG [EM [Hg [Hn [Hc Ha]]]]]]].
      pose proof (ext_nodup _ _ _ _ _ X) as Hn1.
      destruct X as [g [Eo [A [N V]]]]. subst out1.
      exists (g :: gs), ms. cbn. rewrite app_assoc. repeat split; auto.
      apply groups_ok; auto.
      intros e Hge. destruct (in_dec (list_eq_dec string_dec) (clean l) (keys out)) as [Hi|Hi]; [left; assumption|right].
      destruct (L (get_has _ _ _ Hge) Hi) as [g' [e' [Eo Hge']]]. rewrite Hge in Hge'. inversion Hge'; subst e'.
      apply app_inv_head in Eo. exists g'. assumption.
    + (* not found *)
      destruct allow; [|discriminate].
      unfold move_top in E1.
      pose proof (move_rec_ext _ _ _ _ _ _ _ (f_equal res_out E1)) as X.
      pose proof (move_rec_notfound _ _ _ _ _ _ _ E1) as NF.
      destruct (IH _ _ _ _ H) as [gs [ms [EG [EM [Hg [Hn [Hc Ha]]]]]]].
      pose proof (ext_nodup _ _ _ _ _ X) as Hn1.
      (* closedness of a partially served path *)
      pose proof (move_rec_closed _ _ _ _ _ _ _ (f_equal res_out E1)) as Kc.
      destruct X as [g [Eo [A [N V]]]]. subst out1.
      exists (g :: gs), (l :: ms). cbn. rewrite app_assoc. rewrite <- app_assoc in EM. repeat split; auto.
      * apply groups_missed; auto. destruct NF as [[_ [N1 N2]]|NF]; [left; split; assumption|right; assumption].
      * intro; discriminate.
Qed.

(* ------------------------------------------------------------------ *)
(* consequences of [groups]                                            *)

Definition absentb (inp : list entry) (l : string) : bool :=
  negb (is_nil (clean l)) && negb (has_key (clean l) inp).

Lemma absentb_true : forall inp l, absentb inp l = true <-> absent inp l.
Proof.
  intros inp l. unfold absentb, absent. rewrite andb_true_iff, !negb_true_iff.
  destruct (clean l); cbn; split; intros [H1 H2]; split; auto; congruence.
Qed.

Lemma groups_placed : forall inp out prio gs ms,
  groups inp out prio gs ms ->
  forall l, In l prio -> ~ In l ms -> has_key (clean l) inp = true ->
  In (clean l) (keys (out ++ List.concat gs)).
Proof.
  intros inp out prio gs ms H. induction H as [out|out l0 ls g gs ms A P L C Hg IH|out l0 ls g gs ms A NF Hg IH];
    intros l Hl Hm Hh.
  - contradiction.
  - cbn. rewrite app_assoc. destruct Hl as [Hl|Hl].
    + subst l0. rewrite keys_app. apply in_or_app. left. apply C; [left; reflexivity|assumption].
    + apply IH; assumption.
  - cbn. rewrite app_assoc. destruct Hl as [Hl|Hl].
    + subst l0. exfalso. apply Hm. left. reflexivity.
    + apply IH; [assumption| |assumption]. intro Hin. apply Hm. right. assumption.
Qed.

Lemma groups_minimal : forall inp out prio gs ms,
  groups inp out prio gs ms ->
  forall e, In e (List.concat gs) -> exists l, In l prio /\ reach inp (clean l) (key e) /\ In e inp.
Proof.
  intros inp out prio gs ms H. induction H as [out|out l0 ls g gs ms A P L C Hg IH|out l0 ls g gs ms A NF Hg IH];
    intros e He; cbn in He.
  - contradiction.
  - apply in_app_or in He. destruct He as [He|He].
    + exists l0. destruct (A e He) as [H1 [H2 _]]. repeat split; [left; reflexivity|assumption|assumption].
    + destruct (IH e He) as [l [H1 H2]]. exists l. split; [right; assumption|assumption].
  - apply in_app_or in He. destruct He as [He|He].
    + exists l0. destruct (A e He) as [H1 [H2 _]]. repeat split; [left; reflexivity|assumption|assumption].
    + destruct (IH e He) as [l [H1 H2]]. exists l. split; [right; assumption|assumption].
Qed.

Lemma groups_missed_in : forall inp out prio gs ms,
  groups inp out prio gs ms -> forall l, In l ms -> In l prio /\ (absent inp l \/ dangling_from inp (clean l)).
Proof.
  intros inp out prio gs ms H. induction H as [out|out l0 ls g gs ms A P L C Hg IH|out l0 ls g gs ms A NF Hg IH];
    intros l Hl.
  - contradiction.
  - destruct (IH l Hl). split; [right; assumption|assumption].
  - destruct Hl as [Hl|Hl].
    + subst. split; [left; reflexivity|assumption].
    + destruct (IH l Hl). split; [right; assumption|assumption].
Qed.

Lemma groups_absent_missed : forall inp out prio gs ms,
  groups inp out prio gs ms -> forall l, In l prio -> absent inp l -> In l ms.
Proof.
  intros inp out prio gs ms H. induction H as [out|out l0 ls g gs ms A P L C Hg IH|out l0 ls g gs ms A NF Hg IH];
    intros l Hl [Ha1 Ha2].
  - contradiction.
  - destruct Hl as [Hl|Hl].
    + subst. destruct P; congruence.
    + apply IH; [assumption|split; assumption].
  - destruct Hl as [Hl|Hl]; [left; assumption|right; apply IH; [assumption|split; assumption]].
Qed.

Lemma groups_missed_exact : forall inp out prio gs ms,
  groups inp out prio gs ms -> ~ dangling inp -> ms = filter (absentb inp) prio.
Proof.
  intros inp out prio gs ms H Hd. induction H as [out|out l0 ls g gs ms A P L C Hg IH|out l0 ls g gs ms A NF Hg IH]; cbn.
  - reflexivity.
  - destruct (absentb inp l0) eqn:E; [|assumption]. apply absentb_true in E. destruct E. destruct P; congruence.
  - destruct NF as [NF|NF]; [|exfalso; apply Hd; eapply dangling_from_dangling; exact NF]. apply absentb_true in NF. rewrite NF. f_equal. assumption.
Qed.

(* ------------------------------------------------------------------ *)
(* sortEntries                                                         *)

Definition is_land (i : item) : bool := match i with ILand _ => true | IEnt _ => false end.
Definition ents (l : list item) : list entry :=
  flat_map (fun i => match i with IEnt e => [e] | ILand _ => [] end) l.
(* the entries before the first landmark, and those after it *)
Fixpoint group_of (out : list item) : list entry :=
  match out with IEnt e :: t => e :: group_of t | _ => [] end.
Fixpoint rest_of (out : list item) : list entry :=
  match out with IEnt _ :: t => rest_of t | ILand _ :: t => ents t | [] => [] end.

Lemma ents_map : forall l, ents (map IEnt l) = l.
Proof. induction l as [|e l IH]; cbn; [reflexivity|]. unfold ents in IH. rewrite IH. reflexivity. Qed.

Lemma group_of_layout : forall G b X, group_of (map IEnt G ++ ILand b :: X) = G.
Proof. induction G as [|e G IH]; cbn; intros; [reflexivity|]. rewrite IH. reflexivity. Qed.

Lemma rest_of_layout : forall G b R, rest_of (map IEnt G ++ ILand b :: map IEnt R) = R.
Proof. induction G as [|e G IH]; cbn; intros; [apply ents_map|]. apply IH. Qed.

Lemma sort_ok_inv : forall t prio allow out missed,
  sort_entries t prio allow = SOk out missed ->
  exists G, move_all (import t) allow prio [] [] = AOk G missed
    /\ out = map IEnt G ++ ILand (negb (is_nil prio)) :: map IEnt (rest (import t) G).
Proof.
  intros t prio allow out missed H. unfold sort_entries in H.
  destruct (move_all (import t) allow prio [] []) as [G M| | |] eqn:E; try discriminate.
  inversion H; subst. exists G. split; reflexivity.
Qed.

Lemma sort_ok_group : forall t prio allow out missed,
  sort_entries t prio allow = SOk out missed ->
  move_all (import t) allow prio [] [] = AOk (group_of out) missed
  /\ out = map IEnt (group_of out) ++ [ILand (negb (is_nil prio))] ++ map IEnt (rest_of out)
  /\ rest_of out = rest (import t) (group_of out).
Proof.
  intros t prio allow out missed H. destruct (sort_ok_inv _ _ _ _ _ H) as [G [E Eo]].
  subst out. rewrite group_of_layout, rest_of_layout. repeat split; assumption || reflexivity.
Qed.

Lemma closed_nil : forall inp, closed inp [].
Proof. intros. exact I. Qed.

Lemma sort_group_facts : forall t prio allow out missed,
  sort_entries t prio allow = SOk out missed ->
  exists gs, group_of out = List.concat gs
    /\ groups (import t) [] prio gs missed
    /\ NoDup (keys (group_of out))
    /\ closed (import t) (group_of out)
    /\ incl (group_of out) (import t)
    /\ (allow = false -> missed = []).
Proof.
  intros t prio allow out missed H. destruct (sort_ok_group _ _ _ _ _ H) as [E _].
  destruct (move_all_spec _ _ _ _ _ _ _ E) as [gs [ms [EG [EM [Hg [Hn [Hc Ha]]]]]]].
  cbn in EG, EM. subst ms. exists gs. repeat split; auto.
  - apply Hn. constructor.
  - apply Hc. apply closed_nil.
  - intros e He. rewrite EG in He. destruct (groups_minimal _ _ _ _ _ Hg e He) as [l [_ [_ Hin]]]. assumption.
Qed.

Lemma rest_perm : forall inp G,
  NoDup (keys inp) -> incl G inp -> NoDup (keys G) -> Permutation (G ++ rest inp G) inp.
Proof.
  intros inp G Hi Hincl Hg. apply NoDup_Permutation.
  - apply nodup_app. repeat split.
    + apply nodup_keys_nodup. assumption.
    + unfold rest. apply NoDup_filter. apply nodup_keys_nodup. assumption.
    + intros e He Hr. unfold rest in Hr. apply filter_In in Hr. destruct Hr as [_ Hr].
      apply negb_true_iff in Hr. apply has_key_false in Hr. apply Hr. apply in_map. assumption.
  - apply nodup_keys_nodup. assumption.
  - intro e. split.
    + intro H. apply in_app_or in H. destruct H as [H|H]; [auto|]. unfold rest in H. apply filter_In in H. tauto.
    + intro H. apply in_or_app. destruct (has_key (key e) G) eqn:Eh.
      * left. apply has_key_true in Eh. unfold keys in Eh. apply in_map_iff in Eh. destruct Eh as [e' [Ek He']].
        assert (e' = e) by (apply (nodup_keys_inj inp); [assumption|apply Hincl; assumption|assumption|assumption]). subst. assumption.
      * right. unfold rest. apply filter_In. split; [assumption|]. rewrite Eh. reflexivity.
Qed.

Lemma sort_permutation : forall t prio allow out missed,
  sort_entries t prio allow = SOk out missed ->
  Permutation (group_of out ++ rest_of out) (import t).
Proof.
  intros t prio allow out missed H. destruct (sort_ok_group _ _ _ _ _ H) as [_ [_ ER]].
  destruct (sort_group_facts _ _ _ _ _ H) as [gs [_ [_ [Hn [_ [Hi _]]]]]].
  rewrite ER. apply rest_perm; auto. apply import_nodup.
Qed.

Lemma sort_single_landmark : forall t prio allow out missed,
  sort_entries t prio allow = SOk out missed ->
  filter is_land out = [ILand (negb (is_nil prio))]
  /\ (forall e, In (IEnt e) out -> In e (import t) /\ is_landmark (key e) = false).
Proof.
  intros t prio allow out missed H. destruct (sort_ok_group _ _ _ _ _ H) as [_ [Eo ER]].
  destruct (sort_group_facts _ _ _ _ _ H) as [gs [_ [_ [_ [_ [Hi _]]]]]].
  split.
  - rewrite Eo. rewrite !filter_app. cbn.
    assert (F : forall l, filter is_land (map IEnt l) = []) by (induction l; cbn; auto).
    rewrite !F. reflexivity.
  - intros e He. assert (Hin : In e (import t)).
    { rewrite Eo in He. apply in_app_or in He. destruct He as [He|He].
      - apply in_map_iff in He. destruct He as [e' [E1 E2]]. inversion E1; subst. auto.
      - apply in_app_or in He. destruct He as [[He|[]]|He]; [discriminate|].
        apply in_map_iff in He. destruct He as [e' [E1 E2]]. inversion E1; subst.
        rewrite ER in E2. unfold rest in E2. apply filter_In in E2. tauto. }
    split; [assumption|]. eapply import_no_landmark; eauto.
Qed.

Lemma sort_closed : forall t prio allow out missed,
  sort_entries t prio allow = SOk out missed ->
  forall a e c, group_of out = a ++ e :: c ->
  forall q, needs (import t) (key e) q -> has_key q (import t) = true -> In q (keys a).
Proof.
  intros t prio allow out missed H a e c E q Hn Hh.
  destruct (sort_group_facts _ _ _ _ _ H) as [gs [_ [_ [_ [Hc _]]]]].
  eapply closed_split; eauto.
Qed.

Lemma sort_listed_placed : forall t prio allow out missed,
  sort_entries t prio allow = SOk out missed ->
  forall l e, In l prio -> ~ In l missed -> get (import t) (clean l) = Some e -> In e (group_of out).
Proof.
  intros t prio allow out missed H l e Hl Hm Hg.
  destruct (sort_group_facts _ _ _ _ _ H) as [gs [EG [Hgr [_ [_ [Hi _]]]]]].
  pose proof (groups_placed _ _ _ _ _ Hgr l Hl Hm (get_has _ _ _ Hg)) as Hp. cbn in Hp. rewrite <- EG in Hp.
  unfold keys in Hp. apply in_map_iff in Hp. destruct Hp as [e' [Ek He']].
  apply get_some in Hg. destruct Hg as [Hin Hk].
  assert (e' = e). { eapply nodup_keys_inj; [apply import_nodup|auto|auto|congruence]. }
  subst. assumption.
Qed.

Lemma sort_group_minimal : forall t prio allow out missed,
  sort_entries t prio allow = SOk out missed ->
  forall e, In e (group_of out) -> exists l, In l prio /\ reach (import t) (clean l) (key e).
Proof.
  intros t prio allow out missed H e He.
  destruct (sort_group_facts _ _ _ _ _ H) as [gs [EG [Hgr _]]]. rewrite EG in He.
  destruct (groups_minimal _ _ _ _ _ Hgr e He) as [l [H1 [H2 _]]]. eauto.
Qed.

Lemma rest_nil : forall inp, rest inp [] = inp.
Proof.
  intro inp. unfold rest. induction inp as [|a l IH]; [reflexivity|]. cbn [filter].
  change (has_key (key a) []) with false. cbn [negb]. rewrite IH. reflexivity.
Qed.

Lemma sort_empty_list : forall t allow, sort_entries t [] allow = SOk (ILand false :: map IEnt (import t)) [].
Proof.
  intros t allow. unfold sort_entries. cbn [move_all]. rewrite rest_nil. reflexivity.
Qed.

Lemma sort_missing : forall t prio allow out missed,
  sort_entries t prio allow = SOk out missed ->
  (forall l, In l prio -> absent (import t) l -> allow = true /\ In l missed)
  /\ (forall l, In l missed -> In l prio /\ (absent (import t) l \/ dangling_from (import t) (clean l)))
  /\ (allow = false -> missed = []).
Proof.
  intros t prio allow out missed H.
  destruct (sort_group_facts _ _ _ _ _ H) as [gs [_ [Hgr [_ [_ [_ Ha]]]]]].
  split; [|split; [|assumption]].
  - intros l Hl Hab. pose proof (groups_absent_missed _ _ _ _ _ Hgr l Hl Hab) as Hm. split; [|assumption].
    destruct allow; [reflexivity|]. rewrite (Ha eq_refl) in Hm. contradiction.
  - intros l Hl. eapply groups_missed_in; eauto.
Qed.

Lemma sort_missed_exact : forall t prio out missed,
  ~ dangling (import t) ->
  sort_entries t prio true = SOk out missed -> missed = filter (absentb (import t)) prio.
Proof.
  intros t prio out missed Hd H.
  destruct (sort_group_facts _ _ _ _ _ H) as [gs [_ [Hgr _]]].
  eapply groups_missed_exact; eauto.
Qed.

(* strict mode: an absent listed path aborts the build with the not-found error, unless an earlier listed
   path already aborted it on a hardlink cycle *)
Lemma move_all_strict_absent : forall inp prio out missed,
  (exists l, In l prio /\ absent inp l) ->
  move_all inp false prio out missed = ANotFound \/ move_all inp false prio out missed = ACycle.
Proof.
  intros inp prio. induction prio as [|l ls IH]; intros out missed [l0 [Hl Ha]]; [contradiction|].
  cbn [move_all]. destruct (move_top inp l out) as [o|o| |] eqn:E.
  - destruct Hl as [Hl|Hl].
    + subst l0. unfold move_top in E. apply move_rec_ok_present in E. destruct Ha. destruct E; congruence.
    + apply IH. eauto.
  - left. reflexivity.
  - right. reflexivity.
  - exfalso. eapply move_top_fuel; eauto.
Qed.

Lemma sort_strict_absent : forall t prio,
  (exists l, In l prio /\ absent (import t) l) ->
  sort_entries t prio false = SNotFound \/ sort_entries t prio false = SCycle.
Proof.
  intros t prio H. unfold sort_entries.
  destruct (move_all_strict_absent (import t) prio [] [] H) as [E|E]; rewrite E; auto.
Qed.

Lemma move_all_fuel : forall inp allow prio out missed, move_all inp allow prio out missed <> AFuel.
Proof.
  intros inp allow prio. induction prio as [|l ls IH]; intros out missed; cbn [move_all]; [discriminate|].
  destruct (move_top inp l out) as [o|o| |] eqn:E.
  - apply IH.
  - destruct allow; [apply IH|discriminate].
  - discriminate.
  - exfalso. eapply move_top_fuel; eauto.
Qed.

Lemma sort_terminates : forall t prio allow, sort_entries t prio allow <> SFuel.
Proof.
  intros t prio allow. unfold sort_entries.
  pose proof (move_all_fuel (import t) allow prio [] []) as H.
  destruct (move_all (import t) allow prio [] []); congruence || discriminate.
Qed.

(* the root never errs *)
Lemma move_top_root : forall inp l out, clean l = [] -> exists out', move_top inp l out = MOk out'.
Proof.
  intros inp l out E. unfold move_top, fuel_for. rewrite E. rewrite move_rec_root.
  destruct (get inp []); [destruct (has_key [] out)|]; eauto.
Qed.

(* ------------------------------------------------------------------ *)
(* importTar, declaratively: an entry of the input is kept iff its name is not a landmark and no later
   entry has the same cleaned name; kept entries stay in their input order *)

Fixpoint import_spec (t : list entry) : list entry :=
  match t with
  | [] => []
  | e :: t' => if is_landmark (key e) || has_key (key e) t' then import_spec t' else e :: import_spec t'
  end.

(* names of the non-landmark entries *)
Definition nl (t : list entry) : list entry := filter (fun e => negb (is_landmark (key e))) t.

Lemma has_key_nl : forall k t, is_landmark k = false -> has_key k (nl t) = has_key k t.
Proof.
  intros k t Hk. induction t as [|e t IH]; [reflexivity|]. unfold nl in *. cbn [filter].
  destruct (is_landmark (key e)) eqn:El; cbn [negb].
  - cbn [has_key existsb]. fold (has_key k t). rewrite IH.
    destruct (path_eqb (key e) k) eqn:E; [|reflexivity]. apply path_eqb_eq in E. congruence.
  - cbn [has_key existsb]. fold (has_key k t). fold (has_key k (filter (fun e0 => negb (is_landmark (key e0))) t)).
    rewrite IH. reflexivity.
Qed.

Lemma import_from_spec : forall t acc,
  import_from acc t = rest acc (nl t) ++ import_spec t.
Proof.
  induction t as [|e t IH]; intro acc.
  - cbn [import_from import_spec nl filter]. rewrite rest_nil, app_nil_r. reflexivity.
  - cbn [import_from import_spec]. destruct (is_landmark (key e)) eqn:El.
    + rewrite IH. cbn [orb]. unfold nl. cbn [filter]. rewrite El. reflexivity.
    + rewrite IH. cbn [orb]. unfold rest. rewrite filter_app. rewrite <- app_assoc. f_equal.
      * unfold remove_key, nl. cbn [filter]. rewrite El. cbn [negb].
        induction acc as [|a acc IHa]; [reflexivity|]. cbn [filter].
        cbn [has_key existsb]. fold (has_key (key a) (filter (fun e0 => negb (is_landmark (key e0))) t)).
        destruct (path_eqb (key a) (key e)) eqn:E.
        -- cbn [negb]. rewrite (proj2 (path_eqb_eq (key e) (key a))); [|apply path_eqb_eq in E; congruence].
           cbn [orb negb]. exact IHa.
        -- cbn [negb filter]. rewrite (proj2 (path_eqb_neq (key e) (key a))); [|apply path_eqb_neq in E; congruence].
           cbn [orb]. destruct (negb (has_key (key a) (filter (fun e0 => negb (is_landmark (key e0))) t))); [f_equal|]; exact IHa.
      * cbn [filter]. fold (nl t). rewrite (has_key_nl _ _ El). destruct (has_key (key e) t); reflexivity.
Qed.

Lemma import_is_spec : forall t, import t = import_spec t.
Proof. intro t. unfold import. rewrite import_from_spec. reflexivity. Qed.
