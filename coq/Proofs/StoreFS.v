(* Proofs about Model/StoreFS.v: the FUSE handlers of store/fs.go refine the LayerManager model. *)
From Coq Require Import List Arith ZArith Bool Lia.
From SV Require Import Model.Store Proofs.Store Model.StoreFS.
Import ListNotations.

(* ---------- the walk does not touch the manager ---------- *)
Lemma ensure_r_mgr : forall f r, mgr (ensure_r f r) = mgr f.
Proof. intros. unfold ensure_r. destruct (mem r (rnodes f)); reflexivity. Qed.

Lemma ensure_l_mgr : forall f r t, mgr (ensure_l f r t) = mgr f.
Proof.
  intros. unfold ensure_l. destruct (has_l (ensure_r f r) r t); cbn [mgr]; apply ensure_r_mgr.
Qed.

Lemma ensure_r_fnodes : forall f r, fnodes (ensure_r f r) = fnodes f.
Proof. intros. unfold ensure_r. destruct (mem r (rnodes f)); reflexivity. Qed.

Lemma ensure_l_fnodes : forall f r t, fnodes (ensure_l f r t) = fnodes f.
Proof.
  intros. unfold ensure_l. destruct (has_l (ensure_r f r) r t); cbn [fnodes]; apply ensure_r_fnodes.
Qed.

Lemma sweep_mgr : forall v f r, mgr (sweep v f r) = mgr f.
Proof. intros. destruct v; reflexivity. Qed.

Lemma rm_dir_mgr : forall f r t, mgr (rm_dir f r t) = mgr f.
Proof. reflexivity. Qed.

(* ---------- (a) every handler step is the manager steps it names, with the errno determined by their result ---------- *)
Definition mgr_result (w : world) (f : fstate) (o : fop) : option res :=
  match mgr_ops f o with
  | m :: _ => Some (snd (step Fixed w (mgr f) m))
  | [] => None
  end.

Lemma fstep_mgr : forall v w f o,
  mgr (fst (fstep v w f o)) = exec Fixed w (mgr f) (mgr_ops f o).
Proof.
  intros v w f o. destruct o as [r t k mf fl|r t|r t|r t| |r rm| |r l]; cbn [fstep mgr_ops].
  - destruct k; cbn [kcode].
    + destruct (has_f (ensure_l f r t) r t 0); cbn [fst exec fold_left]; [apply ensure_l_mgr|].
      rewrite ensure_l_mgr. cbn [step].
      destruct (get_layer w (mgr f) r t mf fl) as [s' x]. destruct x; reflexivity.
    + destruct (has_f (ensure_l f r t) r t 1); cbn [fst exec fold_left]; [apply ensure_l_mgr|].
      rewrite ensure_l_mgr. cbn [step].
      destruct (get_layer w (mgr f) r t mf fl) as [s' x]. destruct x; reflexivity.
    + destruct (has_f (ensure_l f r t) r t 2); cbn [fst exec fold_left]; [apply ensure_l_mgr|].
      rewrite ensure_l_mgr. cbn [step].
      destruct (get_info w (mgr f) r t mf) as [s' x]. destruct x; reflexivity.
    + cbn [fst exec fold_left]. apply ensure_l_mgr.
    + cbn [fst exec fold_left]. apply ensure_l_mgr.
  - cbn [fst exec fold_left set_mgr mgr step]. rewrite ensure_l_mgr. reflexivity.
  - cbn [fst exec fold_left]. apply ensure_l_mgr.
  - rewrite ensure_l_mgr. cbn [exec fold_left step release].
    destruct (release_fixed (mgr f) r t) as [s' x].
    destruct x; cbn [fst]; try (rewrite sweep_mgr; reflexivity).
    destruct (Z.eqb c 0); [rewrite rm_dir_mgr|]; rewrite sweep_mgr; reflexivity.
  - reflexivity.
  - cbn [fst exec fold_left]. apply ensure_r_mgr.
  - reflexivity.
  - reflexivity.
Qed.

Lemma fstep_errno : forall v w f o,
  snd (fstep v w f o) = errno_of f o (mgr_result w f o).
Proof.
  intros v w f o. unfold mgr_result.
  destruct o as [r t k mf fl|r t|r t|r t| |r rm| |r l]; cbn [fstep mgr_ops errno_of]; try reflexivity.
  - destruct k; cbn [kcode]; try reflexivity.
    + destruct (has_f (ensure_l f r t) r t 0); [reflexivity|].
      rewrite ensure_l_mgr. cbn [step].
      destruct (get_layer w (mgr f) r t mf fl) as [s' x]. destruct x; reflexivity.
    + destruct (has_f (ensure_l f r t) r t 1); [reflexivity|].
      rewrite ensure_l_mgr. cbn [step].
      destruct (get_layer w (mgr f) r t mf fl) as [s' x]. destruct x; reflexivity.
    + destruct (has_f (ensure_l f r t) r t 2); [reflexivity|].
      rewrite ensure_l_mgr. cbn [step].
      destruct (get_info w (mgr f) r t mf) as [s' x]. destruct x; reflexivity.
  - rewrite ensure_l_mgr. cbn [step release].
    destruct (release_fixed (mgr f) r t) as [s' x]. destruct x; reflexivity.
Qed.

Lemma fexec_mgr : forall v w os f,
  mgr (fexec v w f os) = exec Fixed w (mgr f) (ftrace v w f os).
Proof.
  intros v w. induction os as [|o os IH]; intros f; [reflexivity|].
  cbn [fexec fold_left ftrace]. change (fold_left (fun f o => fst (fstep v w f o)) os (fst (fstep v w f o)))
    with (fexec v w (fst (fstep v w f o)) os).
  rewrite IH, exec_app, fstep_mgr. reflexivity.
Qed.

Lemma freach_inv : forall v w os, inv w (mgr (fexec v w finit os)).
Proof. intros. rewrite fexec_mgr. apply reach_inv. Qed.

(* ---------- the tree invariant: a diff/blob node is backed by a layer the manager holds (with C16-fix-3) ---------- *)
Definition backed (f : fstate) : Prop :=
  forall r t k p, In (r, t, k, p) (fnodes f) -> k < 2 -> cached (mgr f) r t = true.

Lemma has_f_in : forall f r t k, has_f f r t k = true <-> exists p, In (r, t, k, p) (fnodes f).
Proof.
  intros. unfold has_f. rewrite existsb_exists. split.
  - intros [[[[a b] c] p] [H1 H2]]. unfold fkey in H2. cbn [fst snd] in H2.
    apply andb_true_iff in H2. destruct H2 as [K E]. apply key2_true in K. destruct K; subst.
    apply Nat.eqb_eq in E. subst. eauto.
  - intros [p H]. exists (r, t, k, p). split; auto. unfold fkey. cbn [fst snd].
    rewrite key2_refl, Nat.eqb_refl. reflexivity.
Qed.

Lemma get_layer_ok_cached : forall w s r t mf fl,
  snd (get_layer w s r t mf fl) = ROk -> cached (fst (get_layer w s r t mf fl)) r t = true.
Proof.
  intros w s r t mf fl. unfold get_layer.
  destruct (cached s r t) eqn:C; cbn [fst snd]; auto.
  destruct (loadref w s r mf); cbn [fst snd]; [|discriminate].
  destruct (cached (resolve_all w s0 r fl) r t); [auto|discriminate].
Qed.

(* a manager step other than a release keeps every cached layer *)
Lemma step_cached_mono : forall w s o r t,
  (forall r0 t0, o <> Release r0 t0) -> cached s r t = true -> cached (fst (step Fixed w s o)) r t = true.
Proof.
  intros w s o r t N C. apply step_keeps_cached; auto.
Qed.

Lemma backed_mgr_mono : forall f f',
  fnodes f' = fnodes f -> (forall r t, cached (mgr f) r t = true -> cached (mgr f') r t = true) ->
  backed f -> backed f'.
Proof.
  intros f f' Hn Hc B r t k p Hin Hk. rewrite Hn in Hin. apply Hc. eapply B; eauto.
Qed.

Lemma fstep_backed : forall w f o, backed f -> backed (fst (fstep FSweep w f o)).
Proof.
  intros w f o B. destruct o as [r t k mf fl|r t|r t|r t| |r rm| |r l]; cbn [fstep].
  - assert (B1 : backed (ensure_l f r t)).
    { eapply backed_mgr_mono; [apply ensure_l_fnodes| |exact B]. intros. rewrite ensure_l_mgr. auto. }
    set (f1 := ensure_l f r t) in *.
    assert (MONO_L : forall r0 t0, cached (mgr f1) r0 t0 = true ->
                       cached (fst (get_layer w (mgr f1) r t mf fl)) r0 t0 = true).
    { intros. apply (step_cached_mono w (mgr f1) (Lookup r t mf fl)); auto. discriminate. }
    assert (MONO_I : forall r0 t0, cached (mgr f1) r0 t0 = true ->
                       cached (fst (get_info w (mgr f1) r t mf)) r0 t0 = true).
    { intros. apply (step_cached_mono w (mgr f1) (Info r t mf)); auto. discriminate. }
    destruct k; cbn [kcode]; auto.
    + destruct (has_f f1 r t 0); auto.
      pose proof (get_layer_ok_cached w (mgr f1) r t mf fl) as OK.
      destruct (get_layer w (mgr f1) r t mf fl) as [s' x]. cbn [fst snd] in *.
      destruct x; cbn [fst]; try (apply (backed_mgr_mono f1); [reflexivity|exact MONO_L|exact B1]).
      intros r0 t0 k0 p0 [H|H] Hk; cbn [mgr add_f].
      * inversion H; subst. auto.
      * apply MONO_L. eapply B1; eauto.
    + destruct (has_f f1 r t 1); auto.
      pose proof (get_layer_ok_cached w (mgr f1) r t mf fl) as OK.
      destruct (get_layer w (mgr f1) r t mf fl) as [s' x]. cbn [fst snd] in *.
      destruct x; cbn [fst]; try (apply (backed_mgr_mono f1); [reflexivity|exact MONO_L|exact B1]).
      intros r0 t0 k0 p0 [H|H] Hk; cbn [mgr add_f].
      * inversion H; subst. auto.
      * apply MONO_L. eapply B1; eauto.
    + destruct (has_f f1 r t 2); auto.
      destruct (get_info w (mgr f1) r t mf) as [s' x]. cbn [fst snd] in *.
      destruct x; cbn [fst]; try (apply (backed_mgr_mono f1); [reflexivity|exact MONO_I|exact B1]).
      * intros r0 t0 k0 p0 [H|H] Hk; cbn [mgr add_f].
        -- inversion H; subst. lia.
        -- apply MONO_I. eapply B1; eauto.
      * intros r0 t0 k0 p0 [H|H] Hk; cbn [mgr add_f].
        -- inversion H; subst. lia.
        -- apply MONO_I. eapply B1; eauto.
  - cbn [fst]. apply (backed_mgr_mono f); [cbn [set_mgr fnodes]; apply ensure_l_fnodes| |exact B].
    intros r0 t0 C. cbn [set_mgr mgr]. rewrite ensure_l_mgr.
    apply (step_cached_mono w (mgr f) (Use r t)); auto. discriminate.
  - cbn [fst]. eapply backed_mgr_mono; [apply ensure_l_fnodes| |exact B]. intros. rewrite ensure_l_mgr. auto.
  - (* Rmdir: the sweep re-establishes the invariant for the ref, other refs keep their layers *)
    set (f1 := ensure_l f r t).
    assert (F1 : fnodes f1 = fnodes f) by apply ensure_l_fnodes.
    assert (M1 : mgr f1 = mgr f) by apply ensure_l_mgr.
    cbn [release].
    destruct (release_fixed_shape (mgr f1) r t) as (_ & KEEP & _).
    destruct (release_fixed (mgr f1) r t) as [s' x] eqn:R. cbn [fst] in KEEP.
    assert (SW : backed (sweep FSweep (set_mgr f1 s') r)).
    { intros r0 t0 k0 p0 Hin Hk. cbn [sweep fnodes mgr set_mgr] in *.
      apply filter_In in Hin. destruct Hin as [Hin Hh]. unfold held in Hh. cbn [fst snd mgr set_mgr] in Hh.
      destruct (Nat.eqb r0 r) eqn:E; cbn [negb orb] in Hh; auto.
      rewrite F1 in Hin. pose proof (B _ _ _ _ Hin Hk) as C. rewrite <- M1 in C.
      apply cached_iff in C. destruct C as [l Hl]. apply cached_iff. exists l. apply KEEP; auto.
      cbn [fst]. apply Nat.eqb_neq. auto. }
    assert (RM : forall g, backed g -> backed (rm_dir g r t)).
    { intros g Bg r0 t0 k0 p0 Hin Hk. cbn [rm_dir fnodes mgr] in *. apply filter_In in Hin. destruct Hin as [Hin _]. eauto. }
    destruct x; cbn [fst]; auto. destruct (Z.eqb c 0); auto.
  - exact B.
  - cbn [fst]. eapply backed_mgr_mono; [apply ensure_r_fnodes| |exact B]. intros. rewrite ensure_r_mgr. auto.
  - exact B.
  - cbn [fst]. apply (backed_mgr_mono f); [reflexivity| |exact B]. intros r0 t0 C. cbn [set_mgr mgr].
    apply (step_cached_mono w (mgr f) (Expire r l)); auto. discriminate.
Qed.

Lemma fexec_backed : forall w os f, backed f -> backed (fexec FSweep w f os).
Proof.
  intros w. induction os as [|o os IH]; intros f B; [exact B|].
  cbn [fexec fold_left]. apply IH. apply fstep_backed. exact B.
Qed.

Lemma freach_backed : forall w os, backed (fexec FSweep w finit os).
Proof. intros. apply fexec_backed. intros r t k p []. Qed.

(* ---------- clauses of the property at the handler level ---------- *)
Definition is_layer_kind (k : fkind) : Prop := k = KDiff \/ k = KBlob.

Lemma fs_lookup_other_digest_fails : forall w os r t k mf fl,
  is_layer_kind k -> ~ image_has_toc w r t ->
  snd (fstep FSweep w (fexec FSweep w finit os) (FLookup r t k mf fl)) = EIO.
Proof.
  intros w os r t k mf fl K N.
  set (f := fexec FSweep w finit os).
  assert (I : inv w (mgr f)) by apply freach_inv.
  assert (B : backed f) by apply freach_backed.
  assert (NOF : forall kc, kc < 2 -> has_f (ensure_l f r t) r t kc = false).
  { intros kc Hk. destruct (has_f (ensure_l f r t) r t kc) eqn:H; auto. exfalso. apply N.
    apply has_f_in in H. destruct H as [p Hp]. rewrite ensure_l_fnodes in Hp.
    eapply cached_in_image; [exact I|]. eapply B; eauto. }
  pose proof (lookup_other_digest_fails w (mgr f) r t mf fl I N) as FAIL.
  cbn [fstep]. destruct K as [-> | ->]; cbn [kcode].
  - rewrite NOF by lia. rewrite ensure_l_mgr.
    destruct (get_layer w (mgr f) r t mf fl) as [s' x]. cbn [snd] in FAIL. subst x. reflexivity.
  - rewrite NOF by lia. rewrite ensure_l_mgr.
    destruct (get_layer w (mgr f) r t mf fl) as [s' x]. cbn [snd] in FAIL. subst x. reflexivity.
Qed.

Lemma fs_lookup_succeeds : forall w os r t l k mf fl,
  is_layer_kind k ->
  let f := fexec FSweep w finit os in
  In l (image w r) -> toc_of w l = Some t ->
  manifest_available (mgr f) r mf -> mem l fl = false ->
  memo_find (memo (mgr f)) r l <> Some false ->
  snd (fstep FSweep w f (FLookup r t k mf fl)) = EOK.
Proof.
  intros w os r t l k mf fl K f Hl T MA Hf M.
  pose proof (lookup_succeeds w (mgr f) r t l mf fl (freach_inv _ w os) Hl T MA Hf M) as OK.
  cbn [fstep]. destruct K as [-> | ->]; cbn [kcode].
  - destruct (has_f (ensure_l f r t) r t 0); [reflexivity|]. rewrite ensure_l_mgr.
    destruct (get_layer w (mgr f) r t mf fl) as [s' x]. cbn [snd] in OK. subst x. reflexivity.
  - destruct (has_f (ensure_l f r t) r t 1); [reflexivity|]. rewrite ensure_l_mgr.
    destruct (get_layer w (mgr f) r t mf fl) as [s' x]. cbn [snd] in OK. subst x. reflexivity.
Qed.

(* the rmdir that releases the last use of an image leaves no directory of that image in the tree, so the next
   lookup of any of its layers goes to the manager again (and succeeds when the registry answers) *)
Lemma has_l_false : forall f r t, (forall e, In e (lnodes f) -> fst e = r -> False) -> has_l f r t = false.
Proof.
  intros f r t H. unfold has_l. apply existsb_false_forall. intros [a b] Hin. cbn [fst snd].
  destruct (key2 r t a b) eqn:K; auto. apply key2_true in K. destruct K; subst. exfalso. eapply H; eauto.
Qed.

Lemma has_f_false : forall f r t k,
  (forall e, In e (fnodes f) -> fst (fst (fst e)) = r -> False) -> has_f f r t k = false.
Proof.
  intros f r t k H. unfold has_f. apply existsb_false_forall. intros [[[a b] c] p] Hin. unfold fkey. cbn [fst snd].
  destruct (key2 r t a b) eqn:K; auto. apply key2_true in K. destruct K; subst. exfalso. eapply H; eauto.
Qed.

Lemma no_layers_not_cached : forall s r t, has_ref_layers s r = false -> cached s r t = false.
Proof.
  intros s r t H. apply cached_false. intros l Hin.
  assert (has_ref_layers s r = true).
  { unfold has_ref_layers. apply existsb_exists. exists (r, t, l). split; auto. cbn [fst]. apply Nat.eqb_refl. }
  congruence.
Qed.

(* after Rmdir on ref r every directory of r left in the tree has its layer held by the manager *)
Lemma rmdir_swept : forall w f r t,
  let f' := fst (fstep FSweep w f (FRmdir r t)) in
  (forall e, In e (lnodes f') -> fst e = r -> cached (mgr f') r (snd e) = true)
  /\ (forall e, In e (fnodes f') -> fst (fst (fst e)) = r -> cached (mgr f') r (snd (fst (fst e))) = true).
Proof.
  intros w f r t. cbv zeta. cbn [fstep release].
  destruct (release_fixed (mgr (ensure_l f r t)) r t) as [s' x].
  set (f2 := set_mgr (ensure_l f r t) s').
  assert (SW : (forall e, In e (lnodes (sweep FSweep f2 r)) -> fst e = r -> cached (mgr f2) r (snd e) = true)
            /\ (forall e, In e (fnodes (sweep FSweep f2 r)) -> fst (fst (fst e)) = r -> cached (mgr f2) r (snd (fst (fst e))) = true)).
  { split; intros e Hin He; cbn [sweep lnodes fnodes] in Hin; apply filter_In in Hin; destruct Hin as [_ Hh];
      unfold held in Hh; rewrite He in Hh; rewrite Nat.eqb_refl in Hh; cbn [negb orb] in Hh; exact Hh. }
  destruct SW as [SL SF].
  destruct x; cbn [fst]; try (split; [exact SL|exact SF]).
  destruct (Z.eqb c 0); [|split; [exact SL|exact SF]].
  split; intros e Hin He; cbn [rm_dir lnodes fnodes mgr] in *; apply filter_In in Hin; destruct Hin as [Hin _]; auto.
Qed.

Lemma fexec_snoc : forall v w f os o, fexec v w f (os ++ [o]) = fst (fstep v w (fexec v w f os) o).
Proof. intros. unfold fexec. rewrite fold_left_app. reflexivity. Qed.

Lemma fs_last_rmdir_resets : forall w os r t c,
  let f := fexec FSweep w finit os in
  count_find (counts (mgr f)) r t = Some c ->
  let f' := fst (fstep FSweep w f (FRmdir r t)) in
  has_ref_counts (mgr f') r = false ->
  has_ref_layers (mgr f') r = false /\ has_ref_memo (mgr f') r = false
  /\ (forall t', has_l f' r t' = false)
  /\ (forall t' k, has_f f' r t' k = false)
  /\ forall t2 l k mf fl, is_layer_kind k -> In l (image w r) -> toc_of w l = Some t2 ->
       manifest_available (mgr f') r mf -> mem l fl = false ->
       mgr_ops f' (FLookup r t2 k mf fl) = [Lookup r t2 mf fl]
       /\ snd (fstep FSweep w f' (FLookup r t2 k mf fl)) = EOK.
Proof.
  intros w os r t c f F f' H.
  assert (MG : mgr f' = fst (release_fixed (mgr f) r t)).
  { unfold f'. rewrite fstep_mgr. cbn [mgr_ops exec fold_left step release]. reflexivity. }
  rewrite MG in H.
  destruct (last_release_resets (mgr f) r t c F H) as [HL HM]. rewrite <- MG in HL, HM.
  destruct (rmdir_swept w f r t) as [SL SF]. fold f' in SL, SF.
  assert (NL : forall e, In e (lnodes f') -> fst e = r -> False).
  { intros e Hin He. pose proof (SL e Hin He) as C. rewrite (no_layers_not_cached _ _ _ HL) in C. discriminate. }
  assert (NF : forall e, In e (fnodes f') -> fst (fst (fst e)) = r -> False).
  { intros e Hin He. pose proof (SF e Hin He) as C. rewrite (no_layers_not_cached _ _ _ HL) in C. discriminate. }
  split; [exact HL|]. split; [exact HM|].
  split; [intros t'; apply has_l_false; exact NL|].
  split; [intros t' k; apply has_f_false; exact NF|].
  intros t2 l k mf fl K Hl T MA Hf.
  assert (NOF : forall kc, has_f (ensure_l f' r t2) r t2 kc = false).
  { intros kc. apply has_f_false. rewrite ensure_l_fnodes. exact NF. }
  split.
  - cbn [mgr_ops]. destruct K as [-> | ->]; cbn [kcode]; rewrite NOF; reflexivity.
  - assert (E : f' = fexec FSweep w finit (os ++ [FRmdir r t])) by (rewrite fexec_snoc; reflexivity).
    pose proof (fs_lookup_succeeds w (os ++ [FRmdir r t]) r t2 l k mf fl K Hl T) as LS. cbv zeta in LS.
    rewrite <- E in LS. apply LS; auto.
    unfold has_ref_memo in HM. rewrite (memo_find_none_ref _ _ _ HM). congruence.
Qed.

(* the manager-level safety clauses hold in every state the handlers can reach *)
Lemma fs_counts_positive : forall v w os r t c, In (r, t, c) (counts (mgr (fexec v w finit os))) -> (1 <= c)%Z.
Proof. intros v w os r t c H. rewrite fexec_mgr in H. eapply counts_positive; eauto. Qed.

Lemma fs_uses_nonneg : forall v w os r t, (0 <= uses (mgr (fexec v w finit os)) r t)%Z.
Proof. intros. rewrite fexec_mgr. apply uses_nonneg. Qed.

Lemma exec_keeps_used1 : forall w s ms r t, length ms <= 1 ->
  cached s r t = true -> (0 < uses (exec Fixed w s ms) r t)%Z -> cached (exec Fixed w s ms) r t = true.
Proof.
  intros w s ms r t L C U. destruct ms as [|m [|m2 ms]]; cbn [exec fold_left] in *; auto.
  - apply step_keeps_used; auto.
  - cbn [length] in L. lia.
Qed.

Lemma mgr_ops_short : forall f o, length (mgr_ops f o) <= 1.
Proof.
  intros f o. destruct o as [r t k mf fl|r t|r t|r t| |r rm| |r l]; cbn [mgr_ops length]; auto.
  destruct k; cbn [length]; auto;
    match goal with |- context [if ?c then _ else _] => destruct c end; cbn [length]; auto.
Qed.

Lemma fs_keeps_used : forall v w os o r t,
  let f := fexec v w finit os in
  cached (mgr f) r t = true ->
  (0 < uses (mgr (fst (fstep v w f o))) r t)%Z ->
  cached (mgr (fst (fstep v w f o))) r t = true.
Proof.
  intros v w os o r t f C U. rewrite fstep_mgr in *.
  apply exec_keeps_used1; auto. apply mgr_ops_short.
Qed.
