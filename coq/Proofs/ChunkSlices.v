(* The per-file slices of Model.TreeStores (file_mem_ents / file_db_stored), for which the chunk theorems are proved,
   are what the two interpreters really compute for a file inside an ARBITRARY TOC (any tree shape around it). *)
From Coq Require Import List ZArith Bool Lia Arith.
From SV Require Import Model.TreeStores Proofs.TreeStores Proofs.TreeAgree.
Import ListNotations.
Open Scope Z_scope.

Definition is_chunk (e : entry) : bool := etype_eqb (e_type e) TChunk.

(* ---------- memory store: r.chunks[name] after initFields' first pass ---------- *)

Lemma chunks_of_cons : forall nm q l cm, chunks_of nm ((q, l) :: cm) = if path_eqb nm q then l else chunks_of nm cm.
Proof. intros nm q l cm. unfold chunks_of. simpl. destruct (path_eqb nm q); reflexivity. Qed.

(* an entry that neither has the name nor (as a chunk) follows it leaves the table of that name alone *)
Lemma pass1_step_other : forall s e nm,
  (if is_chunk e then p1_lastpath s <> nm else clean (e_name e) <> nm) ->
  chunks_of nm (p1_chunks (pass1_step s e)) = chunks_of nm (p1_chunks s) /\ p1_lastpath (pass1_step s e) <> nm.
Proof.
  intros s e nm H. unfold pass1_step, is_chunk in *. destruct (etype_eqb (e_type e) TChunk).
  - cbn [p1_chunks p1_lastpath]. rewrite chunks_of_cons. rewrite path_eqb_neq by (intro E; apply H; symmetry; exact E). auto.
  - cbn [p1_chunks p1_lastpath]. split; [|exact H].
    destruct (etype_eqb (e_type e) TReg && (e_chsize e >? 0) && (e_chsize e <? e_size e)); [|reflexivity].
    rewrite chunks_of_cons. rewrite path_eqb_neq by (intro E; apply H; symmetry; exact E). reflexivity.
Qed.

Lemma pass1_fold_other : forall l s nm, p1_lastpath s <> nm ->
  Forall (fun e => is_chunk e = false -> clean (e_name e) <> nm) l ->
  chunks_of nm (p1_chunks (fold_left pass1_step l s)) = chunks_of nm (p1_chunks s)
  /\ p1_lastpath (fold_left pass1_step l s) <> nm.
Proof.
  induction l as [|e t IH]; intros s nm Hl Hf; cbn [fold_left]; [auto|].
  inversion Hf as [|? ? He Ht]; subst.
  destruct (pass1_step_other s e nm) as [H1 H2].
  { destruct (is_chunk e) eqn:E; [exact Hl|exact (He eq_refl)]. }
  destruct (IH (pass1_step s e) nm H2 Ht) as [H3 H4]. split; [rewrite H3; exact H1|exact H4].
Qed.

(* the chunk entries of the file append to its table *)
Lemma pass1_fold_chunks : forall cs s nm sz, Forall (fun c => is_chunk c = true) cs ->
  p1_lastpath s = nm -> p1_lastreg s = Some sz ->
  let s' := fold_left pass1_step cs s in
  chunks_of nm (p1_chunks s') = chunks_of nm (p1_chunks s) ++ map (fun c => mem_chunk c (Some sz)) cs
  /\ p1_lastpath s' = nm /\ p1_lastreg s' = Some sz.
Proof.
  induction cs as [|c t IH]; intros s nm sz Hc Hl Hr; cbn [fold_left].
  - simpl. rewrite app_nil_r. auto.
  - inversion Hc as [|? ? Hcc Hct]; subst. unfold is_chunk in Hcc.
    assert (Hnr : etype_eqb (e_type c) TReg = false) by (destruct (e_type c); simpl in *; congruence).
    assert (Hstep : pass1_step s c = P1 (p1_nodes s ++ [MN c 0 []]) (p1_m s)
              ((p1_lastpath s, chunks_of (p1_lastpath s) (p1_chunks s) ++ [mem_chunk c (Some sz)]) :: p1_chunks s)
              (p1_lastpath s) (Some sz)).
    { unfold pass1_step. rewrite Hcc, Hnr, Hr. reflexivity. }
    rewrite Hstep.
    match goal with |- context [fold_left pass1_step t ?s1] => destruct (IH s1 (p1_lastpath s) sz Hct eq_refl eq_refl) as [I1 [I2 I3]] end.
    cbv zeta. rewrite I1. cbn [p1_chunks]. rewrite chunks_of_cons, path_eqb_refl. rewrite <- app_assoc. auto.
Qed.

Lemma slice_mem : forall pre r cs post,
  e_type r = TReg -> clean (e_name r) <> [] ->
  Forall (fun c => is_chunk c = true) cs ->
  match post with e :: _ => is_chunk e = false | [] => True end ->
  Forall (fun e => is_chunk e = false -> clean (e_name e) <> clean (e_name r)) (pre ++ post) ->
  chunks_of (clean (e_name r)) (p1_chunks (pass1 (pre ++ r :: cs ++ post))) = file_mem_ents r cs.
Proof.
  intros pre r cs post Hr Hne Hcs Hpost Hnames. set (nm := clean (e_name r)) in *.
  apply Forall_app in Hnames. destruct Hnames as [Hpre Hpo].
  unfold pass1. rewrite fold_left_app. cbn [fold_left]. rewrite fold_left_app.
  set (s0 := fold_left pass1_step pre (P1 [] [] [] [] None)).
  destruct (pass1_fold_other pre (P1 [] [] [] [] None) nm) as [H0 L0]; [simpl; intro E; apply Hne; symmetry; exact E|exact Hpre|].
  fold s0 in H0, L0. cbn [p1_chunks] in H0. unfold chunks_of in H0 at 2. simpl in H0.
  (* the reg entry *)
  assert (Hrc : etype_eqb (e_type r) TChunk = false) by (rewrite Hr; reflexivity).
  assert (Hrr : etype_eqb (e_type r) TReg = true) by (rewrite Hr; reflexivity).
  set (s1 := pass1_step s0 r).
  assert (H1 : chunks_of nm (p1_chunks s1) = (if (e_chsize r >? 0) && (e_chsize r <? e_size r) then [mem_chunk r None] else [])
               /\ p1_lastpath s1 = nm /\ p1_lastreg s1 = Some (e_size r)).
  { unfold s1, pass1_step. rewrite Hrc, Hrr. cbn [p1_chunks p1_lastpath p1_lastreg andb]. fold nm.
    split; [|auto]. destruct ((e_chsize r >? 0) && (e_chsize r <? e_size r)).
    - rewrite chunks_of_cons, path_eqb_refl. rewrite (mem_chunk_reg r (Some (e_size r)) Hr). reflexivity.
    - exact H0. }
  destruct H1 as [H1 [L1 R1]].
  destruct (pass1_fold_chunks cs s1 nm (e_size r) Hcs L1 R1) as [H2 [L2 R2]].
  set (s2 := fold_left pass1_step cs s1) in *.
  (* the rest of the TOC *)
  assert (H3 : chunks_of nm (p1_chunks (fold_left pass1_step post s2)) = chunks_of nm (p1_chunks s2)).
  { destruct post as [|e t]; [reflexivity|]. cbn [fold_left]. inversion Hpo as [|? ? He Ht]; subst.
    destruct (pass1_step_other s2 e nm) as [A B]; [rewrite Hpost; exact (He Hpost)|].
    destruct (pass1_fold_other t (pass1_step s2 e) nm B Ht) as [C _]. rewrite C. exact A. }
  rewrite H3, H2, H1. reflexivity.
Qed.

(* ---------- db store: md[id].chunks after initNodes ---------- *)

Definition chunks_at (s : dst) (z : nat) : list chunk :=
  match nth_error (ds_nodes s) z with Some n => dn_chunks n | None => [] end.
Definition dlen (s : dst) : nat := length (ds_nodes s).

Lemma chunks_at_upd : forall s z0 n n' z, nth_error (ds_nodes s) z0 = Some n -> dn_chunks n' = dn_chunks n ->
  chunks_at (d_set_nodes s (upd (ds_nodes s) z0 n')) z = chunks_at s z.
Proof.
  intros s z0 n n' z H Hc. unfold chunks_at. rewrite nth_set_nodes. destruct (Nat.eq_dec z0 z) as [->|Hne].
  - rewrite nth_upd_same by (apply nth_error_Some; congruence). rewrite H. exact Hc.
  - rewrite nth_upd_other by exact Hne. reflexivity.
Qed.

Lemma d_upd_bucket_frame : forall s i g z, chunks_at (d_upd_bucket s i g) z = chunks_at s z /\ dlen (d_upd_bucket s i g) = dlen s.
Proof.
  intros s i g z. unfold d_upd_bucket. destruct (nth_error (ds_nodes s) i) as [n|] eqn:E; [|auto].
  split; [apply (chunks_at_upd s i n); [exact E|reflexivity]|]. unfold dlen, d_set_nodes. cbn [ds_nodes]. apply upd_length.
Qed.

Lemma d_set_child_frame : forall s pid b id isdir z,
  chunks_at (d_set_child s pid b id isdir) z = chunks_at s z /\ dlen (d_set_child s pid b id isdir) = dlen s.
Proof.
  intros s pid b id isdir z. unfold d_set_child.
  set (s1 := match nth_error (ds_nodes s) pid with
             | Some n => d_set_nodes s (upd (ds_nodes s) pid (DN (dn_b n) (ins b id (dn_ch n)) (dn_chunks n)))
             | None => s end).
  assert (H1 : chunks_at s1 z = chunks_at s z /\ dlen s1 = dlen s).
  { unfold s1. destruct (nth_error (ds_nodes s) pid) as [n|] eqn:E; [|auto].
    split; [apply (chunks_at_upd s pid n); [exact E|reflexivity]|]. unfold dlen, d_set_nodes. cbn [ds_nodes]. apply upd_length. }
  destruct isdir; [|exact H1]. destruct (d_upd_bucket_frame s1 pid bump_nlink z) as [A B].
  destruct H1 as [C D]. split; congruence.
Qed.

Lemma d_new_frame : forall s a z, (z < dlen s)%nat -> chunks_at (fst (d_new s a)) z = chunks_at s z.
Proof. intros s a z H. unfold chunks_at, d_new. simpl. rewrite nth_error_app1 by exact H. reflexivity. Qed.

Lemma d_new_len : forall s a, dlen (fst (d_new s a)) = S (dlen s) /\ snd (d_new s a) = dlen s
  /\ chunks_at (fst (d_new s a)) (dlen s) = [].
Proof.
  intros s a. unfold dlen, d_new, chunks_at. simpl. rewrite app_length. simpl. split; [lia|]. split; [reflexivity|].
  rewrite nth_error_app2 by lia. rewrite Nat.sub_diag. reflexivity.
Qed.

Lemma d_goc_frame : forall d s, (dlen s <= dlen (fst (d_goc s d)))%nat /\
  (forall z, (z < dlen s)%nat -> chunks_at (fst (d_goc s d)) z = chunks_at s z).
Proof.
  induction d as [|b t IH]; intros s.
  - simpl. destruct (d_find s []); simpl; auto. 
  - cbn [d_goc]. destruct (d_find s (b :: t)) as [i|]; [simpl; auto|].
    rewrite (surjective_pairing (d_new s root_attr)).
    destruct (d_new_len s root_attr) as [L1 [L2 _]].
    set (s1 := fst (d_new s root_attr)) in *.
    destruct (IH s1) as [I1 I2]. rewrite (surjective_pairing (d_goc s1 t)). cbn [fst].
    set (s2 := fst (d_goc s1 t)) in *.
    split.
    + destruct (d_set_child_frame s2 (snd (d_goc s1 t)) b (snd (d_new s root_attr)) true 0%nat) as [_ L]. rewrite L. lia.
    + intros z Hz. destruct (d_set_child_frame s2 (snd (d_goc s1 t)) b (snd (d_new s root_attr)) true z) as [C _].
      rewrite C, I2 by lia. apply d_new_frame. exact Hz.
Qed.

Lemma d_add_chunk_frame : forall s e cs z,
  chunks_at (d_add_chunk s e cs) z =
    (if (etype_eqb (e_type e) TReg && (e_size e >? 0)) || (etype_eqb (e_type e) TChunk && (cs >? 0))
     then match ds_last s with
          | Some i => if Nat.eqb z i && Nat.ltb i (dlen s) then chunks_at s z ++ [CH (e_choff e) cs (mem_dg e) (e_off e)] else chunks_at s z
          | None => chunks_at s z end
     else chunks_at s z)
  /\ dlen (d_add_chunk s e cs) = dlen s /\ ds_last (d_add_chunk s e cs) = ds_last s /\ ds_lastsize (d_add_chunk s e cs) = ds_lastsize s.
Proof.
  intros s e cs z. unfold d_add_chunk.
  destruct ((etype_eqb (e_type e) TReg && (e_size e >? 0)) || (etype_eqb (e_type e) TChunk && (cs >? 0))); [|auto].
  destruct (ds_last s) as [i|] eqn:El; [|auto].
  destruct (nth_error (ds_nodes s) i) as [n|] eqn:En.
  - assert (Li : (i < dlen s)%nat) by (apply nth_error_Some; unfold dlen; congruence).
    replace (Nat.ltb i (dlen s)) with true by (symmetry; apply Nat.ltb_lt; exact Li). rewrite andb_true_r.
    split.
    + unfold chunks_at at 1. rewrite nth_set_nodes. destruct (Nat.eqb z i) eqn:Ez.
      * apply Nat.eqb_eq in Ez. subst z. rewrite nth_upd_same by exact Li. unfold chunks_at. rewrite En. reflexivity.
      * apply Nat.eqb_neq in Ez. rewrite nth_upd_other by congruence. reflexivity.
    + unfold dlen, d_set_nodes. cbn [ds_nodes ds_last ds_lastsize]. rewrite upd_length. auto.
  - replace (Nat.ltb i (dlen s)) with false by (symmetry; apply Nat.ltb_ge; apply nth_error_None; exact En).
    rewrite andb_false_r. auto.
Qed.

(* a non-chunk entry does not touch the chunk lists of existing nodes; a reg entry starts the list of its new node *)
Lemma db_step_frame : forall s e s', is_chunk e = false -> db_step (Some s) e = Some s' ->
  (dlen s <= dlen s')%nat /\ (forall z, (z < dlen s)%nat -> chunks_at s' z = chunks_at s z) /\
  (e_type e = TReg -> ds_last s' = Some (dlen s) /\ ds_lastsize s' = e_size e /\ (dlen s < dlen s')%nat /\
     chunks_at s' (dlen s) = if e_size e >? 0 then [db_chunk e (e_size e)] else []).
Proof.
  intros s e s' Hc H. unfold is_chunk in Hc. unfold db_step in H. rewrite Hc in H.
  match type of H with (match ?r with Some p => _ | None => None end) = _ => destruct r as [[s1 id]|] eqn:Er; [|discriminate] end.
  (* facts about (s1, id) *)
  assert (F1 : (dlen s <= dlen s1)%nat /\ (forall z, (z < dlen s)%nat -> chunks_at s1 z = chunks_at s z) /\
               (e_type e = TReg -> id = dlen s /\ dlen s1 = S (dlen s) /\ chunks_at s1 (dlen s) = [])).
  { destruct (etype_eqb (e_type e) THardlink) eqn:Eh.
    - destruct (d_find s (clean (e_hl e))) as [t|]; [|discriminate]. inversion Er; subst s1 id.
      split; [destruct (d_upd_bucket_frame s t bump_nlink 0%nat) as [_ L]; rewrite L; lia|].
      split; [intros z _; exact (proj1 (d_upd_bucket_frame s t bump_nlink z))|].
      intro Hr. rewrite Hr in Eh. discriminate.
    - destruct (if etype_eqb (e_type e) TDir then d_find s (clean (e_name e)) else None) as [t|] eqn:Ed.
      + inversion Er; subst s1 id.
        split; [destruct (d_upd_bucket_frame s t (fun _ => write_attr (attr_of e (match nth_error (ds_nodes s) t with Some n => read_numlink (dn_b n) | None => 1 end))) 0%nat) as [_ L]; rewrite L; lia|].
        split; [intros z _; apply d_upd_bucket_frame|].
        intro Hr. rewrite Hr in Ed. discriminate.
      + pose proof (d_new_len s (attr_of e (if etype_eqb (e_type e) TDir then 2 else 1))) as [L1 [L2 L3]].
        pose proof (d_new_frame s (attr_of e (if etype_eqb (e_type e) TDir then 2 else 1))) as Lf.
        inversion Er; subst s1 id.
        split; [exact (Nat.lt_le_incl _ _ (eq_ind_r (fun n => (dlen s < n)%nat) (Nat.lt_succ_diag_r _) L1))|].
        split; [exact Lf|]. intros _. split; [reflexivity|]. split; [exact L1|exact L3]. }
  destruct F1 as [A1 [A2 A3]].
  set (s2 := match clean (e_name e) with
             | [] => s1
             | base :: par => let '(s'0, pid) := d_goc s1 par in d_set_child s'0 pid base id (etype_eqb (e_type e) TDir)
             end) in *.
  assert (F2 : (dlen s1 <= dlen s2)%nat /\ (forall z, (z < dlen s1)%nat -> chunks_at s2 z = chunks_at s1 z)).
  { unfold s2. destruct (clean (e_name e)) as [|base par]; [auto|].
    rewrite (surjective_pairing (d_goc s1 par)). destruct (d_goc_frame par s1) as [G1 G2].
    split.
    - destruct (d_set_child_frame (fst (d_goc s1 par)) (snd (d_goc s1 par)) base id (etype_eqb (e_type e) TDir) 0%nat) as [_ L]. rewrite L. exact G1.
    - intros z Hz. destruct (d_set_child_frame (fst (d_goc s1 par)) (snd (d_goc s1 par)) base id (etype_eqb (e_type e) TDir) z) as [C _].
      rewrite C. apply G2. exact Hz. }
  destruct F2 as [B1 B2].
  inversion H as [H']. clear H.
  set (s3 := DS (ds_nodes s2) (Some id) (e_size e)) in *.
  destruct (d_add_chunk_frame s3 e (db_chsize e (ds_lastsize s)) 0%nat) as [_ [C2 [C3 C4]]].
  assert (Hl3 : dlen s3 = dlen s2) by reflexivity.
  assert (Hc3 : forall z, chunks_at s3 z = chunks_at s2 z) by reflexivity.
  split; [rewrite C2, Hl3; lia|]. split.
  - intros z Hz. destruct (d_add_chunk_frame s3 e (db_chsize e (ds_lastsize s)) z) as [C1 _]. rewrite C1.
    rewrite Hc, andb_false_l, orb_false_r.
    assert (Hsame : chunks_at s3 z = chunks_at s z) by (rewrite Hc3, B2 by lia; apply A2; exact Hz).
    destruct (etype_eqb (e_type e) TReg && (e_size e >? 0)) eqn:Ereg; [|exact Hsame].
    cbn [ds_last s3].
    assert (Hr : e_type e = TReg) by (apply andb_true_iff in Ereg; destruct Ereg as [E _]; destruct (e_type e); simpl in E; congruence).
    destruct (A3 Hr) as [Hid _]. subst id.
    replace (Nat.eqb z (dlen s)) with false by (symmetry; apply Nat.eqb_neq; lia). exact Hsame.
  - intro Hr. destruct (A3 Hr) as [Hid [Hl1 Hn1]]. subst id.
    rewrite C3, C4. cbn [ds_last ds_lastsize s3]. split; [reflexivity|]. split; [reflexivity|]. split; [rewrite C2, Hl3; lia|].
    destruct (d_add_chunk_frame s3 e (db_chsize e (ds_lastsize s)) (dlen s)) as [C1 _]. rewrite C1.
    rewrite Hc, andb_false_l, orb_false_r. rewrite Hr. simpl etype_eqb. rewrite andb_true_l.
    assert (Hat : chunks_at s3 (dlen s) = []) by (rewrite Hc3, B2 by lia; exact Hn1).
    destruct (e_size e >? 0); [|exact Hat]. cbn [ds_last s3]. rewrite Nat.eqb_refl. 
    replace (Nat.ltb (dlen s) (dlen s3)) with true by (symmetry; apply Nat.ltb_lt; rewrite Hl3; lia).
    simpl andb. rewrite Hat. simpl. unfold db_chunk.
    rewrite (db_chsize_reg e (ds_lastsize s) (e_size e)) by (rewrite Hr; reflexivity). reflexivity.
Qed.

Lemma db_fold_none : forall l, fold_left db_step l None = None.
Proof. induction l as [|e t IH]; simpl; [reflexivity|exact IH]. Qed.

(* the chunk entries of the file append to the chunk list of its node *)
Lemma db_fold_chunks : forall cs s id sz, Forall (fun c => is_chunk c = true) cs ->
  ds_last s = Some id -> ds_lastsize s = sz -> (id < dlen s)%nat ->
  exists s', fold_left db_step cs (Some s) = Some s' /\
    chunks_at s' id = chunks_at s id ++ filter (fun c => c_size c >? 0) (map (fun c => db_chunk c sz) cs) /\
    ds_last s' = Some id /\ dlen s' = dlen s.
Proof.
  induction cs as [|c t IH]; intros s id sz Hc Hl Hs Hid; cbn [fold_left].
  - exists s. simpl. rewrite app_nil_r. auto.
  - inversion Hc as [|? ? Hcc Hct]; subst. unfold is_chunk in Hcc.
    assert (Hstep : db_step (Some s) c = Some (d_add_chunk s c (db_chsize c (ds_lastsize s)))) by (unfold db_step; rewrite Hcc, Hl; reflexivity).
    rewrite Hstep. set (s1 := d_add_chunk s c (db_chsize c (ds_lastsize s))).
    destruct (d_add_chunk_frame s c (db_chsize c (ds_lastsize s)) id) as [C1 [C2 [C3 C4]]]. fold s1 in C1, C2, C3, C4.
    destruct (IH s1 id (ds_lastsize s)) as [s' [F [A [B D]]]]; [exact Hct|congruence|exact C4|rewrite C2; exact Hid|].
    exists s'. split; [exact F|]. split; [|split; [exact B|congruence]].
    rewrite A, C1, Hl, Nat.eqb_refl. replace (Nat.ltb id (dlen s)) with true by (symmetry; apply Nat.ltb_lt; exact Hid).
    assert (Hnr : etype_eqb (e_type c) TReg = false) by (destruct (e_type c); simpl in *; congruence).
    rewrite Hnr, Hcc. simpl andb. simpl orb. cbn [map filter]. unfold db_chunk at 2. cbn [c_size].
    destruct (db_chsize c (ds_lastsize s) >? 0); [rewrite <- app_assoc; reflexivity|reflexivity].
Qed.

(* later entries: a chunk entry may only follow a reg entry (possibly through other chunk entries) *)
Fixpoint chunks_follow_regs (after_reg : bool) (l : list entry) : bool :=
  match l with
  | [] => true
  | e :: t => if is_chunk e then after_reg && chunks_follow_regs after_reg t
              else chunks_follow_regs (etype_eqb (e_type e) TReg) t
  end.

Lemma db_fold_post : forall l b s id s', chunks_follow_regs b l = true ->
  (b = true -> ds_last s <> Some id) -> (id < dlen s)%nat ->
  fold_left db_step l (Some s) = Some s' -> chunks_at s' id = chunks_at s id.
Proof.
  induction l as [|e t IH]; intros b s id s' Hok Hb Hid H; cbn [fold_left] in H.
  - inversion H. reflexivity.
  - simpl in Hok. destruct (is_chunk e) eqn:Ec.
    + apply andb_true_iff in Hok. destruct Hok as [Hbt Hok]. subst b. unfold is_chunk in Ec.
      unfold db_step at 2 in H. rewrite Ec in H. destruct (ds_last s) as [i|] eqn:El; [|rewrite db_fold_none in H; discriminate].
      set (s1 := d_add_chunk s e (db_chsize e (ds_lastsize s))) in *.
      destruct (d_add_chunk_frame s e (db_chsize e (ds_lastsize s)) id) as [C1 [C2 [C3 C4]]]. fold s1 in C1, C2, C3, C4.
      rewrite (IH true s1 id s' Hok); [| |rewrite C2; exact Hid|exact H].
      * rewrite C1, El. replace (Nat.eqb id i) with false; [destruct ((etype_eqb (e_type e) TReg && (e_size e >? 0)) || (etype_eqb (e_type e) TChunk && (db_chsize e (ds_lastsize s) >? 0))); reflexivity|].
        symmetry. apply Nat.eqb_neq. intro E. subst i. apply (Hb eq_refl). reflexivity.
      * intros _. rewrite C3, El. intro E. inversion E; subst i. apply (Hb eq_refl). reflexivity.
    + destruct (db_step (Some s) e) as [s1|] eqn:Es; [|rewrite db_fold_none in H; discriminate].
      destruct (db_step_frame s e s1 Ec Es) as [L [F R]].
      rewrite (IH (etype_eqb (e_type e) TReg) s1 id s' Hok); [exact (F id Hid)| |lia|exact H].
      intro Hr. assert (Hr' : e_type e = TReg) by (destruct (e_type e); simpl in Hr; congruence).
      destruct (R Hr') as [Hl _]. rewrite Hl. intro E. inversion E. lia.
Qed.

Lemma slice_db : forall pre r cs post s0 sF,
  fold_left db_step pre (Some d_init) = Some s0 ->
  e_type r = TReg -> Forall (fun c => is_chunk c = true) cs -> chunks_follow_regs false post = true ->
  fold_left db_step (r :: cs ++ post) (Some s0) = Some sF ->
  chunks_at sF (dlen s0) = file_db_stored r cs.
Proof.
  intros pre r cs post s0 sF _ Hr Hcs Hpost H. cbn [fold_left] in H.
  destruct (db_step (Some s0) r) as [s1|] eqn:Es; [|rewrite db_fold_none in H; discriminate].
  assert (Hrc : is_chunk r = false) by (unfold is_chunk; rewrite Hr; reflexivity).
  destruct (db_step_frame s0 r s1 Hrc Es) as [L [F R]]. destruct (R Hr) as [Hl [Hsz [Hlt Hch]]].
  rewrite fold_left_app in H.
  destruct (db_fold_chunks cs s1 (dlen s0) (e_size r) Hcs Hl Hsz Hlt) as [s2 [F2 [A2 [B2 D2]]]].
  rewrite F2 in H.
  rewrite (db_fold_post post false s2 (dlen s0) sF Hpost); [|intro E; discriminate|rewrite D2; exact Hlt|exact H].
  rewrite A2, Hch. unfold file_db_stored. reflexivity.
Qed.
