(* Proofs about Model/Headers.v: in every reachable fetcher state a non-empty header set implies that the
   target is the blob URL on the registry host the headers were configured for; the same holds for every
   snapshot a thread works with, hence for every request emitted on any path and under any schedule. *)
From Coq Require Import List Arith Bool Lia.
From SV Require Import Model.Headers.
Import ListNotations.

(* (u, h) is a legitimate target/header pair of the fetcher for host c with configured headers o *)
Definition good_pair (c : nat) (o : option nat) (u : loc) (h : option nat) : Prop :=
  h = None \/ (h = o /\ u = Blob c).

Definition good_pc (c : nat) (o : option nat) (p : pc) : Prop :=
  match p with
  | PHook _ _ _ u (Some h) => good_pair c o u h
  | PHook _ _ _ _ None => False          (* does not occur in the fixed code *)
  | PSend _ _ _ u h => good_pair c o u h
  | PRefWrite _ u h => good_pair c o u h
  | _ => True
  end.

Definition inv (s : fs) : Prop :=
  good_pair (blob s) (org s) (url s) (header s) /\ Forall (good_pc (blob s) (org s)) (threads s).

Definition good_req (c : nat) (o : option nat) (q : req) : Prop := good_pair c o (r_loc q) (r_hdr q).

Definition org_ok (hs : list hostcfg) (c : nat) (o : option nat) : Prop :=
  forall i, o = Some i -> i = c /\ exists h, nth_error hs i = Some h /\ h_hdr h = true.

(* ---------- lists ---------- *)
Lemma Forall_upd {A} (P : A -> Prop) l n x : Forall P l -> P x -> Forall P (upd l n x).
Proof.
  intros H Hx. revert n. induction H as [|a l Ha Hl IH]; intros [|n]; simpl; constructor; auto.
Qed.

Lemma Forall_nth {A} (P : A -> Prop) l n x : Forall P l -> nth_error l n = Some x -> P x.
Proof. intros H E. rewrite Forall_forall in H. apply H. eapply nth_error_In. exact E. Qed.

(* ---------- single steps ---------- *)
Lemma redirect_res_good c o r u h : redirect_res c o r = Some (u, h) -> good_pair c o u h.
Proof.
  unfold redirect_res. destruct r as [code l wf|]; [|discriminate].
  destruct (code / 100 =? 2).
  - intros E. inversion E; subst. right. split; reflexivity.
  - destruct (code / 100 =? 3); [|discriminate]. destruct l as [l|]; [|discriminate].
    intros E. inversion E; subst. left. reflexivity.
Qed.

Lemma after_send_good c o k retry sr r : good_pc c o (fst (after_send k retry sr r)).
Proof.
  unfold after_send. destruct r as [code l wf|]; [|exact I].
  destruct k; repeat match goal with |- context [if ?b then _ else _] => destruct b end; exact I.
Qed.

Lemma set_pc_inv s t p : inv s -> good_pc (blob s) (org s) p -> inv (set_pc s t p).
Proof. intros [A B] C. split; simpl; [exact A|apply Forall_upd; assumption]. Qed.

Lemma micro_spec s t r :
  inv s ->
  inv (fst (micro true s t r))
  /\ blob (fst (micro true s t r)) = blob s /\ org (fst (micro true s t r)) = org s
  /\ Forall (good_req (blob s) (org s)) (snd (micro true s t r)).
Proof.
  intros Hinv. pose proof Hinv as [Hs Ht]. unfold micro. destruct (nth_error (threads s) t) as [p|] eqn:E.
  2:{ simpl. split; [exact Hinv|]. split; [reflexivity|]. split; [reflexivity|constructor]. }
  pose proof (Forall_nth _ _ _ _ Ht E) as Hp.
  destruct p as [k retry|k retry sr|k retry sr u h|k retry sr u h|k|k u h|ok]; simpl in Hp.
  - simpl. split; [apply set_pc_inv; [exact Hinv|exact I]|]. split; [reflexivity|]. split; [reflexivity|constructor].
  - simpl. split; [apply set_pc_inv; [exact Hinv|exact Hs]|]. split; [reflexivity|]. split; [reflexivity|constructor].
  - destruct h as [h|]; [|contradiction].
    simpl. split; [apply set_pc_inv; [exact Hinv|exact Hp]|]. split; [reflexivity|]. split; [reflexivity|constructor].
  - pose proof (after_send_good (blob s) (org s) k retry sr r) as Hg.
    destruct (after_send k retry sr r) as [p' ss]. simpl in Hg.
    assert (Hq : Forall (good_req (blob s) (org s)) [mkReq GET u h]) by (constructor; [exact Hp|constructor]).
    destruct ss; simpl.
    + split; [apply set_pc_inv; [split; [exact Hs|exact Ht]|exact Hg]|]. split; [reflexivity|]. split; [reflexivity|exact Hq].
    + split; [apply set_pc_inv; [exact Hinv|exact Hg]|]. split; [reflexivity|]. split; [reflexivity|exact Hq].
  - assert (Hq : Forall (good_req (blob s) (org s)) [mkReq GET (Blob (blob s)) (org s)]).
    { constructor; [|constructor]. right. split; reflexivity. }
    destruct (redirect_res (blob s) (org s) r) as [[u h]|] eqn:Er; simpl.
    + apply redirect_res_good in Er.
      split; [apply set_pc_inv; [exact Hinv|exact Er]|]. split; [reflexivity|]. split; [reflexivity|exact Hq].
    + split; [apply set_pc_inv; [exact Hinv|exact I]|]. split; [reflexivity|]. split; [reflexivity|exact Hq].
  - simpl. split; [|split; [reflexivity|split; [reflexivity|constructor]]].
    apply set_pc_inv; [split; [exact Hp|exact Ht]|]. destruct k; exact I.
  - simpl. split; [exact Hinv|]. split; [reflexivity|]. split; [reflexivity|constructor].
Qed.

Lemma settle_spec f : forall s t, inv s ->
  inv (settle true f s t) /\ blob (settle true f s t) = blob s /\ org (settle true f s t) = org s.
Proof.
  induction f as [|f IH]; intros s t H; simpl; [split; [exact H|split; reflexivity]|].
  destruct (is_parked s t); [split; [exact H|split; reflexivity]|].
  destruct (micro_spec s t RErr H) as (H1 & H2 & H3 & _).
  destruct (IH _ t H1) as (J1 & J2 & J3). split; [exact J1|]. split; congruence.
Qed.

Lemma step_spec s o :
  inv s ->
  inv (fst (step true s o))
  /\ blob (fst (step true s o)) = blob s /\ org (fst (step true s o)) = org s
  /\ Forall (good_req (blob s) (org s)) (snd (step true s o)).
Proof.
  intros H. destruct o as [k retry|t r|t r]; simpl.
  - destruct H as [Hs Ht]. split; [|split; [reflexivity|split; [reflexivity|constructor]]].
    split; simpl; [exact Hs|]. apply Forall_app. split; [exact Ht|]. constructor; [exact I|constructor].
  - apply micro_spec. exact H.
  - unfold resume. destruct (micro_spec s t r H) as (H1 & H2 & H3 & H4).
    destruct (micro true s t r) as [s1 q]. cbn [fst snd] in *.
    destruct (settle_spec 6 s1 t H1) as (J1 & J2 & J3).
    split; [exact J1|]. split; [congruence|]. split; [congruence|exact H4].
Qed.

Lemma exec_cons fixed s o os : exec fixed s (o :: os) = exec fixed (fst (step fixed s o)) os.
Proof. reflexivity. Qed.

Lemma emitted_cons fixed s o os :
  emitted fixed s (o :: os) = snd (step fixed s o) ++ emitted fixed (fst (step fixed s o)) os.
Proof. cbn [emitted]. destruct (step fixed s o). reflexivity. Qed.

Lemma exec_spec os : forall s, inv s ->
  inv (exec true s os) /\ blob (exec true s os) = blob s /\ org (exec true s os) = org s.
Proof.
  induction os as [|o os IH]; intros s H; [split; [exact H|split; reflexivity]|].
  rewrite exec_cons. destruct (step_spec s o H) as (H1 & H2 & H3 & _).
  destruct (IH _ H1) as (J1 & J2 & J3). split; [exact J1|]. split; congruence.
Qed.

Lemma emitted_good os : forall s, inv s -> Forall (good_req (blob s) (org s)) (emitted true s os).
Proof.
  induction os as [|o os IH]; intros s H; [constructor|].
  rewrite emitted_cons. destruct (step_spec s o H) as (H1 & H2 & H3 & H4).
  apply Forall_app. split; [exact H4|]. specialize (IH _ H1). rewrite H2, H3 in IH. exact IH.
Qed.

(* ---------- from good pairs to the property ---------- *)
Lemma good_confined hs c o q : org_ok hs c o -> good_req c o q -> confined hs q.
Proof.
  intros Ho [Hn|[Hh Hu]] i Hi.
  - rewrite Hn in Hi. discriminate.
  - rewrite Hh in Hi. destruct (Ho i Hi) as [-> Hex]. split; [exact Hu|exact Hex].
Qed.

Lemma org_of_ok hs i hc : nth_error hs i = Some hc -> org_ok hs i (org_of i hc).
Proof.
  intros E j Hj. unfold org_of in Hj. destruct (h_hdr hc) eqn:Eh; [|discriminate].
  inversion Hj; subst. split; [reflexivity|]. exists hc. split; assumption.
Qed.

Lemma inv_mk c o u h : good_pair c o u h -> inv (mk_fetcher c o u h).
Proof. intros H. split; [exact H|constructor]. Qed.

Lemma emitted_confined hs c o u h os :
  org_ok hs c o -> good_pair c o u h -> Forall (confined hs) (emitted true (mk_fetcher c o u h) os).
Proof.
  intros Ho Hg. pose proof (emitted_good os _ (inv_mk c o u h Hg)) as H. simpl in H.
  eapply Forall_impl; [|exact H]. intros q. apply good_confined. exact Ho.
Qed.

(* the state invariant in the words of the plan: non-empty headers imply the registry's blob URL *)
Lemma header_implies_blob_url hs c o u h os i :
  org_ok hs c o -> good_pair c o u h ->
  header (exec true (mk_fetcher c o u h) os) = Some i ->
  url (exec true (mk_fetcher c o u h) os) = Blob i /\ i = c /\ o = Some i.
Proof.
  intros Ho Hg Hi. destruct (exec_spec os _ (inv_mk c o u h Hg)) as ([[Hn|[Hh Hu]] _] & Hb & Hog); simpl in *.
  - rewrite Hn in Hi. discriminate.
  - rewrite Hb in Hu. rewrite Hog in Hh. rewrite Hh in Hi. destruct (Ho i Hi) as [-> _]. repeat split; assumption.
Qed.

(* ---------- initial resolution ---------- *)
Lemma get_size_reqs u hd sc : Forall (fun q => r_loc q = u /\ r_hdr q = hd) (fst (fst (get_size u hd sc))).
Proof.
  unfold get_size. destruct (next sc) as [r1 sc1]. destruct r1 as [c1 l1 wf1|]; simpl.
  - destruct (c1 =? 200); simpl.
    + constructor; [split; reflexivity|constructor].
    + destruct (next sc1) as [r2 sc2]. destruct r2 as [c2 l2 wf2|]; simpl;
        (constructor; [split; reflexivity|constructor; [split; reflexivity|constructor]]).
  - constructor; [split; reflexivity|constructor].
Qed.

Lemma resolve_from_spec hs : forall pre sc,
  Forall (confined (pre ++ hs)) (fst (resolve_from (length pre) hs sc))
  /\ match snd (resolve_from (length pre) hs sc) with
     | None => True
     | Some (j, u, h) => exists hc, nth_error (pre ++ hs) j = Some hc /\ good_pair j (org_of j hc) u h
     end.
Proof.
  induction hs as [|hc t IH]; intros pre sc; [simpl; split; [constructor|exact I]|].
  assert (EG : pre ++ hc :: t = (pre ++ [hc]) ++ t) by (rewrite <- app_assoc; reflexivity).
  assert (EL : S (length pre) = length (pre ++ [hc])) by (rewrite app_length; simpl; lia).
  assert (En : nth_error (pre ++ hc :: t) (length pre) = Some hc).
  { rewrite nth_error_app2 by lia. rewrite Nat.sub_diag. reflexivity. }
  pose proof (org_of_ok _ _ _ En) as Hok.
  cbn [resolve_from]. destruct (h_valid hc); cbn [negb].
  2:{ rewrite EG, EL. apply IH. }
  destruct (next sc) as [r0 sc0].
  assert (Hq0 : confined (pre ++ hc :: t) (mkReq GET (Blob (length pre)) (org_of (length pre) hc))).
  { apply (good_confined _ (length pre) (org_of (length pre) hc)); [exact Hok|]. right. split; reflexivity. }
  destruct (redirect_res (length pre) (org_of (length pre) hc) r0) as [[u hd]|] eqn:Er.
  - apply redirect_res_good in Er.
    pose proof (get_size_reqs u hd sc0) as Hgs.
    destruct (get_size u hd sc0) as [[qs1 ok] sc1]. simpl in Hgs.
    assert (Hqs1 : Forall (confined (pre ++ hc :: t)) qs1).
    { eapply Forall_impl; [|exact Hgs]. intros q [Hl Hh].
      apply (good_confined _ (length pre) (org_of (length pre) hc)); [exact Hok|].
      unfold good_req. rewrite Hl, Hh. exact Er. }
    destruct ok.
    + simpl. split; [constructor; assumption|]. exists hc. split; assumption.
    + specialize (IH (pre ++ [hc]) sc1). rewrite <- EL, <- EG in IH.
      destruct (resolve_from (S (length pre)) t sc1) as [qs res]. simpl in *.
      destruct IH as [I1 I2]. split; [|exact I2].
      constructor; [exact Hq0|]. apply Forall_app. split; assumption.
  - specialize (IH (pre ++ [hc]) sc0). rewrite <- EL, <- EG in IH.
    destruct (resolve_from (S (length pre)) t sc0) as [qs res]. simpl in *.
    destruct IH as [I1 I2]. split; [|exact I2]. constructor; assumption.
Qed.

Lemma resolve_spec hs sc :
  Forall (confined hs) (fst (resolve hs sc))
  /\ match snd (resolve hs sc) with
     | None => True
     | Some (j, u, h) => exists hc, nth_error hs j = Some hc /\ good_pair j (org_of j hc) u h
     end.
Proof. exact (resolve_from_spec hs [] sc). Qed.

(* ---------- the whole life of a fetcher ---------- *)
Lemma headers_confined hs sc os :
  Forall (confined hs) (fst (resolve hs sc))
  /\ forall i u h hc, snd (resolve hs sc) = Some (i, u, h) -> nth_error hs i = Some hc ->
       Forall (confined hs) (emitted true (mk_fetcher i (org_of i hc) u h) os).
Proof.
  destruct (resolve_spec hs sc) as [H1 H2]. split; [exact H1|].
  intros i u h hc E En. rewrite E in H2. destruct H2 as (hc' & En' & Hg).
  assert (hc' = hc) by congruence. subst hc'.
  apply emitted_confined; [apply org_of_ok; exact En|exact Hg].
Qed.

Lemma header_state_confined hs sc os i u h hc j :
  snd (resolve hs sc) = Some (i, u, h) -> nth_error hs i = Some hc ->
  header (exec true (mk_fetcher i (org_of i hc) u h) os) = Some j ->
  url (exec true (mk_fetcher i (org_of i hc) u h) os) = Blob j /\ j = i /\ h_hdr hc = true.
Proof.
  intros E En Hj. destruct (resolve_spec hs sc) as [_ H2]. rewrite E in H2. destruct H2 as (hc' & En' & Hg).
  assert (hc' = hc) by congruence. subst hc'.
  destruct (header_implies_blob_url hs i _ u h os j (org_of_ok _ _ _ En) Hg Hj) as (Hu & -> & Ho).
  repeat split; [exact Hu|]. unfold org_of in Ho. destruct (h_hdr hc); [reflexivity|discriminate].
Qed.

(* a request to anything but the blob URL of its own host carries no configured header *)
Lemma confined_elsewhere hs q : confined hs q -> (forall i, r_loc q <> Blob i) -> r_hdr q = None.
Proof.
  intros H Hn. destruct (r_hdr q) as [i|] eqn:E; [|reflexivity].
  destruct (H i E) as [Hl _]. exfalso. exact (Hn i Hl).
Qed.

(* ---------- Resume is a composition of atomic sub-steps and drops no request ---------- *)
Lemma unparked_no_emit fixed s t r : is_parked s t = false -> snd (micro fixed s t r) = [].
Proof.
  unfold is_parked, micro. destruct (nth_error (threads s) t) as [p|]; [|discriminate].
  destruct p; simpl; intros H; try discriminate; reflexivity.
Qed.

Definition micro_of (t : nat) (o : op) : Prop := exists r, o = Micro t r.

Lemma settle_micros fixed f : forall s t,
  exists ms, Forall (micro_of t) ms /\ exec fixed s ms = settle fixed f s t /\ emitted fixed s ms = [].
Proof.
  induction f as [|f IH]; intros s t; simpl.
  - exists []. repeat split; constructor.
  - destruct (is_parked s t) eqn:E.
    + exists []. repeat split; constructor.
    + destruct (IH (fst (micro fixed s t RErr)) t) as (ms & H1 & H2 & H3).
      exists (Micro t RErr :: ms). split; [constructor; [exists RErr; reflexivity|exact H1]|].
      split.
      * rewrite exec_cons. exact H2.
      * rewrite emitted_cons. simpl. rewrite H3, (unparked_no_emit fixed s t RErr E). reflexivity.
Qed.

Lemma resume_micros fixed s t r :
  exists ms, Forall (micro_of t) ms
             /\ exec fixed s ms = fst (resume fixed s t r) /\ emitted fixed s ms = snd (resume fixed s t r).
Proof.
  unfold resume. destruct (micro fixed s t r) as [s1 q] eqn:E.
  destruct (settle_micros fixed 6 s1 t) as (ms & H1 & H2 & H3).
  exists (Micro t r :: ms). split; [constructor; [exists r; reflexivity|exact H1]|].
  split.
  - rewrite exec_cons. simpl. rewrite E. exact H2.
  - rewrite emitted_cons. simpl. rewrite E. simpl. rewrite H3, app_nil_r. reflexivity.
Qed.

(* ---------- the code before patches/C18-fix-1.diff ---------- *)
(* fetch A has read its (redirected) target; check B gets 403, refreshes, the registry now answers directly and B
   installs the registry's headers; A then reads the header field and sends it to the old redirect location. *)
Definition race_hosts := [mkHost true true; mkHost true false].
Definition race_script := [Resp 307 (Some (Ext 0)) true].
Definition race_schedule :=
  [Spawn KFetch true; Spawn KCheck false; Resume 0 RErr; Resume 1 RErr; Resume 1 RErr;
   Resume 1 (Resp 403 None true); Resume 1 (Resp 200 None true); Resume 0 RErr; Resume 0 (Resp 206 None true)].

Lemma unfixed_leaks :
  exists hs sc os i u h hc,
    snd (resolve hs sc) = Some (i, u, h) /\ nth_error hs i = Some hc
    /\ In (mkReq GET (Ext 0) (Some 0)) (emitted false (mk_fetcher i (org_of i hc) u h) os).
Proof.
  exists race_hosts, race_script, race_schedule, 0, (Ext 0), None, (mkHost true true).
  split; [reflexivity|]. split; [reflexivity|]. vm_compute. tauto.
Qed.

Lemma fixed_same_schedule :
  emitted true (mk_fetcher 0 (Some 0) (Ext 0) None) race_schedule
  = [mkReq GET (Ext 0) None; mkReq GET (Blob 0) (Some 0); mkReq GET (Ext 0) None].
Proof. vm_compute. reflexivity. Qed.
