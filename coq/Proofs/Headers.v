(* Proofs about Model/Headers.v: in every reachable fetcher state a non-empty header set implies that the
   target is the blob URL on the registry host the headers were configured for; the same holds for every
   snapshot a thread works with, hence for every request emitted on any path and under any schedule.
   The authorizer's handlers hold, per host, the credential the credential function gave for that host, hence
   every Authorization header / token request carries only what was offered for the host it is for. *)
From Coq Require Import List Arith Bool Lia.
From SV Require Import Model.Headers.
From SV Require Model.Creds Proofs.Creds.
Import ListNotations.

(* (u, h) is a legitimate target/header pair of the fetcher for host c with configured headers o *)
Definition good_pair (c : nat) (o : option nat) (u : loc) (h : option nat) : Prop :=
  h = None \/ (h = o /\ u = Blob c).

(* authorization z is what the authorizer may add to a request to host j *)
Definition az_for (creds : nat -> ckind) (j : nat) (z : az) : Prop :=
  match z with
  | AzNone => True
  | AzBasic j' => j' = j /\ creds j = KBoth
  | AzBearer j' _ => j' = j
  | AzTok _ _ => False
  end.

Definition good_pc (creds : nat -> ckind) (c : nat) (o : option nat) (p : pc) : Prop :=
  match p with
  | PHook _ _ _ u (Some h) => good_pair c o u h
  | PHook _ _ _ _ None => False          (* does not occur in the fixed code *)
  | PT _ u h ph => good_pair c o u h /\ match ph with TSend _ z => az_for creds (host_of u) z | _ => True end
  | PRefWrite _ u h => good_pair c o u h
  | _ => True
  end.

Definition handler_ok (creds : nat -> ckind) (p : nat * handler) : Prop :=
  match snd p with HBasic => creds (fst p) = KBoth | HBearer _ k _ => k = creds (fst p) end.
Definition auth_inv (creds : nat -> ckind) (a : authz) : Prop := Forall (handler_ok creds) (handlers a).

Definition inv (creds : nat -> ckind) (s : fs) : Prop :=
  good_pair (blob s) (org s) (url s) (header s)
  /\ Forall (good_pc creds (blob s) (org s)) (threads s)
  /\ auth_inv creds (auth s).

Definition good_req (c : nat) (o : option nat) (q : req) : Prop := good_pair c o (r_loc q) (r_hdr q).
Definition req_ok (creds : nat -> ckind) (c : nat) (o : option nat) (q : req) : Prop :=
  good_req c o q /\ cred_ok creds q.

Definition org_ok (hs : list hostcfg) (c : nat) (o : option nat) : Prop :=
  forall i, o = Some i -> i = c /\ exists h, nth_error hs i = Some h /\ h_hdr h = true.

(* ---------- lists ---------- *)
Lemma Forall_upd {A} (P : A -> Prop) l n x : Forall P l -> P x -> Forall P (upd l n x).
Proof.
  intros H Hx. revert n. induction H as [|a l Ha Hl IH]; intros [|n]; simpl; constructor; auto.
Qed.

Lemma Forall_nth {A} (P : A -> Prop) l n x : Forall P l -> nth_error l n = Some x -> P x.
Proof. intros H E. rewrite Forall_forall in H. apply H. eapply nth_error_In. exact E. Qed.

(* ---------- the authorizer ---------- *)
Lemma h_find_ok creds l j h : Forall (handler_ok creds) l -> h_find l j = Some h -> handler_ok creds (j, h).
Proof.
  induction 1 as [|[j' h'] l Hh Hl IH]; simpl; [discriminate|].
  destruct (Nat.eqb_spec j' j) as [->|Hn]; [intros E; inversion E; subst; exact Hh|exact IH].
Qed.

Lemma h_del_ok creds l j : Forall (handler_ok creds) l -> Forall (handler_ok creds) (h_del l j).
Proof.
  induction 1 as [|[j' h'] l Hh Hl IH]; simpl; [constructor|].
  destruct (Nat.eqb j' j); [exact IH|constructor; assumption].
Qed.

Lemma h_set_ok creds l j h :
  Forall (handler_ok creds) l -> handler_ok creds (j, h) -> Forall (handler_ok creds) (h_set l j h).
Proof. intros Hl Hh. unfold h_set. constructor; [exact Hh|apply h_del_ok; exact Hl]. Qed.

(* a token request made on behalf of host j *)
Definition tok_req (creds : nat -> ckind) (j : nat) (q : req) : Prop :=
  r_hdr q = None /\ exists n c, r_loc q = Realm n /\ r_az q = AzTok j c /\ (c = true -> has_secret (creds j) = true).

Lemma tok_req_ok creds c o j q : tok_req creds j q -> req_ok creds c o q.
Proof.
  intros (Hh & n & cr & Hl & Hz & Hc). split.
  - left. exact Hh.
  - unfold cred_ok. rewrite Hz. split; [exists n; exact Hl|]. split; assumption.
Qed.

Lemma tok_fin_spec creds a j n ok qs :
  auth_inv creds a -> Forall (tok_req creds j) qs ->
  auth_inv creds (fst (fst (tok_fin a j n (creds j) ok qs)))
  /\ Forall (tok_req creds j) (snd (fst (tok_fin a j n (creds j) ok qs)))
  /\ (forall z, snd (tok_fin a j n (creds j) ok qs) = Some z -> az_for creds j z).
Proof.
  intros Ha Hqs. unfold tok_fin. destruct ok; simpl.
  - split; [apply h_set_ok; [exact Ha|reflexivity]|]. split; [exact Hqs|]. intros z E. inversion E. reflexivity.
  - split; [apply h_set_ok; [exact Ha|reflexivity]|]. split; [exact Hqs|]. intros z E. discriminate.
Qed.

Lemma authorize_spec creds a j sc :
  auth_inv creds a ->
  auth_inv creds (fst (fst (authorize a j sc)))
  /\ Forall (tok_req creds j) (snd (fst (authorize a j sc)))
  /\ (forall z, snd (authorize a j sc) = Some z -> az_for creds j z).
Proof.
  intros Ha. unfold authorize. destruct (h_find (handlers a) j) as [h|] eqn:Ef.
  2:{ simpl. split; [exact Ha|]. split; [constructor|]. intros z E. inversion E. exact I. }
  pose proof (h_find_ok creds _ _ _ Ha Ef) as Hh. unfold handler_ok in Hh. simpl in Hh.
  destruct h as [|n k tok].
  - simpl. split; [exact Ha|]. split; [constructor|]. intros z E. inversion E. simpl. split; [reflexivity|exact Hh].
  - subst k. destruct tok as [|t|].
    + (* fetch a token *)
      assert (Hq : forall m c, (c = true -> has_secret (creds j) = true) -> tok_req creds j (mkReq m (Realm n) None (AzTok j c))).
      { intros m c Hc. split; [reflexivity|]. exists n, c. repeat split. exact Hc. }
      destruct (has_secret (creds j)) eqn:Es.
      * destruct (tok_ok (fst (next sc))).
        -- apply tok_fin_spec; [exact Ha|]. constructor; [apply Hq; intros _; reflexivity|constructor].
        -- destruct (tok_fallback (creds j) (fst (next sc))).
           ++ apply tok_fin_spec; [exact Ha|].
              constructor; [apply Hq; intros _; reflexivity|]. constructor; [apply Hq; intros _; reflexivity|constructor].
           ++ apply tok_fin_spec; [exact Ha|]. constructor; [apply Hq; intros _; reflexivity|constructor].
      * apply tok_fin_spec; [exact Ha|]. constructor; [apply Hq; intros E; discriminate|constructor].
    + simpl. split; [exact Ha|]. split; [constructor|]. intros z E. inversion E. reflexivity.
    + simpl. split; [exact Ha|]. split; [constructor|]. intros z E. discriminate.
Qed.

Lemma add_responses_spec creds a j ch :
  auth_inv creds a -> auth_inv creds (fst (add_responses creds a j ch)).
Proof.
  intros Ha. unfold add_responses. destruct ch as [| |realm err].
  - exact Ha.
  - destruct (creds j) eqn:E; simpl; try exact Ha. apply h_set_ok; [exact Ha|exact E].
  - set (a1 := if err then mkAz (h_del (handlers a) j) (ntok a) else a).
    assert (Ha1 : auth_inv creds a1). { unfold a1. destruct err; [apply h_del_ok; exact Ha|exact Ha]. }
    destruct (h_find (handlers a1) j); [exact Ha1|].
    destruct (creds j) eqn:E; simpl; try exact Ha1;
      (destruct realm as [n|]; simpl; [|exact Ha1]; apply h_set_ok; [exact Ha1|]; unfold handler_ok; simpl; symmetry; exact E).
Qed.

(* ---------- single steps ---------- *)
Lemma redirect_res_good c o r u h : redirect_res c o r = Some (u, h) -> good_pair c o u h.
Proof.
  unfold redirect_res. destruct r as [code l wf ch|]; [|discriminate].
  destruct (code / 100 =? 2).
  - intros E. inversion E; subst. right. split; reflexivity.
  - destruct (code / 100 =? 3); [|discriminate]. destruct l as [l|]; [|discriminate].
    intros E. inversion E; subst. left. reflexivity.
Qed.

Lemma finish_good creds s c r : good_pc creds (blob s) (org s) (fst (finish s c r)).
Proof.
  assert (Hr : forall k, good_pc creds (blob s) (org s) (refresh_pc s k)).
  { intros k. simpl. split; [right; split; reflexivity|exact I]. }
  unfold finish. destruct c as [retry sr| |k].
  - destruct r as [code l wf ch|]; [|exact I].
    repeat match goal with |- context [if ?b then _ else _] => destruct b end; simpl fst; try exact I; apply Hr.
  - destruct r as [code l wf ch|]; [|exact I].
    repeat match goal with |- context [if ?b then _ else _] => destruct b end; simpl fst; try exact I; apply Hr.
  - destruct (redirect_res (blob s) (org s) r) as [[u h]|] eqn:E; [|exact I].
    simpl. apply redirect_res_good in E. exact E.
Qed.

Lemma set_pc_inv creds s t p : inv creds s -> good_pc creds (blob s) (org s) p -> inv creds (set_pc s t p).
Proof. intros (A & B & C) D. split; [exact A|]. split; [apply Forall_upd; assumption|exact C]. Qed.

Lemma set_auth_inv creds s a : inv creds s -> auth_inv creds a -> inv creds (set_auth s a).
Proof. intros (A & B & C) D. split; [exact A|]. split; [exact B|exact D]. Qed.

Lemma set_single_inv creds s : inv creds s -> inv creds (set_single s).
Proof. intros (A & B & C). split; [exact A|]. split; [exact B|exact C]. Qed.

Lemma finish_at_spec creds s t c r :
  inv creds s ->
  inv creds (finish_at s t c r) /\ blob (finish_at s t c r) = blob s /\ org (finish_at s t c r) = org s.
Proof.
  intros H. unfold finish_at. pose proof (finish_good creds s c r) as Hg.
  destruct (finish s c r) as [p ss]. simpl in Hg. destruct ss.
  - split; [apply set_pc_inv; [apply set_single_inv; exact H|exact Hg]|]. split; reflexivity.
  - split; [apply set_pc_inv; [exact H|exact Hg]|]. split; reflexivity.
Qed.

Lemma micro_spec creds s t r toks :
  inv creds s ->
  inv creds (fst (micro true creds s t r toks))
  /\ blob (fst (micro true creds s t r toks)) = blob s /\ org (fst (micro true creds s t r toks)) = org s
  /\ Forall (req_ok creds (blob s) (org s)) (snd (micro true creds s t r toks)).
Proof.
  intros Hinv. pose proof Hinv as (Hs & Ht & Ha). unfold micro.
  destruct (nth_error (threads s) t) as [p|] eqn:E.
  2:{ simpl. split; [exact Hinv|]. split; [reflexivity|]. split; [reflexivity|constructor]. }
  pose proof (Forall_nth _ _ _ _ Ht E) as Hp.
  destruct p as [k retry|k retry sr|k retry sr u h|c u h ph|k u h|ok]; simpl in Hp.
  - simpl. split; [apply set_pc_inv; [exact Hinv|exact I]|]. split; [reflexivity|]. split; [reflexivity|constructor].
  - simpl. split; [apply set_pc_inv; [exact Hinv|exact Hs]|]. split; [reflexivity|]. split; [reflexivity|constructor].
  - destruct h as [h|]; [|contradiction].
    simpl. split; [apply set_pc_inv; [exact Hinv|split; [exact Hp|exact I]]|]. split; [reflexivity|]. split; [reflexivity|constructor].
  - destruct Hp as [Hgp Hz]. destruct ph as [second|second z|r0].
    + (* Authorize *)
      destruct (authorize_spec creds (auth s) (host_of u) toks Ha) as (A1 & A2 & A3).
      destruct (authorize (auth s) (host_of u) toks) as [[a1 tq] oaz]. simpl in A1, A2, A3.
      assert (Hs1 : inv creds (set_auth s a1)) by (apply set_auth_inv; assumption).
      assert (Htq : Forall (req_ok creds (blob s) (org s)) tq).
      { eapply Forall_impl; [|exact A2]. intros q. apply tok_req_ok. }
      destruct oaz as [z|].
      * simpl. split; [apply set_pc_inv; [exact Hs1|split; [exact Hgp|apply A3; reflexivity]]|].
        split; [reflexivity|]. split; [reflexivity|exact Htq].
      * destruct (finish_at_spec creds (set_auth s a1) t c RErr Hs1) as (F1 & F2 & F3).
        simpl. split; [exact F1|]. split; [exact F2|]. split; [exact F3|exact Htq].
    + (* send *)
      assert (Hq : Forall (req_ok creds (blob s) (org s)) [mkReq GET u h z]).
      { constructor; [|constructor]. split; [exact Hgp|].
        unfold cred_ok. simpl. destruct z as [|j|j t0|j c0]; simpl in Hz; try exact I.
        - destruct Hz as [-> Hk]. split; [reflexivity|exact Hk].
        - symmetry. exact Hz.
        - contradiction. }
      cbv zeta. set (r' := effective u r).
      destruct (finish_at_spec creds s t c r' Hinv) as (F1 & F2 & F3).
      destruct (chal_of r') as [ch|].
      * destruct second.
        -- simpl. split; [exact F1|]. split; [exact F2|]. split; [exact F3|exact Hq].
        -- simpl. split; [apply set_pc_inv; [exact Hinv|split; [exact Hgp|exact I]]|].
           split; [reflexivity|]. split; [reflexivity|exact Hq].
      * simpl. split; [exact F1|]. split; [exact F2|]. split; [exact F3|exact Hq].
    + (* AddResponses *)
      destruct (chal_of r0) as [ch|].
      * pose proof (add_responses_spec creds (auth s) (host_of u) ch Ha) as A1.
        destruct (add_responses creds (auth s) (host_of u) ch) as [a1 res]. simpl in A1.
        assert (Hs1 : inv creds (set_auth s a1)) by (apply set_auth_inv; assumption).
        destruct res.
        -- simpl. split; [apply set_pc_inv; [exact Hs1|split; [exact Hgp|exact I]]|].
           split; [reflexivity|]. split; [reflexivity|constructor].
        -- destruct (finish_at_spec creds (set_auth s a1) t c r0 Hs1) as (F1 & F2 & F3).
           simpl. split; [exact F1|]. split; [exact F2|]. split; [exact F3|constructor].
        -- destruct (finish_at_spec creds (set_auth s a1) t c RErr Hs1) as (F1 & F2 & F3).
           simpl. split; [exact F1|]. split; [exact F2|]. split; [exact F3|constructor].
      * destruct (finish_at_spec creds s t c r0 Hinv) as (F1 & F2 & F3).
        simpl. split; [exact F1|]. split; [exact F2|]. split; [exact F3|constructor].
  - simpl. split; [|split; [reflexivity|split; [reflexivity|constructor]]].
    apply set_pc_inv; [split; [exact Hp|split; [exact Ht|exact Ha]]|]. destruct k; exact I.
  - simpl. split; [exact Hinv|]. split; [reflexivity|]. split; [reflexivity|constructor].
Qed.

Lemma settle_spec creds f : forall s t toks, inv creds s ->
  inv creds (fst (settle true creds f s t toks))
  /\ blob (fst (settle true creds f s t toks)) = blob s /\ org (fst (settle true creds f s t toks)) = org s
  /\ Forall (req_ok creds (blob s) (org s)) (snd (settle true creds f s t toks)).
Proof.
  induction f as [|f IH]; intros s t toks H; cbn [settle].
  - split; [exact H|]. split; [reflexivity|]. split; [reflexivity|constructor].
  - destruct (is_parked s t).
    + split; [exact H|]. split; [reflexivity|]. split; [reflexivity|constructor].
    + destruct (micro_spec creds s t RErr toks H) as (H1 & H2 & H3 & H4).
      destruct (micro true creds s t RErr toks) as [s1 q1]. cbn [fst snd] in *.
      destruct (IH s1 t toks H1) as (J1 & J2 & J3 & J4).
      destruct (settle true creds f s1 t toks) as [s2 q2]. cbn [fst snd] in *.
      split; [exact J1|]. split; [congruence|]. split; [congruence|].
      apply Forall_app. split; [exact H4|]. rewrite H2, H3 in J4. exact J4.
Qed.

Lemma step_spec creds s o :
  inv creds s ->
  inv creds (fst (step true creds s o))
  /\ blob (fst (step true creds s o)) = blob s /\ org (fst (step true creds s o)) = org s
  /\ Forall (req_ok creds (blob s) (org s)) (snd (step true creds s o)).
Proof.
  intros H. destruct o as [k retry|t r toks|t r toks]; cbn [step].
  - destruct H as (Hs & Ht & Ha). split; [|split; [reflexivity|split; [reflexivity|constructor]]].
    split; [exact Hs|]. split; [|exact Ha]. simpl. apply Forall_app. split; [exact Ht|]. constructor; [exact I|constructor].
  - apply micro_spec. exact H.
  - unfold resume. destruct (micro_spec creds s t r toks H) as (H1 & H2 & H3 & H4).
    destruct (micro true creds s t r toks) as [s1 q1]. cbn [fst snd] in *.
    destruct (settle_spec creds 8 s1 t toks H1) as (J1 & J2 & J3 & J4).
    destruct (settle true creds 8 s1 t toks) as [s2 q2]. cbn [fst snd] in *.
    split; [exact J1|]. split; [congruence|]. split; [congruence|].
    apply Forall_app. split; [exact H4|]. rewrite H2, H3 in J4. exact J4.
Qed.

Lemma exec_cons fixed creds s o os :
  exec fixed creds s (o :: os) = exec fixed creds (fst (step fixed creds s o)) os.
Proof. reflexivity. Qed.

Lemma emitted_cons fixed creds s o os :
  emitted fixed creds s (o :: os)
  = snd (step fixed creds s o) ++ emitted fixed creds (fst (step fixed creds s o)) os.
Proof. cbn [emitted]. destruct (step fixed creds s o). reflexivity. Qed.

Lemma exec_spec creds os : forall s, inv creds s ->
  inv creds (exec true creds s os) /\ blob (exec true creds s os) = blob s /\ org (exec true creds s os) = org s.
Proof.
  induction os as [|o os IH]; intros s H; [split; [exact H|split; reflexivity]|].
  rewrite exec_cons. destruct (step_spec creds s o H) as (H1 & H2 & H3 & _).
  destruct (IH _ H1) as (J1 & J2 & J3). split; [exact J1|]. split; congruence.
Qed.

Lemma emitted_ok creds os : forall s, inv creds s ->
  Forall (req_ok creds (blob s) (org s)) (emitted true creds s os).
Proof.
  induction os as [|o os IH]; intros s H; [constructor|].
  rewrite emitted_cons. destruct (step_spec creds s o H) as (H1 & H2 & H3 & H4).
  apply Forall_app. split; [exact H4|]. specialize (IH _ H1). rewrite H2, H3 in IH. exact IH.
Qed.

(* ---------- from good pairs to the property ---------- *)
Lemma good_confined hs c o q : org_ok hs c o -> good_req c o q -> confined hs q.
Proof.
  intros Ho [Hn|[Hh Hu]] i Hi.
  - rewrite Hn in Hi. discriminate.
  - rewrite Hh in Hi. destruct (Ho i Hi) as [-> Hex]. split; [exact Hu|exact Hex].
Qed.

Lemma org_of_ok hs i hc : nth_error hs i = Some hc -> org_ok hs i (org_of i hc).
Proof.
  intros E j Hj. unfold org_of in Hj. destruct (h_hdr hc) eqn:Eh; [|discriminate].
  inversion Hj; subst. split; [reflexivity|]. exists hc. split; assumption.
Qed.

Lemma inv_mk creds c o u h a : good_pair c o u h -> auth_inv creds a -> inv creds (mk_fetcher c o u h a).
Proof. intros H Ha. split; [exact H|]. split; [constructor|exact Ha]. Qed.

Lemma emitted_confined creds hs c o u h a os :
  org_ok hs c o -> good_pair c o u h -> auth_inv creds a ->
  Forall (fun q => confined hs q /\ cred_ok creds q) (emitted true creds (mk_fetcher c o u h a) os).
Proof.
  intros Ho Hg Ha. pose proof (emitted_ok creds os _ (inv_mk creds c o u h a Hg Ha)) as H. simpl in H.
  eapply Forall_impl; [|exact H]. intros q [Hq Hc]. split; [eapply good_confined; eassumption|exact Hc].
Qed.

(* the state invariant in the words of the plan: non-empty headers imply the registry's blob URL *)
Lemma header_implies_blob_url creds hs c o u h a os i :
  org_ok hs c o -> good_pair c o u h -> auth_inv creds a ->
  header (exec true creds (mk_fetcher c o u h a) os) = Some i ->
  url (exec true creds (mk_fetcher c o u h a) os) = Blob i /\ i = c /\ o = Some i.
Proof.
  intros Ho Hg Ha Hi.
  destruct (exec_spec creds os _ (inv_mk creds c o u h a Hg Ha)) as (([Hn|[Hh Hu]] & _) & Hb & Hog); simpl in *.
  - rewrite Hn in Hi. discriminate.
  - rewrite Hb in Hu. rewrite Hog in Hh. rewrite Hh in Hi. destruct (Ho i Hi) as [-> _]. repeat split; assumption.
Qed.

(* ---------- initial resolution ---------- *)
(* requests of a round trip for (u, h): token requests on behalf of u's host, or the request itself *)
Definition xreq_ok (creds : nat -> ckind) (u : loc) (h : option nat) (q : req) : Prop :=
  cred_ok creds q /\ (r_hdr q = None \/ (r_loc q = u /\ r_hdr q = h)).

Lemma tok_xreq creds u h j q : tok_req creds j q -> xreq_ok creds u h q.
Proof.
  intros Hq. destruct (tok_req_ok creds 0 None j q Hq) as [_ Hc]. split; [exact Hc|]. left. destruct Hq as [Hh _]. exact Hh.
Qed.

Lemma own_xreq creds m u h z : az_for creds (host_of u) z -> xreq_ok creds u h (mkReq m u h z).
Proof.
  intros Hz. split; [|right; split; reflexivity].
  unfold cred_ok. simpl. destruct z as [|j|j t0|j c0]; simpl in Hz; try exact I.
  - destruct Hz as [-> Hk]. split; [reflexivity|exact Hk].
  - symmetry. exact Hz.
  - contradiction.
Qed.

Lemma xfer_spec creds a m u h sc :
  auth_inv creds a ->
  auth_inv creds (fst (fst (fst (xfer creds a m u h sc))))
  /\ Forall (xreq_ok creds u h) (snd (fst (fst (xfer creds a m u h sc)))).
Proof.
  intros Ha. unfold xfer.
  destruct (authorize_spec creds a (host_of u) sc Ha) as (A1 & A2 & A3).
  destruct (authorize a (host_of u) sc) as [[a1 tq1] oaz]. cbn [fst snd] in *.
  assert (T1 : Forall (xreq_ok creds u h) tq1).
  { eapply Forall_impl; [|exact A2]. intros q. apply tok_xreq. }
  destruct oaz as [z1|]; [|cbn [fst snd]; split; assumption].
  destruct (next (skipn (length tq1) sc)) as [r_ sc2]. cbv zeta. set (r := effective u r_).
  assert (Q1 : Forall (xreq_ok creds u h) (tq1 ++ [mkReq m u h z1])).
  { apply Forall_app. split; [exact T1|]. constructor; [apply own_xreq; apply A3; reflexivity|constructor]. }
  destruct (chal_of r) as [ch|]; [|cbn [fst snd]; split; assumption].
  pose proof (add_responses_spec creds a1 (host_of u) ch A1) as B1.
  destruct (add_responses creds a1 (host_of u) ch) as [a2 res]. cbn [fst] in B1.
  destruct res; try (cbn [fst snd]; split; assumption).
  destruct (authorize_spec creds a2 (host_of u) sc2 B1) as (C1 & C2 & C3).
  destruct (authorize a2 (host_of u) sc2) as [[a3 tq2] oaz2]. cbn [fst snd] in *.
  assert (T2 : Forall (xreq_ok creds u h) tq2).
  { eapply Forall_impl; [|exact C2]. intros q. apply tok_xreq. }
  destruct oaz2 as [z2|].
  - destruct (next (skipn (length tq2) sc2)) as [r2 sc4]. cbn [fst snd]. split; [exact C1|].
    apply Forall_app. split; [exact T1|]. constructor; [apply own_xreq; apply A3; reflexivity|].
    apply Forall_app. split; [exact T2|]. constructor; [apply own_xreq; apply C3; reflexivity|constructor].
  - cbn [fst snd]. split; [exact C1|].
    apply Forall_app. split; [exact T1|]. constructor; [apply own_xreq; apply A3; reflexivity|exact T2].
Qed.

Lemma get_size_spec creds a u hd sc :
  auth_inv creds a ->
  auth_inv creds (fst (fst (fst (get_size creds a u hd sc))))
  /\ Forall (xreq_ok creds u hd) (snd (fst (fst (get_size creds a u hd sc)))).
Proof.
  intros Ha. unfold get_size.
  destruct (xfer_spec creds a HEAD u hd sc Ha) as [A1 A2].
  destruct (xfer creds a HEAD u hd sc) as [[[a1 qs1] r1] sc1]. cbn [fst snd] in *.
  destruct r1 as [c1 l1 wf1 ch1|]; [|cbn [fst snd]; split; assumption].
  destruct (c1 =? 200); [cbn [fst snd]; split; assumption|].
  destruct (xfer_spec creds a1 GET u hd sc1 A1) as [B1 B2].
  destruct (xfer creds a1 GET u hd sc1) as [[[a2 qs2] r2] sc2]. cbn [fst snd] in *.
  destruct r2 as [c2 l2 wf2 ch2|]; cbn [fst snd]; (split; [exact B1|apply Forall_app; split; assumption]).
Qed.

Lemma xreq_confined creds hs c o u h q :
  org_ok hs c o -> good_pair c o u h -> xreq_ok creds u h q -> confined hs q /\ cred_ok creds q.
Proof.
  intros Ho Hg [Hc Hq]. split; [|exact Hc]. apply (good_confined hs c o); [exact Ho|].
  destruct Hq as [Hn|[Hl Hh]]; [left; exact Hn|]. unfold good_req. rewrite Hl, Hh. exact Hg.
Qed.

Definition wire_ok (creds : nat -> ckind) (hs : list hostcfg) (q : req) : Prop := confined hs q /\ cred_ok creds q.

Lemma resolve_from_spec creds hs : forall pre sc,
  Forall (wire_ok creds (pre ++ hs)) (fst (resolve_from creds (length pre) hs sc))
  /\ match snd (resolve_from creds (length pre) hs sc) with
     | None => True
     | Some (j, u, h, a) =>
         auth_inv creds a /\ exists hc, nth_error (pre ++ hs) j = Some hc /\ good_pair j (org_of j hc) u h
     end.
Proof.
  induction hs as [|hc t IH]; intros pre sc; [simpl; split; [constructor|exact I]|].
  assert (EG : pre ++ hc :: t = (pre ++ [hc]) ++ t) by (rewrite <- app_assoc; reflexivity).
  assert (EL : S (length pre) = length (pre ++ [hc])) by (rewrite app_length; simpl; lia).
  assert (En : nth_error (pre ++ hc :: t) (length pre) = Some hc).
  { rewrite nth_error_app2 by lia. rewrite Nat.sub_diag. reflexivity. }
  pose proof (org_of_ok _ _ _ En) as Hok.
  cbn [resolve_from]. destruct (h_valid hc); cbn [negb].
  2:{ rewrite EG, EL. apply IH. }
  assert (Hnew : auth_inv creds new_authz) by constructor.
  assert (Hg0 : good_pair (length pre) (org_of (length pre) hc) (Blob (length pre)) (org_of (length pre) hc))
    by (right; split; reflexivity).
  destruct (xfer_spec creds new_authz GET (Blob (length pre)) (org_of (length pre) hc) sc Hnew) as [A1 A2].
  destruct (xfer creds new_authz GET (Blob (length pre)) (org_of (length pre) hc) sc) as [[[a0 qs0] r0] sc0].
  cbn [fst snd] in *.
  assert (Q0 : Forall (wire_ok creds (pre ++ hc :: t)) qs0).
  { eapply Forall_impl; [|exact A2]. intros q. apply (xreq_confined creds _ _ _ _ _ q Hok Hg0). }
  destruct (redirect_res (length pre) (org_of (length pre) hc) r0) as [[u hd]|] eqn:Er.
  - apply redirect_res_good in Er.
    destruct (get_size_spec creds a0 u hd sc0 A1) as [B1 B2].
    destruct (get_size creds a0 u hd sc0) as [[[a1 qs1] ok] sc1]. cbn [fst snd] in *.
    assert (Q1 : Forall (wire_ok creds (pre ++ hc :: t)) qs1).
    { eapply Forall_impl; [|exact B2]. intros q. apply (xreq_confined creds _ _ _ _ _ q Hok Er). }
    destruct ok.
    + cbn [fst snd]. split; [apply Forall_app; split; assumption|].
      split; [exact B1|]. exists hc. split; assumption.
    + specialize (IH (pre ++ [hc]) sc1). rewrite <- EL, <- EG in IH.
      destruct (resolve_from creds (S (length pre)) t sc1) as [qs res]. cbn [fst snd] in *.
      destruct IH as [I1 I2]. split; [|exact I2].
      apply Forall_app. split; [exact Q0|]. apply Forall_app. split; assumption.
  - specialize (IH (pre ++ [hc]) sc0). rewrite <- EL, <- EG in IH.
    destruct (resolve_from creds (S (length pre)) t sc0) as [qs res]. cbn [fst snd] in *.
    destruct IH as [I1 I2]. split; [|exact I2]. apply Forall_app. split; assumption.
Qed.

Lemma resolve_spec creds hs sc :
  Forall (wire_ok creds hs) (fst (resolve creds hs sc))
  /\ match snd (resolve creds hs sc) with
     | None => True
     | Some (j, u, h, a) => auth_inv creds a /\ exists hc, nth_error hs j = Some hc /\ good_pair j (org_of j hc) u h
     end.
Proof. exact (resolve_from_spec creds hs [] sc). Qed.

(* ---------- the whole life of a fetcher ---------- *)
Lemma wire_confined creds hs sc os :
  Forall (wire_ok creds hs) (fst (resolve creds hs sc))
  /\ forall i u h a hc, snd (resolve creds hs sc) = Some (i, u, h, a) -> nth_error hs i = Some hc ->
       Forall (wire_ok creds hs) (emitted true creds (mk_fetcher i (org_of i hc) u h a) os).
Proof.
  destruct (resolve_spec creds hs sc) as [H1 H2]. split; [exact H1|].
  intros i u h a hc E En. rewrite E in H2. destruct H2 as (Ha & hc' & En' & Hg).
  assert (hc' = hc) by congruence. subst hc'.
  apply emitted_confined; [apply org_of_ok; exact En|exact Hg|exact Ha].
Qed.

Lemma headers_confined creds hs sc os :
  Forall (confined hs) (fst (resolve creds hs sc))
  /\ forall i u h a hc, snd (resolve creds hs sc) = Some (i, u, h, a) -> nth_error hs i = Some hc ->
       Forall (confined hs) (emitted true creds (mk_fetcher i (org_of i hc) u h a) os).
Proof.
  destruct (wire_confined creds hs sc os) as [H1 H2]. split.
  - eapply Forall_impl; [|exact H1]. intros q [Hq _]. exact Hq.
  - intros i u h a hc E En. eapply Forall_impl; [|exact (H2 i u h a hc E En)]. intros q [Hq _]. exact Hq.
Qed.

Lemma creds_on_wire creds hs sc os :
  Forall (cred_ok creds) (fst (resolve creds hs sc))
  /\ forall i u h a hc, snd (resolve creds hs sc) = Some (i, u, h, a) -> nth_error hs i = Some hc ->
       Forall (cred_ok creds) (emitted true creds (mk_fetcher i (org_of i hc) u h a) os).
Proof.
  destruct (wire_confined creds hs sc os) as [H1 H2]. split.
  - eapply Forall_impl; [|exact H1]. intros q [_ Hq]. exact Hq.
  - intros i u h a hc E En. eapply Forall_impl; [|exact (H2 i u h a hc E En)]. intros q [_ Hq]. exact Hq.
Qed.

Lemma header_state_confined creds hs sc os i u h a hc j :
  snd (resolve creds hs sc) = Some (i, u, h, a) -> nth_error hs i = Some hc ->
  header (exec true creds (mk_fetcher i (org_of i hc) u h a) os) = Some j ->
  url (exec true creds (mk_fetcher i (org_of i hc) u h a) os) = Blob j /\ j = i /\ h_hdr hc = true.
Proof.
  intros E En Hj. destruct (resolve_spec creds hs sc) as [_ H2]. rewrite E in H2. destruct H2 as (Ha & hc' & En' & Hg).
  assert (hc' = hc) by congruence. subst hc'.
  destruct (header_implies_blob_url creds hs i _ u h a os j (org_of_ok _ _ _ En) Hg Ha Hj) as (Hu & -> & Ho).
  repeat split; [exact Hu|]. unfold org_of in Ho. destruct (h_hdr hc); [reflexivity|discriminate].
Qed.

(* a request to anything but the blob URL of its own host carries no configured header *)
Lemma confined_elsewhere hs q : confined hs q -> (forall i, r_loc q <> Blob i) -> r_hdr q = None.
Proof.
  intros H Hn. destruct (r_hdr q) as [i|] eqn:E; [|reflexivity].
  destruct (H i E) as [Hl _]. exfalso. exact (Hn i Hl).
Qed.

(* ---------- RegistryHostsFromConfig ---------- *)
Lemma hosts_of_config_spec ms hs :
  hosts_of_config ms = Some hs ->
  length hs = S (length ms)
  /\ (forall i m, nth_error ms i = Some m -> nth_error hs i = Some (mkHost (m_valid m) (table_nonempty (m_hdr m))))
  /\ nth_error hs (length ms) = Some (mkHost true false).
Proof.
  unfold hosts_of_config. destruct (forallb (fun m => table_ok (m_hdr m)) ms); [|discriminate].
  intros E. inversion E; subst. clear E. split; [|split].
  - rewrite app_length, map_length. simpl. lia.
  - intros i m Hm. rewrite nth_error_app1 by (rewrite map_length; apply nth_error_Some; congruence).
    rewrite nth_error_map, Hm. reflexivity.
  - rewrite nth_error_app2 by (rewrite map_length; lia). rewrite map_length, Nat.sub_diag. reflexivity.
Qed.

(* with the host list built from the configuration: headers reach host i only if mirror i's OWN table is
   non-empty; the origin host (last) never gets any *)
Lemma confined_config ms hs q i :
  hosts_of_config ms = Some hs -> confined hs q -> r_hdr q = Some i ->
  r_loc q = Blob i /\ exists m, nth_error ms i = Some m /\ table_nonempty (m_hdr m) = true.
Proof.
  intros Hc Hq Hi. destruct (Hq i Hi) as (Hl & hc & En & Hh). split; [exact Hl|].
  destruct (hosts_of_config_spec ms hs Hc) as (Hlen & Hm & Hlast).
  destruct (nth_error ms i) as [m|] eqn:Em.
  - exists m. split; [reflexivity|]. rewrite (Hm i m Em) in En. inversion En; subst. exact Hh.
  - exfalso. apply nth_error_None in Em.
    assert (i < length hs) by (apply nth_error_Some; congruence).
    assert (i = length ms) by lia. subst i. rewrite Hlast in En. inversion En; subst. discriminate.
Qed.

(* ---------- credentials on the wire vs. the keychain ---------- *)
Lemma kind_secret_nonempty c :
  has_secret (kind_of c) = true -> exists u s, c = Creds.COk u s /\ (u <> [] \/ s <> []).
Proof.
  destruct c as [u s|]; [|discriminate]. intros H. exists u, s. split; [reflexivity|].
  right. intros ->. simpl in H. destruct u; discriminate.
Qed.

(* a request that carries the secret obtained for host j *)
Definition carries_secret_for (j : nat) (q : req) : Prop := r_az q = AzBasic j \/ r_az q = AzTok j true.

Lemma secret_offered creds j q : cred_ok creds q -> carries_secret_for j q -> has_secret (creds j) = true.
Proof.
  unfold cred_ok. intros H [E|E]; rewrite E in H.
  - destruct H as [_ ->]. reflexivity.
  - destruct H as (_ & _ & Hc). apply Hc. reflexivity.
Qed.

Lemma secret_follows_pull (c : bool) (kos : list Creds.op) (name : nat -> Creds.str) (r : nat) j q :
  let creds := fun j => kind_of (Creds.credentials (Creds.exec (Creds.init c) kos) (name j) r) in
  cred_ok creds q -> carries_secret_for j q ->
  exists pre a ok post,
    kos = pre ++ Creds.Pull (Some r) (Some a) ok :: post
    /\ (forall o, In o post -> Creds.touches r o = false)
    /\ (c = true \/ In Creds.Connect pre)
    /\ (Creds.sa_is_empty (Creds.a_sa a) = true
        \/ (Creds.sa_is_empty (Creds.a_sa a) = false /\ Creds.url_host (Creds.a_sa a) = Some (Creds.alias (name j)))).
Proof.
  intros creds Hq Hs. pose proof (secret_offered creds j q Hq Hs) as Hk. unfold creds in Hk.
  destruct (kind_secret_nonempty _ Hk) as (u & s & E & Hne).
  destruct (Proofs.Creds.creds_confined c kos (name j) r u s E Hne) as (pre & a & ok & post & H1 & H2 & H3 & H4 & _).
  exists pre, a, ok, post. repeat split; assumption.
Qed.

(* ---------- Resume is a composition of atomic sub-steps and drops no request ---------- *)
Definition micro_of (t : nat) (o : op) : Prop := exists r toks, o = Micro t r toks.

Lemma settle_micros fixed creds f : forall s t toks,
  exists ms, Forall (micro_of t) ms
             /\ exec fixed creds s ms = fst (settle fixed creds f s t toks)
             /\ emitted fixed creds s ms = snd (settle fixed creds f s t toks).
Proof.
  induction f as [|f IH]; intros s t toks; cbn [settle].
  - exists []. repeat split; constructor.
  - destruct (is_parked s t) eqn:E.
    + exists []. repeat split; constructor.
    + destruct (micro fixed creds s t RErr toks) as [s1 q1] eqn:Em.
      destruct (IH s1 t toks) as (ms & H1 & H2 & H3).
      destruct (settle fixed creds f s1 t toks) as [s2 q2]. cbn [fst snd] in *.
      exists (Micro t RErr toks :: ms). split; [constructor; [exists RErr, toks; reflexivity|exact H1]|].
      split.
      * rewrite exec_cons. cbn [step]. rewrite Em. exact H2.
      * rewrite emitted_cons. cbn [step]. rewrite Em. cbn [fst snd]. rewrite H3. reflexivity.
Qed.

Lemma resume_micros fixed creds s t r toks :
  exists ms, Forall (micro_of t) ms
             /\ exec fixed creds s ms = fst (resume fixed creds s t r toks)
             /\ emitted fixed creds s ms = snd (resume fixed creds s t r toks).
Proof.
  unfold resume. destruct (micro fixed creds s t r toks) as [s1 q1] eqn:E.
  destruct (settle_micros fixed creds 8 s1 t toks) as (ms & H1 & H2 & H3).
  destruct (settle fixed creds 8 s1 t toks) as [s2 q2]. cbn [fst snd] in *.
  exists (Micro t r toks :: ms). split; [constructor; [exists r, toks; reflexivity|exact H1]|].
  split.
  - rewrite exec_cons. cbn [step]. rewrite E. exact H2.
  - rewrite emitted_cons. cbn [step]. rewrite E. cbn [fst snd]. rewrite H3. reflexivity.
Qed.

(* ---------- the code before patches/C18-fix-1.diff ---------- *)
(* fetch A has read its (redirected) target; check B gets 403, refreshes, the registry now answers directly and B
   installs the registry's headers; A then reads the header field and sends it to the old redirect location. *)
Definition no_creds : nat -> ckind := fun _ => KNone.
Definition race_hosts := [mkHost true true; mkHost true false].
Definition race_script := [Resp 307 (Some (Ext 100 0)) true ChNone].
Definition ok206 := Resp 206 None true ChNone.
Definition race_schedule :=
  [Spawn KFetch true; Spawn KCheck false; Resume 0 RErr []; Resume 1 RErr []; Resume 1 RErr [];
   Resume 1 (Resp 403 None true ChNone) []; Resume 1 (Resp 200 None true ChNone) []; Resume 0 RErr []; Resume 0 ok206 []].

Lemma unfixed_leaks :
  exists creds hs sc os i u h a hc,
    snd (resolve creds hs sc) = Some (i, u, h, a) /\ nth_error hs i = Some hc
    /\ In (mkReq GET (Ext 100 0) (Some 0) AzNone) (emitted false creds (mk_fetcher i (org_of i hc) u h a) os).
Proof.
  exists no_creds, race_hosts, race_script, race_schedule, 0, (Ext 100 0), None, new_authz, (mkHost true true).
  split; [reflexivity|]. split; [reflexivity|]. vm_compute. tauto.
Qed.

Lemma fixed_same_schedule :
  emitted true no_creds (mk_fetcher 0 (Some 0) (Ext 100 0) None new_authz) race_schedule
  = [mkReq GET (Ext 100 0) None AzNone; mkReq GET (Blob 0) (Some 0) AzNone; mkReq GET (Ext 100 0) None AzNone].
Proof. vm_compute. reflexivity. Qed.
