(* Proofs about the metadata-store models (C05). *)
From Coq Require Import List ZArith Bool Lia ZifyBool.
From SV Require Import Model.TreeStores.
Import ListNotations.
Open Scope Z_scope.

(* ---------- attribute codec ---------- *)

Lemma put_nz_dflt : forall v, dflt (put_nz v) = v.
Proof. intro v. unfold put_nz. destruct (v =? 0) eqn:E; simpl; [apply Z.eqb_eq in E; lia|reflexivity]. Qed.

Lemma codec_roundtrip : forall a,
  read_attr (write_attr a) =
  A (a_size a) (a_mtime a) (a_link a) (a_mode a) (a_uid a) (a_gid a) (a_dmaj a) (a_dmin a) (a_xattrs a)
    (if a_nlink a =? 1 then 0 else a_nlink a).
Proof.
  intros [sz mt ln md u g dj dn xs nl]. unfold read_attr, write_attr. simpl.
  rewrite !put_nz_dflt. f_equal.
  - destruct xs; reflexivity.
  - unfold put_nz. destruct (nl - 1 =? 0) eqn:E.
    + apply Z.eqb_eq in E. replace (nl =? 1) with true by (symmetry; apply Z.eqb_eq; lia). reflexivity.
    + apply Z.eqb_neq in E. replace (nl =? 1) with false by (symmetry; apply Z.eqb_neq; lia). lia.
Qed.

(* ---------- chunk tables: sizes recomputed by the db store ---------- *)

Fixpoint tiles (l : list chunk) (size : Z) : Prop :=
  match l with
  | [] => True
  | c :: t => c_size c = (match t with c' :: _ => c_choff c' | [] => size end) - c_choff c /\ tiles t size
  end.

(* strictly increasing chunk offsets *)
Fixpoint ssorted (l : list chunk) : Prop :=
  match l with
  | [] => True
  | c :: t => (forall x, In x t -> c_choff c < c_choff x) /\ ssorted t
  end.

Lemma chunk_eta : forall c, CH (c_choff c) (c_size c) (c_dg c) (c_off c) = c.
Proof. destruct c; reflexivity. Qed.

Lemma recompute_id : forall l size, tiles l size -> recompute l size = l.
Proof.
  induction l as [|c t IH]; intros size H; simpl in *; [reflexivity|].
  destruct H as [Hc Ht]. rewrite (IH size Ht). rewrite <- Hc. rewrite chunk_eta. reflexivity.
Qed.

Lemma ins_chunk_last : forall b c l, (forall x, In x l -> c_choff x < c_choff c) -> ins_chunk b c l = l ++ [c].
Proof.
  induction l as [|c' t IH]; intros H; simpl; [reflexivity|].
  assert (Hc' : c_choff c' < c_choff c) by (apply H; left; reflexivity).
  destruct (c_choff c <? c_choff c') eqn:E1; [apply Z.ltb_lt in E1; lia|].
  destruct (c_choff c =? c_choff c') eqn:E2; [apply Z.eqb_eq in E2; lia|].
  rewrite andb_false_r. rewrite IH; [reflexivity|]. intros x Hx. apply H. right. exact Hx.
Qed.

Lemma ssorted_app_lt : forall acc c t, ssorted (acc ++ c :: t) -> forall x, In x acc -> c_choff x < c_choff c.
Proof.
  induction acc as [|a acc IH]; intros c t H x Hx; [destruct Hx|].
  simpl in H. destruct H as [Ha Hs]. destruct Hx as [<-|Hx].
  - apply Ha. apply in_or_app. right. left. reflexivity.
  - exact (IH c t Hs x Hx).
Qed.

Lemma fold_ins_sorted : forall extras acc, ssorted (acc ++ extras) ->
  fold_left (fun a c => ins_chunk true c a) extras acc = acc ++ extras.
Proof.
  induction extras as [|c t IH]; intros acc H; simpl; [rewrite app_nil_r; reflexivity|].
  rewrite ins_chunk_last by (exact (ssorted_app_lt acc c t H)).
  rewrite IH; rewrite <- app_assoc; simpl; [reflexivity|exact H].
Qed.

Lemma read_chunks_id : forall l size, ssorted l -> tiles l size -> read_chunks l size = l.
Proof.
  intros [|first extras] size Hs Ht; [reflexivity|].
  unfold read_chunks. simpl in Hs. destruct Hs as [Hf Hs].
  rewrite (fold_ins_sorted extras [] Hs). simpl app.
  replace (ins_chunk false first extras) with (first :: extras).
  - apply recompute_id. exact Ht.
  - destruct extras as [|c' t]; [reflexivity|]. simpl.
    assert (c_choff first < c_choff c') by (apply Hf; left; reflexivity).
    destruct (c_choff first <? c_choff c') eqn:E; [reflexivity|apply Z.ltb_ge in E; lia].
Qed.

(* every chunk of a tiling table with positive sizes starts before the end of the file *)
Lemma tiles_lt_size : forall l size, ssorted l -> tiles l size -> Forall (fun c => 0 < c_size c) l ->
  forall x, In x l -> c_choff x < size.
Proof.
  induction l as [|c t IH]; intros size Hs Ht Hp x Hx; [destruct Hx|].
  simpl in Hs, Ht. destruct Hs as [Hc Hs]. destruct Ht as [Hsz Ht]. inversion Hp as [|? ? Hpc Hpt]; subst.
  destruct Hx as [<-|Hx]; [|exact (IH size Hs Ht Hpt x Hx)].
  destruct t as [|c' t'].
  - lia.
  - assert (c_choff c' < size) by (apply (IH size Hs Ht Hpt); left; reflexivity). lia.
Qed.

(* the table a conforming file has: first chunk = the reg entry, then its chunk entries *)
Definition file_table (r : entry) (cs : list entry) : list chunk :=
  mem_chunk r None :: map (fun c => mem_chunk c (Some (e_size r))) cs.

Record file_conforming (r : entry) (cs : list entry) : Prop := {
  fc_reg : e_type r = TReg;
  fc_chunks : Forall (fun c => e_type c = TChunk /\ e_size c = 0) cs;
  fc_first : e_choff r = 0;
  fc_sorted : ssorted (file_table r cs);
  fc_tiles : tiles (file_table r cs) (e_size r);
  fc_pos : Forall (fun c => 0 < c_size c) (file_table r cs)
}.

Lemma db_chunk_mem_chunk : forall e sz, (e_type e = TChunk \/ e_type e = TReg) ->
  db_chunk e sz = mem_chunk e (Some sz).
Proof.
  intros e sz Ht. unfold db_chunk, mem_chunk. f_equal.
  unfold db_chsize, mem_chsize. destruct Ht as [Ht|Ht]; rewrite Ht; simpl; reflexivity.
Qed.

Lemma mem_chunk_reg : forall r lr, e_type r = TReg -> mem_chunk r lr = mem_chunk r None.
Proof. intros r lr H. unfold mem_chunk, mem_chsize. rewrite H. destruct lr; reflexivity. Qed.

Lemma filter_pos_id : forall l, Forall (fun c => 0 < c_size c) l -> filter (fun c => c_size c >? 0) l = l.
Proof.
  induction l as [|c t IH]; intros H; [reflexivity|]. inversion H; subst. simpl.
  destruct (c_size c >? 0) eqn:E; [rewrite IH by assumption; reflexivity|].
  rewrite Z.gtb_ltb in E. apply Z.ltb_ge in E. lia.
Qed.

Lemma map_db_mem : forall sz cs, Forall (fun c => e_type c = TChunk /\ e_size c = 0) cs ->
  map (fun c => db_chunk c sz) cs = map (fun c => mem_chunk c (Some sz)) cs.
Proof.
  induction cs as [|c t IH]; intros Hc; [reflexivity|]. simpl.
  inversion Hc; subst. rewrite db_chunk_mem_chunk by tauto. f_equal. apply IH; assumption.
Qed.

Lemma file_db_stored_table : forall r cs, file_conforming r cs -> file_db_stored r cs = file_table r cs.
Proof.
  intros r cs [Hr Hc H0 Hs Ht Hp]. unfold file_db_stored, file_table.
  inversion Hp as [|? ? Hpr Hpc]; subst.
  assert (Hsz : 0 < e_size r).
  { assert (c_choff (mem_chunk r None) < e_size r)
      by (apply (tiles_lt_size _ _ Hs Ht Hp); left; reflexivity).
    simpl in H. lia. }
  destruct (e_size r >? 0) eqn:E; [|rewrite Z.gtb_ltb in E; apply Z.ltb_ge in E; lia].
  simpl. f_equal.
  - rewrite db_chunk_mem_chunk by (auto). apply mem_chunk_reg. exact Hr.
  - assert (Hm := map_db_mem (e_size r) cs Hc).
    rewrite Hm. apply filter_pos_id. exact Hpc.
Qed.

Lemma file_mem_ents_table : forall r c cs, file_conforming r (c :: cs) -> file_mem_ents r (c :: cs) = file_table r (c :: cs).
Proof.
  intros r c cs [Hr Hc H0 Hs Ht Hp]. unfold file_mem_ents, file_table.
  assert (Hlt : c_choff (mem_chunk c (Some (e_size r))) < e_size r).
  { apply (tiles_lt_size _ _ Hs Ht Hp). right. left. reflexivity. }
  simpl in Hs, Ht. destruct Hs as [Hs0 _]. destruct Ht as [Ht0 _].
  assert (Hgt : c_choff (mem_chunk r None) < c_choff (mem_chunk c (Some (e_size r)))) by (apply Hs0; left; reflexivity).
  simpl in Ht0, Hgt, Hlt. rewrite H0 in *.
  unfold mem_chsize in Ht0. rewrite Hr in Ht0.
  assert (Hraw : 0 < e_chsize r < e_size r).
  { destruct (e_chsize r =? 0) eqn:E.
    - simpl in Ht0. destruct (e_size r =? 0) eqn:E2; simpl in Ht0.
      + apply Z.eqb_eq in E2. lia.
      + lia.
    - simpl in Ht0. lia. }
  replace ((e_chsize r >? 0) && (e_chsize r <? e_size r)) with true; [reflexivity|].
  symmetry. apply andb_true_iff. split; [rewrite Z.gtb_ltb; apply Z.ltb_lt; lia|apply Z.ltb_lt; lia].
Qed.

(* chunk sizes recomputed from neighbouring offsets are the TOC's chunk sizes: both stores hold the same table *)
Lemma chunk_tables_agree : forall r cs, file_conforming r cs ->
  read_chunks (file_db_stored r cs) (e_size r) = file_table r cs.
Proof.
  intros r cs H. rewrite (file_db_stored_table r cs H). apply read_chunks_id; [exact (fc_sorted _ _ H)|exact (fc_tiles _ _ H)].
Qed.

Lemma chunk_search_single : forall c off, c_choff c = 0 -> 0 < c_size c -> 0 <= off ->
  chunk_search [c] off = if off >=? c_size c then None else Some (c_choff c, c_size c, c_dg c).
Proof.
  intros c off H0 Hp Hoff. unfold chunk_search. simpl. unfold chunk_pred. simpl. rewrite H0.
  destruct (0 >=? off) eqn:E1; destruct (off >? 0) eqn:E2; destruct (off <? 0 + c_size c) eqn:E3;
    destruct (off >=? c_size c) eqn:E4; simpl; rewrite ?H0; try reflexivity; exfalso;
    rewrite ?Z.geb_leb, ?Z.gtb_ltb in *;
    repeat match goal with
    | H : (_ <=? _) = true |- _ => apply Z.leb_le in H
    | H : (_ <=? _) = false |- _ => apply Z.leb_gt in H
    | H : (_ <? _) = true |- _ => apply Z.ltb_lt in H
    | H : (_ <? _) = false |- _ => apply Z.ltb_ge in H
    end; lia.
Qed.

(* ... and ChunkEntryForOffset answers the same at every file offset *)
Lemma chunk_lookup_agree : forall r cs off, file_conforming r cs -> 0 <= off ->
  file_mem_lookup r cs off = file_db_lookup r cs off.
Proof.
  intros r cs off H Hoff. unfold file_db_lookup. rewrite (chunk_tables_agree r cs H).
  destruct cs as [|c cs].
  - unfold file_mem_lookup, file_mem_ents. simpl map. rewrite app_nil_r.
    replace (Nat.ltb (length (if (e_chsize r >? 0) && (e_chsize r <? e_size r) then [mem_chunk r None] else [])) 2) with true
      by (destruct ((e_chsize r >? 0) && (e_chsize r <? e_size r)); reflexivity).
    destruct H as [Hr Hc H0 Hs Ht Hp]. unfold file_table in *. simpl map in *.
    simpl in Ht. destruct Ht as [Ht _]. inversion Hp as [|? ? Hp0 _]; subst.
    rewrite chunk_search_single; [reflexivity|exact H0|exact Hp0|exact Hoff].
  - unfold file_mem_lookup. rewrite (file_mem_ents_table r c cs H). reflexivity.
Qed.

(* ---------- several layers in one database ---------- *)

Lemma pick_id_fresh : forall tries d cands c, pick_id d cands tries = Some c -> l_find c d = None.
Proof.
  induction tries as [|n IH]; intros d cands c H; destruct cands as [|x t]; simpl in H; try discriminate.
  destruct (l_find x d) eqn:E; [exact (IH d t c H)|]. inversion H; subst. exact E.
Qed.

Lemma l_find_del_other : forall d i id, i <> id -> l_find id (l_del i d) = l_find id d.
Proof.
  induction d as [|[k v] t IH]; intros i id Hne; simpl; [reflexivity|].
  destruct (i =? k) eqn:E1.
  - apply Z.eqb_eq in E1. subst k. rewrite IH by exact Hne.
    destruct (id =? i) eqn:E2; [apply Z.eqb_eq in E2; congruence|reflexivity].
  - simpl. rewrite IH by exact Hne. reflexivity.
Qed.

Lemma l_step_frame : forall d o id s, l_find id d = Some s -> lop_touches id o = false -> l_find id (l_step d o) = Some s.
Proof.
  intros d o id s Hf Ht. destruct o as [cands toc|i|i]; simpl in *.
  - destruct (pick_id d cands 100) as [c|] eqn:E; [|exact Hf].
    assert (Hc : l_find c d = None) by exact (pick_id_fresh _ _ _ _ E).
    assert (Hne : (id =? c) = false).
    { destruct (id =? c) eqn:E2; [|reflexivity]. apply Z.eqb_eq in E2. subst. rewrite Hf in Hc. discriminate. }
    destruct (db_build toc); simpl; rewrite Hne; exact Hf.
  - rewrite l_find_del_other; [exact Hf|]. apply Z.eqb_neq in Ht. exact Ht.
  - exact Hf.
Qed.

Lemma l_run_frame : forall os d id s, l_find id d = Some s ->
  (forall o, In o os -> lop_touches id o = false) -> l_find id (l_run d os) = Some s.
Proof.
  induction os as [|o t IH]; intros d id s Hf Hall; simpl; [exact Hf|].
  apply IH.
  - apply l_step_frame; [exact Hf|apply Hall; left; reflexivity].
  - intros o' Ho'. apply Hall. right. exact Ho'.
Qed.

Lemma l_view_frame : forall os d id probes, l_find id d <> None ->
  (forall o, In o os -> lop_touches id o = false) -> l_view (l_run d os) id probes = l_view d id probes.
Proof.
  intros os d id probes Hf Hall. destruct (l_find id d) as [s|] eqn:E; [|contradiction].
  unfold l_view. rewrite (l_run_frame os d id s E Hall), E. reflexivity.
Qed.

(* a newly opened layer gets an id that is not live, and shows what a database holding only this layer shows *)
Lemma l_open_fresh : forall d cands toc c, pick_id d cands 100 = Some c ->
  l_find c d = None /\
  l_view (l_step d (LOpen cands toc)) c = l_view [(c, match db_build toc with Some s => s | None => d_init end)] c.
Proof.
  intros d cands toc c H. split; [exact (pick_id_fresh _ _ _ _ H)|].
  unfold l_step. rewrite H. unfold l_view.
  destruct (db_build toc) as [s|]; simpl; rewrite Z.eqb_refl; reflexivity.
Qed.

(* ---------- TOC digest ---------- *)

Lemma digest_agree : forall (H : list Z -> Z) k bs, digest_mem H k bs = digest_db H bs.
Proof. intros H k bs. unfold digest_mem, digest_db. rewrite firstn_skipn. reflexivity. Qed.

(* ---------- acceptance on hardlink-free TOCs ---------- *)

Lemma d_add_chunk_last : forall s e cs, ds_last (d_add_chunk s e cs) = ds_last s.
Proof.
  intros s e cs. unfold d_add_chunk.
  destruct ((etype_eqb (e_type e) TReg && (e_size e >? 0)) || (etype_eqb (e_type e) TChunk && (cs >? 0))); [|reflexivity].
  destruct (ds_last s) as [i|] eqn:El; [|exact El].
  destruct (nth_error (ds_nodes s) i); simpl; exact El.
Qed.

Lemma db_step_ok : forall s e, e_type e <> THardlink -> (e_type e = TChunk -> ds_last s <> None) ->
  exists s', db_step (Some s) e = Some s' /\ ds_last s' <> None.
Proof.
  intros s e Hh Hc. unfold db_step.
  destruct (etype_eqb (e_type e) TChunk) eqn:Ec.
  - assert (e_type e = TChunk) by (destruct (e_type e); simpl in Ec; congruence).
    destruct (ds_last s) as [i|] eqn:El; [|exfalso; apply (Hc H); reflexivity].
    eexists. split; [reflexivity|]. rewrite d_add_chunk_last, El. discriminate.
  - replace (etype_eqb (e_type e) THardlink) with false by (destruct (e_type e); simpl; congruence).
    match goal with |- context [match ?r with Some p => _ | None => None end] =>
      assert (Hr : exists s1 id, r = Some (s1, id)) end.
    { destruct (if etype_eqb (e_type e) TDir then d_find s (clean (e_name e)) else None); eexists; eexists; reflexivity. }
    destruct Hr as [s1 [id Hr]]. rewrite Hr.
    eexists. split; [reflexivity|]. rewrite d_add_chunk_last. simpl. discriminate.
Qed.

Lemma db_fold_ok : forall toc s, ds_last s <> None -> Forall (fun e => e_type e <> THardlink) toc ->
  fold_left db_step toc (Some s) <> None.
Proof.
  induction toc as [|e t IH]; intros s Hl Hf; cbn [fold_left]; [discriminate|].
  inversion Hf; subst.
  destruct (db_step_ok s e) as [s' [Hs' Hl']]; [assumption|intros _; exact Hl|].
  rewrite Hs'. apply IH; assumption.
Qed.

Lemma db_accepts : forall toc, Forall (fun e => e_type e <> THardlink) toc ->
  match toc with e :: _ => e_type e <> TChunk | [] => True end -> db_build toc <> None.
Proof.
  intros [|e t] Hf H1; unfold db_build; cbn [fold_left]; [discriminate|].
  inversion Hf; subst.
  destruct (db_step_ok d_init e) as [s' [Hs' Hl']]; [assumption|intros Hc; contradiction|].
  rewrite Hs'. apply db_fold_ok; assumption.
Qed.

Lemma pass2_step_ok : forall s i e, e_type e <> THardlink -> pass2_step (Some s) (i, e) <> None.
Proof.
  intros s i e Hh. unfold pass2_step.
  destruct (etype_eqb (e_type e) TChunk); [discriminate|].
  destruct (clean (e_name e)) as [|base par]; [discriminate|].
  destruct (m_goc s par) as [s1 pid].
  replace (etype_eqb (e_type e) THardlink) with false by (destruct (e_type e); simpl; congruence).
  discriminate.
Qed.

Lemma pass2_fold_ok : forall toc n s, Forall (fun e => e_type e <> THardlink) toc ->
  fold_left pass2_step (number n toc) (Some s) <> None.
Proof.
  induction toc as [|e t IH]; intros n s Hf; cbn [fold_left number]; [discriminate|].
  inversion Hf; subst.
  destruct (pass2_step (Some s) (n, e)) as [s'|] eqn:E; [|exfalso; exact (pass2_step_ok s n e H1 E)].
  apply IH. assumption.
Qed.

Lemma mem_accepts : forall toc, Forall (fun e => e_type e <> THardlink) toc -> mem_build toc <> None.
Proof.
  intros toc Hf. unfold mem_build.
  destruct (fold_left pass2_step (number 0 toc) (Some (MS (p1_nodes (pass1 toc)) (p1_m (pass1 toc))))) as [s|] eqn:E.
  - destruct (ms_m s); discriminate.
  - exfalso. exact (pass2_fold_ok toc 0%nat _ Hf E).
Qed.

(* ---------- varint bytes ---------- *)

Lemma unzigzag_zigzag : forall x, unzigzag (zigzag x) = x.
Proof.
  intro x. unfold zigzag, unzigzag.
  destruct (x <? 0) eqn:E; [apply Z.ltb_lt in E|apply Z.ltb_ge in E].
  - destruct ((- 2 * x - 1) mod 2 =? 0) eqn:E2; [apply Z.eqb_eq in E2|apply Z.eqb_neq in E2];
      pose proof (Z.div_mod (- 2 * x - 1) 2 ltac:(lia)); pose proof (Z.mod_pos_bound (- 2 * x - 1) 2 ltac:(lia)); lia.
  - destruct ((2 * x) mod 2 =? 0) eqn:E2; [apply Z.eqb_eq in E2|apply Z.eqb_neq in E2];
      pose proof (Z.div_mod (2 * x) 2 ltac:(lia)); pose proof (Z.mod_pos_bound (2 * x) 2 ltac:(lia)); lia.
Qed.

Lemma put_uvarint_S : forall n u,
  put_uvarint (S n) u = if u <? 128 then [u] else (u mod 128 + 128) :: put_uvarint n (u / 128).
Proof. reflexivity. Qed.

Lemma uvarint_put : forall n u, 0 <= u < 128 ^ Z.of_nat (S n) -> uvarint (put_uvarint (S n) u) = Some u.
Proof.
  induction n as [|n IH]; intros u Hu; rewrite put_uvarint_S; destruct (u <? 128) eqn:E;
    try (simpl; rewrite E; reflexivity).
  - apply Z.ltb_ge in E. change (128 ^ Z.of_nat 1) with 128 in Hu. lia.
  - apply Z.ltb_ge in E. cbn [uvarint].
    assert (Hm : 0 <= u mod 128 < 128) by (apply Z.mod_pos_bound; lia).
    destruct (u mod 128 + 128 <? 128) eqn:E2; [apply Z.ltb_lt in E2; lia|].
    rewrite IH.
    + cbn [option_map]. f_equal. pose proof (Z.div_mod u 128 ltac:(lia)). lia.
    + rewrite (Nat2Z.inj_succ (S n)), Z.pow_succ_r in Hu by lia. split.
      * apply Z.div_pos; lia.
      * apply Z.div_lt_upper_bound; lia.
Qed.

Lemma int_codec : forall x, - 2 ^ 63 <= x < 2 ^ 63 -> decode_int (encode_int x) = Some x.
Proof.
  intros x Hx. unfold decode_int, encode_int. rewrite uvarint_put.
  - simpl. rewrite unzigzag_zigzag. reflexivity.
  - unfold zigzag. destruct (x <? 0) eqn:E; [apply Z.ltb_lt in E|apply Z.ltb_ge in E];
      change (128 ^ Z.of_nat 10) with 1180591620717411303424; change (2 ^ 63) with 9223372036854775808 in Hx; lia.
Qed.

(* ---------- names ---------- *)

Definition plain (c : Z) : Prop := c <> 0 /\ c <> 1 /\ c <> 2.

Lemma clean_step_plain : forall acc c, Forall plain acc -> Forall plain (clean_step acc c).
Proof.
  intros acc c H. unfold clean_step.
  destruct ((c =? 0) || (c =? 1)) eqn:E1; [exact H|].
  destruct (c =? 2) eqn:E2.
  - destruct acc; [exact H|]. inversion H; assumption.
  - apply orb_false_iff in E1. destruct E1 as [E0 E1].
    apply Z.eqb_neq in E0. apply Z.eqb_neq in E1. apply Z.eqb_neq in E2.
    constructor; [repeat split; assumption|exact H].
Qed.

Lemma fold_clean_plain : forall raw acc, Forall plain acc -> Forall plain (fold_left clean_step raw acc).
Proof. induction raw as [|c t IH]; intros acc H; simpl; [exact H|]. apply IH. apply clean_step_plain. exact H. Qed.

Lemma fold_clean_of_plain : forall l acc, Forall plain l -> fold_left clean_step l acc = rev l ++ acc.
Proof.
  induction l as [|c t IH]; intros acc H; simpl; [reflexivity|]. inversion H as [|? ? [H0 [H1 H2]] Ht]; subst.
  unfold clean_step at 2.
  replace ((c =? 0) || (c =? 1)) with false
    by (symmetry; apply orb_false_iff; split; apply Z.eqb_neq; assumption).
  replace (c =? 2) with false by (symmetry; apply Z.eqb_neq; assumption).
  rewrite IH by exact Ht. rewrite <- app_assoc. reflexivity.
Qed.

(* cleaning is a normal form: spelling the cleaned path out again and cleaning it gives the same key *)
Lemma clean_idempotent : forall raw, clean (rev (clean raw)) = clean raw.
Proof.
  intro raw. unfold clean at 1. rewrite fold_clean_of_plain.
  - rewrite rev_involutive, app_nil_r. reflexivity.
  - apply Forall_rev. apply fold_clean_plain. constructor.
Qed.
