(* Proofs about the metadata-store models (C05). *)
From Coq Require Import List ZArith Bool Lia.
From SV Require Import Model.TreeStores.
Import ListNotations.
Open Scope Z_scope.

(* ---------- attribute codec ---------- *)

Lemma put_nz_dflt : forall v, dflt (put_nz v) = v.
Proof. intro v. unfold put_nz. destruct (v =? 0) eqn:E; simpl; [apply Z.eqb_eq in E; lia|reflexivity]. Qed.

Lemma codec_roundtrip : forall a,
  read_attr (write_attr a) =
  A (a_size a) (a_mtime a) (a_link a) (a_mode a) (a_uid a) (a_gid a) (a_dmaj a) (a_dmin a) (a_xattrs a)
    (if a_nlink a =? 1 then 0 else a_nlink a).
Proof.
  intros [sz mt ln md u g dj dn xs nl]. unfold read_attr, write_attr. simpl.
  rewrite !put_nz_dflt. f_equal.
  - destruct xs; reflexivity.
  - unfold put_nz. destruct (nl - 1 =? 0) eqn:E.
    + apply Z.eqb_eq in E. replace (nl =? 1) with true by (symmetry; apply Z.eqb_eq; lia). reflexivity.
    + apply Z.eqb_neq in E. replace (nl =? 1) with false by (symmetry; apply Z.eqb_neq; lia). lia.
Qed.
