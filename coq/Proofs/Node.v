(* Proofs about Model/Node.v (C07). *)
From Coq Require Import List ZArith Bool String Ascii Lia.
From SV Require Import Gen.Consts Model.Node.
Import ListNotations.
Local Open Scope Z_scope.

(* ---------- the reserved names are what the model's literals say (re-checked against Gen/Consts.v) ---------- *)
Lemma wh_prefix_val : wh_prefix = str_of_bytes c07_whiteout_prefix /\ wh_prefix = ".wh."%string.
Proof. split; reflexivity. Qed.
Lemma opq_marker_val : opq_marker = str_of_bytes c07_whiteout_opaque_dir /\ opq_marker = (wh_prefix ++ wh_prefix ++ ".opq")%string.
Proof. split; reflexivity. Qed.
Lemma state_dir_val : state_dir_name = str_of_bytes c07_state_dir_name /\ state_dir_name = ".stargz-snapshotter"%string.
Proof. split; reflexivity. Qed.
Lemma landmarks_val : landmark_a = str_of_bytes prefetch_landmark /\ landmark_b = str_of_bytes no_prefetch_landmark
  /\ landmark_a = ".prefetch.landmark"%string /\ landmark_b = ".no.prefetch.landmark"%string.
Proof. repeat split; reflexivity. Qed.
Lemma opaque_value_val : opaque_value = str_of_bytes c07_opaque_xattr_value /\ opaque_value = "y"%string.
Proof. split; reflexivity. Qed.

(* ---------- strings ---------- *)
Lemma strip_app : forall p s, strip p (p ++ s) = Some s.
Proof. induction p as [|a p IH]; intros s; simpl; [reflexivity|]. rewrite Ascii.eqb_refl. apply IH. Qed.

Lemma strip_some : forall p s t, strip p s = Some t -> s = (p ++ t)%string.
Proof.
  induction p as [|a p IH]; intros s t H; simpl in *.
  - congruence.
  - destruct s as [|b s]; [discriminate|]. destruct (Ascii.eqb a b) eqn:E; [|discriminate].
    apply Ascii.eqb_eq in E. subst b. f_equal. apply IH. exact H.
Qed.

Lemma wh_target_app : forall n, wh_target (wh_prefix ++ n) = Some n.
Proof. intros n. apply strip_app. Qed.

Lemma wh_target_some : forall n t, wh_target n = Some t -> n = (wh_prefix ++ t)%string.
Proof. intros n t H. apply strip_some. exact H. Qed.

Lemma has_wh_app : forall n, has_wh (wh_prefix ++ n) = true.
Proof. intros n. unfold has_wh. rewrite wh_target_app. reflexivity. Qed.

Lemma has_wh_false : forall n, has_wh n = false -> wh_target n = None.
Proof. unfold has_wh. intros n H. destruct (wh_target n); [discriminate|reflexivity]. Qed.

Lemma app_inj_l : forall p a b : string, (p ++ a = p ++ b)%string -> a = b.
Proof. intros p a b H. pose proof (strip_app p a) as Ha. rewrite H, strip_app in Ha. congruence. Qed.

Lemma is_dot_wh : forall n, is_dot (wh_prefix ++ n) = false.
Proof. intros n. reflexivity. Qed.
Lemma is_landmark_wh : forall n, is_landmark (wh_prefix ++ n) = false.
Proof. intros n. reflexivity. Qed.
Lemma is_dot_has_wh : forall n, is_dot n = true -> has_wh n = false.
Proof.
  intros n H. unfold is_dot in H. apply orb_true_iff in H. destruct H as [H|H]; apply String.eqb_eq in H; subst n; reflexivity.
Qed.
Lemma is_dot_landmark : forall n, is_dot n = true -> is_landmark n = false.
Proof.
  intros n H. unfold is_dot in H. apply orb_true_iff in H. destruct H as [H|H]; apply String.eqb_eq in H; subst n; reflexivity.
Qed.
Lemma opq_marker_target : forall n, (wh_prefix ++ n)%string = opq_marker -> has_wh n = true.
Proof.
  intros n H. destruct opq_marker_val as [_ E]. rewrite E in H. apply app_inj_l in H. subst n. apply has_wh_app.
Qed.
Lemma state_dir_not_wh : has_wh state_dir_name = false. Proof. reflexivity. Qed.
Lemma state_dir_not_landmark : is_landmark state_dir_name = false. Proof. reflexivity. Qed.
Lemma state_dir_not_dot : is_dot state_dir_name = false. Proof. reflexivity. Qed.

(* names the kernel / go-fuse may pass to Lookup *)
Definition valid_name (n : string) : Prop := n <> ""%string /\ is_dot n = false.

(* ---------- association lists ---------- *)
Lemma find_child_in : forall ch n e, find_child ch n = Some e -> In (n, e) ch.
Proof.
  unfold find_child. intros ch n e H. destruct (find _ ch) as [p|] eqn:F; [|discriminate].
  apply find_some in F. destruct F as [Hin Hn]. apply String.eqb_eq in Hn. destruct p as [m e']. simpl in *. inversion H. subst. exact Hin.
Qed.

Lemma find_child_none : forall ch n, find_child ch n = None -> forall e, ~ In (n, e) ch.
Proof.
  unfold find_child. intros ch n H e Hin. destruct (find _ ch) as [p|] eqn:F; [discriminate|].
  eapply find_none in F; [|exact Hin]. simpl in F. rewrite String.eqb_refl in F. discriminate.
Qed.

Lemma in_find_child : forall ch n e, In (n, e) ch -> exists e', find_child ch n = Some e'.
Proof.
  intros ch n e Hin. destruct (find_child ch n) as [e'|] eqn:F; [eauto|]. exfalso. eapply find_child_none; eauto.
Qed.

Lemma find_child_nodup : forall ch n e, NoDup (map fst ch) -> In (n, e) ch -> find_child ch n = Some e.
Proof.
  induction ch as [|[m x] ch IH]; intros n e ND Hin; [contradiction|].
  unfold find_child. simpl. inversion ND as [|? ? Hnot ND']; subst.
  destruct (String.eqb_spec m n) as [E|E].
  - subst m. destruct Hin as [Hin|Hin]; [inversion Hin; reflexivity|].
    exfalso. apply Hnot. change n with (fst (n, e)). apply in_map. exact Hin.
  - destruct Hin as [Hin|Hin]; [inversion Hin; congruence|]. apply (IH n e ND' Hin).
Qed.

(* ---------- traverse / sort ---------- *)
Lemma traverse_in : forall {A B} (f : A -> option B) l r x,
  traverse f l = Some r -> In x l -> exists y, f x = Some y /\ In y r.
Proof.
  intros A B f. induction l as [|h t IH]; intros r x H Hin; [contradiction|].
  simpl in H. destruct (f h) as [y|] eqn:Fh; [|discriminate]. destruct (traverse f t) as [ys|] eqn:Ft; [|discriminate].
  inversion H; subst. destruct Hin as [->|Hin].
  - exists y. split; [exact Fh|left; reflexivity].
  - destruct (IH ys x eq_refl Hin) as [y' [Hy Hin']]. exists y'. split; [exact Hy|right; exact Hin'].
Qed.

Lemma traverse_in_inv : forall {A B} (f : A -> option B) l r y,
  traverse f l = Some r -> In y r -> exists x, In x l /\ f x = Some y.
Proof.
  intros A B f. induction l as [|h t IH]; intros r y H Hin; simpl in H.
  - inversion H; subst. contradiction.
  - destruct (f h) as [y0|] eqn:Fh; [|discriminate]. destruct (traverse f t) as [ys|] eqn:Ft; [|discriminate].
    inversion H; subst. destruct Hin as [->|Hin].
    + exists h. split; [left; reflexivity|exact Fh].
    + destruct (IH ys y eq_refl Hin) as [x [Hx Hf]]. exists x. split; [right; exact Hx|exact Hf].
Qed.

Lemma insert_ent_in : forall e l x, In x (insert_ent e l) <-> x = e \/ In x l.
Proof.
  intros e. induction l as [|h t IH]; intros x; simpl.
  - split; intros [H|H]; auto; contradiction.
  - destruct (String.leb (d_name e) (d_name h)); simpl.
    + split; intros [H|H]; auto.
    + rewrite IH. split; intros H; tauto.
Qed.

Lemma sort_ents_in : forall l x, In x (sort_ents l) <-> In x l.
Proof.
  induction l as [|h t IH]; intros x; simpl; [tauto|].
  rewrite insert_ent_in, IH. split; intros [H|H]; auto.
Qed.

(* the listing is ordered by name *)
Fixpoint sorted_by_name (l : list dirent) : Prop :=
  match l with
  | [] => True
  | x :: t => (forall y, In y t -> String.leb (d_name x) (d_name y) = true) /\ sorted_by_name t
  end.

Lemma ascii_compare_refl : forall a, Ascii.compare a a = Eq.
Proof. intros a. unfold Ascii.compare. apply N.compare_refl. Qed.
Lemma str_compare_refl : forall s, String.compare s s = Eq.
Proof. induction s as [|a s IH]; simpl; [reflexivity|]. rewrite ascii_compare_refl. exact IH. Qed.

Lemma str_compare_lt_trans : forall a b c, String.compare a b = Lt -> String.compare b c = Lt -> String.compare a c = Lt.
Proof.
  induction a as [|x a IH]; intros b c E1 E2.
  - destruct b; simpl in E1; try discriminate. destruct c; simpl in E2; try discriminate. reflexivity.
  - destruct b as [|y b]; simpl in E1; try discriminate. destruct c as [|z c]; simpl in E2; try discriminate.
    simpl. destruct (Ascii.compare x y) eqn:C1; try discriminate; destruct (Ascii.compare y z) eqn:C2; try discriminate.
    + apply Ascii.compare_eq_iff in C1. apply Ascii.compare_eq_iff in C2. subst. rewrite ascii_compare_refl. eapply IH; eauto.
    + apply Ascii.compare_eq_iff in C1. subst. rewrite C2. reflexivity.
    + apply Ascii.compare_eq_iff in C2. subst. rewrite C1. reflexivity.
    + assert (Ascii.compare x z = Lt) as ->; [|reflexivity].
      unfold Ascii.compare in *. rewrite N.compare_lt_iff in *. lia.
Qed.

Lemma leb_trans : forall a b c, String.leb a b = true -> String.leb b c = true -> String.leb a c = true.
Proof.
  unfold String.leb. intros a b c Hab Hbc.
  destruct (String.compare a b) eqn:E1; try discriminate; destruct (String.compare b c) eqn:E2; try discriminate.
  - apply String.compare_eq_iff in E1. apply String.compare_eq_iff in E2. subst. rewrite str_compare_refl. reflexivity.
  - apply String.compare_eq_iff in E1. subst. rewrite E2. reflexivity.
  - apply String.compare_eq_iff in E2. subst. rewrite E1. reflexivity.
  - rewrite (str_compare_lt_trans a b c E1 E2). reflexivity.
Qed.

Lemma insert_ent_sorted : forall e l, sorted_by_name l -> sorted_by_name (insert_ent e l).
Proof.
  intros e. induction l as [|h t IH]; intros S; simpl.
  - split; [intros y []|exact I].
  - destruct S as [Sh St]. destruct (String.leb (d_name e) (d_name h)) eqn:L; simpl.
    + split; [|split; assumption]. intros y [<-|Hy]; [exact L|]. eapply leb_trans; [exact L|]. apply Sh. exact Hy.
    + split; [|apply IH; exact St]. intros y Hy. apply insert_ent_in in Hy. destruct Hy as [->|Hy]; [|apply Sh; exact Hy].
      destruct (String.leb_total (d_name e) (d_name h)) as [T|T]; [congruence|exact T].
Qed.

Lemma sort_ents_sorted : forall l, sorted_by_name (sort_ents l).
Proof. induction l as [|h t IH]; simpl; [exact I|]. apply insert_ent_sorted. exact IH. Qed.

(* ---------- what readdir lists ---------- *)
Lemma normals_in : forall c ch p, In p (normals c ch) <-> In p ch /\ classify c (fst p) = CNormal.
Proof.
  intros c ch p. unfold normals. rewrite filter_In. split; intros [H1 H2]; split; auto.
  - destruct (classify c (fst p)); congruence.
  - rewrite H2. reflexivity.
Qed.

Lemma whiteouts_in : forall c ch t e, In (t, e) (whiteouts c ch) <-> exists n, In (n, e) ch /\ classify c n = CWh t.
Proof.
  intros c ch t e. unfold whiteouts. rewrite in_flat_map. split.
  - intros [[n e'] [Hin H]]. simpl in H. destruct (classify c n) eqn:C; simpl in H; try contradiction.
    destruct H as [H|[]]. inversion H; subst. exists n. split; assumption.
  - intros [n [Hin C]]. exists (n, e). split; [exact Hin|]. simpl. rewrite C. left. reflexivity.
Qed.

Lemma is_normal_true : forall c ch t, is_normal c ch t = true <-> exists e, In (t, e) ch /\ classify c t = CNormal.
Proof.
  intros c ch t. unfold is_normal. rewrite existsb_exists. split.
  - intros [[n e] [Hin E]]. simpl in E. apply String.eqb_eq in E. subst n. apply normals_in in Hin. simpl in Hin. exists e. exact Hin.
  - intros [e [Hin C]]. exists (t, e). split; [apply normals_in; split; assumption|simpl; apply String.eqb_refl].
Qed.

Lemma shown_in : forall c ch t e, In (t, e) (shown_whiteouts c ch) <->
  (exists n, In (n, e) ch /\ classify c n = CWh t) /\ is_normal c ch t = false.
Proof.
  intros c ch t e. unfold shown_whiteouts. rewrite filter_In, whiteouts_in. simpl. rewrite negb_true_iff. tauto.
Qed.

Lemma classify_wh : forall c n t, classify c n = CWh t ->
  n = (wh_prefix ++ t)%string /\ n <> opq_marker /\ unlistable_target c t = false.
Proof.
  unfold classify. intros c n t H.
  destruct (is_dot n); [discriminate|]. destruct (c_root c && is_landmark n); [discriminate|].
  destruct (wh_target n) as [t'|] eqn:W; [|discriminate].
  destruct (String.eqb_spec n opq_marker); [discriminate|].
  destruct (unlistable_target c t') eqn:U; [discriminate|]. inversion H; subst t'.
  split; [apply wh_target_some; exact W|]. split; assumption.
Qed.

Lemma classify_normal : forall c n, classify c n = CNormal ->
  is_dot n = false /\ (c_root c && is_landmark n = false) /\ has_wh n = false.
Proof.
  unfold classify. intros c n H.
  destruct (is_dot n); [discriminate|]. destruct (c_root c && is_landmark n); [discriminate|].
  unfold has_wh. destruct (wh_target n) as [t'|]; [|auto].
  destruct (n =? opq_marker)%string; [discriminate|]. destruct (unlistable_target c t'); discriminate.
Qed.

Lemma classify_normal_intro : forall c n, is_dot n = false -> c_root c && is_landmark n = false -> has_wh n = false ->
  classify c n = CNormal.
Proof.
  intros c n H1 H2 H3. unfold classify. rewrite H1, H2, (has_wh_false n H3). reflexivity.
Qed.

Lemma unlistable_false : forall c t, unlistable_target c t = false ->
  t <> ""%string /\ is_dot t = false /\ has_wh t = false /\ (c_root c && is_landmark t = false)
  /\ (c_root c && (t =? state_dir_name)%string = false).
Proof.
  unfold unlistable_target. intros c t H.
  apply orb_false_iff in H. destruct H as [H H4]. apply orb_false_iff in H. destruct H as [H H3].
  apply orb_false_iff in H. destruct H as [H1 H2].
  split; [intros ->; discriminate|]. split; [exact H2|]. split; [exact H3|].
  destruct (c_root c); simpl in *; [|auto]. apply orb_false_iff in H4. exact H4.
Qed.

Lemma unlistable_false_intro : forall c t, t <> ""%string -> is_dot t = false -> has_wh t = false ->
  c_root c && is_landmark t = false -> c_root c && (t =? state_dir_name)%string = false -> unlistable_target c t = false.
Proof.
  intros c t H1 H2 H3 H4 H5. unfold unlistable_target. rewrite H2, H3.
  destruct (String.eqb_spec t ""); [contradiction|]. simpl.
  destruct (c_root c); simpl in *; [|reflexivity]. rewrite H4, H5. reflexivity.
Qed.

Lemma classify_wh_intro : forall c t, unlistable_target c t = false -> classify c (wh_prefix ++ t) = CWh t.
Proof.
  intros c t U. unfold classify. rewrite is_dot_wh, is_landmark_wh, andb_false_r, wh_target_app.
  destruct (String.eqb_spec (wh_prefix ++ t) opq_marker) as [E|E].
  - apply opq_marker_target in E. apply unlistable_false in U. destruct U as [_ [_ [U _]]]. congruence.
  - rewrite U. reflexivity.
Qed.

Lemma normal_dirent_name : forall c p d, normal_dirent c p = Some d -> d_name d = fst p.
Proof. unfold normal_dirent. intros c p d H. destruct (ino_of _ _); [|discriminate]. inversion H. reflexivity. Qed.
Lemma wh_dirent_name : forall c p d, wh_dirent c p = Some d -> d_name d = fst p.
Proof. unfold wh_dirent. intros c p d H. destruct (ino_of _ _); [|discriminate]. inversion H. reflexivity. Qed.

(* membership in the listing, entry by entry *)
Lemma listing_in : forall c ch l d, readdir_spec c ch = Some l ->
  (In d l <-> (exists p, In p (normals c ch) /\ normal_dirent c p = Some d)
           \/ In d dot_dirents
           \/ (exists p, In p (shown_whiteouts c ch) /\ wh_dirent c p = Some d)).
Proof.
  unfold readdir_spec. intros c ch l d H.
  destruct (traverse (normal_dirent c) (normals c ch)) as [ns|] eqn:T1; [|discriminate].
  destruct (traverse (wh_dirent c) (shown_whiteouts c ch)) as [ws|] eqn:T2; [|discriminate].
  assert (E : l = sort_ents (ns ++ dot_dirents ++ ws)) by congruence. clear H. subst l.
  rewrite sort_ents_in, !in_app_iff. split.
  - intros [Hd|[Hd|Hd]].
    + left. eapply traverse_in_inv in Hd; [|exact T1]. exact Hd.
    + right; left; exact Hd.
    + right; right. eapply traverse_in_inv in Hd; [|exact T2]. exact Hd.
  - intros [[p [Hp Hf]]|[Hd|[p [Hp Hf]]]].
    + left. destruct (traverse_in _ _ _ _ T1 Hp) as [y [Hy Hin]]. congruence.
    + right; left; exact Hd.
    + right; right. destruct (traverse_in _ _ _ _ T2 Hp) as [y [Hy Hin]]. congruence.
Qed.

Lemma listing_ok_normal : forall c ch l p, readdir_spec c ch = Some l -> In p (normals c ch) ->
  exists i, ino_of (c_base c) (e_id (snd p)) = Some i /\ In (fst p, sysmode (a_mode (e_attr (snd p))), i) l.
Proof.
  intros c ch l p H Hp. pose proof H as H0. unfold readdir_spec in H.
  destruct (traverse (normal_dirent c) (normals c ch)) as [ns|] eqn:T1; [|discriminate].
  destruct (traverse_in _ _ _ _ T1 Hp) as [y [Hy Hin]]. unfold normal_dirent in Hy.
  destruct (ino_of (c_base c) (e_id (snd p))) as [i|] eqn:I; [|discriminate]. inversion Hy; subst y.
  exists i. split; [reflexivity|]. apply (listing_in c ch l _ H0). left. exists p. split; [exact Hp|].
  unfold normal_dirent. rewrite I. reflexivity.
Qed.

Lemma listing_ok_wh : forall c ch l p, readdir_spec c ch = Some l -> In p (shown_whiteouts c ch) ->
  exists i, ino_of (c_base c) (e_id (snd p)) = Some i /\ In (fst p, S_IFCHR, i) l.
Proof.
  intros c ch l p H Hp. pose proof H as H0. unfold readdir_spec in H.
  destruct (traverse (normal_dirent c) (normals c ch)) as [ns|] eqn:T1; [|discriminate].
  destruct (traverse (wh_dirent c) (shown_whiteouts c ch)) as [ws|] eqn:T2; [|discriminate].
  destruct (traverse_in _ _ _ _ T2 Hp) as [y [Hy Hin]]. unfold wh_dirent in Hy.
  destruct (ino_of (c_base c) (e_id (snd p))) as [i|] eqn:I; [|discriminate]. inversion Hy; subst y.
  exists i. split; [reflexivity|]. apply (listing_in c ch l _ H0). right; right. exists p. split; [exact Hp|].
  unfold wh_dirent. rewrite I. reflexivity.
Qed.

(* names in the listing *)
Lemma listing_names : forall c ch l n, readdir_spec c ch = Some l ->
  (In n (map d_name l) <-> (exists e, In (n, e) ch /\ classify c n = CNormal)
                        \/ is_dot n = true
                        \/ (exists m e, In (m, e) ch /\ classify c m = CWh n /\ is_normal c ch n = false)).
Proof.
  intros c ch l n H. rewrite in_map_iff. split.
  - intros [d [Hn Hd]]. apply (listing_in c ch l d H) in Hd. destruct Hd as [[p [Hp Hf]]|[Hd|[p [Hp Hf]]]].
    + left. apply normal_dirent_name in Hf. apply normals_in in Hp. destruct p as [m e]. simpl in Hf, Hp. exists e.
      rewrite <- Hn, Hf. exact Hp.
    + right; left. simpl in Hd. destruct Hd as [<-|[<-|[]]]; subst n; reflexivity.
    + right; right. apply wh_dirent_name in Hf. destruct p as [t e]. simpl in Hf. apply shown_in in Hp.
      destruct Hp as [[m [Hm C]] N]. exists m, e. rewrite <- Hn, Hf. auto.
  - intros [[e [Hin C]]|[Hd|[m [e [Hin [C N]]]]]].
    + assert (Hp : In (n, e) (normals c ch)) by (apply normals_in; split; assumption).
      destruct (listing_ok_normal c ch l _ H Hp) as [i [_ Hl]]. eexists. split; [|exact Hl]. reflexivity.
    + unfold is_dot in Hd. apply orb_true_iff in Hd. destruct Hd as [E|E]; apply String.eqb_eq in E; subst n.
      * exists ("."%string, S_IFDIR, 0). split; [reflexivity|]. apply (listing_in c ch l _ H). right; left. left. reflexivity.
      * exists (".."%string, S_IFDIR, 0). split; [reflexivity|]. apply (listing_in c ch l _ H). right; left. right; left. reflexivity.
    + assert (Hp : In (n, e) (shown_whiteouts c ch)) by (apply shown_in; split; [exists m; split; assumption|exact N]).
      destruct (listing_ok_wh c ch l _ H Hp) as [i [_ Hl]]. eexists. split; [|exact Hl]. reflexivity.
Qed.

(* ---------- Lookup on a fresh node, case by case ---------- *)
Definition found (r : lres) : Prop := match r with LEnoent | LEio => False | _ => True end.

Lemma lookup_spec_eq : forall c ch n,
  lookup_spec c ch n =
  if c_root c && is_landmark n then LEnoent
  else if has_wh n then LEnoent
  else if c_root c && (n =? state_dir_name)%string then LState (state_attr c)
  else match find_child ch n with
       | Some e => match ino_of (c_base c) (e_id e) with None => LEio | Some i => LNode e (entry_to_attr i (e_attr e)) end
       | None => match find_child ch (wh_prefix ++ n) with
                 | Some e => match ino_of (c_base c) (e_id e) with None => LEio | Some i => LWh e (wh_attr i) end
                 | None => LEnoent
                 end
       end.
Proof.
  intros c ch n. unfold lookup_spec, lookup, find_reg, memo_absent. cbn [init regs memo find].
  destruct (c_root c && is_landmark n); [reflexivity|]. destruct (has_wh n); [reflexivity|].
  destruct (c_root c && (n =? state_dir_name)%string); [reflexivity|].
  destruct (find_child ch n); [reflexivity|]. destruct (find_child ch (wh_prefix ++ n)); reflexivity.
Qed.

(* listed iff Lookup succeeds *)
Lemma list_iff_lookup : forall c ch l n,
  valid_name n -> ~ (c_root c = true /\ n = state_dir_name) -> readdir_spec c ch = Some l ->
  (In n (map d_name l) <-> found (lookup_spec c ch n)).
Proof.
  intros c ch l n [Hne Hdot] Hst H. rewrite (listing_names c ch l n H), lookup_spec_eq.
  assert (St : c_root c && (n =? state_dir_name)%string = false).
  { destruct (c_root c) eqn:R; [|reflexivity]. simpl. destruct (String.eqb_spec n state_dir_name); [exfalso; apply Hst; auto|reflexivity]. }
  split.
  - intros [[e [Hin C]]|[Hd|[m [e [Hin [C N]]]]]].
    + destruct (classify_normal c n C) as [_ [L W]]. rewrite L, W, St.
      destruct (in_find_child ch n e Hin) as [e' F]. rewrite F.
      assert (Hp : In (n, e') (normals c ch)) by (apply normals_in; split; [apply find_child_in; exact F|exact C]).
      destruct (listing_ok_normal c ch l _ H Hp) as [i [I _]]. simpl in I. rewrite I. exact Logic.I.
    + congruence.
    + destruct (classify_wh c m n C) as [Em [_ U]]. destruct (unlistable_false c n U) as [_ [_ [W [L _]]]].
      rewrite L, W, St.
      assert (F0 : find_child ch n = None).
      { destruct (find_child ch n) as [e0|] eqn:F0; [|reflexivity]. exfalso.
        assert (is_normal c ch n = true); [|congruence]. apply is_normal_true. exists e0.
        split; [apply find_child_in; exact F0|apply classify_normal_intro; assumption]. }
      rewrite F0. subst m. destruct (in_find_child ch _ e Hin) as [e' F]. rewrite F.
      assert (Hp : In (n, e') (shown_whiteouts c ch)).
      { apply shown_in. split; [|exact N]. exists (wh_prefix ++ n)%string. split; [apply find_child_in; exact F|exact C]. }
      destruct (listing_ok_wh c ch l _ H Hp) as [i [I _]]. simpl in I. rewrite I. exact Logic.I.
  - destruct (c_root c && is_landmark n) eqn:L; [intros []|]. destruct (has_wh n) eqn:W; [intros []|]. rewrite St.
    destruct (find_child ch n) as [e|] eqn:F.
    + intros _. left. exists e. split; [apply find_child_in; exact F|apply classify_normal_intro; assumption].
    + destruct (find_child ch (wh_prefix ++ n)) as [e|] eqn:F2; [|intros []].
      intros _. right; right. exists (wh_prefix ++ n)%string, e. split; [apply find_child_in; exact F2|].
      split; [apply classify_wh_intro; apply unlistable_false_intro; assumption|].
      destruct (is_normal c ch n) eqn:N; [|reflexivity]. apply is_normal_true in N. destruct N as [e0 [Hin _]].
      exfalso. eapply find_child_none; eauto.
Qed.

(* hidden names are never served, in any state of the node *)
Lemma hidden_lookup : forall c ch s n, has_wh n = true \/ (c_root c = true /\ is_landmark n = true) ->
  lookup c ch s n = (s, LEnoent).
Proof.
  intros c ch s n [H|[H1 H2]]; unfold lookup.
  - rewrite H. destruct (c_root c && is_landmark n); reflexivity.
  - rewrite H1, H2. reflexivity.
Qed.

Lemma hidden_not_listed : forall c ch l n, readdir_spec c ch = Some l ->
  has_wh n = true \/ (c_root c = true /\ is_landmark n = true) -> ~ In n (map d_name l).
Proof.
  intros c ch l n H Hh Hin. apply (listing_names c ch l n H) in Hin.
  destruct Hin as [[e [_ C]]|[Hd|[m [e [_ [C _]]]]]].
  - destruct (classify_normal c n C) as [_ [L W]]. destruct Hh as [Hh|[R Hl]]; [congruence|]. rewrite R, Hl in L. discriminate.
  - destruct Hh as [Hh|[R Hl]]; [rewrite (is_dot_has_wh n Hd) in Hh; discriminate|rewrite (is_dot_landmark n Hd) in Hl; discriminate].
  - destruct (classify_wh c m n C) as [_ [_ U]]. destruct (unlistable_false c n U) as [_ [_ [W [L _]]]].
    destruct Hh as [Hh|[R Hl]]; [congruence|]. rewrite R, Hl in L. discriminate.
Qed.

(* the state directory is not listed unless the layer itself carries an entry of that name *)
Lemma state_dir_not_listed : forall c ch l, readdir_spec c ch = Some l -> c_root c = true ->
  find_child ch state_dir_name = None -> ~ In state_dir_name (map d_name l).
Proof.
  intros c ch l H R F Hin. apply (listing_names c ch l _ H) in Hin.
  destruct Hin as [[e [Hin _]]|[Hd|[m [e [_ [C _]]]]]].
  - eapply find_child_none; eauto.
  - discriminate.
  - destruct (classify_wh c m _ C) as [_ [_ U]]. destruct (unlistable_false c _ U) as [_ [_ [_ [_ S]]]].
    rewrite R, String.eqb_refl in S. discriminate.
Qed.

(* ---------- histories: memoisation and the go-fuse child cache never change an answer ---------- *)
Definition reg_ok (c : cfg) (ch : children) (r : reg) : Prop :=
  exists i, ino_of (c_base c) (e_id (r_ent r)) = Some i /\
    lookup_spec c ch (r_name r) =
      (if r_wh r then LWh (r_ent r) (wh_attr i) else LNode (r_ent r) (entry_to_attr i (e_attr (r_ent r)))).

Definition Inv (c : cfg) (ch : children) (s : nstate) : Prop :=
  (forall l, memo s = Some l -> readdir_spec c ch = Some l) /\ Forall (reg_ok c ch) (regs s).

Lemma inv_init : forall c ch, Inv c ch init.
Proof. intros c ch. split; [intros l H; discriminate|constructor]. Qed.

Lemma readdir_inv : forall c ch s, Inv c ch s -> Inv c ch (fst (readdir c ch s)).
Proof.
  intros c ch s HI. unfold readdir. destruct (memo s) as [l|] eqn:M; [exact HI|].
  destruct (readdir_spec c ch) as [l|] eqn:R; simpl; [|exact HI].
  destruct HI as [Hm Hr]. split; [intros l' E; simpl in E; congruence|exact Hr].
Qed.

Lemma readdir_answer : forall c ch s, Inv c ch s -> snd (readdir c ch s) = readdir_spec c ch.
Proof.
  intros c ch s [Hm _]. unfold readdir. destruct (memo s) as [l|] eqn:M; [simpl; symmetry; apply Hm; reflexivity|].
  destruct (readdir_spec c ch); reflexivity.
Qed.

Lemma candidates_listed : forall c ch l n, readdir_spec c ch = Some l -> valid_name n ->
  c_root c && is_landmark n = false -> has_wh n = false -> c_root c && (n =? state_dir_name)%string = false ->
  (find_child ch n <> None \/ find_child ch (wh_prefix ++ n) <> None) -> In n (map d_name l).
Proof.
  intros c ch l n H [Hne Hdot] L W St Hc. apply (listing_names c ch l n H).
  destruct (find_child ch n) as [e|] eqn:F.
  - left. exists e. split; [apply find_child_in; exact F|apply classify_normal_intro; assumption].
  - destruct Hc as [Hc|Hc]; [congruence|]. destruct (find_child ch (wh_prefix ++ n)) as [e|] eqn:F2; [|congruence].
    right; right. exists (wh_prefix ++ n)%string, e. split; [apply find_child_in; exact F2|].
    split; [apply classify_wh_intro; apply unlistable_false_intro; assumption|].
    destruct (is_normal c ch n) eqn:N; [|reflexivity]. apply is_normal_true in N. destruct N as [e0 [Hin _]].
    exfalso. eapply find_child_none; eauto.
Qed.

Lemma memo_absent_spec : forall s n, memo_absent s n = true -> exists l, memo s = Some l /\ ~ In n (map d_name l).
Proof.
  unfold memo_absent. intros s n H. destruct (memo s) as [l|]; [|discriminate]. exists l. split; [reflexivity|].
  intros Hin. apply negb_true_iff in H. apply in_map_iff in Hin. destruct Hin as [d [E Hd]].
  assert (existsb (fun d0 => (d_name d0 =? n)%string) l = true); [|congruence].
  apply existsb_exists. exists d. split; [exact Hd|]. rewrite E. apply String.eqb_refl.
Qed.

Lemma lookup_state : forall c ch s n, fst (lookup c ch s n) = s \/ fst (lookup c ch s n) = fst (readdir c ch s).
Proof.
  intros c ch s n. unfold lookup.
  destruct (c_root c && is_landmark n); [left; reflexivity|]. destruct (has_wh n); [left; reflexivity|].
  destruct (c_root c && (n =? state_dir_name)%string); [left; reflexivity|].
  destruct (find_reg s n); [left; reflexivity|]. destruct (memo_absent s n); [left; reflexivity|].
  destruct (find_child ch n); [left; reflexivity|]. destruct (find_child ch (wh_prefix ++ n)); [left; reflexivity|].
  right; reflexivity.
Qed.

Lemma lookup_inv : forall c ch s n, Inv c ch s -> Inv c ch (fst (lookup c ch s n)).
Proof.
  intros c ch s n HI. destruct (lookup_state c ch s n) as [E|E]; rewrite E; [exact HI|apply readdir_inv; exact HI].
Qed.

(* the answer in any good state is the stateless one, or ENOENT (the latter only for names no kernel sends) *)
Lemma lookup_answer_gen : forall c ch s n, Inv c ch s ->
  snd (lookup c ch s n) = lookup_spec c ch n \/ (snd (lookup c ch s n) = LEnoent /\ ~ valid_name n).
Proof.
  intros c ch s n [Hm Hr]. rewrite lookup_spec_eq. unfold lookup.
  destruct (c_root c && is_landmark n) eqn:L; [left; reflexivity|]. destruct (has_wh n) eqn:W; [left; reflexivity|].
  destruct (c_root c && (n =? state_dir_name)%string) eqn:St; [left; reflexivity|].
  destruct (find_reg s n) as [r|] eqn:FR.
  - left. unfold find_reg in FR. apply find_some in FR. destruct FR as [Hin En]. apply String.eqb_eq in En.
    rewrite Forall_forall in Hr. destruct (Hr r Hin) as [i [Ii E]]. rewrite En, lookup_spec_eq, L, W, St in E.
    cbn [snd]. rewrite Ii. unfold relookup_wh_attr. rewrite E. destruct (r_wh r); reflexivity.
  - destruct (memo_absent s n) eqn:MA.
    + apply memo_absent_spec in MA. destruct MA as [l [M Nin]]. specialize (Hm l M).
      destruct (String.eqb_spec n "") as [E0|E0]; [right; split; [reflexivity|intros [Hv _]; congruence]|].
      destruct (is_dot n) eqn:D; [right; split; [reflexivity|intros [_ Hv]; congruence]|].
      left. cbn [snd].
      destruct (find_child ch n) as [e|] eqn:F.
      { exfalso. apply Nin. apply (candidates_listed c ch l n Hm); try assumption; [split; assumption|left; congruence]. }
      destruct (find_child ch (wh_prefix ++ n)) as [e|] eqn:F2; [|reflexivity].
      exfalso. apply Nin. apply (candidates_listed c ch l n Hm); try assumption; [split; assumption|right; congruence].
    + left. destruct (find_child ch n); [reflexivity|]. destruct (find_child ch (wh_prefix ++ n)); reflexivity.
Qed.

Lemma lookup_answer : forall c ch s n, Inv c ch s -> valid_name n -> snd (lookup c ch s n) = lookup_spec c ch n.
Proof.
  intros c ch s n HI Hv. destruct (lookup_answer_gen c ch s n HI) as [E|[_ E]]; [exact E|contradiction].
Qed.

Lemma lookup_spec_node : forall c ch n e a, lookup_spec c ch n = LNode e a ->
  exists i, ino_of (c_base c) (e_id e) = Some i /\ a = entry_to_attr i (e_attr e).
Proof.
  intros c ch n e a H. rewrite lookup_spec_eq in H.
  destruct (c_root c && is_landmark n); [discriminate|]. destruct (has_wh n); [discriminate|].
  destruct (c_root c && (n =? state_dir_name)%string); [discriminate|].
  destruct (find_child ch n) as [e0|].
  - destruct (ino_of (c_base c) (e_id e0)) as [i|] eqn:Ii; [|discriminate]. inversion H; subst. exists i. split; [exact Ii|reflexivity].
  - destruct (find_child ch (wh_prefix ++ n)) as [e0|]; [|discriminate]. destruct (ino_of (c_base c) (e_id e0)); discriminate.
Qed.

Lemma lookup_spec_wh : forall c ch n e a, lookup_spec c ch n = LWh e a ->
  exists i, ino_of (c_base c) (e_id e) = Some i /\ a = wh_attr i.
Proof.
  intros c ch n e a H. rewrite lookup_spec_eq in H.
  destruct (c_root c && is_landmark n); [discriminate|]. destruct (has_wh n); [discriminate|].
  destruct (c_root c && (n =? state_dir_name)%string); [discriminate|].
  destruct (find_child ch n) as [e0|].
  - destruct (ino_of (c_base c) (e_id e0)); discriminate.
  - destruct (find_child ch (wh_prefix ++ n)) as [e0|]; [|discriminate].
    destruct (ino_of (c_base c) (e_id e0)) as [i|] eqn:Ii; [|discriminate]. inversion H; subst. exists i. split; [exact Ii|reflexivity].
Qed.

Lemma forall_filter : forall {A} (P : A -> Prop) f l, Forall P l -> Forall P (filter f l).
Proof.
  intros A P f l H. rewrite Forall_forall in *. intros x Hx. apply filter_In in Hx. apply H. tauto.
Qed.

Lemma register_inv : forall c ch s s0 n, Inv c ch s0 -> Inv c ch s ->
  Inv c ch (register s n (snd (lookup c ch s0 n))).
Proof.
  intros c ch s s0 n HI0 [Hm Hr]. unfold register.
  destruct (lookup_answer_gen c ch s0 n HI0) as [E|[E _]]; rewrite E; [|split; assumption].
  destruct (lookup_spec c ch n) as [| |a|e a|e a] eqn:LS; try (split; assumption).
  - split; [exact Hm|]. simpl. constructor; [|apply forall_filter; exact Hr].
    destruct (lookup_spec_node c ch n e a LS) as [i [Ii Ea]]. exists i. simpl. split; [exact Ii|]. rewrite LS, Ea. reflexivity.
  - split; [exact Hm|]. simpl. constructor; [|apply forall_filter; exact Hr].
    destruct (lookup_spec_wh c ch n e a LS) as [i [Ii Ea]]. exists i. simpl. split; [exact Ii|]. rewrite LS, Ea. reflexivity.
Qed.

Lemma forget_inv : forall c ch s n, Inv c ch s -> Inv c ch (forget s n).
Proof. intros c ch s n [Hm Hr]. split; [exact Hm|]. simpl. apply forall_filter. exact Hr. Qed.

Lemma step_inv : forall c self ch s o, Inv c ch s -> Inv c ch (fst (step c self ch s o)).
Proof.
  intros c self ch s o HI. destruct o as [|n rg|n| |a d|d|dg sz ft| | |v|dg| |dg sz ft he|]; simpl; try exact HI.
  - pose proof (readdir_inv c ch s HI) as H. destruct (readdir c ch s) as [s' r]. exact H.
  - pose proof (lookup_inv c ch s n HI) as H. pose proof (register_inv c ch (fst (lookup c ch s n)) s n HI H) as H2.
    destruct (lookup c ch s n) as [s' r]. simpl in *. destruct rg; assumption.
  - apply forget_inv. exact HI.
  - destruct (getxattr c self ch a d) as [[x y] z]. exact HI.
  - destruct (listxattr c self ch d) as [[x y] z]. exact HI.
Qed.

Lemma exec_inv_from : forall c self ch os s, Inv c ch s ->
  Inv c ch (fold_left (fun s o => fst (step c self ch s o)) os s).
Proof.
  intros c self ch. induction os as [|o os IH]; intros s HI; simpl; [exact HI|]. apply IH. apply step_inv. exact HI.
Qed.

Lemma reach_inv : forall c self ch os, Inv c ch (exec c self ch os).
Proof. intros c self ch os. apply exec_inv_from. apply inv_init. Qed.

(* run and exec agree on the state *)
Lemma run_exec_from : forall c self ch os s, fst (run c self ch s os) = fold_left (fun s o => fst (step c self ch s o)) os s.
Proof.
  intros c self ch. induction os as [|o os IH]; intros s; simpl; [reflexivity|].
  destruct (step c self ch s o) as [s1 x] eqn:E. specialize (IH s1). destruct (run c self ch s1 os) as [s2 xs]. simpl in *. exact IH.
Qed.

(* ---------- whiteout shape ---------- *)
Lemma wh_attr_shape : forall i, f_ino (wh_attr i) = i /\ f_mode (wh_attr i) = S_IFCHR /\ f_rdev (wh_attr i) = 0
  /\ f_uid (wh_attr i) = 0 /\ f_gid (wh_attr i) = 0 /\ f_size (wh_attr i) = 0 /\ f_blocks (wh_attr i) = 0 /\ f_nlink (wh_attr i) = 1.
Proof. intros i. repeat split; reflexivity. Qed.

Lemma whiteout_shape : forall c ch l x e,
  readdir_spec c ch = Some l -> unlistable_target c x = false ->
  find_child ch (wh_prefix ++ x) = Some e ->
  match find_child ch x with
  | None => exists i, ino_of (c_base c) (e_id e) = Some i /\ lookup_spec c ch x = LWh e (wh_attr i) /\ In (x, S_IFCHR, i) l
  | Some r => exists i, ino_of (c_base c) (e_id r) = Some i
                /\ lookup_spec c ch x = LNode r (entry_to_attr i (e_attr r)) /\ In (x, sysmode (a_mode (e_attr r)), i) l
  end.
Proof.
  intros c ch l x e H U F. destruct (unlistable_false c x U) as [Hne [Hdot [W [L St]]]].
  rewrite lookup_spec_eq, L, W, St. destruct (find_child ch x) as [r|] eqn:Fx.
  - assert (Hp : In (x, r) (normals c ch)).
    { apply normals_in. split; [apply find_child_in; exact Fx|apply classify_normal_intro; assumption]. }
    destruct (listing_ok_normal c ch l _ H Hp) as [i [Ii Hin]]. simpl in Ii, Hin. exists i. rewrite Ii. auto.
  - rewrite F.
    assert (Hp : In (x, e) (shown_whiteouts c ch)).
    { apply shown_in. split.
      - exists (wh_prefix ++ x)%string. split; [apply find_child_in; exact F|apply classify_wh_intro; exact U].
      - destruct (is_normal c ch x) eqn:N; [|reflexivity]. apply is_normal_true in N. destruct N as [e0 [Hin _]].
        exfalso. eapply find_child_none; eauto. }
    destruct (listing_ok_wh c ch l _ H Hp) as [i [Ii Hin]]. simpl in Ii, Hin. exists i. rewrite Ii. auto.
Qed.

(* with a children *map* (unique names) the listing has exactly one entry for the name *)
Lemma whiteout_listed_once : forall c ch l x e d,
  NoDup (map fst ch) -> readdir_spec c ch = Some l -> unlistable_target c x = false ->
  find_child ch (wh_prefix ++ x) = Some e -> In d l -> d_name d = x ->
  match find_child ch x with
  | None => exists i, ino_of (c_base c) (e_id e) = Some i /\ d = (x, S_IFCHR, i)
  | Some r => exists i, ino_of (c_base c) (e_id r) = Some i /\ d = (x, sysmode (a_mode (e_attr r)), i)
  end.
Proof.
  intros c ch l x e d ND H U F Hd Hn. destruct (unlistable_false c x U) as [Hne [Hdot [W [L St]]]].
  apply (listing_in c ch l d H) in Hd. destruct Hd as [[p [Hp Hf]]|[Hd|[p [Hp Hf]]]].
  - pose proof (normal_dirent_name c p d Hf) as En. apply normals_in in Hp. destruct p as [m r]. simpl in En. destruct Hp as [Hin C].
    simpl in C. assert (Emx : m = x) by congruence. rewrite Emx in Hin, Hf. rewrite (find_child_nodup ch x r ND Hin).
    unfold normal_dirent in Hf. simpl in Hf. destruct (ino_of (c_base c) (e_id r)) as [i|]; [|discriminate].
    exists i. split; [reflexivity|congruence].
  - exfalso. simpl in Hd. destruct Hd as [<-|[<-|[]]]; simpl in Hn; subst x; discriminate.
  - pose proof (wh_dirent_name c p d Hf) as En. destruct p as [t e']. simpl in En. assert (Etx : t = x) by congruence.
    rewrite Etx in Hp, Hf. clear Etx En. apply shown_in in Hp. destruct Hp as [[m [Hin C]] N]. destruct (classify_wh c m x C) as [Em _]. subst m.
    pose proof (find_child_nodup ch _ e' ND Hin) as F'. rewrite F in F'. inversion F'; subst e'.
    destruct (find_child ch x) as [r|] eqn:Fx.
    + exfalso. assert (is_normal c ch x = true); [|congruence]. apply is_normal_true. exists r.
      split; [apply find_child_in; exact Fx|apply classify_normal_intro; assumption].
    + unfold wh_dirent in Hf. simpl in Hf. destruct (ino_of (c_base c) (e_id e)) as [i|]; [|discriminate].
      exists i. split; [reflexivity|congruence].
Qed.

(* ---------- opaque xattr ---------- *)
Lemma existsb_str_in : forall a l, existsb (fun x => (x =? a)%string) l = true <-> In a l.
Proof.
  intros a l. rewrite existsb_exists. split.
  - intros [x [Hin E]]. apply String.eqb_eq in E. subst. exact Hin.
  - intros Hin. exists a. split; [exact Hin|apply String.eqb_refl].
Qed.

Lemma opaque_xattr_iff : forall c self ch a,
  In a (opaque_xattrs (c_mode c)) -> assoc (a_xattrs (e_attr self)) a = None ->
  (xattr_value c self ch a = Some opaque_value <-> exists e, find_child ch opq_marker = Some e)
  /\ (find_child ch opq_marker = None -> xattr_value c self ch a = None).
Proof.
  intros c self ch a Hin Hown. unfold xattr_value, is_opaque.
  rewrite (proj2 (existsb_str_in a _) Hin). simpl. destruct (find_child ch opq_marker) as [e|].
  - split; [split; [intros _; eauto|reflexivity]|discriminate].
  - rewrite Hown. split; [split; [discriminate|intros [e He]; discriminate]|reflexivity].
Qed.

Lemma other_xattr : forall c self ch a, ~ In a (opaque_xattrs (c_mode c)) ->
  xattr_value c self ch a = assoc (a_xattrs (e_attr self)) a.
Proof.
  intros c self ch a Hn. unfold xattr_value.
  destruct (existsb (fun x => (x =? a)%string) (opaque_xattrs (c_mode c))) eqn:E; [|reflexivity].
  apply existsb_str_in in E. contradiction.
Qed.

Lemma getxattr_fits : forall c self ch a v d, xattr_value c self ch a = Some v -> slen v <= d ->
  getxattr c self ch a d = (slen v, 0, v).
Proof.
  intros c self ch a v d H Hd. unfold getxattr. rewrite H. destruct (d <? slen v) eqn:E; [apply Z.ltb_lt in E; lia|reflexivity].
Qed.

Lemma listxattr_fits : forall c self ch d,
  fold_right (fun s acc => slen s + 1 + acc) 0 (xattr_names c self ch) <= d ->
  snd (listxattr c self ch d) = (if is_opaque ch then opaque_xattrs (c_mode c) else []) ++ map fst (a_xattrs (e_attr self)).
Proof.
  intros c self ch d Hd. unfold listxattr.
  destruct (d <? fold_right (fun s acc => slen s + 1 + acc) 0 (xattr_names c self ch)) eqn:E; [apply Z.ltb_lt in E; lia|reflexivity].
Qed.

(* ---------- inode numbers ---------- *)
Lemma land_shiftl_low : forall b x, 0 <= x < 2^32 -> Z.land (Z.shiftl b 32) x = 0.
Proof.
  intros b x Hx. apply Z.bits_inj'. intros n Hn. rewrite Z.land_spec, Z.bits_0.
  destruct (Z.ltb_spec n 32) as [Hl|Hl].
  - rewrite Z.shiftl_spec_low by exact Hl. reflexivity.
  - assert (Z.testbit x n = false) as ->; [|apply andb_false_r].
    destruct (Z.eq_dec x 0) as [->|Hx0]; [apply Z.bits_0|].
    apply Z.bits_above_log2; [lia|]. apply Z.log2_lt_pow2; [lia|].
    assert (2^32 <= 2^n) by (apply Z.pow_le_mono_r; lia). lia.
Qed.

Lemma lor_shiftl_low : forall b x, 0 <= x < 2^32 -> Z.lor (Z.shiftl b 32) x = b * 2^32 + x.
Proof.
  intros b x Hx. rewrite <- Z.lxor_lor by (apply land_shiftl_low; exact Hx).
  rewrite <- Z.add_nocarry_lxor by (apply land_shiftl_low; exact Hx). rewrite Z.shiftl_mul_pow2 by lia. reflexivity.
Qed.

Lemma ino_of_val : forall base id i, 0 <= id -> ino_of base id = Some i -> i = base * 2^32 + (3 + id) /\ 3 + id < 2^32.
Proof.
  unfold ino_of, max_id. intros base id i Hid H. destruct (id >? 2^32 - 1 - 3) eqn:E; [discriminate|].
  assert (id <= 2^32 - 1 - 3) by (destruct (Z.gtb_spec id (2^32 - 1 - 3)); [discriminate|lia]).
  inversion H. split; [apply lor_shiftl_low; lia|lia].
Qed.

Lemma ino_injective : forall base base' id id' i,
  0 <= id -> 0 <= id' -> ino_of base id = Some i -> ino_of base' id' = Some i -> base = base' /\ id = id'.
Proof.
  intros base base' id id' i H1 H2 E1 E2. apply ino_of_val in E1; [|exact H1]. apply ino_of_val in E2; [|exact H2]. lia.
Qed.

Lemma ino_not_reserved : forall base base' id i, 0 <= id -> ino_of base id = Some i ->
  i <> ino_state base' /\ i <> ino_statfile base' /\ i <> 0.
Proof.
  intros base base' id i Hid E. apply ino_of_val in E; [|exact Hid]. unfold ino_state, ino_statfile.
  rewrite !lor_shiftl_low by lia. split; [|split]; lia.
Qed.

Lemma ino_range : forall base id i, 0 <= id -> ino_of base id = Some i -> i / 2^32 = base /\ i mod 2^32 = 3 + id.
Proof.
  intros base id i Hid E. apply ino_of_val in E; [|exact Hid]. destruct E as [-> Hlt].
  rewrite Z.add_comm. rewrite Z.div_add by lia. rewrite Z.mod_add by lia.
  rewrite Z.div_small by lia. rewrite Z.mod_small by lia. lia.
Qed.

(* listing and lookup report the same inode for a name (children map with unique names) *)
Lemma listing_ino_is_lookup_ino : forall c ch l d,
  NoDup (map fst ch) -> readdir_spec c ch = Some l -> In d l -> valid_name (d_name d) ->
  ~ (c_root c = true /\ d_name d = state_dir_name) ->
  exists e a, (lookup_spec c ch (d_name d) = LNode e a \/ lookup_spec c ch (d_name d) = LWh e a)
    /\ f_ino a = d_ino d /\ Z.land (f_mode a) S_IFMT = Z.land (d_mode d) S_IFMT /\ ino_of (c_base c) (e_id e) = Some (d_ino d).
Proof.
  intros c ch l d ND H Hd [Hne Hdot] Hst.
  assert (St : c_root c && (d_name d =? state_dir_name)%string = false).
  { destruct (c_root c) eqn:R; [|reflexivity]. simpl. destruct (String.eqb_spec (d_name d) state_dir_name); [exfalso; apply Hst; auto|reflexivity]. }
  apply (listing_in c ch l d H) in Hd. destruct Hd as [[p [Hp Hf]]|[Hd|[p [Hp Hf]]]].
  - pose proof (normal_dirent_name c p d Hf) as En. apply normals_in in Hp. destruct p as [m r]. simpl in En. destruct Hp as [Hin C].
    simpl in C. destruct (classify_normal c m C) as [_ [L W]]. rewrite lookup_spec_eq, En, L, W. rewrite En in St. rewrite St.
    rewrite (find_child_nodup ch m r ND Hin). unfold normal_dirent in Hf. simpl in Hf.
    destruct (ino_of (c_base c) (e_id r)) as [i|] eqn:Ii; [|discriminate]. inversion Hf; subst d.
    exists r, (entry_to_attr i (e_attr r)). split; [left; reflexivity|]. simpl. auto.
  - exfalso. simpl in Hd. destruct Hd as [<-|[<-|[]]]; discriminate.
  - pose proof (wh_dirent_name c p d Hf) as En. destruct p as [t e]. simpl in En.
    apply shown_in in Hp. destruct Hp as [[m [Hin C]] N]. destruct (classify_wh c m t C) as [Em [_ U]]. subst m.
    destruct (unlistable_false c t U) as [_ [_ [W [L _]]]]. rewrite lookup_spec_eq, En, L, W. rewrite En in St. rewrite St.
    assert (F0 : find_child ch t = None).
    { destruct (find_child ch t) as [e0|] eqn:F0; [|reflexivity]. exfalso.
      assert (is_normal c ch t = true); [|congruence]. apply is_normal_true. exists e0.
      split; [apply find_child_in; exact F0|apply classify_normal_intro; try assumption]. rewrite <- En. exact Hdot. }
    rewrite F0, (find_child_nodup ch _ e ND Hin). unfold wh_dirent in Hf. simpl in Hf.
    destruct (ino_of (c_base c) (e_id e)) as [i|] eqn:Ii; [|discriminate]. inversion Hf; subst d.
    exists e, (wh_attr i). split; [right; reflexivity|]. simpl. auto.
Qed.
