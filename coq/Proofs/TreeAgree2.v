(* Tree agreement of the two metadata-store models for TOCs with IMPLICIT parent directories.
   The simulation relation carries an abstract map from memory-store node indices to db node ids. *)
From Coq Require Import List ZArith Bool Lia Arith.
From SV Require Import Model.TreeStores Proofs.TreeStores Proofs.TreeAgree.
Import ListNotations.
Open Scope Z_scope.

Definition pmap := nat -> option nat.
Definition pset (f : pmap) (k x : nat) : pmap := fun z => if Nat.eqb z k then Some x else f z.
Definition psub (f g : pmap) : Prop := forall k x, f k = Some x -> g k = Some x.

Lemma pset_same : forall f k x, pset f k x k = Some x.
Proof. intros. unfold pset. rewrite Nat.eqb_refl. reflexivity. Qed.
Lemma pset_other : forall f k x z, z <> k -> pset f k x z = f z.
Proof. intros f k x z H. unfold pset. apply Nat.eqb_neq in H. rewrite H. reflexivity. Qed.
Lemma psub_refl : forall f, psub f f. Proof. intros f k x H. exact H. Qed.
Lemma psub_trans : forall f g h, psub f g -> psub g h -> psub f h.
Proof. intros f g h H1 H2 k x H. apply H2. apply H1. exact H. Qed.
Lemma psub_pset : forall f k x, f k = None -> psub f (pset f k x).
Proof. intros f k x Hn z y H. unfold pset. destruct (Nat.eqb z k) eqn:E; [apply Nat.eqb_eq in E; subst; congruence|exact H]. Qed.

Definition ch_rel (f : pmap) (a b : list (Z * nat)) : Prop :=
  Forall2 (fun u v => fst u = fst v /\ f (snd u) = Some (snd v)) a b.

Lemma ch_rel_mono : forall f g a b, psub f g -> ch_rel f a b -> ch_rel g a b.
Proof.
  intros f g a b Hs H. induction H as [|u v a b [H1 H2] _ IH]; constructor; [|exact IH].
  split; [exact H1|apply Hs; exact H2].
Qed.

Lemma ch_rel_ins : forall f key c x a b, ch_rel f a b -> f c = Some x -> ch_rel f (ins key c a) (ins key x b).
Proof.
  intros f key c x a b H Hc. induction H as [|[k1 c1] [k2 c2] a b [H1 H2] Hab IH]; simpl in *.
  - constructor; [split; [reflexivity|exact Hc]|constructor].
  - subst k2. destruct (key <? k1).
    + constructor; [split; [reflexivity|exact Hc]|]. constructor; [split; [reflexivity|exact H2]|exact Hab].
    + destruct (key =? k1).
      * constructor; [split; [reflexivity|exact Hc]|exact Hab].
      * constructor; [split; [reflexivity|exact H2]|exact IH].
Qed.

(* q is a suffix of d: as reversed paths, q is d or an ancestor of d *)
Definition sfx (q d : list Z) : Prop := exists pre, d = pre ++ q.
Definition psfx (q d : list Z) : Prop := exists pre, pre <> [] /\ d = pre ++ q.

Lemma sfx_refl : forall d, sfx d d. Proof. intro d. exists []. reflexivity. Qed.
Lemma sfx_tl : forall q b d, sfx q d -> sfx q (b :: d).
Proof. intros q b d [pre H]. exists (b :: pre). simpl. rewrite H. reflexivity. Qed.
Lemma sfx_cons_inv : forall q b d, sfx q (b :: d) -> q = b :: d \/ sfx q d.
Proof.
  intros q b d [pre H]. destruct pre as [|c pre]; simpl in H.
  - left. symmetry. exact H.
  - right. inversion H; subst. exists pre. reflexivity.
Qed.
Lemma sfx_len : forall q d, sfx q d -> (length q <= length d)%nat.
Proof. intros q d [pre H]. subst. rewrite app_length. lia. Qed.
Lemma psfx_of_sfx_cons : forall q b d, sfx q d -> psfx q (b :: d).
Proof. intros q b d [pre H]. exists (b :: pre). split; [discriminate|]. simpl. rewrite H. reflexivity. Qed.
Lemma not_sfx_longer : forall b d, ~ sfx (b :: d) d.
Proof. intros b d H. apply sfx_len in H. simpl in H. lia. Qed.

Lemma clean_rev_plain : forall d, Forall plain d -> clean (rev d) = d.
Proof.
  intros d H. unfold clean. rewrite fold_clean_of_plain by (apply Forall_rev; exact H).
  rewrite rev_involutive, app_nil_r. reflexivity.
Qed.

Lemma cname_implicit : forall d, Forall plain d -> cname (implicit_dir d) = d.
Proof. intros d H. unfold cname, implicit_dir. simpl. apply clean_rev_plain. exact H. Qed.

Lemma cname_plain : forall e, Forall plain (cname e).
Proof. intro e. unfold cname, clean. apply fold_clean_plain. constructor. Qed.

Lemma plain_sfx : forall q d, sfx q d -> Forall plain d -> Forall plain q.
Proof. intros q d [pre H] Hp. subst. apply Forall_app in Hp. tauto. Qed.

(* ---------- the relation ---------- *)

Definition nadj (np : option nat) (k : nat) : Z :=
  match np with Some j => if Nat.eqb j k then 1 else 0 | None => 0 end.

Definition chunks_ok (mn : mnode) (dn : dnode) : Prop :=
  dn_chunks dn = (if etype_eqb (e_type (mn_e mn)) TReg && (e_size (mn_e mn) >? 0)
                  then [db_chunk (mn_e mn) (e_size (mn_e mn))] else []).

Definition nrel (f : pmap) (np cp : option nat) (k x : nat) (mn : mnode) (dn : dnode) : Prop :=
  dn_b dn = write_attr (attr_of (mn_e mn) (mn_nlink mn + nadj np k)) /\ 1 <= mn_nlink mn + nadj np k /\
  ch_rel f (mn_ch mn) (dn_ch dn) /\ (cp <> Some x -> chunks_ok mn dn).

Definition init_nl (e : entry) : Z := if etype_eqb (e_type e) TDir then 1 else 0.

Record Inv (toc : list entry) (i : nat) (ms : mst) (ds : dst) (f : pmap) (P : list (list Z)) (np cp : option nat) : Prop := {
  v_lenm : (length toc <= length (ms_nodes ms))%nat;
  v_expl : forall j e, nth_error toc j = Some e -> pfind (cname e) (ms_m ms) = Some j;
  v_mdom : forall p k, pfind p (ms_m ms) = Some k ->
             exists mn, nth_error (ms_nodes ms) k = Some mn /\ cname (mn_e mn) = p;
  v_ent : forall j mn, (j < length toc)%nat -> nth_error (ms_nodes ms) j = Some mn -> nth_error toc j = Some (mn_e mn);
  v_impl : forall k mn, (length toc <= k)%nat -> nth_error (ms_nodes ms) k = Some mn ->
             (exists d, mn_e mn = implicit_dir d) /\ f k <> None;
  v_todo : forall j mn, (i <= j < length toc)%nat -> nth_error (ms_nodes ms) j = Some mn ->
             f j = None /\ mn_nlink mn = init_nl (mn_e mn) /\ mn_ch mn = [];
  v_done : forall j, (j < i)%nat -> (j < length toc)%nat -> f j <> None;
  v_dom : forall k x, f k = Some x ->
            exists mn dn, nth_error (ms_nodes ms) k = Some mn /\ nth_error (ds_nodes ds) x = Some dn /\ nrel f np cp k x mn dn;
  v_inj : forall k k' x, f k = Some x -> f k' = Some x -> k = k';
  v_L1 : forall p x, d_find ds p = Some x -> p <> [] ->
           exists k, pfind p (ms_m ms) = Some k /\ f k = Some x /\ ~ In p P;
  v_L2 : forall p k x, pfind p (ms_m ms) = Some k -> f k = Some x -> ~ In p P -> d_find ds p = Some x;
  v_root : (exists r, pfind [] (ms_m ms) = Some r /\ f r = Some O /\ length (ms_nodes ms) = length (ds_nodes ds)) \/
           (pfind [] (ms_m ms) = None /\ nth_error (ds_nodes ds) 0 = Some (DN (write_attr root_attr) [] [])
            /\ (forall k, f k <> Some O) /\ S (length (ms_nodes ms)) = length (ds_nodes ds));
  v_pend : forall p, In p P -> p <> [] /\ exists k x mn, pfind p (ms_m ms) = Some k /\ f k = Some x
                                   /\ nth_error (ms_nodes ms) k = Some mn /\ mn_ch mn = [];
  v_nodupP : NoDup P;
  v_np : forall j, np = Some j -> exists p, In p P /\ pfind p (ms_m ms) = Some j;
  v_cp : forall y, cp = Some y -> (y < length (ds_nodes ds))%nat
}.

Lemma Inv_range : forall toc i ms ds f P np cp, Inv toc i ms ds f P np cp ->
  forall q y, d_find ds q = Some y -> (y < length (ds_nodes ds))%nat.
Proof.
  intros toc i ms ds f P np cp H q y Hq. destruct q as [|b q].
  - simpl in Hq. inversion Hq; subst. destruct (v_root _ _ _ _ _ _ _ _ H) as [[r [_ [Hr _]]]|[_ [H0 _]]].
    + destruct (v_dom _ _ _ _ _ _ _ _ H r O Hr) as [mn [dn [_ [Hd _]]]]. apply nth_error_Some. congruence.
    + apply nth_error_Some. congruence.
  - destruct (v_L1 _ _ _ _ _ _ _ _ H (b :: q) y Hq ltac:(discriminate)) as [k [_ [Hk _]]].
    destruct (v_dom _ _ _ _ _ _ _ _ H k y Hk) as [mn [dn [_ [Hd _]]]]. apply nth_error_Some. congruence.
Qed.

Lemma Inv_pfun_name : forall toc i ms ds f P np cp, Inv toc i ms ds f P np cp ->
  forall p p' k, pfind p (ms_m ms) = Some k -> pfind p' (ms_m ms) = Some k -> p = p'.
Proof.
  intros toc i ms ds f P np cp H p p' k H1 H2.
  destruct (v_mdom _ _ _ _ _ _ _ _ H p k H1) as [mn [Hn Hc]].
  destruct (v_mdom _ _ _ _ _ _ _ _ H p' k H2) as [mn' [Hn' Hc']]. congruence.
Qed.

(* the db store finds [] at node 0, and nothing else there *)
Lemma Inv_find_zero : forall toc i ms ds f P np cp, Inv toc i ms ds f P np cp ->
  forall q, d_find ds q = Some O -> q = [].
Proof.
  intros toc i ms ds f P np cp H q Hq. destruct q as [|b q]; [reflexivity|exfalso].
  destruct (v_L1 _ _ _ _ _ _ _ _ H (b :: q) O Hq ltac:(discriminate)) as [k [Hp [Hk _]]].
  destruct (v_root _ _ _ _ _ _ _ _ H) as [[r [Hr [Hfr _]]]|[_ [_ [Hno _]]]].
  - assert (k = r) by exact (v_inj _ _ _ _ _ _ _ _ H k r O Hk Hfr). subst r.
    assert (b :: q = []) by exact (Inv_pfun_name _ _ _ _ _ _ _ _ H _ _ _ Hp Hr). discriminate.
  - exact (Hno k Hk).
Qed.

(* paths found by the db store are unique per node *)
Lemma Inv_find_inj : forall toc i ms ds f P np cp, Inv toc i ms ds f P np cp ->
  forall q q' y, d_find ds q = Some y -> d_find ds q' = Some y -> q = q'.
Proof.
  intros toc i ms ds f P np cp H q q' y H1 H2.
  destruct q as [|b q]; destruct q' as [|b' q'].
  - reflexivity.
  - simpl in H1. inversion H1; subst. symmetry. exact (Inv_find_zero _ _ _ _ _ _ _ _ H _ H2).
  - simpl in H2. inversion H2; subst. exact (Inv_find_zero _ _ _ _ _ _ _ _ H _ H1).
  - destruct (v_L1 _ _ _ _ _ _ _ _ H _ y H1 ltac:(discriminate)) as [k [Hp [Hk _]]].
    destruct (v_L1 _ _ _ _ _ _ _ _ H _ y H2 ltac:(discriminate)) as [k' [Hp' [Hk' _]]].
    assert (k = k') by exact (v_inj _ _ _ _ _ _ _ _ H k k' y Hk Hk'). subst k'.
    exact (Inv_pfun_name _ _ _ _ _ _ _ _ H _ _ _ Hp Hp').
Qed.

(* ---------- the two primitive updates, explicitly ---------- *)

Lemma m_add_child_spec : forall ms kp base k mnp, nth_error (ms_nodes ms) kp = Some mnp ->
  let isdir := etype_eqb (m_type ms k) TDir in
  let ms' := m_add_child ms kp base k in
  ms_m ms' = ms_m ms /\ length (ms_nodes ms') = length (ms_nodes ms) /\
  nth_error (ms_nodes ms') kp = Some (MN (mn_e mnp) (if isdir then mn_nlink mnp + 1 else mn_nlink mnp) (ins base k (mn_ch mnp))) /\
  (forall z, z <> kp -> nth_error (ms_nodes ms') z = nth_error (ms_nodes ms) z).
Proof.
  intros ms kp base k mnp Hp isdir ms'.
  assert (Lp : (kp < length (ms_nodes ms))%nat) by (apply nth_error_Some; congruence).
  unfold ms', m_add_child. fold isdir.
  set (s3 := if isdir then m_nlink_inc ms kp else ms).
  assert (H3 : ms_m s3 = ms_m ms /\ length (ms_nodes s3) = length (ms_nodes ms) /\
               nth_error (ms_nodes s3) kp = Some (MN (mn_e mnp) (if isdir then mn_nlink mnp + 1 else mn_nlink mnp) (mn_ch mnp)) /\
               (forall z, z <> kp -> nth_error (ms_nodes s3) z = nth_error (ms_nodes ms) z)).
  { unfold s3. destruct isdir.
    - unfold m_nlink_inc. rewrite Hp. simpl. rewrite upd_length. repeat split.
      + apply nth_upd_same. exact Lp.
      + intros z Hz. apply nth_upd_other. congruence.
    - repeat split. rewrite Hp. destruct mnp; reflexivity. }
  destruct H3 as [M3 [L3 [P3 O3]]]. rewrite P3. simpl. rewrite upd_length. repeat split.
  - exact M3.
  - exact L3.
  - apply nth_upd_same. rewrite L3. exact Lp.
  - intros z Hz. rewrite nth_upd_other by congruence. apply O3. exact Hz.
Qed.

Lemma d_set_child_spec : forall ds pid base x (isdir : bool) dnp, nth_error (ds_nodes ds) pid = Some dnp ->
  let ds' := d_set_child ds pid base x isdir in
  length (ds_nodes ds') = length (ds_nodes ds) /\
  nth_error (ds_nodes ds') pid = Some (DN (if isdir then bump_nlink (dn_b dnp) else dn_b dnp) (ins base x (dn_ch dnp)) (dn_chunks dnp)) /\
  (forall z, z <> pid -> nth_error (ds_nodes ds') z = nth_error (ds_nodes ds) z) /\
  ds_last ds' = ds_last ds /\ ds_lastsize ds' = ds_lastsize ds.
Proof.
  intros ds pid base x isdir dnp Hp ds'.
  assert (Lp : (pid < length (ds_nodes ds))%nat) by (apply nth_error_Some; congruence).
  unfold ds', d_set_child. rewrite Hp.
  set (sa := d_set_nodes ds (upd (ds_nodes ds) pid (DN (dn_b dnp) (ins base x (dn_ch dnp)) (dn_chunks dnp)))).
  assert (La : length (ds_nodes sa) = length (ds_nodes ds)) by (unfold sa, d_set_nodes; cbn [ds_nodes]; apply upd_length).
  assert (Nap : nth_error (ds_nodes sa) pid = Some (DN (dn_b dnp) (ins base x (dn_ch dnp)) (dn_chunks dnp)))
    by (unfold sa; rewrite nth_set_nodes; apply nth_upd_same; exact Lp).
  assert (Nao : forall z, z <> pid -> nth_error (ds_nodes sa) z = nth_error (ds_nodes ds) z)
    by (intros z Hz; unfold sa; rewrite nth_set_nodes; apply nth_upd_other; congruence).
  destruct isdir.
  - unfold d_upd_bucket. rewrite Nap. cbn [d_set_nodes ds_nodes dn_b dn_ch dn_chunks ds_last ds_lastsize]. rewrite upd_length.
    repeat split.
    + exact La.
    + apply nth_upd_same. rewrite La. exact Lp.
    + intros z Hz. rewrite nth_upd_other by congruence. apply Nao. exact Hz.
  - repeat split; [exact La|exact Nap|exact Nao].
Qed.

Lemma ch_rel_nil : forall f b, ch_rel f [] b -> b = [].
Proof. intros f b H. inversion H. reflexivity. Qed.

(* ---------- linking a pending node below its parent ---------- *)

Lemma Inv_link : forall toc i ms ds f p P' np cp base par k x kp pid,
  Inv toc i ms ds f (p :: P') np cp ->
  p = base :: par ->
  pfind p (ms_m ms) = Some k -> f k = Some x ->
  pfind par (ms_m ms) = Some kp -> f kp = Some pid -> ~ In par (p :: P') ->
  np <> Some k ->
  Inv toc i (m_add_child ms kp base k) (d_set_child ds pid base x (etype_eqb (m_type ms k) TDir)) f P' np cp.
Proof.
  intros toc i ms ds f p P' np cp base par k x kp pid H Hp Hk Hfk Hkp Hfkp Hparn Hnp.
  set (isdir := etype_eqb (m_type ms k) TDir).
  destruct (v_dom _ _ _ _ _ _ _ _ H kp pid Hfkp) as [mnp [dnp [Hmnp [Hdnp Hrelp]]]].
  destruct (v_dom _ _ _ _ _ _ _ _ H k x Hfk) as [mnk [dnk [Hmnk [Hdnk Hrelk]]]].
  destruct (m_add_child_spec ms kp base k mnp Hmnp) as [Mm [Ml [Mp Mo]]]. fold isdir in Mp.
  destruct (d_set_child_spec ds pid base x isdir dnp Hdnp) as [Dl [Dp [Do [Dlast Dsz]]]].
  set (ms' := m_add_child ms kp base k) in *. set (ds' := d_set_child ds pid base x isdir) in *.
  assert (Hkne : kp <> k).
  { intro E. subst kp. assert (par = p) by exact (Inv_pfun_name _ _ _ _ _ _ _ _ H _ _ _ Hkp Hk).
    subst p. apply (f_equal (@length Z)) in H0. simpl in H0. lia. }
  assert (Hpne : p <> []) by (subst p; discriminate).
  assert (HPar : d_find ds par = Some pid) by exact (v_L2 _ _ _ _ _ _ _ _ H par kp pid Hkp Hfkp Hparn).
  assert (HkCh : mn_ch mnk = []).
  { destruct (v_pend _ _ _ _ _ _ _ _ H p (or_introl eq_refl)) as [_ [k0 [x0 [mn0 [Hk0 [_ [Hn0 Hc0]]]]]]].
    rewrite Hk in Hk0. inversion Hk0; subst k0. rewrite Hmnk in Hn0. inversion Hn0; subst mn0. exact Hc0. }
  assert (Hxkids : d_children ds x = []).
  { unfold d_children. rewrite Hdnk. destruct Hrelk as [_ [_ [Hc _]]]. rewrite HkCh in Hc. exact (ch_rel_nil _ _ Hc). }
  assert (Hxne0 : forall q, d_find ds q <> Some x).
  { intros q Hq. destruct q as [|b q].
    - simpl in Hq. inversion Hq; subst x.
      destruct (v_root _ _ _ _ _ _ _ _ H) as [[r [Hr [Hfr _]]]|[_ [_ [Hno _]]]].
      + assert (k = r) by exact (v_inj _ _ _ _ _ _ _ _ H k r O Hfk Hfr). subst r.
        assert (p = []) by exact (Inv_pfun_name _ _ _ _ _ _ _ _ H _ _ _ Hk Hr). contradiction.
      + exact (Hno k Hfk).
    - destruct (v_L1 _ _ _ _ _ _ _ _ H _ x Hq ltac:(discriminate)) as [k' [Hp' [Hk' Hnin]]].
      assert (k' = k) by exact (v_inj _ _ _ _ _ _ _ _ H k' k x Hk' Hfk). subst k'.
      assert (b :: q = p) by exact (Inv_pfun_name _ _ _ _ _ _ _ _ H _ _ _ Hp' Hk).
      apply Hnin. left. symmetry. exact H0. }
  assert (Hnone : find base (d_children ds pid) = None).
  { destruct (d_find ds p) as [y|] eqn:Ey.
    - exfalso. destruct (v_L1 _ _ _ _ _ _ _ _ H p y Ey Hpne) as [_ [_ [_ Hnin]]]. apply Hnin. left. reflexivity.
    - subst p. rewrite d_find_cons, HPar in Ey. exact Ey. }
  assert (Lpid : (pid < length (ds_nodes ds))%nat) by (apply nth_error_Some; congruence).
  assert (Hch' : forall y, d_children ds' y = if Nat.eqb y pid then ins base x (d_children ds pid) else d_children ds y)
    by (intro y; apply d_children_set_child; exact Lpid).
  assert (Hfind' : forall q, d_find ds' q = if path_eqb q (base :: par) then Some x else d_find ds q).
  { apply (d_find_link ds ds' pid base x par Hch' HPar).
    - intros q Hq. exact (Inv_find_inj _ _ _ _ _ _ _ _ H q par pid Hq HPar).
    - exact Hnone.
    - exact Hxkids.
    - exact Hxne0. }
  assert (HnodupP : NoDup (p :: P')) by exact (v_nodupP _ _ _ _ _ _ _ _ H).
  assert (HpP' : ~ In p P') by (inversion HnodupP; assumption).
  (* nodes of the new memory state *)
  assert (Mnth : forall z mn, nth_error (ms_nodes ms') z = Some mn ->
            exists mn0, nth_error (ms_nodes ms) z = Some mn0 /\ mn_e mn = mn_e mn0 /\
                        (z <> kp -> mn = mn0)).
  { intros z mn Hz. destruct (Nat.eq_dec z kp) as [->|Hne].
    - rewrite Mp in Hz. inversion Hz; subst mn. exists mnp. split; [exact Hmnp|]. split; [reflexivity|]. intro; contradiction.
    - rewrite Mo in Hz by exact Hne. exists mn. auto. }
  constructor.
  - rewrite Ml. exact (v_lenm _ _ _ _ _ _ _ _ H).
  - intros j e Hj. rewrite Mm. exact (v_expl _ _ _ _ _ _ _ _ H j e Hj).
  - intros q k0 Hq. rewrite Mm in Hq. destruct (v_mdom _ _ _ _ _ _ _ _ H q k0 Hq) as [mn [Hn Hc]].
    destruct (Nat.eq_dec k0 kp) as [->|Hne].
    + eexists. split; [exact Mp|]. simpl. rewrite Hmnp in Hn. inversion Hn; subst mn. exact Hc.
    + exists mn. split; [rewrite Mo by exact Hne; exact Hn|exact Hc].
  - intros j mn Hj Hn. destruct (Mnth j mn Hn) as [mn0 [Hn0 [He _]]]. rewrite He.
    exact (v_ent _ _ _ _ _ _ _ _ H j mn0 Hj Hn0).
  - intros k0 mn Hk0 Hn. destruct (Mnth k0 mn Hn) as [mn0 [Hn0 [He _]]]. rewrite He.
    exact (v_impl _ _ _ _ _ _ _ _ H k0 mn0 Hk0 Hn0).
  - intros j mn Hj Hn. destruct (Mnth j mn Hn) as [mn0 [Hn0 [He Hsame]]].
    destruct (v_todo _ _ _ _ _ _ _ _ H j mn0 Hj Hn0) as [Hfj Hrest].
    assert (j <> kp) by (intro; subst j; congruence).
    rewrite (Hsame H0). split; assumption.
  - exact (v_done _ _ _ _ _ _ _ _ H).
  - intros k0 x0 Hf0. destruct (Nat.eq_dec k0 kp) as [->|Hne].
    + assert (x0 = pid) by congruence. subst x0.
      eexists. eexists. split; [exact Mp|]. split; [exact Dp|].
      destruct Hrelp as [Hb [Hn1 [Hc Hck]]]. unfold nrel. cbn [mn_e mn_nlink mn_ch dn_b dn_ch dn_chunks].
      repeat split.
      * destruct isdir; [|exact Hb]. rewrite Hb. rewrite bump_write by exact Hn1. f_equal. f_equal. lia.
      * destruct isdir; lia.
      * apply ch_rel_ins; assumption.
      * exact Hck.
    + destruct (v_dom _ _ _ _ _ _ _ _ H k0 x0 Hf0) as [mn [dn [Hn [Hd Hr]]]].
      exists mn, dn. split; [rewrite Mo by exact Hne; exact Hn|]. split; [|exact Hr].
      rewrite Do; [exact Hd|]. intro E. subst x0. apply Hne. exact (v_inj _ _ _ _ _ _ _ _ H k0 kp pid Hf0 Hfkp).
  - exact (v_inj _ _ _ _ _ _ _ _ H).
  - intros q y Hq Hqne. rewrite Hfind' in Hq. rewrite Mm. destruct (path_eqb q (base :: par)) eqn:E.
    + apply path_eqb_eq in E. inversion Hq; subst y. exists k. rewrite E, <- Hp. auto.
    + destruct (v_L1 _ _ _ _ _ _ _ _ H q y Hq Hqne) as [k0 [H1 [H2 H3]]]. exists k0. split; [exact H1|]. split; [exact H2|].
      intro Hin. apply H3. right. exact Hin.
  - intros q k0 y Hq Hf0 Hnin. rewrite Mm in Hq. rewrite Hfind'. destruct (path_eqb q (base :: par)) eqn:E.
    + apply path_eqb_eq in E. rewrite <- Hp in E. subst q. rewrite Hk in Hq. inversion Hq; subst k0. congruence.
    + apply (v_L2 _ _ _ _ _ _ _ _ H q k0 y Hq Hf0). intros [Hin|Hin]; [|exact (Hnin Hin)].
      subst q. rewrite Hp, path_eqb_refl in E. discriminate.
  - rewrite Mm, Ml, Dl. destruct (v_root _ _ _ _ _ _ _ _ H) as [Hl|[H1 [H2 [H3 H4]]]]; [left; exact Hl|right].
    split; [exact H1|]. split; [|split; [exact H3|exact H4]].
    rewrite Do; [exact H2|]. intro E. subst pid. exact (H3 kp Hfkp).
  - intros q Hin. destruct (v_pend _ _ _ _ _ _ _ _ H q (or_intror Hin)) as [Hqne [k0 [x0 [mn0 [H1 [H2 [H3 H4]]]]]]].
    split; [exact Hqne|]. exists k0, x0, mn0. rewrite Mm. split; [exact H1|]. split; [exact H2|]. split; [|exact H4].
    rewrite Mo; [exact H3|]. intro E. subst k0. apply Hparn. right.
    assert (q = par) by exact (Inv_pfun_name _ _ _ _ _ _ _ _ H _ _ _ H1 Hkp). subst q. exact Hin.
  - inversion HnodupP; assumption.
  - intros j Hj. destruct (v_np _ _ _ _ _ _ _ _ H j Hj) as [p0 [[Hin|Hin] Hp0]].
    + subst p0. rewrite Hk in Hp0. inversion Hp0; subst j. contradiction.
    + exists p0. rewrite Mm. auto.
  - intros y Hy. rewrite Dl. exact (v_cp _ _ _ _ _ _ _ _ H y Hy).
Qed.
