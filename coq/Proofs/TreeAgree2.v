(* Tree agreement of the two metadata-store models for TOCs with IMPLICIT parent directories.
   The simulation relation carries an abstract map from memory-store node indices to db node ids. *)
From Coq Require Import List ZArith Bool Lia Arith.
From SV Require Import Model.TreeStores Proofs.TreeStores Proofs.TreeAgree.
Import ListNotations.
Open Scope Z_scope.

Definition pmap := nat -> option nat.
Definition pset (f : pmap) (k x : nat) : pmap := fun z => if Nat.eqb z k then Some x else f z.
Definition psub (f g : pmap) : Prop := forall k x, f k = Some x -> g k = Some x.

Lemma pset_same : forall f k x, pset f k x k = Some x.
Proof. intros. unfold pset. rewrite Nat.eqb_refl. reflexivity. Qed.
Lemma pset_other : forall f k x z, z <> k -> pset f k x z = f z.
Proof. intros f k x z H. unfold pset. apply Nat.eqb_neq in H. rewrite H. reflexivity. Qed.
Lemma psub_refl : forall f, psub f f. Proof. intros f k x H. exact H. Qed.
Lemma psub_trans : forall f g h, psub f g -> psub g h -> psub f h.
Proof. intros f g h H1 H2 k x H. apply H2. apply H1. exact H. Qed.
Lemma psub_pset : forall f k x, f k = None -> psub f (pset f k x).
Proof. intros f k x Hn z y H. unfold pset. destruct (Nat.eqb z k) eqn:E; [apply Nat.eqb_eq in E; subst; congruence|exact H]. Qed.

Definition ch_rel (f : pmap) (a b : list (Z * nat)) : Prop :=
  Forall2 (fun u v => fst u = fst v /\ f (snd u) = Some (snd v)) a b.

Lemma ch_rel_mono : forall f g a b, psub f g -> ch_rel f a b -> ch_rel g a b.
Proof.
  intros f g a b Hs H. induction H as [|u v a b [H1 H2] _ IH]; constructor; [|exact IH].
  split; [exact H1|apply Hs; exact H2].
Qed.

Lemma ch_rel_ins : forall f key c x a b, ch_rel f a b -> f c = Some x -> ch_rel f (ins key c a) (ins key x b).
Proof.
  intros f key c x a b H Hc. induction H as [|[k1 c1] [k2 c2] a b [H1 H2] Hab IH]; simpl in *.
  - constructor; [split; [reflexivity|exact Hc]|constructor].
  - subst k2. destruct (key <? k1).
    + constructor; [split; [reflexivity|exact Hc]|]. constructor; [split; [reflexivity|exact H2]|exact Hab].
    + destruct (key =? k1).
      * constructor; [split; [reflexivity|exact Hc]|exact Hab].
      * constructor; [split; [reflexivity|exact H2]|exact IH].
Qed.

(* q is a suffix of d: as reversed paths, q is d or an ancestor of d *)
Definition sfx (q d : list Z) : Prop := exists pre, d = pre ++ q.
Definition psfx (q d : list Z) : Prop := exists pre, pre <> [] /\ d = pre ++ q.

Lemma sfx_refl : forall d, sfx d d. Proof. intro d. exists []. reflexivity. Qed.
Lemma sfx_tl : forall q b d, sfx q d -> sfx q (b :: d).
Proof. intros q b d [pre H]. exists (b :: pre). simpl. rewrite H. reflexivity. Qed.
Lemma sfx_cons_inv : forall q b d, sfx q (b :: d) -> q = b :: d \/ sfx q d.
Proof.
  intros q b d [pre H]. destruct pre as [|c pre]; simpl in H.
  - left. symmetry. exact H.
  - right. inversion H; subst. exists pre. reflexivity.
Qed.
Lemma sfx_len : forall q d, sfx q d -> (length q <= length d)%nat.
Proof. intros q d [pre H]. subst. rewrite app_length. lia. Qed.
Lemma psfx_of_sfx_cons : forall q b d, sfx q d -> psfx q (b :: d).
Proof. intros q b d [pre H]. exists (b :: pre). split; [discriminate|]. simpl. rewrite H. reflexivity. Qed.
Lemma not_sfx_longer : forall b d, ~ sfx (b :: d) d.
Proof. intros b d H. apply sfx_len in H. simpl in H. lia. Qed.

Lemma clean_rev_plain : forall d, Forall plain d -> clean (rev d) = d.
Proof.
  intros d H. unfold clean. rewrite fold_clean_of_plain by (apply Forall_rev; exact H).
  rewrite rev_involutive, app_nil_r. reflexivity.
Qed.

Lemma cname_implicit : forall d, Forall plain d -> cname (implicit_dir d) = d.
Proof. intros d H. unfold cname, implicit_dir. simpl. apply clean_rev_plain. exact H. Qed.

Lemma cname_plain : forall e, Forall plain (cname e).
Proof. intro e. unfold cname, clean. apply fold_clean_plain. constructor. Qed.

Lemma plain_sfx : forall q d, sfx q d -> Forall plain d -> Forall plain q.
Proof. intros q d [pre H] Hp. subst. apply Forall_app in Hp. tauto. Qed.

(* ---------- the relation ---------- *)

Definition nadj (np : option nat) (k : nat) : Z :=
  match np with Some j => if Nat.eqb j k then 1 else 0 | None => 0 end.

Definition chunks_ok (mn : mnode) (dn : dnode) : Prop :=
  dn_chunks dn = (if etype_eqb (e_type (mn_e mn)) TReg && (e_size (mn_e mn) >? 0)
                  then [db_chunk (mn_e mn) (e_size (mn_e mn))] else []).

(* the chunk list of the node being created is filled in at the very end of its step *)
Definition chk (cp : option nat) (x : nat) (mn : mnode) (dn : dnode) : Prop :=
  (cp <> Some x -> chunks_ok mn dn) /\ (cp = Some x -> dn_chunks dn = []).

Definition nrel (f : pmap) (np cp : option nat) (k x : nat) (mn : mnode) (dn : dnode) : Prop :=
  dn_b dn = write_attr (attr_of (mn_e mn) (mn_nlink mn + nadj np k)) /\ 1 <= mn_nlink mn + nadj np k /\
  ch_rel f (mn_ch mn) (dn_ch dn) /\ chk cp x mn dn.

Definition init_nl (e : entry) : Z := if etype_eqb (e_type e) TDir then 1 else 0.

Record Inv (toc : list entry) (i : nat) (ms : mst) (ds : dst) (f : pmap) (P : list (list Z)) (np cp : option nat) : Prop := {
  v_lenm : (length toc <= length (ms_nodes ms))%nat;
  v_expl : forall j e, nth_error toc j = Some e -> pfind (cname e) (ms_m ms) = Some j;
  v_mdom : forall p k, pfind p (ms_m ms) = Some k ->
             exists mn, nth_error (ms_nodes ms) k = Some mn /\ cname (mn_e mn) = p;
  v_ent : forall j mn, (j < length toc)%nat -> nth_error (ms_nodes ms) j = Some mn -> nth_error toc j = Some (mn_e mn);
  v_impl : forall k mn, (length toc <= k)%nat -> nth_error (ms_nodes ms) k = Some mn ->
             (exists d, mn_e mn = implicit_dir d) /\ f k <> None;
  v_todo : forall j mn, (i <= j < length toc)%nat -> nth_error (ms_nodes ms) j = Some mn ->
             f j = None /\ mn_nlink mn = init_nl (mn_e mn) /\ mn_ch mn = [];
  v_done : forall j, (j < i)%nat -> (j < length toc)%nat -> f j <> None;
  v_dom : forall k x, f k = Some x ->
            exists mn dn, nth_error (ms_nodes ms) k = Some mn /\ nth_error (ds_nodes ds) x = Some dn /\ nrel f np cp k x mn dn;
  v_inj : forall k k' x, f k = Some x -> f k' = Some x -> k = k';
  v_L1 : forall p x, d_find ds p = Some x -> p <> [] ->
           exists k, pfind p (ms_m ms) = Some k /\ f k = Some x /\ ~ In p P;
  v_L2 : forall p k x, pfind p (ms_m ms) = Some k -> f k = Some x -> ~ In p P -> d_find ds p = Some x;
  v_root : (exists r, pfind [] (ms_m ms) = Some r /\ f r = Some O /\ (length (ms_nodes ms) + i = length (ds_nodes ds) + length toc)%nat) \/
           ((pfind [] (ms_m ms) = None \/ exists r0, pfind [] (ms_m ms) = Some r0 /\ f r0 = None)
            /\ nth_error (ds_nodes ds) 0 = Some (DN (write_attr root_attr) [] [])
            /\ (forall k, f k <> Some O) /\ (S (length (ms_nodes ms)) + i = length (ds_nodes ds) + length toc)%nat);
  v_pend : forall p, In p P -> p <> [] /\ exists k x mn, pfind p (ms_m ms) = Some k /\ f k = Some x
                                   /\ nth_error (ms_nodes ms) k = Some mn /\ mn_ch mn = [];
  v_nodupP : NoDup P;
  v_np : forall j, np = Some j -> exists p, In p P /\ pfind p (ms_m ms) = Some j;
  v_cp : forall y, cp = Some y -> (y < length (ds_nodes ds))%nat
}.

Lemma Inv_range : forall toc i ms ds f P np cp, Inv toc i ms ds f P np cp ->
  forall q y, d_find ds q = Some y -> (y < length (ds_nodes ds))%nat.
Proof.
  intros toc i ms ds f P np cp H q y Hq. destruct q as [|b q].
  - simpl in Hq. inversion Hq; subst. destruct (v_root _ _ _ _ _ _ _ _ H) as [[r [_ [Hr _]]]|[_ [H0 _]]].
    + destruct (v_dom _ _ _ _ _ _ _ _ H r O Hr) as [mn [dn [_ [Hd _]]]]. apply nth_error_Some. congruence.
    + apply nth_error_Some. congruence.
  - destruct (v_L1 _ _ _ _ _ _ _ _ H (b :: q) y Hq ltac:(discriminate)) as [k [_ [Hk _]]].
    destruct (v_dom _ _ _ _ _ _ _ _ H k y Hk) as [mn [dn [_ [Hd _]]]]. apply nth_error_Some. congruence.
Qed.

Lemma Inv_pfun_name : forall toc i ms ds f P np cp, Inv toc i ms ds f P np cp ->
  forall p p' k, pfind p (ms_m ms) = Some k -> pfind p' (ms_m ms) = Some k -> p = p'.
Proof.
  intros toc i ms ds f P np cp H p p' k H1 H2.
  destruct (v_mdom _ _ _ _ _ _ _ _ H p k H1) as [mn [Hn Hc]].
  destruct (v_mdom _ _ _ _ _ _ _ _ H p' k H2) as [mn' [Hn' Hc']]. congruence.
Qed.

(* the db store finds [] at node 0, and nothing else there *)
Lemma Inv_find_zero : forall toc i ms ds f P np cp, Inv toc i ms ds f P np cp ->
  forall q, d_find ds q = Some O -> q = [].
Proof.
  intros toc i ms ds f P np cp H q Hq. destruct q as [|b q]; [reflexivity|exfalso].
  destruct (v_L1 _ _ _ _ _ _ _ _ H (b :: q) O Hq ltac:(discriminate)) as [k [Hp [Hk _]]].
  destruct (v_root _ _ _ _ _ _ _ _ H) as [[r [Hr [Hfr _]]]|[_ [_ [Hno _]]]].
  - assert (k = r) by exact (v_inj _ _ _ _ _ _ _ _ H k r O Hk Hfr). subst r.
    assert (b :: q = []) by exact (Inv_pfun_name _ _ _ _ _ _ _ _ H _ _ _ Hp Hr). discriminate.
  - exact (Hno k Hk).
Qed.

(* paths found by the db store are unique per node *)
Lemma Inv_find_inj : forall toc i ms ds f P np cp, Inv toc i ms ds f P np cp ->
  forall q q' y, d_find ds q = Some y -> d_find ds q' = Some y -> q = q'.
Proof.
  intros toc i ms ds f P np cp H q q' y H1 H2.
  destruct q as [|b q]; destruct q' as [|b' q'].
  - reflexivity.
  - simpl in H1. inversion H1; subst. symmetry. exact (Inv_find_zero _ _ _ _ _ _ _ _ H _ H2).
  - simpl in H2. inversion H2; subst. exact (Inv_find_zero _ _ _ _ _ _ _ _ H _ H1).
  - destruct (v_L1 _ _ _ _ _ _ _ _ H _ y H1 ltac:(discriminate)) as [k [Hp [Hk _]]].
    destruct (v_L1 _ _ _ _ _ _ _ _ H _ y H2 ltac:(discriminate)) as [k' [Hp' [Hk' _]]].
    assert (k = k') by exact (v_inj _ _ _ _ _ _ _ _ H k k' y Hk Hk'). subst k'.
    exact (Inv_pfun_name _ _ _ _ _ _ _ _ H _ _ _ Hp Hp').
Qed.

(* ---------- the two primitive updates, explicitly ---------- *)

Lemma m_add_child_spec : forall ms kp base k mnp, nth_error (ms_nodes ms) kp = Some mnp ->
  let isdir := etype_eqb (m_type ms k) TDir in
  let ms' := m_add_child ms kp base k in
  ms_m ms' = ms_m ms /\ length (ms_nodes ms') = length (ms_nodes ms) /\
  nth_error (ms_nodes ms') kp = Some (MN (mn_e mnp) (if isdir then mn_nlink mnp + 1 else mn_nlink mnp) (ins base k (mn_ch mnp))) /\
  (forall z, z <> kp -> nth_error (ms_nodes ms') z = nth_error (ms_nodes ms) z).
Proof.
  intros ms kp base k mnp Hp isdir ms'.
  assert (Lp : (kp < length (ms_nodes ms))%nat) by (apply nth_error_Some; congruence).
  unfold ms', m_add_child. fold isdir.
  set (s3 := if isdir then m_nlink_inc ms kp else ms).
  assert (H3 : ms_m s3 = ms_m ms /\ length (ms_nodes s3) = length (ms_nodes ms) /\
               nth_error (ms_nodes s3) kp = Some (MN (mn_e mnp) (if isdir then mn_nlink mnp + 1 else mn_nlink mnp) (mn_ch mnp)) /\
               (forall z, z <> kp -> nth_error (ms_nodes s3) z = nth_error (ms_nodes ms) z)).
  { unfold s3. destruct isdir.
    - unfold m_nlink_inc. rewrite Hp. simpl. rewrite upd_length. repeat split.
      + apply nth_upd_same. exact Lp.
      + intros z Hz. apply nth_upd_other. congruence.
    - repeat split. rewrite Hp. destruct mnp; reflexivity. }
  destruct H3 as [M3 [L3 [P3 O3]]]. rewrite P3. simpl. rewrite upd_length. repeat split.
  - exact M3.
  - exact L3.
  - apply nth_upd_same. rewrite L3. exact Lp.
  - intros z Hz. rewrite nth_upd_other by congruence. apply O3. exact Hz.
Qed.

Lemma d_set_child_spec : forall ds pid base x (isdir : bool) dnp, nth_error (ds_nodes ds) pid = Some dnp ->
  let ds' := d_set_child ds pid base x isdir in
  length (ds_nodes ds') = length (ds_nodes ds) /\
  nth_error (ds_nodes ds') pid = Some (DN (if isdir then bump_nlink (dn_b dnp) else dn_b dnp) (ins base x (dn_ch dnp)) (dn_chunks dnp)) /\
  (forall z, z <> pid -> nth_error (ds_nodes ds') z = nth_error (ds_nodes ds) z) /\
  ds_last ds' = ds_last ds /\ ds_lastsize ds' = ds_lastsize ds.
Proof.
  intros ds pid base x isdir dnp Hp ds'.
  assert (Lp : (pid < length (ds_nodes ds))%nat) by (apply nth_error_Some; congruence).
  unfold ds', d_set_child. rewrite Hp.
  set (sa := d_set_nodes ds (upd (ds_nodes ds) pid (DN (dn_b dnp) (ins base x (dn_ch dnp)) (dn_chunks dnp)))).
  assert (La : length (ds_nodes sa) = length (ds_nodes ds)) by (unfold sa, d_set_nodes; cbn [ds_nodes]; apply upd_length).
  assert (Nap : nth_error (ds_nodes sa) pid = Some (DN (dn_b dnp) (ins base x (dn_ch dnp)) (dn_chunks dnp)))
    by (unfold sa; rewrite nth_set_nodes; apply nth_upd_same; exact Lp).
  assert (Nao : forall z, z <> pid -> nth_error (ds_nodes sa) z = nth_error (ds_nodes ds) z)
    by (intros z Hz; unfold sa; rewrite nth_set_nodes; apply nth_upd_other; congruence).
  destruct isdir.
  - unfold d_upd_bucket. rewrite Nap. cbn [d_set_nodes ds_nodes dn_b dn_ch dn_chunks ds_last ds_lastsize]. rewrite upd_length.
    repeat split.
    + exact La.
    + apply nth_upd_same. rewrite La. exact Lp.
    + intros z Hz. rewrite nth_upd_other by congruence. apply Nao. exact Hz.
  - repeat split; [exact La|exact Nap|exact Nao].
Qed.

Lemma ch_rel_nil : forall f b, ch_rel f [] b -> b = [].
Proof. intros f b H. inversion H. reflexivity. Qed.

(* ---------- linking a pending node below its parent ---------- *)

Lemma Inv_link : forall toc i ms ds f p P' np cp base par k x kp pid,
  Inv toc i ms ds f (p :: P') np cp ->
  p = base :: par ->
  pfind p (ms_m ms) = Some k -> f k = Some x ->
  pfind par (ms_m ms) = Some kp -> f kp = Some pid -> ~ In par (p :: P') ->
  np <> Some k ->
  Inv toc i (m_add_child ms kp base k) (d_set_child ds pid base x (etype_eqb (m_type ms k) TDir)) f P' np cp.
Proof.
  intros toc i ms ds f p P' np cp base par k x kp pid H Hp Hk Hfk Hkp Hfkp Hparn Hnp.
  set (isdir := etype_eqb (m_type ms k) TDir).
  destruct (v_dom _ _ _ _ _ _ _ _ H kp pid Hfkp) as [mnp [dnp [Hmnp [Hdnp Hrelp]]]].
  destruct (v_dom _ _ _ _ _ _ _ _ H k x Hfk) as [mnk [dnk [Hmnk [Hdnk Hrelk]]]].
  destruct (m_add_child_spec ms kp base k mnp Hmnp) as [Mm [Ml [Mp Mo]]]. fold isdir in Mp.
  destruct (d_set_child_spec ds pid base x isdir dnp Hdnp) as [Dl [Dp [Do [Dlast Dsz]]]].
  set (ms' := m_add_child ms kp base k) in *. set (ds' := d_set_child ds pid base x isdir) in *.
  assert (Hkne : kp <> k).
  { intro E. subst kp. assert (par = p) by exact (Inv_pfun_name _ _ _ _ _ _ _ _ H _ _ _ Hkp Hk).
    subst p. apply (f_equal (@length Z)) in H0. simpl in H0. lia. }
  assert (Hpne : p <> []) by (subst p; discriminate).
  assert (HPar : d_find ds par = Some pid) by exact (v_L2 _ _ _ _ _ _ _ _ H par kp pid Hkp Hfkp Hparn).
  assert (HkCh : mn_ch mnk = []).
  { destruct (v_pend _ _ _ _ _ _ _ _ H p (or_introl eq_refl)) as [_ [k0 [x0 [mn0 [Hk0 [_ [Hn0 Hc0]]]]]]].
    rewrite Hk in Hk0. inversion Hk0; subst k0. rewrite Hmnk in Hn0. inversion Hn0; subst mn0. exact Hc0. }
  assert (Hxkids : d_children ds x = []).
  { unfold d_children. rewrite Hdnk. destruct Hrelk as [_ [_ [Hc _]]]. rewrite HkCh in Hc. exact (ch_rel_nil _ _ Hc). }
  assert (Hxne0 : forall q, d_find ds q <> Some x).
  { intros q Hq. destruct q as [|b q].
    - simpl in Hq. inversion Hq; subst x.
      destruct (v_root _ _ _ _ _ _ _ _ H) as [[r [Hr [Hfr _]]]|[_ [_ [Hno _]]]].
      + assert (k = r) by exact (v_inj _ _ _ _ _ _ _ _ H k r O Hfk Hfr). subst r.
        assert (p = []) by exact (Inv_pfun_name _ _ _ _ _ _ _ _ H _ _ _ Hk Hr). contradiction.
      + exact (Hno k Hfk).
    - destruct (v_L1 _ _ _ _ _ _ _ _ H _ x Hq ltac:(discriminate)) as [k' [Hp' [Hk' Hnin]]].
      assert (k' = k) by exact (v_inj _ _ _ _ _ _ _ _ H k' k x Hk' Hfk). subst k'.
      assert (b :: q = p) by exact (Inv_pfun_name _ _ _ _ _ _ _ _ H _ _ _ Hp' Hk).
      apply Hnin. left. symmetry. exact H0. }
  assert (Hnone : find base (d_children ds pid) = None).
  { destruct (d_find ds p) as [y|] eqn:Ey.
    - exfalso. destruct (v_L1 _ _ _ _ _ _ _ _ H p y Ey Hpne) as [_ [_ [_ Hnin]]]. apply Hnin. left. reflexivity.
    - subst p. rewrite d_find_cons, HPar in Ey. exact Ey. }
  assert (Lpid : (pid < length (ds_nodes ds))%nat) by (apply nth_error_Some; congruence).
  assert (Hch' : forall y, d_children ds' y = if Nat.eqb y pid then ins base x (d_children ds pid) else d_children ds y)
    by (intro y; apply d_children_set_child; exact Lpid).
  assert (Hfind' : forall q, d_find ds' q = if path_eqb q (base :: par) then Some x else d_find ds q).
  { apply (d_find_link ds ds' pid base x par Hch' HPar).
    - intros q Hq. exact (Inv_find_inj _ _ _ _ _ _ _ _ H q par pid Hq HPar).
    - exact Hnone.
    - exact Hxkids.
    - exact Hxne0. }
  assert (HnodupP : NoDup (p :: P')) by exact (v_nodupP _ _ _ _ _ _ _ _ H).
  assert (HpP' : ~ In p P') by (inversion HnodupP; assumption).
  (* nodes of the new memory state *)
  assert (Mnth : forall z mn, nth_error (ms_nodes ms') z = Some mn ->
            exists mn0, nth_error (ms_nodes ms) z = Some mn0 /\ mn_e mn = mn_e mn0 /\
                        (z <> kp -> mn = mn0)).
  { intros z mn Hz. destruct (Nat.eq_dec z kp) as [->|Hne].
    - rewrite Mp in Hz. inversion Hz; subst mn. exists mnp. split; [exact Hmnp|]. split; [reflexivity|]. intro; contradiction.
    - rewrite Mo in Hz by exact Hne. exists mn. auto. }
  constructor.
  - rewrite Ml. exact (v_lenm _ _ _ _ _ _ _ _ H).
  - intros j e Hj. rewrite Mm. exact (v_expl _ _ _ _ _ _ _ _ H j e Hj).
  - intros q k0 Hq. rewrite Mm in Hq. destruct (v_mdom _ _ _ _ _ _ _ _ H q k0 Hq) as [mn [Hn Hc]].
    destruct (Nat.eq_dec k0 kp) as [->|Hne].
    + eexists. split; [exact Mp|]. simpl. rewrite Hmnp in Hn. inversion Hn; subst mn. exact Hc.
    + exists mn. split; [rewrite Mo by exact Hne; exact Hn|exact Hc].
  - intros j mn Hj Hn. destruct (Mnth j mn Hn) as [mn0 [Hn0 [He _]]]. rewrite He.
    exact (v_ent _ _ _ _ _ _ _ _ H j mn0 Hj Hn0).
  - intros k0 mn Hk0 Hn. destruct (Mnth k0 mn Hn) as [mn0 [Hn0 [He _]]]. rewrite He.
    exact (v_impl _ _ _ _ _ _ _ _ H k0 mn0 Hk0 Hn0).
  - intros j mn Hj Hn. destruct (Mnth j mn Hn) as [mn0 [Hn0 [He Hsame]]].
    destruct (v_todo _ _ _ _ _ _ _ _ H j mn0 Hj Hn0) as [Hfj Hrest].
    assert (j <> kp) by (intro; subst j; congruence).
    rewrite (Hsame H0). split; assumption.
  - exact (v_done _ _ _ _ _ _ _ _ H).
  - intros k0 x0 Hf0. destruct (Nat.eq_dec k0 kp) as [->|Hne].
    + assert (x0 = pid) by congruence. subst x0.
      eexists. eexists. split; [exact Mp|]. split; [exact Dp|].
      destruct Hrelp as [Hb [Hn1 [Hc Hck]]]. unfold nrel. cbn [mn_e mn_nlink mn_ch dn_b dn_ch dn_chunks].
      split; [|split; [|split]].
      * destruct isdir; [|exact Hb]. rewrite Hb. rewrite bump_write by exact Hn1. f_equal. f_equal. lia.
      * destruct isdir; lia.
      * apply ch_rel_ins; assumption.
      * exact Hck.
    + destruct (v_dom _ _ _ _ _ _ _ _ H k0 x0 Hf0) as [mn [dn [Hn [Hd Hr]]]].
      exists mn, dn. split; [rewrite Mo by exact Hne; exact Hn|]. split; [|exact Hr].
      rewrite Do; [exact Hd|]. intro E. subst x0. apply Hne. exact (v_inj _ _ _ _ _ _ _ _ H k0 kp pid Hf0 Hfkp).
  - exact (v_inj _ _ _ _ _ _ _ _ H).
  - intros q y Hq Hqne. rewrite Hfind' in Hq. rewrite Mm. destruct (path_eqb q (base :: par)) eqn:E.
    + apply path_eqb_eq in E. inversion Hq; subst y. exists k. rewrite E, <- Hp. auto.
    + destruct (v_L1 _ _ _ _ _ _ _ _ H q y Hq Hqne) as [k0 [H1 [H2 H3]]]. exists k0. split; [exact H1|]. split; [exact H2|].
      intro Hin. apply H3. right. exact Hin.
  - intros q k0 y Hq Hf0 Hnin. rewrite Mm in Hq. rewrite Hfind'. destruct (path_eqb q (base :: par)) eqn:E.
    + apply path_eqb_eq in E. rewrite <- Hp in E. subst q. rewrite Hk in Hq. inversion Hq; subst k0. congruence.
    + apply (v_L2 _ _ _ _ _ _ _ _ H q k0 y Hq Hf0). intros [Hin|Hin]; [|exact (Hnin Hin)].
      subst q. rewrite Hp, path_eqb_refl in E. discriminate.
  - rewrite Mm, Ml, Dl. destruct (v_root _ _ _ _ _ _ _ _ H) as [Hl|[H1 [H2 [H3 H4]]]]; [left; exact Hl|right].
    split; [exact H1|]. split; [|split; [exact H3|exact H4]].
    rewrite Do; [exact H2|]. intro E. subst pid. exact (H3 kp Hfkp).
  - intros q Hin. destruct (v_pend _ _ _ _ _ _ _ _ H q (or_intror Hin)) as [Hqne [k0 [x0 [mn0 [H1 [H2 [H3 H4]]]]]]].
    split; [exact Hqne|]. exists k0, x0, mn0. rewrite Mm. split; [exact H1|]. split; [exact H2|]. split; [|exact H4].
    rewrite Mo; [exact H3|]. intro E. subst k0. apply Hparn. right.
    assert (q = par) by exact (Inv_pfun_name _ _ _ _ _ _ _ _ H _ _ _ H1 Hkp). subst q. exact Hin.
  - inversion HnodupP; assumption.
  - intros j Hj. destruct (v_np _ _ _ _ _ _ _ _ H j Hj) as [p0 [[Hin|Hin] Hp0]].
    + subst p0. rewrite Hk in Hp0. inversion Hp0; subst j. contradiction.
    + exists p0. rewrite Mm. auto.
  - intros y Hy. rewrite Dl. exact (v_cp _ _ _ _ _ _ _ _ H y Hy).
Qed.

(* ---------- creating an implicit directory in both stores (not yet linked) ---------- *)

Lemma nrel_mono : forall f g np cp k x mn dn, psub f g -> nrel f np cp k x mn dn -> nrel g np cp k x mn dn.
Proof. intros f g np cp k x mn dn Hs [H1 [H2 [H3 H4]]]. split; [exact H1|]. split; [exact H2|]. split; [exact (ch_rel_mono f g _ _ Hs H3)|exact H4]. Qed.

Lemma pfind_cons : forall {B} (q d : list Z) (k : B) m, pfind q ((d, k) :: m) = if path_eqb q d then Some k else pfind q m.
Proof. reflexivity. Qed.

Lemma Inv_create : forall toc i ms ds f P np cp d,
  Inv toc i ms ds f P np cp -> pfind d (ms_m ms) = None -> d <> [] -> Forall plain d -> ~ In d P ->
  Inv toc i (MS (ms_nodes ms ++ [MN (implicit_dir d) 2 []]) ((d, length (ms_nodes ms)) :: ms_m ms))
      (fst (d_new ds root_attr)) (pset f (length (ms_nodes ms)) (length (ds_nodes ds))) (d :: P) np cp.
Proof.
  intros toc i ms ds f P np cp d H Hnone Hdne Hplain HdP.
  set (k := length (ms_nodes ms)). set (x := length (ds_nodes ds)).
  set (f' := pset f k x).
  assert (Hfk : f k = None).
  { destruct (f k) as [y|] eqn:E; [|reflexivity]. destruct (v_dom _ _ _ _ _ _ _ _ H k y E) as [mn [_ [Hn _]]].
    assert (nth_error (ms_nodes ms) k = None) by (apply nth_error_None; unfold k; lia). congruence. }
  assert (Hsub : psub f f') by (apply psub_pset; exact Hfk).
  assert (Hlt : forall q k0, pfind q (ms_m ms) = Some k0 -> (k0 < k)%nat).
  { intros q k0 Hq. destruct (v_mdom _ _ _ _ _ _ _ _ H q k0 Hq) as [mn [Hn _]]. apply nth_error_Some. congruence. }
  assert (Hflt : forall k0 y, f k0 = Some y -> (k0 < k)%nat /\ (y < x)%nat).
  { intros k0 y E. destruct (v_dom _ _ _ _ _ _ _ _ H k0 y E) as [mn [dn [Hn [Hd _]]]].
    split; apply nth_error_Some; congruence. }
  assert (Hf'old : forall k0, k0 <> k -> f' k0 = f k0) by (intros; apply pset_other; assumption).
  assert (Hqd : forall q k0, pfind q (ms_m ms) = Some k0 -> path_eqb q d = false).
  { intros q k0 Hq. apply path_eqb_neq. intro; subst q. congruence. }
  assert (Hdfind : forall q, d_find (fst (d_new ds root_attr)) q = d_find ds q).
  { intro q. unfold d_new. simpl fst. apply d_find_app. exact (Inv_range _ _ _ _ _ _ _ _ H). }
  assert (Hlen1 : (1 <= x)%nat).
  { destruct (v_root _ _ _ _ _ _ _ _ H) as [[r [_ [Hr _]]]|[_ [H0 _]]].
    - destruct (Hflt r O Hr). lia.
    - assert (0 < x)%nat by (apply nth_error_Some; congruence). lia. }
  assert (Hnpk : nadj np k = 0).
  { unfold nadj. destruct np as [j|]; [|reflexivity]. destruct (v_np _ _ _ _ _ _ _ _ H j eq_refl) as [p0 [_ Hp0]].
    apply Hlt in Hp0. replace (Nat.eqb j k) with false by (symmetry; apply Nat.eqb_neq; lia). reflexivity. }
  assert (Dn : forall z, (z < x)%nat -> nth_error (ds_nodes (fst (d_new ds root_attr))) z = nth_error (ds_nodes ds) z)
    by (intros z Hz; unfold d_new; simpl; apply nth_error_app1; exact Hz).
  assert (Dx : nth_error (ds_nodes (fst (d_new ds root_attr))) x = Some (DN (write_attr root_attr) [] []))
    by (unfold d_new; simpl; rewrite nth_error_app2 by (unfold x; lia); unfold x; rewrite Nat.sub_diag; reflexivity).
  assert (Mn : forall z, (z < k)%nat -> nth_error (ms_nodes ms ++ [MN (implicit_dir d) 2 []]) z = nth_error (ms_nodes ms) z)
    by (intros z Hz; apply nth_error_app1; exact Hz).
  assert (Mk : nth_error (ms_nodes ms ++ [MN (implicit_dir d) 2 []]) k = Some (MN (implicit_dir d) 2 []))
    by (rewrite nth_error_app2 by (unfold k; lia); unfold k; rewrite Nat.sub_diag; reflexivity).
  constructor; cbn [ms_nodes ms_m].
  - rewrite app_length. pose proof (v_lenm _ _ _ _ _ _ _ _ H). lia.
  - intros j e Hj. rewrite pfind_cons. pose proof (v_expl _ _ _ _ _ _ _ _ H j e Hj) as Hp. rewrite (Hqd _ _ Hp). exact Hp.
  - intros q k0 Hq. rewrite pfind_cons in Hq. destruct (path_eqb q d) eqn:E.
    + apply path_eqb_eq in E. inversion Hq; subst. eexists. split; [exact Mk|]. apply cname_implicit. exact Hplain.
    + destruct (v_mdom _ _ _ _ _ _ _ _ H q k0 Hq) as [mn [Hn Hc]]. exists mn. split; [|exact Hc].
      rewrite Mn; [exact Hn|]. exact (Hlt q k0 Hq).
  - intros j mn Hj Hn. pose proof (v_lenm _ _ _ _ _ _ _ _ H). rewrite Mn in Hn by (unfold k; lia).
    exact (v_ent _ _ _ _ _ _ _ _ H j mn Hj Hn).
  - intros k0 mn Hk0 Hn. destruct (Nat.lt_ge_cases k0 k) as [Hl|Hg].
    + rewrite Mn in Hn by exact Hl. destruct (v_impl _ _ _ _ _ _ _ _ H k0 mn Hk0 Hn) as [Hd Hf0]. split; [exact Hd|].
      rewrite Hf'old by lia. exact Hf0.
    + destruct (Nat.eq_dec k0 k) as [->|Hne].
      * rewrite Mk in Hn. inversion Hn; subst mn. split; [exists d; reflexivity|]. unfold f'. rewrite pset_same. discriminate.
      * assert (nth_error (ms_nodes ms ++ [MN (implicit_dir d) 2 []]) k0 = None)
          by (apply nth_error_None; rewrite app_length; simpl; unfold k in *; lia). congruence.
  - intros j mn Hj Hn. pose proof (v_lenm _ _ _ _ _ _ _ _ H). rewrite Mn in Hn by (unfold k; lia).
    rewrite Hf'old by (unfold k; lia). exact (v_todo _ _ _ _ _ _ _ _ H j mn Hj Hn).
  - intros j Hj Hjn. pose proof (v_lenm _ _ _ _ _ _ _ _ H). rewrite Hf'old by (unfold k; lia).
    exact (v_done _ _ _ _ _ _ _ _ H j Hj Hjn).
  - intros k0 x0 Hf0. destruct (Nat.eq_dec k0 k) as [->|Hne].
    + unfold f' in Hf0. rewrite pset_same in Hf0. inversion Hf0; subst x0.
      eexists. eexists. split; [exact Mk|]. split; [exact Dx|].
      unfold nrel. cbn [mn_e mn_nlink mn_ch dn_b dn_ch dn_chunks]. rewrite Hnpk.
      split; [reflexivity|]. split; [lia|]. split; [constructor|]. split; [intros _; reflexivity|intros _; reflexivity].
    + rewrite Hf'old in Hf0 by exact Hne. destruct (Hflt k0 x0 Hf0) as [Hk0 Hx0].
      destruct (v_dom _ _ _ _ _ _ _ _ H k0 x0 Hf0) as [mn [dn [Hn [Hd Hr]]]].
      exists mn, dn. split; [rewrite Mn by exact Hk0; exact Hn|]. split; [rewrite Dn by exact Hx0; exact Hd|].
      exact (nrel_mono f f' _ _ _ _ _ _ Hsub Hr).
  - intros k0 k1 y H0 H1. destruct (Nat.eq_dec k0 k) as [->|Hne0]; destruct (Nat.eq_dec k1 k) as [->|Hne1]; try reflexivity.
    + unfold f' in H0. rewrite pset_same in H0. inversion H0; subst y. rewrite Hf'old in H1 by exact Hne1.
      destruct (Hflt k1 x H1). lia.
    + unfold f' in H1. rewrite pset_same in H1. inversion H1; subst y. rewrite Hf'old in H0 by exact Hne0.
      destruct (Hflt k0 x H0). lia.
    + rewrite Hf'old in H0, H1 by assumption. exact (v_inj _ _ _ _ _ _ _ _ H k0 k1 y H0 H1).
  - intros q y Hq Hqne. rewrite Hdfind in Hq. destruct (v_L1 _ _ _ _ _ _ _ _ H q y Hq Hqne) as [k0 [H1 [H2 H3]]].
    exists k0. rewrite pfind_cons, (Hqd _ _ H1). split; [exact H1|]. split; [apply Hsub; exact H2|].
    intros [E|Hin]; [subst q; congruence|exact (H3 Hin)].
  - intros q k0 y Hq Hf0 Hnin. rewrite Hdfind. rewrite pfind_cons in Hq. destruct (path_eqb q d) eqn:E.
    + apply path_eqb_eq in E. subst q. exfalso. apply Hnin. left. reflexivity.
    + pose proof (Hlt q k0 Hq). rewrite Hf'old in Hf0 by lia.
      apply (v_L2 _ _ _ _ _ _ _ _ H q k0 y Hq Hf0). intro Hin. apply Hnin. right. exact Hin.
  - rewrite pfind_cons. rewrite (path_eqb_neq [] d) by (intro E; apply Hdne; symmetry; exact E).
    rewrite app_length. simpl length. unfold d_new. cbn [fst d_set_nodes ds_nodes]. rewrite app_length. simpl length.
    destruct (v_root _ _ _ _ _ _ _ _ H) as [[r [Hr [Hfr Hl]]]|[H1 [H2 [H3 H4]]]].
    + left. exists r. split; [exact Hr|]. split; [apply Hsub; exact Hfr|]. lia.
    + right. split.
      { destruct H1 as [H1|[r0 [Hr0 Hfr0]]]; [left; exact H1|right]. exists r0. split; [exact Hr0|].
        rewrite Hf'old; [exact Hfr0|]. pose proof (Hlt _ _ Hr0). lia. }
      split; [rewrite nth_error_app1 by (fold x; lia); exact H2|]. split; [|lia].
      intros k0 Hk0. destruct (Nat.eq_dec k0 k) as [->|Hne].
      * unfold f' in Hk0. rewrite pset_same in Hk0. inversion Hk0. lia.
      * rewrite Hf'old in Hk0 by exact Hne. exact (H3 k0 Hk0).
  - intros q [E|Hin].
    + subst q. split; [exact Hdne|]. exists k, x, (MN (implicit_dir d) 2 []). rewrite pfind_cons, path_eqb_refl.
      split; [reflexivity|]. split; [unfold f'; apply pset_same|]. split; [exact Mk|reflexivity].
    + destruct (v_pend _ _ _ _ _ _ _ _ H q Hin) as [Hqne [k0 [x0 [mn0 [H1 [H2 [H3 H4]]]]]]].
      split; [exact Hqne|]. exists k0, x0, mn0. rewrite pfind_cons, (Hqd _ _ H1).
      split; [exact H1|]. split; [apply Hsub; exact H2|]. split; [rewrite Mn by exact (Hlt _ _ H1); exact H3|exact H4].
  - constructor; [exact HdP|exact (v_nodupP _ _ _ _ _ _ _ _ H)].
  - intros j Hj. destruct (v_np _ _ _ _ _ _ _ _ H j Hj) as [p0 [Hin Hp0]]. exists p0. split; [right; exact Hin|].
    rewrite pfind_cons, (Hqd _ _ Hp0). exact Hp0.
  - intros y Hy. pose proof (v_cp _ _ _ _ _ _ _ _ H y Hy). unfold d_new. cbn [fst d_set_nodes ds_nodes]. rewrite app_length. lia.
Qed.

(* the memory store creates its root lazily; the db store has had it from the start *)
Lemma Inv_root_create : forall toc i ms ds f P np cp,
  Inv toc i ms ds f P np cp -> pfind [] (ms_m ms) = None ->
  Inv toc i (MS (ms_nodes ms ++ [MN (implicit_dir []) 2 []]) (([], length (ms_nodes ms)) :: ms_m ms))
      ds (pset f (length (ms_nodes ms)) O) P np cp.
Proof.
  intros toc i ms ds f P np cp H Hnone.
  set (k := length (ms_nodes ms)). set (f' := pset f k O).
  destruct (v_root _ _ _ _ _ _ _ _ H) as [[r [Hr _]]|[_ [Hroot [Hno Hlen]]]]; [congruence|].
  assert (Hfk : f k = None).
  { destruct (f k) as [y|] eqn:E; [|reflexivity]. destruct (v_dom _ _ _ _ _ _ _ _ H k y E) as [mn [_ [Hn _]]].
    assert (nth_error (ms_nodes ms) k = None) by (apply nth_error_None; unfold k; lia). congruence. }
  assert (Hsub : psub f f') by (apply psub_pset; exact Hfk).
  assert (Hlt : forall q k0, pfind q (ms_m ms) = Some k0 -> (k0 < k)%nat).
  { intros q k0 Hq. destruct (v_mdom _ _ _ _ _ _ _ _ H q k0 Hq) as [mn [Hn _]]. apply nth_error_Some. congruence. }
  assert (Hflt : forall k0 y, f k0 = Some y -> (k0 < k)%nat).
  { intros k0 y E. destruct (v_dom _ _ _ _ _ _ _ _ H k0 y E) as [mn [dn [Hn _]]]. apply nth_error_Some. congruence. }
  assert (Hf'old : forall k0, k0 <> k -> f' k0 = f k0) by (intros; apply pset_other; assumption).
  assert (Hqd : forall q k0, pfind q (ms_m ms) = Some k0 -> path_eqb q [] = false).
  { intros q k0 Hq. apply path_eqb_neq. intro; subst q. congruence. }
  assert (Hnpk : nadj np k = 0).
  { unfold nadj. destruct np as [j|]; [|reflexivity]. destruct (v_np _ _ _ _ _ _ _ _ H j eq_refl) as [p0 [_ Hp0]].
    apply Hlt in Hp0. replace (Nat.eqb j k) with false by (symmetry; apply Nat.eqb_neq; lia). reflexivity. }
  assert (Mn : forall z, (z < k)%nat -> nth_error (ms_nodes ms ++ [MN (implicit_dir []) 2 []]) z = nth_error (ms_nodes ms) z)
    by (intros z Hz; apply nth_error_app1; exact Hz).
  assert (Mk : nth_error (ms_nodes ms ++ [MN (implicit_dir []) 2 []]) k = Some (MN (implicit_dir []) 2 []))
    by (rewrite nth_error_app2 by (unfold k; lia); unfold k; rewrite Nat.sub_diag; reflexivity).
  constructor; cbn [ms_nodes ms_m].
  - rewrite app_length. pose proof (v_lenm _ _ _ _ _ _ _ _ H). lia.
  - intros j e Hj. rewrite pfind_cons. pose proof (v_expl _ _ _ _ _ _ _ _ H j e Hj) as Hp. rewrite (Hqd _ _ Hp). exact Hp.
  - intros q k0 Hq. rewrite pfind_cons in Hq. destruct (path_eqb q []) eqn:E.
    + apply path_eqb_eq in E. inversion Hq; subst. eexists. split; [exact Mk|]. reflexivity.
    + destruct (v_mdom _ _ _ _ _ _ _ _ H q k0 Hq) as [mn [Hn Hc]]. exists mn. split; [|exact Hc].
      rewrite Mn; [exact Hn|]. exact (Hlt q k0 Hq).
  - intros j mn Hj Hn. pose proof (v_lenm _ _ _ _ _ _ _ _ H). rewrite Mn in Hn by (unfold k; lia).
    exact (v_ent _ _ _ _ _ _ _ _ H j mn Hj Hn).
  - intros k0 mn Hk0 Hn. destruct (Nat.lt_ge_cases k0 k) as [Hl|Hg].
    + rewrite Mn in Hn by exact Hl. destruct (v_impl _ _ _ _ _ _ _ _ H k0 mn Hk0 Hn) as [Hd Hf0]. split; [exact Hd|].
      rewrite Hf'old by lia. exact Hf0.
    + destruct (Nat.eq_dec k0 k) as [->|Hne].
      * rewrite Mk in Hn. inversion Hn; subst mn. split; [exists []; reflexivity|]. unfold f'. rewrite pset_same. discriminate.
      * assert (nth_error (ms_nodes ms ++ [MN (implicit_dir []) 2 []]) k0 = None)
          by (apply nth_error_None; rewrite app_length; simpl; unfold k in *; lia). congruence.
  - intros j mn Hj Hn. pose proof (v_lenm _ _ _ _ _ _ _ _ H). rewrite Mn in Hn by (unfold k; lia).
    rewrite Hf'old by (unfold k; lia). exact (v_todo _ _ _ _ _ _ _ _ H j mn Hj Hn).
  - intros j Hj Hjn. pose proof (v_lenm _ _ _ _ _ _ _ _ H). rewrite Hf'old by (unfold k; lia).
    exact (v_done _ _ _ _ _ _ _ _ H j Hj Hjn).
  - intros k0 x0 Hf0. destruct (Nat.eq_dec k0 k) as [->|Hne].
    + unfold f' in Hf0. rewrite pset_same in Hf0. inversion Hf0; subst x0.
      eexists. eexists. split; [exact Mk|]. split; [exact Hroot|].
      unfold nrel. cbn [mn_e mn_nlink mn_ch dn_b dn_ch dn_chunks]. rewrite Hnpk.
      split; [reflexivity|]. split; [lia|]. split; [constructor|]. split; [intros _; reflexivity|intros _; reflexivity].
    + rewrite Hf'old in Hf0 by exact Hne. pose proof (Hflt k0 x0 Hf0) as Hk0.
      destruct (v_dom _ _ _ _ _ _ _ _ H k0 x0 Hf0) as [mn [dn [Hn [Hd Hr]]]].
      exists mn, dn. split; [rewrite Mn by exact Hk0; exact Hn|]. split; [exact Hd|].
      exact (nrel_mono f f' _ _ _ _ _ _ Hsub Hr).
  - intros k0 k1 y H0 H1. destruct (Nat.eq_dec k0 k) as [->|Hne0]; destruct (Nat.eq_dec k1 k) as [->|Hne1]; try reflexivity.
    + unfold f' in H0. rewrite pset_same in H0. inversion H0; subst y. rewrite Hf'old in H1 by exact Hne1.
      exfalso. exact (Hno k1 H1).
    + unfold f' in H1. rewrite pset_same in H1. inversion H1; subst y. rewrite Hf'old in H0 by exact Hne0.
      exfalso. exact (Hno k0 H0).
    + rewrite Hf'old in H0, H1 by assumption. exact (v_inj _ _ _ _ _ _ _ _ H k0 k1 y H0 H1).
  - intros q y Hq Hqne. destruct (v_L1 _ _ _ _ _ _ _ _ H q y Hq Hqne) as [k0 [H1 [H2 H3]]].
    exists k0. rewrite pfind_cons, (Hqd _ _ H1). split; [exact H1|]. split; [apply Hsub; exact H2|exact H3].
  - intros q k0 y Hq Hf0 Hnin. rewrite pfind_cons in Hq. destruct (path_eqb q []) eqn:E.
    + apply path_eqb_eq in E. subst q. inversion Hq; subst k0. unfold f' in Hf0. rewrite pset_same in Hf0. inversion Hf0. reflexivity.
    + pose proof (Hlt q k0 Hq). rewrite Hf'old in Hf0 by lia. exact (v_L2 _ _ _ _ _ _ _ _ H q k0 y Hq Hf0 Hnin).
  - left. exists k. rewrite pfind_cons. simpl. split; [reflexivity|]. split; [unfold f'; apply pset_same|].
    rewrite app_length. simpl. fold k. lia.
  - intros q Hin. destruct (v_pend _ _ _ _ _ _ _ _ H q Hin) as [Hqne [k0 [x0 [mn0 [H1 [H2 [H3 H4]]]]]]].
    split; [exact Hqne|]. exists k0, x0, mn0. rewrite pfind_cons, (Hqd _ _ H1).
    split; [exact H1|]. split; [apply Hsub; exact H2|]. split; [rewrite Mn by exact (Hlt _ _ H1); exact H3|exact H4].
  - exact (v_nodupP _ _ _ _ _ _ _ _ H).
  - intros j Hj. destruct (v_np _ _ _ _ _ _ _ _ H j Hj) as [p0 [Hin Hp0]]. exists p0. split; [exact Hin|].
    rewrite pfind_cons, (Hqd _ _ Hp0). exact Hp0.
  - exact (v_cp _ _ _ _ _ _ _ _ H).
Qed.

(* ---------- getOrCreateDir of both stores ---------- *)

Lemma m_add_child_m : forall s kp b k, ms_m (m_add_child s kp b k) = ms_m s.
Proof.
  intros s kp b k. unfold m_add_child.
  set (s1 := if etype_eqb (m_type s k) TDir then m_nlink_inc s kp else s).
  assert (H1 : ms_m s1 = ms_m s).
  { unfold s1. destruct (etype_eqb (m_type s k) TDir); [|reflexivity]. unfold m_nlink_inc. destruct (nth_error (ms_nodes s) kp); reflexivity. }
  destruct (nth_error (ms_nodes s1) kp); simpl; exact H1.
Qed.

Lemma m_goc_cons_none : forall s b t, pfind (b :: t) (ms_m s) = None ->
  m_goc s (b :: t) =
  let k := length (ms_nodes s) in
  let s1 := MS (ms_nodes s ++ [MN (implicit_dir (b :: t)) 2 []]) ((b :: t, k) :: ms_m s) in
  let '(s2, pid) := m_goc s1 t in (m_add_child s2 pid b k, k).
Proof. intros s b t H. cbn [m_goc]. rewrite H. reflexivity. Qed.

Lemma d_goc_cons_none : forall s b t, d_find s (b :: t) = None ->
  d_goc s (b :: t) =
  let s1 := d_set_nodes s (ds_nodes s ++ [DN (write_attr root_attr) [] []]) in
  let k := length (ds_nodes s) in
  let '(s2, pid) := d_goc s1 t in (d_set_child s2 pid b k true, k).
Proof. intros s b t H. cbn [d_goc]. rewrite H. reflexivity. Qed.

Lemma goc_sim : forall toc i np cp d ms ds f P,
  Inv toc i ms ds f P np cp -> Forall plain d ->
  (forall q k, sfx q d -> pfind q (ms_m ms) = Some k -> f k <> None) ->
  (forall q, sfx q d -> ~ In q P) ->
  exists ms' ds' f' kp pid,
    m_goc ms d = (ms', kp) /\ d_goc ds d = (ds', pid) /\ Inv toc i ms' ds' f' P np cp /\
    pfind d (ms_m ms') = Some kp /\ f' kp = Some pid /\ psub f f' /\
    (forall q k, pfind q (ms_m ms) = Some k -> pfind q (ms_m ms') = Some k).
Proof.
  intros toc i np cp. induction d as [|b t IH]; intros ms ds f P H Hplain Hanc HnP.
  - destruct (pfind [] (ms_m ms)) as [r|] eqn:Er.
    + destruct (f r) as [y|] eqn:Ey; [|exfalso; exact (Hanc [] r (sfx_refl []) Er Ey)].
      pose proof (v_L2 _ _ _ _ _ _ _ _ H [] r y Er Ey (HnP [] (sfx_refl []))) as Hd. simpl in Hd. inversion Hd; subst y.
      exists ms, ds, f, r, O. rewrite (m_goc_found ms [] r Er).
      split; [reflexivity|]. split; [reflexivity|]. split; [exact H|]. split; [exact Er|]. split; [exact Ey|]. split; [apply psub_refl|auto].
    + pose proof (Inv_root_create _ _ _ _ _ _ _ _ H Er) as H1.
      eexists. exists ds. eexists. exists (length (ms_nodes ms)), O.
      split; [simpl; rewrite Er; reflexivity|]. split; [reflexivity|]. split; [exact H1|].
      cbn [ms_m]. split; [rewrite pfind_cons; reflexivity|]. split; [apply pset_same|]. split.
      * apply psub_pset. destruct (f (length (ms_nodes ms))) as [y|] eqn:E; [|reflexivity].
        destruct (v_dom _ _ _ _ _ _ _ _ H _ y E) as [mn [_ [Hn _]]].
        assert (nth_error (ms_nodes ms) (length (ms_nodes ms)) = None) by (apply nth_error_None; lia). congruence.
      * intros q k Hq. rewrite pfind_cons. rewrite path_eqb_neq; [exact Hq|]. intro; subst q. congruence.
  - set (d := b :: t) in *.
    destruct (pfind d (ms_m ms)) as [k0|] eqn:Ek.
    + destruct (f k0) as [y|] eqn:Ey; [|exfalso; exact (Hanc d k0 (sfx_refl d) Ek Ey)].
      pose proof (v_L2 _ _ _ _ _ _ _ _ H d k0 y Ek Ey (HnP d (sfx_refl d))) as Hd.
      exists ms, ds, f, k0, y. rewrite (m_goc_found ms d k0 Ek), (d_goc_found ds d y Hd).
      split; [reflexivity|]. split; [reflexivity|]. split; [exact H|]. split; [exact Ek|]. split; [exact Ey|]. split; [apply psub_refl|auto].
    + assert (Ed : d_find ds d = None).
      { destruct (d_find ds d) as [y|] eqn:E; [|reflexivity].
        destruct (v_L1 _ _ _ _ _ _ _ _ H d y E ltac:(discriminate)) as [k0 [Hk0 _]]. congruence. }
      set (k := length (ms_nodes ms)). set (x := length (ds_nodes ds)).
      assert (HdP : ~ In d P) by exact (HnP d (sfx_refl d)).
      pose proof (Inv_create _ _ _ _ _ _ _ _ d H Ek ltac:(discriminate) Hplain HdP) as H1.
      set (ms1 := MS (ms_nodes ms ++ [MN (implicit_dir d) 2 []]) ((d, k) :: ms_m ms)) in *.
      set (ds1 := fst (d_new ds root_attr)) in *. set (f1 := pset f k x) in *.
      assert (Hfk : f k = None).
      { destruct (f k) as [y|] eqn:E; [|reflexivity]. destruct (v_dom _ _ _ _ _ _ _ _ H k y E) as [mn [_ [Hn _]]].
        assert (nth_error (ms_nodes ms) k = None) by (apply nth_error_None; unfold k; lia). congruence. }
      assert (Hsub1 : psub f f1) by (apply psub_pset; exact Hfk).
      assert (Hplt : Forall plain t) by (inversion Hplain; assumption).
      assert (Hqne : forall q, sfx q t -> q <> d).
      { intros q Hq E. subst q. exact (not_sfx_longer b t Hq). }
      destruct (IH ms1 ds1 f1 (d :: P) H1 Hplt) as [ms2 [ds2 [f2 [kp [pid [G1 [G2 [H2 [Hpt [Hfkp [Hsub2 Hmono2]]]]]]]]]]].
      { intros q k0 Hq Hp Hf. cbn [ms1 ms_m] in Hp. rewrite pfind_cons in Hp.
        rewrite (path_eqb_neq q d (Hqne q Hq)) in Hp.
        destruct (f k0) as [y|] eqn:Ey.
        - rewrite (Hsub1 k0 y Ey) in Hf. discriminate.
        - exact (Hanc q k0 (sfx_tl q b t Hq) Hp Ey). }
      { intros q Hq [E|Hin]; [exact (Hqne q Hq (eq_sym E))|exact (HnP q (sfx_tl q b t Hq) Hin)]. }
      assert (Hdk2 : pfind d (ms_m ms2) = Some k).
      { apply Hmono2. cbn [ms1 ms_m]. rewrite pfind_cons, path_eqb_refl. reflexivity. }
      assert (Hfk2 : f2 k = Some x) by (apply Hsub2; unfold f1; apply pset_same).
      assert (HtP : ~ In t (d :: P)).
      { intros [E|Hin]; [exact (Hqne t (sfx_refl t) (eq_sym E))|exact (HnP t (sfx_tl t b t (sfx_refl t)) Hin)]. }
      assert (Hnpk : np <> Some k).
      { intro E. destruct (v_np _ _ _ _ _ _ _ _ H k E) as [p0 [_ Hp0]].
        destruct (v_mdom _ _ _ _ _ _ _ _ H p0 k Hp0) as [mn [Hn _]].
        assert (nth_error (ms_nodes ms) k = None) by (apply nth_error_None; unfold k; lia). congruence. }
      pose proof (Inv_link _ _ _ _ _ d P np cp b t k x kp pid H2 eq_refl Hdk2 Hfk2 Hpt Hfkp HtP Hnpk) as H3.
      assert (Htype : etype_eqb (m_type ms2 k) TDir = true).
      { destruct (v_mdom _ _ _ _ _ _ _ _ H2 d k Hdk2) as [mn [Hn _]].
        assert (Hkn : (length toc <= k)%nat) by (unfold k; exact (v_lenm _ _ _ _ _ _ _ _ H)).
        destruct (v_impl _ _ _ _ _ _ _ _ H2 k mn Hkn Hn) as [[d' Hd'] _].
        unfold m_type. rewrite Hn, Hd'. reflexivity. }
      rewrite Htype in H3.
      exists (m_add_child ms2 kp b k), (d_set_child ds2 pid b x true), f2, k, x.
      split.
      { unfold d. rewrite (m_goc_cons_none ms b t Ek). cbv zeta. fold d. fold k. fold ms1. rewrite G1. reflexivity. }
      split.
      { unfold d. rewrite (d_goc_cons_none ds b t Ed). cbv zeta. fold d. fold x.
        change (d_set_nodes ds (ds_nodes ds ++ [DN (write_attr root_attr) [] []])) with ds1.
        rewrite G2. reflexivity. }
      split; [exact H3|].
      rewrite m_add_child_m. split; [exact Hdk2|]. split; [exact Hfk2|]. split; [exact (psub_trans _ _ _ Hsub1 Hsub2)|].
      intros q k0 Hq. apply Hmono2. cbn [ms1 ms_m]. rewrite pfind_cons. rewrite path_eqb_neq; [exact Hq|].
      intro; subst q. congruence.
Qed.

(* ---------- one entry (not a hardlink, not a chunk, not yet present in the db tree) ---------- *)

Lemma nrel_retag : forall f g np cp np' cp' k x mn dn, psub f g ->
  nadj np' k = nadj np k -> ((cp' = Some x) <-> (cp = Some x)) ->
  nrel f np cp k x mn dn -> nrel g np' cp' k x mn dn.
Proof.
  intros f g np cp np' cp' k x mn dn Hs Ha Hc [H1 [H2 [H3 [H4 H5]]]]. unfold nrel. rewrite Ha.
  split; [exact H1|]. split; [exact H2|]. split; [exact (ch_rel_mono f g _ _ Hs H3)|].
  split; intro E; [apply H4|apply H5]; tauto.
Qed.

(* the db store creates the node of entry i *)
Lemma Inv_begin : forall toc i ms ds f e,
  Inv toc i ms ds f [] None None -> nth_error toc i = Some e -> cname e <> [] ->
  Inv toc (S i) ms (fst (d_new ds (attr_of e (init_nl e + 1)))) (pset f i (length (ds_nodes ds)))
      [cname e] (Some i) (Some (length (ds_nodes ds))).
Proof.
  intros toc i ms ds f e H Hi Hne.
  set (x := length (ds_nodes ds)). set (f' := pset f i x).
  assert (Li : (i < length toc)%nat) by (apply nth_error_Some; congruence).
  destruct (nth_error (ms_nodes ms) i) as [mni|] eqn:Hmni;
    [|apply nth_error_None in Hmni; pose proof (v_lenm _ _ _ _ _ _ _ _ H); lia].
  assert (Hei : mn_e mni = e).
  { pose proof (v_ent _ _ _ _ _ _ _ _ H i mni Li Hmni) as E. rewrite Hi in E. inversion E. reflexivity. }
  destruct (v_todo _ _ _ _ _ _ _ _ H i mni (conj (le_n i) Li) Hmni) as [Hfi [Hnl Hch]].
  assert (Hsub : psub f f') by (apply psub_pset; exact Hfi).
  assert (Hpi : pfind (cname e) (ms_m ms) = Some i) by exact (v_expl _ _ _ _ _ _ _ _ H i e Hi).
  assert (Hflt : forall k0 y, f k0 = Some y -> (y < x)%nat).
  { intros k0 y E. destruct (v_dom _ _ _ _ _ _ _ _ H k0 y E) as [mn [dn [_ [Hd _]]]]. apply nth_error_Some. congruence. }
  assert (Hf'old : forall k0, k0 <> i -> f' k0 = f k0) by (intros; apply pset_other; assumption).
  assert (Hdfind : forall q, d_find (fst (d_new ds (attr_of e (init_nl e + 1)))) q = d_find ds q).
  { intro q. unfold d_new. simpl fst. apply d_find_app. exact (Inv_range _ _ _ _ _ _ _ _ H). }
  assert (Dn : forall z, (z < x)%nat -> nth_error (ds_nodes (fst (d_new ds (attr_of e (init_nl e + 1))))) z = nth_error (ds_nodes ds) z)
    by (intros z Hz; unfold d_new; simpl; apply nth_error_app1; exact Hz).
  assert (Dx : nth_error (ds_nodes (fst (d_new ds (attr_of e (init_nl e + 1))))) x = Some (DN (write_attr (attr_of e (init_nl e + 1))) [] []))
    by (unfold d_new; simpl; rewrite nth_error_app2 by (unfold x; lia); unfold x; rewrite Nat.sub_diag; reflexivity).
  assert (Hnamei : forall q k0, pfind q (ms_m ms) = Some k0 -> k0 <> i -> q <> cname e).
  { intros q k0 Hq Hk0 E. subst q. congruence. }
  constructor.
  - exact (v_lenm _ _ _ _ _ _ _ _ H).
  - exact (v_expl _ _ _ _ _ _ _ _ H).
  - exact (v_mdom _ _ _ _ _ _ _ _ H).
  - exact (v_ent _ _ _ _ _ _ _ _ H).
  - intros k0 mn Hk0 Hn. destruct (v_impl _ _ _ _ _ _ _ _ H k0 mn Hk0 Hn) as [Hd Hf0]. split; [exact Hd|].
    rewrite Hf'old by lia. exact Hf0.
  - intros j mn Hj Hn. rewrite Hf'old by lia. apply (v_todo _ _ _ _ _ _ _ _ H j mn); [lia|exact Hn].
  - intros j Hj Hjn. destruct (Nat.eq_dec j i) as [->|Hji].
    + unfold f'. rewrite pset_same. discriminate.
    + rewrite Hf'old by exact Hji. apply (v_done _ _ _ _ _ _ _ _ H); lia.
  - intros k0 x0 Hf0. destruct (Nat.eq_dec k0 i) as [->|Hne0].
    + unfold f' in Hf0. rewrite pset_same in Hf0. inversion Hf0; subst x0.
      exists mni. eexists. split; [exact Hmni|]. split; [exact Dx|].
      unfold nrel. cbn [dn_b dn_ch dn_chunks]. unfold nadj. rewrite Nat.eqb_refl. rewrite Hei, Hnl, Hch, Hei.
      split; [reflexivity|]. split; [unfold init_nl; destruct (etype_eqb (e_type e) TDir); lia|]. split; [constructor|].
      split; [intro E; exfalso; apply E; reflexivity|intros _; reflexivity].
    + rewrite Hf'old in Hf0 by exact Hne0. pose proof (Hflt k0 x0 Hf0) as Hx0.
      destruct (v_dom _ _ _ _ _ _ _ _ H k0 x0 Hf0) as [mn [dn [Hn [Hd Hr]]]].
      exists mn, dn. split; [exact Hn|]. split; [rewrite Dn by exact Hx0; exact Hd|].
      apply (nrel_retag f f' None None (Some i) (Some x)); [exact Hsub| | |exact Hr].
      * simpl. replace (Nat.eqb i k0) with false by (symmetry; apply Nat.eqb_neq; congruence). reflexivity.
      * split; intro E; [inversion E; lia|discriminate].
  - intros k0 k1 y H0 H1. destruct (Nat.eq_dec k0 i) as [->|Hne0]; destruct (Nat.eq_dec k1 i) as [->|Hne1]; try reflexivity.
    + unfold f' in H0. rewrite pset_same in H0. inversion H0; subst y. rewrite Hf'old in H1 by exact Hne1.
      pose proof (Hflt k1 x H1). lia.
    + unfold f' in H1. rewrite pset_same in H1. inversion H1; subst y. rewrite Hf'old in H0 by exact Hne0.
      pose proof (Hflt k0 x H0). lia.
    + rewrite Hf'old in H0, H1 by assumption. exact (v_inj _ _ _ _ _ _ _ _ H k0 k1 y H0 H1).
  - intros q y Hq Hqne. rewrite Hdfind in Hq. destruct (v_L1 _ _ _ _ _ _ _ _ H q y Hq Hqne) as [k0 [H1 [H2 _]]].
    exists k0. split; [exact H1|]. split; [apply Hsub; exact H2|].
    intros [E|[]]. apply (Hnamei q k0 H1); [intro; subst k0; congruence|symmetry; exact E].
  - intros q k0 y Hq Hf0 Hnin. rewrite Hdfind. destruct (Nat.eq_dec k0 i) as [->|Hne0].
    + exfalso. apply Hnin. left. exact (Inv_pfun_name _ _ _ _ _ _ _ _ H _ _ _ Hpi Hq).
    + rewrite Hf'old in Hf0 by exact Hne0. apply (v_L2 _ _ _ _ _ _ _ _ H q k0 y Hq Hf0). intros [].
  - unfold d_new. cbn [fst d_set_nodes ds_nodes]. rewrite app_length. simpl length. fold x.
    destruct (v_root _ _ _ _ _ _ _ _ H) as [[r [Hr [Hfr Hl]]]|[H1 [H2 [H3 H4]]]].
    + left. exists r. split; [exact Hr|]. split; [apply Hsub; exact Hfr|]. fold x in Hl. lia.
    + right. split.
      { destruct H1 as [H1|[r0 [Hr0 Hfr0]]]; [left; exact H1|right]. exists r0. split; [exact Hr0|].
        destruct (Nat.eq_dec r0 i) as [->|Hr0i].
        - exfalso. assert (cname e = []) by exact (Inv_pfun_name _ _ _ _ _ _ _ _ H _ _ _ Hpi Hr0). contradiction.
        - rewrite Hf'old by exact Hr0i. exact Hfr0. }
      assert (0 < x)%nat by (apply nth_error_Some; unfold x; congruence).
      split; [rewrite nth_error_app1 by (fold x; lia); exact H2|]. split; [|fold x in H4; lia].
      intros k0 Hk0. destruct (Nat.eq_dec k0 i) as [->|Hne0].
      * unfold f' in Hk0. rewrite pset_same in Hk0. inversion Hk0. lia.
      * rewrite Hf'old in Hk0 by exact Hne0. exact (H3 k0 Hk0).
  - intros q [E|[]]. subst q. split; [exact Hne|]. exists i, x, mni.
    split; [exact Hpi|]. split; [unfold f'; apply pset_same|]. split; [exact Hmni|exact Hch].
  - constructor; [intros []|constructor].
  - intros j Hj. inversion Hj; subst j. exists (cname e). split; [left; reflexivity|exact Hpi].
  - intros y Hy. inversion Hy; subst y. unfold d_new. cbn [fst d_set_nodes ds_nodes]. rewrite app_length. simpl. fold x. lia.
Qed.

(* the memory store counts the entry's own name (ent.NumLink++) after getOrCreateDir *)
Lemma Inv_npdone : forall toc i ms ds f P cp j,
  Inv toc i ms ds f P (Some j) cp -> Inv toc i (m_nlink_inc ms j) ds f P None cp.
Proof.
  intros toc i ms ds f P cp j H.
  destruct (v_np _ _ _ _ _ _ _ _ H j eq_refl) as [p0 [Hin0 Hp0]].
  destruct (v_mdom _ _ _ _ _ _ _ _ H p0 j Hp0) as [mnj [Hmnj Hcj]].
  destruct (v_pend _ _ _ _ _ _ _ _ H p0 Hin0) as [_ [k9 [x9 [mn9 [Hk9 [Hfj _]]]]]].
  rewrite Hp0 in Hk9. inversion Hk9; subst k9.
  assert (Lj : (j < length (ms_nodes ms))%nat) by (apply nth_error_Some; congruence).
  assert (Hs : m_nlink_inc ms j = MS (upd (ms_nodes ms) j (MN (mn_e mnj) (mn_nlink mnj + 1) (mn_ch mnj))) (ms_m ms))
    by (unfold m_nlink_inc; rewrite Hmnj; reflexivity).
  rewrite Hs.
  assert (Mj : nth_error (upd (ms_nodes ms) j (MN (mn_e mnj) (mn_nlink mnj + 1) (mn_ch mnj))) j = Some (MN (mn_e mnj) (mn_nlink mnj + 1) (mn_ch mnj)))
    by (apply nth_upd_same; exact Lj).
  assert (Mo : forall z, z <> j -> nth_error (upd (ms_nodes ms) j (MN (mn_e mnj) (mn_nlink mnj + 1) (mn_ch mnj))) z = nth_error (ms_nodes ms) z)
    by (intros z Hz; apply nth_upd_other; congruence).
  assert (Mnth : forall z mn, nth_error (upd (ms_nodes ms) j (MN (mn_e mnj) (mn_nlink mnj + 1) (mn_ch mnj))) z = Some mn ->
            exists mn0, nth_error (ms_nodes ms) z = Some mn0 /\ mn_e mn = mn_e mn0 /\ mn_ch mn = mn_ch mn0 /\ (z <> j -> mn = mn0)).
  { intros z mn Hz. destruct (Nat.eq_dec z j) as [->|Hne].
    - rewrite Mj in Hz. inversion Hz; subst mn. exists mnj. simpl. repeat split; auto. intro; contradiction.
    - rewrite Mo in Hz by exact Hne. exists mn. auto. }
  constructor; cbn [ms_nodes ms_m].
  - rewrite upd_length. exact (v_lenm _ _ _ _ _ _ _ _ H).
  - exact (v_expl _ _ _ _ _ _ _ _ H).
  - intros q k0 Hq. destruct (v_mdom _ _ _ _ _ _ _ _ H q k0 Hq) as [mn [Hn Hc]].
    destruct (Nat.eq_dec k0 j) as [->|Hne].
    + eexists. split; [exact Mj|]. simpl. rewrite Hmnj in Hn. inversion Hn; subst mn. exact Hc.
    + exists mn. split; [rewrite Mo by exact Hne; exact Hn|exact Hc].
  - intros j0 mn Hj0 Hn. destruct (Mnth j0 mn Hn) as [mn0 [Hn0 [He _]]]. rewrite He. exact (v_ent _ _ _ _ _ _ _ _ H j0 mn0 Hj0 Hn0).
  - intros k0 mn Hk0 Hn. destruct (Mnth k0 mn Hn) as [mn0 [Hn0 [He _]]]. rewrite He. exact (v_impl _ _ _ _ _ _ _ _ H k0 mn0 Hk0 Hn0).
  - intros j0 mn Hj0 Hn. destruct (Mnth j0 mn Hn) as [mn0 [Hn0 [He [Hc Hsame]]]].
    destruct (v_todo _ _ _ _ _ _ _ _ H j0 mn0 Hj0 Hn0) as [Hf0 Hrest].
    assert (j0 <> j) by (intro; subst j0; congruence). rewrite (Hsame H0). split; assumption.
  - exact (v_done _ _ _ _ _ _ _ _ H).
  - intros k0 y Hf0. destruct (v_dom _ _ _ _ _ _ _ _ H k0 y Hf0) as [mn [dn [Hn [Hd Hr]]]].
    destruct (Nat.eq_dec k0 j) as [->|Hne].
    + rewrite Hmnj in Hn. inversion Hn; subst mn. eexists. exists dn. split; [exact Mj|]. split; [exact Hd|].
      destruct Hr as [H1 [H2 [H3 H4]]]. unfold nrel, nadj in *. rewrite Nat.eqb_refl in H1, H2. cbn [mn_e mn_nlink mn_ch].
      split; [rewrite Z.add_0_r; exact H1|]. split; [lia|]. split; [exact H3|exact H4].
    + exists mn, dn. split; [rewrite Mo by exact Hne; exact Hn|]. split; [exact Hd|].
      apply (nrel_retag f f (Some j) cp None cp); [apply psub_refl| |tauto|exact Hr].
      simpl. replace (Nat.eqb j k0) with false by (symmetry; apply Nat.eqb_neq; congruence). reflexivity.
  - exact (v_inj _ _ _ _ _ _ _ _ H).
  - exact (v_L1 _ _ _ _ _ _ _ _ H).
  - exact (v_L2 _ _ _ _ _ _ _ _ H).
  - rewrite upd_length. exact (v_root _ _ _ _ _ _ _ _ H).
  - intros q Hin. destruct (v_pend _ _ _ _ _ _ _ _ H q Hin) as [Hqne [k0 [x1 [mn1 [H1 [H2 [H3 H4]]]]]]].
    split; [exact Hqne|]. destruct (Nat.eq_dec k0 j) as [->|Hne].
    + exists j, x1. eexists. split; [exact H1|]. split; [exact H2|]. split; [exact Mj|]. simpl.
      rewrite Hmnj in H3. inversion H3; subst mn1. exact H4.
    + exists k0, x1, mn1. split; [exact H1|]. split; [exact H2|]. split; [rewrite Mo by exact Hne; exact H3|exact H4].
  - exact (v_nodupP _ _ _ _ _ _ _ _ H).
  - intros j0 Hj0. discriminate.
  - exact (v_cp _ _ _ _ _ _ _ _ H).
Qed.

Lemma d_find_ext : forall s s', (forall y, d_children s y = d_children s' y) -> forall p, d_find s p = d_find s' p.
Proof.
  intros s s' Hc. induction p as [|b q IH]; [reflexivity|]. rewrite !d_find_cons, IH.
  destruct (d_find s' q); [rewrite Hc; reflexivity|reflexivity].
Qed.

(* the chunk of the entry is appended to its node at the end of the step *)
Lemma Inv_finish : forall toc i ms ds f k x mn e cs,
  Inv toc i ms ds f [] None (Some x) -> f k = Some x -> nth_error (ms_nodes ms) k = Some mn -> mn_e mn = e ->
  etype_eqb (e_type e) TChunk = false -> cs = db_chsize e (e_size e) ->
  Inv toc i ms (d_add_chunk (DS (ds_nodes ds) (Some x) (e_size e)) e cs) f [] None None.
Proof.
  intros toc i ms ds f k x mn e cs H Hfk Hmn He Hnc Hcs.
  destruct (v_dom _ _ _ _ _ _ _ _ H k x Hfk) as [mn' [dnx [Hn' [Hdx Hrx]]]].
  rewrite Hmn in Hn'. inversion Hn'; subst mn'.
  set (s3 := DS (ds_nodes ds) (Some x) (e_size e)).
  pose proof (d_add_chunk_nodes s3 e cs x dnx eq_refl Hdx Hnc) as Hnodes.
  set (ds' := d_add_chunk s3 e cs) in *.
  assert (Lx : (x < length (ds_nodes ds))%nat) by (apply nth_error_Some; congruence).
  assert (Dl : length (ds_nodes ds') = length (ds_nodes ds)).
  { rewrite Hnodes. destruct (etype_eqb (e_type e) TReg && (e_size e >? 0)); [apply upd_length|reflexivity]. }
  assert (Do : forall z, z <> x -> nth_error (ds_nodes ds') z = nth_error (ds_nodes ds) z).
  { intros z Hz. rewrite Hnodes. destruct (etype_eqb (e_type e) TReg && (e_size e >? 0)); [|reflexivity].
    apply nth_upd_other. congruence. }
  assert (Dx : exists dn', nth_error (ds_nodes ds') x = Some dn' /\ dn_b dn' = dn_b dnx /\ dn_ch dn' = dn_ch dnx /\ chunks_ok mn dn').
  { destruct Hrx as [_ [_ [_ [_ Hempty]]]]. specialize (Hempty eq_refl). rewrite Hnodes. unfold chunks_ok. rewrite He.
    destruct (etype_eqb (e_type e) TReg && (e_size e >? 0)).
    - eexists. split; [apply nth_upd_same; exact Lx|]. cbn [dn_b dn_ch dn_chunks]. rewrite Hempty, Hcs. repeat split.
    - exists dnx. repeat split; [exact Hdx|exact Hempty]. }
  destruct Dx as [dn' [Dx [Db [Dc Dk]]]].
  assert (Hch : forall y, d_children ds y = d_children ds' y).
  { intro y. unfold d_children. destruct (Nat.eq_dec y x) as [->|Hne].
    - rewrite Hdx, Dx, Dc. reflexivity.
    - rewrite Do by exact Hne. reflexivity. }
  assert (Hfind : forall p, d_find ds' p = d_find ds p) by (intro p; symmetry; apply d_find_ext; exact Hch).
  constructor.
  - exact (v_lenm _ _ _ _ _ _ _ _ H).
  - exact (v_expl _ _ _ _ _ _ _ _ H).
  - exact (v_mdom _ _ _ _ _ _ _ _ H).
  - exact (v_ent _ _ _ _ _ _ _ _ H).
  - exact (v_impl _ _ _ _ _ _ _ _ H).
  - exact (v_todo _ _ _ _ _ _ _ _ H).
  - exact (v_done _ _ _ _ _ _ _ _ H).
  - intros k0 y Hf0. destruct (v_dom _ _ _ _ _ _ _ _ H k0 y Hf0) as [mn0 [dn0 [Hn0 [Hd0 Hr0]]]].
    destruct (Nat.eq_dec y x) as [->|Hne].
    + assert (k0 = k) by exact (v_inj _ _ _ _ _ _ _ _ H k0 k x Hf0 Hfk). subst k0.
      rewrite Hmn in Hn0. inversion Hn0; subst mn0. rewrite Hdx in Hd0. inversion Hd0; subst dn0.
      exists mn, dn'. split; [exact Hmn|]. split; [exact Dx|].
      destruct Hr0 as [H1 [H2 [H3 _]]]. unfold nrel. rewrite Db, Dc.
      split; [exact H1|]. split; [exact H2|]. split; [exact H3|]. split; [intros _; exact Dk|intro E; discriminate].
    + exists mn0, dn0. split; [exact Hn0|]. split; [rewrite Do by exact Hne; exact Hd0|].
      apply (nrel_retag f f None (Some x) None None); [apply psub_refl|reflexivity| |exact Hr0].
      split; intro E; [discriminate|inversion E; congruence].
  - exact (v_inj _ _ _ _ _ _ _ _ H).
  - intros q y Hq Hqne. rewrite Hfind in Hq. exact (v_L1 _ _ _ _ _ _ _ _ H q y Hq Hqne).
  - intros q k0 y Hq Hf0 Hnin. rewrite Hfind. exact (v_L2 _ _ _ _ _ _ _ _ H q k0 y Hq Hf0 Hnin).
  - rewrite Dl. destruct (v_root _ _ _ _ _ _ _ _ H) as [Hl|[H1 [H2 [H3 H4]]]]; [left; exact Hl|right].
    split; [exact H1|]. split; [|split; [exact H3|exact H4]].
    rewrite Do; [exact H2|]. intro E. subst x. exact (H3 k Hfk).
  - intros q [].
  - constructor.
  - intros j Hj. discriminate.
  - intros y Hy. discriminate.
Qed.

(* ---------- the class: implicit parent directories allowed ---------- *)

Lemma m_nlink_inc_m : forall s j, ms_m (m_nlink_inc s j) = ms_m s.
Proof. intros s j. unfold m_nlink_inc. destruct (nth_error (ms_nodes s) j); reflexivity. Qed.

Definition ord_toc (toc : list entry) : Prop :=
  forall j k ej ek, nth_error toc j = Some ej -> nth_error toc k = Some ek -> psfx (cname ek) (cname ej) -> (k < j)%nat.

Lemma Inv_step : forall toc i ms ds f e, ord_toc toc -> entry_ok e ->
  Inv toc i ms ds f [] None None -> nth_error toc i = Some e ->
  exists ms' ds' f', pass2_step (Some ms) (i, e) = Some ms' /\ db_step (Some ds) e = Some ds' /\
                     Inv toc (S i) ms' ds' f' [] None None.
Proof.
  intros toc i ms ds f e Hord He H Hi.
  assert (Li : (i < length toc)%nat) by (apply nth_error_Some; congruence).
  destruct (cname e) as [|base par] eqn:Hname; [exfalso; exact (eo_name e He Hname)|].
  assert (Hnc : etype_eqb (e_type e) TChunk = false) by exact (okt_not_chunk e (eo_type e He)).
  assert (Hnh : etype_eqb (e_type e) THardlink = false) by exact (okt_not_hardlink e (eo_type e He)).
  (* the db store does not have this name yet *)
  assert (Hfresh : d_find ds (base :: par) = None).
  { destruct (d_find ds (base :: par)) as [y|] eqn:E; [|reflexivity]. exfalso.
    destruct (v_L1 _ _ _ _ _ _ _ _ H _ y E ltac:(discriminate)) as [k0 [Hk0 [Hf0 _]]].
    rewrite <- Hname in Hk0. rewrite (v_expl _ _ _ _ _ _ _ _ H i e Hi) in Hk0. inversion Hk0; subst k0.
    destruct (nth_error (ms_nodes ms) i) as [mni|] eqn:Hmni;
      [|apply nth_error_None in Hmni; pose proof (v_lenm _ _ _ _ _ _ _ _ H); lia].
    destruct (v_todo _ _ _ _ _ _ _ _ H i mni (conj (le_n i) Li) Hmni) as [Hfi _]. congruence. }
  set (x := length (ds_nodes ds)).
  assert (Hne : cname e <> []) by (rewrite Hname; discriminate).
  pose proof (Inv_begin toc i ms ds f e H Hi Hne) as H1. fold x in H1.
  set (ds1 := fst (d_new ds (attr_of e (init_nl e + 1)))) in *. set (f1 := pset f i x) in *.
  assert (Hplain : Forall plain par).
  { pose proof (cname_plain e) as Hp. rewrite Hname in Hp. inversion Hp; assumption. }
  destruct (goc_sim toc (S i) (Some i) (Some x) par ms ds1 f1 [cname e] H1 Hplain) as
      [ms2 [ds2 [f2 [kp [pid [G1 [G2 [H2 [Hpp [Hfkp [Hsub2 Hmono2]]]]]]]]]]].
  { intros q k0 Hq Hp Hf0.
    destruct (v_mdom _ _ _ _ _ _ _ _ H q k0 Hp) as [mn [Hn Hc]].
    destruct (Nat.lt_ge_cases k0 (length toc)) as [Hl|Hg].
    - pose proof (v_ent _ _ _ _ _ _ _ _ H k0 mn Hl Hn) as Hek.
      assert (Hk0i : (k0 < i)%nat).
      { apply (Hord i k0 e (mn_e mn) Hi Hek). rewrite Hc, Hname. apply psfx_of_sfx_cons. exact Hq. }
      assert (k0 <> i) by lia. unfold f1 in Hf0. rewrite pset_other in Hf0 by assumption.
      exact (v_done _ _ _ _ _ _ _ _ H k0 Hk0i Hl Hf0).
    - destruct (v_impl _ _ _ _ _ _ _ _ H k0 mn Hg Hn) as [_ Hfn].
      assert (k0 <> i) by lia. unfold f1 in Hf0. rewrite pset_other in Hf0 by assumption. exact (Hfn Hf0). }
  { intros q Hq [E|[]]. rewrite Hname in E. subst q. exact (not_sfx_longer base par Hq). }
  pose proof (Inv_npdone _ _ _ _ _ _ _ _ H2) as H3.
  assert (Hpi2 : pfind (base :: par) (ms_m ms2) = Some i).
  { rewrite <- Hname. exact (v_expl _ _ _ _ _ _ _ _ H2 i e Hi). }
  assert (Hfi2 : f2 i = Some x) by (apply Hsub2; unfold f1; apply pset_same).
  assert (HparP : ~ In par [base :: par]).
  { intros [E|[]]. apply (f_equal (@length Z)) in E. simpl in E. lia. }
  rewrite Hname in H3.
  pose proof (Inv_link toc (S i) (m_nlink_inc ms2 i) ds2 f2 (base :: par) [] None (Some x) base par i x kp pid H3 eq_refl) as H4.
  rewrite m_nlink_inc_m in H4. specialize (H4 Hpi2 Hfi2 Hpp Hfkp HparP ltac:(discriminate)).
  (* the type the memory store sees for node i *)
  destruct (v_dom _ _ _ _ _ _ _ _ H3 i x Hfi2) as [mni3 [dni3 [Hmni3 _]]].
  assert (Hei3 : mn_e mni3 = e).
  { pose proof (v_ent _ _ _ _ _ _ _ _ H3 i mni3 Li Hmni3) as E. rewrite Hi in E. inversion E. reflexivity. }
  assert (Htype : m_type (m_nlink_inc ms2 i) i = e_type e) by (unfold m_type; rewrite Hmni3, Hei3; reflexivity).
  rewrite Htype in H4.
  set (ms4 := m_add_child (m_nlink_inc ms2 i) kp base i) in *.
  set (ds4 := d_set_child ds2 pid base x (etype_eqb (e_type e) TDir)) in *.
  destruct (v_dom _ _ _ _ _ _ _ _ H4 i x Hfi2) as [mni4 [dni4 [Hmni4 _]]].
  assert (Hei4 : mn_e mni4 = e).
  { pose proof (v_ent _ _ _ _ _ _ _ _ H4 i mni4 Li Hmni4) as E. rewrite Hi in E. inversion E. reflexivity. }
  pose proof (Inv_finish toc (S i) ms4 ds4 f2 i x mni4 e (db_chsize e (ds_lastsize ds)) H4 Hfi2 Hmni4 Hei4 Hnc
                (db_chsize_reg e _ _ Hnc)) as H5.
  exists ms4. eexists. exists f2. split; [|split; [|exact H5]].
  - unfold pass2_step. rewrite Hnc. unfold cname in Hname. rewrite Hname. rewrite G1. rewrite Hnh. reflexivity.
  - unfold db_step. unfold cname in Hname. rewrite Hname, Hnc, Hnh.
    replace (if etype_eqb (e_type e) TDir then d_find ds (base :: par) else None) with (@None nat)
      by (destruct (etype_eqb (e_type e) TDir); [symmetry; exact Hfresh|reflexivity]).
    replace (if etype_eqb (e_type e) TDir then 2 else 1) with (init_nl e + 1)
      by (unfold init_nl; destruct (etype_eqb (e_type e) TDir); reflexivity).
    rewrite (surjective_pairing (d_new ds (attr_of e (init_nl e + 1)))). fold ds1.
    replace (snd (d_new ds (attr_of e (init_nl e + 1)))) with x by reflexivity.
    rewrite G2. reflexivity.
Qed.

(* ---------- initial states and the whole run ---------- *)

Lemma pfind_some_in : forall {B} (L : list (list Z * B)) p v, pfind p L = Some v -> In (p, v) L.
Proof.
  induction L as [|[q w] t IH]; intros p v H; simpl in H; [discriminate|].
  destruct (path_eqb p q) eqn:E.
  - apply path_eqb_eq in E. inversion H; subst. left. reflexivity.
  - right. exact (IH p v H).
Qed.

Lemma number_in : forall {B} (l : list B) s k x, In (k, x) (number s l) -> (s <= k)%nat /\ nth_error l (k - s) = Some x.
Proof.
  induction l as [|h t IH]; intros s k x H; simpl in H; [destruct H|].
  destruct H as [H|H].
  - inversion H; subst. split; [lia|]. rewrite Nat.sub_diag. reflexivity.
  - destruct (IH (S s) k x H) as [H1 H2]. split; [lia|].
    replace (k - s)%nat with (S (k - S s)) by lia. exact H2.
Qed.

Definition ms_init (toc : list entry) : mst := MS (map init_node toc) (rev (names_from 0 toc)).

Lemma Inv_init : forall toc, NoDup (map cname toc) -> Inv toc 0 (ms_init toc) d_init (fun _ => None) [] None None.
Proof.
  intros toc Hnd. unfold ms_init. constructor; cbn [ms_nodes ms_m].
  - rewrite map_length. lia.
  - intros j e Hj. exact (m0_lookup toc j e Hnd Hj).
  - intros p k Hp. apply pfind_some_in in Hp. apply in_rev in Hp. unfold names_from in Hp.
    apply in_map_iff in Hp. destruct Hp as [[k0 e] [E Hin]]. simpl in E. inversion E; subst.
    destruct (number_in toc 0%nat k e Hin) as [_ Hn]. rewrite Nat.sub_0_r in Hn.
    exists (init_node e). split; [rewrite nth_error_map, Hn; reflexivity|reflexivity].
  - intros j mn Hj Hn. rewrite nth_error_map in Hn. destruct (nth_error toc j); simpl in Hn; inversion Hn; subst. reflexivity.
  - intros k mn Hk Hn. assert (nth_error (map init_node toc) k = None) by (apply nth_error_None; rewrite map_length; exact Hk). congruence.
  - intros j mn Hj Hn. rewrite nth_error_map in Hn. destruct (nth_error toc j); simpl in Hn; inversion Hn; subst.
    split; [reflexivity|split; reflexivity].
  - intros j Hj. lia.
  - intros k x Hf. discriminate.
  - intros k k' x Hf. discriminate.
  - intros p x Hp Hpne. exfalso. destruct p as [|b q]; [contradiction|].
    rewrite d_find_cons in Hp. destruct (d_find d_init q) as [y|] eqn:E; [|discriminate].
    assert (Hy : d_children d_init y = []).
    { unfold d_children, d_init. simpl. destruct y as [|y]; [reflexivity|]. destruct y; reflexivity. }
    rewrite Hy in Hp. discriminate.
  - intros p k x Hp Hf. discriminate.
  - right. split; [destruct (pfind [] (rev (names_from 0 toc))) as [r0|]; [right; exists r0; auto|left; reflexivity]|].
    split; [reflexivity|]. split; [intros k Hk; discriminate|].
    rewrite map_length. simpl. lia.
  - intros p [].
  - constructor.
  - intros j Hj. discriminate.
  - intros y Hy. discriminate.
Qed.

Lemma Inv_run : forall toc, ord_toc toc -> forall suffix i ms ds f, Inv toc i ms ds f [] None None ->
  Forall entry_ok suffix ->
  (forall k e, nth_error suffix k = Some e -> nth_error toc (i + k) = Some e) ->
  (length suffix + i = length toc)%nat ->
  exists ms' ds' f', fold_left pass2_step (number i suffix) (Some ms) = Some ms' /\
                     fold_left db_step suffix (Some ds) = Some ds' /\ Inv toc (length toc) ms' ds' f' [] None None.
Proof.
  intros toc Hs. induction suffix as [|e t IH]; intros i ms ds f HI Hoks Hnth Hlen.
  - simpl in *. subst i. exists ms, ds, f. auto.
  - assert (Hi : nth_error toc i = Some e) by (rewrite <- (Nat.add_0_r i); apply Hnth; reflexivity).
    inversion Hoks as [|? ? Hoke Hokt]; subst.
    destruct (Inv_step toc i ms ds f e Hs Hoke HI Hi) as [ms1 [ds1 [f1 [H1 [H2 HI1]]]]].
    cbn [number fold_left]. rewrite H1, H2. apply (IH (S i) ms1 ds1 f1 HI1 Hokt).
    + intros k e' Hk. replace (S i + k)%nat with (i + S k)%nat by lia. apply Hnth. exact Hk.
    + simpl in Hlen. lia.
Qed.

Lemma d_find_prefix : forall s b q y, d_find s (b :: q) = Some y -> exists z, d_find s q = Some z.
Proof. intros s b q y H. rewrite d_find_cons in H. destruct (d_find s q) as [z|]; [exists z; reflexivity|discriminate]. Qed.

(* once an entry has been processed the memory store has its root *)
Lemma Inv_root_mapped : forall toc i ms ds f e, Inv toc (S i) ms ds f [] None None -> nth_error toc 0 = Some e ->
  exists r, pfind [] (ms_m ms) = Some r /\ f r = Some O /\ (length (ms_nodes ms) + S i = length (ds_nodes ds) + length toc)%nat.
Proof.
  intros toc i ms ds f e H H0.
  destruct (v_root _ _ _ _ _ _ _ _ H) as [[r [H1 [H2 H3]]]|[_ [Hroot [Hno _]]]].
  - exists r. split; [exact H1|]. split; [exact H2|]. lia.
  - exfalso.
    assert (L0 : (0 < length toc)%nat) by (apply nth_error_Some; congruence).
    destruct (f 0%nat) as [x0|] eqn:Ef; [|exact (v_done _ _ _ _ _ _ _ _ H 0%nat ltac:(lia) L0 Ef)].
    pose proof (v_L2 _ _ _ _ _ _ _ _ H (cname e) 0%nat x0 (v_expl _ _ _ _ _ _ _ _ H 0%nat e H0) Ef ltac:(intros [])) as Hd.
    destruct (cname e) as [|c0 q0] eqn:Hne0; [simpl in Hd; inversion Hd; subst x0; exact (Hno 0%nat Ef)|].
    assert (Hne : c0 :: q0 <> []) by discriminate.
    (* walk down to the top-level ancestor *)
    assert (Htop : forall p y, d_find ds p = Some y -> p <> [] -> exists c y', d_find ds [c] = Some y').
    { induction p as [|b q IHp]; intros y Hp Hpne; [contradiction|].
      destruct q as [|b' q']; [exists b, y; exact Hp|].
      destruct (d_find_prefix ds b (b' :: q') y Hp) as [z Hz]. apply (IHp z Hz). discriminate. }
    destruct (Htop (c0 :: q0) x0 Hd Hne) as [c [y' Hc]].
    rewrite d_find_cons in Hc. simpl in Hc. unfold d_children in Hc. rewrite Hroot in Hc. simpl in Hc. discriminate.
Qed.

(* ---------- the walks ---------- *)

Definition rrel (f : pmap) (r r' : rnode) : Prop := f (fst r) = Some (fst r') /\ snd r = snd r'.

Lemma first_index_rel : forall f, (forall k k' x, f k = Some x -> f k' = Some x -> k = k') ->
  forall l l', Forall2 (rrel f) l l' -> forall id id' n0, f id = Some id' -> first_index id l n0 = first_index id' l' n0.
Proof.
  intros f Hinj l l' H. induction H as [|[a v] [a' v'] l l' [Ha _] _ IH]; intros id id' n0 Hid; simpl; [reflexivity|].
  simpl in Ha. destruct (Nat.eqb id a) eqn:E.
  - apply Nat.eqb_eq in E. subst a. assert (id' = a') by congruence. subst a'. rewrite Nat.eqb_refl. reflexivity.
  - replace (Nat.eqb id' a') with false; [apply IH; exact Hid|].
    symmetry. apply Nat.eqb_neq. intro; subst a'. apply Nat.eqb_neq in E. apply E. exact (Hinj id a id' Hid Ha).
Qed.

Lemma assign_inos_rel : forall f, (forall k k' x, f k = Some x -> f k' = Some x -> k = k') ->
  forall l l', Forall2 (rrel f) l l' -> assign_inos l = assign_inos l'.
Proof.
  intros f Hinj l l' H. unfold assign_inos.
  assert (G : forall L L', Forall2 (rrel f) L L' -> forall s s', Forall2 (rrel f) s s' ->
    map (fun r : rnode => let '(id, v) := r in V (v_path v) (v_attr v) (v_off v) (first_index id L 0) (v_reg v) (v_probes v)) s =
    map (fun r : rnode => let '(id, v) := r in V (v_path v) (v_attr v) (v_off v) (first_index id L' 0) (v_reg v) (v_probes v)) s').
  { intros L L' HL s s' Hs. induction Hs as [|[a v] [a' v'] s s' [Ha Hv] _ IH]; [reflexivity|]. simpl in *. subst v'.
    rewrite (first_index_rel f Hinj L L' HL a a' 0%nat Ha). f_equal. exact IH. }
  exact (G l l' H l l' H).
Qed.

Lemma show_ok_implicit : forall d, show_ok (implicit_dir d).
Proof. intro d. constructor; simpl; try reflexivity; try lia; intro H; try discriminate. Qed.

Lemma walk_rel : forall toc M D f probes, Forall show_ok toc -> Inv toc (length toc) M D f [] None None ->
  Forall (fun p => 0 <= p) probes ->
  forall fuel k x path, f k = Some x ->
    Forall2 (rrel f) (mem_walk M [] probes fuel k path) (db_walk D probes fuel x path).
Proof.
  intros toc M D f probes Hok H Hprobes. induction fuel as [|fuel IH]; intros k x path Hf; [constructor|].
  cbn [mem_walk db_walk].
  destruct (v_dom _ _ _ _ _ _ _ _ H k x Hf) as [mn [dn [Hn [Hd Hr]]]]. rewrite Hn, Hd.
  assert (Hshow : show_ok (mn_e mn)).
  { destruct (Nat.lt_ge_cases k (length toc)) as [Hl|Hg].
    - rewrite Forall_forall in Hok. apply Hok. eapply nth_error_In. exact (v_ent _ _ _ _ _ _ _ _ H k mn Hl Hn).
    - destruct (v_impl _ _ _ _ _ _ _ _ H k mn Hg Hn) as [[d Hd'] _]. rewrite Hd'. apply show_ok_implicit. }
  destruct Hr as [Hb [Hnl [Hc [Hck _]]]].
  constructor.
  - split.
    + rewrite (surjective_pairing (mem_vnode M [] probes k mn path)). rewrite (surjective_pairing (db_vnode probes x dn path)).
      exact Hf.
    + change (snd (db_vnode probes x dn path)) with (snd (db_vnode probes x (DN (dn_b dn) (shift (mn_ch mn)) (dn_chunks dn)) path)).
      apply (vnode_same toc M probes Hprobes k x mn _ path Hn); [|exact Hshow].
      unfold node_rel. cbn [dn_b dn_ch dn_chunks]. unfold nadj in Hb, Hnl. rewrite Z.add_0_r in Hb, Hnl.
      split; [exact Hb|]. split; [exact Hnl|]. split; [reflexivity|]. apply Hck. discriminate.
  - clear Hn Hd Hb Hnl Hck Hshow. induction Hc as [|[key c] [key' c'] a b [Hk Hfc] _ IHc]; [constructor|].
    simpl in Hk, Hfc. subst key'. cbn [flat_map fst snd]. apply Forall2_app; [|exact IHc].
    apply IH. exact Hfc.
Qed.


(* ---------- an explicit root entry ("./", "/") ---------- *)

Lemma Inv_step_root : forall toc i ms ds f e,
  Inv toc i ms ds f [] None None -> nth_error toc i = Some e -> cname e = [] -> e_type e = TDir ->
  nth_error (ds_nodes ds) 0 = Some (DN (write_attr root_attr) [] []) -> (forall k, f k <> Some O) ->
  exists ds', pass2_step (Some ms) (i, e) = Some (m_nlink_inc ms i) /\ db_step (Some ds) e = Some ds' /\
              Inv toc (S i) (m_nlink_inc ms i) ds' (pset f i O) [] None None.
Proof.
  intros toc i ms ds f e H Hi Hname Hdir Hroot Hno.
  assert (Li : (i < length toc)%nat) by (apply nth_error_Some; congruence).
  destruct (nth_error (ms_nodes ms) i) as [mni|] eqn:Hmni;
    [|apply nth_error_None in Hmni; pose proof (v_lenm _ _ _ _ _ _ _ _ H); lia].
  assert (Hei : mn_e mni = e).
  { pose proof (v_ent _ _ _ _ _ _ _ _ H i mni Li Hmni) as E. rewrite Hi in E. inversion E. reflexivity. }
  destruct (v_todo _ _ _ _ _ _ _ _ H i mni (conj (le_n i) Li) Hmni) as [Hfi [Hnl Hch]].
  assert (Hpi : pfind [] (ms_m ms) = Some i) by (rewrite <- Hname; exact (v_expl _ _ _ _ _ _ _ _ H i e Hi)).
  set (ds' := DS (upd (ds_nodes ds) 0 (DN (write_attr (attr_of e 2)) [] [])) (Some O) (e_size e)).
  set (f' := pset f i O).
  assert (L0 : (0 < length (ds_nodes ds))%nat) by (apply nth_error_Some; congruence).
  assert (Lmi : (i < length (ms_nodes ms))%nat) by (apply nth_error_Some; congruence).
  assert (Hs : m_nlink_inc ms i = MS (upd (ms_nodes ms) i (MN e (init_nl e + 1) [])) (ms_m ms))
    by (unfold m_nlink_inc; rewrite Hmni, Hei, Hnl, Hch, Hei; reflexivity).
  assert (Hsub : psub f f') by (apply psub_pset; exact Hfi).
  assert (Hf'old : forall k0, k0 <> i -> f' k0 = f k0) by (intros; apply pset_other; assumption).
  assert (Hch0 : forall y, d_children ds y = d_children ds' y).
  { intro y. unfold d_children, ds'. cbn [ds_nodes]. destruct y as [|y].
    - rewrite Hroot. destruct (ds_nodes ds); [simpl in L0; lia|reflexivity].
    - destruct (ds_nodes ds); reflexivity. }
  assert (Hfind : forall p, d_find ds' p = d_find ds p) by (intro p; symmetry; apply d_find_ext; exact Hch0).
  assert (Do : forall z, z <> O -> nth_error (ds_nodes ds') z = nth_error (ds_nodes ds) z)
    by (intros z Hz; unfold ds'; cbn [ds_nodes]; apply nth_upd_other; congruence).
  assert (D0 : nth_error (ds_nodes ds') 0 = Some (DN (write_attr (attr_of e 2)) [] []))
    by (unfold ds'; cbn [ds_nodes]; apply nth_upd_same; exact L0).
  assert (Mi : nth_error (ms_nodes (m_nlink_inc ms i)) i = Some (MN e (init_nl e + 1) []))
    by (rewrite Hs; cbn [ms_nodes]; apply nth_upd_same; exact Lmi).
  assert (Mo : forall z, z <> i -> nth_error (ms_nodes (m_nlink_inc ms i)) z = nth_error (ms_nodes ms) z)
    by (intros z Hz; rewrite Hs; cbn [ms_nodes]; apply nth_upd_other; congruence).
  assert (Mm : ms_m (m_nlink_inc ms i) = ms_m ms) by apply m_nlink_inc_m.
  assert (Mlen : length (ms_nodes (m_nlink_inc ms i)) = length (ms_nodes ms)) by (rewrite Hs; cbn [ms_nodes]; apply upd_length).
  assert (Hinit : init_nl e + 1 = 2) by (unfold init_nl; rewrite Hdir; reflexivity).
  exists ds'. split; [|split].
  - unfold pass2_step. rewrite Hdir. simpl etype_eqb. cbv iota. unfold cname in Hname. rewrite Hname. reflexivity.
  - unfold db_step. unfold cname in Hname. rewrite Hname, Hdir. simpl etype_eqb. cbv iota.
    cbn [d_find]. rewrite Hroot. unfold d_upd_bucket. rewrite Hroot.
    replace (read_numlink (dn_b (DN (write_attr root_attr) [] []))) with 2 by reflexivity.
    unfold d_add_chunk. rewrite Hdir. simpl etype_eqb. simpl. reflexivity.
  - constructor.
    + rewrite Mlen. exact (v_lenm _ _ _ _ _ _ _ _ H).
    + rewrite Mm. exact (v_expl _ _ _ _ _ _ _ _ H).
    + intros q k0 Hq. rewrite Mm in Hq. destruct (v_mdom _ _ _ _ _ _ _ _ H q k0 Hq) as [mn [Hn Hc]].
      destruct (Nat.eq_dec k0 i) as [->|Hne].
      * eexists. split; [exact Mi|]. simpl. rewrite Hmni in Hn. inversion Hn; subst mn. rewrite <- Hei. exact Hc.
      * exists mn. split; [rewrite Mo by exact Hne; exact Hn|exact Hc].
    + intros j mn Hj Hn. destruct (Nat.eq_dec j i) as [->|Hne].
      * rewrite Mi in Hn. inversion Hn; subst mn. exact Hi.
      * rewrite Mo in Hn by exact Hne. exact (v_ent _ _ _ _ _ _ _ _ H j mn Hj Hn).
    + intros k0 mn Hk0 Hn. rewrite Mo in Hn by lia. destruct (v_impl _ _ _ _ _ _ _ _ H k0 mn Hk0 Hn) as [Hd Hf0].
      split; [exact Hd|]. rewrite Hf'old by lia. exact Hf0.
    + intros j mn Hj Hn. rewrite Mo in Hn by lia. rewrite Hf'old by lia. apply (v_todo _ _ _ _ _ _ _ _ H j mn); [lia|exact Hn].
    + intros j Hj Hjn. destruct (Nat.eq_dec j i) as [->|Hji].
      * unfold f'. rewrite pset_same. discriminate.
      * rewrite Hf'old by exact Hji. apply (v_done _ _ _ _ _ _ _ _ H); lia.
    + intros k0 x0 Hf0. destruct (Nat.eq_dec k0 i) as [->|Hne0].
      * unfold f' in Hf0. rewrite pset_same in Hf0. inversion Hf0; subst x0.
        eexists. eexists. split; [exact Mi|]. split; [exact D0|].
        unfold nrel. cbn [mn_e mn_nlink mn_ch dn_b dn_ch dn_chunks nadj]. rewrite Z.add_0_r, Hinit.
        split; [reflexivity|]. split; [lia|]. split; [constructor|].
        split; [intros _; unfold chunks_ok; cbn [mn_e dn_chunks]; rewrite Hdir; reflexivity|intro E; discriminate].
      * rewrite Hf'old in Hf0 by exact Hne0.
        destruct (v_dom _ _ _ _ _ _ _ _ H k0 x0 Hf0) as [mn [dn [Hn [Hd Hr]]]].
        exists mn, dn. split; [rewrite Mo by exact Hne0; exact Hn|]. split.
        { rewrite Do; [exact Hd|]. intro E. subst x0. exact (Hno k0 Hf0). }
        exact (nrel_mono f f' _ _ _ _ _ _ Hsub Hr).
    + intros k0 k1 y H0 H1. destruct (Nat.eq_dec k0 i) as [->|Hne0]; destruct (Nat.eq_dec k1 i) as [->|Hne1]; try reflexivity.
      * unfold f' in H0. rewrite pset_same in H0. inversion H0; subst y. rewrite Hf'old in H1 by exact Hne1. exfalso. exact (Hno k1 H1).
      * unfold f' in H1. rewrite pset_same in H1. inversion H1; subst y. rewrite Hf'old in H0 by exact Hne0. exfalso. exact (Hno k0 H0).
      * rewrite Hf'old in H0, H1 by assumption. exact (v_inj _ _ _ _ _ _ _ _ H k0 k1 y H0 H1).
    + intros q y Hq Hqne. rewrite Hfind in Hq. rewrite Mm. destruct (v_L1 _ _ _ _ _ _ _ _ H q y Hq Hqne) as [k0 [H1 [H2 H3]]].
      exists k0. split; [exact H1|]. split; [apply Hsub; exact H2|exact H3].
    + intros q k0 y Hq Hf0 Hnin. rewrite Mm in Hq. rewrite Hfind. destruct (Nat.eq_dec k0 i) as [->|Hne0].
      * assert (q = []) by exact (Inv_pfun_name _ _ _ _ _ _ _ _ H _ _ _ Hq Hpi). subst q.
        unfold f' in Hf0. rewrite pset_same in Hf0. inversion Hf0. reflexivity.
      * rewrite Hf'old in Hf0 by exact Hne0. exact (v_L2 _ _ _ _ _ _ _ _ H q k0 y Hq Hf0 Hnin).
    + left. exists i. rewrite Mm, Mlen. split; [exact Hpi|]. split; [unfold f'; apply pset_same|].
      unfold ds'. cbn [ds_nodes]. rewrite upd_length.
      destruct (v_root _ _ _ _ _ _ _ _ H) as [[r [_ [Hfr _]]]|[_ [_ [_ Hl]]]]; [exfalso; exact (Hno r Hfr)|lia].
    + intros q [].
    + constructor.
    + intros j Hj. discriminate.
    + intros y Hy. discriminate.
Qed.

(* ---------- the class: implicit parents and an optional explicit root entry ---------- *)

Definition root_entry (e : entry) : Prop :=
  cname e = [] /\ e_type e = TDir /\ 0 <= e_perm e < 16777216 /\ e_off e = 0.

Record tree_toc (toc : list entry) : Prop := {
  tt_ok : Forall (fun e => entry_ok e \/ root_entry e) toc;
  tt_nodup : NoDup (map cname toc);
  (* an entry whose name is an ancestor of another entry's name comes first *)
  tt_ord : ord_toc toc
}.

Lemma show_ok_root_entry : forall e, root_entry e -> show_ok e.
Proof.
  intros e [_ [Hd [Hp Ho]]]. constructor.
  - rewrite Hd. reflexivity.
  - exact Hp.
  - intro Hr. rewrite Hd in Hr. discriminate.
  - intros _. exact Ho.
Qed.

Definition pass1_ok (e : entry) : Prop :=
  etype_eqb (e_type e) TChunk = false /\
  (etype_eqb (e_type e) TReg && (e_chsize e >? 0) && (e_chsize e <? e_size e)) = false.

Lemma pass1_weak : forall toc s, Forall pass1_ok toc -> p1_chunks s = [] ->
  let s' := fold_left pass1_step toc s in
  p1_nodes s' = p1_nodes s ++ map init_node toc
  /\ p1_m s' = rev (names_from (length (p1_nodes s)) toc) ++ p1_m s
  /\ p1_chunks s' = [].
Proof.
  induction toc as [|e t IH]; intros s Hok Hc; cbn [fold_left].
  - simpl. rewrite app_nil_r. auto.
  - inversion Hok as [|? ? [He1 He2] Ht]; subst.
    assert (Hstep : pass1_step s e =
       P1 (p1_nodes s ++ [init_node e]) ((cname e, length (p1_nodes s)) :: p1_m s) [] (cname e)
          (if etype_eqb (e_type e) TReg then Some (e_size e) else p1_lastreg s)).
    { unfold pass1_step. rewrite He1, He2, Hc. reflexivity. }
    rewrite Hstep. match goal with |- context [fold_left pass1_step t ?s1] => specialize (IH s1 Ht eq_refl) end.
    cbn [p1_nodes p1_m p1_chunks] in IH.
    destruct IH as [I1 [I2 I3]]. repeat split.
    + rewrite I1. rewrite <- app_assoc. reflexivity.
    + rewrite I2. rewrite app_length. simpl length. replace (length (p1_nodes s) + 1)%nat with (S (length (p1_nodes s))) by lia.
      unfold names_from. cbn [number map rev]. rewrite <- app_assoc. reflexivity.
    + exact I3.
Qed.

Lemma tree_pass1_ok : forall toc, Forall (fun e => entry_ok e \/ root_entry e) toc -> Forall pass1_ok toc.
Proof.
  intros toc H. apply Forall_forall. intros e Hin. rewrite Forall_forall in H. destruct (H e Hin) as [He|[_ [Hd _]]].
  - split; [exact (okt_not_chunk e (eo_type e He))|exact (reg_no_split e He)].
  - split; rewrite Hd; reflexivity.
Qed.

Lemma tree_show_ok : forall toc, Forall (fun e => entry_ok e \/ root_entry e) toc -> Forall show_ok toc.
Proof.
  intros toc H. apply Forall_forall. intros e Hin. rewrite Forall_forall in H. destruct (H e Hin) as [He|Hr].
  - exact (show_ok_entry e He).
  - exact (show_ok_root_entry e Hr).
Qed.

Lemma agree_from_Inv : forall toc e0 M D f probes,
  nth_error toc 0 = Some e0 -> Forall (fun e => entry_ok e \/ root_entry e) toc ->
  fold_left pass2_step (number 0 toc) (Some (ms_init toc)) = Some M -> db_build toc = Some D ->
  Inv toc (length toc) M D f [] None None -> Forall (fun p => 0 <= p) probes ->
  view_mem toc probes = view_db toc probes /\ view_mem toc probes <> None.
Proof.
  intros toc e0 M D f probes H0 Hok Hm Hd HI Hp.
  destruct (pass1_weak toc (P1 [] [] [] [] None) (tree_pass1_ok toc Hok) eq_refl) as [P1n [P1m P1c]].
  cbn [p1_nodes p1_m app length] in P1n, P1m. rewrite app_nil_r in P1m. fold (pass1 toc) in P1n, P1m, P1c.
  assert (Hlen : exists n', length toc = S n') by (destruct toc; [discriminate|eexists; reflexivity]).
  destruct Hlen as [n' Hn'].
  assert (HIS : Inv toc (S n') M D f [] None None) by (rewrite <- Hn'; exact HI).
  destruct (Inv_root_mapped toc n' M D f e0 HIS H0) as [r [Hr [Hfr Hlen]]].
  assert (Hmb : mem_build toc = Some (M, [])).
  { unfold mem_build. rewrite P1n, P1m, P1c. unfold ms_init in Hm. rewrite Hm.
    destruct (ms_m M) eqn:E; [simpl in Hr; discriminate|reflexivity]. }
  unfold view_mem, view_db. rewrite Hmb, Hd, Hr.
  split; [|discriminate]. f_equal.
  apply (assign_inos_rel f (v_inj _ _ _ _ _ _ _ _ HI)).
  apply (walk_rel toc M D f probes (tree_show_ok toc Hok) HI Hp). exact Hfr.
Qed.

Lemma psfx_nil : forall p, p <> [] -> psfx [] p.
Proof. intros p H. exists p. split; [exact H|]. rewrite app_nil_r. reflexivity. Qed.

Lemma stores_agree_tree : forall toc probes, tree_toc toc -> Forall (fun p => 0 <= p) probes ->
  view_mem toc probes = view_db toc probes /\ view_mem toc probes <> None.
Proof.
  intros toc probes [Hok Hnd Hord] Hp.
  destruct toc as [|e0 t]; [split; [reflexivity|discriminate]|].
  set (toc := e0 :: t) in *.
  pose proof (Inv_init toc Hnd) as H0.
  inversion Hok as [|? ? Hok0 Hokt]; subst.
  destruct Hok0 as [He0|Hr0].
  - (* no root entry anywhere *)
    assert (Hall : Forall entry_ok toc).
    { apply Forall_forall. intros e Hin. rewrite Forall_forall in Hok. destruct (Hok e Hin) as [He|[Hn _]]; [exact He|exfalso].
      apply In_nth_error in Hin. destruct Hin as [j Hj].
      assert (j < 0)%nat; [|lia]. apply (Hord 0%nat j e0 e eq_refl Hj). rewrite Hn. apply psfx_nil. exact (eo_name e0 He0). }
    destruct (Inv_run toc Hord toc 0%nat (ms_init toc) d_init (fun _ => None) H0 Hall) as [M [D [f [Hm [Hd HI]]]]];
      [intros k e Hk; exact Hk|lia|].
    exact (agree_from_Inv toc e0 M D f probes eq_refl Hok Hm Hd HI Hp).
  - (* the first entry is the root *)
    assert (Hallt : Forall entry_ok t).
    { apply Forall_forall. intros e Hin. rewrite Forall_forall in Hokt. destruct (Hokt e Hin) as [He|[Hn _]]; [exact He|exfalso].
      destruct Hr0 as [Hn0 _]. simpl in Hnd. inversion Hnd as [|? ? Hnin _]; subst. apply Hnin. rewrite Hn0, <- Hn.
      apply in_map. exact Hin. }
    destruct Hr0 as [Hn0 [Hd0 _]].
    destruct (Inv_step_root toc 0%nat (ms_init toc) d_init (fun _ => None) e0 H0 eq_refl Hn0 Hd0 eq_refl ltac:(intros k Hk; discriminate))
      as [ds1 [S1 [S2 H1]]].
    destruct (Inv_run toc Hord t 1%nat _ ds1 _ H1 Hallt) as [M [D [f [Hm [Hd HI]]]]];
      [intros k e Hk; exact Hk|simpl; lia|].
    apply (agree_from_Inv toc e0 M D f probes eq_refl Hok); [| |exact HI|exact Hp].
    + unfold toc at 1. cbn [number fold_left]. rewrite S1. exact Hm.
    + unfold db_build, toc. cbn [fold_left]. rewrite S2. exact Hd.
Qed.

(* ---------- the boolean class predicates ---------- *)

Lemma entry_okb_ok : forall e, entry_okb e = true -> entry_ok e.
Proof.
  intros e H. unfold entry_okb in H.
  apply andb_true_iff in H. destruct H as [H Hreg].
  apply andb_true_iff in H. destruct H as [H Hname].
  apply andb_true_iff in H. destruct H as [H Hp2].
  apply andb_true_iff in H. destruct H as [Hty Hp1].
  constructor.
  - destruct (e_type e); simpl in *; congruence.
  - apply Z.leb_le in Hp1. apply Z.ltb_lt in Hp2. lia.
  - intro E. unfold cname in E. rewrite E in Hname. discriminate.
  - intro Hr. rewrite Hr in Hreg. simpl in Hreg.
    apply andb_true_iff in Hreg. destruct Hreg as [Hreg Hoff].
    apply andb_true_iff in Hreg. destruct Hreg as [Hreg Hcs].
    apply andb_true_iff in Hreg. destruct Hreg as [Hsz Hco].
    apply Z.leb_le in Hsz. apply Z.eqb_eq in Hco.
    split; [exact Hsz|]. split; [exact Hco|]. split.
    + apply orb_true_iff in Hcs. destruct Hcs as [E|E]; apply Z.eqb_eq in E; tauto.
    + intro Hz. apply orb_true_iff in Hoff. destruct Hoff as [E|E].
      * rewrite Hz in E. discriminate.
      * apply Z.eqb_eq in E. exact E.
  - intro Hr. destruct (etype_eqb (e_type e) TReg) eqn:E.
    + exfalso. apply Hr. destruct (e_type e); simpl in E; congruence.
    + apply Z.eqb_eq in Hreg. exact Hreg.
Qed.

Lemma root_entryb_ok : forall e, root_entryb e = true -> root_entry e.
Proof.
  intros e H. unfold root_entryb in H.
  apply andb_true_iff in H. destruct H as [H Hoff].
  apply andb_true_iff in H. destruct H as [H Hp2].
  apply andb_true_iff in H. destruct H as [H Hp1].
  apply andb_true_iff in H. destruct H as [Hn Hd].
  split; [apply path_eqb_eq; exact Hn|]. split; [destruct (e_type e); simpl in Hd; congruence|].
  apply Z.leb_le in Hp1. apply Z.ltb_lt in Hp2. apply Z.eqb_eq in Hoff. split; [lia|exact Hoff].
Qed.

Lemma nodup_paths_ok : forall l, nodup_paths l = true -> NoDup l.
Proof.
  induction l as [|p t IH]; intro H; [constructor|]. simpl in H. apply andb_true_iff in H. destruct H as [H1 H2].
  constructor; [|exact (IH H2)]. intro Hin. apply negb_true_iff in H1.
  assert (existsb (path_eqb p) t = true) by (apply existsb_exists; exists p; split; [exact Hin|apply path_eqb_refl]). congruence.
Qed.

Lemma psfx_suffix_proper : forall p q, psfx p q -> is_suffix_proper p q = true.
Proof.
  intros p q [pre [Hne E]]. subst q. induction pre as [|c pre IH]; [contradiction|].
  simpl. destruct pre as [|c' pre'].
  - simpl. rewrite path_eqb_refl. reflexivity.
  - rewrite IH by discriminate. apply orb_true_r.
Qed.

Lemma ordb_ok : forall toc,
  forallb (fun je : nat * entry =>
       forallb (fun ke : nat * entry =>
         negb (is_suffix_proper (clean (e_name (snd ke))) (clean (e_name (snd je)))) || Nat.ltb (fst ke) (fst je))
         (number 0 toc)) (number 0 toc) = true -> ord_toc toc.
Proof.
  intros toc H3 j k ej ek Hj Hk Hp. rewrite forallb_forall in H3.
  pose proof (H3 (j, ej) (number_nth toc 0%nat j ej Hj)) as H4. rewrite forallb_forall in H4.
  pose proof (H4 (k, ek) (number_nth toc 0%nat k ek Hk)) as H5. cbn [fst snd] in H5.
  unfold cname in Hp. rewrite (psfx_suffix_proper _ _ Hp) in H5. simpl in H5. apply Nat.ltb_lt. exact H5.
Qed.

Lemma rooted_tocb_ok : forall toc, rooted_tocb toc = true -> tree_toc toc.
Proof.
  intros toc H. unfold rooted_tocb in H. apply andb_true_iff in H. destruct H as [H H3].
  apply andb_true_iff in H. destruct H as [H1 H2].
  constructor.
  - rewrite forallb_forall in H1. apply Forall_forall. intros e Hin. pose proof (H1 e Hin) as He.
    apply orb_true_iff in He. destruct He as [He|He]; [left; exact (entry_okb_ok e He)|right; exact (root_entryb_ok e He)].
  - exact (nodup_paths_ok _ H2).
  - exact (ordb_ok toc H3).
Qed.

Lemma implicit_tocb_ok : forall toc, implicit_tocb toc = true -> tree_toc toc.
Proof.
  intros toc H. unfold implicit_tocb in H. apply andb_true_iff in H. destruct H as [H H3].
  apply andb_true_iff in H. destruct H as [H1 H2].
  constructor.
  - rewrite forallb_forall in H1. apply Forall_forall. intros e Hin. left. exact (entry_okb_ok e (H1 e Hin)).
  - exact (nodup_paths_ok _ H2).
  - exact (ordb_ok toc H3).
Qed.
