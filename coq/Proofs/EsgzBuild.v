(* C03 — proofs about estargz.Build end to end (Model/EsgzBuild.v): own-C14's sortEntries theorems
   (Proofs/Sort.v) composed with the writer / builder theorems of Proofs/EsgzWriter.v. *)
From Coq Require Import List NArith ZArith Bool Arith String Lia Permutation.
From SV Require Import Gen.Consts.
From SV Require Model.Sort Proofs.Sort.
From SV Require Import Model.EsgzFooter Model.EsgzWriter Model.EsgzBuild Proofs.EsgzFooter Proofs.EsgzWriter.
Import ListNotations.
Open Scope N_scope.

Module SP := SV.Proofs.Sort.

Lemma map_witem_ents : forall att lmid lmh l, map (witem att lmid lmh) (map S.IEnt l) = map (went att) l.
Proof. intros. rewrite map_map. reflexivity. Qed.

(* the writer entries of a sorted tar: group, landmark, rest *)
Lemma witems_layout : forall att lmid lmh t prio allow items missed,
  S.sort_entries t prio allow = S.SOk items missed ->
  map (witem att lmid lmh) items
  = map (went att) (SP.group_of items) ++ [wland lmid lmh] ++ map (went att) (SP.rest_of items).
Proof.
  intros att lmid lmh t prio allow items missed H.
  destruct (SP.sort_ok_group _ _ _ _ _ H) as (_ & E & _).
  rewrite E at 1. rewrite !map_app, !map_witem_ents. reflexivity.
Qed.

Lemma witems_wf : forall i att lmid lmh t prio allow items missed,
  (forall se, In se t -> wf_entry i (went att se)) -> wf_entry i (wland lmid lmh) ->
  S.sort_entries t prio allow = S.SOk items missed ->
  Forall (wf_entry i) (map (witem att lmid lmh) items).
Proof.
  intros i att lmid lmh t prio allow items missed W WL H.
  destruct (SP.sort_single_landmark _ _ _ _ _ H) as [_ IN].
  apply Forall_forall. intros e He. apply in_map_iff in He as (it & <- & Hit).
  destruct it as [se|p]; simpl; [|exact WL].
  apply W. apply SP.import_in. apply (IN se Hit).
Qed.

(* Build end to end: the decompressed payload *)
Lemma build_from_tar_payload : forall i att t prio allow lmid lmh k chunk minc cs fs b,
  (forall se, In se t -> wf_entry i (went att se)) -> wf_entry i (wland lmid lmh) ->
  build_from_tar i att t prio allow lmid lmh k chunk minc cs fs = Ok b ->
  exists items missed,
    S.sort_entries t prio allow = S.SOk items missed
    /\ payloads (b_members b)
       = ser i (map (went att) (SP.group_of items)) ++ ser i [wland lmid lmh] ++ ser i (map (went att) (SP.rest_of items))
    /\ Permutation (SP.group_of items ++ SP.rest_of items) (S.import t)
    /\ S.import t = SP.import_spec t
    /\ NoDup (SP.keys (S.import t))
    /\ (forall se, In se (S.import t) -> In se t /\ S.is_landmark (S.key se) = false)
    /\ b_unc b = N.of_nat (List.length (payloads (b_members b))).
Proof.
  intros i att t prio allow lmid lmh k chunk minc cs fs b W WL H. unfold build_from_tar in H.
  destruct (S.sort_entries t prio allow) as [items missed| | |] eqn:E; try discriminate.
  exists items, missed. split; [reflexivity|].
  pose proof (witems_wf _ _ _ _ _ _ _ _ _ W WL E) as WF.
  split.
  - rewrite (build_payload _ _ _ _ _ _ _ _ _ WF H), app_nil_r.
    rewrite (witems_layout _ _ _ _ _ _ _ _ E), !ser_app. reflexivity.
  - split; [exact (SP.sort_permutation _ _ _ _ _ E)|].
    split; [exact (SP.import_is_spec t)|].
    split; [exact (SP.import_nodup t)|].
    split; [intros se Hse; exact (conj (SP.import_in t se Hse) (SP.import_no_landmark t se Hse))|].
    apply (build_unc i (MBuild k) chunk minc 0 _ cs fs b WF); [discriminate|exact H].
Qed.

(* without prioritized files: the no-prefetch landmark first, then the imported entries in input order *)
Lemma build_from_tar_noprio : forall i att t allow lmid lmh k chunk minc cs fs b,
  (forall se, In se t -> wf_entry i (went att se)) -> wf_entry i (wland lmid lmh) ->
  build_from_tar i att t [] allow lmid lmh k chunk minc cs fs = Ok b ->
  payloads (b_members b) = ser i [wland lmid lmh] ++ ser i (map (went att) (S.import t)).
Proof.
  intros i att t allow lmid lmh k chunk minc cs fs b W WL H.
  pose proof (SP.sort_empty_list t allow) as E.
  unfold build_from_tar in H. rewrite E in H.
  pose proof (witems_wf _ _ _ _ _ _ _ _ _ W WL E) as WF.
  rewrite (build_payload _ _ _ _ _ _ _ _ _ WF H), app_nil_r. simpl map. rewrite map_witem_ents.
  change (wland lmid lmh :: map (went att) (S.import t)) with ([wland lmid lmh] ++ map (went att) (S.import t)).
  apply ser_app.
Qed.

(* Build end to end: the index *)
Lemma build_from_tar_index : forall i att t prio allow lmid lmh k chunk minc cs fs b,
  (forall se, In se t -> wf_entry i (went att se)) -> wf_entry i (wland lmid lmh) ->
  build_from_tar i att t prio allow lmid lmh k chunk minc cs fs = Ok b ->
  b_total b = csum (b_members b) /\
  forall x, In x (b_toc b) -> is_data x = true ->
    exists e, (e = wland lmid lmh \/ exists se, In se (S.import t) /\ e = went att se)
              /\ e_id e = t_id x /\ e_kind e = KReg /\ located i (b_members b) e x.
Proof.
  intros i att t prio allow lmid lmh k chunk minc cs fs b W WL H. unfold build_from_tar in H.
  destruct (S.sort_entries t prio allow) as [items missed| | |] eqn:E; try discriminate.
  pose proof (witems_wf _ _ _ _ _ _ _ _ _ W WL E) as WF.
  destruct (build_self_index _ _ _ _ _ _ _ _ _ WF H) as [T L]. split; [exact T|].
  intros x Hx Hd. destruct (L x Hx Hd) as (e & He & H1 & H2 & H3). exists e. repeat split; try assumption.
  apply in_map_iff in He as (it & <- & Hit). destruct it as [se|p]; simpl; [right|left; reflexivity].
  exists se. split; [|reflexivity]. destruct (SP.sort_single_landmark _ _ _ _ _ E) as [_ IN]. apply (IN se Hit).
Qed.

(* sortEntries errors abort the build *)
Lemma build_from_tar_sort_error : forall i att t prio allow lmid lmh k chunk minc cs fs,
  (forall items missed, S.sort_entries t prio allow <> S.SOk items missed) ->
  build_from_tar i att t prio allow lmid lmh k chunk minc cs fs = Err.
Proof.
  intros. unfold build_from_tar. destruct (S.sort_entries t prio allow) eqn:E; try reflexivity.
  exfalso. eapply H. reflexivity.
Qed.

(* a concrete instance for the non-vacuity example: spelled duplicates, an old landmark, an old TOC, a directory
   pulled by a prioritized nested file *)
Definition ex_tar : list S.entry :=
  [S.mkE 0 "a/b.txt" None; S.mkE 1 "d/" None; S.mkE 2 "./a/b.txt" None; S.mkE 3 "/.no.prefetch.landmark" None;
   S.mkE 4 "d//f" None; S.mkE 5 "//stargz.index.json" None; S.mkE 6 "../a/./b.txt" None]%string.
Definition ex_att (k : nat) : attr :=
  nth k [(KReg, 700, 512); (KMeta, 0, 512); (KReg, 5, 512); (KReg, 1, 512); (KReg, 1300, 512); (KReg, 40, 512); (KReg, 600, 512)]
      (KBad, 0, 0).

Lemma ex_tar_wf : forall se, In se ex_tar -> wf_entry ex_io (went ex_att se).
Proof.
  intros se H. simpl in H.
  repeat (destruct H as [<-|H]; [vm_compute; repeat split; reflexivity|]). contradiction.
Qed.

(* ================= compressor values reused for several builds ================= *)
(* the value after a sequence of builds *)
Definition comp_run (st : cstate) (l : list step) : cstate := fold_left comp_after l st.

(* external TOC: after ANY sequence of builds that ends with a successful external-TOC build, WriteTOCTo hands out
   the TOC of that last build, whatever the earlier builds were and whatever the value held before *)
Lemma ext_toc_is_last_build : forall st pre c b,
  step_fmt c = FExt -> step_blob c = Ok b ->
  write_toc_to (comp_run st (pre ++ [c])) = Some (b_toc b).
Proof.
  intros st pre c b F B. unfold comp_run. rewrite fold_left_app. simpl.
  unfold comp_after. rewrite F, B. reflexivity.
Qed.

(* a failed build (it never reaches WriteTOCAndFooter) leaves the registered TOC untouched, so does a build of
   another format *)
Lemma ext_toc_kept : forall st c,
  (step_fmt c <> FExt \/ forall b, step_blob c <> Ok b) -> comp_after st c = st.
Proof.
  intros st c [F|B]; unfold comp_after.
  - destruct (step_fmt c); try reflexivity. contradiction.
  - destruct (step_fmt c); try reflexivity. destruct (step_blob c) eqn:E; try reflexivity. exfalso. exact (B a eq_refl).
Qed.

(* gzip and zstd:chunked compressor values carry nothing: a sequence of such builds leaves the value as it was *)
Lemma plain_comp_stateless : forall l st,
  Forall (fun c => step_fmt c <> FExt) l -> comp_run st l = st.
Proof.
  induction l as [|c l IH]; intros st F; [reflexivity|].
  inversion F as [|? ? Fc Fl]; subst. unfold comp_run. simpl. rewrite (ext_toc_kept st c (or_introl Fc)). apply IH. exact Fl.
Qed.

(* the TOC handed out after every build of a sequence, step by step *)
Fixpoint tocs_after (st : cstate) (l : list step) : list (option (list tocent)) :=
  match l with
  | [] => []
  | c :: t => write_toc_to (comp_after st c) :: tocs_after (comp_after st c) t
  end.

Lemma tocs_after_each : forall l st k c b,
  nth_error l k = Some c -> step_fmt c = FExt -> step_blob c = Ok b ->
  nth_error (tocs_after st l) k = Some (Some (b_toc b)).
Proof.
  induction l as [|x l IH]; intros st k c b N F B; [destruct k; discriminate|].
  destruct k as [|k]; simpl in *.
  - injection N as ->. unfold comp_after. rewrite F, B. reflexivity.
  - apply (IH _ _ _ _ N F B).
Qed.
