(* Proofs about Model/Convert.v (C19). *)
From Coq Require Import List Arith NArith Bool Permutation Lia.
From SV Require Import Model.Convert.
Import ListNotations.

(* ------------------------------------------------------------------------------------------- *)
(* association lists *)

Lemma alookup_aset : forall V (m : list (N * V)) k v k',
  alookup (aset m k v) k' = if N.eqb k k' then Some v else alookup m k'.
Proof.
  induction m as [|[k0 v0] t IH]; intros k v k'; simpl.
  - reflexivity.
  - destruct (N.eqb_spec k0 k) as [E|NE]; simpl.
    + subst k0. destruct (N.eqb_spec k k'); reflexivity.
    + rewrite IH. destruct (N.eqb_spec k0 k') as [E'|NE'].
      * subst k0. destruct (N.eqb_spec k k'); [congruence|reflexivity].
      * reflexivity.
Qed.

Lemma alookup_aset_same : forall V (m : list (N * V)) k v, alookup (aset m k v) k = Some v.
Proof. intros. rewrite alookup_aset, N.eqb_refl. reflexivity. Qed.

Lemma alookup_aset_other : forall V (m : list (N * V)) k v k', k <> k' -> alookup (aset m k v) k' = alookup m k'.
Proof. intros. rewrite alookup_aset. destruct (N.eqb_spec k k'); [contradiction|reflexivity]. Qed.

Lemma aset_keys : forall V (m : list (N * V)) k v x, In x (map fst (aset m k v)) <-> x = k \/ In x (map fst m).
Proof.
  induction m as [|[k0 v0] t IH]; intros k v x; simpl.
  - intuition congruence.
  - destruct (N.eqb_spec k0 k) as [E|NE]; simpl.
    + subst. intuition congruence.
    + rewrite IH. intuition congruence.
Qed.

Lemma aset_nodup : forall V (m : list (N * V)) k v, NoDup (map fst m) -> NoDup (map fst (aset m k v)).
Proof.
  induction m as [|[k0 v0] t IH]; intros k v ND; simpl.
  - constructor; [intros []|constructor].
  - inversion ND as [|? ? NI ND']; subst.
    destruct (N.eqb_spec k0 k) as [E|NE]; simpl.
    + subst. constructor; assumption.
    + constructor; [|apply IH; assumption].
      rewrite aset_keys. intros [E|I]; [congruence|contradiction].
Qed.

Lemma alookup_In : forall V (m : list (N * V)) k v,
  NoDup (map fst m) -> (alookup m k = Some v <-> In (k, v) m).
Proof.
  induction m as [|[k0 v0] t IH]; intros k v ND; simpl.
  - split; [discriminate|tauto].
  - inversion ND as [|? ? NI ND']; subst.
    destruct (N.eqb_spec k0 k) as [E|NE].
    + subst. split.
      * intros E; inversion E; subst. left; reflexivity.
      * intros [E|I]; [inversion E; reflexivity|].
        exfalso. apply NI. apply in_map_iff. exists (k, v). split; [reflexivity|assumption].
    + rewrite IH by assumption. split; [tauto|]. intros [E|I]; [inversion E; congruence|assumption].
Qed.

Lemma alookup_none_keys : forall V (m : list (N * V)) k, alookup m k = None <-> ~ In k (map fst m).
Proof.
  induction m as [|[k0 v0] t IH]; intros k; simpl.
  - tauto.
  - destruct (N.eqb_spec k0 k) as [E|NE].
    + subst. split; [discriminate|]. intros C. exfalso. apply C. left; reflexivity.
    + rewrite IH. tauto.
Qed.

Lemma alookup_perm : forall V (l l' : list (N * V)) k,
  NoDup (map fst l) -> Permutation l l' -> alookup l k = alookup l' k.
Proof.
  intros V l l' k ND P.
  assert (ND' : NoDup (map fst l')) by (eapply Permutation_NoDup; [apply Permutation_map; exact P|exact ND]).
  destruct (alookup l k) as [v|] eqn:E.
  - symmetry. apply alookup_In; [assumption|]. eapply Permutation_in; [exact P|]. apply alookup_In; assumption.
  - destruct (alookup l' k) as [v'|] eqn:E'; [|reflexivity].
    apply alookup_In in E'; [|assumption].
    apply Permutation_sym in P. eapply Permutation_in in E'; [|exact P].
    apply alookup_In in E'; [congruence|assumption].
Qed.


Lemma assign_app : forall V (a b : list (N * V)) m, assign m (a ++ b) = assign (assign m a) b.
Proof. intros. unfold assign. apply fold_left_app. Qed.

Lemma assign_untouched : forall V (evs : list (N * V)) m k,
  ~ In k (map fst evs) -> alookup (assign m evs) k = alookup m k.
Proof.
  induction evs as [|[k0 v0] t IH]; intros m k NI; simpl.
  - reflexivity.
  - simpl in NI. unfold assign in *. simpl. rewrite IH by tauto.
    apply alookup_aset_other. intros E. apply NI. left; assumption.
Qed.

(* last writer wins: the value found under k is the one of the last assignment to k *)
Lemma assign_last : forall V (a b : list (N * V)) m k v,
  ~ In k (map fst b) -> alookup (assign m (a ++ (k, v) :: b)) k = Some v.
Proof.
  intros V a b m k v NI. rewrite assign_app. unfold assign at 1. simpl.
  fold (assign (aset (assign m a) k v) b).
  rewrite assign_untouched by assumption. apply alookup_aset_same.
Qed.

Lemma assign_nodup_keys : forall V (evs : list (N * V)) m, NoDup (map fst m) -> NoDup (map fst (assign m evs)).
Proof.
  induction evs as [|[k0 v0] t IH]; intros m ND; simpl; [assumption|].
  unfold assign in *. simpl. apply IH. apply aset_nodup. assumption.
Qed.

(* every key found was either there before or assigned; a found value was there before or assigned *)
Lemma assign_found : forall V (evs : list (N * V)) m k v,
  alookup (assign m evs) k = Some v -> In (k, v) evs \/ alookup m k = Some v.
Proof.
  induction evs as [|[k0 v0] t IH]; intros m k v E; simpl in *.
  - right; assumption.
  - unfold assign in E. simpl in E. apply IH in E. destruct E as [I|E]; [left; right; assumption|].
    rewrite alookup_aset in E. destruct (N.eqb_spec k0 k) as [EQ|NE].
    + inversion E; subst. left; left; reflexivity.
    + right; assumption.
Qed.

(* with pairwise distinct keys every assignment survives ... *)
Lemma assign_distinct_in : forall V (evs : list (N * V)) m k v,
  NoDup (map fst evs) -> In (k, v) evs -> alookup (assign m evs) k = Some v.
Proof.
  induction evs as [|[k0 v0] t IH]; intros m k v ND I; simpl in *; [contradiction|].
  inversion ND as [|? ? NI ND']; subst. unfold assign. simpl. fold (assign (aset m k0 v0) t).
  destruct I as [E|I].
  - inversion E; subst. rewrite assign_untouched by assumption. apply alookup_aset_same.
  - apply IH; assumption.
Qed.

(* ... so the resulting map does not depend on the order of the assignments *)
Lemma assign_perm : forall V (evs evs' : list (N * V)) m k,
  NoDup (map fst evs) -> Permutation evs evs' -> alookup (assign m evs) k = alookup (assign m evs') k.
Proof.
  intros V evs evs' m k ND P.
  assert (ND' : NoDup (map fst evs')) by (eapply Permutation_NoDup; [apply Permutation_map; exact P|exact ND]).
  destruct (in_dec N.eq_dec k (map fst evs)) as [I|NI].
  - apply in_map_iff in I. destruct I as [[k1 v] [E I]]. simpl in E. subst k1.
    rewrite (assign_distinct_in _ evs m k v ND I).
    symmetry. apply assign_distinct_in; [assumption|]. eapply Permutation_in; eassumption.
  - rewrite assign_untouched by assumption.
    rewrite assign_untouched; [reflexivity|].
    intros I. apply NI. eapply Permutation_in; [apply Permutation_sym; apply Permutation_map; exact P|exact I].
Qed.

(* ------------------------------------------------------------------------------------------- *)
(* finalize / fetch *)

Lemma ins_sorted_perm : forall x l, Permutation (ins_sorted x l) (x :: l).
Proof.
  induction l as [|y t IH]; simpl; [apply Permutation_refl|].
  destruct (ent_leb x y); [apply Permutation_refl|].
  eapply Permutation_trans; [apply perm_skip; exact IH|apply perm_swap].
Qed.

Lemma finalize_perm : forall m, Permutation (finalize m) m.
Proof.
  induction m as [|x t IH]; simpl; [constructor|].
  eapply Permutation_trans; [apply ins_sorted_perm|apply perm_skip; exact IH].
Qed.

Lemma fetch_alookup : forall mf d, fetch mf d = alookup mf d.
Proof. induction mf as [|[l t] r IH]; intros d; simpl; [reflexivity|]. rewrite IH. reflexivity. Qed.

Lemma fetch_finalize : forall m d, NoDup (map fst m) -> fetch (finalize m) d = alookup m d.
Proof.
  intros m d ND. rewrite fetch_alookup. symmetry. apply alookup_perm; [assumption|].
  apply Permutation_sym. apply finalize_perm.
Qed.

Lemma finalize_nodup : forall m, NoDup (map fst m) -> NoDup (map fst (finalize m)).
Proof.
  intros m ND. eapply Permutation_NoDup; [|exact ND].
  apply Permutation_map. apply Permutation_sym. apply finalize_perm.
Qed.


Lemma ent_leb_false : forall x y, ent_leb x y = false -> (fst (snd y) <= fst (snd x))%N.
Proof.
  intros [lx [tx sx]] [ly [ty sy]]; simpl. intros E.
  apply orb_false_iff in E. destruct E as [E1 E2]. apply N.ltb_ge in E1. exact E1.
Qed.
Lemma ent_leb_true : forall x y, ent_leb x y = true -> (fst (snd x) <= fst (snd y))%N.
Proof.
  intros [lx [tx sx]] [ly [ty sy]]; simpl. intros E.
  apply orb_true_iff in E. destruct E as [E|E].
  - apply N.ltb_lt in E. lia.
  - apply andb_true_iff in E. destruct E as [E _]. apply N.eqb_eq in E. lia.
Qed.

Lemma ins_sorted_sorted : forall x l, toc_sorted l -> toc_sorted (ins_sorted x l).
Proof.
  induction l as [|y t IH]; simpl; intros S.
  - split; [intros ? []|exact I].
  - destruct S as [Sy St]. destruct (ent_leb x y) eqn:E; simpl.
    + split; [|split; assumption].
      intros z [Z|Z]; [subst; apply ent_leb_true; assumption|].
      apply ent_leb_true in E. specialize (Sy z Z). lia.
    + split; [|apply IH; assumption].
      intros z Z. eapply Permutation_in in Z; [|apply ins_sorted_perm].
      destruct Z as [Z|Z]; [subst; apply ent_leb_false; assumption|apply Sy; assumption].
Qed.

Lemma finalize_sorted : forall m, toc_sorted (finalize m).
Proof. induction m as [|x t IH]; simpl; [exact I|apply ins_sorted_sorted; exact IH]. Qed.

(* ------------------------------------------------------------------------------------------- *)
(* media-type table (finite) *)

Lemma out_mt_comp : forall k m m', out_mt k m = Some m' -> mt_comp m' = Some (kind_comp k).
Proof. intros k m m' E. destruct k, m; simpl in E; inversion E; reflexivity. Qed.

Lemma out_mt_family : forall k m m', out_mt k m = Some m' ->
  is_nondist m' = is_nondist m /\ (is_docker m' = match k with KZstd => false | _ => is_docker m end).
Proof. intros k m m' E. destruct k, m; simpl in E; inversion E; split; reflexivity. Qed.

Lemma out_mt_total_gzip : forall k m, k <> KZstd -> exists m', out_mt k m = Some m'.
Proof. intros k m NE. destruct k; try congruence; eexists; reflexivity. Qed.

(* the only layer media type the zstd:chunked converter refuses is Docker's zstd type *)
Lemma out_mt_zstd_none : forall m, out_mt KZstd m = None <-> m = DkZst.
Proof. intros m. destruct m; simpl; split; intros E; try discriminate; reflexivity. Qed.

(* ------------------------------------------------------------------------------------------- *)
Section Conv.
  Context {blob : Type}.
  Variable H : blob -> N.
  Variable len : blob -> N.
  Variable payload : blob -> blob.
  Variable tocdg : blob -> N.
  Variable etoc : blob -> N * N.

  Local Notation committed := (committed H len payload).
  Local Notation convert := (convert H len payload tocdg).
  Local Notation step := (step H len payload etoc).
  Local Notation exec := (exec H len payload etoc).
  Local Notation commits_to := (commits_to H len payload).
  Local Notation records_to := (records_to H len payload).
  Local Notation map_event := (map_event H len payload etoc).
  Local Notation map_events := (map_events H len payload etoc).

  (* ---- the returned descriptor ---- *)
  Lemma convert_describes : forall k (l : layer) d,
    convert k l = Some d ->
    exists b, l_built l = Some b /\ committed k l = Some b
      /\ d_digest d = H b /\ d_size d = len b /\ d_toc d = tocdg b /\ d_usize d = len (payload b)
      /\ out_mt k (l_mt l) = Some (d_mt d).
  Proof.
    intros k l d E. unfold Convert.convert in E.
    destruct (committed k l) as [b|] eqn:C; [|discriminate].
    destruct (out_mt k (l_mt l)) as [m|] eqn:M; [|discriminate].
    inversion E; subst; simpl. exists b.
    assert (B : l_built l = Some b).
    { unfold Convert.committed in C. destruct (l_built l) as [b0|]; [|discriminate].
      destruct k; try (inversion C; reflexivity).
      destruct (lossless_ok H len payload (l_src l) b0); inversion C; reflexivity. }
    repeat split; try reflexivity; assumption.
  Qed.

  Lemma convert_total : forall k (l : layer) b,
    committed k l = Some b -> (k = KZstd -> l_mt l <> DkZst) -> exists d, convert k l = Some d.
  Proof.
    intros k l b C M. unfold Convert.convert. rewrite C.
    destruct (out_mt k (l_mt l)) as [m|] eqn:E; [eexists; reflexivity|].
    exfalso. destruct k; simpl in E; try discriminate.
    apply out_mt_zstd_none in E. apply M; [reflexivity|assumption].
  Qed.

  Lemma lossless_keeps_diffid : forall (l : layer) d,
    convert KExtLL l = Some d ->
    exists b, l_built l = Some b /\ H (payload b) = H (payload (l_src l)) /\ len (payload b) = len (payload (l_src l)).
  Proof.
    intros l d E. unfold Convert.convert, Convert.committed in E.
    destruct (l_built l) as [b|]; [|discriminate].
    destruct (lossless_ok H len payload (l_src l) b) eqn:L; [|discriminate].
    exists b. unfold lossless_ok in L. apply andb_true_iff in L. destruct L as [L1 L2].
    apply N.eqb_eq in L1. apply N.eqb_eq in L2. repeat split; assumption.
  Qed.

  (* ---- content store label under every schedule ---- *)
  Lemma commit_lookup : forall s d l d', alookup (commit s d l) d' = if N.eqb d d' then Some l else alookup s d'.
  Proof. intros. unfold commit. destruct (alookup s d); apply alookup_aset. Qed.

  Lemma commit_nolabel_keeps : forall s d d' x, alookup s d' = Some x -> alookup (commit_nolabel s d) d' = Some x.
  Proof.
    intros s d d' x E. unfold commit_nolabel. destruct (alookup s d) eqn:A; [assumption|].
    rewrite alookup_aset. destruct (N.eqb_spec d d'); [congruence|assumption].
  Qed.


  Lemma step_store : forall k ls s o d,
    (exists i l b, o = Commit i /\ nth_error ls i = Some l /\ committed k l = Some b /\ H b = d
                   /\ alookup (sstore (step k ls s o)) d = Some (H (payload b)))
    \/ ((forall i l b, o = Commit i -> nth_error ls i = Some l -> committed k l = Some b -> H b <> d)
        /\ forall x, alookup (sstore s) d = Some x -> alookup (sstore (step k ls s o)) d = Some x).
  Proof.
    intros k ls s o d. destruct o as [i|i|i|rk]; simpl.
    - right. split; [intros; discriminate|]. intros x E.
      destruct k; try assumption. destruct (nth_error ls i) as [l|]; [|assumption].
      destruct (mt_comp (l_mt l)); [|assumption]. simpl. apply commit_nolabel_keeps. assumption.
    - destruct (nth_error ls i) as [l|] eqn:NL.
      + destruct (committed k l) as [b|] eqn:C.
        * destruct (N.eq_dec (H b) d) as [E|NE].
          -- left. exists i, l, b. repeat split; try assumption. simpl.
             rewrite commit_lookup. subst d. rewrite N.eqb_refl. reflexivity.
          -- right. split.
             ++ intros i' l' b' E1 E2 E3. inversion E1; subst i'. rewrite NL in E2. inversion E2; subst l'.
                rewrite C in E3. inversion E3; subst b'. assumption.
             ++ intros x E. simpl. rewrite commit_lookup. destruct (N.eqb_spec (H b) d); [contradiction|assumption].
        * right. split; [|intros; assumption].
          intros i' l' b' E1 E2 E3. inversion E1; subst i'. rewrite NL in E2. inversion E2; subst l'. congruence.
      + right. split; [|intros; assumption].
        intros i' l' b' E1 E2 E3. inversion E1; subst i'. congruence.
    - right. split; [intros; discriminate|]. intros x E.
      destruct (nth_error ls i) as [l|]; [|assumption].
      destruct (is_ext k); [|assumption]. destruct (out_mt k (l_mt l)); [|assumption].
      destruct (committed k l); assumption.
    - right. split; [intros; discriminate|]. intros x E. assumption.
  Qed.

  Lemma exec_app : forall k ls s a b, exec k ls s (a ++ b) = exec k ls (exec k ls s a) b.
  Proof. intros. unfold Convert.exec. apply fold_left_app. Qed.

  Lemma label_any_schedule : forall k ls os s0 d,
    (exists b, commits_to k ls os d b) ->
    exists b, commits_to k ls os d b /\ alookup (sstore (exec k ls s0 os)) d = Some (H (payload b)).
  Proof.
    intros k ls os. induction os as [|o os IH] using rev_ind; intros s0 d [b0 Hc].
    - destruct Hc as (i & l & I & _). destruct I.
    - rewrite exec_app. simpl.
      destruct (step_store k ls (exec k ls s0 os) o d) as [(i & l & b & Eo & NL & C & Hd & L)|[NC Keep]].
      + exists b. split; [|exact L].
        exists i, l. repeat split; try assumption. apply in_or_app. right. left. exact Eo.
      + destruct Hc as (i & l & I & NL & C & Hd).
        apply in_app_or in I. destruct I as [I|[I|[]]].
        * destruct (IH s0 d) as (b & Cb & L); [exists b0, i, l; repeat split; assumption|].
          exists b. split.
          -- destruct Cb as (i' & l' & I' & R). exists i', l'. split; [apply in_or_app; left; exact I'|exact R].
          -- apply Keep. exact L.
        * exfalso. exact (NC i l b0 I NL C Hd).
  Qed.

  (* frame: a digest that no conversion of the schedule commits keeps the label it has (source blobs in particular) *)
  Lemma label_frame : forall k ls os s0 d x,
    (forall b, ~ commits_to k ls os d b) ->
    alookup (sstore s0) d = Some x -> alookup (sstore (exec k ls s0 os)) d = Some x.
  Proof.
    intros k ls os. induction os as [|o os IH] using rev_ind; intros s0 d x NC E; [exact E|].
    rewrite exec_app. simpl.
    assert (E' : alookup (sstore (exec k ls s0 os)) d = Some x).
    { apply IH; [|exact E]. intros b (i & l & I & R). apply (NC b). exists i, l. split; [apply in_or_app; left; exact I|exact R]. }
    destruct (step_store k ls (exec k ls s0 os) o d) as [(i & l & b & Eo & NL & C & Hd & _)|[_ Keep]].
    - exfalso. apply (NC b). exists i, l. repeat split; try assumption. apply in_or_app. right. left. exact Eo.
    - apply Keep. exact E'.
  Qed.

  (* ---- the shared map under every schedule ---- *)
  Lemma step_smap : forall k ls s o, smap (step k ls s o) = assign (smap s) (map_event k ls o).
  Proof.
    intros k ls s o. destruct o as [i|i|i|rk]; simpl.
    - destruct k; try reflexivity. destruct (nth_error ls i) as [l|]; [|reflexivity].
      destruct (mt_comp (l_mt l)); reflexivity.
    - destruct (nth_error ls i) as [l|]; [|reflexivity]. destruct (committed k l); reflexivity.
    - destruct (nth_error ls i) as [l|]; [|reflexivity].
      destruct (is_ext k); [|reflexivity]. destruct (out_mt k (l_mt l)); [|reflexivity].
      destruct (committed k l); reflexivity.
    - reflexivity.
  Qed.

  Lemma exec_smap : forall k ls os s, smap (exec k ls s os) = assign (smap s) (map_events k ls os).
  Proof.
    intros k ls os. induction os as [|o os IH]; intros s; simpl; [reflexivity|].
    unfold map_events. simpl. fold (map_events k ls os). rewrite assign_app.
    unfold Convert.exec in *. simpl. rewrite IH. rewrite step_smap. reflexivity.
  Qed.


  Lemma map_events_in : forall k ls os d t,
    In (d, t) (map_events k ls os) <-> exists b, records_to k ls os d b /\ t = etoc b.
  Proof.
    intros k ls os d t. unfold map_events. rewrite in_flat_map. split.
    - intros (o & I & E). destruct o as [i|i|i|rk]; simpl in E; try contradiction.
      destruct (nth_error ls i) as [l|] eqn:NL; [|contradiction].
      destruct (is_ext k) eqn:X; [|contradiction].
      destruct (out_mt k (l_mt l)) as [m|] eqn:M; [|contradiction].
      destruct (committed k l) as [b|] eqn:C; [|contradiction].
      destruct E as [E|[]]. inversion E; subst.
      exists b. split; [|reflexivity]. exists i, l. repeat split; try assumption. exists m; assumption.
    - intros (b & (i & l & I & NL & X & (m & M) & C & Hd) & T). exists (Record i). split; [assumption|].
      simpl. rewrite NL, X, M, C. left. subst. reflexivity.
  Qed.

  Lemma toc_map_any_schedule : forall k ls os st0 d,
    smap st0 = [] ->
    let s := exec k ls st0 os in
    NoDup (map fst (finalize (smap s)))
    /\ ((exists b, records_to k ls os d b) ->
          exists b, records_to k ls os d b /\ fetch (finalize (smap s)) d = Some (etoc b))
    /\ (forall t, In (d, t) (finalize (smap s)) -> exists b, records_to k ls os d b /\ t = etoc b).
  Proof.
    intros k ls os st0 d E0 s.
    assert (ND : NoDup (map fst (smap s))).
    { unfold s. rewrite exec_smap, E0. apply assign_nodup_keys. constructor. }
    split; [apply finalize_nodup; exact ND|]. split.
    - intros [b0 R]. rewrite fetch_finalize by exact ND.
      assert (I : In d (map fst (map_events k ls os))).
      { apply in_map_iff. exists (d, etoc b0). split; [reflexivity|]. apply map_events_in. exists b0; split; [exact R|reflexivity]. }
      destruct (alookup (smap s) d) as [t|] eqn:L.
      + unfold s in L. rewrite exec_smap, E0 in L. apply assign_found in L.
        destruct L as [L|L]; [|discriminate]. apply map_events_in in L. destruct L as (b & Rb & T).
        exists b. split; [exact Rb|]. subst t. reflexivity.
      + exfalso. unfold s in L. rewrite exec_smap, E0 in L. apply alookup_none_keys in L. apply L.
        (* every assigned key is a key of the result *)
        clear - I. revert I. generalize (@nil (N * (N * N))) as m. generalize (map_events k ls os) as evs.
        induction evs as [|[k0 v0] t IH]; intros m I; simpl in *; [contradiction|].
        unfold assign. simpl. fold (assign (aset m k0 v0) t).
        destruct I as [E|I]; [|apply IH; exact I].
        subst k0. destruct (in_dec N.eq_dec d (map fst t)) as [I'|NI]; [apply IH; exact I'|].
        assert (A : alookup (assign (aset m d v0) t) d = Some v0)
          by (rewrite assign_untouched by exact NI; apply alookup_aset_same).
        destruct (in_dec N.eq_dec d (map fst (assign (aset m d v0) t))) as [Y|Nn]; [exact Y|].
        apply alookup_none_keys in Nn. congruence.
    - intros t I. eapply Permutation_in in I; [|apply finalize_perm].
      apply alookup_In in I; [|exact ND]. unfold s in I. rewrite exec_smap, E0 in I.
      apply assign_found in I. destruct I as [I|I]; [|discriminate]. apply map_events_in in I. exact I.
  Qed.

  Lemma reach_nodup : forall k ls os st0, smap st0 = [] -> NoDup (map fst (smap (exec k ls st0 os))).
  Proof. intros k ls os st0 E0. rewrite exec_smap, E0. apply assign_nodup_keys. constructor. Qed.

  (* last writer wins, stated on the schedule: if the last Record for digest (H b) in the schedule is the one of
     layer i (blob b), the TOC image maps that digest to b's TOC blob *)
  Lemma toc_map_last_writer : forall k ls os1 os2 st0 i l b m,
    smap st0 = [] ->
    nth_error ls i = Some l -> is_ext k = true -> out_mt k (l_mt l) = Some m -> committed k l = Some b ->
    (forall b', ~ records_to k ls os2 (H b) b') ->
    fetch (finalize (smap (exec k ls st0 (os1 ++ Record i :: os2)))) (H b) = Some (etoc b).
  Proof.
    intros k ls os1 os2 st0 i l b m E0 NL X M C Last.
    rewrite fetch_finalize by (apply reach_nodup; exact E0).
    rewrite exec_smap. unfold map_events. rewrite flat_map_app. simpl flat_map.
    simpl map_event. rewrite NL, X, M, C. simpl app.
    apply assign_last.
    intros I. apply in_map_iff in I. destruct I as [[d t] [E I]]. simpl in E. subst d.
    apply map_events_in in I. destruct I as (b' & R & _). exact (Last b' R).
  Qed.

  (* with pairwise distinct layer digests the image does not depend on the order of the map updates *)
  Lemma toc_map_order_independent : forall k ls os os' st0 d,
    smap st0 = [] -> Permutation os os' -> NoDup (map fst (map_events k ls os)) ->
    fetch (finalize (smap (exec k ls st0 os))) d = fetch (finalize (smap (exec k ls st0 os'))) d.
  Proof.
    intros k ls os os' st0 d E0 P ND.
    rewrite !fetch_finalize by (apply reach_nodup; exact E0).
    rewrite !exec_smap. apply assign_perm; [exact ND|].
    unfold map_events. apply Permutation_flat_map. exact P.
  Qed.
  (* ---- finalize calls inside a schedule ---- *)
  Local Notation fin_outputs := (fin_outputs H len payload etoc).

  Lemma fin_outputs_app : forall k ls a b s,
    fin_outputs k ls s (a ++ b) = fin_outputs k ls s a ++ fin_outputs k ls (exec k ls s a) b.
  Proof.
    intros k ls a. induction a as [|o a IH]; intros b s; simpl; [reflexivity|].
    rewrite IH. rewrite app_assoc. reflexivity.
  Qed.

  (* a finalize call, failed or not, consumes nothing: the schedule continues as if it had not happened *)
  Lemma finalize_is_read_only : forall k ls os1 rk os2 s,
    exec k ls s (os1 ++ Finalize rk :: os2) = exec k ls s (os1 ++ os2).
  Proof. intros. rewrite !exec_app. reflexivity. Qed.

  Lemma records_to_app : forall k ls os1 os2 d b, records_to k ls os1 d b -> records_to k ls (os1 ++ os2) d b.
  Proof.
    intros k ls os1 os2 d b (i & l & I & R). exists i, l. split; [apply in_or_app; left; exact I|exact R].
  Qed.

  (* every finalize call of a schedule (the 1st, 2nd, ... one; after failed ones; with further conversions in between):
     it returns an error iff the reference does not parse, otherwise the image of the map as recorded SO FAR, which serves
     every layer digest recorded before the call *)
  Lemma every_finalize : forall k ls os1 rk os2 st0 d,
    smap st0 = [] ->
    let img := finalize (smap (exec k ls st0 os1)) in
    fin_outputs k ls st0 (os1 ++ Finalize rk :: os2)
      = fin_outputs k ls st0 os1 ++ (if rk then Some img else None) :: fin_outputs k ls (exec k ls st0 os1) os2
    /\ NoDup (map fst img)
    /\ ((exists b, records_to k ls os1 d b) -> exists b, records_to k ls os1 d b /\ fetch img d = Some (etoc b))
    /\ (forall t, In (d, t) img -> exists b, records_to k ls os1 d b /\ t = etoc b).
  Proof.
    intros k ls os1 rk os2 st0 d E0 img. split.
    - rewrite fin_outputs_app. simpl. reflexivity.
    - exact (toc_map_any_schedule k ls os1 st0 d E0).
  Qed.

  (* accumulation: a layer digest served by the image of one finalize call is served by every later one *)
  Lemma finalize_accumulates : forall k ls os1 os2 st0 d,
    smap st0 = [] ->
    (exists b, records_to k ls os1 d b) ->
    exists b, records_to k ls (os1 ++ os2) d b
              /\ fetch (finalize (smap (exec k ls st0 (os1 ++ os2)))) d = Some (etoc b).
  Proof.
    intros k ls os1 os2 st0 d E0 [b R].
    destruct (toc_map_any_schedule k ls (os1 ++ os2) st0 d E0) as (_ & F & _).
    apply F. exists b. apply records_to_app. exact R.
  Qed.

  (* ---- end to end, for the layer whose conversion returned descriptor d ---- *)
  Lemma end_to_end : forall k ls os st0 i l d,
    nth_error ls i = Some l -> convert k l = Some d -> In (Commit i) os ->
    (exists b, commits_to k ls os (d_digest d) b
               /\ alookup (sstore (exec k ls st0 os)) (d_digest d) = Some (H (payload b)))
    /\ (is_ext k = true -> In (Record i) os -> smap st0 = [] ->
          exists b, records_to k ls os (d_digest d) b
                    /\ fetch (finalize (smap (exec k ls st0 os))) (d_digest d) = Some (etoc b)).
  Proof.
    intros k ls os st0 i l d NL CV IC.
    destruct (convert_describes k l d CV) as (b & B & C & D & _ & _ & _ & M).
    split.
    - apply label_any_schedule. exists b, i, l. repeat split; try assumption. symmetry; exact D.
    - intros X IR E0.
      destruct (toc_map_any_schedule k ls os st0 (d_digest d) E0) as (_ & F & _).
      apply F. exists b, i, l. repeat split; try assumption; [eexists; exact M|symmetry; exact D].
  Qed.

  (* if every TOC blob verifies the blob it was written for (contract of GzipCompressor.WriteTOCTo with a
     per-conversion compressor), every converted layer digest is served a TOC that verifies a blob of that digest *)
  Lemma toc_image_verifies : forall (verifies : N * N -> blob -> Prop) k ls os st0 d,
    (forall b, verifies (etoc b) b) -> smap st0 = [] ->
    (exists b, records_to k ls os d b) ->
    exists b t, records_to k ls os d b /\ H b = d
                /\ fetch (finalize (smap (exec k ls st0 os))) d = Some t /\ verifies t b.
  Proof.
    intros verifies k ls os st0 d V E0 R.
    destruct (toc_map_any_schedule k ls os st0 d E0) as (_ & F & _).
    destruct (F R) as (b & Rb & Fb). exists b, (etoc b). repeat split; try assumption; [|apply V].
    destruct Rb as (i & l & _ & _ & _ & _ & _ & Hd). exact Hd.
  Qed.
End Conv.

(* ------------------------------------------------------------------------------------------- *)
(* content writer under a writer ref *)
Section Writer.
  Context {byte : Type}.
  Local Notation wst := (@wst byte).
  Local Notation attempt := (@attempt byte).

  Lemma size_ok_exact : forall (d : list byte), size_ok d (length d) = true.
  Proof. intros d. unfold size_ok. rewrite Nat.eqb_refl. apply orb_true_r. Qed.

  Lemma alookup_adel_same : forall V (m : list (N * V)) k, alookup (adel m k) k = None.
  Proof.
    induction m as [|[k0 v0] t IH]; intros k; simpl; [reflexivity|].
    destruct (N.eqb_spec k0 k) as [E|NE]; [apply IH|]. simpl.
    destruct (N.eqb_spec k0 k); [contradiction|apply IH].
  Qed.

  Lemma alookup_adel_other : forall V (m : list (N * V)) k k', k <> k' -> alookup (adel m k) k' = alookup m k'.
  Proof.
    induction m as [|[k0 v0] t IH]; intros k k' NE; simpl; [reflexivity|].
    destruct (N.eqb_spec k0 k) as [E|NE0].
    - subst k0. rewrite IH by assumption. destruct (N.eqb_spec k k'); [contradiction|reflexivity].
    - simpl. rewrite IH by assumption. reflexivity.
  Qed.

  (* a completed attempt commits exactly the bytes of ITS build, whatever was left under the ref, and leaves no ingest *)
  Lemma attempt_completed : forall (s : wst) r bs,
    let '(s', out) := attempt_step s (Att r bs None) in
    out = Some bs /\ w_blobs s' = bs :: w_blobs s /\ alookup (w_ing s') r = None
    /\ (forall r', r <> r' -> alookup (w_ing s') r' = alookup (w_ing s) r').
  Proof.
    intros s r bs. unfold attempt_step. simpl app. rewrite size_ok_exact. simpl.
    repeat split; [apply alookup_adel_same|intros r' NE; apply alookup_adel_other; assumption].
  Qed.

  (* an interrupted attempt commits nothing and leaves the bytes it wrote (only those) under the ref *)
  Lemma attempt_interrupted : forall (s : wst) r bs k,
    let '(s', out) := attempt_step s (Att r bs (Some k)) in
    out = None /\ w_blobs s' = w_blobs s /\ alookup (w_ing s') r = Some (firstn k bs).
  Proof. intros s r bs k. unfold attempt_step. simpl. repeat split. apply alookup_aset_same. Qed.

  Lemma attempt_step_out : forall (s : wst) a, snd (attempt_step s a) = expected a.
  Proof.
    intros s [r bs [k|]]; unfold attempt_step; simpl; [reflexivity|].
    rewrite size_ok_exact. reflexivity.
  Qed.

  Lemma attempt_step_blobs : forall (s : wst) a,
    w_blobs (fst (attempt_step s a)) = match expected a with Some b => b :: w_blobs s | None => w_blobs s end.
  Proof.
    intros s [r bs [k|]]; unfold attempt_step; simpl; [reflexivity|].
    rewrite size_ok_exact. reflexivity.
  Qed.

  (* every history of attempts on any refs (interleaved layers, any number of interruptions at any byte, retries with
     other builds): each attempt commits its own build or nothing; the committed blobs are exactly the completed builds *)
  Lemma run_attempts_spec : forall (l : list attempt) (s : wst),
    snd (run_attempts s l) = map expected l
    /\ w_blobs (fst (run_attempts s l))
       = rev (flat_map (fun a => match expected a with Some b => [b] | None => [] end) l) ++ w_blobs s.
  Proof.
    induction l as [|a t IH]; intros s; simpl; [split; reflexivity|].
    destruct (attempt_step s a) as [s1 o] eqn:E1.
    destruct (run_attempts s1 t) as [s2 os] eqn:E2. simpl.
    destruct (IH s1) as [I1 I2]. rewrite E2 in I1, I2. simpl in I1, I2.
    assert (O : o = expected a) by (rewrite <- (attempt_step_out s a), E1; reflexivity).
    assert (B := attempt_step_blobs s a). rewrite E1 in B. simpl in B.
    split; [rewrite I1, O; reflexivity|].
    rewrite I2, B. destruct (expected a) as [b|]; simpl; [|reflexivity].
    rewrite <- app_assoc. reflexivity.
  Qed.

  (* without Truncate(0) a non-empty leftover makes the Commit of a non-empty build fail: never a mixed blob, never progress *)
  Lemma resume_variant_fails : forall (s : wst) r bs,
    resume s r <> [] -> bs <> [] -> snd (attempt_step_resume s (Att r bs None)) = None.
  Proof.
    intros s r bs NW NB. unfold attempt_step_resume.
    destruct (size_ok (resume s r ++ bs) (length bs)) eqn:E; [|reflexivity].
    exfalso. unfold size_ok in E. apply orb_true_iff in E. destruct E as [E|E]; apply Nat.eqb_eq in E.
    - destruct bs; [congruence|discriminate].
    - rewrite app_length in E. destruct (resume s r); [congruence|simpl in E; lia].
  Qed.
End Writer.

(* the "resume by skipping the offset" variant commits a blob that is not the new build *)
Lemma skip_variant_refuted :
  exists (s : @wst N) a d, snd (attempt_step_skip s a) = Some d /\ expected a <> Some d.
Proof.
  exists (mkW [(7%N, [1%N])] []), (Att 7%N [2%N; 3%N] None), [1%N; 3%N]. split; [reflexivity|discriminate].
Qed.

(* ------------------------------------------------------------------------------------------- *)
(* external-TOC compressor: per-conversion buf *)

Lemma crun_app : forall sh s a b, crun sh s (a ++ b) = crun sh (crun sh s a) b.
Proof. intros. unfold crun. apply fold_left_app. Qed.

Lemma crun_keeps_buf : forall os s i t,
  no_gen i os -> alookup (c_bufs s) i = Some t -> alookup (c_bufs (crun false s os)) i = Some t.
Proof.
  induction os as [|o os IH]; intros s i t NG E; simpl; [exact E|].
  apply IH.
  - intros t' I. apply (NG t'). right. exact I.
  - destruct o as [j t'|j d]; simpl.
    + rewrite alookup_aset_other; [exact E|]. intros EQ. subst j. apply (NG t'). left. reflexivity.
    + destruct (alookup (c_bufs s) j); exact E.
Qed.

(* any schedule: what conversion i stores (and records for its layer digest) is the TOC conversion i generated, whatever the
   other conversions generate or store in between *)
Lemma store_gets_own_toc : forall os1 os2 s i t d,
  no_gen i os2 ->
  alookup (c_map (crun false s (os1 ++ GenTOC i t :: os2 ++ [StoreTOC i d]))) d = Some t.
Proof.
  intros os1 os2 s i t d NG.
  rewrite crun_app. simpl. change (fold_left (cstep false) (os2 ++ [StoreTOC i d]) ?x) with (crun false x (os2 ++ [StoreTOC i d])).
  rewrite crun_app. simpl.
  rewrite (crun_keeps_buf os2 _ i t NG) by (simpl; apply alookup_aset_same).
  simpl. apply alookup_aset_same.
Qed.

(* one compressor shared by all conversions: A generates, B generates, A stores B's TOC under A's digest *)
Lemma shared_compressor_refuted :
  exists os i t d, (exists os1 os2, os = os1 ++ GenTOC i t :: os2 ++ [StoreTOC i d] /\ no_gen i os2)
    /\ alookup (c_map (crun true (mkC [] []) os)) d <> Some t.
Proof.
  exists [GenTOC 1 (11, 100); GenTOC 2 (22, 200); StoreTOC 1 51]%N, 1%N, (11, 100)%N, 51%N. split.
  - exists [], [GenTOC 2 (22, 200)%N]. split; [reflexivity|].
    intros t [E|[]]. discriminate.
  - vm_compute. discriminate.
Qed.
