(* Lock discipline of Resolver.Resolve (per-name resolveLock) and what follows from it: at most one Resolve call
   per name is between Lock and Unlock, a call past the lock holds it, and a call that reaches blobCache.Add /
   layerCache.Add does so only when nothing is cached under its name (so the "!added" branches are dead and at
   most one instance per name is ever cached or created at a time).  Built on Proofs/Resolver.v. *)
From Coq Require Import List Arith ZArith Bool Lia.
From SV Require Import Model.Refcache Proofs.Refcache.
From SV Require Model.Resolver.
From SV Require Import Proofs.Resolver.
Import ListNotations.

Module M := SV.Model.Resolver.
Arguments cnt {A} p l : simpl never.
Arguments add_new s k : simpl never.

(* ---------- a key that is not cached stays uncached under every cache op except Add of that key ---------- *)
Lemma find_del_none l k k' : lru_find l k = None -> lru_find (lru_del l k') k = None.
Proof.
  induction l as [|[a i] l IH]; simpl; [reflexivity|].
  destruct (Nat.eqb_spec a k) as [->|Hne]; [discriminate|]. intros H.
  destruct (a =? k'); [apply IH; exact H|]. simpl. destruct (Nat.eqb_spec a k); [congruence|]. apply IH. exact H.
Qed.

Lemma find_del_same l k : lru_find (lru_del l k) k = None.
Proof.
  induction l as [|[a i] l IH]; simpl; [reflexivity|].
  destruct (Nat.eqb_spec a k) as [->|Hne]; [exact IH|]. simpl. destruct (Nat.eqb_spec a k); [congruence|exact IH].
Qed.

Lemma evict_key_lru c k : lru (evict_key c k) = match lru_find (lru c) k with Some _ => lru_del (lru c) k | None => lru c end.
Proof. unfold evict_key. destruct (lru_find (lru c) k); [|reflexivity]. rewrite finalize_lru. reflexivity. Qed.

Lemma rel_evict_find c i k : lru_find (lru c) k = None -> lru_find (lru (rel_evict c i)) k = None.
Proof.
  intros H. unfold rel_evict. destruct (nth_error _ i) as [e|]; [|rewrite finalize_lru; exact H].
  destruct (lru_find (lru (finalize c i)) (e_key e)) as [j|]; [|rewrite finalize_lru; exact H].
  destruct (j =? i); simpl; rewrite finalize_lru; [apply find_del_none|]; exact H.
Qed.

Lemma trim_find c k : lru_find (lru c) k = None -> lru_find (lru (trim c)) k = None.
Proof.
  intros H. unfold trim. destruct (_ && _); [|exact H]. destruct (last _ _) as [[kk ii]|]; [|exact H].
  rewrite evict_key_lru. destruct (lru_find (lru c) kk); [apply find_del_none|]; exact H.
Qed.

Lemma add_new_lru c k : lru (add_new c k) = (k, length (ents c)) :: lru c.
Proof. unfold add_new, acquire. simpl. rewrite inc_lru. reflexivity. Qed.

Lemma find_none_step c o k : lru_find (lru c) k = None -> o <> Add k -> lru_find (lru (fst (step c o))) k = None.
Proof.
  intros H Hne. destruct o as [k'|k'|k'|k'|h ev].
  - assert (Hk : k' <> k) by congruence. destruct (lru_find (lru c) k') as [i|] eqn:Hf.
    + rewrite (step_add_hit _ _ _ Hf). cbn [fst]. unfold acquire. simpl. rewrite inc_lru. simpl.
      destruct (Nat.eqb_spec k' k); [congruence|]. apply find_del_none. exact H.
    + rewrite (step_add_new _ _ Hf). cbn [fst]. apply trim_find. rewrite add_new_lru. simpl.
      destruct (Nat.eqb_spec k' k); [congruence|exact H].
  - simpl. destruct (lru_find (lru c) k') as [i|] eqn:Hf; simpl; [|exact H].
    unfold acquire. simpl. rewrite inc_lru. simpl. destruct (Nat.eqb_spec k' k) as [->|]; [congruence|]. apply find_del_none. exact H.
  - cbn [step fst]. rewrite evict_key_lru. destruct (lru_find (lru c) k'); [apply find_del_none|]; exact H.
  - cbn [step fst]. rewrite evict_key_lru. destruct (lru_find (lru c) k'); [apply find_del_none|]; exact H.
  - rewrite step_release. destruct (nth_error (hs c) h) as [[i fired]|]; [|exact H]. simpl.
    assert (H1 : lru_find (lru (if fired then c else dec (set_hs c (upd (hs c) h (i, true))) i)) k = None).
    { destruct fired; [exact H|]. rewrite dec_lru. exact H. }
    destruct ev; [apply rel_evict_find|]; exact H1.
Qed.

Lemma find_after_remove c k : lru_find (lru (fst (step c (Remove k)))) k = None.
Proof.
  cbn [step fst]. rewrite evict_key_lru. destruct (lru_find (lru c) k) eqn:H; [apply find_del_same|exact H].
Qed.

Lemma find_after_add_new c k : lru_find (lru (add_new c k)) k = Some (length (ents c)).
Proof. unfold add_new, acquire. simpl. rewrite Nat.eqb_refl. reflexivity. Qed.

(* ---------- how the blob cache moves inside a layer-cache critical section: only Release steps ---------- *)
Inductive rpath : R.st -> R.st -> Prop :=
| rpath_refl c : rpath c c
| rpath_step c h ev c' : rpath (fst (step c (Release h ev))) c' -> rpath c c'.

Lemma rpath_trans a b c : rpath a b -> rpath b c -> rpath a c.
Proof. induction 1; intros H2; [exact H2|]. eapply rpath_step. apply IHrpath. exact H2. Qed.

Lemma rpath_find a b k : rpath a b -> lru_find (lru a) k = None -> lru_find (lru b) k = None.
Proof. induction 1; intros H0; [exact H0|]. apply IHrpath. apply find_none_step; [exact H0|discriminate]. Qed.

Lemma bc_do_bc s o : M.bc (fst (M.bc_do s o)) = fst (step (M.bc s) o).
Proof. destruct (bc_do_frame s o) as (_ & _ & _ & H). exact H. Qed.
Lemma bc_do_lc s o : M.lc (fst (M.bc_do s o)) = M.lc s.
Proof. destruct (bc_do_frame s o) as (_ & H & _). exact H. Qed.
Lemma bc_do_ctl s o : M.thrs (fst (M.bc_do s o)) = M.thrs s /\ M.locks (fst (M.bc_do s o)) = M.locks s.
Proof. destruct (bc_do_frame s o) as ((A & _ & B & _) & _). split; assumption. Qed.
Lemma lc_do_lc s o : M.lc (fst (M.lc_do s o)) = fst (step (M.lc s) o).
Proof. destruct (lc_do_frame s o) as (_ & H). exact H. Qed.
Lemma lc_do_ctl s o : M.thrs (fst (M.lc_do s o)) = M.thrs s /\ M.locks (fst (M.lc_do s o)) = M.locks s.
Proof. destruct (lc_do_frame s o) as ((A & _ & B & _) & _). split; assumption. Qed.

Lemma close_layer_path s v : rpath (M.bc s) (M.bc (M.close_layer s v)).
Proof.
  unfold M.close_layer. destruct (nth_error (M.lobjs s) v) as [o|]; [|apply rpath_refl].
  destruct (M.l_closed o); [apply rpath_refl|]. rewrite bc_do_bc.
  match goal with |- rpath _ (fst (step ?c (Release ?h ?e))) => change c with (M.bc s); apply (rpath_step (M.bc s) h e) end.
  apply rpath_refl.
Qed.

Lemma fold_close_layer_path l : forall s, rpath (M.bc s) (M.bc (fold_left M.close_layer l s)).
Proof.
  induction l as [|v l IH]; intros s; simpl; [apply rpath_refl|].
  eapply rpath_trans; [apply close_layer_path|apply IH].
Qed.

Lemma lc_do_path s o : rpath (M.bc s) (M.bc (fst (M.lc_do s o))).
Proof. unfold M.lc_do. cbn [fst]. apply (fold_close_layer_path _ (M.set_lc s (fst (step (M.lc s) o)))). Qed.

(* ---------- projections of the state constructors used by tstep ---------- *)
Lemma lc_do_thrs s o : M.thrs (fst (M.lc_do s o)) = M.thrs s. Proof. apply lc_do_ctl. Qed.
Lemma lc_do_locks s o : M.locks (fst (M.lc_do s o)) = M.locks s. Proof. apply lc_do_ctl. Qed.
Lemma bc_do_thrs s o : M.thrs (fst (M.bc_do s o)) = M.thrs s. Proof. apply bc_do_ctl. Qed.
Lemma bc_do_locks s o : M.locks (fst (M.bc_do s o)) = M.locks s. Proof. apply bc_do_ctl. Qed.

Lemma setpc_thrs s t n p : M.thrs (M.setpc s t n p) = upd (M.thrs s) t (M.mkT n p). Proof. reflexivity. Qed.
Lemma setpc_locks s t n p : M.locks (M.setpc s t n p) = M.locks s. Proof. reflexivity. Qed.
Lemma setpc_lc s t n p : M.lc (M.setpc s t n p) = M.lc s. Proof. reflexivity. Qed.
Lemma setpc_bc s t n p : M.bc (M.setpc s t n p) = M.bc s. Proof. reflexivity. Qed.
Lemma finish_thrs s t n : M.thrs (M.finish s t n) = upd (M.thrs s) t (M.mkT n M.PDone). Proof. reflexivity. Qed.
Lemma finish_locks s t n : M.locks (M.finish s t n) = M.rm n (M.locks s). Proof. reflexivity. Qed.
Lemma finish_lc s t n : M.lc (M.finish s t n) = M.lc s. Proof. reflexivity. Qed.
Lemma finish_bc s t n : M.bc (M.finish s t n) = M.bc s. Proof. reflexivity. Qed.
Lemma rmdir_thrs s d : M.thrs (M.rmdir s d) = M.thrs s. Proof. reflexivity. Qed.
Lemma rmdir_locks s d : M.locks (M.rmdir s d) = M.locks s. Proof. reflexivity. Qed.
Lemma rmdir_lc s d : M.lc (M.rmdir s d) = M.lc s. Proof. reflexivity. Qed.
Lemma rmdir_bc s d : M.bc (M.rmdir s d) = M.bc s. Proof. reflexivity. Qed.
Lemma set_uh_thrs s x : M.thrs (M.set_uh s x) = M.thrs s. Proof. reflexivity. Qed.
Lemma set_uh_locks s x : M.locks (M.set_uh s x) = M.locks s. Proof. reflexivity. Qed.
Lemma set_uh_lc s x : M.lc (M.set_uh s x) = M.lc s. Proof. reflexivity. Qed.
Lemma set_uh_bc s x : M.bc (M.set_uh s x) = M.bc s. Proof. reflexivity. Qed.
Lemma set_lobjs_thrs s x : M.thrs (M.set_lobjs s x) = M.thrs s. Proof. reflexivity. Qed.
Lemma set_lobjs_locks s x : M.locks (M.set_lobjs s x) = M.locks s. Proof. reflexivity. Qed.
Lemma set_lobjs_lc s x : M.lc (M.set_lobjs s x) = M.lc s. Proof. reflexivity. Qed.
Lemma set_lobjs_bc s x : M.bc (M.set_lobjs s x) = M.bc s. Proof. reflexivity. Qed.
Lemma set_bobjs_thrs s x : M.thrs (M.set_bobjs s x) = M.thrs s. Proof. reflexivity. Qed.
Lemma set_bobjs_locks s x : M.locks (M.set_bobjs s x) = M.locks s. Proof. reflexivity. Qed.
Lemma set_bobjs_lc s x : M.lc (M.set_bobjs s x) = M.lc s. Proof. reflexivity. Qed.
Lemma set_bobjs_bc s x : M.bc (M.set_bobjs s x) = M.bc s. Proof. reflexivity. Qed.
Lemma set_locks_thrs s x : M.thrs (M.set_locks s x) = M.thrs s. Proof. reflexivity. Qed.
Lemma set_locks_locks s x : M.locks (M.set_locks s x) = x. Proof. reflexivity. Qed.
Lemma set_locks_lc s x : M.lc (M.set_locks s x) = M.lc s. Proof. reflexivity. Qed.
Lemma set_locks_bc s x : M.bc (M.set_locks s x) = M.bc s. Proof. reflexivity. Qed.
Lemma mkdir_thrs s k : M.thrs (fst (M.mkdir s k)) = M.thrs s. Proof. reflexivity. Qed.
Lemma mkdir_locks s k : M.locks (fst (M.mkdir s k)) = M.locks s. Proof. reflexivity. Qed.
Lemma mkdir_lc s k : M.lc (fst (M.mkdir s k)) = M.lc s. Proof. reflexivity. Qed.
Lemma mkdir_bc s k : M.bc (fst (M.mkdir s k)) = M.bc s. Proof. reflexivity. Qed.

Global Hint Rewrite lc_do_thrs lc_do_locks bc_do_thrs bc_do_locks lc_do_lc bc_do_lc bc_do_bc
  setpc_thrs setpc_locks setpc_lc setpc_bc finish_thrs finish_locks finish_lc finish_bc
  rmdir_thrs rmdir_locks rmdir_lc rmdir_bc set_uh_thrs set_uh_locks set_uh_lc set_uh_bc
  set_lobjs_thrs set_lobjs_locks set_lobjs_lc set_lobjs_bc set_bobjs_thrs set_bobjs_locks set_bobjs_lc set_bobjs_bc
  set_locks_thrs set_locks_locks set_locks_lc set_locks_bc mkdir_thrs mkdir_locks mkdir_lc mkdir_bc : proj.

Definition active (p : M.pc) : bool := match p with M.PWait | M.PDone => false | _ => true end.
(* stages after the layer-cache lookup missed (or the stale entry was removed) *)
Definition lmissed (p : M.pc) : bool :=
  match p with
  | M.PBlob | M.PBHit _ | M.PBEvict _ | M.PBRemove | M.PMkHttp | M.PHandle _ | M.PMkFs _ | M.PMeta _ _ => true
  | _ => false
  end.
(* stages after the blob-cache lookup missed (or the stale entry was removed), before blobCache.Add *)
Definition bmissed (p : M.pc) : bool := match p with M.PMkHttp | M.PHandle _ => true | _ => false end.

Definition lmove (s s' : M.st) (lo : option op) : Prop :=
  M.lc s' = match lo with Some o => fst (step (M.lc s) o) | None => M.lc s end.
Definition bmove (s s' : M.st) (bo : option op) : Prop :=
  match bo with Some o => M.bc s' = fst (step (M.bc s) o) | None => rpath (M.bc s) (M.bc s') end.

(* what one sub-step of a Resolve call in stage p may do: next stage, lock list, the op applied to each cache *)
Definition trans (s : M.st) (p : M.pc) (n : nat) (p' : M.pc) (lo bo : option op) (lk lk' : list nat) : Prop :=
  match p with
  | M.PWait => M.mem n lk = false /\ lk' = n :: lk /\ lo = Some (Get n) /\ bo = None /\
               ((exists h, p' = M.PHit h) \/ (p' = M.PBlob /\ lru_find (lru (M.lc s)) n = None))
  | M.PHit h => lo = None /\ bo = None /\ ((p' = M.PEvict h /\ lk' = lk) \/ (p' = M.PDone /\ lk' = M.rm n lk))
  | M.PEvict h => p' = M.PRemove /\ lk' = lk /\ lo = Some (Release h true) /\ bo = None
  | M.PRemove => p' = M.PBlob /\ lk' = lk /\ lo = Some (Remove n) /\ bo = None
  | M.PBlob => lk' = lk /\ lo = None /\ bo = Some (Get n) /\
               ((exists bh, p' = M.PBHit bh) \/ (p' = M.PMkHttp /\ lru_find (lru (M.bc s)) n = None))
  | M.PBHit bh => lk' = lk /\ lo = None /\ bo = None /\ (p' = M.PMkFs bh \/ p' = M.PBEvict bh)
  | M.PBEvict bh => p' = M.PBRemove /\ lk' = lk /\ lo = None /\ bo = Some (Release bh true)
  | M.PBRemove => p' = M.PMkHttp /\ lk' = lk /\ lo = None /\ bo = Some (Remove n)
  | M.PMkHttp => (exists d, p' = M.PHandle d) /\ lk' = lk /\ lo = None /\ bo = None
  | M.PHandle d => lo = None /\ (((exists bh, p' = M.PMkFs bh) /\ lk' = lk /\ bo = Some (Add n)) \/
                                 (p' = M.PDone /\ lk' = M.rm n lk /\ bo = None))
  | M.PMkFs bh => (exists d, p' = M.PMeta bh d) /\ lk' = lk /\ lo = None /\ bo = None
  | M.PMeta bh d => p' = M.PDone /\ lk' = M.rm n lk /\ bo = None /\ (lo = Some (Add n) \/ lo = None)
  | M.PDone => False
  end.

Lemma rpath_release c h ev : rpath c (fst (step c (Release h ev))).
Proof. eapply rpath_step. apply rpath_refl. Qed.

Ltac projs := unfold lmove, bmove; autorewrite with proj.

Lemma tstep_sum s t ok th : nth_error (M.thrs s) t = Some th ->
  let n := M.t_name th in let s' := fst (M.tstep s t ok) in
  s' = s \/ exists p' lo bo,
    M.thrs s' = upd (M.thrs s) t (M.mkT n p') /\ lmove s s' lo /\ bmove s s' bo /\
    trans s (M.t_pc th) n p' lo bo (M.locks s) (M.locks s').
Proof.
  intros Ht n s'. subst s'. unfold M.tstep. rewrite Ht. fold n.
  destruct (M.t_pc th) as [|h|h| | |bh|bh| | |d|bh|bh d|] eqn:Hp; cbn [trans].
  - (* PWait *)
    destruct (M.mem n (M.locks s)) eqn:Hm; [left; reflexivity|]. cbv zeta.
    set (s1 := M.set_locks s (n :: M.locks s)).
    destruct (lru_find (lru (M.lc s)) n) as [v|] eqn:Hf.
    + assert (Hh : is_hit (M.lc s1) (Get n) v) by exact Hf.
      destruct (hit_spec _ _ _ Hh) as (_ & _ & _ & fl & Hsnd & _). rewrite snd_lc_do, Hsnd. cbn [fst].
      right. exists (M.PHit (length (hs (M.lc s1)))), (Some (Get n)), None. projs.
      repeat split; try reflexivity; [apply (lc_do_path s1)|left; eexists; reflexivity].
    + rewrite (lc_get_miss s1 n Hf). cbn [fst snd].
      right. exists M.PBlob, (Some (Get n)), None. projs. rewrite (step_get_miss _ _ Hf).
      repeat split; try reflexivity; [apply rpath_refl|right; split; reflexivity].
  - (* PHit *)
    destruct (M.layer_flags s h) as [lcl bcl].
    assert (Hev : exists p' lo bo, M.thrs (M.setpc s t n (M.PEvict h)) = upd (M.thrs s) t (M.mkT n p') /\
              lmove s (M.setpc s t n (M.PEvict h)) lo /\ bmove s (M.setpc s t n (M.PEvict h)) bo /\
              (lo = None /\ bo = None /\ ((p' = M.PEvict h /\ M.locks (M.setpc s t n (M.PEvict h)) = M.locks s) \/
                                           (p' = M.PDone /\ M.locks (M.setpc s t n (M.PEvict h)) = M.rm n (M.locks s))))).
    { exists (M.PEvict h), None, None. projs. repeat split; try reflexivity; [apply rpath_refl|left; split; reflexivity]. }
    destruct (negb lcl && negb bcl && ok); [|right; exact Hev].
    destruct (M.hval (M.lc s) h) as [v|]; [|right; exact Hev]. cbn [fst].
    right. exists M.PDone, None, None. projs. repeat split; try reflexivity; [apply rpath_refl|right; split; reflexivity].
  - (* PEvict *)
    cbn [fst]. right. exists M.PRemove, (Some (Release h true)), None. projs.
    repeat split; try reflexivity. apply (lc_do_path (M.setpc s t n M.PRemove)).
  - (* PRemove *)
    cbn [fst]. right. exists M.PBlob, (Some (Remove n)), None. projs.
    repeat split; try reflexivity. apply (lc_do_path (M.setpc s t n M.PBlob)).
  - (* PBlob *)
    cbv zeta. destruct (lru_find (lru (M.bc s)) n) as [v|] eqn:Hf.
    + assert (Hh : is_hit (M.bc s) (Get n) v) by exact Hf.
      destruct (hit_spec _ _ _ Hh) as (_ & _ & _ & fl & Hsnd & _). rewrite snd_bc_do, Hsnd. cbn [fst].
      right. exists (M.PBHit (length (hs (M.bc s)))), None, (Some (Get n)). projs.
      repeat split; try reflexivity. left; eexists; reflexivity.
    + rewrite (bc_get_miss s n Hf). cbn [fst snd].
      right. exists M.PMkHttp, None, (Some (Get n)). projs. rewrite (step_get_miss _ _ Hf).
      repeat split; try reflexivity. right; split; reflexivity.
  - (* PBHit *)
    destruct (negb (M.blob_closed_of s bh) && ok); cbn [fst]; right.
    + exists (M.PMkFs bh), None, None. projs. repeat split; try reflexivity; [apply rpath_refl|left; reflexivity].
    + exists (M.PBEvict bh), None, None. projs. repeat split; try reflexivity; [apply rpath_refl|right; reflexivity].
  - (* PBEvict *)
    cbn [fst]. right. exists M.PBRemove, None, (Some (Release bh true)). projs. repeat split; reflexivity.
  - (* PBRemove *)
    cbn [fst]. right. exists M.PMkHttp, None, (Some (Remove n)). projs. repeat split; reflexivity.
  - (* PMkHttp *)
    cbn [fst M.mkdir]. right. exists (M.PHandle (length (M.kinds s))), None, None. projs.
    repeat split; try reflexivity; [apply rpath_refl|eexists; reflexivity].
  - (* PHandle *)
    destruct ok.
    + cbv zeta. destruct (snd (M.bc_do s (Add n))) as [[v []]|] eqn:Hs; cbn [fst]; right;
        exists (M.PMkFs (length (hs (M.bc s)))), None, (Some (Add n)); projs;
        (repeat split; try reflexivity; left; repeat split; try reflexivity; eexists; reflexivity).
    + cbn [fst]. right. exists M.PDone, None, None. projs.
      repeat split; try reflexivity; [apply rpath_refl|right; repeat split; reflexivity].
  - (* PMkFs *)
    cbn [fst M.mkdir]. right. exists (M.PMeta bh (length (M.kinds s))), None, None. projs.
    repeat split; try reflexivity; [apply rpath_refl|eexists; reflexivity].
  - (* PMeta *)
    destruct ok.
    + cbv zeta. destruct (snd (M.lc_do s (Add n))) as [[v []]|] eqn:Hs; cbn [fst].
      * right. exists M.PDone, (Some (Add n)), None. projs.
        repeat split; try reflexivity; [apply (lc_do_path s)|left; reflexivity].
      * right. exists M.PDone, (Some (Add n)), None. projs.
        repeat split; try reflexivity; [|left; reflexivity].
        eapply rpath_trans; [apply (lc_do_path s (Add n))|]. apply rpath_release.
      * left. reflexivity.
    + cbn [fst]. right. exists M.PDone, None, None. projs.
      repeat split; try reflexivity; [apply rpath_release|right; reflexivity].
  - left. reflexivity.
Qed.

(* ---------- the lock-discipline invariant ---------- *)
Definition a_claims (n : nat) (th : M.thr) : bool := active (M.t_pc th) && Nat.eqb (M.t_name th) n.
Definition acnt (s : M.st) (n : nat) : nat := cnt (a_claims n) (M.thrs s).

Record LI (s : M.st) : Prop := mkLI {
  l_nodup : NoDup (M.locks s);
  l_cnt : forall n, acnt s n = count_occ Nat.eq_dec (M.locks s) n;
  l_lmiss : forall t th, nth_error (M.thrs s) t = Some th -> lmissed (M.t_pc th) = true ->
            lru_find (lru (M.lc s)) (M.t_name th) = None;
  l_bmiss : forall t th, nth_error (M.thrs s) t = Some th -> bmissed (M.t_pc th) = true ->
            lru_find (lru (M.bc s)) (M.t_name th) = None
}.

Lemma LI_init : LI M.init.
Proof. constructor; cbn; [constructor|reflexivity|intros [|t] th H; discriminate|intros [|t] th H; discriminate]. Qed.

Lemma cnt_two {A} (p : A -> bool) l : forall i j x y,
  nth_error l i = Some x -> nth_error l j = Some y -> i <> j -> p x = true -> p y = true -> 2 <= cnt p l.
Proof.
  induction l as [|a l IH]; intros [|i] [|j] x y Hi Hj Hne Hx Hy; simpl in *; try discriminate; try congruence.
  - inversion Hi; subst. pose proof (cnt_pos p l j y Hj Hy). unfold cnt in *. simpl. rewrite Hx. simpl. lia.
  - inversion Hj; subst. pose proof (cnt_pos p l i x Hi Hx). unfold cnt in *. simpl. rewrite Hy. simpl. lia.
  - assert (2 <= cnt p l) by (apply (IH i j x y); auto). unfold cnt in *. simpl. destruct (p a); simpl; lia.
Qed.

(* mutual exclusion: at most one Resolve call per name is between Lock and Unlock ... *)
Lemma LI_excl s t1 t2 th1 th2 : LI s ->
  nth_error (M.thrs s) t1 = Some th1 -> nth_error (M.thrs s) t2 = Some th2 ->
  active (M.t_pc th1) = true -> active (M.t_pc th2) = true -> M.t_name th1 = M.t_name th2 -> t1 = t2.
Proof.
  intros L H1 H2 A1 A2 En. destruct (Nat.eq_dec t1 t2) as [|Hne]; [assumption|exfalso].
  pose proof (l_cnt _ L (M.t_name th1)) as Hc. pose proof (count_le1 _ (M.t_name th1) (l_nodup _ L)) as Hle.
  assert (2 <= acnt s (M.t_name th1)); [|lia].
  apply (cnt_two _ _ t1 t2 th1 th2 H1 H2 Hne); unfold a_claims; [rewrite A1, Nat.eqb_refl|rewrite A2, <- En, Nat.eqb_refl]; reflexivity.
Qed.

(* ... and such a call holds the lock of its name *)
Lemma LI_holds s t th : LI s -> nth_error (M.thrs s) t = Some th -> active (M.t_pc th) = true -> In (M.t_name th) (M.locks s).
Proof.
  intros L H A. apply (count_occ_In Nat.eq_dec). rewrite <- (l_cnt _ L).
  apply (cnt_pos _ _ t th H). unfold a_claims. rewrite A, Nat.eqb_refl. reflexivity.
Qed.

Lemma lmissed_active p : lmissed p = true -> active p = true. Proof. destruct p; cbn; congruence. Qed.
Lemma bmissed_active p : bmissed p = true -> active p = true. Proof. destruct p; cbn; congruence. Qed.

Ltac break :=
  repeat match goal with
         | H : _ /\ _ |- _ => destruct H
         | H : exists _, _ |- _ => destruct H
         end.

(* a step that leaves threads and locks alone and adds no key to either cache *)
Lemma LI_move s s' : LI s -> M.thrs s' = M.thrs s -> M.locks s' = M.locks s ->
  (M.lc s' = M.lc s \/ exists o, M.lc s' = fst (step (M.lc s) o) /\ forall k, o <> Add k) ->
  (rpath (M.bc s) (M.bc s') \/ exists o, M.bc s' = fst (step (M.bc s) o) /\ forall k, o <> Add k) ->
  LI s'.
Proof.
  intros [A B C D] Et El Hl Hb. constructor.
  - rewrite El. exact A.
  - intros n. unfold acnt. rewrite Et, El. apply B.
  - intros t th Ht Hm. rewrite Et in Ht. specialize (C t th Ht Hm).
    destruct Hl as [->|(o & -> & Ho)]; [exact C|apply find_none_step; [exact C|apply Ho]].
  - intros t th Ht Hm. rewrite Et in Ht. specialize (D t th Ht Hm).
    destruct Hb as [Hb|(o & -> & Ho)]; [eapply rpath_find; eauto|apply find_none_step; [exact D|apply Ho]].
Qed.

Ltac ors := repeat match goal with H : _ \/ _ |- _ => destruct H end.

Lemma tstep_LI s t ok : LI s -> LI (fst (M.tstep s t ok)).
Proof.
  intros L. destruct (nth_error (M.thrs s) t) as [th|] eqn:Ht; [|unfold M.tstep; rewrite Ht; exact L].
  destruct (tstep_sum s t ok th Ht) as [E|(p' & lo & bo & Et & Hl & Hb & Htr)]; [rewrite E; exact L|].
  set (s' := fst (M.tstep s t ok)) in *. set (n := M.t_name th) in *.
  assert (Hlt : t < length (M.thrs s)) by (eapply nth_some_lt; eauto).
  assert (K : (active (M.t_pc th) = false /\ active p' = true /\ M.locks s' = n :: M.locks s /\ M.mem n (M.locks s) = false) \/
              (active (M.t_pc th) = true /\ active p' = true /\ M.locks s' = M.locks s) \/
              (active (M.t_pc th) = true /\ p' = M.PDone /\ M.locks s' = M.rm n (M.locks s))).
  { destruct (M.t_pc th); cbn in Htr; break; ors; break; subst; cbn; try contradiction;
      try (left; repeat split; assumption || reflexivity);
      try (right; left; repeat split; assumption || reflexivity);
      try (right; right; repeat split; assumption || reflexivity). }
  pose proof (l_cnt _ L) as Hcnt. pose proof (l_nodup _ L) as Hnd.
  constructor.
  - destruct K as [(_ & _ & -> & Hm)|[(_ & _ & ->)|(_ & _ & ->)]].
    + constructor; [|exact Hnd]. intros Hin. apply mem_In in Hin. congruence.
    + exact Hnd.
    + apply NoDup_rm. exact Hnd.
  - intros n0. unfold acnt. rewrite Et.
    pose proof (cnt_upd (a_claims n0) (M.thrs s) t th (M.mkT n p') Ht) as Hu.
    change (a_claims n0 th) with (active (M.t_pc th) && Nat.eqb n n0) in Hu.
    change (a_claims n0 (M.mkT n p')) with (active p' && Nat.eqb n n0) in Hu.
    specialize (Hcnt n0). unfold acnt in Hcnt.
    destruct K as [(A1 & A2 & -> & Hm)|[(A1 & A2 & ->)|(A1 & -> & ->)]].
    + rewrite A1, A2 in Hu. cbn [count_occ andb] in *. destruct (Nat.eqb_spec n n0) as [->|Hne].
      * destruct (Nat.eq_dec n0 n0); [|congruence]. lia.
      * destruct (Nat.eq_dec n n0); [congruence|]. lia.
    + rewrite A1, A2 in Hu. destruct (n =? n0); cbn in Hu; lia.
    + rewrite A1 in Hu. cbn [active andb] in Hu. rewrite count_rm. rewrite (Nat.eqb_sym n0 n).
      destruct (Nat.eqb_spec n n0) as [<-|Hne]; cbn in Hu; [|lia].
      pose proof (count_le1 _ n Hnd). lia.
  - intros t2 th2 Ht2 Hm. rewrite Et in Ht2. unfold lmove in Hl. destruct (Nat.eq_dec t t2) as [<-|Hne].
    + rewrite nth_upd_eq in Ht2 by exact Hlt. inversion Ht2; subst th2. cbn [M.t_name M.t_pc] in *.
      pose proof (l_lmiss _ L t th Ht) as Own. fold n in Own.
      destruct (M.t_pc th) eqn:Hp; cbn in Htr; try contradiction; break; ors; break; subst; cbn in Hm; try discriminate; rewrite Hl;
        try (apply Own; reflexivity);
        try (apply find_none_step; [assumption|discriminate]);
        try apply find_after_remove.
    + rewrite nth_upd_ne in Ht2 by exact Hne. pose proof (l_lmiss _ L t2 th2 Ht2 Hm) as C.
      destruct lo as [o|]; rewrite Hl; [|exact C]. apply find_none_step; [exact C|]. intros ->.
      assert (Hpm : active (M.t_pc th) = true /\ n = M.t_name th2).
      { destruct (M.t_pc th); cbn in Htr; try contradiction; break; ors; break; try discriminate; try congruence; (split; [reflexivity|congruence]). }
      destruct Hpm as [Ha Hn]. apply Hne. apply (LI_excl s t t2 th th2 L Ht Ht2 Ha (lmissed_active _ Hm) Hn).
  - intros t2 th2 Ht2 Hm. rewrite Et in Ht2. unfold bmove in Hb. destruct (Nat.eq_dec t t2) as [<-|Hne].
    + rewrite nth_upd_eq in Ht2 by exact Hlt. inversion Ht2; subst th2. cbn [M.t_name M.t_pc] in *.
      pose proof (l_bmiss _ L t th Ht) as Own. fold n in Own.
      destruct (M.t_pc th) eqn:Hp; cbn in Htr; try contradiction; break; ors; break; subst; cbn in Hm; try discriminate;
        try (rewrite Hb; apply find_none_step; [assumption|discriminate]);
        try (rewrite Hb; apply find_after_remove);
        try (eapply rpath_find; [exact Hb|apply Own; reflexivity]).
    + rewrite nth_upd_ne in Ht2 by exact Hne. pose proof (l_bmiss _ L t2 th2 Ht2 Hm) as C.
      destruct bo as [o|]; [rewrite Hb|eapply rpath_find; eauto]. apply find_none_step; [exact C|]. intros ->.
      assert (Hpm : active (M.t_pc th) = true /\ n = M.t_name th2).
      { destruct (M.t_pc th); cbn in Htr; try contradiction; break; ors; break; try discriminate; try congruence; (split; [reflexivity|congruence]). }
      destruct Hpm as [Ha Hn]. apply Hne. apply (LI_excl s t t2 th th2 L Ht Ht2 Ha (bmissed_active _ Hm) Hn).
Qed.

Lemma release_LI s u ev : LI s -> LI (M.release s u ev).
Proof.
  intros L. unfold M.release. destruct (nth_error (M.uh s) u) as [[h r]|]; [|exact L].
  set (X := M.set_uh s (upd (M.uh s) u (h, true))).
  apply (LI_move s _ L).
  - rewrite lc_do_thrs. reflexivity.
  - rewrite lc_do_locks. reflexivity.
  - right. exists (Release h ev). split; [rewrite lc_do_lc; reflexivity|discriminate].
  - left. apply (lc_do_path X).
Qed.

Lemma start_LI s n : LI s -> LI (M.set_thrs s (M.thrs s ++ [M.mkT n M.PWait])).
Proof.
  intros [A B C D]. constructor; cbn.
  - exact A.
  - intros n0. unfold acnt. cbn. rewrite cnt_snoc. cbn. specialize (B n0). unfold acnt in B. lia.
  - intros t th Ht Hm. destruct (Nat.lt_ge_cases t (length (M.thrs s))) as [Hlt|Hge].
    + rewrite nth_error_app1 in Ht by exact Hlt. apply (C t th Ht Hm).
    + rewrite nth_error_app2 in Ht by exact Hge. destruct (t - length (M.thrs s)) as [|j]; [|destruct j; discriminate].
      inversion Ht; subst. discriminate.
  - intros t th Ht Hm. destruct (Nat.lt_ge_cases t (length (M.thrs s))) as [Hlt|Hge].
    + rewrite nth_error_app1 in Ht by exact Hlt. apply (D t th Ht Hm).
    + rewrite nth_error_app2 in Ht by exact Hge. destruct (t - length (M.thrs s)) as [|j]; [|destruct j; discriminate].
      inversion Ht; subst. discriminate.
Qed.

Theorem step_LI s o : LI s -> LI (fst (M.step s o)).
Proof.
  intros L. destruct o as [n|t ok|u|u|n|n|u|u r|u]; cbn [M.step fst].
  - apply start_LI. exact L.
  - apply tstep_LI. exact L.
  - apply release_LI. exact L.
  - apply release_LI. exact L.
  - apply (LI_move s _ L).
    + rewrite lc_do_thrs. reflexivity.
    + rewrite lc_do_locks. reflexivity.
    + right. exists (Expire n). split; [rewrite lc_do_lc; reflexivity|discriminate].
    + left. apply (lc_do_path s).
  - apply (LI_move s _ L).
    + rewrite bc_do_thrs. reflexivity.
    + rewrite bc_do_locks. reflexivity.
    + left. rewrite bc_do_lc. reflexivity.
    + right. exists (Expire n). split; [rewrite bc_do_bc; reflexivity|discriminate].
  - destruct (nth_error (M.uh s) u) as [[h r0]|]; [|exact L]. destruct (M.layer_flags s h). exact L.
  - destruct (nth_error (M.uh s) u) as [[h r0]|]; [|exact L]. destruct (M.layer_flags s h).
    destruct (_ && _); [|exact L]. destruct r, (M.blob_of s h); cbn [fst]; try exact L;
      (apply (LI_move s _ L); [reflexivity|reflexivity|left; reflexivity|left; apply rpath_refl]).
  - destruct (nth_error (M.uh s) u) as [[h r0]|]; [|exact L]. destruct (M.blob_of s h); exact L.
Qed.

Theorem exec_LI os : forall s, LI s -> LI (M.exec s os).
Proof. unfold M.exec. induction os as [|o os IH]; simpl; intros s L; [exact L|]. apply IH. apply step_LI. exact L. Qed.

Theorem reach_LI os : LI (M.exec M.init os).
Proof. apply exec_LI. apply LI_init. Qed.

(* coarse steps *)
Lemma run_on_LI f : forall s t e, LI s -> LI (fst (M.run_on f s t e)).
Proof.
  induction f as [|f IH]; intros s t e L; cbn; [exact L|].
  destruct e; try exact L. destruct (M.pause_code (M.pc_of s t)); [exact L|].
  destruct (M.pc_of s t); try exact L;
    (destruct (M.tstep s t true) as [s1 e1] eqn:E; apply IH; replace s1 with (fst (M.tstep s t true)) by (rewrite E; reflexivity); apply tstep_LI; exact L).
Qed.
Lemma wake_LI s t e : LI s -> LI (fst (M.wake s t e)).
Proof.
  intros L. unfold M.wake. destruct (M.is_ret e); [|exact L]. destruct (nth_error (M.thrs s) t) as [th|]; [|exact L].
  destruct (M.find_waiter _ _ _); [apply run_on_LI; exact L|exact L].
Qed.
Lemma cstep_LI s o : LI s -> LI (fst (M.cstep s o)).
Proof.
  intros L. destruct o as [n|t ok|u|u|n|n|u|u r|u]; cbn [M.cstep].
  - destruct (M.run_on 16 _ _ _) as [s2 e] eqn:E2. destruct (M.wake s2 _ e) as [s3 e'] eqn:E3. cbn [fst].
    replace s3 with (fst (M.wake s2 (length (M.thrs s)) e)) by (rewrite E3; reflexivity). apply wake_LI.
    replace s2 with (fst (M.run_on 16 (fst (M.step s (M.RStart n))) (length (M.thrs s)) M.ENone)) by (rewrite E2; reflexivity).
    apply run_on_LI. apply step_LI. exact L.
  - destruct (M.tstep s t ok) as [s1 e1] eqn:E1. destruct (M.run_on 16 s1 t e1) as [s2 e] eqn:E2.
    destruct (M.wake s2 t e) as [s3 e'] eqn:E3. cbn [fst].
    replace s3 with (fst (M.wake s2 t e)) by (rewrite E3; reflexivity). apply wake_LI.
    replace s2 with (fst (M.run_on 16 s1 t e1)) by (rewrite E2; reflexivity). apply run_on_LI.
    replace s1 with (fst (M.tstep s t ok)) by (rewrite E1; reflexivity). apply tstep_LI. exact L.
  - apply (step_LI s (M.Done u) L).
  - apply (step_LI s (M.Close u) L).
  - apply (step_LI s (M.ExpireL n) L).
  - apply (step_LI s (M.ExpireB n) L).
  - pose proof (step_LI s (M.Use u) L) as H. destruct (M.step s (M.Use u)). exact H.
  - pose proof (step_LI s (M.Refresh u r) L) as H. destruct (M.step s (M.Refresh u r)). exact H.
  - pose proof (step_LI s (M.Probe u) L) as H. destruct (M.step s (M.Probe u)). exact H.
Qed.
Lemma cexec_LI os : forall s, LI s -> LI (cexec s os).
Proof. unfold cexec. induction os as [|o os IH]; simpl; intros s L; [exact L|]. apply IH. apply cstep_LI. exact L. Qed.

(* ---------- a done-closure keeps referring to the same value ---------- *)
Lemma hs_value_step c o h v r : nth_error (hs c) h = Some (v, r) -> exists r', nth_error (hs (fst (step c o))) h = Some (v, r').
Proof.
  intros H. assert (Hlt : h < length (hs c)) by (eapply nth_some_lt; eauto).
  destruct (evicting o) eqn:He.
  - rewrite (hs_step_evicting c o He). destruct o as [k|k|k|k|h0 ev]; try discriminate; eauto.
    destruct (nth_error (hs c) h0) as [[i []]|] eqn:H0; eauto.
    destruct (Nat.eq_dec h0 h) as [->|Hne].
    + rewrite nth_upd_eq by exact Hlt. rewrite H in H0. inversion H0; subst. eauto.
    + rewrite nth_upd_ne by exact Hne. eauto.
  - destruct o as [k|k|k|k|h0 ev]; try discriminate.
    + destruct (lru_find (lru c) k) as [i|] eqn:Hf.
      * rewrite (step_add_hit _ _ _ Hf). cbn [fst]. rewrite acquire_touch_hs, nth_error_app1 by exact Hlt. eauto.
      * rewrite (step_add_new _ _ Hf). cbn [fst]. unfold trim. destruct (_ && _).
        -- destruct (last _ _) as [[kk ii]|]; [rewrite evict_key_hs|]; rewrite add_new_hs, nth_error_app1 by exact Hlt; eauto.
        -- rewrite add_new_hs, nth_error_app1 by exact Hlt. eauto.
    + destruct (lru_find (lru c) k) as [i|] eqn:Hf.
      * rewrite (step_get_hit _ _ _ Hf). cbn [fst]. rewrite acquire_touch_hs, nth_error_app1 by exact Hlt. eauto.
      * rewrite (step_get_miss _ _ Hf). eauto.
Qed.

Lemma hval_step c o h v : M.hval c h = Some v -> M.hval (fst (step c o)) h = Some v.
Proof.
  unfold M.hval. destruct (nth_error (hs c) h) as [[w r]|] eqn:H; [|discriminate]. intros E. inversion E; subst.
  destruct (hs_value_step c o h v r H) as [r' H']. rewrite H'. reflexivity.
Qed.

Lemma tstep_none s t ok : nth_error (M.thrs s) t = None -> M.tstep s t ok = (s, M.ENone).
Proof. intros H. unfold M.tstep. rewrite H. reflexivity. Qed.

Definition not_step_of (t : nat) (o : M.op) : Prop := forall ok, o <> M.RStep t ok.

(* ops other than sub-steps of thread t leave thread t where it is, and every op keeps the values of done-closures *)
Lemma step_other s o t th : nth_error (M.thrs s) t = Some th -> not_step_of t o ->
  nth_error (M.thrs (fst (M.step s o))) t = Some th.
Proof.
  intros Ht Hn. assert (Hlt : t < length (M.thrs s)) by (eapply nth_some_lt; eauto).
  destruct o as [n|t' ok|u|u|n|n|u|u r|u]; cbn [M.step fst].
  - cbn. rewrite nth_error_app1 by exact Hlt. exact Ht.
  - assert (Hne : t' <> t) by (intros ->; apply (Hn ok); reflexivity).
    destruct (nth_error (M.thrs s) t') as [th'|] eqn:Ht'; [|rewrite (tstep_none _ _ _ Ht'); exact Ht].
    destruct (tstep_sum s t' ok th' Ht') as [E|(p' & lo & bo & Et & _)]; [rewrite E; exact Ht|].
    rewrite Et. rewrite nth_upd_ne by exact Hne. exact Ht.
  - unfold M.release. destruct (nth_error (M.uh s) u) as [[h r]|]; [|exact Ht]. rewrite lc_do_thrs. exact Ht.
  - unfold M.release. destruct (nth_error (M.uh s) u) as [[h r]|]; [|exact Ht]. rewrite lc_do_thrs. exact Ht.
  - rewrite lc_do_thrs. exact Ht.
  - rewrite bc_do_thrs. exact Ht.
  - destruct (nth_error (M.uh s) u) as [[h r0]|]; [|exact Ht]. destruct (M.layer_flags s h). exact Ht.
  - destruct (nth_error (M.uh s) u) as [[h r0]|]; [|exact Ht]. destruct (M.layer_flags s h).
    destruct (_ && _); [|exact Ht]. destruct r, (M.blob_of s h); exact Ht.
  - destruct (nth_error (M.uh s) u) as [[h r0]|]; [|exact Ht]. destruct (M.blob_of s h); exact Ht.
Qed.

Lemma step_hval s o h v : M.hval (M.lc s) h = Some v -> M.hval (M.lc (fst (M.step s o))) h = Some v.
Proof.
  intros H. destruct o as [n|t' ok|u|u|n|n|u|u r|u]; cbn [M.step fst].
  - exact H.
  - destruct (nth_error (M.thrs s) t') as [th'|] eqn:Ht'; [|rewrite (tstep_none _ _ _ Ht'); exact H].
    destruct (tstep_sum s t' ok th' Ht') as [E|(p' & lo & bo & _ & Hl & _)]; [rewrite E; exact H|].
    unfold lmove in Hl. rewrite Hl. destruct lo; [apply hval_step|]; exact H.
  - unfold M.release. destruct (nth_error (M.uh s) u) as [[h0 r]|]; [|exact H]. rewrite lc_do_lc. apply hval_step. exact H.
  - unfold M.release. destruct (nth_error (M.uh s) u) as [[h0 r]|]; [|exact H]. rewrite lc_do_lc. apply hval_step. exact H.
  - rewrite lc_do_lc. apply hval_step. exact H.
  - rewrite bc_do_lc. exact H.
  - destruct (nth_error (M.uh s) u) as [[h0 r0]|]; [|exact H]. destruct (M.layer_flags s h0). exact H.
  - destruct (nth_error (M.uh s) u) as [[h0 r0]|]; [|exact H]. destruct (M.layer_flags s h0).
    destruct (_ && _); [|exact H]. destruct r, (M.blob_of s h0); exact H.
  - destruct (nth_error (M.uh s) u) as [[h0 r0]|]; [|exact H]. destruct (M.blob_of s h0); exact H.
Qed.

(* ---------- single instance ---------- *)
(* what a returning sub-step returns *)
Lemma ret_spec s t ok th v fr : RInv s -> LI s -> nth_error (M.thrs s) t = Some th ->
  snd (M.tstep s t ok) = M.ERet v fr ->
  let n := M.t_name th in let s' := fst (M.tstep s t ok) in
  (fr = true /\ (exists bh d, M.t_pc th = M.PMeta bh d) /\ lru_find (lru (M.lc s)) n = None /\
   v = length (ents (M.lc s)) /\ lru_find (lru (M.lc s')) n = Some v)
  \/ (fr = false /\ exists h, M.t_pc th = M.PHit h /\ M.hval (M.lc s) h = Some v /\ M.lc s' = M.lc s).
Proof.
  intros I L Ht. unfold M.tstep. rewrite Ht. cbv zeta.
  destruct (M.t_pc th) as [|h|h| | |bh|bh| | |d|bh|bh d|] eqn:Hp; cbn [fst snd]; try discriminate.
  - destruct (M.mem _ _); [discriminate|]. destruct (snd (M.lc_do _ _)); discriminate.
  - destruct (M.layer_flags s h). destruct (_ && _); [|discriminate]. destruct (M.hval (M.lc s) h) as [w|] eqn:Hv; [|discriminate].
    cbn [fst snd]. intros E. inversion E; subst. right. split; [reflexivity|]. exists h. repeat split; try reflexivity. exact Hv.
  - destruct (snd (M.bc_do _ _)); discriminate.
  - destruct (_ && _); discriminate.
  - destruct ok; [destruct (snd (M.bc_do _ _)) as [[? []]|]; discriminate|discriminate].
  - destruct ok; [|discriminate].
    assert (Hf : lru_find (lru (M.lc s)) (M.t_name th) = None) by (apply (l_lmiss _ L t th Ht); rewrite Hp; reflexivity).
    rewrite snd_lc_do, (add_miss_spec _ _ (i_capl _ _ _ _ _ I) Hf). cbn [fst snd]. intros E. inversion E; subst.
    left. repeat split; eauto. autorewrite with proj.
    rewrite (add_miss_spec _ _ (i_capl _ _ _ _ _ I) Hf). cbn [fst]. apply find_after_add_new.
Qed.

(* a Resolve of a name whose lock is held blocks *)
Lemma blocked_while_held s t th t2 th2 ok : LI s ->
  nth_error (M.thrs s) t = Some th -> M.t_pc th = M.PWait ->
  nth_error (M.thrs s) t2 = Some th2 -> active (M.t_pc th2) = true -> M.t_name th2 = M.t_name th ->
  M.tstep s t ok = (s, M.EBlocked).
Proof.
  intros L Ht Hp Ht2 Ha En. unfold M.tstep. rewrite Ht, Hp.
  assert (Hm : M.mem (M.t_name th) (M.locks s) = true) by (apply mem_In; rewrite <- En; apply (LI_holds s t2 th2 L Ht2 Ha)).
  rewrite Hm. reflexivity.
Qed.

(* overlapping calls: a call whose lookup found instance v cached returns v (shared, not fresh) whenever it returns
   at its check step, whatever happens in between *)
Lemma overlap_same os2 : forall s t n h v,
  nth_error (M.thrs s) t = Some (M.mkT n (M.PHit h)) -> M.hval (M.lc s) h = Some v ->
  Forall (not_step_of t) os2 ->
  let s2 := M.exec s os2 in
  nth_error (M.thrs s2) t = Some (M.mkT n (M.PHit h)) /\ M.hval (M.lc s2) h = Some v /\
  forall ok, snd (M.tstep s2 t ok) = M.ERet v false \/ (snd (M.tstep s2 t ok) = M.ENone /\ M.pc_of (fst (M.tstep s2 t ok)) t = M.PEvict h).
Proof.
  induction os2 as [|o os2 IH]; intros s t n h v Ht Hv Hall; cbn.
  - split; [exact Ht|]. split; [exact Hv|]. intros ok. unfold M.tstep. rewrite Ht. cbn [M.t_pc M.t_name].
    destruct (M.layer_flags s h). destruct (_ && _).
    + rewrite Hv. left. reflexivity.
    + right. split; [reflexivity|]. cbn [fst]. apply (pc_of_setpc _ _ _ _ _ Ht).
  - inversion Hall as [|? ? Ho Hrest]; subst. apply IH; [apply step_other; assumption|apply step_hval; exact Hv|exact Hrest].
Qed.

(* the four clauses of single_instance, for any state satisfying both invariants *)
Lemma single_instance s : RInv s -> LI s ->
    (forall t1 t2 th1 th2, nth_error (M.thrs s) t1 = Some th1 -> nth_error (M.thrs s) t2 = Some th2 ->
       active (M.t_pc th1) = true -> active (M.t_pc th2) = true -> M.t_name th1 = M.t_name th2 -> t1 = t2) /\
    (forall t th, nth_error (M.thrs s) t = Some th -> active (M.t_pc th) = true ->
       In (M.t_name th) (M.locks s) /\
       forall t' th' ok, nth_error (M.thrs s) t' = Some th' -> M.t_pc th' = M.PWait -> M.t_name th' = M.t_name th ->
         M.tstep s t' ok = (s, M.EBlocked)) /\
    (forall t th, nth_error (M.thrs s) t = Some th ->
       (lmissed (M.t_pc th) = true -> lru_find (lru (M.lc s)) (M.t_name th) = None) /\
       (bmissed (M.t_pc th) = true -> lru_find (lru (M.bc s)) (M.t_name th) = None)) /\
    (forall t th ok v fr, nth_error (M.thrs s) t = Some th -> snd (M.tstep s t ok) = M.ERet v fr ->
       (fr = true /\ (exists bh d, M.t_pc th = M.PMeta bh d) /\ lru_find (lru (M.lc s)) (M.t_name th) = None /\
        v = length (ents (M.lc s)) /\ lru_find (lru (M.lc (fst (M.tstep s t ok)))) (M.t_name th) = Some v)
       \/ (fr = false /\ exists h, M.t_pc th = M.PHit h /\ M.hval (M.lc s) h = Some v /\ M.lc (fst (M.tstep s t ok)) = M.lc s)).
Proof.
  intros I L.
  split; [intros t1 t2 th1 th2; exact (LI_excl s t1 t2 th1 th2 L)|].
  split; [intros t th Ht Ha; split; [exact (LI_holds s t th L Ht Ha)|
          intros t' th' ok Ht' Hp En; exact (blocked_while_held s t' th' t th ok L Ht' Hp Ht Ha (eq_sym En))]|].
  split; [intros t th Ht; split; [exact (l_lmiss s L t th Ht)|exact (l_bmiss s L t th Ht)]|].
  intros t th ok v fr Ht Hr. exact (ret_spec s t ok th v fr I L Ht Hr).
Qed.

(* ---------- connectivity refreshes: the blob's fetcher changes only when a Refresh is accepted ---------- *)
Lemma lc_do_bad s o : M.bad (fst (M.lc_do s o)) = M.bad s.
Proof. destruct (lc_do_frame s o) as ((_ & _ & _ & _ & A) & _). exact A. Qed.
Lemma bc_do_bad s o : M.bad (fst (M.bc_do s o)) = M.bad s.
Proof. destruct (bc_do_frame s o) as ((_ & _ & _ & _ & A) & _). exact A. Qed.
Lemma setpc_bad s t n p : M.bad (M.setpc s t n p) = M.bad s. Proof. reflexivity. Qed.
Lemma finish_bad s t n : M.bad (M.finish s t n) = M.bad s. Proof. reflexivity. Qed.
Lemma rmdir_bad s d : M.bad (M.rmdir s d) = M.bad s. Proof. reflexivity. Qed.
Lemma set_uh_bad s x : M.bad (M.set_uh s x) = M.bad s. Proof. reflexivity. Qed.
Lemma set_lobjs_bad s x : M.bad (M.set_lobjs s x) = M.bad s. Proof. reflexivity. Qed.
Lemma set_bobjs_bad s x : M.bad (M.set_bobjs s x) = M.bad s. Proof. reflexivity. Qed.
Lemma set_locks_bad s x : M.bad (M.set_locks s x) = M.bad s. Proof. reflexivity. Qed.
Lemma mkdir_bad s k : M.bad (fst (M.mkdir s k)) = M.bad s. Proof. reflexivity. Qed.
Global Hint Rewrite lc_do_bad bc_do_bad setpc_bad finish_bad rmdir_bad set_uh_bad set_lobjs_bad set_bobjs_bad set_locks_bad mkdir_bad : proj.

Lemma tstep_bad s t ok : M.bad (fst (M.tstep s t ok)) = M.bad s.
Proof.
  unfold M.tstep. destruct (nth_error (M.thrs s) t) as [th|]; [|reflexivity].
  destruct (M.t_pc th) as [|h|h| | |bh|bh| | |d|bh|bh d|]; cbn [fst snd]; cbv zeta.
  - destruct (M.mem _ _); [reflexivity|]. destruct (snd (M.lc_do _ _)); cbn [fst]; autorewrite with proj; reflexivity.
  - destruct (M.layer_flags s h). destruct (_ && _); [|reflexivity]. destruct (M.hval _ _); cbn [fst]; autorewrite with proj; reflexivity.
  - autorewrite with proj. reflexivity.
  - autorewrite with proj. reflexivity.
  - destruct (snd (M.bc_do _ _)); cbn [fst]; autorewrite with proj; reflexivity.
  - destruct (_ && _); reflexivity.
  - autorewrite with proj. reflexivity.
  - autorewrite with proj. reflexivity.
  - reflexivity.
  - destruct ok; [destruct (snd (M.bc_do _ _)) as [[? []]|]|]; cbn [fst]; autorewrite with proj; reflexivity.
  - reflexivity.
  - destruct ok; [destruct (snd (M.lc_do _ _)) as [[? []]|]|]; cbn [fst]; autorewrite with proj; reflexivity.
  - reflexivity.
Qed.

Definition accepts_other_content (o : M.op) : Prop := exists u, o = M.Refresh u M.RfContent.

(* only an accepted Refresh touches the record of replaced fetchers; a refused one (resolution error, other size)
   changes nothing at all *)
Lemma refused_refresh_nop s u r : r = M.RfErr \/ r = M.RfSize -> fst (M.step s (M.Refresh u r)) = s.
Proof.
  intros Hr. cbn [M.step]. destruct (nth_error (M.uh s) u) as [[h r0]|]; [|reflexivity].
  destruct (M.layer_flags s h). destruct (_ && _); [|reflexivity].
  destruct Hr as [-> | ->]; destruct (M.blob_of s h); reflexivity.
Qed.

Lemma rm_nil d : M.rm d [] = []. Proof. reflexivity. Qed.

Lemma step_bad_nil s o : ~ accepts_other_content o -> M.bad s = [] -> M.bad (fst (M.step s o)) = [].
Proof.
  intros Hn Hb. destruct o as [n|t ok|u|u|n|n|u|u r|u]; cbn [M.step fst].
  - exact Hb.
  - rewrite tstep_bad. exact Hb.
  - unfold M.release. destruct (nth_error (M.uh s) u) as [[h r0]|]; [|exact Hb]. autorewrite with proj. exact Hb.
  - unfold M.release. destruct (nth_error (M.uh s) u) as [[h r0]|]; [|exact Hb]. autorewrite with proj. exact Hb.
  - autorewrite with proj. exact Hb.
  - autorewrite with proj. exact Hb.
  - destruct (nth_error (M.uh s) u) as [[h r0]|]; [|exact Hb]. destruct (M.layer_flags s h). exact Hb.
  - destruct (nth_error (M.uh s) u) as [[h r0]|]; [|exact Hb]. destruct (M.layer_flags s h).
    destruct (_ && _); [|exact Hb]. destruct r, (M.blob_of s h); cbn [fst]; try exact Hb.
    + cbn. rewrite Hb. reflexivity.
    + exfalso. apply Hn. exists u. reflexivity.
  - destruct (nth_error (M.uh s) u) as [[h r0]|]; [|exact Hb]. destruct (M.blob_of s h); exact Hb.
Qed.

Lemma exec_bad_nil os : forall s, Forall (fun o => ~ accepts_other_content o) os -> M.bad s = [] -> M.bad (M.exec s os) = [].
Proof.
  unfold M.exec. induction os as [|o os IH]; simpl; intros s Hall Hb; [exact Hb|].
  inversion Hall; subst. apply IH; [assumption|apply step_bad_nil; assumption].
Qed.

(* reads that have to go to the registry keep working on a held layer, whatever Refresh calls were made and refused,
   as long as no registry was accepted that serves other bytes under the blob's size *)
Lemma held_probe os u h : Forall (fun o => ~ accepts_other_content o) os ->
  let s := M.exec M.init os in
  nth_error (M.uh s) u = Some (h, false) -> M.step s (M.Probe u) = (s, M.EProbe true).
Proof.
  intros Hall s Hu. pose proof (reach_inv os) as I. fold s in I.
  destruct (held_usable s u h I Hu) as (Hf & v & o & b & ob & Hv & Ho & _ & _ & Hb & _).
  cbn [M.step]. rewrite Hu. unfold M.blob_of, M.hval. rewrite Hv, Ho, Hb. rewrite Hf. cbn [snd negb andb].
  assert (Hbad : M.bad s = []) by (apply exec_bad_nil; [exact Hall|reflexivity]). rewrite Hbad. reflexivity.
Qed.
