(* Proofs about the byte path (Model/ChunkRead.v): the writer's chunk tables tile the file, the chunk lookup
   (sort.Search transcription) finds the chunk containing an offset, and the per-chunk assembly loop of
   fs/reader file.ReadAt returns exactly the requested slice of the file for every honest cache state;
   lifted to arbitrary histories of reads / prefetch / evictions / interference. *)
From Coq Require Import List ZArith Bool Arith Lia.
From Coq Require Import ZifyBool ZifyNat.
From SV Require Import Model.ChunkRead.
Import ListNotations.
Open Scope Z_scope.

Ltac Zify.zify_post_hook ::= Z.div_mod_to_equations.

(* ---------- slices ---------- *)
Lemma slice_length : forall {A} (l : list A) off len,
  0 <= off -> 0 <= len -> off + len <= zlen l -> zlen (slice off len l) = len.
Proof.
  intros A l off len Ho Hl H. unfold slice, zlen in *.
  rewrite firstn_length, skipn_length. lia.
Qed.

Lemma slice_nonpos : forall {A} (l : list A) off len, len <= 0 -> slice off len l = [].
Proof. intros A l off len H. unfold slice. replace (Z.to_nat len) with 0%nat by lia. reflexivity. Qed.

Lemma skipn_skipn : forall {A} (a b : nat) (l : list A), skipn a (skipn b l) = skipn (b + a) l.
Proof.
  intros A a b. revert a. induction b as [|b IH]; intros a l; simpl.
  - reflexivity.
  - destruct l as [|x l]; simpl.
    + now rewrite skipn_nil.
    + apply IH.
Qed.

Lemma firstn_firstn_le : forall {A} (a b : nat) (l : list A), (a <= b)%nat -> firstn a (firstn b l) = firstn a l.
Proof. intros A a b l H. rewrite firstn_firstn. now rewrite Nat.min_l. Qed.

Lemma firstn_skipn_comm' : forall {A} (m n : nat) (l : list A), firstn m (skipn n l) = skipn n (firstn (n + m) l).
Proof.
  intros A m n. revert m. induction n as [|n IH]; intros m l; simpl.
  - reflexivity.
  - destruct l as [|x l]; simpl.
    + now rewrite firstn_nil.
    + apply IH.
Qed.

(* a slice of a slice is a slice *)
Lemma slice_slice : forall {A} (l : list A) o s a b,
  0 <= o -> 0 <= a -> 0 <= b -> a + b <= s -> slice a b (slice o s l) = slice (o + a) b l.
Proof.
  intros A l o s a b Ho Ha Hb Hab. unfold slice.
  rewrite (firstn_skipn_comm' (Z.to_nat s) (Z.to_nat o)).
  rewrite skipn_skipn.
  rewrite (firstn_skipn_comm' (Z.to_nat b)).
  rewrite firstn_firstn_le by lia.
  rewrite <- firstn_skipn_comm'.
  replace (Z.to_nat (o + a)) with (Z.to_nat o + Z.to_nat a)%nat by lia. reflexivity.
Qed.

Lemma firstn_app_skipn : forall {A} (a b : nat) (l : list A), firstn a l ++ firstn b (skipn a l) = firstn (a + b) l.
Proof.
  intros A a. induction a as [|a IH]; intros b l; simpl.
  - reflexivity.
  - destruct l as [|x l]; simpl.
    + now rewrite firstn_nil.
    + f_equal. apply IH.
Qed.

(* consecutive slices concatenate *)
Lemma slice_app : forall {A} (l : list A) o a b,
  0 <= o -> 0 <= a -> 0 <= b -> slice o a l ++ slice (o + a) b l = slice o (a + b) l.
Proof.
  intros A l o a b Ho Ha Hb. unfold slice.
  replace (Z.to_nat (o + a)) with (Z.to_nat o + Z.to_nat a)%nat by lia.
  rewrite <- skipn_skipn. rewrite firstn_app_skipn. f_equal. lia.
Qed.

Lemma slice_all : forall {A} (l : list A), slice 0 (zlen l) l = l.
Proof. intros A l. unfold slice, zlen. simpl. rewrite Nat2Z.id. apply firstn_all. Qed.

Lemma slice_eq_len : forall {A} (l : list A) off a b, Z.to_nat a = Z.to_nat b -> slice off a l = slice off b l.
Proof. intros A l off a b H. unfold slice. now rewrite H. Qed.

Lemma zlen_nonneg : forall {A} (l : list A), 0 <= zlen l.
Proof. intros. unfold zlen. lia. Qed.

(* ---------- tiling chunk tables ---------- *)
(* [tiles a l n]: the chunks of l are non-empty, contiguous, start at a and end at n *)
Fixpoint tiles (a : Z) (l : list chunk) (n : Z) : Prop :=
  match l with
  | [] => a = n
  | ch :: t => c_off ch = a /\ 0 < c_size ch /\ tiles (a + c_size ch) t n
  end.

(* what the reader relies on: the table of a file of n bytes, as the memory store keeps it *)
Definition TableOK (t : table) (n : Z) : Prop :=
  0 <= n /\
  (((length (t_chunks t) < 2)%nat /\ t_ent t = mkChunk 0 n) \/
   ((2 <= length (t_chunks t))%nat /\ tiles 0 (t_chunks t) n)).

Definition fixc (n : Z) (x : Z * Z) : chunk := let '(co, csz) := x in mkChunk co (if csz =? 0 then n - co else csz).

Lemma emit_loop_tiles : forall fuel w n cs,
  0 < cs -> 0 <= w <= n -> n - w <= Z.of_nat fuel ->
  tiles w (map (fixc n) (emit_loop fuel w n cs)) n.
Proof.
  induction fuel as [|f IH]; intros w n cs Hcs Hw Hf.
  - simpl. lia.
  - simpl. destruct (w <? n) eqn:E1.
    + destruct (n - w <? cs) eqn:E2.
      * simpl. split; [reflexivity|]. split.
        { destruct (0 =? 0) eqn:E3; simpl; lia. }
        replace (0 =? 0) with true by reflexivity. cbn [c_size].
        replace (w + (n - w)) with n by lia.
        apply IH; lia.
      * simpl. split; [reflexivity|].
        destruct (cs =? 0) eqn:E3; [lia|]. cbn [c_size]. split; [lia|].
        apply IH; lia.
    + simpl. lia.
Qed.

Lemma tiles_end_le : forall l a n, tiles a l n -> a <= n.
Proof.
  induction l as [|ch t IH]; intros a n H; simpl in H.
  - lia.
  - destruct H as (_ & Hs & Ht). apply IH in Ht. lia.
Qed.

(* chunks_tile *)
Lemma mk_table_ok : forall n cs, 0 <= n -> 0 < cs -> TableOK (mk_table n cs) n.
Proof.
  intros n cs Hn Hcs. unfold mk_table, emit_chunks. split; [assumption|].
  destruct (0 <? n) eqn:E0.
  - destruct (Z.to_nat n) as [|f] eqn:Ef; [lia|].
    cbn [emit_loop]. replace (0 <? n) with true by lia.
    replace (n - 0) with n by lia.
    destruct (n <? cs) eqn:E1.
    + (* one short chunk *)
      left. replace (0 + n) with n by lia.
      assert (Hnil : emit_loop f n n cs = []).
      { destruct f; simpl; [reflexivity|]. replace (n <? n) with false by lia. reflexivity. }
      rewrite Hnil. cbn. replace (0 <? 0) with false by reflexivity. cbn.
      replace (n =? 0) with false by lia. cbn. split; [lia|reflexivity].
    + cbn [init_table]. replace (0 + cs) with cs by lia.
      replace (0 <? cs) with true by lia. cbn [andb].
      replace ((cs =? 0) && negb (n =? 0)) with false by lia.
      destruct (cs <? n) eqn:E2.
      * right.
        pose proof (emit_loop_tiles f cs n cs Hcs) as HT.
        assert (Hrest : tiles cs (map (fixc n) (emit_loop f cs n cs)) n) by (apply HT; lia).
        cbn [t_chunks app].
        fold (fixc n).
        split.
        { destruct (map (fixc n) (emit_loop f cs n cs)) as [|x r] eqn:Em; simpl in *; lia. }
        simpl. split; [reflexivity|]. split; [lia|]. replace (0 + cs) with cs by lia. exact Hrest.
      * left. assert (cs = n) by lia. subst cs.
        assert (Hnil : emit_loop f n n n = []).
        { destruct f; simpl; [reflexivity|]. replace (n <? n) with false by lia. reflexivity. }
        rewrite Hnil. cbn. split; [lia|reflexivity].
  - assert (n = 0) by lia. subst n. left. cbn. split; [lia|reflexivity].
Qed.

(* ---------- sort.Search ---------- *)
Definition mono (f : nat -> bool) : Prop := forall a b, (a <= b)%nat -> f a = true -> f b = true.

Lemma search_loop_spec : forall fuel i j n f,
  mono f -> (i <= j <= n)%nat -> (j - i <= fuel)%nat ->
  (forall k, (k < i)%nat -> f k = false) -> (forall k, (j <= k < n)%nat -> f k = true) ->
  let r := search_loop fuel i j f in
  (r <= n)%nat /\ (forall k, (k < r)%nat -> f k = false) /\ (forall k, (r <= k < n)%nat -> f k = true).
Proof.
  induction fuel as [|fu IH]; intros i j n f Hm Hij Hf Hlo Hhi; simpl.
  - assert (i = j) by lia. subst j. repeat split; [lia|assumption|assumption].
  - destruct (Nat.ltb i j) eqn:E.
    + apply Nat.ltb_lt in E.
      assert (Hh : (i <= Nat.div2 (i + j) < j)%nat).
      { rewrite Nat.div2_div. split.
        - apply Nat.div_le_lower_bound; lia.
        - apply Nat.div_lt_upper_bound; lia. }
      destruct (f (Nat.div2 (i + j))) eqn:Efh; simpl.
      * apply IH; try assumption; try lia.
        intros k Hk. apply (Hm (Nat.div2 (i + j))); [lia|assumption].
      * apply IH; try assumption; try lia.
        intros k Hk. destruct (f k) eqn:Efk; [|reflexivity].
        assert (f (Nat.div2 (i + j)) = true) by (apply (Hm k); [lia|assumption]). congruence.
    + apply Nat.ltb_ge in E. assert (i = j) by lia. subst j. repeat split; [lia|assumption|assumption].
Qed.

Lemma search_spec : forall n f, mono f ->
  let r := search n f in
  (r <= n)%nat /\ (forall k, (k < r)%nat -> f k = false) /\ (forall k, (r <= k < n)%nat -> f k = true).
Proof.
  intros n f Hm. unfold search. apply search_loop_spec; try assumption; try lia.
Qed.

(* ---------- facts about tiling lists, by index ---------- *)
Definition d0 := mkChunk 0 0.

Lemma tiles_nth : forall l a n i, tiles a l n -> (i < length l)%nat ->
  a <= c_off (nth i l d0) /\ 0 < c_size (nth i l d0) /\ c_off (nth i l d0) + c_size (nth i l d0) <= n.
Proof.
  induction l as [|ch t IH]; intros a n i H Hi; simpl in Hi; [lia|].
  simpl in H. destruct H as (Ho & Hs & Ht).
  destruct i as [|i]; simpl.
  - apply tiles_end_le in Ht. lia.
  - assert (Hi' : (i < length t)%nat) by lia.
    destruct (IH _ _ i Ht Hi') as (H1 & H2 & H3). lia.
Qed.

Lemma tiles_first : forall l a n, tiles a l n -> (0 < length l)%nat -> c_off (nth 0 l d0) = a.
Proof. intros [|ch t] a n H Hl; simpl in *; [lia|tauto]. Qed.

(* a later chunk starts at or after the end of an earlier one *)
Lemma tiles_order : forall l a n i j, tiles a l n -> (i < j)%nat -> (j < length l)%nat ->
  c_off (nth i l d0) + c_size (nth i l d0) <= c_off (nth j l d0).
Proof.
  induction l as [|ch t IH]; intros a n i j H Hij Hj; simpl in Hj; [lia|].
  simpl in H. destruct H as (Ho & Hs & Ht).
  destruct j as [|j]; [lia|]. simpl.
  assert (Hj' : (j < length t)%nat) by lia.
  destruct i as [|i]; simpl.
  - destruct (tiles_nth _ _ _ j Ht Hj') as (H1 & _). lia.
  - apply (IH _ _ i j Ht); lia.
Qed.

(* adjacent chunks touch *)
Lemma tiles_adjacent : forall l a n i, tiles a l n -> (S i < length l)%nat ->
  c_off (nth (S i) l d0) = c_off (nth i l d0) + c_size (nth i l d0).
Proof.
  induction l as [|ch t IH]; intros a n i H Hi; simpl in Hi; [lia|].
  simpl in H. destruct H as (Ho & Hs & Ht).
  destruct i as [|i].
  - simpl. rewrite (tiles_first _ _ _ Ht) by lia. lia.
  - change (nth (S (S i)) (ch :: t) d0) with (nth (S i) t d0).
    change (nth (S i) (ch :: t) d0) with (nth i t d0).
    apply (IH _ _ i Ht). lia.
Qed.

Lemma tiles_last : forall l a n, tiles a l n -> (0 < length l)%nat ->
  c_off (nth (length l - 1) l d0) + c_size (nth (length l - 1) l d0) = n.
Proof.
  induction l as [|ch t IH]; intros a n H Hl; simpl in Hl; [lia|].
  simpl in H. destruct H as (Ho & Hs & Ht).
  destruct t as [|ch' t'].
  - simpl in *. lia.
  - replace (length (ch :: ch' :: t') - 1)%nat with (S (length (ch' :: t') - 1)) by (simpl; lia).
    change (nth (S (length (ch' :: t') - 1)) (ch :: ch' :: t') d0) with (nth (length (ch' :: t') - 1) (ch' :: t') d0).
    apply (IH _ _ Ht). simpl. lia.
Qed.

(* ---------- ChunkEntryForOffset ---------- *)
(* what the assembly loop needs from a chunk lookup for a file of n bytes *)
Record LookupSpec (lookup : Z -> option chunk) (n : Z) : Prop := {
  ls_inside : forall x ch, 0 <= x -> lookup x = Some ch ->
                0 <= c_off ch /\ c_off ch <= x < c_off ch + c_size ch /\ c_off ch + c_size ch <= n;
  ls_total  : forall x, 0 <= x < n -> lookup x <> None;
  ls_eof    : forall x, n <= x -> lookup x = None
}.

Definition cfo_pred (ents : list chunk) (offset : Z) (i : nat) : bool :=
  let e := nth i ents d0 in
  (c_off e >=? offset) || ((offset >? c_off e) && (offset <? c_off e + c_size e)).

Lemma cfo_pred_mono : forall ents n x, tiles 0 ents n -> forall a b, (a <= b)%nat -> (b < length ents)%nat ->
  cfo_pred ents x a = true -> cfo_pred ents x b = true.
Proof.
  intros ents n x Ht a b Hab Hb Ha. unfold cfo_pred in *.
  destruct (Nat.eq_dec a b) as [->|Hne]; [assumption|].
  assert (Hlt : (a < b)%nat) by lia.
  pose proof (tiles_order _ _ _ a b Ht Hlt Hb) as Ho.
  assert (Ha' : (a < length ents)%nat) by lia.
  destruct (tiles_nth _ _ _ a Ht Ha') as (_ & Hs & _).
  lia.
Qed.

(* monotone on all of nat: beyond the list the default entry (0,0) answers [0 >= x]; we only use indices < length,
   so we work with a clipped predicate *)
Definition clip (len : nat) (f : nat -> bool) (i : nat) : bool := if Nat.ltb i len then f i else true.

Lemma search_loop_ext : forall fuel i j f g, (forall k, (k < j)%nat -> f k = g k) ->
  search_loop fuel i j f = search_loop fuel i j g.
Proof.
  induction fuel as [|fu IH]; intros i j f g H; simpl; [reflexivity|].
  destruct (Nat.ltb i j) eqn:E; [|reflexivity].
  apply Nat.ltb_lt in E.
  assert (Hh : (Nat.div2 (i + j) < j)%nat).
  { rewrite Nat.div2_div. apply Nat.div_lt_upper_bound; lia. }
  rewrite (H _ Hh). destruct (g (Nat.div2 (i + j))); simpl.
  - apply IH. intros k Hk. apply H. lia.
  - apply IH. assumption.
Qed.

Lemma search_lookup_spec : forall ents n x,
  tiles 0 ents n -> 0 <= x ->
  (x < n -> exists r, (r < length ents)%nat /\ search_lookup ents x = Some (nth r ents d0)
                      /\ c_off (nth r ents d0) <= x < c_off (nth r ents d0) + c_size (nth r ents d0))
  /\ (n <= x -> search_lookup ents x = None).
Proof.
  intros ents n x Ht Hx. unfold search_lookup.
  fold d0. fold (cfo_pred ents x).
  set (len := length ents) in *.
  assert (Hext : search len (cfo_pred ents x) = search len (clip len (cfo_pred ents x))).
  { unfold search. apply search_loop_ext. intros k Hk. unfold clip.
    replace (Nat.ltb k len) with true by (symmetry; apply Nat.ltb_lt; lia). reflexivity. }
  rewrite Hext.
  assert (Hm : mono (clip len (cfo_pred ents x))).
  { intros a b Hab Ha. unfold clip in *.
    destruct (Nat.ltb b len) eqn:Eb; [|reflexivity]. apply Nat.ltb_lt in Eb.
    replace (Nat.ltb a len) with true in Ha by (symmetry; apply Nat.ltb_lt; lia).
    apply (cfo_pred_mono ents n x Ht a b); assumption. }
  destruct (search_spec len _ Hm) as (Hr & Hlo & Hhi).
  set (r := search len (clip len (cfo_pred ents x))) in *.
  assert (Hclip : forall k, (k < len)%nat -> clip len (cfo_pred ents x) k = cfo_pred ents x k).
  { intros k Hk. unfold clip. replace (Nat.ltb k len) with true by (symmetry; apply Nat.ltb_lt; lia). reflexivity. }
  split.
  - intros Hxn.
    assert (Hlen0 : (0 < len)%nat).
    { destruct ents as [|c t]; simpl in *; [lia|unfold len; simpl; lia]. }
    destruct (Nat.eqb r len) eqn:Er.
    + apply Nat.eqb_eq in Er.
      (* every predicate is false, in particular for the last chunk: x >= n *)
      assert (Hl : (len - 1 < r)%nat) by lia.
      pose proof (Hlo _ Hl) as Hf. rewrite Hclip in Hf by lia.
      pose proof (tiles_last _ _ _ Ht ltac:(lia)) as Hlast. fold len in Hlast.
      unfold cfo_pred in Hf. lia.
    + apply Nat.eqb_neq in Er. assert (Hrl : (r < len)%nat) by lia.
      exists r. split; [assumption|]. split; [reflexivity|].
      pose proof (Hhi r ltac:(lia)) as Htrue. rewrite Hclip in Htrue by lia.
      unfold cfo_pred in Htrue.
      destruct (tiles_nth _ _ _ r Ht Hrl) as (H0 & Hs & Hn).
      destruct r as [|r'].
      * rewrite (tiles_first _ _ _ Ht) in * by lia. lia.
      * pose proof (Hlo r' ltac:(lia)) as Hfalse. rewrite Hclip in Hfalse by lia.
        unfold cfo_pred in Hfalse.
        pose proof (tiles_adjacent _ _ _ r' Ht ltac:(lia)) as Hadj. lia.
  - intros Hxn.
    destruct (Nat.eqb r len) eqn:Er; [reflexivity|].
    apply Nat.eqb_neq in Er. assert (Hrl : (r < len)%nat) by lia.
    pose proof (Hhi r ltac:(lia)) as Htrue. rewrite Hclip in Htrue by lia.
    unfold cfo_pred in Htrue.
    destruct (tiles_nth _ _ _ r Ht Hrl) as (H0 & Hs & Hn). lia.
Qed.

Lemma chunk_for_offset_multi : forall t n x,
  (2 <= length (t_chunks t))%nat -> tiles 0 (t_chunks t) n -> 0 <= x ->
  (x < n -> exists r, (r < length (t_chunks t))%nat /\ chunk_for_offset t x = Some (nth r (t_chunks t) d0)
                      /\ c_off (nth r (t_chunks t) d0) <= x < c_off (nth r (t_chunks t) d0) + c_size (nth r (t_chunks t) d0))
  /\ (n <= x -> chunk_for_offset t x = None).
Proof.
  intros t n x Hlen Ht Hx. unfold chunk_for_offset.
  replace (Nat.ltb (length (t_chunks t)) 2) with false by (symmetry; apply Nat.ltb_ge; lia).
  apply search_lookup_spec; assumption.
Qed.

(* the same contract for any list that tiles [0,n), searched directly (db store) *)
Lemma search_lookup_lookupspec : forall ents n, 0 <= n -> tiles 0 ents n -> LookupSpec (search_lookup ents) n.
Proof.
  intros ents n Hn Ht. split.
  - intros x ch Hx H.
    destruct (search_lookup_spec ents n x Ht Hx) as (Hin & Hout).
    destruct (Z_lt_le_dec x n) as [Hl|Hg].
    + destruct (Hin Hl) as (r & Hr & Heq & Hc). rewrite Heq in H. inversion H; subst.
      destruct (tiles_nth _ _ _ r Ht Hr) as (H0 & Hs & Hle). lia.
    + rewrite (Hout Hg) in H. discriminate.
  - intros x Hx.
    destruct (search_lookup_spec ents n x Ht ltac:(lia)) as (Hin & _).
    destruct (Hin ltac:(lia)) as (r & _ & Heq & _). rewrite Heq. discriminate.
  - intros x Hx.
    destruct (search_lookup_spec ents n x Ht ltac:(lia)) as (_ & Hout). apply Hout. assumption.
Qed.

(* ---------- db store: the recomputed chunk table ---------- *)
Lemma resize_tiles_id : forall l a n, tiles a l n -> resize l n = l.
Proof.
  induction l as [|c t IH]; intros a n H; simpl; [reflexivity|].
  simpl in H. destruct H as (Ho & Hs & Ht).
  rewrite (IH _ _ Ht). f_equal.
  destruct c as [co cz]. simpl in *. f_equal.
  destruct t as [|c2 t'].
  - simpl in Ht. lia.
  - simpl in Ht. destruct Ht as (Ho2 & _). lia.
Qed.

Lemma filter_pos_tiles_id : forall l a n, tiles a l n -> filter (fun c => 0 <? c_size c) l = l.
Proof.
  induction l as [|c t IH]; intros a n H; simpl; [reflexivity|].
  simpl in H. destruct H as (Ho & Hs & Ht).
  replace (0 <? c_size c) with true by lia. f_equal. apply (IH _ _ Ht).
Qed.

(* the db store's table of a file the writer chunked: empty for an empty file, else a tiling of [0,n) *)
Lemma db_chunks_tiles : forall n cs, 0 <= n -> 0 < cs -> tiles 0 (db_chunks n (emit_chunks n cs)) n.
Proof.
  intros n cs Hn Hcs. unfold emit_chunks.
  destruct (0 <? n) eqn:E0.
  - destruct (Z.to_nat n) as [|f] eqn:Ef; [lia|].
    pose proof (emit_loop_tiles (S f) 0 n cs Hcs ltac:(lia) ltac:(lia)) as HT.
    destruct (emit_loop (S f) 0 n cs) as [|[o s] rest] eqn:Ee.
    + simpl in HT. lia.
    + unfold db_chunks. rewrite E0.
      replace (n =? 0) with false by lia.
      simpl in HT. destruct HT as (Ho & Hs & Hrest).
      fold (fixc n).
      assert (Hfirst : mkChunk o (if (s =? 0) && negb false then n else s) = fixc n (o, s)).
      { simpl. destruct (s =? 0); simpl; [|reflexivity]. f_equal. lia. }
      rewrite Hfirst.
      change (fixc n (o, s)) with (mkChunk o (if s =? 0 then n - o else s)) in *.
      cbn [c_off c_size] in *.
      rewrite (filter_pos_tiles_id _ _ _ Hrest).
      assert (Hall : tiles 0 ([mkChunk o (if s =? 0 then n - o else s)] ++ map (fixc n) rest) n).
      { simpl. repeat split; assumption. }
      rewrite (resize_tiles_id _ _ _ Hall). exact Hall.
  - assert (n = 0) by lia. subst n. cbn. reflexivity.
Qed.

(* chunk_lookup_correct *)
Lemma chunk_for_offset_spec : forall t n, TableOK t n -> LookupSpec (chunk_for_offset t) n.
Proof.
  intros t n (Hn & [(Hlen & Hent)|(Hlen & Ht)]).
  - assert (Hcfo : forall x, chunk_for_offset t x = if x >=? n then None else Some (mkChunk 0 n)).
    { intros x. unfold chunk_for_offset.
      replace (Nat.ltb (length (t_chunks t)) 2) with true by (symmetry; apply Nat.ltb_lt; lia).
      rewrite Hent. reflexivity. }
    split.
    + intros x ch Hx H. rewrite Hcfo in H. destruct (x >=? n) eqn:E; [discriminate|].
      inversion H; subst; simpl. lia.
    + intros x Hx. rewrite Hcfo. replace (x >=? n) with false by lia. discriminate.
    + intros x Hx. rewrite Hcfo. replace (x >=? n) with true by lia. reflexivity.
  - split.
    + intros x ch Hx H.
      destruct (chunk_for_offset_multi t n x Hlen Ht Hx) as (Hin & Hout).
      destruct (Z_lt_le_dec x n) as [Hl|Hg].
      * destruct (Hin Hl) as (r & Hr & Heq & Hc). rewrite Heq in H. inversion H; subst.
        destruct (tiles_nth _ _ _ r Ht Hr) as (H0 & Hs & Hle). lia.
      * rewrite (Hout Hg) in H. discriminate.
    + intros x Hx.
      destruct (chunk_for_offset_multi t n x Hlen Ht ltac:(lia)) as (Hin & _).
      destruct (Hin ltac:(lia)) as (r & _ & Heq & _). rewrite Heq. discriminate.
    + intros x Hx.
      destruct (Z_le_gt_dec 0 x) as [H0|H0].
      * destruct (chunk_for_offset_multi t n x Hlen Ht H0) as (_ & Hout). apply Hout. assumption.
      * lia.
Qed.

(* two lookups return the same chunk or disjoint chunks (the chunk containing an offset is unique) *)
Lemma chunk_for_offset_unique : forall t n x y ch ch', TableOK t n -> 0 <= x -> 0 <= y ->
  chunk_for_offset t x = Some ch -> chunk_for_offset t y = Some ch' ->
  ch = ch' \/ c_off ch + c_size ch <= c_off ch' \/ c_off ch' + c_size ch' <= c_off ch.
Proof.
  intros t n x y ch ch' (Hn & [(Hlen & Hent)|(Hlen & Ht)]) Hx Hy H1 H2.
  - unfold chunk_for_offset in *.
    replace (Nat.ltb (length (t_chunks t)) 2) with true in * by (symmetry; apply Nat.ltb_lt; lia).
    destruct (x >=? c_size (t_ent t)); [discriminate|]. destruct (y >=? c_size (t_ent t)); [discriminate|].
    left. congruence.
  - destruct (chunk_for_offset_multi t n x Hlen Ht Hx) as (Hin & Hout).
    destruct (chunk_for_offset_multi t n y Hlen Ht Hy) as (Hin' & Hout').
    destruct (Z_lt_le_dec x n) as [Hl|Hg]; [|rewrite (Hout Hg) in H1; discriminate].
    destruct (Z_lt_le_dec y n) as [Hl'|Hg']; [|rewrite (Hout' Hg') in H2; discriminate].
    destruct (Hin Hl) as (r & Hr & Heq & _). destruct (Hin' Hl') as (r' & Hr' & Heq' & _).
    rewrite Heq in H1. rewrite Heq' in H2. inversion H1; inversion H2; subst.
    destruct (lt_eq_lt_dec r r') as [[Hlt|Heqr]|Hgt].
    + right; left. apply (tiles_order _ _ _ r r' Ht); assumption.
    + left. now subst.
    + right; right. apply (tiles_order _ _ _ r' r Ht); assumption.
Qed.

(* ---------- the assembly loop ---------- *)
Section ReadExact.
  Variable id : nat.
  Variable lookup : Z -> option chunk.
  Variable under : cache -> chunk -> option (bytes * cache).
  Variable env : nat -> bool -> cache -> cache.   (* interference between the cache operations of the call *)
  Variable data : bytes.                      (* the content of the file *)
  Variable Hon : cache -> Prop.               (* "the cache is honest" (for all files of the layer) *)

  Let n := zlen data.

  Hypothesis Hlk : LookupSpec lookup n.
  Hypothesis Hon_get : forall c o s v, Hon c -> c (id, o, s) = Some v -> v = slice o s data.
  Hypothesis Hon_add : forall c o s, Hon c -> Hon (cadd c (id, o, s) (slice o s data)).
  Hypothesis Henv : forall k b c, Hon c -> Hon (env k b c).
  Hypothesis Hunder : forall c ch, Hon c -> 0 <= c_off ch -> 0 <= c_size ch -> c_off ch + c_size ch <= n ->
    exists c', under c ch = Some (slice (c_off ch) (c_size ch) data, c') /\ Hon c'.

  Lemma read_loop_exact : forall fuel c offset plen nr acc tr,
    Hon c -> 0 <= offset -> 0 <= nr <= plen -> plen - nr < Z.of_nat fuel ->
    nr <= Z.max 0 (n - offset) ->
    acc = slice offset nr data ->
    exists c' tr', read_loop id lookup under env fuel c offset plen nr acc tr
                   = (ROk (slice offset (Z.min plen (n - offset)) data), c', tr') /\ Hon c'.
  Proof.
    induction fuel as [|fu IH]; intros c offset plen nr acc tr Hc Hoff Hnr Hfuel Hmax Hacc; [lia|].
    cbn [read_loop].
    assert (Hc0 : Hon (env fu true c)) by (apply Henv; assumption).
    clear Hc. revert Hc0. generalize (env fu true c). clear c. intros c Hc.
    destruct (nr <? plen) eqn:Enr.
    2:{ exists c, tr. split; [|assumption]. subst acc.
        rewrite (slice_eq_len data offset nr (Z.min plen (n - offset))) by lia. reflexivity. }
    destruct (lookup (offset + nr)) as [ch|] eqn:Elk.
    2:{ exists c, tr. split; [|assumption]. subst acc.
        destruct (Z_lt_le_dec (offset + nr) n) as [Hl|Hg].
        - exfalso. apply (ls_total _ _ Hlk (offset + nr)); [lia|assumption].
        - rewrite (slice_eq_len data offset nr (Z.min plen (n - offset))) by lia. reflexivity. }
    destruct (ls_inside _ _ Hlk (offset + nr) ch ltac:(lia) Elk) as (Hco & Hin & Hend).
    set (co := c_off ch) in *. set (cs := c_size ch) in *.
    replace ((co <? 0) || (co + cs <? co) || (offset + nr <? co) || (offset + nr >=? co + cs)) with false by lia.
    set (lower := offset + nr - co).
    set (upper := positive (co + cs - (offset + plen))).
    set (expected := cs - upper - lower).
    assert (Hup : upper = Z.max 0 (co + cs - (offset + plen))).
    { unfold upper, positive. destruct (co + cs - (offset + plen) <? 0) eqn:E; lia. }
    assert (Hexp : expected = Z.min (co + cs) (offset + plen) - (offset + nr)) by (unfold expected, lower; lia).
    assert (Hexp_pos : 0 < expected) by lia.
    assert (Hnext : slice offset nr data ++ slice (offset + nr) expected data = slice offset (nr + expected) data).
    { apply slice_app; lia. }
    assert (Hmax' : nr + expected <= Z.max 0 (n - offset)) by lia.
    assert (Hstep : forall c1 tr1, Hon c1 ->
      exists c' tr', read_loop id lookup under env fu c1 offset plen (nr + expected) (acc ++ slice (offset + nr) expected data) tr1
                     = (ROk (slice offset (Z.min plen (n - offset)) data), c', tr') /\ Hon c').
    { intros c1 tr1 Hc1. apply IH; try assumption; try lia. subst acc. exact Hnext. }
    destruct (c (id, co, cs)) as [v|] eqn:Ec.
    - (* the cache answers: honest, hence usable *)
      pose proof (Hon_get _ _ _ _ Hc Ec) as Hv. subst v.
      replace ((expected <? 0) || (nr + expected >? plen)) with false by lia.
      assert (Hd : slice lower expected (slice co cs data) = slice (offset + nr) expected data).
      { rewrite slice_slice by (unfold lower; lia). f_equal. unfold lower. lia. }
      rewrite Hd.
      assert (Hlen : zlen (slice (offset + nr) expected data) = expected).
      { apply slice_length; try fold n; lia. }
      rewrite Hlen. rewrite Z.eqb_refl.
      apply Hstep. assumption.
    - (* miss *)
      destruct (Hunder c ch Hc ltac:(lia) ltac:(lia) Hend) as (c1 & Hu & Hc1).
      fold co cs in Hu.
      assert (Hdl : zlen (slice co cs data) = cs).
      { apply slice_length; try fold n; lia. }
      destruct ((lower =? 0) && (upper =? 0)) eqn:Edirect.
      + replace ((cs <? 0) || (nr + cs >? plen)) with false by lia.
        rewrite Hu. rewrite Hdl. rewrite Z.eqb_refl.
        assert (Hcs : cs = expected) by lia.
        assert (Hco' : co = offset + nr) by (unfold lower in *; lia).
        destruct (Hstep (cadd (env fu false c1) (id, co, cs) (slice co cs data)) (tr ++ [EGet (id, co, cs) false; EUnder co cs])
                        (Hon_add _ _ _ (Henv _ _ _ Hc1))) as (c' & tr' & Heq & Hc').
        exists c', tr'. split; [|assumption]. rewrite <- Heq. rewrite <- Hcs, <- Hco'. reflexivity.
      + replace (cs <? 0) with false by lia.
        rewrite Hu. rewrite Hdl. rewrite Z.eqb_refl.
        replace (lower >? cs - upper) with false by lia.
        assert (Hpiece : slice lower expected (slice co cs data) = slice (offset + nr) expected data).
        { rewrite slice_slice by (unfold lower; lia). f_equal. unfold lower. lia. }
        rewrite Hpiece.
        assert (Hlen : zlen (slice (offset + nr) expected data) = expected).
        { apply slice_length; try fold n; lia. }
        rewrite Hlen.
        replace (Z.min (plen - nr) expected) with expected by lia.
        rewrite Z.eqb_refl.
        assert (Hall : slice 0 expected (slice (offset + nr) expected data) = slice (offset + nr) expected data).
        { rewrite <- Hlen at 1. apply slice_all. }
        rewrite Hall.
        apply Hstep. apply Hon_add. apply Henv. assumption.
  Qed.

  (* read_exact, one call *)
  Lemma read_at_exact : forall c offset plen, Hon c -> 0 <= offset -> 0 <= plen ->
    exists c' tr', read_at id lookup under env c offset plen = (ROk (slice offset (Z.min plen (n - offset)) data), c', tr') /\ Hon c'.
  Proof.
    intros c offset plen Hc Ho Hp. unfold read_at.
    apply read_loop_exact; try assumption; try lia.
    symmetry. apply slice_nonpos. lia.
  Qed.
End ReadExact.

(* ================= GetPassthroughFd ================= *)

(* chunks returned by two lookups are equal or disjoint *)
Definition LookupDisjoint (lookup : Z -> option chunk) : Prop :=
  forall x y ch ch', 0 <= x -> 0 <= y -> lookup x = Some ch -> lookup y = Some ch' ->
    ch = ch' \/ c_off ch + c_size ch <= c_off ch' \/ c_off ch' + c_size ch' <= c_off ch.

Lemma search_lookup_disjoint : forall ents n, tiles 0 ents n -> LookupDisjoint (search_lookup ents).
Proof.
  intros ents n Ht x y ch ch' Hx Hy H1 H2.
  destruct (search_lookup_spec ents n x Ht Hx) as (Hin & Hout).
  destruct (search_lookup_spec ents n y Ht Hy) as (Hin' & Hout').
  destruct (Z_lt_le_dec x n) as [Hl|Hg]; [|rewrite (Hout Hg) in H1; discriminate].
  destruct (Z_lt_le_dec y n) as [Hl'|Hg']; [|rewrite (Hout' Hg') in H2; discriminate].
  destruct (Hin Hl) as (r & Hr & Heq & _). destruct (Hin' Hl') as (r' & Hr' & Heq' & _).
  rewrite Heq in H1. rewrite Heq' in H2. inversion H1; inversion H2; subst.
  destruct (lt_eq_lt_dec r r') as [[Hlt|Heqr]|Hgt].
  - right; left. apply (tiles_order _ _ _ r r' Ht); assumption.
  - left. now subst.
  - right; right. apply (tiles_order _ _ _ r' r Ht); assumption.
Qed.

(* the chunk list the enumeration produces: tiling, and every chunk is what the lookup returns at its start *)
Fixpoint chain (lookup : Z -> option chunk) (a : Z) (l : list chunk) (n : Z) : Prop :=
  match l with
  | [] => a = n
  | ch :: t => c_off ch = a /\ 0 < c_size ch /\ lookup a = Some ch /\ chain lookup (a + c_size ch) t n
  end.

Lemma chain_tiles : forall lookup l a n, chain lookup a l n -> tiles a l n.
Proof.
  induction l as [|ch t IH]; intros a n H; simpl in *; [assumption|].
  destruct H as (H1 & H2 & _ & H4). repeat split; try assumption. apply IH. assumption.
Qed.

(* no chunk is larger than the merge buffer or crosses a merge buffer boundary *)
Definition fits (mbs : Z) (ch : chunk) : Prop :=
  c_size ch <= mbs /\ Z.quot (c_off ch) mbs = Z.quot (c_off ch + c_size ch - 1) mbs.

Section PassthroughProofs.
  Variable id : nat.
  Variable lookup : Z -> option chunk.
  Variable under : cache -> chunk -> option (bytes * cache).
  Variable data : bytes.
  Variable Hon : cache -> Prop.
  Let n := zlen data.

  Hypothesis Hlk : LookupSpec lookup n.
  Hypothesis Hdj : LookupDisjoint lookup.
  Hypothesis Hon_get : forall c o s v, Hon c -> c (id, o, s) = Some v -> v = slice o s data.
  Hypothesis Hon_add : forall c o s, Hon c -> Hon (cadd c (id, o, s) (slice o s data)).
  Hypothesis Hunder : forall c ch, Hon c -> 0 <= c_off ch -> 0 <= c_size ch -> c_off ch + c_size ch <= n ->
    exists c', under c ch = Some (slice (c_off ch) (c_size ch) data, c') /\ Hon c'.

  (* the lookup at the end of a chunk returns a chunk that starts there *)
  Lemma next_starts : forall x ch ch', 0 <= x -> lookup x = Some ch -> lookup (c_off ch + c_size ch) = Some ch' ->
    c_off ch' = c_off ch + c_size ch.
  Proof.
    intros x ch ch' Hx H1 H2.
    destruct (ls_inside _ _ Hlk x ch Hx H1) as (H0 & Hin & Hend).
    assert (Hnn : 0 <= c_off ch + c_size ch) by lia.
    destruct (ls_inside _ _ Hlk (c_off ch + c_size ch) ch' Hnn H2) as (H0' & Hin' & Hend').
    destruct (Hdj x (c_off ch + c_size ch) ch ch' Hx Hnn H1 H2) as [He|[Hd|Hd]]; [subst ch'; lia|lia|lia].
  Qed.

  (* the enumeration succeeds and yields a chain from its start offset to n; "large" is false only if every chunk fits *)
  Lemma pt_enum_ok : forall fuel mbs offset total large acc,
    0 <= offset <= n -> n - offset < Z.of_nat fuel ->
    (offset = 0 \/ exists x ch, 0 <= x /\ lookup x = Some ch /\ c_off ch + c_size ch = offset) ->
    exists chs large',
      pt_enum lookup fuel mbs offset total large acc = Some (Some (acc ++ chs, total + (n - offset), large'))
      /\ chain lookup offset chs n
      /\ (large' = false -> large = false /\ Forall (fits mbs) chs).
  Proof.
    induction fuel as [|fu IH]; intros mbs offset total large acc Ho Hf Hprev; [lia|].
    cbn [pt_enum].
    destruct (lookup offset) as [ch|] eqn:El.
    - destruct (ls_inside _ _ Hlk offset ch ltac:(lia) El) as (H0 & Hin & Hend).
      assert (Hco : c_off ch = offset).
      { destruct Hprev as [->|(x & p & Hx & Hp & He)]; [lia|].
        rewrite <- He in El. rewrite <- He. apply (next_starts x p ch Hx Hp El). }
      replace (negb (c_off ch =? offset) || (c_size ch <=? 0) || (c_off ch + c_size ch <? c_off ch)) with false by lia.
      set (l2 := large || (c_size ch >? mbs) || ((mbs >? 0) && negb (Z.quot (c_off ch) mbs =? Z.quot (c_off ch + c_size ch - 1) mbs))).
      destruct (IH mbs (c_off ch + c_size ch) (total + c_size ch) l2 (acc ++ [ch])) as (chs & lg & Heq & Hch & Hfit).
      + lia.
      + lia.
      + right. exists offset, ch. repeat split; [lia|assumption].
      + exists (ch :: chs), lg. split; [|split].
        * rewrite Heq. rewrite <- app_assoc. simpl.
          replace (total + c_size ch + (n - (c_off ch + c_size ch))) with (total + (n - offset)) by lia. reflexivity.
        * simpl. rewrite Hco. repeat split; try lia; try assumption. rewrite <- Hco. assumption.
        * intros Hlg. destruct (Hfit Hlg) as (Hl2 & Hall). unfold l2 in Hl2.
          apply orb_false_iff in Hl2. destruct Hl2 as (Hl2 & Hcross). apply orb_false_iff in Hl2. destruct Hl2 as (Hl & Hbig).
          split; [assumption|]. constructor; [|assumption]. unfold fits. split; [lia|].
          apply andb_false_iff in Hcross. destruct Hcross as [Hm|Hq]; [lia|].
          apply negb_false_iff in Hq. apply Z.eqb_eq in Hq. assumption.
    - exists [], large. split; [|split].
      + rewrite app_nil_r.
        destruct (Z_lt_le_dec offset n) as [Hl|Hg]; [exfalso; apply (ls_total _ _ Hlk offset); [lia|assumption]|].
        replace (total + (n - offset)) with total by lia. reflexivity.
      + simpl. destruct (Z_lt_le_dec offset n) as [Hl|Hg]; [exfalso; apply (ls_total _ _ Hlk offset); [lia|assumption]|lia].
      + intros ->. split; [reflexivity|constructor].
  Qed.

  (* one chunk: the bytes that land in the destination are the true bytes of the chunk *)
  Lemma pt_chunk_ok : forall c ch, Hon c -> 0 <= c_off ch -> 0 < c_size ch -> c_off ch + c_size ch <= n ->
    exists c', pt_chunk id under c ch = Some (slice (c_off ch) (c_size ch) data, c') /\ Hon c'.
  Proof.
    intros c ch Hc H0 Hs He. unfold pt_chunk.
    destruct (c (id, c_off ch, c_size ch)) as [v|] eqn:Ec.
    - pose proof (Hon_get _ _ _ _ Hc Ec) as Hv. subst v.
      assert (Hl : zlen (slice (c_off ch) (c_size ch) data) = c_size ch) by (apply slice_length; try fold n; lia).
      assert (Hs0 : slice 0 (c_size ch) (slice (c_off ch) (c_size ch) data) = slice (c_off ch) (c_size ch) data).
      { rewrite <- Hl at 1. apply slice_all. }
      rewrite Hs0, Hl, Z.eqb_refl. exists c. split; [reflexivity|assumption].
    - apply Hunder; try assumption; lia.
  Qed.

  (* the sequential merge writes the rest of the file *)
  Lemma pt_seq_ok : forall chs fuel c a acc, chain lookup a chs n -> 0 <= a -> (length chs < fuel)%nat -> Hon c ->
    exists c', pt_seq id lookup under fuel c a acc = (ROk (acc ++ slice a (n - a) data), c') /\ Hon c'.
  Proof.
    induction chs as [|ch t IH]; intros fuel c a acc Hch Ha Hf Hc; (destruct fuel as [|fu]; [simpl in Hf; lia|]); cbn [pt_seq].
    - simpl in Hch. subst a. rewrite (ls_eof _ _ Hlk n ltac:(lia)).
      exists c. split; [|assumption]. rewrite slice_nonpos by lia. rewrite app_nil_r. reflexivity.
    - simpl in Hch. destruct Hch as (Hco & Hs & Hl & Hrest). rewrite Hl.
      destruct (ls_inside _ _ Hlk a ch Ha Hl) as (H0 & Hin & Hend).
      replace (c_size ch <? 0) with false by lia.
      destruct (pt_chunk_ok c ch Hc H0 Hs Hend) as (c1 & Hp & Hc1). rewrite Hp.
      assert (Hlen : zlen (slice (c_off ch) (c_size ch) data) = c_size ch) by (apply slice_length; try fold n; lia).
      rewrite Hlen, Z.eqb_refl. rewrite Hco.
      destruct (IH fu c1 (a + c_size ch) (acc ++ slice a (c_size ch) data) Hrest ltac:(lia) ltac:(simpl in Hf; lia) Hc1) as (c' & Heq & Hc').
      exists c'. split; [|assumption]. rewrite Heq. rewrite <- app_assoc.
      pose proof (tiles_end_le _ _ _ (chain_tiles _ _ _ _ Hrest)) as Hle.
      rewrite slice_app by lia.
      rewrite (slice_eq_len data a (c_size ch + (n - (a + c_size ch))) (n - a)) by lia. reflexivity.
  Qed.

  (* ---- the batched merge ---- *)
  Variable mbs : Z.
  Hypothesis Hmbs : 0 < mbs.

  (* the picks of one batch [bs,be): consecutive chunks from a to be, with their positions in the batch buffer *)
  Fixpoint pchain (a : Z) (ps : list (chunk * Z)) (bs be : Z) : Prop :=
    match ps with
    | [] => a = be
    | (ch, pos) :: t => c_off ch = a /\ 0 < c_size ch /\ pos = a - bs /\ c_off ch + c_size ch <= be
                        /\ pchain (a + c_size ch) t bs be
    end.

  Lemma pick_ok : forall l a b pos be,
    tiles a l n -> Forall (fits mbs) l -> 0 <= b -> b * mbs < n -> be = Z.min ((b + 1) * mbs) n ->
    0 <= a <= be -> pos = Z.max a (b * mbs) - b * mbs ->
    pchain (Z.max a (b * mbs)) (pick l (b * mbs) be pos) (b * mbs) be.
  Proof.
    induction l as [|ch t IH]; intros a b pos be Ht Hf Hb Hbs Hbe Ha Hpos.
    - simpl in *. subst a. lia.
    - simpl in Ht. destruct Ht as (Hco & Hcs & Ht). inversion Hf as [|? ? (Hsz & Hq) Hft]; subst.
      pose proof (tiles_end_le _ _ _ Ht) as Hen.
      set (bs := b * mbs) in *.
      rewrite !Z.quot_div_nonneg in Hq by lia.
      cbn [pick].
      destruct (c_off ch + c_size ch <=? bs) eqn:E1.
      + replace (Z.max (c_off ch) bs) with (Z.max (c_off ch + c_size ch) bs) by lia.
        apply IH; try assumption; try lia.
      + destruct (c_off ch >=? Z.min ((b + 1) * mbs) n) eqn:E2.
        * simpl. lia.
        * (* the chunk neither ends before the batch nor starts after it: it lies inside, because it fits *)
          assert (Hlo : bs <= c_off ch).
          { destruct (Z_lt_le_dec (c_off ch) bs) as [Hlt|]; [|assumption]. exfalso.
            assert (c_off ch / mbs < b) by (apply Z.div_lt_upper_bound; lia).
            assert (b <= (c_off ch + c_size ch - 1) / mbs) by (apply Z.div_le_lower_bound; lia). lia. }
          assert (Hhi : c_off ch + c_size ch <= Z.min ((b + 1) * mbs) n).
          { assert (c_off ch / mbs < b + 1) by (apply Z.div_lt_upper_bound; lia).
            assert (b <= c_off ch / mbs) by (apply Z.div_le_lower_bound; lia).
            assert (Hqb : (c_off ch + c_size ch - 1) / mbs = b) by lia.
            pose proof (Z.mul_succ_div_gt (c_off ch + c_size ch - 1) mbs Hmbs) as Hgt.
            rewrite Hqb in Hgt. lia. }
          replace (Z.max (c_off ch) bs) with (c_off ch) by lia.
          simpl. repeat split; try lia.
          replace (c_off ch + c_size ch) with (Z.max (c_off ch + c_size ch) bs) at 1 by lia.
          apply IH; try assumption; try lia.
  Qed.

  Lemma skipn_repeat : forall {A} (x : A) k m, skipn m (repeat x k) = repeat x (k - m).
  Proof.
    intros A x k. induction k as [|k IH]; intros m; simpl.
    - destruct m; reflexivity.
    - destruct m; simpl; [reflexivity|apply IH].
  Qed.

  Lemma overlay_prefix : forall (x d : bytes) k pos, pos = zlen x -> (length d <= k)%nat ->
    overlay (x ++ repeat 0%N k) pos d = (x ++ d) ++ repeat 0%N (k - length d).
  Proof.
    intros x d k pos -> Hk. unfold overlay, zlen. rewrite Nat2Z.id.
    rewrite firstn_app, Nat.sub_diag, firstn_all. simpl. rewrite app_nil_r.
    rewrite skipn_app. rewrite skipn_all2 by lia. simpl.
    replace (length x + length d - length x)%nat with (length d) by lia.
    rewrite skipn_repeat. rewrite <- app_assoc. reflexivity.
  Qed.

  (* filling the buffer of one batch *)
  Lemma pt_fill_ok : forall ps a bs be c infos,
    pchain a ps bs be -> 0 <= bs <= a -> be <= n -> Hon c ->
    exists c' infos',
      pt_fill id under ps c (slice bs (a - bs) data ++ repeat 0%N (Z.to_nat (be - a))) infos
      = (ROk [], c', slice bs (be - bs) data ++ repeat 0%N 0, infos ++ infos')
      /\ Hon c' /\ holes_loop infos' (a - bs) = Some (be - bs)
      /\ (infos' = [] \/ exists s t, infos' = (a - bs, s) :: t).
  Proof.
    induction ps as [|[ch pos] t IH]; intros a bs be c infos Hp Ha Hbe Hc.
    - simpl in Hp. subst a. exists c, []. cbn [pt_fill]. replace (Z.to_nat (be - be)) with 0%nat by lia.
      rewrite (app_nil_r infos).
      split; [reflexivity|]. split; [assumption|]. split; [reflexivity|]. left; reflexivity.
    - simpl in Hp. destruct Hp as (Hco & Hcs & Hpos & Hend & Hrest).
      cbn [pt_fill].
      assert (Hxl : zlen (slice bs (a - bs) data) = a - bs) by (apply slice_length; try fold n; lia).
      assert (Hbuf : zlen (slice bs (a - bs) data ++ repeat 0%N (Z.to_nat (be - a))) = be - bs).
      { unfold zlen in *. rewrite app_length, repeat_length. lia. }
      rewrite Hbuf.
      replace ((pos <? 0) || (c_size ch <? 0) || (pos + c_size ch >? be - bs)) with false by lia.
      destruct (pt_chunk_ok c ch Hc ltac:(lia) Hcs ltac:(lia)) as (c1 & Hpc & Hc1). rewrite Hpc.
      assert (Hdl : zlen (slice (c_off ch) (c_size ch) data) = c_size ch) by (apply slice_length; try fold n; lia).
      rewrite Hdl. rewrite Hpos.
      rewrite (overlay_prefix _ _ _ (a - bs)) by (try (symmetry; exact Hxl); unfold zlen in Hdl; lia).
      rewrite Hco.
      assert (Hcat : slice bs (a - bs) data ++ slice a (c_size ch) data = slice bs (a + c_size ch - bs) data).
      { replace (slice a (c_size ch) data) with (slice (bs + (a - bs)) (c_size ch) data) by (f_equal; lia).
        rewrite slice_app by lia. f_equal. lia. }
      rewrite Hcat.
      replace (Z.to_nat (be - a) - length (slice a (c_size ch) data))%nat with (Z.to_nat (be - (a + c_size ch)))
        by (rewrite Hco in Hdl; unfold zlen in Hdl; lia).
      destruct (IH (a + c_size ch) bs be c1 (infos ++ [(a - bs, c_size ch)]) Hrest ltac:(lia) Hbe Hc1)
        as (c' & infos' & Heq & Hc' & Hh & _).
      exists c', ((a - bs, c_size ch) :: infos'). rewrite Heq. rewrite <- app_assoc. simpl.
      repeat split; try assumption.
      + replace (a - bs <? a - bs) with false by lia. replace (a - bs >? a - bs) with false by lia.
        replace (a - bs + c_size ch) with (a + c_size ch - bs) by lia. assumption.
      + right. eexists. eexists. reflexivity.
  Qed.

  Variable chs : list chunk.
  Hypothesis Hchs : tiles 0 chs n.
  Hypothesis Hfits : Forall (fits mbs) chs.
  Variable workers : Z.
  Hypothesis Hworkers : 0 < workers.

  Lemma pt_batches_ok : forall nb b c acc,
    0 <= b -> Z.of_nat nb + b = (n + mbs - 1) / mbs -> acc = slice 0 (Z.min (b * mbs) n) data -> Hon c ->
    exists c', pt_batches id under nb b chs n mbs workers c acc = (ROk data, c') /\ Hon c'.
  Proof.
    pose proof (Z.mul_div_le (n + mbs - 1) mbs Hmbs) as Hdiv1.
    pose proof (Z.mul_succ_div_gt (n + mbs - 1) mbs Hmbs) as Hdiv2.
    pose proof (zlen_nonneg data) as Hn0. fold n in Hn0.
    induction nb as [|nb IH]; intros b c acc Hb Hnb Hacc Hc.
    - simpl. exists c. split; [|assumption]. subst acc.
      assert (n <= b * mbs) by (simpl in Hnb; subst b; lia).
      replace (Z.min (b * mbs) n) with n by lia. unfold n. rewrite slice_all. reflexivity.
    - cbn [pt_batches].
      assert (Hbs : b * mbs < n).
      { assert (b + 1 <= (n + mbs - 1) / mbs) by lia.
        assert ((b + 1) * mbs <= mbs * ((n + mbs - 1) / mbs)) by (rewrite (Z.mul_comm mbs); apply Z.mul_le_mono_nonneg_r; lia). lia. }
      set (bs := b * mbs) in *. set (be := Z.min ((b + 1) * mbs) n).
      assert (Hbebs : bs < be) by (unfold be, bs; lia).
      replace (be - bs <? 0) with false by lia.
      replace (workers <=? 0) with false by lia.
      pose proof (pick_ok chs 0 b 0 be Hchs Hfits Hb Hbs eq_refl ltac:(lia) ltac:(fold bs; lia)) as Hpk.
      fold bs in Hpk. replace (Z.max 0 bs) with bs in Hpk by lia.
      destruct (pt_fill_ok _ bs bs be c [] Hpk ltac:(lia) ltac:(unfold be; lia) Hc) as (c1 & infos & Hfill & Hc1 & Hh & Hhd).
      replace (bs - bs) with 0 in * by lia. rewrite slice_nonpos in Hfill by lia. simpl in Hfill.
      rewrite Hfill. rewrite app_nil_r.
      assert (Hck : check_holes infos (be - bs) = true).
      { unfold check_holes. destruct Hhd as [->|(s & t & ->)]; [reflexivity|].
        rewrite Hh. apply Z.eqb_refl. }
      simpl app. rewrite Hck.
      apply IH; try assumption; try lia.
      subst acc. replace (Z.min bs n) with bs by lia.
      rewrite slice_app by lia. replace (0 + bs) with bs by lia.
      apply slice_eq_len. replace (Z.min ((b + 1) * mbs) n) with be by reflexivity. lia.
  Qed.
End PassthroughProofs.

Lemma tiles_length : forall l a n, tiles a l n -> Z.of_nat (length l) <= n - a.
Proof.
  induction l as [|ch t IH]; intros a n H; simpl in *; [lia|].
  destruct H as (_ & Hs & Ht). apply IH in Ht. lia.
Qed.

(* passthrough_exact, generic form *)
Section PassthroughTop.
  Variable id : nat.
  Variable lookup : Z -> option chunk.
  Variable under : cache -> chunk -> option (bytes * cache).
  Variable data : bytes.
  Variable Hon : cache -> Prop.
  Hypothesis Hlk : LookupSpec lookup (zlen data).
  Hypothesis Hdj : LookupDisjoint lookup.
  Hypothesis Hon_get : forall c o s v, Hon c -> c (id, o, s) = Some v -> v = slice o s data.
  Hypothesis Hon_add : forall c o s, Hon c -> Hon (cadd c (id, o, s) (slice o s data)).
  Hypothesis Hunder : forall c ch, Hon c -> 0 <= c_off ch -> 0 <= c_size ch -> c_off ch + c_size ch <= zlen data ->
    exists c', under c ch = Some (slice (c_off ch) (c_size ch) data, c') /\ Hon c'.

  Lemma pt_fd_exact : forall fuel c mbs workers, zlen data < Z.of_nat fuel -> Hon c ->
    exists c', pt_fd id lookup under fuel c mbs workers = (ROk data, c') /\ Hon c'
               /\ c' (id, 0, zlen data) = Some data.
  Proof.
    intros fuel c mbs workers Hfuel Hc. unfold pt_fd.
    pose proof (zlen_nonneg data) as Hn0.
    destruct (pt_enum_ok id lookup under data Hon Hlk Hdj Hon_get Hon_add Hunder fuel mbs 0 0 false [] ltac:(lia) ltac:(lia) (or_introl eq_refl))
      as (chs & lg & Heq & Hch & Hfit).
    rewrite Heq. simpl app. replace (0 + (zlen data - 0)) with (zlen data) by lia.
    assert (Hall : slice 0 (zlen data) data = data) by apply slice_all.
    destruct (c (id, 0, zlen data)) as [v|] eqn:Ec.
    - pose proof (Hon_get _ _ _ _ Hc Ec) as Hv. rewrite Hall in Hv. subst v.
      exists c. split; [reflexivity|]. split; assumption.
    - assert (Hdone : forall c1, Hon c1 ->
                exists c', (ROk data, cadd c1 (id, 0, zlen data) data) = (ROk data, c') /\ Hon c' /\ c' (id, 0, zlen data) = Some data).
      { intros c1 Hc1. eexists. split; [reflexivity|]. split.
        - rewrite <- Hall at 2. apply Hon_add. assumption.
        - unfold cadd. simpl. rewrite Nat.eqb_refl, !Z.eqb_refl. reflexivity. }
      destruct (lg || (workers <=? 0) || (mbs <=? 0)) eqn:Epath.
      + (* sequential merge *)
        destruct (pt_seq_ok id lookup under data Hon Hlk Hon_get Hon_add Hunder chs fuel c 0 [] Hch ltac:(lia)) as (c1 & Hs & Hc1).
        * pose proof (tiles_length _ _ _ (chain_tiles _ _ _ _ Hch)). lia.
        * assumption.
        * rewrite Hs. simpl app. replace (zlen data - 0) with (zlen data) by lia. rewrite Hall.
          apply Hdone. assumption.
      + (* batched merge: every chunk fits a batch, there is a buffer and a worker *)
        apply orb_false_iff in Epath. destruct Epath as (Epath & Em). apply orb_false_iff in Epath. destruct Epath as (Elg & Ew).
        destruct (Hfit Elg) as (_ & Hfits).
        assert (Hm : 0 < mbs) by lia. assert (Hw : 0 < workers) by lia.
        rewrite Z.quot_div_nonneg by lia.
        assert (Hq : 0 <= (zlen data + mbs - 1) / mbs) by (apply Z.div_pos; lia).
        destruct (pt_batches_ok id under data Hon Hon_get Hon_add Hunder mbs Hm chs (chain_tiles _ _ _ _ Hch) Hfits workers Hw
                    (Z.to_nat ((zlen data + mbs - 1) / mbs)) 0 c [] ltac:(lia) ltac:(lia)) as (c1 & Hs & Hc1).
        * simpl. rewrite slice_nonpos by lia. reflexivity.
        * assumption.
        * rewrite Hs. apply Hdone. assumption.
  Qed.
End PassthroughTop.

(* ---------- layers and histories ---------- *)
Definition Honest (L : layer) (c : cache) : Prop := forall k v, c k = Some v -> v = true_bytes L k.

Definition FileOK (f : file) : Prop :=
  if f_db f then tiles 0 (t_chunks (f_table f)) (zlen (f_data f)) else TableOK (f_table f) (zlen (f_data f)).

Lemma lookup_of_spec : forall f, FileOK f -> LookupSpec (lookup_of f) (zlen (f_data f)).
Proof.
  intros f H. unfold FileOK, lookup_of in *. destruct (f_db f).
  - unfold chunk_for_offset_db. apply search_lookup_lookupspec; [apply zlen_nonneg|assumption].
  - apply chunk_for_offset_spec. assumption.
Qed.
Definition LayerOK (L : layer) : Prop := Forall FileOK L.

Lemma file_at_ok : forall L i, LayerOK L -> FileOK (file_at L i).
Proof.
  intros L i H. unfold file_at.
  destruct (nth_in_or_default i L (mkFile false [] (mkTable (mkChunk 0 0) []) [])) as [Hin|Hd].
  - unfold LayerOK in H. rewrite Forall_forall in H. apply H. assumption.
  - rewrite Hd. unfold FileOK, TableOK, zlen. simpl. split; [lia|]. left. split; [lia|reflexivity].
Qed.

Lemma key_eqb_eq : forall a b, key_eqb a b = true <-> a = b.
Proof.
  intros [[i o] s] [[i' o'] s']. unfold key_eqb. split.
  - intros H. apply andb_true_iff in H. destruct H as (H & H3). apply andb_true_iff in H. destruct H as (H1 & H2).
    apply Nat.eqb_eq in H1. apply Z.eqb_eq in H2. apply Z.eqb_eq in H3. subst. reflexivity.
  - intros H. inversion H; subst. rewrite Nat.eqb_refl, !Z.eqb_refl. reflexivity.
Qed.

Lemma honest_cadd : forall L c k, Honest L c -> Honest L (cadd c k (true_bytes L k)).
Proof.
  intros L c k H k' v Hk. unfold cadd in Hk. destruct (key_eqb k k') eqn:E.
  - apply key_eqb_eq in E. subst k'. congruence.
  - apply H. assumption.
Qed.

Lemma honest_cdel : forall L c k, Honest L c -> Honest L (cdel c k).
Proof.
  intros L c k H k' v Hk. unfold cdel in Hk. destruct (key_eqb k k'); [discriminate|]. apply H. assumption.
Qed.

Lemma honest_empty : forall L, Honest L cempty.
Proof. intros L k v H. discriminate. Qed.

Lemma honest_add_honest : forall L ks c, Honest L c -> Honest L (add_honest L c ks).
Proof.
  intros L ks. induction ks as [|k t IH]; intros c H; simpl; [assumption|].
  apply IH. destruct (c k); [assumption|]. apply honest_cadd. assumption.
Qed.

Lemma honest_fold_cdel : forall L ks c, Honest L c -> Honest L (fold_left cdel ks c).
Proof.
  intros L ks. induction ks as [|k t IH]; intros c H; simpl; [assumption|].
  apply IH. apply honest_cdel. assumption.
Qed.

Lemma honest_on_honest : forall L ks, Honest L (honest_on L ks).
Proof.
  intros L ks k v H. unfold honest_on in H. destruct (existsb (key_eqb k) ks); [congruence|discriminate].
Qed.

(* one read of one file of a well-formed layer, for every honest cache *)
(* one read of one file of a well-formed layer, for every honest cache and every honest interference between the
   cache operations of the call (concurrent readers, prefetch, background fetch, eviction) *)
Lemma read_file_env_exact : forall L i env c off len,
  LayerOK L -> Honest L c -> (forall k b c0, Honest L c0 -> Honest L (env k b c0)) -> 0 <= off -> 0 <= len ->
  exists c' tr, read_file_env L i env c off len
                = (ROk (slice off (Z.min len (zlen (f_data (file_at L i)) - off)) (f_data (file_at L i))), c', tr)
                /\ Honest L c'.
Proof.
  intros L i env c off len HL Hc He Ho Hl. unfold read_file_env.
  apply (read_at_exact i _ _ env (f_data (file_at L i)) (Honest L)); try assumption.
  - apply lookup_of_spec. apply (file_at_ok L i HL).
  - intros c0 o s v H0 Hg. apply (H0 _ _ Hg).
  - intros c0 o s H0. apply (honest_cadd L c0 (i, o, s)). assumption.
  - intros c0 ch H0 _ _ _. eexists. split; [reflexivity|]. apply honest_add_honest. assumption.
Qed.

Lemma read_file_exact : forall L i c off len,
  LayerOK L -> Honest L c -> 0 <= off -> 0 <= len ->
  exists c' tr, read_file L i c off len
                = (ROk (slice off (Z.min len (zlen (f_data (file_at L i)) - off)) (f_data (file_at L i))), c', tr)
                /\ Honest L c'.
Proof.
  intros L i c off len HL Hc Ho Hl. unfold read_file.
  apply read_file_env_exact; try assumption. intros _ _ c0 H0. exact H0.
Qed.

Lemma lookup_of_disjoint : forall f, FileOK f -> LookupDisjoint (lookup_of f).
Proof.
  intros f H. unfold FileOK, lookup_of in *. destruct (f_db f).
  - unfold chunk_for_offset_db. apply (search_lookup_disjoint _ _ H).
  - intros x y ch ch' Hx Hy H1 H2. apply (chunk_for_offset_unique _ _ x y ch ch' H Hx Hy H1 H2).
Qed.


(* passthrough_exact for a layer: the file GetPassthroughFd hands out holds exactly the file content, whatever the merge
   buffer size and worker count, for every honest cache; the merged entry is then cached and honest *)
Lemma pt_file_exact : forall L i c mbs workers, LayerOK L -> Honest L c ->
  exists c', pt_file L i c mbs workers = (ROk (f_data (file_at L i)), c') /\ Honest L c'
             /\ c' (i, 0, zlen (f_data (file_at L i))) = Some (f_data (file_at L i)).
Proof.
  intros L i c mbs workers HL Hc. unfold pt_file.
  apply (pt_fd_exact i _ _ (f_data (file_at L i)) (Honest L)); try assumption.
  - apply lookup_of_spec. apply (file_at_ok L i HL).
  - apply lookup_of_disjoint. apply (file_at_ok L i HL).
  - intros c0 o s v H0 Hg. apply (H0 _ _ Hg).
  - intros c0 o s H0. apply (honest_cadd L c0 (i, o, s)). assumption.
  - intros c0 ch H0 _ _ _. eexists. split; [reflexivity|]. apply honest_add_honest. assumption.
  - lia.
Qed.

(* the ops an adversary may use: any read with a non-negative offset and length; any interference that leaves
   the cache honest *)
Definition op_ok (L : layer) (o : op) : Prop :=
  match o with
  | Read _ off len => 0 <= off /\ 0 <= len
  | ReadI _ off len env => 0 <= off /\ 0 <= len /\ (forall k b c0, Honest L c0 -> Honest L (env k b c0))
  | Env c => Honest L c
  | _ => True
  end.

Definition expected_out (L : layer) (o : op) : option rres :=
  match o with
  | Read i off len | ReadI i off len _ => let d := f_data (file_at L i) in Some (ROk (slice off (Z.min len (zlen d - off)) d))
  | Pt i _ _ => Some (ROk (f_data (file_at L i)))
  | _ => None
  end.

Lemma step_exact : forall L c o, LayerOK L -> Honest L c -> op_ok L o ->
  Honest L (fst (step L c o)) /\ option_map fst (snd (step L c o)) = expected_out L o.
Proof.
  intros L c o HL Hc Ho. destruct o as [i off len|i off len env|i mbs workers| |ks|c']; simpl in *.
  - destruct Ho as (Ho & Hl).
    destruct (read_file_exact L i c off len HL Hc Ho Hl) as (c' & tr & Heq & Hc').
    rewrite Heq. simpl. split; [assumption|reflexivity].
  - destruct Ho as (Ho & Hl & He).
    destruct (read_file_env_exact L i env c off len HL Hc He Ho Hl) as (c' & tr & Heq & Hc').
    rewrite Heq. simpl. split; [assumption|reflexivity].
  - destruct (pt_file_exact L i c mbs workers HL Hc) as (c' & Heq & Hc' & _).
    rewrite Heq. simpl. split; [assumption|reflexivity].
  - split; [|reflexivity]. apply honest_add_honest. assumption.
  - split; [|reflexivity]. apply honest_fold_cdel. assumption.
  - split; [assumption|reflexivity].
Qed.

Lemma run_exact : forall L os c, LayerOK L -> Honest L c -> Forall (op_ok L) os ->
  Honest L (fst (run L c os)) /\ map (option_map fst) (snd (run L c os)) = map (expected_out L) os.
Proof.
  intros L os. induction os as [|o t IH]; intros c HL Hc Hos; simpl.
  - split; [assumption|reflexivity].
  - inversion Hos as [|? ? Ho Ht]; subst.
    destruct (step_exact L c o HL Hc Ho) as (Hc1 & Hout).
    destruct (step L c o) as (c1, x) eqn:Es. simpl in Hc1, Hout.
    destruct (IH c1 HL Hc1 Ht) as (Hc2 & Houts).
    destruct (run L c1 t) as (c2, xs) eqn:Er. simpl in *.
    split; [assumption|]. rewrite Hout, Houts. reflexivity.
Qed.

Lemma run_exec : forall L os c, fst (run L c os) = exec L c os.
Proof.
  intros L os. induction os as [|o t IH]; intros c; simpl; [reflexivity|].
  unfold exec in *. simpl. destruct (step L c o) as (c1, x) eqn:Es. simpl.
  specialize (IH c1). destruct (run L c1 t) as (c2, xs). simpl in *. assumption.
Qed.

(* honesty is an invariant of every history (the fold_left form) *)
Lemma exec_honest : forall L os c, LayerOK L -> Honest L c -> Forall (op_ok L) os -> Honest L (exec L c os).
Proof. intros L os c HL Hc Hos. rewrite <- run_exec. apply (run_exact L os c HL Hc Hos). Qed.

(* a read after any history *)
Lemma read_after_history : forall L os c i off len,
  LayerOK L -> Honest L c -> Forall (op_ok L) os -> 0 <= off -> 0 <= len ->
  exists c' tr, read_file L i (exec L c os) off len
                = (ROk (slice off (Z.min len (zlen (f_data (file_at L i)) - off)) (f_data (file_at L i))), c', tr)
                /\ Honest L c'.
Proof.
  intros L os c i off len HL Hc Hos Ho Hl.
  apply read_file_exact; try assumption. apply exec_honest; assumption.
Qed.

(* the layer the writer produces, as either store indexes it: every file chunked with chunk size cs *)
Definition writer_file (db : bool) (cs : Z) (f : bytes * list (Z * list key)) : file :=
  mkFile db (fst f) (if db then mk_table_db (zlen (fst f)) cs else mk_table (zlen (fst f)) cs) (snd f).

Lemma layer_of_writer_ok : forall db cs (fs : list (bytes * list (Z * list key))), 0 < cs ->
  LayerOK (map (writer_file db cs) fs).
Proof.
  intros db cs fs Hcs. unfold LayerOK. rewrite Forall_forall. intros f Hin.
  apply in_map_iff in Hin. destruct Hin as (x & Hx & _). subst f.
  unfold FileOK, writer_file. destruct db; simpl.
  - apply db_chunks_tiles; [apply zlen_nonneg|assumption].
  - apply mk_table_ok; [apply zlen_nonneg|assumption].
Qed.

(* short at EOF, never wrong: consequences of the exact result *)
Lemma slice_prefix_of_rest : forall {A} (l : list A) off len, 0 <= off ->
  exists rest, skipn (Z.to_nat off) l = slice off len l ++ rest.
Proof.
  intros A l off len Ho. unfold slice. exists (skipn (Z.to_nat len) (skipn (Z.to_nat off) l)).
  symmetry. apply firstn_skipn.
Qed.

Lemma slice_min_length : forall {A} (l : list A) off len, 0 <= off -> 0 <= len ->
  zlen (slice off (Z.min len (zlen l - off)) l) = Z.max 0 (Z.min len (zlen l - off)).
Proof.
  intros A l off len Ho Hl. destruct (Z_le_gt_dec (zlen l - off) 0) as [H|H].
  - rewrite slice_nonpos by lia. unfold zlen at 1. simpl. lia.
  - rewrite slice_length; try lia.
Qed.


(* a repeat of GetPassthroughFd (any parameters) after the first call, with anything honest happening in between,
   hands out the same bytes *)
Lemma pt_file_repeat : forall L i c mbs workers os mbs' workers',
  LayerOK L -> Honest L c -> Forall (op_ok L) os ->
  fst (pt_file L i c mbs workers) = ROk (f_data (file_at L i))
  /\ fst (pt_file L i (exec L (snd (pt_file L i c mbs workers)) os) mbs' workers') = ROk (f_data (file_at L i)).
Proof.
  intros L i c mbs workers os mbs' workers' HL Hc Hos.
  destruct (pt_file_exact L i c mbs workers HL Hc) as (c1 & Heq & Hc1 & _). rewrite Heq. simpl.
  split; [reflexivity|].
  destruct (pt_file_exact L i (exec L c1 os) mbs' workers' HL (exec_honest L os c1 HL Hc1 Hos)) as (c2 & Heq2 & _).
  rewrite Heq2. reflexivity.
Qed.
