(* Proofs about Model/Creds.v: the keychain's table is exactly "the auth config of the most recent accepted
   pull request per reference, unless removed since"; ParseAuth offers a credential only for a matching
   server address; multiCredsFuncs returns the first decisive answer. *)
From Coq Require Import List NArith Bool Arith Lia.
From SV Require Import Model.Creds.
Import ListNotations.

(* ---------- association list ---------- *)
Lemma find_del l r r' : cfg_find (cfg_del l r) r' = if Nat.eqb r r' then None else cfg_find l r'.
Proof.
  induction l as [|[k a] l IH]; simpl.
  - destruct (Nat.eqb r r'); reflexivity.
  - destruct (Nat.eqb_spec k r) as [->|Hk].
    + rewrite IH. destruct (Nat.eqb_spec r r') as [->|Hr]; [reflexivity|].
      simpl. destruct (Nat.eqb_spec r r'); [contradiction|reflexivity].
    + simpl. rewrite IH. destruct (Nat.eqb_spec k r') as [->|Hk'].
      * destruct (Nat.eqb_spec r r'); [subst; contradiction|reflexivity].
      * reflexivity.
Qed.

Lemma find_set l r a r' : cfg_find (cfg_set l r a) r' = if Nat.eqb r r' then Some a else cfg_find l r'.
Proof.
  unfold cfg_set. simpl. destruct (Nat.eqb_spec r r') as [->|H]; [reflexivity|].
  rewrite find_del. destruct (Nat.eqb_spec r r'); [contradiction|reflexivity].
Qed.

(* ---------- exec ---------- *)
Lemma exec_app s a b : exec s (a ++ b) = exec (exec s a) b.
Proof. unfold exec. apply fold_left_app. Qed.

Lemma exec_snoc s a o : exec s (a ++ [o]) = fst (step (exec s a) o).
Proof. rewrite exec_app. reflexivity. Qed.

Lemma exec_cons s o b : exec s (o :: b) = exec (fst (step s o)) b.
Proof. reflexivity. Qed.

Lemma run_exec os : forall s, fst (run s os) = exec s os.
Proof.
  induction os as [|o t IH]; intros s; [reflexivity|].
  rewrite exec_cons. rewrite <- IH. cbn [run].
  destruct (step s o) as [s1 x]. cbn [fst]. destruct (run s1 t) as [s2 xs]. reflexivity.
Qed.

(* effect of one op on the table entry of reference r *)
Lemma step_find s o r :
  cfg_find (cfg (fst (step s o))) r =
  match o with
  | Pull (Some r') a _ => if connected s && Nat.eqb r' r then Some a else cfg_find (cfg s) r
  | Remove (Some r') _ => if connected s && Nat.eqb r' r then None else cfg_find (cfg s) r
  | _ => cfg_find (cfg s) r
  end.
Proof.
  destruct o as [|[r'|] a ok|[r'|] ok| | | |]; simpl; try reflexivity;
    try (destruct (connected s); reflexivity).
  - destruct (connected s); simpl; [|reflexivity]. apply find_set.
  - destruct (connected s); simpl; [|reflexivity]. apply find_del.
Qed.

Lemma step_connected s o :
  connected (fst (step s o)) = connected s || match o with Connect => true | _ => false end.
Proof.
  destruct o as [|[r'|] a ok|[r'|] ok| | | |]; simpl; destruct (connected s) eqn:E; simpl; try rewrite E; reflexivity.
Qed.

Lemma step_untouched s o r : touches r o = false -> cfg_find (cfg (fst (step s o))) r = cfg_find (cfg s) r.
Proof.
  intros H. rewrite step_find. destruct o as [|[r'|] a ok|[r'|] ok| | | |]; simpl in *; try reflexivity;
    rewrite H, andb_false_r; reflexivity.
Qed.

Lemma exec_untouched os : forall s r, (forall o, In o os -> touches r o = false) ->
  cfg_find (cfg (exec s os)) r = cfg_find (cfg s) r.
Proof.
  induction os as [|o t IH]; intros s r H; [reflexivity|].
  rewrite exec_cons, IH by (intros; apply H; right; assumption).
  apply step_untouched. apply H. left. reflexivity.
Qed.

Lemma exec_connected os : forall s, connected s = true -> connected (exec s os) = true.
Proof.
  induction os as [|o t IH]; intros s H; [exact H|].
  rewrite exec_cons. apply IH. rewrite step_connected, H. reflexivity.
Qed.

Lemma exec_connect os : forall s, In Connect os -> connected (exec s os) = true.
Proof.
  induction os as [|o t IH]; intros s H; [destruct H|].
  rewrite exec_cons. destruct H as [->|H].
  - apply exec_connected. reflexivity.
  - apply IH. exact H.
Qed.

Lemma accepted_connected c pre : c = true \/ In Connect pre -> connected (exec (init c) pre) = true.
Proof. intros [->|H]; [apply exec_connected; reflexivity|apply exec_connect; exact H]. Qed.

(* ---------- the table is the history ---------- *)
Definition hist_inv (c : bool) (os : list op) (s : st) : Prop :=
  (connected s = false -> cfg s = [])
  /\ (connected s = true -> c = true \/ In Connect os)
  /\ (forall r oa, cfg_find (cfg s) r = Some oa ->
        exists pre ok post, os = pre ++ Pull (Some r) oa ok :: post
                            /\ (forall o, In o post -> touches r o = false)
                            /\ (c = true \/ In Connect pre)).

Lemma hist_snoc_untouched c os o r oa :
  (exists pre ok post, os = pre ++ Pull (Some r) oa ok :: post
                       /\ (forall o, In o post -> touches r o = false) /\ (c = true \/ In Connect pre)) ->
  touches r o = false ->
  exists pre ok post, os ++ [o] = pre ++ Pull (Some r) oa ok :: post
                      /\ (forall o, In o post -> touches r o = false) /\ (c = true \/ In Connect pre).
Proof.
  intros (pre & ok & post & E & Hp & Ha) Ht. exists pre, ok, (post ++ [o]). split; [|split].
  - rewrite E, <- app_assoc. reflexivity.
  - intros o' Hin. apply in_app_or in Hin. destruct Hin as [Hin|[<-|[]]]; [apply Hp; exact Hin|exact Ht].
  - exact Ha.
Qed.

Lemma hist_inv_reach c os : hist_inv c os (exec (init c) os).
Proof.
  induction os as [|o os IH] using rev_ind.
  - unfold hist_inv; simpl. split; [reflexivity|]. split; [intros ->; left; reflexivity|]. intros r oa H. discriminate.
  - rewrite exec_snoc. set (s := exec (init c) os) in *. destruct IH as (I1 & I2 & I3).
    split; [|split].
    + rewrite step_connected. intros H. apply orb_false_iff in H. destruct H as [Hc Ho].
      specialize (I1 Hc). destruct o as [|[r'|] a ok|[r'|] ok| | | |]; simpl; try rewrite Hc; try exact I1; try discriminate.
    + rewrite step_connected. intros H. apply orb_true_iff in H. destruct H as [Hc|Ho].
      * destruct (I2 Hc) as [->|Hin]; [left; reflexivity|right; apply in_or_app; left; exact Hin].
      * destruct o; try discriminate. right. apply in_or_app. right. left. reflexivity.
    + intros r oa. rewrite step_find. intros H.
      assert (Hframe : cfg_find (cfg s) r = Some oa -> touches r o = false ->
                exists pre ok post, (os ++ [o]) = pre ++ Pull (Some r) oa ok :: post
                  /\ (forall o, In o post -> touches r o = false) /\ (c = true \/ In Connect pre)).
      { intros Hf Ht. apply hist_snoc_untouched; [apply I3; exact Hf|exact Ht]. }
      destruct (connected s) eqn:Hc.
      * destruct o as [|[r'|] a ok|[r'|] ok| | | |]; simpl in H; try (apply Hframe; [exact H|reflexivity]).
        -- destruct (Nat.eqb_spec r' r) as [->|Hn].
           ++ inversion H; subst. exists os, ok, []. split; [reflexivity|]. split; [intros o []|]. apply I2. reflexivity.
           ++ apply Hframe; [exact H|]. simpl. apply Nat.eqb_neq. exact Hn.
        -- destruct (Nat.eqb_spec r' r) as [->|Hn]; [discriminate|].
           apply Hframe; [exact H|]. simpl. apply Nat.eqb_neq. exact Hn.
      * (* nothing stored before the connection: the table is empty *)
        rewrite (I1 eq_refl) in H.
        destruct o as [|[r'|] a ok|[r'|] ok| | | |]; simpl in H; discriminate.
Qed.

(* the converse: what the table holds after a given history *)
Lemma table_after_pull c pre r oa ok post :
  c = true \/ In Connect pre -> (forall o, In o post -> touches r o = false) ->
  cfg_find (cfg (exec (init c) (pre ++ Pull (Some r) oa ok :: post))) r = Some oa.
Proof.
  intros Ha Hp. rewrite exec_app, exec_cons, exec_untouched by exact Hp.
  rewrite step_find, (accepted_connected c pre Ha), Nat.eqb_refl. reflexivity.
Qed.

Lemma table_after_remove c pre r ok post :
  c = true \/ In Connect pre -> (forall o, In o post -> touches r o = false) ->
  cfg_find (cfg (exec (init c) (pre ++ Remove (Some r) ok :: post))) r = None.
Proof.
  intros Ha Hp. rewrite exec_app, exec_cons, exec_untouched by exact Hp.
  rewrite step_find, (accepted_connected c pre Ha), Nat.eqb_refl. reflexivity.
Qed.

Lemma table_never_pulled c os r :
  (forall o, In o os -> touches r o = false) -> cfg_find (cfg (exec (init c) os)) r = None.
Proof. intros H. rewrite exec_untouched by exact H. reflexivity. Qed.

Lemma table_unconnected c os r :
  c = false -> ~ In Connect os -> cfg_find (cfg (exec (init c) os)) r = None.
Proof.
  intros Hc Hn. destruct (hist_inv_reach c os) as (I1 & I2 & _).
  destruct (connected (exec (init c) os)) eqn:E.
  - destruct (I2 eq_refl) as [->|H]; [discriminate|contradiction].
  - rewrite (I1 eq_refl). reflexivity.
Qed.

(* ---------- ParseAuth ---------- *)
Lemma str_eqb_eq a : forall b, str_eqb a b = true <-> a = b.
Proof.
  induction a as [|x a IH]; intros [|y b]; simpl; split; intros H; try reflexivity; try discriminate.
  - apply andb_true_iff in H. destruct H as [H1 H2]. apply N.eqb_eq in H1. apply IH in H2. subst. reflexivity.
  - inversion H; subst. rewrite N.eqb_refl. simpl. apply IH. reflexivity.
Qed.

Lemma nonempty_spec u s : cred_nonempty (COk u s) = true <-> (u <> [] \/ s <> []).
Proof.
  simpl. destruct u, s; simpl; split; intros H; try reflexivity; try discriminate;
    try (left; discriminate); try (right; discriminate).
  destruct H as [H|H]; contradiction.
Qed.

(* a non-empty answer of ParseAuth is the credential the config denotes, and the config names either no server
   address or one whose URL host is the host asked for *)
Lemma parse_auth_confined oa host u s :
  parse_auth oa host = COk u s -> (u <> [] \/ s <> []) ->
  exists a, oa = Some a /\ cred_of a = COk u s
            /\ (sa_is_empty (a_sa a) = true \/ (sa_is_empty (a_sa a) = false /\ url_host (a_sa a) = Some host)).
Proof.
  intros H Hne. destruct oa as [a|].
  - exists a. split; [reflexivity|]. unfold parse_auth in H.
    assert (Hemp : empty_cred = COk u s -> False).
    { intros E. inversion E; subst. destruct Hne as [N|N]; apply N; reflexivity. }
    destruct (sa_is_empty (a_sa a)) eqn:Ee.
    + split; [exact H|left; reflexivity].
    + destruct (url_host (a_sa a)) as [h|] eqn:Eu; [|discriminate].
      destruct (str_eqb host h) eqn:Eh.
      * apply str_eqb_eq in Eh. subst. split; [exact H|]. right. split; reflexivity.
      * exfalso. apply Hemp. exact H.
  - exfalso. simpl in H. inversion H; subst. destruct Hne as [N|N]; apply N; reflexivity.
Qed.

(* a named server address whose host differs from the host asked for: nothing is offered *)
Lemma parse_auth_mismatch a host h :
  sa_is_empty (a_sa a) = false -> url_host (a_sa a) = Some h -> h <> host -> parse_auth (Some a) host = empty_cred.
Proof.
  intros Hn Hu Hd. unfold parse_auth. rewrite Hn, Hu.
  destruct (str_eqb host h) eqn:Eh; [|reflexivity].
  apply str_eqb_eq in Eh. subst. contradiction.
Qed.

(* ---------- the keychain ---------- *)
Lemma creds_confined c os host r u s :
  credentials (exec (init c) os) host r = COk u s -> (u <> [] \/ s <> []) ->
  exists pre a ok post,
    os = pre ++ Pull (Some r) (Some a) ok :: post
    /\ (forall o, In o post -> touches r o = false)
    /\ (c = true \/ In Connect pre)
    /\ (sa_is_empty (a_sa a) = true \/ (sa_is_empty (a_sa a) = false /\ url_host (a_sa a) = Some (alias host)))
    /\ cred_of a = COk u s.
Proof.
  unfold credentials. intros H Hne.
  destruct (cfg_find (cfg (exec (init c) os)) r) as [oa|] eqn:Ef.
  - destruct (parse_auth_confined oa (alias host) u s H Hne) as (a & -> & Hc & Hsa).
    destruct (hist_inv_reach c os) as (_ & _ & I3).
    destruct (I3 r (Some a) Ef) as (pre & ok & post & E & Hp & Ha).
    exists pre, a, ok, post. repeat split; assumption.
  - exfalso. inversion H; subst. destruct Hne as [N|N]; apply N; reflexivity.
Qed.

Lemma creds_exact c pre r oa ok post host :
  c = true \/ In Connect pre -> (forall o, In o post -> touches r o = false) ->
  credentials (exec (init c) (pre ++ Pull (Some r) oa ok :: post)) host r = parse_auth oa (alias host).
Proof. intros Ha Hp. unfold credentials. rewrite table_after_pull by assumption. reflexivity. Qed.

Lemma creds_after_remove c pre r ok post host :
  c = true \/ In Connect pre -> (forall o, In o post -> touches r o = false) ->
  credentials (exec (init c) (pre ++ Remove (Some r) ok :: post)) host r = empty_cred.
Proof. intros Ha Hp. unfold credentials. rewrite table_after_remove by assumption. reflexivity. Qed.

Lemma creds_never_pulled c os r host :
  (forall o, In o os -> touches r o = false) -> credentials (exec (init c) os) host r = empty_cred.
Proof. intros H. unfold credentials. rewrite table_never_pulled by exact H. reflexivity. Qed.

Lemma creds_other_reference s o r host :
  touches r o = false -> credentials (fst (step s o)) host r = credentials s host r.
Proof. intros H. unfold credentials. rewrite step_untouched by exact H. reflexivity. Qed.

(* queries and the other CRI calls never change the state *)
Lemma query_pure s o :
  match o with Query _ _ | QueryMulti _ _ _ _ | Len | Other => fst (step s o) = s | _ => True end.
Proof. destruct o; simpl; try exact I; reflexivity. Qed.

(* ---------- multiCredsFuncs ---------- *)
Lemma multi_cons_ok u s t :
  multi (COk u s :: t) = if cred_nonempty (COk u s) then COk u s else multi t.
Proof. reflexivity. Qed.
Lemma calls_cons_ok u s t :
  multi_calls (COk u s :: t) = if cred_nonempty (COk u s) then 1 else S (multi_calls t).
Proof. reflexivity. Qed.

Lemma multi_skip pre rest : all_empty pre -> multi (pre ++ rest) = multi rest.
Proof.
  induction 1 as [|x l [Hx Hne] Hl IH]; [reflexivity|].
  destruct x as [u s|]; [|contradiction]. rewrite <- app_comm_cons, multi_cons_ok, Hx. exact IH.
Qed.

Lemma multi_calls_skip pre rest : all_empty pre -> multi_calls (pre ++ rest) = length pre + multi_calls rest.
Proof.
  induction 1 as [|x l [Hx Hne] Hl IH]; [reflexivity|].
  destruct x as [u s|]; [|contradiction]. rewrite <- app_comm_cons, calls_cons_ok, Hx, IH. reflexivity.
Qed.

Lemma multi_decisive fs :
  (exists pre x post, fs = pre ++ x :: post /\ all_empty pre /\ (x = CErr \/ cred_nonempty x = true)
                      /\ multi fs = x /\ multi_calls fs = S (length pre))
  \/ (all_empty fs /\ multi fs = empty_cred /\ multi_calls fs = length fs).
Proof.
  induction fs as [|x fs IH].
  - right. split; [constructor|]. split; reflexivity.
  - destruct x as [u s|].
    + destruct (cred_nonempty (COk u s)) eqn:E.
      * left. exists [], (COk u s), fs. split; [reflexivity|]. split; [constructor|]. split; [right; exact E|].
        rewrite multi_cons_ok, calls_cons_ok, E. split; reflexivity.
      * destruct IH as [(pre & y & post & -> & Hpre & Hy & Hm & Hc)|(Hall & Hm & Hc)].
        -- left. exists (COk u s :: pre), y, post. split; [reflexivity|].
           split; [constructor; [split; [exact E|discriminate]|exact Hpre]|]. split; [exact Hy|].
           rewrite multi_cons_ok, calls_cons_ok, E. split; [exact Hm|]. rewrite Hc. reflexivity.
        -- right. split; [constructor; [split; [exact E|discriminate]|exact Hall]|].
           rewrite multi_cons_ok, calls_cons_ok, E. split; [exact Hm|]. rewrite Hc. reflexivity.
    + left. exists [], CErr, fs. split; [reflexivity|]. split; [constructor|]. split; [left; reflexivity|].
      split; reflexivity.
Qed.

Lemma multi_first pre x post :
  all_empty pre -> (x = CErr \/ cred_nonempty x = true) -> multi (pre ++ x :: post) = x.
Proof.
  intros Hp Hx. rewrite multi_skip by exact Hp. destruct x as [u s|]; [|reflexivity].
  destruct Hx as [Hx|Hx]; [discriminate|]. rewrite multi_cons_ok, Hx. reflexivity.
Qed.
