(* Proofs about Model/Overlay.v (C07, stacking per directory). *)
From Coq Require Import List ZArith Bool String Lia.
From SV Require Import Model.Node Model.Overlay Proofs.Node.
Import ListNotations.
Local Open Scope Z_scope.

Lemma wh_attr_is_whiteout : forall i, is_whiteout_dev (wh_attr i) = true.
Proof. intros i. reflexivity. Qed.

Lemma opaque_xattrs_nonempty : forall m, opaque_xattrs m <> [].
Proof. intros []; discriminate. Qed.

(* the served opaque flag is the presence of the marker child (the directory's own xattrs aside) *)
Lemma served_opaque_marker : forall c self ch,
  (forall a, In a (opaque_xattrs (c_mode c)) -> assoc (a_xattrs (e_attr self)) a = None) ->
  served_opaque c self ch = is_opaque ch.
Proof.
  intros c self ch Hown. unfold served_opaque.
  assert (H : forall a, In a (opaque_xattrs (c_mode c)) ->
            (match xattr_value c self ch a with Some v => (v =? "y")%string | None => false end) = is_opaque ch).
  { intros a Ha. unfold xattr_value. rewrite (proj2 (existsb_str_in a _) Ha). simpl.
    destruct (is_opaque ch); [reflexivity|]. rewrite (Hown a Ha). reflexivity. }
  destruct (opaque_xattrs (c_mode c)) as [|a l] eqn:E; [exfalso; eapply opaque_xattrs_nonempty; eauto|].
  simpl. rewrite (H a (or_introl eq_refl)). destruct (is_opaque ch) eqn:O; [|reflexivity]. simpl.
  apply forallb_forall. intros x Hx. apply (H x (or_intror Hx)).
Qed.

Lemma image_name_spec : forall c n, image_name c n = true -> has_wh n = false /\ c_root c && is_landmark n = false.
Proof.
  unfold image_name. intros c n H. apply andb_true_iff in H. destruct H as [H1 H2].
  apply negb_true_iff in H1. apply negb_true_iff in H2. auto.
Qed.

Section Dir.
  Variables (c : cfg) (self : ent) (ch : children) (n : string).
  Hypothesis Himg : image_name c n = true.
  Hypothesis Hstate : ~ (c_root c = true /\ n = state_dir_name).
  (* metadata ids of the entries involved fit the inode space *)
  Hypothesis Hids : forall m e, (m = n \/ m = (wh_prefix ++ n)%string) -> find_child ch m = Some e -> ino_of (c_base c) (e_id e) <> None.
  (* the layer has no real 0/0 character device under this name (overlayfs itself would read it as a whiteout) *)
  Hypothesis Hdev : forall e i, find_child ch n = Some e -> is_whiteout_dev (entry_to_attr i (e_attr e)) = false.
  (* the directory entry does not itself carry an overlay opaque xattr *)
  Hypothesis Hown : forall a, In a (opaque_xattrs (c_mode c)) -> assoc (a_xattrs (e_attr self)) a = None.

  Lemma st_false : c_root c && (n =? state_dir_name)%string = false.
  Proof.
    destruct (c_root c) eqn:R; [|reflexivity]. simpl.
    destruct (String.eqb_spec n state_dir_name); [exfalso; apply Hstate; auto|reflexivity].
  Qed.

  Lemma overlay_is_oci : forall lower_has, overlay_origin c self ch lower_has n = oci_origin c ch lower_has n.
  Proof.
    intros lower_has. unfold overlay_origin, oci_origin. destruct (image_name_spec c n Himg) as [W L].
    rewrite lookup_spec_eq, L, W, st_false, (served_opaque_marker c self ch Hown).
    destruct (find_child ch n) as [e|] eqn:F.
    - destruct (ino_of (c_base c) (e_id e)) as [i|] eqn:I; [|exfalso; exact (Hids n e (or_introl eq_refl) F I)].
      rewrite (Hdev e i eq_refl). reflexivity.
    - unfold whited. destruct (find_child ch (wh_prefix ++ n)) as [e|] eqn:F2.
      + destruct (ino_of (c_base c) (e_id e)) as [i|] eqn:I; [|exfalso; exact (Hids _ e (or_intror eq_refl) F2 I)].
        rewrite wh_attr_is_whiteout, orb_true_r. reflexivity.
      + rewrite orb_false_r. reflexivity.
  Qed.

  (* the one class the property excludes: the layer carries both a whiteout for n and a directory n *)
  Hypothesis Hexcl : forall e i, find_child ch n = Some e -> whited ch n = true -> is_dir_attr (entry_to_attr i (e_attr e)) = false.

  Lemma child_merge_rule : forall lower_is_dir,
    overlay_child_sees_lower c self ch lower_is_dir n = oci_child_sees_lower c ch lower_is_dir n.
  Proof.
    intros lower_is_dir. unfold overlay_child_sees_lower, oci_child_sees_lower. destruct (image_name_spec c n Himg) as [W L].
    rewrite lookup_spec_eq, L, W, st_false, (served_opaque_marker c self ch Hown).
    destruct (find_child ch n) as [e|] eqn:F.
    - destruct (ino_of (c_base c) (e_id e)) as [i|] eqn:I; [|reflexivity].
      rewrite (Hdev e i eq_refl). simpl. destruct (whited ch n) eqn:Wd.
      + rewrite (Hexcl e i eq_refl eq_refl). reflexivity.
      + rewrite !andb_true_r. reflexivity.
    - destruct (find_child ch (wh_prefix ++ n)) as [e|]; [destruct (ino_of (c_base c) (e_id e))|]; reflexivity.
  Qed.
End Dir.
