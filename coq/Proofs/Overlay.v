(* Proofs about Model/Overlay.v (C07, stacking per directory). *)
From Coq Require Import List ZArith Bool String Lia.
From SV Require Import Model.Node Model.Overlay Proofs.Node.
Import ListNotations.
Local Open Scope Z_scope.

Lemma wh_attr_is_whiteout : forall i, is_whiteout_dev (wh_attr i) = true.
Proof. intros i. reflexivity. Qed.

Lemma opaque_xattrs_nonempty : forall m, opaque_xattrs m <> [].
Proof. intros []; discriminate. Qed.

(* the served opaque flag is the presence of the marker child (the directory's own xattrs aside) *)
Lemma served_opaque_marker : forall c self ch,
  (forall a, In a (opaque_xattrs (c_mode c)) -> assoc (a_xattrs (e_attr self)) a = None) ->
  served_opaque c self ch = is_opaque ch.
Proof.
  intros c self ch Hown. unfold served_opaque.
  assert (H : forall a, In a (opaque_xattrs (c_mode c)) ->
            (match xattr_value c self ch a with Some v => (v =? "y")%string | None => false end) = is_opaque ch).
  { intros a Ha. unfold xattr_value. rewrite (proj2 (existsb_str_in a _) Ha). simpl.
    destruct (is_opaque ch); [reflexivity|]. rewrite (Hown a Ha). reflexivity. }
  destruct (opaque_xattrs (c_mode c)) as [|a l] eqn:E; [exfalso; eapply opaque_xattrs_nonempty; eauto|].
  simpl. rewrite (H a (or_introl eq_refl)). destruct (is_opaque ch) eqn:O; [|reflexivity]. simpl.
  apply forallb_forall. intros x Hx. apply (H x (or_intror Hx)).
Qed.

Lemma image_name_spec : forall c n, image_name c n = true -> has_wh n = false /\ c_root c && is_landmark n = false.
Proof.
  unfold image_name. intros c n H. apply andb_true_iff in H. destruct H as [H1 H2].
  apply negb_true_iff in H1. apply negb_true_iff in H2. auto.
Qed.

Section Dir.
  Variables (c : cfg) (self : ent) (ch : children) (n : string).
  Hypothesis Himg : image_name c n = true.
  Hypothesis Hstate : ~ (c_root c = true /\ n = state_dir_name).
  (* metadata ids of the entries involved fit the inode space *)
  Hypothesis Hids : forall m e, (m = n \/ m = (wh_prefix ++ n)%string) -> find_child ch m = Some e -> ino_of (c_base c) (e_id e) <> None.
  (* the layer has no real 0/0 character device under this name (overlayfs itself would read it as a whiteout) *)
  Hypothesis Hdev : forall e i, find_child ch n = Some e -> is_whiteout_dev (entry_to_attr i (e_attr e)) = false.
  (* the directory entry does not itself carry an overlay opaque xattr *)
  Hypothesis Hown : forall a, In a (opaque_xattrs (c_mode c)) -> assoc (a_xattrs (e_attr self)) a = None.

  Lemma st_false : c_root c && (n =? state_dir_name)%string = false.
  Proof.
    destruct (c_root c) eqn:R; [|reflexivity]. simpl.
    destruct (String.eqb_spec n state_dir_name); [exfalso; apply Hstate; auto|reflexivity].
  Qed.

  Lemma overlay_is_oci : forall lower_has, overlay_origin c self ch lower_has n = oci_origin c ch lower_has n.
  Proof.
    intros lower_has. unfold overlay_origin, oci_origin. destruct (image_name_spec c n Himg) as [W L].
    rewrite lookup_spec_eq, L, W, st_false, (served_opaque_marker c self ch Hown).
    destruct (find_child ch n) as [e|] eqn:F.
    - destruct (ino_of (c_base c) (e_id e)) as [i|] eqn:I; [|exfalso; exact (Hids n e (or_introl eq_refl) F I)].
      rewrite (Hdev e i eq_refl). reflexivity.
    - unfold whited. destruct (find_child ch (wh_prefix ++ n)) as [e|] eqn:F2.
      + destruct (ino_of (c_base c) (e_id e)) as [i|] eqn:I; [|exfalso; exact (Hids _ e (or_intror eq_refl) F2 I)].
        rewrite wh_attr_is_whiteout, orb_true_r. reflexivity.
      + rewrite orb_false_r. reflexivity.
  Qed.

  (* the one class the property excludes: the layer carries both a whiteout for n and a directory n *)
  Hypothesis Hexcl : forall e i, find_child ch n = Some e -> whited ch n = true -> is_dir_attr (entry_to_attr i (e_attr e)) = false.

  Lemma child_merge_rule : forall lower_is_dir,
    overlay_child_sees_lower c self ch lower_is_dir n = oci_child_sees_lower c ch lower_is_dir n.
  Proof.
    intros lower_is_dir. unfold overlay_child_sees_lower, oci_child_sees_lower. destruct (image_name_spec c n Himg) as [W L].
    rewrite lookup_spec_eq, L, W, st_false, (served_opaque_marker c self ch Hown).
    destruct (find_child ch n) as [e|] eqn:F.
    - destruct (ino_of (c_base c) (e_id e)) as [i|] eqn:I; [|reflexivity].
      rewrite (Hdev e i eq_refl). simpl. destruct (whited ch n) eqn:Wd.
      + rewrite (Hexcl e i eq_refl eq_refl). reflexivity.
      + rewrite !andb_true_r. reflexivity.
    - destruct (find_child ch (wh_prefix ++ n)) as [e|]; [destruct (ino_of (c_base c) (e_id e))|]; reflexivity.
  Qed.
End Dir.

(* ====================================================================================================
   Whole trees and stacks *)

Lemma alookup_app : forall {A} (l1 l2 : list (string * A)) n,
  alookup (l1 ++ l2) n = match alookup l1 n with Some x => Some x | None => alookup l2 n end.
Proof.
  intros A l1 l2 n. unfold alookup. induction l1 as [|[m x] l1 IH]; simpl; [destruct (find _ l2); reflexivity|].
  destruct (m =? n)%string; [reflexivity|exact IH].
Qed.

Lemma alookup_filter : forall {A} (P : string -> bool) (l : list (string * A)) n,
  alookup (filter (fun q => P (fst q)) l) n = if P n then alookup l n else None.
Proof.
  intros A P l n. unfold alookup. induction l as [|[m x] l IH]; simpl; [destruct (P n); reflexivity|].
  destruct (P m) eqn:Pm; simpl; destruct (String.eqb_spec m n) as [E|E].
  - subst m. rewrite Pm. reflexivity.
  - exact IH.
  - subst m. rewrite Pm in *. exact IH.
  - exact IH.
Qed.

Lemma alookup_in : forall {A} (l : list (string * A)) n x, alookup l n = Some x -> In (n, x) l.
Proof.
  unfold alookup. intros A l n x H. destruct (find _ l) as [p|] eqn:F; [|discriminate].
  apply find_some in F. destruct F as [Hin E]. apply String.eqb_eq in E. destruct p as [m y]. simpl in *. inversion H. subst. exact Hin.
Qed.

Lemma alookup_none_notin : forall {A} (l : list (string * A)) n, alookup l n = None -> ~ In n (map fst l).
Proof.
  unfold alookup. intros A l n H Hin. destruct (find _ l) as [p|] eqn:F; [discriminate|].
  apply in_map_iff in Hin. destruct Hin as [q [E Hq]]. eapply find_none in F; [|exact Hq]. simpl in F. rewrite E, String.eqb_refl in F. discriminate.
Qed.

Lemma alookup_cons : forall {A} m (x : A) l n, alookup ((m, x) :: l) n = if (m =? n)%string then Some x else alookup l n.
Proof. intros A m x l n. unfold alookup. simpl. destruct (m =? n)%string; reflexivity. Qed.

Lemma alookup_flat_map : forall {A B} (F : string * A -> list (string * B)) (G : string -> A -> option B) (l : list (string * A)) n,
  NoDup (map fst l) ->
  (forall m x, F (m, x) = match G m x with Some v => [(m, v)] | None => [] end) ->
  alookup (flat_map F l) n = match alookup l n with Some x => G n x | None => None end.
Proof.
  intros A B F G l n ND HF. induction l as [|[m x] l IH]; [reflexivity|].
  cbn [flat_map]. inversion ND as [|? ? Hnot ND']; subst. rewrite alookup_app, HF, (IH ND'), alookup_cons.
  destruct (String.eqb_spec m n) as [E|E].
  - subst m. destruct (G n x) as [v|]; [rewrite alookup_cons, String.eqb_refl; reflexivity|].
    cbn. destruct (alookup l n) as [y|] eqn:L; [|reflexivity]. exfalso. apply Hnot.
    apply alookup_in in L. change n with (fst (n, y)). apply in_map. exact L.
  - destruct (G m x) as [v|]; [|reflexivity]. rewrite alookup_cons. destruct (String.eqb_spec m n); [contradiction|]. reflexivity.
Qed.

Lemma find_child_view : forall kids n, find_child (view kids) n = option_map lt_ent (alookup kids n).
Proof.
  intros kids n. unfold find_child, alookup, view. induction kids as [|[m t] kids IH]; [reflexivity|].
  simpl. destruct (m =? n)%string; [reflexivity|exact IH].
Qed.

Lemma nodupb_NoDup : forall l, nodupb l = true -> NoDup l.
Proof.
  induction l as [|x l IH]; intros H; [constructor|]. simpl in H. apply andb_true_iff in H. destruct H as [H1 H2].
  constructor; [|apply IH; exact H2]. intros Hin. apply negb_true_iff in H1.
  assert (existsb (fun y => (y =? x)%string) l = true); [|congruence].
  apply existsb_exists. exists x. split; [exact Hin|apply String.eqb_refl].
Qed.

Lemma view_names : forall kids, map fst (view kids) = map fst kids.
Proof. intros kids. unfold view. rewrite map_map. reflexivity. Qed.

(* what a name of the merged directory resolves to, overlay side *)
Lemma over_lookup : forall c self kids lower n, NoDup (map fst kids) ->
  alookup (over_tree c (LT self kids) lower) n =
  match overlay_origin c self (view kids) true n with
  | Absent => None
  | FromLower => alookup lower n
  | FromUpper e a =>
      match alookup kids n with
      | Some tn => Some (RN e a (if is_dir_attr a
                                 then over_tree (sub_cfg c) tn
                                        (if overlay_child_sees_lower c self (view kids) (lower_is_dir lower n) n then lower_kids lower n else [])
                                 else []))
      | None => None
      end
  end.
Proof.
  intros c self kids lower n ND. cbn [over_tree]. rewrite alookup_app.
  rewrite (alookup_flat_map _
    (fun m tm => match overlay_origin c self (view kids) true m with
                 | FromUpper e a => Some (RN e a (if is_dir_attr a
                       then over_tree (sub_cfg c) tm (if overlay_child_sees_lower c self (view kids) (lower_is_dir lower m) m then lower_kids lower m else [])
                       else []))
                 | _ => None end) kids n ND).
  2:{ intros m x. destruct (overlay_origin c self (view kids) true m); reflexivity. }
  rewrite (alookup_filter (fun m => from_lower (overlay_origin c self (view kids) true m)) lower n).
  destruct (alookup kids n) as [tn|]; destruct (overlay_origin c self (view kids) true n); reflexivity.
Qed.

Lemma oci_lookup : forall c self kids lower n, NoDup (map fst kids) -> image_name c n = true ->
  alookup (oci_tree c (LT self kids) lower) n =
  match oci_origin c (view kids) true n with
  | Absent => None
  | FromLower => alookup lower n
  | FromUpper e a =>
      match alookup kids n with
      | Some tn => Some (RN e a (if is_dir_attr a
                                 then oci_tree (sub_cfg c) tn
                                        (if oci_child_sees_lower c (view kids) (lower_is_dir lower n) n then lower_kids lower n else [])
                                 else []))
      | None => None
      end
  end.
Proof.
  intros c self kids lower n ND Himg. cbn [oci_tree]. rewrite alookup_app.
  rewrite (alookup_flat_map _
    (fun m tm => if image_name c m then
                 match oci_origin c (view kids) true m with
                 | FromUpper e a => Some (RN e a (if is_dir_attr a
                       then oci_tree (sub_cfg c) tm (if oci_child_sees_lower c (view kids) (lower_is_dir lower m) m then lower_kids lower m else [])
                       else []))
                 | _ => None end else None) kids n ND).
  2:{ intros m x. destruct (image_name c m); [|reflexivity]. destruct (oci_origin c (view kids) true m); reflexivity. }
  rewrite (alookup_filter (fun m => from_lower (oci_origin c (view kids) true m)) lower n). rewrite Himg.
  destruct (alookup kids n) as [tn|]; destruct (oci_origin c (view kids) true n); reflexivity.
Qed.

(* resolution, one component at a time *)
Definition res_node (o : option rnode) (p' : list string) : option (ent * fattr) :=
  match o with
  | None => None
  | Some (RN e a k) => match p' with [] => Some (e, a) | _ => if is_dir_attr a then resolve k p' else None end
  end.
Lemma resolve_cons : forall l n p', resolve l (n :: p') = res_node (alookup l n) p'.
Proof. reflexivity. Qed.

Lemma resolve_nil_l : forall p, resolve [] p = None.
Proof. destruct p; reflexivity. Qed.

Lemma resolve_lower_kids : forall l n q, q <> [] -> resolve l (n :: q) = resolve (lower_kids l n) q.
Proof.
  intros l n q Hq. rewrite resolve_cons. unfold res_node, lower_kids.
  destruct (alookup l n) as [[e a k]|]; [|symmetry; apply resolve_nil_l].
  destruct q as [|m q]; [congruence|]. destruct (is_dir_attr a); [reflexivity|symmetry; apply resolve_nil_l].
Qed.

Definition good (root : bool) (p : list string) : bool :=
  match p with
  | [] => true
  | n :: p' => name_ok root n && forallb (name_ok false) p'
  end.

Lemma good_sub : forall root n p', good root (n :: p') = true -> good false p' = true.
Proof.
  intros root n p' H. simpl in H. apply andb_true_iff in H. destruct H as [_ H]. destruct p' as [|m q]; [reflexivity|]. exact H.
Qed.

Lemma name_ok_spec : forall root n, name_ok root n = true ->
  n <> ""%string /\ is_dot n = false /\ has_wh n = false
  /\ (root = true -> is_landmark n = false /\ n <> state_dir_name).
Proof.
  unfold name_ok. intros root n H. apply andb_true_iff in H. destruct H as [H H4]. apply andb_true_iff in H. destruct H as [H H3].
  apply andb_true_iff in H. destruct H as [H1 H2]. apply negb_true_iff in H1, H2, H3.
  split; [intros ->; discriminate|]. split; [exact H2|]. split; [exact H3|].
  intros ->. apply andb_true_iff in H4. destruct H4 as [H4 H5]. apply negb_true_iff in H4, H5.
  split; [exact H4|]. intros ->. rewrite String.eqb_refl in H5. discriminate.
Qed.

Lemma dev_indep : forall i j a, is_whiteout_dev (entry_to_attr i a) = is_whiteout_dev (entry_to_attr j a).
Proof. reflexivity. Qed.
Lemma dir_indep : forall i j a, is_dir_attr (entry_to_attr i a) = is_dir_attr (entry_to_attr j a).
Proof. reflexivity. Qed.

Lemma lower_is_dir_equiv : forall root l1 l2 n,
  (forall q, good root q = true -> resolve l1 q = resolve l2 q) -> name_ok root n = true ->
  lower_is_dir l1 n = lower_is_dir l2 n.
Proof.
  intros root l1 l2 n Heq Hn. assert (G : good root [n] = true) by (simpl; rewrite Hn; reflexivity).
  specialize (Heq [n] G). rewrite !resolve_cons in Heq. unfold res_node in Heq. unfold lower_is_dir.
  destruct (alookup l1 n) as [[e1 a1 k1]|]; destruct (alookup l2 n) as [[e2 a2 k2]|]; try discriminate; [|reflexivity].
  inversion Heq. reflexivity.
Qed.

(* facts the allowed class gives about one directory *)
Lemma allowed_kid : forall c self kids n tn, allowed_tree c (LT self kids) = true -> In (n, tn) kids ->
  (exists i, ino_of (c_base c) (e_id (lt_ent tn)) = Some i)
  /\ (image_name c n = true -> is_whiteout_dev (kid_attr tn) = false)
  /\ (whited (view kids) n = true -> is_dir_attr (kid_attr tn) = false)
  /\ allowed_tree (sub_cfg c) tn = true.
Proof.
  intros c self kids n tn H Hin. cbn [allowed_tree] in H. apply andb_true_iff in H. destruct H as [_ H].
  rewrite forallb_forall in H. specialize (H (n, tn) Hin). cbn beta iota in H.
  apply andb_true_iff in H. destruct H as [H H4]. apply andb_true_iff in H. destruct H as [H H3].
  apply andb_true_iff in H. destruct H as [H1 H2].
  split; [destruct (ino_of (c_base c) (e_id (lt_ent tn))) as [i|]; [eauto|discriminate]|].
  split; [intros Hi; rewrite Hi in H2; apply negb_true_iff in H2; exact H2|].
  split; [intros Hw; rewrite Hw in H3; simpl in H3; apply negb_true_iff in H3; exact H3|exact H4].
Qed.

Lemma view_kid : forall kids n e, find_child (view kids) n = Some e -> exists tn, In (n, tn) kids /\ lt_ent tn = e.
Proof.
  intros kids n e H. rewrite find_child_view in H. destruct (alookup kids n) as [tn|] eqn:L; [|discriminate].
  simpl in H. inversion H. exists tn. split; [apply alookup_in; exact L|reflexivity].
Qed.

(* the whole-tree statement for one layer on top of equivalent lower directories *)
Lemma tree_equiv : forall p c t l1 l2,
  allowed_tree c t = true -> good (c_root c) p = true ->
  (forall q, good (c_root c) q = true -> resolve l1 q = resolve l2 q) ->
  resolve (over_tree c t l1) p = resolve (oci_tree c t l2) p.
Proof.
  induction p as [|n p' IH]; intros c t l1 l2 Hal Hg Heq; [reflexivity|].
  destruct t as [self kids]. pose proof Hal as Hal0. cbn [allowed_tree] in Hal.
  apply andb_true_iff in Hal. destruct Hal as [Hal _]. apply andb_true_iff in Hal. destruct Hal as [Hal Hroot].
  apply andb_true_iff in Hal. destruct Hal as [Hnd Hown]. apply nodupb_NoDup in Hnd.
  assert (Hn : name_ok (c_root c) n = true) by (simpl in Hg; apply andb_true_iff in Hg; tauto).
  destruct (name_ok_spec _ _ Hn) as [Hne [Hdot [Hwh Hr]]].
  assert (Himg : image_name c n = true).
  { unfold image_name. rewrite Hwh. simpl. destruct (c_root c) eqn:R; [|reflexivity]. destruct (Hr eq_refl) as [Hl _]. rewrite Hl. reflexivity. }
  assert (Hst : ~ (c_root c = true /\ n = state_dir_name)) by (intros [R E]; destruct (Hr R) as [_ Hs]; contradiction).
  assert (Hown' : forall a, In a (opaque_xattrs (c_mode c)) -> assoc (a_xattrs (e_attr self)) a = None).
  { intros a Ha. rewrite forallb_forall in Hown. specialize (Hown a Ha). destruct (assoc _ a); [discriminate|reflexivity]. }
  assert (Hids : forall m e, m = n \/ m = (wh_prefix ++ n)%string -> find_child (view kids) m = Some e -> ino_of (c_base c) (e_id e) <> None).
  { intros m e _ F. destruct (view_kid kids m e F) as [tm [Hin <-]]. destruct (allowed_kid c self kids m tm Hal0 Hin) as [[i Hi] _]. congruence. }
  assert (Hdev : forall e i, find_child (view kids) n = Some e -> is_whiteout_dev (entry_to_attr i (e_attr e)) = false).
  { intros e i F. destruct (view_kid kids n e F) as [tn [Hin <-]]. destruct (allowed_kid c self kids n tn Hal0 Hin) as [_ [Hd _]].
    rewrite (dev_indep i 0). exact (Hd Himg). }
  assert (Hexcl : forall e i, find_child (view kids) n = Some e -> whited (view kids) n = true -> is_dir_attr (entry_to_attr i (e_attr e)) = false).
  { intros e i F W. destruct (view_kid kids n e F) as [tn [Hin <-]]. destruct (allowed_kid c self kids n tn Hal0 Hin) as [_ [_ [Hx _]]].
    rewrite (dir_indep i 0). exact (Hx W). }
  rewrite !resolve_cons, (over_lookup c self kids l1 n Hnd), (oci_lookup c self kids l2 n Hnd Himg).
  rewrite (overlay_is_oci c self (view kids) n Himg Hst Hids Hdev Hown' true).
  destruct (oci_origin c (view kids) true n) as [|e a|] eqn:O.
  - reflexivity.
  - destruct (alookup kids n) as [tn|] eqn:K; [|reflexivity]. unfold res_node.
    destruct p' as [|m q]; [reflexivity|]. destruct (is_dir_attr a); [|reflexivity].
    assert (Hin : In (n, tn) kids) by (apply alookup_in; exact K).
    destruct (allowed_kid c self kids n tn Hal0 Hin) as [_ [_ [_ Hsub]]].
    apply IH; [exact Hsub|exact (good_sub _ _ _ Hg)|].
    intros q' Hq'. cbn [sub_cfg c_root] in Hq'.
    rewrite (lower_is_dir_equiv (c_root c) l1 l2 n Heq Hn).
    rewrite (child_merge_rule c self (view kids) n Himg Hst Hdev Hown' Hexcl (lower_is_dir l2 n)).
    destruct (oci_child_sees_lower c (view kids) (lower_is_dir l2 n) n); [|reflexivity].
    destruct q' as [|m' q'']; [reflexivity|].
    rewrite <- !resolve_lower_kids by discriminate. apply Heq.
    simpl. rewrite Hn. simpl in Hq'. exact Hq'.
  - fold (res_node (alookup l1 n) p'). rewrite <- !resolve_cons. apply Heq. exact Hg.
Qed.

Lemma stack_equiv_from : forall (s : stack) l1 l2,
  allowed_stack s = true ->
  (forall q, good true q = true -> resolve l1 q = resolve l2 q) ->
  forall p, good true p = true ->
    resolve (fold_left (fun acc ct => over_tree (fst ct) (snd ct) acc) s l1) p
    = resolve (fold_left (fun acc ct => oci_tree (fst ct) (snd ct) acc) s l2) p.
Proof.
  induction s as [|[c t] s IH]; intros l1 l2 Hal Heq p Hp; simpl; [apply Heq; exact Hp|].
  simpl in Hal. apply andb_true_iff in Hal. destruct Hal as [Hct Hal]. apply andb_true_iff in Hct. destruct Hct as [Hroot Ht].
  apply IH; [exact Hal| |exact Hp].
  intros q Hq. apply tree_equiv; [exact Ht|rewrite Hroot; exact Hq|rewrite Hroot; exact Heq].
Qed.

Lemma served_stack_is_rootfs : forall (s : stack) p, allowed_stack s = true -> path_ok p = true ->
  resolve (overlay_stack s) p = resolve (oci_stack s) p.
Proof.
  intros s p Hal Hp. unfold overlay_stack, oci_stack. apply stack_equiv_from; [exact Hal|reflexivity|exact Hp].
Qed.
