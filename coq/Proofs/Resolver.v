(* Proofs about Model/Resolver.v: the ownership invariant of the layer resolver (every done-closure of either
   cache, every cache directory has exactly one live owner; closed flags = eviction callbacks), its preservation
   by every sub-step, and the lemmas the C12 theorems are closed with.  Built on Proofs/Refcache.v (C10). *)
From Coq Require Import List Arith ZArith Bool Lia.
From SV Require Import Model.Refcache Proofs.Refcache.
From SV Require Model.Resolver.
Import ListNotations.

Module M := SV.Model.Resolver.
Module R := SV.Model.Refcache.

(* ---------- facts about one step of the cache machine (Model/Refcache.v) ---------- *)
Lemma inc_hs c i : hs (inc c i) = hs c.
Proof. unfold inc. destruct (nth_error (ents c) i); reflexivity. Qed.
Lemma inc_cap c i : cap (inc c i) = cap c.
Proof. unfold inc. destruct (nth_error (ents c) i); reflexivity. Qed.
Lemma inc_log c i : log (inc c i) = log c.
Proof. unfold inc. destruct (nth_error (ents c) i); reflexivity. Qed.
Lemma inc_len c i : length (ents (inc c i)) = length (ents c).
Proof. unfold inc. destruct (nth_error (ents c) i); simpl; [apply upd_length|reflexivity]. Qed.
Lemma inc_lru c i : lru (inc c i) = lru c.
Proof. unfold inc. destruct (nth_error (ents c) i); reflexivity. Qed.

Lemma dec_cap c i : cap (dec c i) = cap c.
Proof. unfold dec. destruct (nth_error (ents c) i); [|reflexivity]. destruct (_ <=? 0)%Z; reflexivity. Qed.
Lemma dec_len c i : length (ents (dec c i)) = length (ents c).
Proof. unfold dec. destruct (nth_error (ents c) i); [|reflexivity]. destruct (_ <=? 0)%Z; simpl; apply upd_length. Qed.
Lemma dec_lru c i : lru (dec c i) = lru c.
Proof. unfold dec. destruct (nth_error (ents c) i); [|reflexivity]. destruct (_ <=? 0)%Z; reflexivity. Qed.
Lemma finalize_cap c i : cap (finalize c i) = cap c.
Proof. unfold finalize. destruct (nth_error (ents c) i) as [e|]; [|reflexivity]. destruct (e_fin e); [reflexivity|]. rewrite dec_cap. reflexivity. Qed.
Lemma finalize_len c i : length (ents (finalize c i)) = length (ents c).
Proof. unfold finalize. destruct (nth_error (ents c) i) as [e|]; [|reflexivity]. destruct (e_fin e); [reflexivity|]. rewrite dec_len. simpl. apply upd_length. Qed.
Lemma finalize_lru c i : lru (finalize c i) = lru c.
Proof. unfold finalize. destruct (nth_error (ents c) i) as [e|]; [|reflexivity]. destruct (e_fin e); [reflexivity|]. rewrite dec_lru. reflexivity. Qed.
Lemma evict_key_hs c k : hs (evict_key c k) = hs c.
Proof. unfold evict_key. destruct (lru_find (lru c) k); [|reflexivity]. rewrite finalize_hs. reflexivity. Qed.
Lemma evict_key_cap c k : cap (evict_key c k) = cap c.
Proof. unfold evict_key. destruct (lru_find (lru c) k); [|reflexivity]. rewrite finalize_cap. reflexivity. Qed.
Lemma evict_key_len c k : length (ents (evict_key c k)) = length (ents c).
Proof. unfold evict_key. destruct (lru_find (lru c) k); [|reflexivity]. rewrite finalize_len. reflexivity. Qed.
Lemma rel_evict_cap c i : cap (rel_evict c i) = cap c.
Proof.
  unfold rel_evict. destruct (nth_error _ i) as [e|]; [|apply finalize_cap].
  destruct (lru_find _ _) as [j|]; [|apply finalize_cap]. destruct (j =? i); simpl; apply finalize_cap.
Qed.
Lemma rel_evict_len c i : length (ents (rel_evict c i)) = length (ents c).
Proof.
  unfold rel_evict. destruct (nth_error _ i) as [e|]; [|apply finalize_len].
  destruct (lru_find _ _) as [j|]; [|apply finalize_len]. destruct (j =? i); simpl; apply finalize_len.
Qed.

Lemma trim_cap0 c : cap c = 0%Z -> trim c = c.
Proof. intros H. unfold trim. rewrite H. reflexivity. Qed.

(* the Release step, in terms of rel_evict *)
Lemma step_release c h ev :
  fst (step c (Release h ev)) =
  match nth_error (hs c) h with
  | Some (i, fired) =>
      let c1 := if fired then c else dec (set_hs c (upd (hs c) h (i, true))) i in
      if ev then rel_evict c1 i else c1
  | None => c
  end.
Proof. simpl. destruct (nth_error (hs c) h) as [[i fired]|]; [|reflexivity]. destruct ev; reflexivity. Qed.

Definition evicting (o : op) : bool := match o with Add _ | Get _ => false | _ => true end.

Lemma cap_step c o : cap (fst (step c o)) = cap c.
Proof.
  destruct o as [k|k|k|k|h ev].
  - simpl. destruct (lru_find (lru c) k) as [i|]; simpl.
    + unfold acquire. simpl. rewrite inc_cap. reflexivity.
    + unfold trim. destruct (_ && _); [|unfold acquire; simpl; rewrite inc_cap; reflexivity].
      destruct (last _ _) as [[k' i']|]; [rewrite evict_key_cap|]; unfold acquire; simpl; rewrite inc_cap; reflexivity.
  - simpl. destruct (lru_find (lru c) k) as [i|]; simpl; [|reflexivity]. unfold acquire. simpl. rewrite inc_cap. reflexivity.
  - apply evict_key_cap.
  - apply evict_key_cap.
  - rewrite step_release. destruct (nth_error (hs c) h) as [[i fired]|]; [|reflexivity]. simpl.
    destruct ev; [rewrite rel_evict_cap|]; destruct fired; try reflexivity; rewrite dec_cap; reflexivity.
Qed.

(* evicting ops neither create values nor handles; they fire at most the released handle *)
Lemma len_step_evicting c o : evicting o = true -> length (ents (fst (step c o))) = length (ents c).
Proof.
  destruct o as [k|k|k|k|h ev]; try discriminate; intros _.
  - apply evict_key_len.
  - apply evict_key_len.
  - rewrite step_release. destruct (nth_error (hs c) h) as [[i fired]|]; [|reflexivity]. simpl.
    destruct ev; [rewrite rel_evict_len|]; destruct fired; try reflexivity; rewrite dec_len; reflexivity.
Qed.

Lemma hs_step_evicting c o : evicting o = true ->
  hs (fst (step c o)) =
  match o with
  | Release h _ => match nth_error (hs c) h with Some (i, false) => upd (hs c) h (i, true) | _ => hs c end
  | _ => hs c
  end.
Proof.
  destruct o as [k|k|k|k|h ev]; try discriminate; intros _.
  - apply evict_key_hs.
  - apply evict_key_hs.
  - rewrite step_release. destruct (nth_error (hs c) h) as [[i fired]|]; [|reflexivity]. simpl.
    destruct ev; [rewrite rel_evict_hs|]; destruct fired; try reflexivity; rewrite dec_hs; reflexivity.
Qed.

(* Get / Add on a capacity-0 cache: no callback; a hit or an Add hands out one new handle *)
Lemma step_get_hit c k i : lru_find (lru c) k = Some i ->
  step c (Get k) = (acquire (touch c k i) i, Some (i, true)).
Proof. intros H. simpl. rewrite H. reflexivity. Qed.
Lemma step_get_miss c k : lru_find (lru c) k = None -> step c (Get k) = (c, None).
Proof. intros H. simpl. rewrite H. reflexivity. Qed.
Lemma step_add_hit c k i : lru_find (lru c) k = Some i ->
  step c (Add k) = (acquire (touch c k i) i, Some (i, false)).
Proof. intros H. simpl. rewrite H. reflexivity. Qed.

Lemma acquire_touch_hs c k i : hs (acquire (touch c k i) i) = hs c ++ [(i, false)].
Proof. unfold acquire. simpl. rewrite inc_hs. reflexivity. Qed.
Lemma acquire_touch_log c k i : log (acquire (touch c k i) i) = log c.
Proof. unfold acquire. simpl. rewrite inc_log. reflexivity. Qed.
Lemma acquire_touch_len c k i : length (ents (acquire (touch c k i) i)) = length (ents c).
Proof. unfold acquire. simpl. rewrite inc_len. reflexivity. Qed.

Lemma add_new_hs c k : hs (add_new c k) = hs c ++ [(length (ents c), false)].
Proof. unfold add_new, acquire. simpl. rewrite inc_hs. reflexivity. Qed.
Lemma add_new_len c k : length (ents (add_new c k)) = S (length (ents c)).
Proof. unfold add_new, acquire. simpl. rewrite inc_len. simpl. rewrite app_length. simpl. lia. Qed.
Lemma add_new_cap c k : cap (add_new c k) = cap c.
Proof. unfold add_new, acquire. simpl. rewrite inc_cap. reflexivity. Qed.

(* ---------- counting helpers ---------- *)
Arguments cnt {A} p l : simpl never.
Arguments add_new s k : simpl never.
Lemma cnt_snoc {A} (p : A -> bool) l x : cnt p (l ++ [x]) = cnt p l + (if p x then 1 else 0).
Proof. rewrite cnt_app. unfold cnt. simpl. destruct (p x); reflexivity. Qed.

Lemma cnt_pos {A} (p : A -> bool) l i x : nth_error l i = Some x -> p x = true -> 1 <= cnt p l.
Proof.
  unfold cnt. revert i; induction l as [|a l IH]; intros [|i] H Hp; simpl in *; try discriminate.
  - inversion H; subst. rewrite Hp. simpl. lia.
  - specialize (IH _ H Hp). destruct (p a); simpl; lia.
Qed.

Lemma cnt_ex {A} (p : A -> bool) l : 1 <= cnt p l -> exists i x, nth_error l i = Some x /\ p x = true.
Proof.
  unfold cnt. induction l as [|a l IH]; simpl; intros H; [lia|].
  destruct (p a) eqn:Hp.
  - exists 0, a. split; [reflexivity|exact Hp].
  - destruct (IH H) as (i & x & Hi & Hx). exists (S i), x. split; assumption.
Qed.

Lemma cnt_zero {A} (p : A -> bool) l : (forall i x, nth_error l i = Some x -> p x = false) -> cnt p l = 0.
Proof.
  intros H. destruct (cnt p l) eqn:E; [reflexivity|].
  destruct (cnt_ex p l) as (i & x & Hi & Hx); [lia|]. rewrite (H _ _ Hi) in Hx. discriminate.
Qed.

Lemma cnt_ext {A} (p q : A -> bool) l : (forall x, p x = q x) -> cnt p l = cnt q l.
Proof. intros H. unfold cnt. induction l as [|a l IH]; simpl; [reflexivity|]. rewrite H. destruct (q a); simpl; rewrite IH; reflexivity. Qed.

Lemma In_rm d x l : In x (M.rm d l) <-> In x l /\ x <> d.
Proof.
  induction l as [|a l IH]; simpl; [tauto|].
  destruct (Nat.eqb_spec a d) as [->|Hn]; simpl; rewrite IH; intuition congruence.
Qed.

Lemma count_rm d x l : count_occ Nat.eq_dec (M.rm d l) x = if Nat.eqb x d then 0 else count_occ Nat.eq_dec l x.
Proof.
  induction l as [|a l IH]; simpl; [destruct (x =? d); reflexivity|].
  destruct (Nat.eqb_spec a d) as [->|Hn].
  - rewrite IH. destruct (Nat.eqb_spec x d) as [->|Hx]; [reflexivity|]. destruct (Nat.eq_dec d x); [congruence|reflexivity].
  - simpl. rewrite IH. destruct (Nat.eq_dec a x) as [->|Ha]; [|reflexivity].
    destruct (Nat.eqb_spec x d); [congruence|reflexivity].
Qed.

Lemma NoDup_rm d l : NoDup l -> NoDup (M.rm d l).
Proof.
  induction 1 as [|a l Hn Hd IH]; simpl; [constructor|].
  destruct (a =? d); [exact IH|]. constructor; [|exact IH]. rewrite In_rm. tauto.
Qed.

Lemma mem_In n l : M.mem n l = true <-> In n l.
Proof.
  induction l as [|a l IH]; simpl; [split; [discriminate|tauto]|].
  rewrite orb_true_iff, IH, Nat.eqb_eq. tauto.
Qed.

Lemma NoDup_app_r {A} (l1 l2 : list A) : NoDup (l1 ++ l2) -> NoDup l2 /\ (forall x, In x l1 -> ~ In x l2).
Proof.
  induction l1 as [|a l1 IH]; simpl; intros H; [split; [exact H|tauto]|].
  inversion H as [|? ? Hn Hd]; subst. destruct (IH Hd) as [H2 Hdis]. split; [exact H2|].
  intros x [->|Hx]; [|apply Hdis; exact Hx]. intros Hin. apply Hn. apply in_or_app. right. exact Hin.
Qed.

(* ---------- ownership bookkeeping ---------- *)
Definition opt_is (o : option nat) (h : nat) : bool := match o with Some x => Nat.eqb x h | None => false end.

Definition pc_lh (p : M.pc) : option nat := match p with M.PHit h | M.PEvict h => Some h | _ => None end.
Definition pc_bh (p : M.pc) : option nat :=
  match p with M.PBHit h | M.PBEvict h | M.PMkFs h | M.PMeta h _ => Some h | _ => None end.
Definition pc_dir (p : M.pc) : option nat := match p with M.PHandle d | M.PMeta _ d => Some d | _ => None end.

(* 1 if handle h of cache c has been handed out and not yet released *)
Definition avail (c : R.st) (h : nat) : nat := match nth_error (hs c) h with Some (_, false) => 1 | _ => 0 end.

Definition u_claims (h : nat) (x : nat * bool) : bool := Nat.eqb (fst x) h && negb (snd x).
Definition t_claims (f : M.pc -> option nat) (h : nat) (th : M.thr) : bool := opt_is (f (M.t_pc th)) h.
Definition l_claims_b (h : nat) (o : M.lobj) : bool := negb (M.l_closed o) && Nat.eqb (M.l_bh o) h.
Definition l_claims_d (d : nat) (o : M.lobj) : bool := negb (M.l_closed o) && Nat.eqb (M.l_dir o) d.
Definition b_claims_d (d : nat) (o : M.bobj) : bool := negb (M.b_closed o) && Nat.eqb (M.b_dir o) d.

(* who claims a layer-cache handle: unreleased layerRefs of callers + Resolve calls between Get-hit and their decision *)
Definition claims_l (s : M.st) (h : nat) : nat := cnt (u_claims h) (M.uh s) + cnt (t_claims pc_lh h) (M.thrs s).
(* who claims a blob-cache handle: unclosed layers (their blobRef) + Resolve calls holding a blobRef *)
Definition claims_b (s : M.st) (h : nat) : nat := cnt (l_claims_b h) (M.lobjs s) + cnt (t_claims pc_bh h) (M.thrs s).
(* who claims a directory: unclosed layers (fscache), unclosed blobs (httpcache), Resolve calls that created one *)
Definition claims_d (s : M.st) (d : nat) : nat :=
  cnt (l_claims_d d) (M.lobjs s) + cnt (b_claims_d d) (M.bobjs s) + cnt (t_claims pc_dir d) (M.thrs s).

(* The invariant.  [xl]/[xb] = handles that are handed out but momentarily claimed by nobody (inside a step),
   [pl]/[pb] = eviction callbacks of the current critical section that have not run yet. *)
Record RI (s : M.st) (xl xb : nat -> nat) (pl pb : list nat) : Prop := mkRI {
  i_lc : Inv (M.lc s);
  i_bc : Inv (M.bc s);
  i_capl : cap (M.lc s) = 0%Z;
  i_capb : cap (M.bc s) = 0%Z;
  i_lenl : length (M.lobjs s) = length (ents (M.lc s));
  i_lenb : length (M.bobjs s) = length (ents (M.bc s));
  i_cl : forall v o, nth_error (M.lobjs s) v = Some o -> (M.l_closed o = true <-> (In v (log (M.lc s)) /\ ~ In v pl));
  i_cb : forall b o, nth_error (M.bobjs s) b = Some o -> (M.b_closed o = true <-> (In b (log (M.bc s)) /\ ~ In b pb));
  i_eql : forall h, claims_l s h + xl h = avail (M.lc s) h;
  i_eqb : forall h, claims_b s h + xb h = avail (M.bc s) h;
  i_eqd : forall d, claims_d s d = count_occ Nat.eq_dec (M.dirs s) d;
  i_nodup : NoDup (M.dirs s);
  i_dlt : forall d, In d (M.dirs s) -> d < length (M.kinds s);
  i_ldead : forall v o, nth_error (M.lobjs s) v = Some o ->
      M.l_dir o < length (M.kinds s) /\
      (M.l_closed o = true -> ~ In (M.l_dir o) (M.dirs s) /\
                              ((exists b, nth_error (hs (M.bc s)) (M.l_bh o) = Some (b, true)) \/ 0 < xb (M.l_bh o)));
  i_bdead : forall b o, nth_error (M.bobjs s) b = Some o ->
      M.b_dir o < length (M.kinds s) /\ (M.b_closed o = true -> ~ In (M.b_dir o) (M.dirs s));
  i_urel : forall u h, nth_error (M.uh s) u = Some (h, true) ->
      (exists v, nth_error (hs (M.lc s)) h = Some (v, true)) \/ 0 < xl h
}.

Definition zero : nat -> nat := fun _ => 0.
Definition RInv (s : M.st) : Prop := RI s zero zero [] [].

Lemma RI_ext s xl xb xl' xb' pl pb :
  (forall h, xl h = xl' h) -> (forall h, xb h = xb' h) -> RI s xl xb pl pb -> RI s xl' xb' pl pb.
Proof.
  intros El Eb [A B C D E F G H I J K L MM N OO PP]. constructor; auto.
  - intros h. rewrite <- El. apply I.
  - intros h. rewrite <- Eb. apply J.
  - intros v o Hv. destruct (N v o Hv) as [N1 N2]. split; [exact N1|]. intros Hc. destruct (N2 Hc) as [N3 N4].
    split; [exact N3|]. rewrite <- Eb. exact N4.
  - intros u h Hu. rewrite <- El. apply (PP u h Hu).
Qed.

Lemma avail_le1 c h : avail c h <= 1.
Proof. unfold avail. destruct (nth_error (hs c) h) as [[i []]|]; lia. Qed.

Lemma RInv_init : RInv M.init.
Proof.
  constructor; simpl.
  - apply Inv_init.
  - apply Inv_init.
  - reflexivity.
  - reflexivity.
  - reflexivity.
  - reflexivity.
  - intros [|v] o H; discriminate.
  - intros [|v] o H; discriminate.
  - intros [|h]; reflexivity.
  - intros [|h]; reflexivity.
  - reflexivity.
  - constructor.
  - tauto.
  - intros [|v] o H; discriminate.
  - intros [|v] o H; discriminate.
  - intros [|u] h H; discriminate.
Qed.

Lemma claims_l_frame s s' h : M.uh s' = M.uh s -> M.thrs s' = M.thrs s -> claims_l s' h = claims_l s h.
Proof. intros A B. unfold claims_l. rewrite A, B. reflexivity. Qed.
Lemma claims_b_frame s s' h : M.lobjs s' = M.lobjs s -> M.thrs s' = M.thrs s -> claims_b s' h = claims_b s h.
Proof. intros A B. unfold claims_b. rewrite A, B. reflexivity. Qed.

Lemma count_le1 (l : list nat) x : NoDup l -> count_occ Nat.eq_dec l x <= 1.
Proof. intros H. apply (proj1 (NoDup_count_occ Nat.eq_dec l) H). Qed.

(* ---------- blob eviction callback ---------- *)
Lemma close_blob_ok s xl xb pl b pb :
  RI s xl xb pl (b :: pb) -> ~ In b pb -> In b (log (M.bc s)) -> RI (M.close_blob s b) xl xb pl pb.
Proof.
  intros I Hn Hin.
  assert (Hlt : b < length (M.bobjs s)) by (rewrite (i_lenb _ _ _ _ _ I); apply (inv_log _ (i_bc _ _ _ _ _ I)); exact Hin).
  destruct (nth_error (M.bobjs s) b) as [o|] eqn:Ho; [|apply nth_error_None in Ho; lia].
  unfold M.close_blob. rewrite Ho.
  destruct (M.b_closed o) eqn:Hc.
  { exfalso. apply (i_cb _ _ _ _ _ I _ _ Ho) in Hc. destruct Hc as [_ Hc]. apply Hc. left. reflexivity. }
  pose proof (i_eqd _ _ _ _ _ I (M.b_dir o)) as Hd.
  assert (Hown : 1 <= cnt (b_claims_d (M.b_dir o)) (M.bobjs s)).
  { apply (cnt_pos _ _ b o Ho). unfold b_claims_d. rewrite Hc, Nat.eqb_refl. reflexivity. }
  pose proof (count_le1 _ (M.b_dir o) (i_nodup _ _ _ _ _ I)) as Hle.
  destruct I as [A B C D E F G H I J K L MM N OO PP].
  constructor; cbn; auto.
  - rewrite upd_length. exact F.
  - intros b' o' Hb'. destruct (Nat.eq_dec b b') as [<-|Hne].
    + rewrite nth_upd_eq in Hb' by exact Hlt. inversion Hb'; subst; cbn. split; [intros _; split; assumption|reflexivity].
    + rewrite nth_upd_ne in Hb' by exact Hne. rewrite (H _ _ Hb'). cbn. intuition.
  - intros d. rewrite count_rm. unfold claims_d in *. cbn.
    pose proof (cnt_upd (b_claims_d d) (M.bobjs s) b o (M.mkB true (M.b_dir o)) Ho) as Hu.
    assert (Px : b_claims_d d o = (M.b_dir o =? d)) by (unfold b_claims_d; rewrite Hc; reflexivity).
    assert (Py : b_claims_d d (M.mkB true (M.b_dir o)) = false) by reflexivity.
    rewrite Px, Py in Hu.
    specialize (K d). destruct (Nat.eqb_spec d (M.b_dir o)) as [->|Hne].
    + rewrite Nat.eqb_refl in Hu. unfold claims_d in Hd. lia.
    + destruct (Nat.eqb_spec (M.b_dir o) d); [congruence|]. lia.
  - apply NoDup_rm. exact L.
  - intros d Hd'. apply In_rm in Hd'. apply MM. tauto.
  - intros v o' Hv. destruct (N v o' Hv) as [N1 N2]. split; [exact N1|]. intros Hcl. destruct (N2 Hcl) as [N3 N4].
    split; [|exact N4]. rewrite In_rm. tauto.
  - intros b' o' Hb'. destruct (Nat.eq_dec b b') as [<-|Hne].
    + rewrite nth_upd_eq in Hb' by exact Hlt. inversion Hb'; subst; cbn. split; [apply (OO _ _ Ho)|].
      intros _. rewrite In_rm. tauto.
    + rewrite nth_upd_ne in Hb' by exact Hne. destruct (OO _ _ Hb') as [O1 O2]. split; [exact O1|].
      intros Hcl. rewrite In_rm. specialize (O2 Hcl). tauto.
Qed.

Lemma close_blob_bc s b : M.bc (M.close_blob s b) = M.bc s.
Proof. unfold M.close_blob. destruct (nth_error (M.bobjs s) b) as [o|]; [|reflexivity]. destruct (M.b_closed o); reflexivity. Qed.

Lemma fold_close_blob pb : forall s xl xb pl,
  NoDup pb -> (forall b, In b pb -> In b (log (M.bc s))) -> RI s xl xb pl pb ->
  RI (fold_left M.close_blob pb s) xl xb pl [].
Proof.
  induction pb as [|b pb IH]; intros s xl xb pl Hnd Hin I; simpl; [exact I|].
  inversion Hnd as [|? ? Hn Hd]; subst.
  apply IH; [exact Hd| |].
  - intros b' Hb'. rewrite close_blob_bc. apply Hin. right. exact Hb'.
  - apply close_blob_ok; [exact I|exact Hn|apply Hin; left; reflexivity].
Qed.

Lemma inv_log_nodup c : Inv c -> NoDup (log c).
Proof.
  intros I. apply (proj2 (NoDup_count_occ Nat.eq_dec (log c))). intros x.
  destruct (nth_error (ents c) x) as [e|] eqn:He.
  - apply (exactly_once_inv c x e I He).
  - apply nth_error_None in He. pose proof (callbacks_beyond c x I He) as H0. unfold callbacks in H0. rewrite H0. lia.
Qed.

Lemma newlog_spec c o : exists l, log (fst (step c o)) = log c ++ l /\ M.newlog c (fst (step c o)) = l.
Proof.
  destruct (step_log c o) as [l Hl]. exists l. split; [exact Hl|].
  unfold M.newlog. rewrite Hl. rewrite skipn_app, skipn_all, Nat.sub_diag. reflexivity.
Qed.

Lemma avail_release c h0 ev h : avail (fst (step c (Release h0 ev))) h = if Nat.eqb h h0 then 0 else avail c h.
Proof.
  unfold avail. rewrite (hs_step_evicting c (Release h0 ev) eq_refl).
  destruct (nth_error (hs c) h0) as [[i []]|] eqn:H0.
  - destruct (Nat.eqb_spec h h0) as [->|Hne]; [rewrite H0|]; reflexivity.
  - destruct (Nat.eqb_spec h h0) as [->|Hne].
    + rewrite nth_upd_eq; [reflexivity|]. eapply nth_some_lt; eauto.
    + rewrite nth_upd_ne by congruence. reflexivity.
  - destruct (Nat.eqb_spec h h0) as [->|Hne]; [rewrite H0|]; reflexivity.
Qed.

Lemma fired_mono c o h b : evicting o = true ->
  nth_error (hs c) h = Some (b, true) -> nth_error (hs (fst (step c o))) h = Some (b, true).
Proof.
  intros He H. rewrite (hs_step_evicting c o He). destruct o as [k|k|k|k|h0 ev]; try exact H; try discriminate.
  destruct (nth_error (hs c) h0) as [[i []]|] eqn:H0; try exact H.
  destruct (Nat.eq_dec h0 h) as [->|Hne]; [congruence|]. rewrite nth_upd_ne by exact Hne. exact H.
Qed.

Definition x_after (o : op) (x : nat -> nat) : nat -> nat :=
  match o with Release h0 _ => fun h => if Nat.eqb h h0 then 0 else x h | _ => x end.

Lemma avail_evicting c o h : evicting o = true -> (forall h0 ev, o <> Release h0 ev) -> avail (fst (step c o)) h = avail c h.
Proof.
  intros He Hn. unfold avail. rewrite (hs_step_evicting c o He).
  destruct o as [k|k|k|k|h0 ev]; try reflexivity. exfalso. eapply Hn. reflexivity.
Qed.

(* one evicting critical section of the blob cache (Remove / Expire / Release of a handle nobody claims any more) *)
Lemma bc_evict_ok s xl xb pl o :
  RI s xl xb pl [] -> evicting o = true ->
  (forall h0 ev, o = Release h0 ev -> claims_b s h0 = 0) ->
  RI (fst (M.bc_do s o)) xl (x_after o xb) pl [].
Proof.
  intros I He Hrel. unfold M.bc_do. cbn [fst].
  destruct (newlog_spec (M.bc s) o) as (l & Hl & Hnl). rewrite Hnl.
  pose proof (step_inv (M.bc s) o (i_bc _ _ _ _ _ I)) as I'.
  pose proof (inv_log_nodup _ I') as Hnd. rewrite Hl in Hnd. destruct (NoDup_app_r _ _ Hnd) as [Hndl Hdis].
  apply fold_close_blob; [exact Hndl| |].
  { intros b Hb. cbn. rewrite Hl. apply in_or_app. right. exact Hb. }
  destruct I as [A B C D E F G H I J K L MM N OO PP].
  constructor; cbn; auto.
  - rewrite cap_step. exact D.
  - rewrite (len_step_evicting _ _ He). exact F.
  - intros b ob Hb. rewrite (H _ _ Hb), Hl, in_app_iff. split.
    + intros [Hin _]. split; [left; exact Hin|apply Hdis; exact Hin].
    + intros [[Hin|Hin] Hn]; [split; [exact Hin|intros []]|contradiction].
  - intros h. change (claims_b s h + x_after o xb h = avail (fst (step (M.bc s) o)) h).
    destruct o as [k|k|k|k|h0 ev]; try discriminate; cbn [x_after].
    + rewrite avail_evicting; [apply J|reflexivity|discriminate].
    + rewrite avail_evicting; [apply J|reflexivity|discriminate].
    + rewrite avail_release. destruct (Nat.eqb_spec h h0) as [->|Hne]; [|apply J].
      rewrite (Hrel h0 ev eq_refl). reflexivity.
  - intros v ov Hv. destruct (N v ov Hv) as [N1 N2]. split; [exact N1|]. intros Hcl. destruct (N2 Hcl) as [N3 N4].
    split; [exact N3|]. destruct N4 as [[b Hb]|Hx].
    + left. exists b. apply fired_mono; assumption.
    + destruct o as [k|k|k|k|h0 ev]; try discriminate; cbn [x_after]; try (right; exact Hx).
      destruct (Nat.eqb_spec (M.l_bh ov) h0) as [Heq|Hne]; [|right; exact Hx].
      left. specialize (J h0). rewrite (Hrel h0 ev eq_refl) in J. rewrite Heq in Hx.
      unfold avail in J. destruct (nth_error (hs (M.bc s)) h0) as [[i r]|] eqn:H0; [|lia].
      exists i. rewrite Heq. apply (release_marks_fired _ _ _ _ _ H0).
Qed.

(* ---------- frames ---------- *)
Definition same_ctl (s s' : M.st) : Prop :=
  M.thrs s' = M.thrs s /\ M.uh s' = M.uh s /\ M.locks s' = M.locks s /\ M.kinds s' = M.kinds s /\ M.bad s' = M.bad s.
Lemma same_ctl_refl s : same_ctl s s. Proof. repeat split. Qed.
Lemma same_ctl_trans a b c : same_ctl a b -> same_ctl b c -> same_ctl a c.
Proof. unfold same_ctl. intuition congruence. Qed.

Lemma close_blob_frame s b : same_ctl s (M.close_blob s b) /\ M.lc (M.close_blob s b) = M.lc s /\ M.lobjs (M.close_blob s b) = M.lobjs s.
Proof. unfold M.close_blob. destruct (nth_error (M.bobjs s) b) as [o|]; [|repeat split]. destruct (M.b_closed o); repeat split. Qed.

Lemma fold_close_blob_frame l : forall s, let s' := fold_left M.close_blob l s in
  same_ctl s s' /\ M.lc s' = M.lc s /\ M.lobjs s' = M.lobjs s /\ M.bc s' = M.bc s.
Proof.
  induction l as [|b l IH]; intros s; simpl; [repeat split|].
  destruct (IH (M.close_blob s b)) as (A & B & C & D). destruct (close_blob_frame s b) as (A' & B' & C').
  split; [eapply same_ctl_trans; eauto|]. rewrite B, C, D, B', C', close_blob_bc. repeat split.
Qed.

Lemma bc_do_frame s o : let s' := fst (M.bc_do s o) in
  same_ctl s s' /\ M.lc s' = M.lc s /\ M.lobjs s' = M.lobjs s /\ M.bc s' = fst (step (M.bc s) o).
Proof.
  unfold M.bc_do. cbn [fst]. destruct (fold_close_blob_frame (M.newlog (M.bc s) (fst (step (M.bc s) o))) (M.set_bc s (fst (step (M.bc s) o)))) as (A & B & C & D).
  repeat split; try apply A; assumption.
Qed.

(* ---------- layer eviction callback ---------- *)
Lemma close_layer_ok s xl xb v pl :
  RI s xl xb (v :: pl) [] -> ~ In v pl -> In v (log (M.lc s)) -> RI (M.close_layer s v) xl xb pl [].
Proof.
  intros I Hn Hin.
  assert (Hlt : v < length (M.lobjs s)) by (rewrite (i_lenl _ _ _ _ _ I); apply (inv_log _ (i_lc _ _ _ _ _ I)); exact Hin).
  destruct (nth_error (M.lobjs s) v) as [o|] eqn:Ho; [|apply nth_error_None in Ho; lia].
  unfold M.close_layer. rewrite Ho.
  destruct (M.l_closed o) eqn:Hc.
  { exfalso. apply (i_cl _ _ _ _ _ I _ _ Ho) in Hc. destruct Hc as [_ Hc]. apply Hc. left. reflexivity. }
  pose proof (i_eqd _ _ _ _ _ I (M.l_dir o)) as Hd.
  assert (Hown : 1 <= cnt (l_claims_d (M.l_dir o)) (M.lobjs s)).
  { apply (cnt_pos _ _ v o Ho). unfold l_claims_d. rewrite Hc, Nat.eqb_refl. reflexivity. }
  assert (Hownb : 1 <= cnt (l_claims_b (M.l_bh o)) (M.lobjs s)).
  { apply (cnt_pos _ _ v o Ho). unfold l_claims_b. rewrite Hc, Nat.eqb_refl. reflexivity. }
  pose proof (count_le1 _ (M.l_dir o) (i_nodup _ _ _ _ _ I)) as Hle.
  pose proof (i_eqb _ _ _ _ _ I (M.l_bh o)) as Hb. pose proof (avail_le1 (M.bc s) (M.l_bh o)) as Hble.
  set (bh := M.l_bh o) in *. set (dir := M.l_dir o) in *.
  set (s1 := M.rmdir (M.set_lobjs s (upd (M.lobjs s) v (M.mkL true bh dir))) dir).
  set (xb1 := fun h => xb h + (if Nat.eqb h bh then 1 else 0)).
  assert (I1 : RI s1 xl xb1 pl []).
  { destruct I as [A B C D E F G H I J K L MM N OO PP].
    constructor; cbn; auto.
    - rewrite upd_length. exact E.
    - intros v' o' Hv'. destruct (Nat.eq_dec v v') as [<-|Hne].
      + rewrite nth_upd_eq in Hv' by exact Hlt. inversion Hv'; subst; cbn. split; [intros _; split; assumption|reflexivity].
      + rewrite nth_upd_ne in Hv' by exact Hne. rewrite (G _ _ Hv'). cbn. intuition.
    - intros h. unfold claims_b. cbn. unfold xb1.
      pose proof (cnt_upd (l_claims_b h) (M.lobjs s) v o (M.mkL true bh dir) Ho) as Hu.
      assert (Px : l_claims_b h o = (bh =? h)) by (unfold l_claims_b; rewrite Hc; reflexivity).
      assert (Py : l_claims_b h (M.mkL true bh dir) = false) by reflexivity.
      rewrite Px, Py in Hu. specialize (J h). unfold claims_b in J.
      destruct (Nat.eqb_spec h bh) as [->|Hne]; [rewrite Nat.eqb_refl in Hu; lia|].
      destruct (Nat.eqb_spec bh h); [congruence|]. lia.
    - intros d. rewrite count_rm. unfold claims_d in *. cbn.
      pose proof (cnt_upd (l_claims_d d) (M.lobjs s) v o (M.mkL true bh dir) Ho) as Hu.
      assert (Px : l_claims_d d o = (dir =? d)) by (unfold l_claims_d; rewrite Hc; reflexivity).
      assert (Py : l_claims_d d (M.mkL true bh dir) = false) by reflexivity.
      rewrite Px, Py in Hu. specialize (K d).
      destruct (Nat.eqb_spec d dir) as [->|Hne]; [rewrite Nat.eqb_refl in Hu; lia|].
      destruct (Nat.eqb_spec dir d); [congruence|]. lia.
    - apply NoDup_rm. exact L.
    - intros d Hd'. apply In_rm in Hd'. apply MM. tauto.
    - intros v' o' Hv'. destruct (Nat.eq_dec v v') as [<-|Hne].
      + rewrite nth_upd_eq in Hv' by exact Hlt. inversion Hv'; subst; cbn. split; [apply (N _ _ Ho)|].
        intros _. split; [rewrite In_rm; tauto|]. right. unfold xb1. rewrite Nat.eqb_refl. lia.
      + rewrite nth_upd_ne in Hv' by exact Hne. destruct (N _ _ Hv') as [N1 N2]. split; [exact N1|].
        intros Hcl. destruct (N2 Hcl) as [N3 N4]. split; [rewrite In_rm; tauto|].
        destruct N4 as [N4|N4]; [left; exact N4|right; unfold xb1; lia].
    - intros b' o' Hb'. destruct (OO _ _ Hb') as [O1 O2]. split; [exact O1|].
      intros Hcl. rewrite In_rm. specialize (O2 Hcl). tauto. }
  assert (Hz : claims_b s1 bh = 0).
  { pose proof (i_eqb _ _ _ _ _ I1 bh) as H1. unfold xb1 in H1. rewrite Nat.eqb_refl in H1.
    assert (avail (M.bc s1) bh = avail (M.bc s) bh) by reflexivity. unfold claims_b in Hb. lia. }
  pose proof (bc_evict_ok s1 xl xb1 pl (Release bh true) I1 eq_refl) as I2.
  eapply RI_ext; [| |apply I2].
  - reflexivity.
  - intros h. cbn [x_after]. unfold xb1. destruct (Nat.eqb_spec h bh) as [->|Hne]; [|lia].
    unfold claims_b in Hb. lia.
  - intros h0 ev Heq. inversion Heq; subst. exact Hz.
Qed.

Lemma close_layer_frame s v : same_ctl s (M.close_layer s v) /\ M.lc (M.close_layer s v) = M.lc s.
Proof.
  unfold M.close_layer. destruct (nth_error (M.lobjs s) v) as [o|]; [|split; [apply same_ctl_refl|reflexivity]].
  destruct (M.l_closed o); [split; [apply same_ctl_refl|reflexivity]|].
  match goal with |- context [M.bc_do ?s1 ?o1] => destruct (bc_do_frame s1 o1) as (A & B & _) end.
  split; [exact A|exact B].
Qed.

Lemma fold_close_layer pl : forall s xl xb,
  NoDup pl -> (forall v, In v pl -> In v (log (M.lc s))) -> RI s xl xb pl [] ->
  RI (fold_left M.close_layer pl s) xl xb [] [].
Proof.
  induction pl as [|v pl IH]; intros s xl xb Hnd Hin I; simpl; [exact I|].
  inversion Hnd as [|? ? Hn Hd]; subst.
  apply IH; [exact Hd| |].
  - intros v' Hv'. rewrite (proj2 (close_layer_frame s v)). apply Hin. right. exact Hv'.
  - apply close_layer_ok; [exact I|exact Hn|apply Hin; left; reflexivity].
Qed.

Lemma fold_close_layer_frame l : forall s, let s' := fold_left M.close_layer l s in same_ctl s s' /\ M.lc s' = M.lc s.
Proof.
  induction l as [|v l IH]; intros s; simpl; [split; [apply same_ctl_refl|reflexivity]|].
  destruct (IH (M.close_layer s v)) as (A & B). destruct (close_layer_frame s v) as (A' & B').
  split; [eapply same_ctl_trans; eauto|congruence].
Qed.

Lemma lc_do_frame s o : let s' := fst (M.lc_do s o) in same_ctl s s' /\ M.lc s' = fst (step (M.lc s) o).
Proof.
  unfold M.lc_do. cbn [fst].
  destruct (fold_close_layer_frame (M.newlog (M.lc s) (fst (step (M.lc s) o))) (M.set_lc s (fst (step (M.lc s) o)))) as (A & B).
  split; [exact A|exact B].
Qed.

(* one evicting critical section of the layer cache, with the layer.close() callbacks it triggers *)
Lemma lc_evict_ok s xl xb o :
  RI s xl xb [] [] -> evicting o = true ->
  (forall h0 ev, o = Release h0 ev -> claims_l s h0 = 0) ->
  RI (fst (M.lc_do s o)) (x_after o xl) xb [] [].
Proof.
  intros I He Hrel. unfold M.lc_do. cbn [fst].
  destruct (newlog_spec (M.lc s) o) as (l & Hl & Hnl). rewrite Hnl.
  pose proof (step_inv (M.lc s) o (i_lc _ _ _ _ _ I)) as I'.
  pose proof (inv_log_nodup _ I') as Hnd. rewrite Hl in Hnd. destruct (NoDup_app_r _ _ Hnd) as [Hndl Hdis].
  apply fold_close_layer; [exact Hndl| |].
  { intros b Hb. cbn. rewrite Hl. apply in_or_app. right. exact Hb. }
  destruct I as [A B C D E F G H I J K L MM N OO PP].
  constructor; cbn; auto.
  - rewrite cap_step. exact C.
  - rewrite (len_step_evicting _ _ He). exact E.
  - intros v ov Hv. rewrite (G _ _ Hv), Hl, in_app_iff. split.
    + intros [Hin _]. split; [left; exact Hin|apply Hdis; exact Hin].
    + intros [[Hin|Hin] Hn]; [split; [exact Hin|intros []]|contradiction].
  - intros h. change (claims_l s h + x_after o xl h = avail (fst (step (M.lc s) o)) h).
    destruct o as [k|k|k|k|h0 ev]; try discriminate; cbn [x_after].
    + rewrite avail_evicting; [apply I|reflexivity|discriminate].
    + rewrite avail_evicting; [apply I|reflexivity|discriminate].
    + rewrite avail_release. destruct (Nat.eqb_spec h h0) as [->|Hne]; [|apply I].
      rewrite (Hrel h0 ev eq_refl). reflexivity.
  - intros u h Hu. destruct (PP u h Hu) as [[v Hv]|Hx].
    + left. exists v. apply fired_mono; assumption.
    + destruct o as [k|k|k|k|h0 ev]; try discriminate; cbn [x_after]; try (right; exact Hx).
      destruct (Nat.eqb_spec h h0) as [Heq|Hne]; [|right; exact Hx].
      left. specialize (I h0). rewrite (Hrel h0 ev eq_refl) in I. rewrite Heq in Hx.
      unfold avail in I. destruct (nth_error (hs (M.lc s)) h0) as [[i r]|] eqn:H0; [|lia].
      exists i. rewrite Heq. apply (release_marks_fired _ _ _ _ _ H0).
Qed.

(* ---------- bookkeeping updates ---------- *)
Lemma RI_locks s xl xb pl pb x : RI s xl xb pl pb -> RI (M.set_locks s x) xl xb pl pb.
Proof. intros [A B C D E F G H I J K L MM N OO PP]. constructor; cbn; auto. Qed.

Lemma RI_bad s xl xb pl pb x : RI s xl xb pl pb -> RI (M.set_bad s x) xl xb pl pb.
Proof. intros [A B C D E F G H I J K L MM N OO PP]. constructor; cbn; auto. Qed.

Definition b2n (b : bool) : nat := if b then 1 else 0.

Definition all_fired (s : M.st) : Prop :=
  forall v o, nth_error (M.lobjs s) v = Some o -> M.l_closed o = true -> exists b, nth_error (hs (M.bc s)) (M.l_bh o) = Some (b, true).

Definition all_ufired (s : M.st) : Prop :=
  forall u h, nth_error (M.uh s) u = Some (h, true) -> exists v, nth_error (hs (M.lc s)) h = Some (v, true).

Lemma RI_zero_ufired s xb pl pb : RI s zero xb pl pb -> all_ufired s.
Proof.
  intros I u h Hu. destruct (i_urel _ _ _ _ _ I u h Hu) as [Hf|Hx]; [exact Hf|]. unfold zero in Hx. lia.
Qed.

Lemma RI_zero_fired s xl pl pb : RI s xl zero pl pb -> all_fired s.
Proof.
  intros I v o Hv Hc. destruct (i_ldead _ _ _ _ _ I v o Hv) as [_ H]. destruct (H Hc) as [_ [Hf|Hx]]; [exact Hf|].
  unfold zero in Hx. lia.
Qed.

Lemma RI_setpc s xl xb xl' xb' t th n p :
  RI s xl xb [] [] -> nth_error (M.thrs s) t = Some th ->
  (forall h, b2n (opt_is (pc_lh p) h) + xl' h = b2n (opt_is (pc_lh (M.t_pc th)) h) + xl h) ->
  (forall h, b2n (opt_is (pc_bh p) h) + xb' h = b2n (opt_is (pc_bh (M.t_pc th)) h) + xb h) ->
  ((forall h, xb h <= xb' h) \/ all_fired s) ->
  pc_dir p = pc_dir (M.t_pc th) ->
  ((forall h, xl h <= xl' h) \/ all_ufired s) ->
  RI (M.setpc s t n p) xl' xb' [] [].
Proof.
  intros [A B C D E F G H I J K L MM N OO PP] Ht El Eb Hx Ed Hxl.
  constructor; cbn; auto.
  - intros h. unfold claims_l in *. cbn.
    pose proof (cnt_upd (t_claims pc_lh h) (M.thrs s) t th (M.mkT n p) Ht) as Hu.
    change (t_claims pc_lh h th) with (opt_is (pc_lh (M.t_pc th)) h) in Hu;
    change (t_claims pc_lh h (M.mkT n p)) with (opt_is (pc_lh p) h) in Hu. specialize (I h). specialize (El h). unfold b2n in El.
    destruct (opt_is (pc_lh p) h), (opt_is (pc_lh (M.t_pc th)) h); lia.
  - intros h. unfold claims_b in *. cbn.
    pose proof (cnt_upd (t_claims pc_bh h) (M.thrs s) t th (M.mkT n p) Ht) as Hu.
    change (t_claims pc_bh h th) with (opt_is (pc_bh (M.t_pc th)) h) in Hu;
    change (t_claims pc_bh h (M.mkT n p)) with (opt_is (pc_bh p) h) in Hu. specialize (J h). specialize (Eb h). unfold b2n in Eb.
    destruct (opt_is (pc_bh p) h), (opt_is (pc_bh (M.t_pc th)) h); lia.
  - intros d. unfold claims_d in *. cbn.
    pose proof (cnt_upd (t_claims pc_dir d) (M.thrs s) t th (M.mkT n p) Ht) as Hu.
    change (t_claims pc_dir d th) with (opt_is (pc_dir (M.t_pc th)) d) in Hu;
    change (t_claims pc_dir d (M.mkT n p)) with (opt_is (pc_dir p) d) in Hu. rewrite Ed in Hu. specialize (K d). lia.
  - intros v o Hv. destruct (N v o Hv) as [N1 N2]. split; [exact N1|]. intros Hc. destruct (N2 Hc) as [N3 N4].
    split; [exact N3|]. destruct Hx as [Hx|Hx].
    + destruct N4 as [N4|N4]; [left; exact N4|right]. specialize (Hx (M.l_bh o)). lia.
    + left. apply (Hx v o Hv Hc).
  - intros u h Hu. destruct Hxl as [Hxl|Hxl].
    + destruct (PP u h Hu) as [P1|P1]; [left; exact P1|right]. specialize (Hxl h). lia.
    + left. apply (Hxl u h Hu).
Qed.

(* a thread step that leaves all claims where they are *)
Lemma RI_setpc_same s t th n p :
  RInv s -> nth_error (M.thrs s) t = Some th ->
  pc_lh p = pc_lh (M.t_pc th) -> pc_bh p = pc_bh (M.t_pc th) -> pc_dir p = pc_dir (M.t_pc th) ->
  RInv (M.setpc s t n p).
Proof.
  intros I Ht El Eb Ed. apply (RI_setpc s zero zero zero zero t th n p I Ht); auto.
  - intros h. rewrite El. reflexivity.
  - intros h. rewrite Eb. reflexivity.
Qed.

Lemma RI_start s n : RInv s -> RInv (M.set_thrs s (M.thrs s ++ [M.mkT n M.PWait])).
Proof.
  intros [A B C D E F G H I J K L MM N OO PP]. constructor; cbn; auto.
  - intros h. unfold claims_l in *. cbn. rewrite cnt_snoc. cbn. specialize (I h). lia.
  - intros h. unfold claims_b in *. cbn. rewrite cnt_snoc. cbn. specialize (J h). lia.
  - intros d. unfold claims_d in *. cbn. rewrite cnt_snoc. cbn. specialize (K d). lia.
Qed.

Lemma avail_claimed_l s xl xb h : RI s xl xb [] [] -> 1 <= claims_l s h ->
  claims_l s h = 1 /\ xl h = 0 /\ exists v, nth_error (hs (M.lc s)) h = Some (v, false).
Proof.
  intros I Hc. pose proof (i_eql _ _ _ _ _ I h) as E. pose proof (avail_le1 (M.lc s) h) as Hle.
  assert (Ha : avail (M.lc s) h = 1) by lia. repeat split; try lia.
  unfold avail in Ha. destruct (nth_error (hs (M.lc s)) h) as [[v []]|]; try discriminate. exists v. reflexivity.
Qed.

Lemma avail_claimed_b s xl xb h : RI s xl xb [] [] -> 1 <= claims_b s h ->
  claims_b s h = 1 /\ xb h = 0 /\ exists v, nth_error (hs (M.bc s)) h = Some (v, false).
Proof.
  intros I Hc. pose proof (i_eqb _ _ _ _ _ I h) as E. pose proof (avail_le1 (M.bc s) h) as Hle.
  assert (Ha : avail (M.bc s) h = 1) by lia. repeat split; try lia.
  unfold avail in Ha. destruct (nth_error (hs (M.bc s)) h) as [[v []]|]; try discriminate. exists v. reflexivity.
Qed.

Lemma thr_claims_l s t th h : nth_error (M.thrs s) t = Some th -> pc_lh (M.t_pc th) = Some h -> 1 <= claims_l s h.
Proof.
  intros Ht Hp. unfold claims_l. assert (1 <= cnt (t_claims pc_lh h) (M.thrs s)); [|lia].
  apply (cnt_pos _ _ t th Ht). unfold t_claims. rewrite Hp. cbn. apply Nat.eqb_refl.
Qed.
Lemma thr_claims_b s t th h : nth_error (M.thrs s) t = Some th -> pc_bh (M.t_pc th) = Some h -> 1 <= claims_b s h.
Proof.
  intros Ht Hp. unfold claims_b. assert (1 <= cnt (t_claims pc_bh h) (M.thrs s)); [|lia].
  apply (cnt_pos _ _ t th Ht). unfold t_claims. rewrite Hp. cbn. apply Nat.eqb_refl.
Qed.

(* ---------- non-evicting cache ops (capacity 0: no callback) ---------- *)
Lemma avail_snoc c c' v h : hs c' = hs c ++ [(v, false)] -> avail c' h = avail c h + b2n (Nat.eqb h (length (hs c))).
Proof.
  intros E. unfold avail. rewrite E. destruct (Nat.lt_ge_cases h (length (hs c))) as [Hlt|Hge].
  - rewrite nth_error_app1 by exact Hlt. destruct (Nat.eqb_spec h (length (hs c))); [lia|]. cbn. lia.
  - rewrite nth_error_app2 by exact Hge. apply nth_error_None in Hge as Hn. rewrite Hn.
    destruct (Nat.eqb_spec h (length (hs c))) as [->|Hne].
    + rewrite Nat.sub_diag. reflexivity.
    + destruct (h - length (hs c)) as [|k] eqn:Hk; [lia|]. cbn. destruct k; reflexivity.
Qed.

Lemma fired_snoc c c' v h b : hs c' = hs c ++ [(v, false)] ->
  nth_error (hs c) h = Some (b, true) -> nth_error (hs c') h = Some (b, true).
Proof. intros E H. rewrite E. rewrite nth_error_app1; [exact H|]. eapply nth_some_lt; eauto. Qed.

(* a hit (Get or Add of a cached key) *)
Definition is_hit (c : R.st) (o : op) (v : nat) : Prop :=
  match o with
  | Get k | Add k => lru_find (lru c) k = Some v
  | _ => False
  end.

Lemma hit_spec c o v : is_hit c o v ->
  let c' := fst (step c o) in
  hs c' = hs c ++ [(v, false)] /\ log c' = log c /\ length (ents c') = length (ents c) /\
  exists fl, snd (step c o) = Some (v, fl) /\ (fl = match o with Get _ => true | _ => false end).
Proof.
  destruct o as [k|k|k|k|h ev]; cbn [is_hit]; try tauto; intros H.
  - rewrite (step_add_hit _ _ _ H). cbn [fst snd]. rewrite acquire_touch_hs, acquire_touch_log, acquire_touch_len. eauto 6.
  - rewrite (step_get_hit _ _ _ H). cbn [fst snd]. rewrite acquire_touch_hs, acquire_touch_log, acquire_touch_len. eauto 6.
Qed.

Lemma newlog_same c c' : log c' = log c -> M.newlog c c' = [].
Proof. intros E. unfold M.newlog. rewrite E. apply skipn_all. Qed.

Definition plus_at (x : nat -> nat) (h0 : nat) : nat -> nat := fun h => x h + b2n (Nat.eqb h h0).

Lemma lc_hit_ok s xl xb o v :
  RI s xl xb [] [] -> is_hit (M.lc s) o v ->
  fst (M.lc_do s o) = M.set_lc s (fst (step (M.lc s) o)) /\
  RI (fst (M.lc_do s o)) (plus_at xl (length (hs (M.lc s)))) xb [] [].
Proof.
  intros I Hh. destruct (hit_spec _ _ _ Hh) as (Ehs & Elog & Elen & _).
  assert (E : fst (M.lc_do s o) = M.set_lc s (fst (step (M.lc s) o))).
  { unfold M.lc_do. cbn [fst]. rewrite (newlog_same _ _ Elog). reflexivity. }
  split; [exact E|]. rewrite E.
  destruct I as [A B C D E' F G H I J K L MM N OO PP].
  constructor; cbn; auto.
  - apply step_inv. exact A.
  - rewrite cap_step. exact C.
  - rewrite Elen. exact E'.
  - intros v' o' Hv'. rewrite Elog. apply G. exact Hv'.
  - intros h. change (claims_l s h + plus_at xl (length (hs (M.lc s))) h = avail (fst (step (M.lc s) o)) h).
    rewrite (avail_snoc _ _ _ h Ehs). unfold plus_at. specialize (I h). lia.
  - intros u h Hu. destruct (PP u h Hu) as [[w Hw]|Hx]; [left; exists w; eapply fired_snoc; eauto|right; unfold plus_at; lia].
Qed.

Lemma bc_hit_ok s xl xb o v :
  RI s xl xb [] [] -> is_hit (M.bc s) o v ->
  fst (M.bc_do s o) = M.set_bc s (fst (step (M.bc s) o)) /\
  RI (fst (M.bc_do s o)) xl (plus_at xb (length (hs (M.bc s)))) [] [].
Proof.
  intros I Hh. destruct (hit_spec _ _ _ Hh) as (Ehs & Elog & Elen & _).
  assert (E : fst (M.bc_do s o) = M.set_bc s (fst (step (M.bc s) o))).
  { unfold M.bc_do. cbn [fst]. rewrite (newlog_same _ _ Elog). reflexivity. }
  split; [exact E|]. rewrite E.
  destruct I as [A B C D E' F G H I J K L MM N OO PP].
  constructor; cbn; auto.
  - apply step_inv. exact B.
  - rewrite cap_step. exact D.
  - rewrite Elen. exact F.
  - intros v' o' Hv'. rewrite Elog. apply H. exact Hv'.
  - intros h. change (claims_b s h + plus_at xb (length (hs (M.bc s))) h = avail (fst (step (M.bc s) o)) h).
    rewrite (avail_snoc _ _ _ h Ehs). unfold plus_at. specialize (J h). lia.
  - intros v' o' Hv'. destruct (N v' o' Hv') as [N1 N2]. split; [exact N1|]. intros Hc. destruct (N2 Hc) as [N3 N4].
    split; [exact N3|]. destruct N4 as [[b Hb]|N4]; [left; exists b; eapply fired_snoc; eauto|right; unfold plus_at; lia].
Qed.

(* a caller takes over a handed-out layer-cache handle (Resolve returns a layerRef) *)
Lemma RI_user s xl xb xl' h :
  RI s xl xb [] [] -> (forall h', b2n (Nat.eqb h h') + xl' h' = xl h') -> all_ufired s ->
  RI (M.set_uh s (M.uh s ++ [(h, false)])) xl' xb [] [].
Proof.
  intros [A B C D E F G H I J K L MM N OO PP] El Huf. constructor; cbn; auto.
  2:{ intros u h0 Hu. left. destruct (Nat.lt_ge_cases u (length (M.uh s))) as [Hlt|Hge].
      - rewrite nth_error_app1 in Hu by exact Hlt. apply (Huf u h0 Hu).
      - rewrite nth_error_app2 in Hu by exact Hge. destruct (u - length (M.uh s)) as [|j]; [discriminate|destruct j; discriminate]. }
  intros h'. unfold claims_l in *. cbn. rewrite cnt_snoc. unfold u_claims at 2. cbn.
  specialize (I h'). specialize (El h'). rewrite andb_true_r. unfold b2n in El. destruct (h =? h'); lia.
Qed.

(* a thread gives up its directory and removes it *)
Lemma RI_setpc_rmdir s xl xb xl' xb' t th n p d :
  RI s xl xb [] [] -> nth_error (M.thrs s) t = Some th ->
  (forall h, b2n (opt_is (pc_lh p) h) + xl' h = b2n (opt_is (pc_lh (M.t_pc th)) h) + xl h) ->
  (forall h, b2n (opt_is (pc_bh p) h) + xb' h = b2n (opt_is (pc_bh (M.t_pc th)) h) + xb h) ->
  ((forall h, xb h <= xb' h) \/ all_fired s) ->
  pc_dir (M.t_pc th) = Some d -> pc_dir p = None ->
  ((forall h, xl h <= xl' h) \/ all_ufired s) ->
  RI (M.rmdir (M.setpc s t n p) d) xl' xb' [] [].
Proof.
  intros I Ht El Eb Hx Ed Ed' Hxl.
  pose proof (i_eqd _ _ _ _ _ I d) as Hd. pose proof (count_le1 _ d (i_nodup _ _ _ _ _ I)) as Hle.
  assert (Hown : 1 <= cnt (t_claims pc_dir d) (M.thrs s)).
  { apply (cnt_pos _ _ t th Ht). unfold t_claims. rewrite Ed. cbn. apply Nat.eqb_refl. }
  destruct I as [A B C D E F G H I J K L MM N OO PP].
  constructor; cbn; auto.
  - intros h. unfold claims_l in *. cbn.
    pose proof (cnt_upd (t_claims pc_lh h) (M.thrs s) t th (M.mkT n p) Ht) as Hu.
    change (t_claims pc_lh h th) with (opt_is (pc_lh (M.t_pc th)) h) in Hu;
    change (t_claims pc_lh h (M.mkT n p)) with (opt_is (pc_lh p) h) in Hu.
    specialize (I h). specialize (El h). unfold b2n in El.
    destruct (opt_is (pc_lh p) h), (opt_is (pc_lh (M.t_pc th)) h); lia.
  - intros h. unfold claims_b in *. cbn.
    pose proof (cnt_upd (t_claims pc_bh h) (M.thrs s) t th (M.mkT n p) Ht) as Hu.
    change (t_claims pc_bh h th) with (opt_is (pc_bh (M.t_pc th)) h) in Hu;
    change (t_claims pc_bh h (M.mkT n p)) with (opt_is (pc_bh p) h) in Hu.
    specialize (J h). specialize (Eb h). unfold b2n in Eb.
    destruct (opt_is (pc_bh p) h), (opt_is (pc_bh (M.t_pc th)) h); lia.
  - intros d'. rewrite count_rm. unfold claims_d in *. cbn.
    pose proof (cnt_upd (t_claims pc_dir d') (M.thrs s) t th (M.mkT n p) Ht) as Hu.
    change (t_claims pc_dir d' th) with (opt_is (pc_dir (M.t_pc th)) d') in Hu;
    change (t_claims pc_dir d' (M.mkT n p)) with (opt_is (pc_dir p) d') in Hu.
    rewrite Ed, Ed' in Hu. cbn in Hu. specialize (K d').
    destruct (Nat.eqb_spec d' d) as [->|Hne]; [rewrite Nat.eqb_refl in Hu; lia|].
    destruct (Nat.eqb_spec d d'); [congruence|]. lia.
  - apply NoDup_rm. exact L.
  - intros d' Hd'. apply In_rm in Hd'. apply MM. tauto.
  - intros v o Hv. destruct (N v o Hv) as [N1 N2]. split; [exact N1|]. intros Hc. destruct (N2 Hc) as [N3 N4].
    split; [rewrite In_rm; tauto|]. destruct Hx as [Hx|Hx].
    + destruct N4 as [N4|N4]; [left; exact N4|right]. specialize (Hx (M.l_bh o)). lia.
    + left. apply (Hx v o Hv Hc).
  - intros b o Hb. destruct (OO b o Hb) as [O1 O2]. split; [exact O1|]. intros Hc. rewrite In_rm. specialize (O2 Hc). tauto.
  - intros u h Hu. destruct Hxl as [Hxl|Hxl].
    + destruct (PP u h Hu) as [P1|P1]; [left; exact P1|right]. specialize (Hxl h). lia.
    + left. apply (Hxl u h Hu).
Qed.

(* a thread creates a directory *)
Lemma RI_mkdir s t th n p k :
  RInv s -> nth_error (M.thrs s) t = Some th ->
  pc_lh p = pc_lh (M.t_pc th) -> pc_bh p = pc_bh (M.t_pc th) ->
  pc_dir (M.t_pc th) = None -> pc_dir p = Some (length (M.kinds s)) ->
  RInv (M.setpc (fst (M.mkdir s k)) t n p).
Proof.
  intros I Ht El Eb Ed Ed'.
  assert (Hfresh : ~ In (length (M.kinds s)) (M.dirs s)).
  { intros Hin. apply (i_dlt _ _ _ _ _ I) in Hin. lia. }
  destruct I as [A B C D E F G H I J K L MM N OO PP].
  constructor; cbn; auto.
  - intros h. unfold claims_l in *. cbn.
    pose proof (cnt_upd (t_claims pc_lh h) (M.thrs s) t th (M.mkT n p) Ht) as Hu.
    change (t_claims pc_lh h th) with (opt_is (pc_lh (M.t_pc th)) h) in Hu;
    change (t_claims pc_lh h (M.mkT n p)) with (opt_is (pc_lh p) h) in Hu.
    rewrite El in Hu. specialize (I h). lia.
  - intros h. unfold claims_b in *. cbn.
    pose proof (cnt_upd (t_claims pc_bh h) (M.thrs s) t th (M.mkT n p) Ht) as Hu.
    change (t_claims pc_bh h th) with (opt_is (pc_bh (M.t_pc th)) h) in Hu;
    change (t_claims pc_bh h (M.mkT n p)) with (opt_is (pc_bh p) h) in Hu.
    rewrite Eb in Hu. specialize (J h). lia.
  - intros d. unfold claims_d in *. cbn.
    pose proof (cnt_upd (t_claims pc_dir d) (M.thrs s) t th (M.mkT n p) Ht) as Hu.
    change (t_claims pc_dir d th) with (opt_is (pc_dir (M.t_pc th)) d) in Hu;
    change (t_claims pc_dir d (M.mkT n p)) with (opt_is (pc_dir p) d) in Hu.
    rewrite Ed, Ed' in Hu. cbn in Hu. specialize (K d).
    destruct (Nat.eq_dec (length (M.kinds s)) d) as [Heq|Hne]; [subst d; rewrite Nat.eqb_refl in Hu|].
    { cbn. destruct (Nat.eq_dec (length (M.kinds s)) (length (M.kinds s))); [|congruence]. rewrite (proj1 (count_occ_not_In Nat.eq_dec _ _) Hfresh) in *. lia. }
    cbn. destruct (Nat.eq_dec (length (M.kinds s)) d); [congruence|].
    destruct (Nat.eqb_spec (length (M.kinds s)) d); [congruence|]. lia.
  - constructor; assumption.
  - intros d [<-|Hd]; rewrite app_length; cbn; [lia|]. apply MM in Hd. lia.
  - intros v o Hv. destruct (N v o Hv) as [N1 N2]. split; [rewrite app_length; lia|]. intros Hc. destruct (N2 Hc) as [N3 N4].
    split; [|exact N4]. intros [Heq|Hin]; [lia|tauto].
  - intros b o Hb. destruct (OO b o Hb) as [O1 O2]. split; [rewrite app_length; lia|]. intros Hc. specialize (O2 Hc).
    intros [Heq|Hin]; [lia|tauto].
Qed.

Lemma thr_dir_in s xl xb t th d : RI s xl xb [] [] -> nth_error (M.thrs s) t = Some th -> pc_dir (M.t_pc th) = Some d ->
  In d (M.dirs s) /\ d < length (M.kinds s).
Proof.
  intros I Ht Hd. assert (Hin : In d (M.dirs s)).
  { apply (count_occ_In Nat.eq_dec). rewrite <- (i_eqd _ _ _ _ _ I d). unfold claims_d.
    assert (1 <= cnt (t_claims pc_dir d) (M.thrs s)); [|lia].
    apply (cnt_pos _ _ t th Ht). unfold t_claims. rewrite Hd. cbn. apply Nat.eqb_refl. }
  split; [exact Hin|apply (i_dlt _ _ _ _ _ I); exact Hin].
Qed.

Lemma add_miss_spec c k : cap c = 0%Z -> lru_find (lru c) k = None ->
  step c (Add k) = (add_new c k, Some (length (ents c), true)).
Proof. intros Hc Hf. rewrite (step_add_new _ _ Hf). rewrite trim_cap0; [reflexivity|]. rewrite add_new_cap. exact Hc. Qed.

(* registry answered: remote blob constructed and added to the blob cache (fresh key) *)
Lemma bc_add_new_ok s t th n k d :
  RInv s -> nth_error (M.thrs s) t = Some th -> M.t_pc th = M.PHandle d -> lru_find (lru (M.bc s)) k = None ->
  let s1 := fst (M.bc_do s (Add k)) in
  RInv (M.setpc (M.set_bobjs s1 (M.bobjs s1 ++ [M.mkB false d])) t n (M.PMkFs (length (hs (M.bc s))))).
Proof.
  intros I Ht Hp Hf. pose proof (RI_zero_fired _ _ _ _ I) as Hfired.
  assert (Hpd : pc_dir (M.t_pc th) = Some d) by (rewrite Hp; reflexivity).
  destruct (thr_dir_in _ _ _ _ _ _ I Ht Hpd) as [Hdin Hdlt].
  pose proof (add_miss_spec _ k (i_capb _ _ _ _ _ I) Hf) as Hs.
  assert (E : fst (M.bc_do s (Add k)) = M.set_bc s (add_new (M.bc s) k)).
  { unfold M.bc_do. cbn [fst]. rewrite Hs. cbn [fst]. rewrite (newlog_same _ _ (add_new_log _ _)). reflexivity. }
  cbv zeta. rewrite E. clear E.
  pose proof (add_new_hs (M.bc s) k) as Ehs.
  destruct I as [A B C D E F G H I J K L MM N OO PP].
  constructor; cbn; auto.
  - replace (add_new (M.bc s) k) with (fst (step (M.bc s) (Add k))) by (rewrite Hs; reflexivity). apply step_inv. exact B.
  - rewrite add_new_cap. exact D.
  - rewrite app_length, add_new_len. cbn. lia.
  - intros b o Hb. rewrite add_new_log. destruct (Nat.lt_ge_cases b (length (M.bobjs s))) as [Hlt|Hge].
    + rewrite nth_error_app1 in Hb by exact Hlt. apply H. exact Hb.
    + rewrite nth_error_app2 in Hb by exact Hge. destruct (b - length (M.bobjs s)) as [|j] eqn:Hj; [|destruct j; discriminate].
      inversion Hb; subst; cbn. split; [discriminate|]. intros [Hin _]. apply (inv_log _ B) in Hin. lia.
  - intros h. unfold claims_l in *. cbn.
    pose proof (cnt_upd (t_claims pc_lh h) (M.thrs s) t th (M.mkT n (M.PMkFs (length (hs (M.bc s))))) Ht) as Hu.
    change (t_claims pc_lh h th) with (opt_is (pc_lh (M.t_pc th)) h) in Hu. rewrite Hp in Hu. cbn in Hu.
    change (t_claims pc_lh h _) with false in Hu. specialize (I h). lia.
  - intros h. unfold claims_b in *. cbn. rewrite (avail_snoc _ _ _ h Ehs).
    pose proof (cnt_upd (t_claims pc_bh h) (M.thrs s) t th (M.mkT n (M.PMkFs (length (hs (M.bc s))))) Ht) as Hu.
    change (t_claims pc_bh h th) with (opt_is (pc_bh (M.t_pc th)) h) in Hu. rewrite Hp in Hu. cbn in Hu.
    change (t_claims pc_bh h (M.mkT n (M.PMkFs (length (hs (M.bc s)))))) with (Nat.eqb (length (hs (M.bc s))) h) in Hu.
    specialize (J h). unfold zero in *. rewrite (Nat.eqb_sym h). unfold b2n. destruct (length (hs (M.bc s)) =? h); lia.
  - intros d'. unfold claims_d in *. cbn. rewrite cnt_snoc.
    pose proof (cnt_upd (t_claims pc_dir d') (M.thrs s) t th (M.mkT n (M.PMkFs (length (hs (M.bc s))))) Ht) as Hu.
    change (t_claims pc_dir d' th) with (opt_is (pc_dir (M.t_pc th)) d') in Hu. rewrite Hp in Hu. cbn in Hu.
    change (t_claims pc_dir d' (M.mkT n (M.PMkFs (length (hs (M.bc s)))))) with false in Hu.
    change (b_claims_d d' (M.mkB false d)) with (Nat.eqb d d'). specialize (K d'). destruct (d =? d'); lia.
  - intros v o Hv. destruct (N v o Hv) as [N1 N2]. split; [exact N1|]. intros Hc. destruct (N2 Hc) as [N3 _].
    split; [exact N3|]. left. destruct (Hfired v o Hv Hc) as [b Hb]. exists b. eapply fired_snoc; eauto.
  - intros b o Hb. destruct (Nat.lt_ge_cases b (length (M.bobjs s))) as [Hlt|Hge].
    + rewrite nth_error_app1 in Hb by exact Hlt. apply OO with b. exact Hb.
    + rewrite nth_error_app2 in Hb by exact Hge. destruct (b - length (M.bobjs s)) as [|j] eqn:Hj; [|destruct j; discriminate].
      inversion Hb; subst; cbn. split; [exact Hdlt|discriminate].
Qed.

Lemma thr_bh_lt s xl xb t th bh : RI s xl xb [] [] -> nth_error (M.thrs s) t = Some th -> pc_bh (M.t_pc th) = Some bh ->
  exists b, nth_error (hs (M.bc s)) bh = Some (b, false).
Proof. intros I Ht Hp. apply (avail_claimed_b s xl xb bh I). eapply thr_claims_b; eauto. Qed.

(* TOC opened: layer constructed and added to the layer cache (fresh key); the caller receives the layerRef *)
Lemma lc_add_new_ok s t th n k bh d lk :
  RInv s -> nth_error (M.thrs s) t = Some th -> M.t_pc th = M.PMeta bh d -> lru_find (lru (M.lc s)) k = None ->
  let s1 := fst (M.lc_do s (Add k)) in
  RInv (M.set_locks (M.setpc (M.set_uh (M.set_lobjs s1 (M.lobjs s1 ++ [M.mkL false bh d]))
                                       (M.uh s1 ++ [(length (hs (M.lc s)), false)])) t n M.PDone) lk).
Proof.
  intros I Ht Hp Hf. apply RI_locks. pose proof (RI_zero_ufired _ _ _ _ I) as Hufired.
  assert (Hpd : pc_dir (M.t_pc th) = Some d) by (rewrite Hp; reflexivity).
  destruct (thr_dir_in _ _ _ _ _ _ I Ht Hpd) as [Hdin Hdlt].
  pose proof (add_miss_spec _ k (i_capl _ _ _ _ _ I) Hf) as Hs.
  assert (E : fst (M.lc_do s (Add k)) = M.set_lc s (add_new (M.lc s) k)).
  { unfold M.lc_do. cbn [fst]. rewrite Hs. cbn [fst]. rewrite (newlog_same _ _ (add_new_log _ _)). reflexivity. }
  cbv zeta. rewrite E. clear E.
  pose proof (add_new_hs (M.lc s) k) as Ehs.
  destruct I as [A B C D E F G H I J K L MM N OO PP].
  constructor; cbn; auto.
  - replace (add_new (M.lc s) k) with (fst (step (M.lc s) (Add k))) by (rewrite Hs; reflexivity). apply step_inv. exact A.
  - rewrite add_new_cap. exact C.
  - rewrite app_length, add_new_len. cbn. lia.
  - intros v o Hv. rewrite add_new_log. destruct (Nat.lt_ge_cases v (length (M.lobjs s))) as [Hlt|Hge].
    + rewrite nth_error_app1 in Hv by exact Hlt. apply G. exact Hv.
    + rewrite nth_error_app2 in Hv by exact Hge. destruct (v - length (M.lobjs s)) as [|j] eqn:Hj; [|destruct j; discriminate].
      inversion Hv; subst; cbn. split; [discriminate|]. intros [Hin _]. apply (inv_log _ A) in Hin. lia.
  - intros h. unfold claims_l in *. cbn. rewrite (avail_snoc _ _ _ h Ehs). rewrite cnt_snoc.
    pose proof (cnt_upd (t_claims pc_lh h) (M.thrs s) t th (M.mkT n M.PDone) Ht) as Hu.
    change (t_claims pc_lh h th) with (opt_is (pc_lh (M.t_pc th)) h) in Hu. rewrite Hp in Hu. cbn in Hu.
    change (t_claims pc_lh h (M.mkT n M.PDone)) with false in Hu.
    change (u_claims h (length (hs (M.lc s)), false)) with (Nat.eqb (length (hs (M.lc s))) h && true).
    rewrite andb_true_r. specialize (I h). unfold zero in *. rewrite (Nat.eqb_sym h). unfold b2n. destruct (length (hs (M.lc s)) =? h); lia.
  - intros h. unfold claims_b in *. cbn. rewrite cnt_snoc.
    pose proof (cnt_upd (t_claims pc_bh h) (M.thrs s) t th (M.mkT n M.PDone) Ht) as Hu.
    change (t_claims pc_bh h th) with (opt_is (pc_bh (M.t_pc th)) h) in Hu. rewrite Hp in Hu. cbn in Hu.
    change (t_claims pc_bh h (M.mkT n M.PDone)) with false in Hu.
    change (l_claims_b h (M.mkL false bh d)) with (Nat.eqb bh h). specialize (J h). destruct (bh =? h); lia.
  - intros d'. unfold claims_d in *. cbn. rewrite cnt_snoc.
    pose proof (cnt_upd (t_claims pc_dir d') (M.thrs s) t th (M.mkT n M.PDone) Ht) as Hu.
    change (t_claims pc_dir d' th) with (opt_is (pc_dir (M.t_pc th)) d') in Hu. rewrite Hp in Hu. cbn in Hu.
    change (t_claims pc_dir d' (M.mkT n M.PDone)) with false in Hu.
    change (l_claims_d d' (M.mkL false bh d)) with (Nat.eqb d d'). specialize (K d'). destruct (d =? d'); lia.
  - intros v o Hv. destruct (Nat.lt_ge_cases v (length (M.lobjs s))) as [Hlt|Hge].
    + rewrite nth_error_app1 in Hv by exact Hlt. apply N with v. exact Hv.
    + rewrite nth_error_app2 in Hv by exact Hge. destruct (v - length (M.lobjs s)) as [|j] eqn:Hj; [|destruct j; discriminate].
      inversion Hv; subst; cbn. split; [exact Hdlt|discriminate].
  - intros u h Hu. left. destruct (Nat.lt_ge_cases u (length (M.uh s))) as [Hlt|Hge].
    + rewrite nth_error_app1 in Hu by exact Hlt. destruct (Hufired u h Hu) as [w Hw]. exists w. eapply fired_snoc; eauto.
    + rewrite nth_error_app2 in Hu by exact Hge. destruct (u - length (M.uh s)) as [|j]; [discriminate|destruct j; discriminate].
Qed.

Lemma RI_set_lc_id s xl xb pl pb : RI s xl xb pl pb -> RI (M.set_lc s (M.lc s)) xl xb pl pb.
Proof. intros [A B C D E F G H I J K L MM N OO PP]. constructor; cbn; auto. Qed.
Lemma RI_set_bc_id s xl xb pl pb : RI s xl xb pl pb -> RI (M.set_bc s (M.bc s)) xl xb pl pb.
Proof. intros [A B C D E F G H I J K L MM N OO PP]. constructor; cbn; auto. Qed.

Lemma lc_get_miss s k : lru_find (lru (M.lc s)) k = None -> M.lc_do s (Get k) = (M.set_lc s (M.lc s), None).
Proof.
  intros Hf. unfold M.lc_do. rewrite (step_get_miss _ _ Hf). cbn [fst snd]. rewrite (newlog_same _ _ eq_refl). reflexivity.
Qed.
Lemma bc_get_miss s k : lru_find (lru (M.bc s)) k = None -> M.bc_do s (Get k) = (M.set_bc s (M.bc s), None).
Proof.
  intros Hf. unfold M.bc_do. rewrite (step_get_miss _ _ Hf). cbn [fst snd]. rewrite (newlog_same _ _ eq_refl). reflexivity.
Qed.

Lemma eqb_plus_zero h0 h : b2n (Nat.eqb h0 h) + zero h = b2n false + plus_at zero h0 h.
Proof. unfold plus_at, zero, b2n. rewrite (Nat.eqb_sym h h0). cbn. lia. Qed.

(* a thread releases (with evict) the layer-cache handle it holds *)
Lemma thr_release_l s t th n p h ev :
  RInv s -> nth_error (M.thrs s) t = Some th -> pc_lh (M.t_pc th) = Some h ->
  pc_lh p = None -> pc_bh p = pc_bh (M.t_pc th) -> pc_dir p = pc_dir (M.t_pc th) ->
  RInv (fst (M.lc_do (M.setpc s t n p) (Release h ev))).
Proof.
  intros I Ht Hh El Eb Ed.
  set (xl1 := fun h' => b2n (Nat.eqb h h')).
  assert (I1 : RI (M.setpc s t n p) xl1 zero [] []).
  { apply (RI_setpc s zero zero xl1 zero t th n p I Ht); auto.
    - intros h'. rewrite El, Hh. cbn. unfold xl1, zero. lia.
    - intros h'. rewrite Eb. reflexivity.
    - left. intros; unfold zero; lia. }
  assert (Hz : claims_l (M.setpc s t n p) h = 0).
  { pose proof (i_eql _ _ _ _ _ I1 h) as E. pose proof (avail_le1 (M.lc (M.setpc s t n p)) h). unfold xl1 in E.
    rewrite Nat.eqb_refl in E. unfold b2n in E. lia. }
  eapply RI_ext; [| |apply (lc_evict_ok _ _ _ (Release h ev) I1 eq_refl)].
  - intros h'. cbn [x_after]. unfold xl1, zero. rewrite (Nat.eqb_sym h h'). destruct (h' =? h); reflexivity.
  - reflexivity.
  - intros h0 ev0 Heq. inversion Heq; subst. exact Hz.
Qed.

(* a thread releases (with evict) the blob-cache handle it holds, possibly after removing its directory *)
Lemma thr_release_b s1 bh ev :
  RI s1 zero (fun h' => b2n (Nat.eqb bh h')) [] [] ->
  RInv (fst (M.bc_do s1 (Release bh ev))).
Proof.
  intros I1.
  assert (Hz : claims_b s1 bh = 0).
  { pose proof (i_eqb _ _ _ _ _ I1 bh) as E. pose proof (avail_le1 (M.bc s1) bh). cbv beta in E.
    rewrite Nat.eqb_refl in E. unfold b2n in E. lia. }
  eapply RI_ext; [| |apply (bc_evict_ok _ _ _ _ (Release bh ev) I1 eq_refl)].
  - reflexivity.
  - intros h'. cbn [x_after]. unfold zero. rewrite (Nat.eqb_sym bh h'). destruct (h' =? bh); reflexivity.
  - intros h0 ev0 Heq. inversion Heq; subst. exact Hz.
Qed.

Lemma all_fired_snoc s s' v : all_fired s -> M.lobjs s' = M.lobjs s -> hs (M.bc s') = hs (M.bc s) ++ [(v, false)] -> all_fired s'.
Proof.
  intros H El Eh w o Hw Hc. rewrite El in Hw. destruct (H w o Hw Hc) as [b Hb]. exists b. eapply fired_snoc; eauto.
Qed.

Lemma all_ufired_snoc s s' v : all_ufired s -> M.uh s' = M.uh s -> hs (M.lc s') = hs (M.lc s) ++ [(v, false)] -> all_ufired s'.
Proof.
  intros H El Eh u h Hu. rewrite El in Hu. destruct (H u h Hu) as [b Hb]. exists b. eapply fired_snoc; eauto.
Qed.

Lemma snd_lc_do s o : snd (M.lc_do s o) = snd (step (M.lc s) o). Proof. reflexivity. Qed.
Lemma snd_bc_do s o : snd (M.bc_do s o) = snd (step (M.bc s) o). Proof. reflexivity. Qed.

Lemma x_after_nonrel (o : op) x : (forall h ev, o <> Release h ev) -> x_after o x = x.
Proof. destruct o; try reflexivity. intros H. exfalso. eapply H. reflexivity. Qed.

(* ---------- every sub-step of a Resolve call preserves the invariant ---------- *)
Lemma tstep_inv s t ok : RInv s -> RInv (fst (M.tstep s t ok)).
Proof.
  intros I. unfold M.tstep. destruct (nth_error (M.thrs s) t) as [th|] eqn:Ht; [|exact I].
  set (n := M.t_name th).
  destruct (M.t_pc th) as [|h|h| | |bh|bh| | |d|bh|bh d|] eqn:Hp.
  - (* PWait *)
    destruct (M.mem n (M.locks s)); [exact I|]. cbv zeta.
    set (s1 := M.set_locks s (n :: M.locks s)).
    assert (I1 : RInv s1) by (apply RI_locks; exact I).
    destruct (lru_find (lru (M.lc s)) n) as [v|] eqn:Hf.
    + assert (Hh : is_hit (M.lc s1) (Get n) v) by exact Hf.
      destruct (lc_hit_ok s1 zero zero (Get n) v I1 Hh) as [E I2].
      destruct (hit_spec _ _ _ Hh) as (_ & _ & _ & fl & Hsnd & _).
      rewrite snd_lc_do, Hsnd. cbn [fst].
      apply (RI_setpc _ (plus_at zero (length (hs (M.lc s1)))) zero zero zero t th n _ I2).
      * rewrite E. exact Ht.
      * intros h'. rewrite Hp. apply eqb_plus_zero.
      * intros h'. rewrite Hp. reflexivity.
      * left. intros; lia.
      * rewrite Hp. reflexivity.
      * right. destruct (hit_spec _ _ _ Hh) as (Ehs & _).
        apply (all_ufired_snoc s _ v (RI_zero_ufired _ _ _ _ I)); rewrite E; [reflexivity|exact Ehs].
    + rewrite (lc_get_miss s1 n Hf). cbn [fst snd].
      apply (RI_setpc_same _ t th n); [apply RI_set_lc_id; exact I1|exact Ht|rewrite Hp; reflexivity..].
  - (* PHit *)
    destruct (M.layer_flags s h) as [lcl bcl].
    assert (Hev : RInv (M.setpc s t n (M.PEvict h))).
    { apply (RI_setpc_same _ t th n); [exact I|exact Ht|rewrite Hp; reflexivity..]. }
    destruct (negb lcl && negb bcl && ok); [|exact Hev].
    destruct (M.hval (M.lc s) h) as [v|]; [|exact Hev]. cbn [fst].
    unfold M.finish, M.unlock. apply RI_locks.
    change (RI (M.set_uh (M.setpc s t n M.PDone) (M.uh (M.setpc s t n M.PDone) ++ [(h, false)])) zero zero [] []).
    apply (RI_user _ (fun h' => b2n (Nat.eqb h h')) zero zero h).
    + apply (RI_setpc s zero zero _ zero t th n _ I Ht).
      * intros h'. rewrite Hp. cbn. unfold zero. lia.
      * intros h'. rewrite Hp. reflexivity.
      * left. intros; lia.
      * rewrite Hp. reflexivity.
      * left. intros; unfold zero; lia.
    + intros h'. unfold zero. lia.
    + exact (RI_zero_ufired _ _ _ _ I).
  - (* PEvict *)
    cbn [fst]. apply (thr_release_l s t th n M.PRemove h true I Ht); try rewrite Hp; reflexivity.
  - (* PRemove *)
    cbn [fst].
    assert (I1 : RInv (M.setpc s t n M.PBlob)) by (apply (RI_setpc_same _ t th n); [exact I|exact Ht|rewrite Hp; reflexivity..]).
    apply (lc_evict_ok _ _ _ (Remove n) I1 eq_refl). discriminate.
  - (* PBlob *)
    cbv zeta.
    destruct (lru_find (lru (M.bc s)) n) as [v|] eqn:Hf.
    + assert (Hh : is_hit (M.bc s) (Get n) v) by exact Hf.
      destruct (bc_hit_ok s zero zero (Get n) v I Hh) as [E I2].
      destruct (hit_spec _ _ _ Hh) as (Ehs & _ & _ & fl & Hsnd & _).
      rewrite snd_bc_do, Hsnd. cbn [fst].
      apply (RI_setpc _ zero (plus_at zero (length (hs (M.bc s)))) zero zero t th n _ I2).
      * rewrite E. exact Ht.
      * intros h'. rewrite Hp. reflexivity.
      * intros h'. rewrite Hp. apply eqb_plus_zero.
      * right. apply (all_fired_snoc s _ v (RI_zero_fired _ _ _ _ I)); rewrite E; [reflexivity|exact Ehs].
      * rewrite Hp. reflexivity.
      * left. intros; lia.
    + rewrite (bc_get_miss s n Hf). cbn [fst snd].
      apply (RI_setpc_same _ t th n); [apply RI_set_bc_id; exact I|exact Ht|rewrite Hp; reflexivity..].
  - (* PBHit *)
    destruct (negb (M.blob_closed_of s bh) && ok); cbn [fst];
      (apply (RI_setpc_same _ t th n); [exact I|exact Ht|rewrite Hp; reflexivity..]).
  - (* PBEvict *)
    cbn [fst]. apply thr_release_b.
    apply (RI_setpc s zero zero zero _ t th n _ I Ht).
    + intros h'. rewrite Hp. reflexivity.
    + intros h'. rewrite Hp. cbn. unfold zero. lia.
    + left. intros; unfold zero; lia.
    + rewrite Hp. reflexivity.
    + left. intros; lia.
  - (* PBRemove *)
    cbn [fst].
    assert (I1 : RInv (M.setpc s t n M.PMkHttp)) by (apply (RI_setpc_same _ t th n); [exact I|exact Ht|rewrite Hp; reflexivity..]).
    apply (bc_evict_ok _ _ _ _ (Remove n) I1 eq_refl). discriminate.
  - (* PMkHttp *)
    cbn [fst M.mkdir]. apply (RI_mkdir s t th n _ false I Ht); try rewrite Hp; reflexivity.
  - (* PHandle *)
    destruct ok.
    + cbv zeta. destruct (lru_find (lru (M.bc s)) n) as [v|] eqn:Hf.
      * assert (Hh : is_hit (M.bc s) (Add n) v) by exact Hf.
        destruct (bc_hit_ok s zero zero (Add n) v I Hh) as [E I2].
        destruct (hit_spec _ _ _ Hh) as (Ehs & _ & _ & fl & Hsnd & Hfl). cbn in Hfl. subst fl.
        rewrite snd_bc_do, Hsnd. cbn [fst].
        change (RI (M.rmdir (M.setpc (fst (M.bc_do s (Add n))) t n (M.PMkFs (length (hs (M.bc s))))) d) zero zero [] []).
        apply (RI_setpc_rmdir _ zero (plus_at zero (length (hs (M.bc s)))) zero zero t th n _ d I2).
        -- rewrite E. exact Ht.
        -- intros h'. rewrite Hp. reflexivity.
        -- intros h'. rewrite Hp. apply eqb_plus_zero.
        -- right. apply (all_fired_snoc s _ v (RI_zero_fired _ _ _ _ I)); rewrite E; [reflexivity|exact Ehs].
        -- rewrite Hp. reflexivity.
        -- reflexivity.
        -- left. intros; lia.
      * rewrite snd_bc_do, (add_miss_spec _ n (i_capb _ _ _ _ _ I) Hf). cbn [fst snd].
        apply (bc_add_new_ok s t th n n d I Ht Hp Hf).
    + cbn [fst]. unfold M.finish, M.unlock.
      change (RI (M.set_locks (M.rmdir (M.setpc s t n M.PDone) d) (M.rm n (M.locks s))) zero zero [] []).
      apply RI_locks. apply (RI_setpc_rmdir s zero zero zero zero t th n _ d I Ht).
      * intros h'. rewrite Hp. reflexivity.
      * intros h'. rewrite Hp. reflexivity.
      * left. intros; lia.
      * rewrite Hp. reflexivity.
      * reflexivity.
      * left. intros; lia.
  - (* PMkFs *)
    cbn [fst M.mkdir]. apply (RI_mkdir s t th n _ true I Ht); try rewrite Hp; reflexivity.
  - (* PMeta *)
    assert (Hdrop : RI (M.rmdir (M.setpc s t n M.PDone) d) zero (fun h' => b2n (Nat.eqb bh h')) [] []).
    { apply (RI_setpc_rmdir s zero zero zero _ t th n _ d I Ht).
      - intros h'. rewrite Hp. reflexivity.
      - intros h'. rewrite Hp. cbn. unfold zero. lia.
      - left. intros; unfold zero; lia.
      - rewrite Hp. reflexivity.
      - reflexivity.
      - left. intros; lia. }
    destruct ok.
    + cbv zeta. destruct (lru_find (lru (M.lc s)) n) as [v|] eqn:Hf.
      * assert (Hh : is_hit (M.lc s) (Add n) v) by exact Hf.
        destruct (lc_hit_ok s zero zero (Add n) v I Hh) as [E I2].
        destruct (hit_spec _ _ _ Hh) as (Ehs & _ & _ & fl & Hsnd & Hfl). cbn in Hfl. subst fl.
        rewrite snd_lc_do, Hsnd. cbn [fst].
        apply thr_release_b. unfold M.finish, M.unlock.
        set (X := fst (M.lc_do s (Add n))).
        change (RI (M.set_locks (M.set_uh (M.rmdir (M.setpc X t n M.PDone) d)
                   (M.uh (M.rmdir (M.setpc X t n M.PDone) d) ++ [(length (hs (M.lc s)), false)])) (M.rm n (M.locks X)))
                   zero (fun h' => b2n (Nat.eqb bh h')) [] []).
        apply RI_locks. apply (RI_user _ (plus_at zero (length (hs (M.lc s)))) _ zero).
        -- apply (RI_setpc_rmdir X (plus_at zero (length (hs (M.lc s)))) zero _ _ t th n _ d I2).
           ++ unfold X. rewrite E. exact Ht.
           ++ intros h'. rewrite Hp. reflexivity.
           ++ intros h'. rewrite Hp. cbn. unfold zero. lia.
           ++ left. intros; unfold zero; lia.
           ++ rewrite Hp. reflexivity.
           ++ reflexivity.
           ++ left. intros; lia.
        -- intros h'. unfold plus_at, zero. rewrite (Nat.eqb_sym h'). lia.
        -- apply (all_ufired_snoc s _ v (RI_zero_ufired _ _ _ _ I)); unfold X; rewrite E; [reflexivity|exact Ehs].
      * rewrite snd_lc_do, (add_miss_spec _ n (i_capl _ _ _ _ _ I) Hf). cbn [fst snd].
        unfold M.finish, M.unlock.
        apply (lc_add_new_ok s t th n n bh d _ I Ht Hp Hf).
    + cbn [fst]. apply thr_release_b. unfold M.finish, M.unlock.
      change (RI (M.set_locks (M.rmdir (M.setpc s t n M.PDone) d) (M.rm n (M.locks s))) zero (fun h' => b2n (Nat.eqb bh h')) [] []).
      apply RI_locks. exact Hdrop.
  - exact I.
Qed.

(* Done / Close by a caller (any number of times, in any order) *)
Lemma release_inv s u ev : RInv s -> RInv (M.release s u ev).
Proof.
  intros I. unfold M.release. destruct (nth_error (M.uh s) u) as [[h r]|] eqn:Hu; [|exact I].
  set (xl1 := fun h' => b2n (Nat.eqb h h' && negb r)).
  set (s1 := M.set_uh s (upd (M.uh s) u (h, true))).
  assert (Hlt : u < length (M.uh s)) by (eapply nth_some_lt; eauto).
  pose proof (RI_zero_ufired _ _ _ _ I) as Huf.
  assert (I1 : RI s1 xl1 zero [] []).
  { destruct I as [A B C D E F G H I J K L MM N OO PP]. constructor; cbn; auto.
    - intros h'. unfold claims_l in *. cbn.
      pose proof (cnt_upd (u_claims h') (M.uh s) u (h, r) (h, true) Hu) as Hc.
      change (u_claims h' (h, r)) with (Nat.eqb h h' && negb r) in Hc.
      change (u_claims h' (h, true)) with (Nat.eqb h h' && false) in Hc. rewrite andb_false_r in Hc.
      specialize (I h'). unfold xl1, zero, b2n in *. destruct (Nat.eqb h h' && negb r); lia.
    - intros u' h' Hu'. destruct (Nat.eq_dec u u') as [<-|Hne].
      + rewrite nth_upd_eq in Hu' by exact Hlt. inversion Hu'; subst h'. destruct r.
        * left. apply (Huf u h Hu).
        * right. unfold xl1. rewrite Nat.eqb_refl. cbn. lia.
      + rewrite nth_upd_ne in Hu' by exact Hne. left. apply (Huf u' h' Hu'). }
  assert (Hz : claims_l s1 h = 0).
  { pose proof (i_eql _ _ _ _ _ I1 h) as E. pose proof (avail_le1 (M.lc s1) h) as Hle. unfold xl1 in E. rewrite Nat.eqb_refl in E.
    destruct r; cbv [b2n andb negb] in E; [|lia].
    destruct (Huf u h Hu) as [w Hw]. change (M.lc s1) with (M.lc s) in E. unfold avail in E. rewrite Hw in E. lia. }
  eapply RI_ext; [| |apply (lc_evict_ok _ _ _ (Release h ev) I1 eq_refl)].
  - intros h'. cbn [x_after]. unfold xl1, zero. rewrite (Nat.eqb_sym h h'). destruct (h' =? h); reflexivity.
  - reflexivity.
  - intros h0 ev0 Heq. inversion Heq; subst. exact Hz.
Qed.

Theorem step_inv s o : RInv s -> RInv (fst (M.step s o)).
Proof.
  intros I. destruct o as [n|t ok|u|u|n|n|u|u r|u]; cbn [M.step fst].
  - apply RI_start. exact I.
  - apply tstep_inv. exact I.
  - apply release_inv. exact I.
  - apply release_inv. exact I.
  - apply (lc_evict_ok _ _ _ (Expire n) I eq_refl). discriminate.
  - apply (bc_evict_ok _ _ _ _ (Expire n) I eq_refl). discriminate.
  - destruct (nth_error (M.uh s) u) as [[h r0]|]; [|exact I]. destruct (M.layer_flags s h). exact I.
  - destruct (nth_error (M.uh s) u) as [[h r0]|]; [|exact I]. destruct (M.layer_flags s h).
    destruct (_ && _); [|exact I]. destruct r, (M.blob_of s h); cbn [fst]; try exact I; apply RI_bad; exact I.
  - destruct (nth_error (M.uh s) u) as [[h r0]|]; [|exact I]. destruct (M.blob_of s h); exact I.
Qed.

Theorem exec_inv os : forall s, RInv s -> RInv (M.exec s os).
Proof.
  unfold M.exec. induction os as [|o os IH]; simpl; intros s I; [exact I|]. apply IH. apply step_inv. exact I.
Qed.

Theorem reach_inv os : RInv (M.exec M.init os).
Proof. apply exec_inv. apply RInv_init. Qed.

(* ---------- consequences used by Properties/C12.v ---------- *)
Lemma unfired_live c h v : nth_error (hs c) h = Some (v, false) -> 0 < live c v.
Proof.
  intros H. rewrite live_cnt. apply (cnt_pos (hpred v) (hs c) h (v, false) H). unfold hpred. cbn. rewrite Nat.eqb_refl. reflexivity.
Qed.

Lemma unfired_not_logged c h v : Inv c -> nth_error (hs c) h = Some (v, false) -> ~ In v (log c).
Proof.
  intros I H. pose proof (held_not_finalized c v I (unfired_live _ _ _ H)) as Hc. unfold callbacks in Hc.
  apply (count_occ_not_In Nat.eq_dec). exact Hc.
Qed.

Lemma user_claims s u h : nth_error (M.uh s) u = Some (h, false) -> 1 <= claims_l s h.
Proof.
  intros Hu. unfold claims_l. assert (1 <= cnt (u_claims h) (M.uh s)); [|lia].
  apply (cnt_pos _ _ u (h, false) Hu). unfold u_claims. cbn. rewrite Nat.eqb_refl. reflexivity.
Qed.

(* what an unclosed layer object owns *)
Lemma open_layer_owns s v o : RInv s -> nth_error (M.lobjs s) v = Some o -> M.l_closed o = false ->
  In (M.l_dir o) (M.dirs s) /\
  exists b ob, M.hval (M.bc s) (M.l_bh o) = Some b /\ nth_error (hs (M.bc s)) (M.l_bh o) = Some (b, false) /\
               nth_error (M.bobjs s) b = Some ob /\ M.b_closed ob = false /\ In (M.b_dir ob) (M.dirs s).
Proof.
  intros I Hv Hc.
  assert (Hd : In (M.l_dir o) (M.dirs s)).
  { apply (count_occ_In Nat.eq_dec). rewrite <- (i_eqd _ _ _ _ _ I). unfold claims_d.
    assert (1 <= cnt (l_claims_d (M.l_dir o)) (M.lobjs s)); [|lia].
    apply (cnt_pos _ _ v o Hv). unfold l_claims_d. rewrite Hc, Nat.eqb_refl. reflexivity. }
  split; [exact Hd|].
  assert (Hcb : 1 <= claims_b s (M.l_bh o)).
  { unfold claims_b. assert (1 <= cnt (l_claims_b (M.l_bh o)) (M.lobjs s)); [|lia].
    apply (cnt_pos _ _ v o Hv). unfold l_claims_b. rewrite Hc, Nat.eqb_refl. reflexivity. }
  destruct (avail_claimed_b _ _ _ _ I Hcb) as (_ & _ & b & Hb).
  assert (Hlt : b < length (M.bobjs s)) by (rewrite (i_lenb _ _ _ _ _ I); apply (inv_hs _ (i_bc _ _ _ _ _ I) _ _ _ Hb)).
  destruct (nth_error (M.bobjs s) b) as [ob|] eqn:Hob; [|apply nth_error_None in Hob; lia].
  assert (Hbc : M.b_closed ob = false).
  { destruct (M.b_closed ob) eqn:Hx; [|reflexivity]. apply (i_cb _ _ _ _ _ I _ _ Hob) in Hx. destruct Hx as [Hx _].
    exfalso. apply (unfired_not_logged _ _ _ (i_bc _ _ _ _ _ I) Hb). exact Hx. }
  exists b, ob. repeat split; try assumption.
  - unfold M.hval. rewrite Hb. reflexivity.
  - apply (count_occ_In Nat.eq_dec). rewrite <- (i_eqd _ _ _ _ _ I). unfold claims_d.
    assert (1 <= cnt (b_claims_d (M.b_dir ob)) (M.bobjs s)); [|lia].
    apply (cnt_pos _ _ b ob Hob). unfold b_claims_d. rewrite Hbc, Nat.eqb_refl. reflexivity.
Qed.

(* held_layer_usable *)
Lemma held_usable s u h : RInv s -> nth_error (M.uh s) u = Some (h, false) ->
  M.layer_flags s h = (false, false) /\
  exists v o b ob,
    nth_error (hs (M.lc s)) h = Some (v, false) /\ nth_error (M.lobjs s) v = Some o /\ M.l_closed o = false /\
    In (M.l_dir o) (M.dirs s) /\ nth_error (hs (M.bc s)) (M.l_bh o) = Some (b, false) /\
    nth_error (M.bobjs s) b = Some ob /\ M.b_closed ob = false /\ In (M.b_dir ob) (M.dirs s).
Proof.
  intros I Hu. destruct (avail_claimed_l _ _ _ _ I (user_claims _ _ _ Hu)) as (_ & _ & v & Hv).
  assert (Hlt : v < length (M.lobjs s)) by (rewrite (i_lenl _ _ _ _ _ I); apply (inv_hs _ (i_lc _ _ _ _ _ I) _ _ _ Hv)).
  destruct (nth_error (M.lobjs s) v) as [o|] eqn:Ho; [|apply nth_error_None in Ho; lia].
  assert (Hc : M.l_closed o = false).
  { destruct (M.l_closed o) eqn:Hx; [|reflexivity]. apply (i_cl _ _ _ _ _ I _ _ Ho) in Hx. destruct Hx as [Hx _].
    exfalso. apply (unfired_not_logged _ _ _ (i_lc _ _ _ _ _ I) Hv). exact Hx. }
  destruct (open_layer_owns s v o I Ho Hc) as (Hd & b & ob & Hhv & Hb & Hob & Hbc & Hbd).
  split.
  - unfold M.layer_flags, M.hval. rewrite Hv, Ho, Hc. unfold M.blob_closed_of. rewrite Hhv, Hob, Hbc. reflexivity.
  - exists v, o, b, ob. repeat split; assumption.
Qed.

Lemma held_use s u h : RInv s -> nth_error (M.uh s) u = Some (h, false) ->
  M.step s (M.Use u) = (s, M.EUse false false) /\ snd (M.step s (M.Refresh u M.RfOk)) = M.ENone.
Proof.
  intros I Hu. destruct (held_usable s u h I Hu) as [Hf _]. cbn. rewrite Hu, Hf. split; [reflexivity|]. cbn. destruct (M.blob_of s h); reflexivity.
Qed.

(* released_reclaimed, layer part: nobody holds a done-closure of layer v and it left the cache *)
Lemma layer_reclaimed s v o : RInv s -> nth_error (M.lobjs s) v = Some o ->
  (forall h, nth_error (hs (M.lc s)) h <> Some (v, false)) -> ~ in_cache (M.lc s) v ->
  M.l_closed o = true /\ ~ In (M.l_dir o) (M.dirs s) /\ exists b, nth_error (hs (M.bc s)) (M.l_bh o) = Some (b, true).
Proof.
  intros I Ho Hno Hnc.
  assert (Hl : live (M.lc s) v = 0).
  { rewrite live_cnt. apply cnt_zero. intros h [w r] Hh. unfold hpred. cbn.
    destruct (Nat.eqb_spec w v) as [->|]; [|reflexivity]. destruct r; [reflexivity|]. exfalso. apply (Hno h). exact Hh. }
  assert (Hlt : v < length (ents (M.lc s))) by (rewrite <- (i_lenl _ _ _ _ _ I); eapply nth_some_lt; eauto).
  destruct (nth_error (ents (M.lc s)) v) as [e|] eqn:He; [|apply nth_error_None in He; lia].
  destruct (exactly_once_inv _ v e (i_lc _ _ _ _ _ I) He) as [_ Hiff].
  assert (Hcb : callbacks (M.lc s) v = 1) by (apply Hiff; split; assumption).
  assert (Hin : In v (log (M.lc s))) by (apply (count_occ_In Nat.eq_dec); unfold callbacks in Hcb; lia).
  assert (Hc : M.l_closed o = true) by (apply (i_cl _ _ _ _ _ I _ _ Ho); split; [exact Hin|intros []]).
  destruct (i_ldead _ _ _ _ _ I v o Ho) as [_ Hd]. destruct (Hd Hc) as [Hd1 [Hd2|Hd2]]; [|unfold zero in Hd2; lia].
  repeat split; assumption.
Qed.

Lemma blob_reclaimed s b ob : RInv s -> nth_error (M.bobjs s) b = Some ob ->
  (forall h, nth_error (hs (M.bc s)) h <> Some (b, false)) -> ~ in_cache (M.bc s) b ->
  M.b_closed ob = true /\ ~ In (M.b_dir ob) (M.dirs s).
Proof.
  intros I Ho Hno Hnc.
  assert (Hl : live (M.bc s) b = 0).
  { rewrite live_cnt. apply cnt_zero. intros h [w r] Hh. unfold hpred. cbn.
    destruct (Nat.eqb_spec w b) as [->|]; [|reflexivity]. destruct r; [reflexivity|]. exfalso. apply (Hno h). exact Hh. }
  assert (Hlt : b < length (ents (M.bc s))) by (rewrite <- (i_lenb _ _ _ _ _ I); eapply nth_some_lt; eauto).
  destruct (nth_error (ents (M.bc s)) b) as [e|] eqn:He; [|apply nth_error_None in He; lia].
  destruct (exactly_once_inv _ b e (i_bc _ _ _ _ _ I) He) as [_ Hiff].
  assert (Hcb : callbacks (M.bc s) b = 1) by (apply Hiff; split; assumption).
  assert (Hin : In b (log (M.bc s))) by (apply (count_occ_In Nat.eq_dec); unfold callbacks in Hcb; lia).
  assert (Hc : M.b_closed ob = true) by (apply (i_cb _ _ _ _ _ I _ _ Ho); split; [exact Hin|intros []]).
  destruct (i_bdead _ _ _ _ _ I b ob Ho) as [_ Hd]. split; [exact Hc|apply Hd; exact Hc].
Qed.

(* nothing is ever orphaned: every handed-out, unreleased done-closure and every directory has an owner *)
Definition lc_owner (s : M.st) (h : nat) : Prop :=
  (exists u, nth_error (M.uh s) u = Some (h, false)) \/
  (exists t th, nth_error (M.thrs s) t = Some th /\ pc_lh (M.t_pc th) = Some h).
Definition bc_owner (s : M.st) (h : nat) : Prop :=
  (exists v o, nth_error (M.lobjs s) v = Some o /\ M.l_closed o = false /\ M.l_bh o = h) \/
  (exists t th, nth_error (M.thrs s) t = Some th /\ pc_bh (M.t_pc th) = Some h).
Definition dir_owner (s : M.st) (d : nat) : Prop :=
  (exists v o, nth_error (M.lobjs s) v = Some o /\ M.l_closed o = false /\ M.l_dir o = d) \/
  (exists b o, nth_error (M.bobjs s) b = Some o /\ M.b_closed o = false /\ M.b_dir o = d) \/
  (exists t th, nth_error (M.thrs s) t = Some th /\ pc_dir (M.t_pc th) = Some d).

Lemma opt_is_eq o h : opt_is o h = true -> o = Some h.
Proof. destruct o as [x|]; cbn; [|discriminate]. intros H. apply Nat.eqb_eq in H. congruence. Qed.

Lemma no_orphans s : RInv s ->
  (forall h v, nth_error (hs (M.lc s)) h = Some (v, false) -> lc_owner s h) /\
  (forall h b, nth_error (hs (M.bc s)) h = Some (b, false) -> bc_owner s h) /\
  (forall d, In d (M.dirs s) -> dir_owner s d).
Proof.
  intros I. repeat split.
  - intros h v Hh. pose proof (i_eql _ _ _ _ _ I h) as E. unfold avail in E. rewrite Hh in E. unfold zero, claims_l in E.
    destruct (cnt (u_claims h) (M.uh s)) eqn:E1.
    + right. destruct (cnt_ex (t_claims pc_lh h) (M.thrs s)) as (t & th & Ht & Hp); [lia|].
      exists t, th. split; [exact Ht|apply opt_is_eq; exact Hp].
    + left. destruct (cnt_ex (u_claims h) (M.uh s)) as (u & [h' r] & Hu & Hp); [lia|].
      unfold u_claims in Hp. cbn in Hp. apply andb_true_iff in Hp. destruct Hp as [Hp1 Hp2].
      apply Nat.eqb_eq in Hp1. subst h'. destruct r; [discriminate|]. exists u. exact Hu.
  - intros h b Hh. pose proof (i_eqb _ _ _ _ _ I h) as E. unfold avail in E. rewrite Hh in E. unfold zero, claims_b in E.
    destruct (cnt (l_claims_b h) (M.lobjs s)) eqn:E1.
    + right. destruct (cnt_ex (t_claims pc_bh h) (M.thrs s)) as (t & th & Ht & Hp); [lia|].
      exists t, th. split; [exact Ht|apply opt_is_eq; exact Hp].
    + left. destruct (cnt_ex (l_claims_b h) (M.lobjs s)) as (v & o & Hv & Hp); [lia|].
      unfold l_claims_b in Hp. apply andb_true_iff in Hp. destruct Hp as [Hp1 Hp2].
      apply Nat.eqb_eq in Hp2. apply negb_true_iff in Hp1. exists v, o. repeat split; assumption.
  - intros d Hd. pose proof (i_eqd _ _ _ _ _ I d) as E. apply (count_occ_In Nat.eq_dec) in Hd. unfold claims_d in E.
    destruct (cnt (l_claims_d d) (M.lobjs s)) eqn:E1; [destruct (cnt (b_claims_d d) (M.bobjs s)) eqn:E2|].
    + right. right. destruct (cnt_ex (t_claims pc_dir d) (M.thrs s)) as (t & th & Ht & Hp); [lia|].
      exists t, th. split; [exact Ht|apply opt_is_eq; exact Hp].
    + right. left. destruct (cnt_ex (b_claims_d d) (M.bobjs s)) as (b & o & Hb & Hp); [lia|].
      unfold b_claims_d in Hp. apply andb_true_iff in Hp. destruct Hp as [Hp1 Hp2].
      apply Nat.eqb_eq in Hp2. apply negb_true_iff in Hp1. exists b, o. repeat split; assumption.
    + left. destruct (cnt_ex (l_claims_d d) (M.lobjs s)) as (v & o & Hv & Hp); [lia|].
      unfold l_claims_d in Hp. apply andb_true_iff in Hp. destruct Hp as [Hp1 Hp2].
      apply Nat.eqb_eq in Hp2. apply negb_true_iff in Hp1. exists v, o. repeat split; assumption.
Qed.

Lemma close_blob_dirs_sub s b d : In d (M.dirs (M.close_blob s b)) -> In d (M.dirs s).
Proof.
  unfold M.close_blob. destruct (nth_error (M.bobjs s) b) as [o|]; [|tauto]. destruct (M.b_closed o); [tauto|].
  cbn. rewrite In_rm. tauto.
Qed.
Lemma fold_close_blob_dirs_sub l : forall s d, In d (M.dirs (fold_left M.close_blob l s)) -> In d (M.dirs s).
Proof.
  induction l as [|b l IH]; intros s d; simpl; [tauto|]. intros H. apply IH in H. apply close_blob_dirs_sub in H. exact H.
Qed.
Lemma bc_do_dirs_sub s o d : In d (M.dirs (fst (M.bc_do s o))) -> In d (M.dirs s).
Proof. unfold M.bc_do. cbn [fst]. intros H. apply fold_close_blob_dirs_sub in H. exact H. Qed.

Lemma pc_of_setpc s t n p th : nth_error (M.thrs s) t = Some th -> M.pc_of (M.setpc s t n p) t = p.
Proof. intros Ht. unfold M.pc_of, M.setpc. cbn. rewrite nth_upd_eq; [reflexivity|]. eapply nth_some_lt; eauto. Qed.

(* failed_resolve_leaks_nothing, local part: a Resolve that returns an error is finished and holds nothing *)
Lemma tstep_err s t ok : snd (M.tstep s t ok) = M.EErr ->
  M.pc_of (fst (M.tstep s t ok)) t = M.PDone /\ exists th d, nth_error (M.thrs s) t = Some th /\ pc_dir (M.t_pc th) = Some d /\
  ~ In d (M.dirs (fst (M.tstep s t ok))) /\ (forall d', In d' (M.dirs (fst (M.tstep s t ok))) -> In d' (M.dirs s)).
Proof.
  unfold M.tstep. destruct (nth_error (M.thrs s) t) as [th|] eqn:Ht; [|discriminate].
  destruct (M.t_pc th) as [|h|h| | |bh|bh| | |d|bh|bh d|] eqn:Hp; cbn [fst snd]; try discriminate.
  - destruct (M.mem _ _); [discriminate|]. cbv zeta. destruct (snd (M.lc_do _ _)); discriminate.
  - destruct (M.layer_flags s h). destruct (_ && _); [|discriminate]. destruct (M.hval _ _); discriminate.
  - cbv zeta. destruct (snd (M.bc_do _ _)); discriminate.
  - destruct (_ && _); discriminate.
  - destruct ok; [cbv zeta; destruct (snd (M.bc_do _ _)) as [[? []]|]; discriminate|]. intros _. cbn [fst].
    split; [unfold M.pc_of; cbn; rewrite nth_upd_eq; [reflexivity|eapply nth_some_lt; eauto]|].
    exists th, d. rewrite Hp. repeat split; try reflexivity; try exact Ht; cbn.
    + rewrite In_rm. tauto.
    + intros d'. rewrite In_rm. tauto.
  - destruct ok; [cbv zeta; destruct (snd (M.lc_do _ _)) as [[? []]|]; discriminate|]. intros _. cbn [fst].
    match goal with |- context [M.bc_do ?X ?o] => destruct (bc_do_frame X o) as ((Ethr & _) & _); set (Y := fst (M.bc_do X o)) in * end.
    split; [unfold M.pc_of; rewrite Ethr; cbn; rewrite nth_upd_eq; [reflexivity|eapply nth_some_lt; eauto]|].
    exists th, d. rewrite Hp. repeat split; try reflexivity; try exact Ht.
    + intros Hin. apply bc_do_dirs_sub in Hin. cbn in Hin. rewrite In_rm in Hin. tauto.
    + intros d' Hin. apply bc_do_dirs_sub in Hin. cbn in Hin. rewrite In_rm in Hin. tauto.
Qed.

(* ---------- the coarse steps the harness schedules are sequences of sub-steps ---------- *)
Lemma run_on_inv f : forall s t e, RInv s -> RInv (fst (M.run_on f s t e)).
Proof.
  induction f as [|f IH]; intros s t e I; cbn; [exact I|].
  destruct e; try exact I. destruct (M.pause_code (M.pc_of s t)); [exact I|].
  destruct (M.pc_of s t); try exact I;
    (destruct (M.tstep s t true) as [s1 e1] eqn:E; apply IH; replace s1 with (fst (M.tstep s t true)) by (rewrite E; reflexivity); apply tstep_inv; exact I).
Qed.

Lemma wake_inv s t e : RInv s -> RInv (fst (M.wake s t e)).
Proof.
  intros I. unfold M.wake. destruct (M.is_ret e); [|exact I]. destruct (nth_error (M.thrs s) t) as [th|]; [|exact I].
  destruct (M.find_waiter _ _ _); [apply run_on_inv; exact I|exact I].
Qed.

Lemma cstep_inv s o : RInv s -> RInv (fst (M.cstep s o)).
Proof.
  intros I. destruct o as [n|t ok|u|u|n|n|u|u r|u]; cbn [M.cstep].
  - destruct (M.run_on 16 _ _ _) as [s2 e] eqn:E2. destruct (M.wake s2 _ e) as [s3 e'] eqn:E3. cbn [fst].
    replace s3 with (fst (M.wake s2 (length (M.thrs s)) e)) by (rewrite E3; reflexivity). apply wake_inv.
    replace s2 with (fst (M.run_on 16 (fst (M.step s (M.RStart n))) (length (M.thrs s)) M.ENone)) by (rewrite E2; reflexivity).
    apply run_on_inv. apply step_inv. exact I.
  - destruct (M.tstep s t ok) as [s1 e1] eqn:E1. destruct (M.run_on 16 s1 t e1) as [s2 e] eqn:E2.
    destruct (M.wake s2 t e) as [s3 e'] eqn:E3. cbn [fst].
    replace s3 with (fst (M.wake s2 t e)) by (rewrite E3; reflexivity). apply wake_inv.
    replace s2 with (fst (M.run_on 16 s1 t e1)) by (rewrite E2; reflexivity). apply run_on_inv.
    replace s1 with (fst (M.tstep s t ok)) by (rewrite E1; reflexivity). apply tstep_inv. exact I.
  - apply (step_inv s (M.Done u) I).
  - apply (step_inv s (M.Close u) I).
  - apply (step_inv s (M.ExpireL n) I).
  - apply (step_inv s (M.ExpireB n) I).
  - pose proof (step_inv s (M.Use u) I) as H. destruct (M.step s (M.Use u)). exact H.
  - pose proof (step_inv s (M.Refresh u r) I) as H. destruct (M.step s (M.Refresh u r)). exact H.
  - pose proof (step_inv s (M.Probe u) I) as H. destruct (M.step s (M.Probe u)). exact H.
Qed.

Definition cexec (s : M.st) (os : list M.op) : M.st := fold_left (fun s o => fst (M.cstep s o)) os s.
Lemma cexec_inv os : forall s, RInv s -> RInv (cexec s os).
Proof. unfold cexec. induction os as [|o os IH]; simpl; intros s I; [exact I|]. apply IH. apply cstep_inv. exact I. Qed.

(* ---------- single instance: what the cache lookup returns ---------- *)
Lemma lookup_hit s t th v : nth_error (M.thrs s) t = Some th -> M.t_pc th = M.PWait ->
  M.mem (M.t_name th) (M.locks s) = false -> lru_find (lru (M.lc s)) (M.t_name th) = Some v ->
  let s1 := fst (M.tstep s t true) in
  M.pc_of s1 t = M.PHit (length (hs (M.lc s))) /\ M.hval (M.lc s1) (length (hs (M.lc s))) = Some v.
Proof.
  intros Ht Hp Hl Hf. unfold M.tstep. rewrite Ht, Hp, Hl. cbv zeta.
  set (s0 := M.set_locks s (M.t_name th :: M.locks s)).
  assert (Hh : is_hit (M.lc s0) (Get (M.t_name th)) v) by exact Hf.
  destruct (hit_spec _ _ _ Hh) as (Ehs & Elog & _ & fl & Hsnd & _).
  rewrite snd_lc_do, Hsnd. cbn [fst].
  assert (E : fst (M.lc_do s0 (Get (M.t_name th))) = M.set_lc s0 (fst (step (M.lc s0) (Get (M.t_name th))))).
  { unfold M.lc_do. cbn [fst]. rewrite (newlog_same _ _ Elog). reflexivity. }
  split.
  - apply (pc_of_setpc _ t _ _ th). rewrite E. exact Ht.
  - rewrite E. unfold M.hval.
    match goal with |- context [M.lc (M.setpc (M.set_lc s0 ?c) ?a ?b ?p)] => change (M.lc (M.setpc (M.set_lc s0 c) a b p)) with c end.
    change (M.lc s0) with (M.lc s) in *. rewrite Ehs.
    rewrite nth_error_app2 by lia. rewrite Nat.sub_diag. reflexivity.
Qed.

Lemma hit_returns s t th h v : nth_error (M.thrs s) t = Some th -> M.t_pc th = M.PHit h ->
  M.layer_flags s h = (false, false) -> M.hval (M.lc s) h = Some v ->
  snd (M.tstep s t true) = M.ERet v false.
Proof. intros Ht Hp Hf Hv. unfold M.tstep. rewrite Ht, Hp, Hf, Hv. reflexivity. Qed.

