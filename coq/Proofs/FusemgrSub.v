(* Proofs about Model/FusemgrSub.v: counting over the request list, the invariant of the sub-step machine
   with the per-mountpoint mutex, its preservation, and the consequences used by Properties/C17.v. *)
From Coq Require Import List Arith Bool Lia Sorted.
From SV Require Import Model.FusemgrSub Proofs.Fusemgr.
Import ListNotations.

(* ---------- counting requests ---------- *)
Definition cnt (f : pc -> bool) (l : list pc) : nat := length (filter f l).
Definition b2n (b : bool) : nat := if b then 1 else 0.

Lemma cnt_app : forall f l p, cnt f (l ++ [p]) = cnt f l + b2n (f p).
Proof. intros. unfold cnt. rewrite filter_app, app_length. cbn. destruct (f p); reflexivity. Qed.

Lemma cnt_upd : forall f l t p p', nth_error l t = Some p -> cnt f (upd l t p') + b2n (f p) = cnt f l + b2n (f p').
Proof.
  unfold cnt. induction l as [|a l IH]; intros [|t] p p' H; cbn in *; try discriminate.
  - inversion H; subst. destruct (f p), (f p'); cbn; lia.
  - specialize (IH t p p' H). destruct (f a); cbn; lia.
Qed.

Lemma cnt_pos : forall f l t p, nth_error l t = Some p -> f p = true -> 0 < cnt f l.
Proof.
  unfold cnt. induction l as [|a l IH]; intros [|t] p H F; cbn in *; try discriminate.
  - inversion H; subst. rewrite F. cbn. lia.
  - specialize (IH t p H F). destruct (f a); cbn; lia.
Qed.

Lemma cnt_ex : forall f l, 0 < cnt f l -> exists t p, nth_error l t = Some p /\ f p = true.
Proof.
  unfold cnt. induction l as [|a l IH]; cbn; intros H; [lia|].
  destruct (f a) eqn:E.
  - exists 0, a. split; [reflexivity|assumption].
  - destruct (IH H) as (t & p & A & B). exists (S t), p. split; assumption.
Qed.

Lemma cnt_two : forall f l t t' p p', t <> t' -> nth_error l t = Some p -> nth_error l t' = Some p' ->
  f p = true -> f p' = true -> 2 <= cnt f l.
Proof.
  unfold cnt. induction l as [|a l IH]; intros [|t] [|t'] p p' N H H' F F'; cbn in *; try discriminate; try congruence.
  - inversion H; subst. rewrite F. cbn. pose proof (cnt_pos f l t' p' H' F'). unfold cnt in *. lia.
  - inversion H'; subst. rewrite F'. cbn. pose proof (cnt_pos f l t p H F). unfold cnt in *. lia.
  - assert (t <> t') by congruence. specialize (IH t t' p p' H0 H H' F F'). destruct (f a); cbn; lia.
Qed.

Lemma cnt_le : forall f g l, (forall p, f p = true -> g p = true) -> cnt f l <= cnt g l.
Proof.
  unfold cnt. induction l as [|a l IH]; intros H; cbn; [lia|]. specialize (IH H).
  destruct (f a) eqn:E.
  - rewrite (H a E). cbn. lia.
  - destruct (g a); cbn; lia.
Qed.

Lemma cnt_none : forall f l, (forall p, In p l -> f p = false) -> cnt f l = 0.
Proof.
  unfold cnt. induction l as [|a l IH]; intros H; cbn; [reflexivity|].
  rewrite (H a (or_introl eq_refl)). apply IH. intros p Hp. apply H. now right.
Qed.

Lemma existsb_cnt : forall f l, existsb f l = false <-> cnt f l = 0.
Proof.
  unfold cnt. induction l as [|a l IH]; cbn; [tauto|]. destruct (f a); cbn; [split; [discriminate|lia]|exact IH].
Qed.

(* predicates on requests *)
Definition isMM (m i : nat) (p : pc) : bool := match p with PMMap m' _ i' => Nat.eqb m' m && Nat.eqb i' i | _ => false end.
Definition isUM (m i : nat) (p : pc) : bool := match p with PUMap m' i' => Nat.eqb m' m && Nat.eqb i' i | _ => false end.
Definition isMR (m : nat) (p : pc) : bool := match p with PMRec m' _ => Nat.eqb m' m | _ => false end.
Definition isUR (m : nat) (p : pc) : bool := match p with PURec m' => Nat.eqb m' m | _ => false end.

Lemma isMM_holds : forall m i p, isMM m i p = true -> holds m p = true.
Proof. intros m i [] H; cbn in *; try discriminate. apply andb_true_iff in H. tauto. Qed.
Lemma isUM_holds : forall m i p, isUM m i p = true -> holds m p = true.
Proof. intros m i [] H; cbn in *; try discriminate. apply andb_true_iff in H. tauto. Qed.
Lemma isMR_holds : forall m p, isMR m p = true -> holds m p = true.
Proof. intros m [] H; cbn in *; try discriminate. assumption. Qed.
Lemma isUR_holds : forall m p, isUR m p = true -> holds m p = true.
Proof. intros m [] H; cbn in *; try discriminate. assumption. Qed.

(* what a request in flight knows about the table *)
Definition ploc (b : st) (p : pc) : Prop :=
  match p with
  | PMCall m _ i | PMMap m _ i => find (fsmap b) m = None /\ cur b = Some i
  | PMRec m _ => find (fsmap b) m <> None
  | PUCall m i | PUMap m i => find (fsmap b) m = Some i
  | PURec m => find (fsmap b) m = None
  | PCCall _ _ _ | PDone => True
  end.

Record sinv (s : cst) : Prop := mkSinv {
  S_tab : forall m i, occ m (mnt_of (base s) i) + cnt (isUM m i) (thr s)
                      = b2n (own (fsmap (base s)) m i) + cnt (isMM m i) (thr s);
  S_excl : forall m, cnt (holds m) (thr s) <= 1;
  S_loc : forall t p, nth_error (thr s) t = Some p -> ploc (base s) p;
  S_bnd : forall m i, find (fsmap (base s)) m = Some i -> i < length (insts (base s));
  S_rec : closed (base s) = false -> forall m, tracked (base s) m -> recorded (base s) m \/ 0 < cnt (isMR m) (thr s);
  S_full : closed (base s) = false -> stat (base s) = Ready -> ierr (base s) = false ->
           forall m, recorded (base s) m -> tracked (base s) m \/ 0 < cnt (isUR m) (thr s);
  S_cur : forall i, cur (base s) = Some i -> i < length (insts (base s)) /\ cfg (base s) <> None;
  S_nocur : cur (base s) = None -> fsmap (base s) = [];
  S_sorted : ksorted (store (base s));
  S_closed : closed (base s) = true -> store (base s) = []
}.

(* no request in flight: the sequential invariant *)
Lemma busy_false_cnt : forall f l, busy l = false -> (forall p, f p = true -> inflight p = true) -> cnt f l = 0.
Proof.
  intros f l B H. apply Nat.le_0_r. eapply Nat.le_trans; [apply (cnt_le f inflight l H)|].
  apply existsb_cnt in B. unfold busy in *. lia.
Qed.

Lemma inflight_of : forall m i p, (isMM m i p = true \/ isUM m i p = true \/ isMR m p = true \/ isUR m p = true \/ holds m p = true) -> inflight p = true.
Proof. intros m i [] H; cbn in *; auto; destruct H as [H|[H|[H|[H|H]]]]; discriminate. Qed.

Lemma quiet_inv : forall s, busy (thr s) = false -> sinv s -> inv (base s).
Proof.
  intros s B [T E L Bd R F C N S CL].
  assert (Z : forall f, (forall p, f p = true -> inflight p = true) -> cnt f (thr s) = 0) by (intros; now apply busy_false_cnt).
  constructor; auto.
  - intros m i. specialize (T m i).
    rewrite (Z (isUM m i)), (Z (isMM m i)) in T by (intros p H; eapply (inflight_of m i); eauto).
    unfold b2n in T. lia.
  - intros Cl m Ht. destruct (R Cl m Ht) as [H|H]; [assumption|].
    rewrite (Z (isMR m)) in H by (intros p Hp; eapply (inflight_of m 0); eauto). lia.
  - intros Cl Re Ie m Hr. destruct (F Cl Re Ie m Hr) as [H|H]; [assumption|].
    rewrite (Z (isUR m)) in H by (intros p Hp; eapply (inflight_of m 0); eauto 6). lia.
Qed.

Lemma inv_sinv : forall b T lk, inv b -> (forall p, In p T -> p = PDone) -> sinv (mkC b T lk).
Proof.
  intros b T lk I D.
  assert (Z : forall f, f PDone = false -> cnt f T = 0).
  { intros f H. apply cnt_none. intros p Hp. now rewrite (D p Hp). }
  constructor; cbn [base thr].
  - intros m i. rewrite (Z (isUM m i)), (Z (isMM m i)) by reflexivity. rewrite (inv_tab b I m i). unfold b2n. lia.
  - intros m. rewrite (Z (holds m)) by reflexivity. lia.
  - intros t p H. apply nth_error_In in H. rewrite (D p H). exact Logic.I.
  - intros m i H. eapply inv_bnd; eauto.
  - intros Cl m Ht. left. now apply (inv_rec b I Cl).
  - intros Cl R E m Hr. left. now apply (inv_full b I Cl R E).
  - apply (inv_cur b I).
  - apply (inv_nocur b I).
  - apply (inv_sorted b I).
  - apply (inv_closed b I).
Qed.

(* ---------- helpers ---------- *)
Lemma excl_other : forall m T t p t' p', cnt (holds m) T <= 1 -> nth_error T t = Some p -> holds m p = true ->
  t' <> t -> nth_error T t' = Some p' -> holds m p' = false.
Proof.
  intros m T t p t' p' E H Hp N H'. destruct (holds m p') eqn:X; [|reflexivity].
  assert (t <> t') by congruence.
  pose proof (cnt_two (holds m) T t t' p p' H0 H H' Hp X). lia.
Qed.

Lemma excl_zero : forall f m T t p, cnt (holds m) T <= 1 -> nth_error T t = Some p -> holds m p = true ->
  f p = false -> (forall q, f q = true -> holds m q = true) -> cnt f T = 0.
Proof.
  intros f m T t p E H Hp Fp Imp. destruct (cnt f T) eqn:C; [reflexivity|exfalso].
  assert (P : 0 < cnt f T) by lia. destruct (cnt_ex f T P) as (t' & p' & H' & F').
  assert (t' <> t) by (intros ->; congruence).
  pose proof (Imp p' F') as X. rewrite (excl_other m T t p t' p' E H Hp H0 H') in X. discriminate.
Qed.

Lemma nth_upd_cases : forall (T : list pc) t p' t' q, nth_error (upd T t p') t' = Some q ->
  (t' = t /\ q = p') \/ (t' <> t /\ nth_error T t' = Some q).
Proof.
  intros T t p' t' q H. destruct (Nat.eq_dec t' t) as [->|N].
  - left. split; [reflexivity|]. destruct (Nat.lt_ge_cases t (length T)) as [L|G].
    + rewrite nth_upd_eq in H by assumption. congruence.
    + assert (nth_error (upd T t p') t = None) by (apply nth_error_None; now rewrite length_upd). congruence.
  - right. split; [assumption|]. now rewrite nth_upd_neq in H.
Qed.

Lemma holds_false_key : forall m p, holds m p = false -> forall m', pkey p = Some m' -> m' <> m.
Proof. intros m p H m' K ->. unfold holds in H. rewrite K, Nat.eqb_refl in H. discriminate. Qed.

(* the facts of the other requests survive a table update at a mountpoint whose mutex this request holds *)
Lemma loc_other : forall b b' m p', holds m p' = false ->
  (forall m', m' <> m -> find (fsmap b') m' = find (fsmap b) m') -> cur b' = cur b ->
  ploc b p' -> ploc b' p'.
Proof.
  intros b b' m p' H Fm Cu L. pose proof (holds_false_key m p' H) as K.
  destruct p'; cbn in *; try exact Logic.I; try rewrite Cu; try rewrite (Fm m0) by (apply K; reflexivity); assumption.
Qed.

Lemma loc_same : forall b b' p', fsmap b' = fsmap b -> cur b' = cur b -> ploc b p' -> ploc b' p'.
Proof. intros b b' p' F C L. destruct p'; cbn in *; try rewrite F; try rewrite C; assumption. Qed.

Lemma b2n_and : forall a b, b2n (a && b) = b2n a * b2n b.
Proof. intros [] []; reflexivity. Qed.

Ltac cu f T t p p' H := pose proof (cnt_upd f T t p p' H).

(* ---------- preservation ---------- *)
Lemma push_sinv : forall s p, sinv s -> ploc (base s) p ->
  (forall m i, isMM m i p = false /\ isUM m i p = false) ->
  (forall m, holds m p = true -> cnt (holds m) (thr s) = 0) ->
  sinv (push s p).
Proof.
  intros s p [T E L Bd R F C N S CL] Lp NM Hk. constructor; cbn [push base thr]; auto.
  - intros m i. rewrite !cnt_app. destruct (NM m i) as [-> ->]. cbn. specialize (T m i). lia.
  - intros m. rewrite cnt_app. destruct (holds m p) eqn:X; cbn; [rewrite (Hk m X); lia|specialize (E m); lia].
  - intros t q H. destruct (Nat.lt_ge_cases t (length (thr s))) as [Lt|Ge].
    + rewrite nth_error_app1 in H by assumption. eapply L; eauto.
    + rewrite nth_error_app2 in H by assumption. destruct (t - length (thr s)) as [|[|d]]; cbn in H; try discriminate.
      inversion H; subst. assumption.
  - intros Cl m Ht. destruct (R Cl m Ht) as [H|H]; [now left|right]. rewrite cnt_app. lia.
  - intros Cl Re Ie m Hr. destruct (F Cl Re Ie m Hr) as [H|H]; [now left|right]. rewrite cnt_app. lia.
Qed.

Lemma locked_false : forall T m, locked T m = false -> cnt (holds m) T = 0.
Proof. intros T m H. now apply existsb_cnt. Qed.

Lemma begin_sinv : forall s o, mplock s = true -> sinv s ->
  match o with BMount _ _ | BCheck _ _ | BUnmount _ => True | _ => False end ->
  sinv (fst (sstep s o)).
Proof.
  intros s o LK I K. destruct o as [m l|m l|m| | | |]; try contradiction; cbn [sstep]; rewrite ?LK; cbn [andb].
  - destruct (locked (thr s) m) eqn:Lk; [exact I|]. apply locked_false in Lk.
    assert (HK : forall p, pkey p = Some m \/ pkey p = None -> forall m0, holds m0 p = true -> cnt (holds m0) (thr s) = 0).
    { intros p [Kp|Kp] m0 H; unfold holds in H; rewrite Kp in H; [|discriminate]. apply Nat.eqb_eq in H. now subst. }
    destruct (stat (base s)); cbn [fst]; try (apply push_sinv; [exact I|exact Logic.I|intros; split; reflexivity|now apply HK; right]).
    destruct (find (fsmap (base s)) m) eqn:Fm; cbn [fst].
    + apply push_sinv; [exact I|cbn; congruence|intros; split; reflexivity|now apply HK; left].
    + destruct (cur (base s)) eqn:Cu; cbn [fst].
      * apply push_sinv; [exact I|cbn; auto|intros; split; reflexivity|now apply HK; left].
      * apply push_sinv; [exact I|exact Logic.I|intros; split; reflexivity|now apply HK; right].
  - destruct (stat (base s)); cbn [fst]; try (apply push_sinv; [exact I|exact Logic.I|intros; split; reflexivity|intros ? H; discriminate]).
    destruct (find (fsmap (base s)) m); cbn [fst]; (apply push_sinv; [exact I|exact Logic.I|intros; split; reflexivity|intros ? H; discriminate]).
  - destruct (locked (thr s) m) eqn:Lk; [exact I|]. apply locked_false in Lk.
    assert (HK : forall p, pkey p = Some m \/ pkey p = None -> forall m0, holds m0 p = true -> cnt (holds m0) (thr s) = 0).
    { intros p [Kp|Kp] m0 H; unfold holds in H; rewrite Kp in H; [|discriminate]. apply Nat.eqb_eq in H. now subst. }
    destruct (stat (base s)); cbn [fst]; try (apply push_sinv; [exact I|exact Logic.I|intros; split; reflexivity|now apply HK; right]).
    destruct (find (fsmap (base s)) m) eqn:Fm; cbn [fst].
    + apply push_sinv; [exact I|cbn; congruence|intros; split; reflexivity|now apply HK; left].
    + apply push_sinv; [exact I|exact Logic.I|intros; split; reflexivity|now apply HK; right].
Qed.

Lemma drop_sinv : forall s t p, sinv s -> nth_error (thr s) t = Some p ->
  (forall m i, isMM m i p = false /\ isUM m i p = false) -> (forall m, isMR m p = false /\ isUR m p = false) ->
  sinv (setpc s (base s) t PDone).
Proof.
  intros s t p [T E L Bd R F C N S CL] H NM NR. constructor; cbn [setpc base thr]; auto.
  - intros m i. cu (isMM m i) (thr s) t p PDone H. cu (isUM m i) (thr s) t p PDone H.
    destruct (NM m i) as [A B]. rewrite A in *. rewrite B in *. cbn in *. specialize (T m i). lia.
  - intros m. cu (holds m) (thr s) t p PDone H. cbn in *. specialize (E m). lia.
  - intros t' q Hq. destruct (nth_upd_cases _ _ _ _ _ Hq) as [[_ ->]|[_ Hq']]; [exact Logic.I|eapply L; eauto].
  - intros Cl m Ht. destruct (R Cl m Ht) as [X|X]; [now left|right].
    cu (isMR m) (thr s) t p PDone H. destruct (NR m) as [A _]. rewrite A in *. cbn in *. lia.
  - intros Cl Re Ie m Hr. destruct (F Cl Re Ie m Hr) as [X|X]; [now left|right].
    cu (isUR m) (thr s) t p PDone H. destruct (NR m) as [_ B]. rewrite B in *. cbn in *. lia.
Qed.

Lemma eqb_b2n : forall a b, b2n (Nat.eqb a b) = b2n (Nat.eqb b a).
Proof. intros. now rewrite Nat.eqb_sym. Qed.

(* PMCall -> PMMap : the filesystem mounted it *)
Lemma mcall_sinv : forall s t m l i, sinv s -> nth_error (thr s) t = Some (PMCall m l i) ->
  sinv (setpc s (set_insts (base s) (inst_mount (insts (base s)) i m l)) t (PMMap m l i)).
Proof.
  intros s t m l i I H. pose proof I as [T E L Bd R F C N S CL].
  destruct (L _ _ H) as [Fm Cu]. destruct (C i Cu) as [Li Cn].
  constructor; cbn [setpc base thr set_insts fsmap insts closed stat ierr cur cfg store]; auto.
  - intros m0 i0. unfold mnt_of. cbn [insts set_insts set_fsmap set_store]. rewrite mnts_inst_mount by assumption.
    cu (isMM m0 i0) (thr s) t (PMCall m l i) (PMMap m l i) H. cu (isUM m0 i0) (thr s) t (PMCall m l i) (PMMap m l i) H.
    cbn [isMM isUM b2n] in *. specialize (T m0 i0). unfold mnt_of in T.
    destruct (Nat.eqb i0 i) eqn:Ei.
    + apply Nat.eqb_eq in Ei; subst i0. rewrite occ_cons. rewrite Nat.eqb_refl, andb_true_r in *.
      destruct (Nat.eqb m m0); cbn [b2n] in *; lia.
    + rewrite (Nat.eqb_sym i i0), Ei, andb_false_r in *. cbn [b2n] in *. lia.
  - intros m0. cu (holds m0) (thr s) t (PMCall m l i) (PMMap m l i) H. cbn in *. specialize (E m0). lia.
  - intros t' q Hq. destruct (nth_upd_cases _ _ _ _ _ Hq) as [[_ ->]|[_ Hq']].
    + cbn. auto.
    + eapply loc_same; [| |eapply L; eauto]; reflexivity.
  - intros m0 i0 Hf. rewrite length_inst_mount. eapply Bd; eauto.
  - intros Cl m0 Ht. destruct (R Cl m0 Ht) as [X|X]; [now left|right].
    cu (isMR m0) (thr s) t (PMCall m l i) (PMMap m l i) H. cbn in *. lia.
  - intros Cl Re Ie m0 Hr. destruct (F Cl Re Ie m0 Hr) as [X|X]; [now left|right].
    cu (isUR m0) (thr s) t (PMCall m l i) (PMMap m l i) H. cbn in *. lia.
  - intros i0 Hi0. rewrite length_inst_mount. now apply C.
Qed.

(* PMMap -> PMRec : fsMap.Store *)
Lemma mmap_sinv : forall s t m l i, sinv s -> nth_error (thr s) t = Some (PMMap m l i) ->
  sinv (setpc s (set_fsmap (base s) (put (fsmap (base s)) m i)) t (PMRec m l)).
Proof.
  intros s t m l i I H. pose proof I as [T E L Bd R F C N S CL].
  destruct (L _ _ H) as [Fm Cu]. destruct (C i Cu) as [Li Cn].
  assert (Hh : holds m (PMMap m l i) = true) by (cbn; apply Nat.eqb_refl).
  constructor; cbn [setpc base thr set_fsmap fsmap insts closed stat ierr cur cfg store]; auto.
  - intros m0 i0. cu (isMM m0 i0) (thr s) t (PMMap m l i) (PMRec m l) H. cu (isUM m0 i0) (thr s) t (PMMap m l i) (PMRec m l) H.
    cbn [isMM isUM b2n] in *. specialize (T m0 i0). unfold mnt_of in *. cbn [insts set_insts set_fsmap set_store]. unfold own in *.
    destruct (Nat.eq_dec m0 m) as [->|Nm].
    + rewrite find_put_eq. rewrite Fm in T. rewrite Nat.eqb_refl in *. cbn [andb b2n] in *.
      rewrite (Nat.eqb_sym i i0) in *. destruct (Nat.eqb i0 i); cbn [b2n] in *; lia.
    + rewrite find_put_neq by assumption.
      assert (Nat.eqb m m0 = false) as X by (apply Nat.eqb_neq; congruence). rewrite X in *. cbn [andb b2n] in *. lia.
  - intros m0. cu (holds m0) (thr s) t (PMMap m l i) (PMRec m l) H. cbn in *. specialize (E m0). lia.
  - intros t' q Hq. destruct (nth_upd_cases _ _ _ _ _ Hq) as [[_ ->]|[Nt Hq']].
    + cbn. rewrite find_put_eq. discriminate.
    + eapply (loc_other (base s) _ m); [exact (excl_other m (thr s) t (PMMap m l i) t' q (E m) H Hh Nt Hq')| |reflexivity|eapply L; eauto].
      intros m' Nm. cbn. now rewrite find_put_neq.
  - intros m0 i0. destruct (Nat.eq_dec m0 m) as [->|Nm].
    + rewrite find_put_eq. intros X; inversion X; subst. assumption.
    + rewrite find_put_neq by assumption. apply Bd.
  - intros Cl m0 Ht. unfold tracked, recorded in *. cbn [fsmap store set_fsmap set_store set_insts] in *. destruct (Nat.eq_dec m0 m) as [->|Nm].
    + right. eapply (cnt_pos (isMR m) _ t (PMRec m l)).
      * apply nth_upd_eq. apply nth_error_Some. congruence.
      * cbn. apply Nat.eqb_refl.
    + rewrite find_put_neq in Ht by assumption. destruct (R Cl m0 Ht) as [X|X]; [now left|right].
      cu (isMR m0) (thr s) t (PMMap m l i) (PMRec m l) H. cbn in *. lia.
  - intros Cl Re Ie m0 Hr. unfold tracked, recorded in *. cbn [fsmap store set_fsmap set_store set_insts] in *.
    destruct (F Cl Re Ie m0 Hr) as [X|X].
    + left. destruct (Nat.eq_dec m0 m) as [->|Nm]; [rewrite find_put_eq; discriminate|now rewrite find_put_neq].
    + right. cu (isUR m0) (thr s) t (PMMap m l i) (PMRec m l) H. cbn in *. lia.
  - intros X. congruence.
Qed.

(* PMRec -> done : storeFuseInfo *)
Lemma mrec_sinv : forall s t m l c, sinv s -> nth_error (thr s) t = Some (PMRec m l) ->
  sinv (setpc s (set_store (base s) (store_put (base s) m (l, c))) t PDone).
Proof.
  intros s t m l c I H. pose proof I as [T E L Bd R F C N S CL].
  pose proof (L _ _ H) as Fm. cbn in Fm.
  constructor; cbn [setpc base thr set_store fsmap insts closed stat ierr cur cfg store]; auto.
  - intros m0 i0. cu (isMM m0 i0) (thr s) t (PMRec m l) PDone H. cu (isUM m0 i0) (thr s) t (PMRec m l) PDone H.
    cbn in *. specialize (T m0 i0). unfold mnt_of in *. cbn [insts set_insts set_fsmap set_store]. lia.
  - intros m0. cu (holds m0) (thr s) t (PMRec m l) PDone H. cbn in *. specialize (E m0). lia.
  - intros t' q Hq. destruct (nth_upd_cases _ _ _ _ _ Hq) as [[_ ->]|[_ Hq']]; [exact Logic.I|].
    eapply loc_same; [| |eapply L; eauto]; reflexivity.
  - intros Cl m0 Ht. unfold tracked, recorded, store_put in *. cbn [fsmap store closed set_fsmap set_store set_insts] in *. rewrite Cl.
    destruct (Nat.eq_dec m0 m) as [->|Nm]; [left; rewrite find_put_eq; discriminate|].
    rewrite find_put_neq by assumption. destruct (R Cl m0 Ht) as [X|X]; [now left|right].
    cu (isMR m0) (thr s) t (PMRec m l) PDone H. cbn [isMR b2n] in *.
    assert (Nat.eqb m m0 = false) as Y by (apply Nat.eqb_neq; congruence). rewrite Y in *. cbn in *. lia.
  - intros Cl Re Ie m0 Hr. unfold tracked, recorded, store_put in *. cbn [fsmap store closed set_fsmap set_store set_insts] in *. rewrite Cl in Hr.
    destruct (Nat.eq_dec m0 m) as [->|Nm]; [now left|].
    rewrite find_put_neq in Hr by assumption. destruct (F Cl Re Ie m0 Hr) as [X|X]; [now left|right].
    cu (isUR m0) (thr s) t (PMRec m l) PDone H. cbn in *. lia.
  - unfold store_put. destruct (closed (base s)); [assumption|now apply put_sorted].
  - intros Cl. unfold store_put. rewrite Cl. now apply CL.
Qed.

(* PUCall -> PUMap : the filesystem unmounted it *)
Lemma ucall_sinv : forall s t m i, sinv s -> nth_error (thr s) t = Some (PUCall m i) ->
  sinv (setpc s (set_insts (base s) (inst_unmount (insts (base s)) i m)) t (PUMap m i)).
Proof.
  intros s t m i I H. pose proof I as [T E L Bd R F C N S CL].
  pose proof (L _ _ H) as Fm. cbn in Fm. pose proof (Bd _ _ Fm) as Li.
  assert (Hh : holds m (PUCall m i) = true) by (cbn; apply Nat.eqb_refl).
  assert (Zu : forall i0, cnt (isUM m i0) (thr s) = 0).
  { intros i0. apply (excl_zero _ m (thr s) t (PUCall m i) (E m) H Hh); [reflexivity|apply isUM_holds]. }
  assert (Zm : forall i0, cnt (isMM m i0) (thr s) = 0).
  { intros i0. apply (excl_zero _ m (thr s) t (PUCall m i) (E m) H Hh); [reflexivity|apply isMM_holds]. }
  constructor; cbn [setpc base thr set_insts fsmap insts closed stat ierr cur cfg store]; auto.
  - intros m0 i0. unfold mnt_of. cbn [insts set_insts set_fsmap set_store]. rewrite mnts_inst_unmount by assumption.
    cu (isMM m0 i0) (thr s) t (PUCall m i) (PUMap m i) H. cu (isUM m0 i0) (thr s) t (PUCall m i) (PUMap m i) H.
    cbn [isMM isUM b2n] in *. pose proof (T m0 i0) as Tm. unfold mnt_of in Tm.
    destruct (Nat.eqb i0 i) eqn:Ei.
    + apply Nat.eqb_eq in Ei; subst i0. rewrite Nat.eqb_refl, andb_true_r in *.
      destruct (Nat.eq_dec m0 m) as [->|Nm].
      * rewrite occ_rm1_eq. rewrite Nat.eqb_refl in *. cbn [b2n] in *.
        rewrite (Zu i), (Zm i) in Tm. unfold own in *. rewrite Fm, Nat.eqb_refl in *. cbn [b2n] in *.
        rewrite (Zu i) in H1. rewrite (Zm i) in H0. lia.
      * rewrite occ_rm1_neq by assumption.
        assert (Nat.eqb m m0 = false) as X by (apply Nat.eqb_neq; congruence). rewrite X in *. cbn [b2n] in *. lia.
    + rewrite (Nat.eqb_sym i i0), Ei, andb_false_r in *. cbn [b2n] in *. lia.
  - intros m0. cu (holds m0) (thr s) t (PUCall m i) (PUMap m i) H. cbn in *. specialize (E m0). lia.
  - intros t' q Hq. destruct (nth_upd_cases _ _ _ _ _ Hq) as [[_ ->]|[_ Hq']].
    + cbn. assumption.
    + eapply loc_same; [| |eapply L; eauto]; reflexivity.
  - intros m0 i0 Hf. rewrite length_inst_unmount. eapply Bd; eauto.
  - intros Cl m0 Ht. destruct (R Cl m0 Ht) as [X|X]; [now left|right].
    cu (isMR m0) (thr s) t (PUCall m i) (PUMap m i) H. cbn in *. lia.
  - intros Cl Re Ie m0 Hr. destruct (F Cl Re Ie m0 Hr) as [X|X]; [now left|right].
    cu (isUR m0) (thr s) t (PUCall m i) (PUMap m i) H. cbn in *. lia.
  - intros i0 Hi0. rewrite length_inst_unmount. now apply C.
Qed.

(* PUMap -> PURec : fsMap.Delete *)
Lemma umap_sinv : forall s t m i, sinv s -> nth_error (thr s) t = Some (PUMap m i) ->
  sinv (setpc s (set_fsmap (base s) (del (fsmap (base s)) m)) t (PURec m)).
Proof.
  intros s t m i I H. pose proof I as [T E L Bd R F C N S CL].
  pose proof (L _ _ H) as Fm. cbn in Fm.
  assert (Hh : holds m (PUMap m i) = true) by (cbn; apply Nat.eqb_refl).
  constructor; cbn [setpc base thr set_fsmap fsmap insts closed stat ierr cur cfg store]; auto.
  - intros m0 i0. cu (isMM m0 i0) (thr s) t (PUMap m i) (PURec m) H. cu (isUM m0 i0) (thr s) t (PUMap m i) (PURec m) H.
    cbn [isMM isUM b2n] in *. specialize (T m0 i0). unfold mnt_of in *. cbn [insts set_insts set_fsmap set_store]. unfold own in *.
    destruct (Nat.eq_dec m0 m) as [->|Nm].
    + rewrite find_del_eq. rewrite Fm in T. rewrite Nat.eqb_refl in *. cbn [andb b2n] in *.
      rewrite (Nat.eqb_sym i i0) in *. destruct (Nat.eqb i0 i); cbn [b2n] in *; lia.
    + rewrite find_del_neq by assumption.
      assert (Nat.eqb m m0 = false) as X by (apply Nat.eqb_neq; congruence). rewrite X in *. cbn [andb b2n] in *. lia.
  - intros m0. cu (holds m0) (thr s) t (PUMap m i) (PURec m) H. cbn in *. specialize (E m0). lia.
  - intros t' q Hq. destruct (nth_upd_cases _ _ _ _ _ Hq) as [[_ ->]|[Nt Hq']].
    + cbn. apply find_del_eq.
    + eapply (loc_other (base s) _ m); [exact (excl_other m (thr s) t (PUMap m i) t' q (E m) H Hh Nt Hq')| |reflexivity|eapply L; eauto].
      intros m' Nm. cbn. now rewrite find_del_neq.
  - intros m0 i0. destruct (Nat.eq_dec m0 m) as [->|Nm].
    + rewrite find_del_eq. discriminate.
    + rewrite find_del_neq by assumption. apply Bd.
  - intros Cl m0 Ht. unfold tracked, recorded in *. cbn [fsmap store set_fsmap set_store set_insts] in *.
    destruct (Nat.eq_dec m0 m) as [->|Nm]; [now rewrite find_del_eq in Ht|].
    rewrite find_del_neq in Ht by assumption. destruct (R Cl m0 Ht) as [X|X]; [now left|right].
    cu (isMR m0) (thr s) t (PUMap m i) (PURec m) H. cbn in *. lia.
  - intros Cl Re Ie m0 Hr. unfold tracked, recorded in *. cbn [fsmap store set_fsmap set_store set_insts] in *.
    destruct (Nat.eq_dec m0 m) as [->|Nm].
    + right. eapply (cnt_pos (isUR m) _ t (PURec m)).
      * apply nth_upd_eq. apply nth_error_Some. congruence.
      * cbn. apply Nat.eqb_refl.
    + destruct (F Cl Re Ie m0 Hr) as [X|X]; [left; now rewrite find_del_neq|right].
      cu (isUR m0) (thr s) t (PUMap m i) (PURec m) H. cbn in *. lia.
  - intros X. rewrite (N X) in Fm. discriminate.
Qed.

(* PURec -> done : removeFuseInfo *)
Lemma urec_sinv : forall s t m, sinv s -> nth_error (thr s) t = Some (PURec m) ->
  sinv (setpc s (set_store (base s) (store_del (base s) m)) t PDone).
Proof.
  intros s t m I H. pose proof I as [T E L Bd R F C N S CL].
  pose proof (L _ _ H) as Fm. cbn in Fm.
  constructor; cbn [setpc base thr set_store fsmap insts closed stat ierr cur cfg store]; auto.
  - intros m0 i0. cu (isMM m0 i0) (thr s) t (PURec m) PDone H. cu (isUM m0 i0) (thr s) t (PURec m) PDone H.
    cbn in *. specialize (T m0 i0). unfold mnt_of in *. cbn [insts set_insts set_fsmap set_store]. lia.
  - intros m0. cu (holds m0) (thr s) t (PURec m) PDone H. cbn in *. specialize (E m0). lia.
  - intros t' q Hq. destruct (nth_upd_cases _ _ _ _ _ Hq) as [[_ ->]|[_ Hq']]; [exact Logic.I|].
    eapply loc_same; [| |eapply L; eauto]; reflexivity.
  - intros Cl m0 Ht. unfold tracked, recorded, store_del in *. cbn [fsmap store closed set_fsmap set_store set_insts] in *. rewrite Cl.
    assert (m0 <> m) by (intros ->; congruence).
    rewrite find_del_neq by assumption. destruct (R Cl m0 Ht) as [X|X]; [now left|right].
    cu (isMR m0) (thr s) t (PURec m) PDone H. cbn in *. lia.
  - intros Cl Re Ie m0 Hr. unfold tracked, recorded, store_del in *. cbn [fsmap store closed set_fsmap set_store set_insts] in *. rewrite Cl in Hr.
    destruct (Nat.eq_dec m0 m) as [->|Nm]; [now rewrite find_del_eq in Hr|].
    rewrite find_del_neq in Hr by assumption. destruct (F Cl Re Ie m0 Hr) as [X|X]; [now left|right].
    cu (isUR m0) (thr s) t (PURec m) PDone H. cbn [isUR b2n] in *.
    assert (Nat.eqb m m0 = false) as Y by (apply Nat.eqb_neq; congruence). rewrite Y in *. cbn in *. lia.
  - unfold store_del. destruct (closed (base s)); [assumption|now apply del_sorted].
  - intros Cl. unfold store_del. rewrite Cl. now apply CL.
Qed.

Lemma busy_false_done : forall T, busy T = false -> forall p, In p T -> p = PDone.
Proof.
  induction T as [|a T IH]; intros B p; [intros []|].
  cbn in B. apply orb_false_iff in B. destruct B as [A B']. intros [->|H].
  - destruct p; cbn in A; try discriminate; reflexivity.
  - now apply IH.
Qed.

Lemma restart_inv : forall b, ksorted (store b) -> inv (fst (step b Restart)).
Proof.
  intros b S. cbn. constructor; cbn; auto; try discriminate.
  - intros m i. unfold mnt_of, mnts. cbn. rewrite nth_error_map. destruct (nth_error (insts b) i); reflexivity.
  - intros _ m H. now contradiction H.
Qed.

Lemma sstep_mplock : forall s o, mplock (fst (sstep s o)) = mplock s.
Proof.
  intros s o. destruct o as [m l|m l|m|t ok|c k sc| |]; cbn [sstep].
  - destruct (mplock s && locked (thr s) m); [reflexivity|]. destruct (stat (base s)); try reflexivity.
    destruct (find (fsmap (base s)) m); [reflexivity|]. destruct (cur (base s)); reflexivity.
  - destruct (stat (base s)); try reflexivity. destruct (find (fsmap (base s)) m); reflexivity.
  - destruct (mplock s && locked (thr s) m); [reflexivity|]. destruct (stat (base s)); try reflexivity.
    destruct (find (fsmap (base s)) m); reflexivity.
  - destruct (nth_error (thr s) t) as [[]|]; try reflexivity; try (destruct ok; reflexivity).
    destruct (cfg (base s)); reflexivity.
  - destruct (busy (thr s)); [reflexivity|]. destruct (step (base s) (Init c k sc)) as [b' [r cs]]. reflexivity.
  - destruct (busy (thr s)); [reflexivity|]. destruct (step (base s) Close) as [b' [r cs]]. reflexivity.
  - reflexivity.
Qed.

Lemma sstep_sinv : forall s o, mplock s = true -> sinv s -> sinv (fst (sstep s o)).
Proof.
  intros s o LK I. destruct o as [m l|m l|m|t ok|c k sc| |].
  1-3: apply begin_sinv; auto; exact Logic.I.
  - cbn [sstep]. destruct (nth_error (thr s) t) as [p|] eqn:H; [|exact I].
    destruct p as [m l i|m l i|m l|m i|m i|m|m l i|]; cbn [fst].
    + destruct ok; cbn [fst]; [eapply mcall_sinv; eauto|].
      eapply drop_sinv; eauto; intros; split; reflexivity.
    + eapply mmap_sinv; eauto.
    + destruct (cfg (base s)) as [c|] eqn:Cf; cbn [fst]; [eapply mrec_sinv; eauto|exfalso].
      pose proof (S_loc s I _ _ H) as Fm. cbn in Fm.
      destruct (cur (base s)) as [i|] eqn:Cu.
      * destruct (S_cur s I i Cu). congruence.
      * rewrite (S_nocur s I Cu) in Fm. now apply Fm.
    + destruct ok; cbn [fst]; [eapply ucall_sinv; eauto|].
      eapply drop_sinv; eauto; intros; split; reflexivity.
    + eapply umap_sinv; eauto.
    + eapply urec_sinv; eauto.
    + eapply drop_sinv; eauto; intros; split; reflexivity.
    + exact I.
  - cbn [sstep]. destruct (busy (thr s)) eqn:B; [exact I|].
    pose proof (init_step_inv (base s) c k sc (quiet_inv s B I)) as I'.
    destruct (step (base s) (Init c k sc)) as [b' [r cs]]. cbn [fst] in *.
    apply inv_sinv; [assumption|now apply busy_false_done].
  - cbn [sstep]. destruct (busy (thr s)) eqn:B; [exact I|].
    pose proof (step_inv (base s) Close (quiet_inv s B I)) as I'.
    destruct (step (base s) Close) as [b' [r cs]]. cbn [fst] in *.
    apply inv_sinv; [assumption|now apply busy_false_done].
  - cbn [sstep fst]. apply inv_sinv; [apply restart_inv; apply (S_sorted s I)|].
    intros p Hp. apply in_map_iff in Hp. destruct Hp as (x & E & _). now symmetry.
Qed.

Lemma sexec_sinv : forall os s, mplock s = true -> sinv s -> sinv (sexec s os) /\ mplock (sexec s os) = true.
Proof.
  induction os as [|o t IH]; intros s LK I; [split; assumption|].
  cbn [sexec fold_left]. apply IH; [now rewrite sstep_mplock|now apply sstep_sinv].
Qed.

Lemma sreach_sinv : forall g e os, sinv (sexec (cinit g true e) os).
Proof.
  intros. apply sexec_sinv; [reflexivity|]. apply inv_sinv; [apply inv_init|intros p []].
Qed.

(* ---------- consequences ---------- *)
(* a mountpoint whose mutex nobody holds is in the sequential regime *)
Lemma free_tab : forall s m, sinv s -> cnt (holds m) (thr s) = 0 ->
  (forall i, occ m (mnt_of (base s) i) = b2n (own (fsmap (base s)) m i))
  /\ (closed (base s) = false -> tracked (base s) m -> recorded (base s) m)
  /\ (closed (base s) = false -> stat (base s) = Ready -> ierr (base s) = false -> recorded (base s) m -> tracked (base s) m).
Proof.
  intros s m I Z.
  assert (Zf : forall f, (forall p, f p = true -> holds m p = true) -> cnt f (thr s) = 0).
  { intros f H. pose proof (cnt_le f (holds m) (thr s) H). lia. }
  repeat split.
  - intros i. pose proof (S_tab s I m i) as T. rewrite (Zf _ (isUM_holds m i)), (Zf _ (isMM_holds m i)) in T. lia.
  - intros Cl Ht. destruct (S_rec s I Cl m Ht) as [X|X]; [assumption|]. rewrite (Zf _ (isMR_holds m)) in X. lia.
  - intros Cl Re Ie Hr. destruct (S_full s I Cl Re Ie m Hr) as [X|X]; [assumption|]. rewrite (Zf _ (isUR_holds m)) in X. lia.
Qed.

Lemma free_live : forall s m, sinv s -> cnt (holds m) (thr s) = 0 -> closed (base s) = false ->
  (serving (base s) m -> recorded (base s) m)
  /\ (stat (base s) = Ready -> ierr (base s) = false -> recorded (base s) m -> serving (base s) m).
Proof.
  intros s m I Z Cl. destruct (free_tab s m I Z) as (T & R & F). split.
  - intros [i Hi]. apply R; [assumption|]. rewrite (T i) in Hi. unfold tracked.
    destruct (own (fsmap (base s)) m i) eqn:O; [|cbn in Hi; lia]. apply own_true in O. congruence.
  - intros Re Ie Hr. pose proof (F Cl Re Ie Hr) as Ht. unfold tracked in Ht.
    destruct (find (fsmap (base s)) m) as [i|] eqn:Fi; [|congruence]. exists i. rewrite (T i).
    apply own_true in Fi. rewrite Fi. cbn. lia.
Qed.

(* never mounted twice, at every point of every interleaving *)
Lemma single_mount : forall s m i, sinv s -> occ m (mnt_of (base s) i) <= 1.
Proof.
  intros s m i I. pose proof (S_tab s I m i) as T.
  destruct (cnt (isMM m i) (thr s)) as [|k] eqn:C.
  - destruct (own (fsmap (base s)) m i); cbn in T; lia.
  - assert (P : 0 < cnt (isMM m i) (thr s)) by lia.
    destruct (cnt_ex _ _ P) as (t & p & H & Fp).
    pose proof (cnt_le (isMM m i) (holds m) (thr s) (isMM_holds m i)). pose proof (S_excl s I m).
    pose proof (S_loc s I _ _ H) as Lp. destruct p; cbn in Fp; try discriminate.
    apply andb_true_iff in Fp. destruct Fp as [Em Ei]. apply Nat.eqb_eq in Em. subst m0.
    cbn in Lp. destruct Lp as [Fm _]. unfold own in T. rewrite Fm in T. cbn in T. lia.
Qed.

Lemma restart_init_sorted : forall b c sc, ksorted (store b) -> closed b = false ->
  let s0 := fst (step b Restart) in
  let n := length (insts b) in
  let s1 := fst (step s0 (Init c IRun sc)) in
  let r := fst (snd (step s0 (Init c IRun sc))) in
  let cs := snd (snd (step s0 (Init c IRun sc))) in
  store s1 = store b
  /\ (exists k, cs = firstn k (map (rcall n) (store b)))
  /\ (r = ROk -> cs = map (rcall n) (store b)
               /\ forall m l c0, find (store b) m = Some (l, c0) ->
                    find (fsmap s1) m = Some n /\ In (m, l) (mnt_of s1 n) /\ cfg_of s1 n = Some c).
Proof.
  intros b c sc S Cl. cbn [step fst snd closed store fsmap insts]. rewrite map_length.
  destruct (restore (length (insts b)) (store b) sc [] []) as [[[fm mnt] cs] ok] eqn:Rs. cbn.
  assert (ND : NoDup (keys (store b))) by (now apply sorted_nodup).
  destruct (restore_calls _ _ _ _ _ _ _ _ _ Rs ND (fun m _ => eq_refl)) as ((k & Ek & Eall) & L).
  split; [reflexivity|]. split; [exists k; assumption|].
  intros Hok. assert (ok = true) as -> by (destruct ok; [reflexivity|discriminate]).
  split; [now apply Eall|].
  intros m l c0 F. apply find_some_in in F. destruct (L eq_refl m l c0 F) as [A B].
  repeat split; auto.
  - unfold mnt_of. cbn [insts]. rewrite mnts_app_new, map_length, Nat.eqb_refl. exact A.
  - unfold cfg_of. cbn [insts]. rewrite nth_error_app2 by (rewrite map_length; lia).
    now rewrite map_length, Nat.sub_diag.
Qed.

(* a crash anywhere: every request dies, nothing is served, the store is what the last committed transaction left *)
Lemma crash_anywhere : forall s,
  let s' := fst (sstep s SRestart) in
  busy (thr s') = false /\ store (base s') = store (base s) /\ closed (base s') = false
  /\ fsmap (base s') = [] /\ (forall m i, occ m (mnt_of (base s') i) = 0) /\ stat (base s') = WaitInit.
Proof.
  intros s. cbn. repeat split.
  - induction (thr s); cbn; auto.
  - intros m i. unfold mnt_of, mnts. cbn. rewrite nth_error_map. destruct (nth_error (insts (base s)) i); reflexivity.
Qed.

Lemma sstep_restart_init : forall s c sc,
  sstep (fst (sstep s SRestart)) (SInit c IRun sc)
  = (let '(b', (r, cs)) := step (fst (step (base s) Restart)) (Init c IRun sc) in
     (mkC b' (map (fun _ => PDone) (thr s)) (mplock s), (SFin r, cs))).
Proof.
  intros s c sc. cbn [sstep fst base thr mplock].
  assert (busy (map (fun _ : pc => PDone) (thr s)) = false) as -> by (induction (thr s); cbn; auto).
  reflexivity.
Qed.

Lemma single_owner : forall s m i j, sinv s -> 0 < occ m (mnt_of (base s) i) -> 0 < occ m (mnt_of (base s) j) -> i = j.
Proof.
  intros s m i j I Hi Hj. destruct (Nat.eq_dec i j) as [|N]; [assumption|exfalso].
  pose proof (S_tab s I m i) as Ti. pose proof (S_tab s I m j) as Tj.
  assert (X : forall k, 0 < cnt (isMM m k) (thr s) ->
              exists t l, nth_error (thr s) t = Some (PMMap m l k) /\ find (fsmap (base s)) m = None).
  { intros k P. destruct (cnt_ex _ _ P) as (t & p & H & Fp). pose proof (S_loc s I _ _ H) as Lp.
    destruct p; cbn in Fp; try discriminate. apply andb_true_iff in Fp. destruct Fp as [Em Ek].
    apply Nat.eqb_eq in Em. apply Nat.eqb_eq in Ek. subst. cbn in Lp. exists t, l. split; [assumption|tauto]. }
  unfold own in *.
  destruct (cnt (isMM m i) (thr s)) as [|a] eqn:Ci; destruct (cnt (isMM m j) (thr s)) as [|b] eqn:Cj.
  - destruct (find (fsmap (base s)) m) as [k|]; cbn in *; [|lia].
    destruct (Nat.eqb k i) eqn:E1; destruct (Nat.eqb k j) eqn:E2; cbn in *; try lia.
    apply Nat.eqb_eq in E1. apply Nat.eqb_eq in E2. congruence.
  - destruct (X j ltac:(lia)) as (t & l & _ & Fm). rewrite Fm in *. cbn in *. lia.
  - destruct (X i ltac:(lia)) as (t & l & _ & Fm). rewrite Fm in *. cbn in *. lia.
  - destruct (X i ltac:(lia)) as (t & l & H & _). destruct (X j ltac:(lia)) as (t' & l' & H' & _).
    assert (t <> t') by (intros ->; rewrite H in H'; inversion H'; congruence).
    pose proof (cnt_two (holds m) (thr s) t t' _ _ H0 H H') as Two. cbn in Two. rewrite Nat.eqb_refl in Two.
    specialize (Two eq_refl eq_refl). pose proof (S_excl s I m). lia.
Qed.

Fixpoint strace (s : cst) (os : list sop) : list sobs :=
  match os with
  | [] => []
  | o :: t => (rcode (fst (snd (sstep s o))), snd (snd (sstep s o)), view_of (base (fst (sstep s o))), map pcode (thr (fst (sstep s o))))
              :: strace (fst (sstep s o)) t
  end.

Lemma srun_trace : forall os s, srun s os = (sexec s os, strace s os).
Proof.
  induction os as [|o t IH]; intros s; [reflexivity|].
  cbn [srun strace sexec fold_left]. destruct (sstep s o) as [s1 [r cs]] eqn:E. cbn [fst snd].
  rewrite (IH s1). reflexivity.
Qed.
