(* C14 — the landmark separates the compressed offsets. Proofs over C03's writer / builder machine
   (Model/EsgzWriter.v: appendTar, closeGz / flushGz, divideEntries, parallel sub-blobs, closeWithCombine; tied to
   the real estargz.Writer / Build by C03's correspondence check, which compares exact TOC offsets).
   Nothing here modifies that model; this file adds one invariant (recorded offsets never decrease and never
   exceed the start of the open member) and follows an entry with [e_open] (needsOpenGz: the landmark Build
   inserts) through a run, through the partition into sub-blobs and through the rebasing of closeWithCombine. *)
From Coq Require Import List NArith ZArith Bool Arith Lia.
From SV Require Import Gen.Consts Model.EsgzFooter Model.EsgzWriter Proofs.EsgzWriter.
Import ListNotations.
Open Scope N_scope.

(* ---------- field access through the state updates ---------- *)

Lemma close_some : forall s s2, close_member s = Ok s2 -> w_cur s <> None ->
  exists c cs', w_cs s = c :: cs' /\ w_toc s2 = w_toc s /\ w_poff s2 = w_poff s
    /\ w_mstart s2 = w_mstart s + c /\ w_cwn s2 = w_mstart s + c /\ w_cs s2 = cs'.
Proof.
  intros s s2 H Hc. unfold close_member in H. destruct (w_cur s) as [p|]; [|congruence].
  destruct (w_cs s) as [|c cs']; [discriminate|]. injection H as <-. exists c, cs'. simpl. repeat split; reflexivity.
Qed.

Lemma close_any : forall s s2, close_member s = Ok s2 ->
  w_toc s2 = w_toc s /\ w_poff s2 = w_poff s /\ w_mstart s <= w_mstart s2
  /\ (w_mstart s <= w_cwn s -> w_mstart s2 <= w_cwn s2)
  /\ (exists k, w_cs s2 = skipn k (w_cs s)).
Proof.
  intros s s2 H. unfold close_member in H. destruct (w_cur s) as [p|].
  - destruct (w_cs s) as [|c cs']; [discriminate|]. injection H as <-. simpl.
    split; [reflexivity|]. split; [reflexivity|]. split; [lia|]. split; [lia|]. exists 1%nat. reflexivity.
  - injection H as <-. split; [reflexivity|]. split; [reflexivity|]. split; [lia|]. split; [tauto|]. exists 0%nat. reflexivity.
Qed.

Lemma observe_some : forall s s1, observe_flush s = Ok s1 ->
  w_toc s1 = w_toc s /\ w_poff s1 = w_poff s /\ w_mstart s1 = w_mstart s /\ w_mstart s1 <= w_cwn s1
  /\ w_cs s1 = w_cs s /\ w_cur s1 = w_cur s.
Proof.
  intros s s1 H. unfold observe_flush in H. destruct (w_fs s) as [|f fs']; [discriminate|]. injection H as <-.
  simpl. repeat split; lia.
Qed.

(* the tail of every chunk step: open if needed, write the payload, record the TOC entry *)
Definition fin_chunk (x : wst) (b : bytes) (n : N) (t : tocent) : wst := add_toc (wr (cond_open x) b n) t.

Lemma fin_chunk_fields : forall x b n t,
  w_toc (fin_chunk x b n t) = w_toc x ++ [t] /\ w_poff (fin_chunk x b n t) = w_poff x
  /\ w_mstart (fin_chunk x b n t) = w_mstart x /\ w_cwn (fin_chunk x b n t) = w_cwn x
  /\ w_cs (fin_chunk x b n t) = w_cs x /\ w_cur (fin_chunk x b n t) <> None.
Proof.
  intros x b n t. unfold fin_chunk, cond_open. destruct (w_cur x); simpl; repeat split; discriminate.
Qed.

Lemma wr_open_fields : forall x b n,
  w_toc (wr (cond_open x) b n) = w_toc x /\ w_poff (wr (cond_open x) b n) = w_poff x
  /\ w_mstart (wr (cond_open x) b n) = w_mstart x /\ w_cwn (wr (cond_open x) b n) = w_cwn x
  /\ w_cs (wr (cond_open x) b n) = w_cs x /\ w_cur (wr (cond_open x) b n) <> None.
Proof.
  intros x b n. unfold cond_open. destruct (w_cur x); simpl; repeat split; discriminate.
Qed.

Lemma wr_fields : forall x b n,
  w_toc (wr x b n) = w_toc x /\ w_poff (wr x b n) = w_poff x
  /\ w_mstart (wr x b n) = w_mstart x /\ w_cwn (wr x b n) = w_cwn x
  /\ w_cs (wr x b n) = w_cs x /\ w_cur (wr x b n) <> None.
Proof. intros x b n. simpl. repeat split; discriminate. Qed.

(* ---------- the invariant ---------- *)

Definition pos_all (cs : list N) : Prop := Forall (fun c => 0 < c) cs.

(* every offset recorded so far is at most prevOffset, which is at most the start of the open (or next) member;
   every compressed member still to come is non-empty (a gzip / zstd member has a header) *)
Record good (s : wst) : Prop := mkGood {
  g_toc : forall t, In t (w_toc s) -> is_data t = true -> t_off t <= w_poff s;
  g_pm : w_poff s <= w_mstart s;
  g_mc : w_mstart s <= w_cwn s;
  g_cs : pos_all (w_cs s)
}.

(* from s to s': prevOffset does not decrease; the TOC grows by entries whose offsets are at least the old prevOffset *)
Definition adv (s s' : wst) : Prop :=
  w_poff s <= w_poff s' /\ exists new, w_toc s' = w_toc s ++ new
    /\ forall t, In t new -> is_data t = true -> w_poff s <= t_off t.

Lemma adv_refl : forall s s', w_toc s' = w_toc s -> w_poff s' = w_poff s -> adv s s'.
Proof.
  intros s s' H1 H2. split; [lia|]. exists []. rewrite app_nil_r. split; [assumption|]. intros t [].
Qed.

Lemma adv_trans : forall a b c, adv a b -> adv b c -> adv a c.
Proof.
  intros a b c [P1 [n1 [T1 O1]]] [P2 [n2 [T2 O2]]]. split; [lia|]. exists (n1 ++ n2). split.
  - rewrite T2, T1, app_assoc. reflexivity.
  - intros t Ht Hd. apply in_app_or in Ht. destruct Ht as [Ht|Ht]; [auto|]. specialize (O2 t Ht Hd). lia.
Qed.

Lemma pos_skipn : forall k cs, pos_all cs -> pos_all (skipn k cs).
Proof.
  induction k as [|k IH]; intros cs H; simpl; [assumption|]. destruct cs as [|c cs]; [constructor|].
  apply IH. inversion H; assumption.
Qed.

Lemma good_same : forall s s', good s -> w_toc s' = w_toc s -> w_poff s' = w_poff s -> w_mstart s' = w_mstart s ->
  w_mstart s' <= w_cwn s' -> w_cs s' = w_cs s -> good s'.
Proof.
  intros s s' [G1 G2 G3 G4] H1 H2 H3 H4 H5. constructor.
  - rewrite H1, H2. exact G1.
  - lia.
  - assumption.
  - rewrite H5. assumption.
Qed.

(* ---------- one chunk ---------- *)

(* what do_chunk computes, case by case *)
Lemma do_chunk_cases : forall i o e first s c s',
  do_chunk i o e first s c = Ok s' -> w_cur s <> None ->
  exists x off inner b n,
    s' = fin_chunk x b n (mkT (e_id e) (if first then TReg else TChunk) (if first then e_size e else 0)
                              off inner (fst (fst c)) (snd c))
    /\ w_toc x = w_toc s /\ w_mstart x <= w_cwn x
    /\ ((* a fresh member was opened: the offset is its start *)
        (exists k cs', w_cs s = k :: cs' /\ w_cs x = cs' /\ w_mstart x = w_mstart s + k
                       /\ off = w_mstart x /\ inner = 0 /\ w_poff x = off)
        \/ (* the open stream is shared *)
        (w_cs x = w_cs s /\ w_mstart x = w_mstart s /\ off = w_poff s /\ w_poff x = w_poff s
         /\ (first && e_open e = false) /\ (0 < o_min o)%Z)).
Proof.
  intros i o e first s [[coff clen] csf] s' H Hc. unfold do_chunk in H. simpl fst. simpl snd.
  destruct (o_min o <=? 0)%Z eqn:Em.
  - simpl in H. destruct (close_member s) as [s2| |] eqn:C; try discriminate. simpl in H. injection H as <-.
    destruct (close_some _ _ C Hc) as [k [cs' [E1 [E2 [E3 [E4 [E5 E6]]]]]]].
    exists (set_prev s2 (w_cwn s2) (w_unc s2)), (w_cwn s2), 0, (sl coff clen (content i e)), clen.
    split; [reflexivity|]. simpl. split; [assumption|]. split; [lia|]. left.
    exists k, cs'. repeat split; try assumption; lia.
  - destruct (observe_flush s) as [s1| |] eqn:O; try discriminate. simpl in H.
    destruct (observe_some _ _ O) as [O1 [O2 [O3 [O4 [O5 O6]]]]].
    destruct (first && e_open e || (o_min o <=? Z.of_N (w_cwn s1) - Z.of_N (w_poff s1))%Z) eqn:Ed.
    + destruct (close_member s1) as [s2| |] eqn:C; try discriminate. simpl in H. injection H as <-.
      assert (Hc1 : w_cur s1 <> None) by (rewrite O6; assumption).
      destruct (close_some _ _ C Hc1) as [k [cs' [E1 [E2 [E3 [E4 [E5 E6]]]]]]].
      exists (set_prev s2 (w_cwn s2) (w_unc s2)), (w_cwn s2), 0, (sl coff clen (content i e)), clen.
      split; [reflexivity|]. simpl. split; [congruence|]. split; [lia|]. left.
      exists k, cs'. repeat split; try assumption; try lia; congruence.
    + simpl in H. injection H as <-.
      exists s1, (w_poff s1), (w_unc s1 - w_punc s1), (sl coff clen (content i e)), clen.
      split; [reflexivity|]. split; [assumption|]. split; [assumption|]. right.
      apply orb_false_iff in Ed. destruct Ed as [Ed1 Ed2].
      repeat split; try assumption. apply Z.leb_gt in Em. assumption.
Qed.

Lemma do_chunk_good : forall i o e first s c s',
  do_chunk i o e first s c = Ok s' -> w_cur s <> None -> good s ->
  good s' /\ adv s s' /\ w_cur s' <> None.
Proof.
  intros i o e first s c s' H Hc [G1 G2 G3 G4].
  destruct (do_chunk_cases _ _ _ _ _ _ _ H Hc) as [x [off [inner [b [n [Es [Tx [Mx Cases]]]]]]]].
  destruct (fin_chunk_fields x b n (mkT (e_id e) (if first then TReg else TChunk) (if first then e_size e else 0)
                                        off inner (fst (fst c)) (snd c))) as [F1 [F2 [F3 [F4 [F5 F6]]]]].
  rewrite <- Es in *. destruct Cases as [[k [cs' [C1 [C2 [C3 [C4 [C5 C6]]]]]]]|[C1 [C2 [C3 [C4 _]]]]].
  - split; [|split; [|assumption]].
    + constructor.
      * intros t Ht Hd. rewrite F1, Tx in Ht. rewrite F2. apply in_app_or in Ht. destruct Ht as [Ht|[Ht|[]]].
        -- specialize (G1 t Ht Hd). lia.
        -- subst t. simpl. lia.
      * lia.
      * lia.
      * rewrite F5, C2. rewrite C1 in G4. inversion G4; assumption.
    + split; [lia|]. exists [mkT (e_id e) (if first then TReg else TChunk) (if first then e_size e else 0)
                                off inner (fst (fst c)) (snd c)].
      split; [rewrite F1, Tx; reflexivity|]. intros t [Ht|[]] _. subst t. simpl. lia.
  - split; [|split; [|assumption]].
    + constructor.
      * intros t Ht Hd. rewrite F1, Tx in Ht. rewrite F2. apply in_app_or in Ht. destruct Ht as [Ht|[Ht|[]]].
        -- specialize (G1 t Ht Hd). lia.
        -- subst t. simpl. lia.
      * lia.
      * lia.
      * rewrite F5, C1. assumption.
    + split; [lia|]. exists [mkT (e_id e) (if first then TReg else TChunk) (if first then e_size e else 0)
                                off inner (fst (fst c)) (snd c)].
      split; [rewrite F1, Tx; reflexivity|]. intros t [Ht|[]] _. subst t. simpl. lia.
Qed.

Lemma do_chunks_good : forall i o e cl first s s',
  do_chunks i o e first s cl = Ok s' -> w_cur s <> None -> good s ->
  good s' /\ adv s s' /\ w_cur s' <> None.
Proof.
  induction cl as [|c cl IH]; intros first s s' H Hc G; simpl in H.
  - injection H as <-. split; [assumption|]. split; [apply adv_refl; reflexivity|assumption].
  - destruct (do_chunk i o e first s c) as [s1| |] eqn:D; try discriminate. simpl in H.
    destruct (do_chunk_good _ _ _ _ _ _ _ D Hc G) as [G1 [A1 C1]].
    destruct (IH _ _ _ H C1 G1) as [G2 [A2 C2]].
    split; [assumption|]. split; [eapply adv_trans; eauto|assumption].
Qed.

(* ---------- one entry, a run of entries ---------- *)

Lemma step_entry_good : forall i o s e s', step_entry i o s e = Ok s' -> good s -> good s' /\ adv s s'.
Proof.
  intros i o s e s' H G. unfold step_entry in H.
  destruct (wr_open_fields s (hdr i e) (e_hlen e)) as [W1 [W2 [W3 [W4 [W5 W6]]]]].
  assert (G1 : good (wr (cond_open s) (hdr i e) (e_hlen e))).
  { destruct G as [A B C D]. apply (good_same s); auto; try (constructor; assumption). lia. }
  assert (A1 : adv s (wr (cond_open s) (hdr i e) (e_hlen e))) by (apply adv_refl; assumption).
  assert (Main : forall k, e_kind e = k -> k <> KToc -> k <> KBad ->
      (if 0 <? data_size e
       then bind (do_chunks i o e true (wr (cond_open s) (hdr i e) (e_hlen e)) (chunks (eff_chunk o) (data_size e)))
                 (fun s2 => Ok (if 0 <? pad512 (data_size e) then wr s2 (padb i e) (pad512 (data_size e)) else s2))
       else Ok (add_toc (wr (cond_open s) (hdr i e) (e_hlen e))
                        (mkT (e_id e) (match k with KReg => TReg | _ => TOther end) (data_size e) 0 0 0 0))) = Ok s' ->
      good s' /\ adv s s').
  { intros k Ek N1 N2 H'. destruct (0 <? data_size e) eqn:Z.
    - destruct (do_chunks _ _ _ _ _ _) as [s2| |] eqn:D; try discriminate. simpl in H'. injection H' as <-.
      destruct (do_chunks_good _ _ _ _ _ _ _ D W6 G1) as [G2 [A2 C2]].
      destruct (0 <? pad512 (data_size e)).
      + destruct (wr_fields s2 (padb i e) (pad512 (data_size e))) as [V1 [V2 [V3 [V4 [V5 V6]]]]].
        split.
        * destruct G2 as [A B C D']. apply (good_same s2); auto; try (constructor; assumption); try lia.
        * eapply adv_trans; [exact A1|]. eapply adv_trans; [exact A2|]. apply adv_refl; assumption.
      + split; [assumption|eapply adv_trans; eauto].
    - injection H' as <-.
      assert (Nd : is_data (mkT (e_id e) (match k with KReg => TReg | _ => TOther end) (data_size e) 0 0 0 0) = false).
      { unfold is_data. simpl. destruct k; simpl; try reflexivity; assumption. }
      split.
      + destruct G1 as [A B C D]. constructor; simpl; try assumption.
        intros t Ht Hd. apply in_app_or in Ht. destruct Ht as [Ht|[Ht|[]]]; [auto|]. subst t. congruence.
      + split.
        * change (w_poff s <= w_poff (wr (cond_open s) (hdr i e) (e_hlen e))). rewrite W2. lia.
        * exists [mkT (e_id e) match k with KReg => TReg | _ => TOther end (data_size e) 0 0 0 0]. split.
          -- change (w_toc (wr (cond_open s) (hdr i e) (e_hlen e)) ++ [mkT (e_id e) match k with KReg => TReg | _ => TOther end (data_size e) 0 0 0 0]
                     = w_toc s ++ [mkT (e_id e) match k with KReg => TReg | _ => TOther end (data_size e) 0 0 0 0]).
             rewrite W1. reflexivity.
          -- intros t [Ht|[]] Hd. subst t. congruence. }
  destruct (e_kind e) eqn:K.
  - apply (Main KReg); try reflexivity; try discriminate. exact H.
  - apply (Main KMeta); try reflexivity; try discriminate. exact H.
  - destruct (o_lossless o); [discriminate|]. injection H as <-. split; [assumption|apply adv_refl; reflexivity].
  - discriminate.
Qed.

Lemma run_entries_good : forall i o es s s', run_entries i o s es = Ok s' -> good s -> good s' /\ adv s s'.
Proof.
  induction es as [|e es IH]; intros s s' H G; simpl in H.
  - injection H as <-. split; [assumption|apply adv_refl; reflexivity].
  - destruct (step_entry i o s e) as [s1| |] eqn:S; try discriminate. simpl in H.
    destruct (step_entry_good _ _ _ _ _ S G) as [G1 A1]. destruct (IH _ _ H G1) as [G2 A2].
    split; [assumption|eapply adv_trans; eauto].
Qed.

(* ---------- the landmark ---------- *)

(* the entry Build inserts: a one-byte regular file whose name is in needsOpenGzEntries *)
Definition landmark_entry (e : entry) : Prop := e_kind e = KReg /\ e_size e = 1 /\ e_open e = true.

Lemma chunks_one : forall cs, 0 < cs -> exists csf, chunks cs 1 = [(0, 1, csf)].
Proof.
  intros cs H. unfold chunks. destruct (N.eq_dec cs 1) as [E|E].
  - subst cs. exists 1. reflexivity.
  - assert (L : 1 < cs) by lia. rewrite (N.div_small 1 cs L). simpl.
    apply N.ltb_lt in L. rewrite L. exists 0. reflexivity.
Qed.

Lemma step_landmark : forall i o s e s', step_entry i o s e = Ok s' -> good s -> landmark_entry e ->
  exists lt, w_toc s' = w_toc s ++ [lt] /\ strip lt :: nil = toc_spec o e /\ is_data lt = true
    /\ t_inner lt = 0 /\ w_mstart s < t_off lt /\ w_poff s' = t_off lt /\ good s'.
Proof.
  intros i o s e s' H G [K [Z Op]].
  destruct (step_entry_good _ _ _ _ _ H G) as [G' _].
  unfold step_entry in H. unfold toc_spec. rewrite K in *. unfold data_size in *. rewrite K in *. rewrite Z in *.
  change (0 <? 1) with true in *. cbv iota in *.
  destruct (chunks_one (eff_chunk o) (eff_chunk_pos o)) as [csf Ec]. rewrite Ec in *. cbn [do_chunks] in H.
  destruct (do_chunk i o e true (wr (cond_open s) (hdr i e) (e_hlen e)) (0, 1, csf)) as [s2| |] eqn:D; try discriminate.
  cbn [bind] in H. injection H as <-.
  destruct (wr_open_fields s (hdr i e) (e_hlen e)) as [W1 [W2 [W3 [W4 [W5 W6]]]]].
  destruct (do_chunk_cases _ _ _ _ _ _ _ D W6) as [x [off [inner [b [n [Es [Tx [Mx Cases]]]]]]]].
  simpl in Es.
  destruct (fin_chunk_fields x b n (mkT (e_id e) TReg (e_size e) off inner 0 csf)) as [F1 [F2 [F3 [F4 [F5 F6]]]]].
  rewrite <- Es in *.
  destruct Cases as [[k [cs' [C1 [C2 [C3 [C4 [C5 C6]]]]]]]|[_ [_ [_ [_ [C5 _]]]]]].
  2:{ rewrite Op in C5. discriminate. }
  assert (Pk : 0 < k).
  { destruct G as [_ _ _ G4]. rewrite <- W5 in G4. rewrite C1 in G4. inversion G4; assumption. }
  exists (mkT (e_id e) TReg (e_size e) off inner 0 csf).
  assert (Ht : w_toc (if 0 <? pad512 1 then wr s2 (padb i e) (pad512 1) else s2) = w_toc s ++ [mkT (e_id e) TReg (e_size e) off inner 0 csf]).
  { destruct (0 <? pad512 1); simpl; rewrite F1, Tx, W1; reflexivity. }
  assert (Hp : w_poff (if 0 <? pad512 1 then wr s2 (padb i e) (pad512 1) else s2) = off).
  { destruct (0 <? pad512 1); simpl; rewrite F2; assumption. }
  split; [exact Ht|]. split; [simpl; rewrite Z; reflexivity|]. split; [unfold is_data; simpl; rewrite Z; reflexivity|].
  split; [simpl; assumption|]. split; [simpl; lia|]. split; [exact Hp|].
  exact G'.
Qed.

(* a run over pre ++ landmark :: post *)
Lemma run_landmark : forall i o pre lm post s s',
  run_entries i o s (pre ++ lm :: post) = Ok s' -> good s -> landmark_entry lm ->
  exists tp lt tq,
    w_toc s' = w_toc s ++ tp ++ lt :: tq
    /\ map strip tp = flat_map (toc_spec o) pre /\ strip lt :: nil = toc_spec o lm
    /\ map strip tq = flat_map (toc_spec o) post
    /\ is_data lt = true /\ t_inner lt = 0 /\ 0 < t_off lt
    /\ (forall t, In t (w_toc s ++ tp) -> is_data t = true -> t_off t < t_off lt)
    /\ (forall t, In t tq -> is_data t = true -> t_off lt <= t_off t)
    /\ good s'.
Proof.
  intros i o pre lm post s s' H G L. rewrite run_entries_app in H.
  destruct (run_entries i o s pre) as [s1| |] eqn:R1; try discriminate. simpl in H.
  destruct (step_entry i o s1 lm) as [s2| |] eqn:S; try discriminate. simpl in H.
  destruct (run_entries_good _ _ _ _ _ R1 G) as [G1 [_ [tp [T1 _]]]].
  destruct (step_landmark _ _ _ _ _ S G1 L) as [lt [T2 [St [Dl [In0 [Ms [Pl G2]]]]]]].
  destruct (run_entries_good _ _ _ _ _ H G2) as [G3 [_ [tq [T3 O3]]]].
  exists tp, lt, tq. split; [rewrite T3, T2, T1, <- !app_assoc; reflexivity|].
  pose proof (tx_run_entries _ _ _ _ _ R1) as X1. unfold tx in X1. rewrite T1, map_app in X1. apply app_inv_head in X1.
  pose proof (tx_run_entries _ _ _ _ _ H) as X3. unfold tx in X3. rewrite T3, map_app in X3. apply app_inv_head in X3.
  split; [assumption|]. split; [assumption|]. split; [assumption|]. split; [assumption|]. split; [assumption|].
  split; [lia|]. split; [|split; [|assumption]].
  - intros t Ht Hd. rewrite <- T1 in Ht. destruct G1 as [A B _ _]. specialize (A t Ht Hd). lia.
  - intros t Ht Hd. specialize (O3 t Ht Hd). lia.
Qed.

(* ---------- one sub-blob, the sub-blobs, closeWithCombine ---------- *)

Lemma good_init : forall cs fs, pos_all cs -> good (init_w cs fs).
Proof. intros cs fs H. constructor; simpl; [intros t []|lia|lia|assumption]. Qed.

(* a finished writer: every recorded offset is inside its compressed size; its left-over oracle stays positive *)
Lemma writer_bound : forall i o es cs fs w, run_writer i o 0 es cs fs = Ok w -> pos_all cs ->
  (forall t, In t (w_toc w) -> is_data t = true -> t_off t <= w_cwn w) /\ pos_all (w_cs w).
Proof.
  intros i o es cs fs w H P. unfold run_writer, append_tar in H.
  destruct (run_entries i o (init_w cs fs) es) as [s1| |] eqn:R; try discriminate. simpl in H.
  replace (o_lossless o && (0 <? 0)) with false in H by (destruct (o_lossless o); reflexivity).
  destruct (run_entries_good _ _ _ _ _ R (good_init cs fs P)) as [[A B C D] _].
  destruct (close_any _ _ H) as [E1 [E2 [E3 [E5 [k E6]]]]].
  split.
  - intros t Ht Hd. rewrite E1 in Ht. specialize (A t Ht Hd). specialize (E5 C). lia.
  - rewrite E6. apply pos_skipn. assumption.
Qed.

Lemma writer_landmark : forall i o pre lm post cs fs w,
  run_writer i o 0 (pre ++ lm :: post) cs fs = Ok w -> pos_all cs -> landmark_entry lm ->
  exists tp lt tq,
    w_toc w = tp ++ lt :: tq
    /\ map strip tp = flat_map (toc_spec o) pre /\ strip lt :: nil = toc_spec o lm
    /\ map strip tq = flat_map (toc_spec o) post
    /\ is_data lt = true /\ t_inner lt = 0 /\ 0 < t_off lt
    /\ (forall t, In t tp -> is_data t = true -> t_off t < t_off lt)
    /\ (forall t, In t tq -> is_data t = true -> t_off lt <= t_off t).
Proof.
  intros i o pre lm post cs fs w H P L. unfold run_writer, append_tar in H.
  destruct (run_entries i o (init_w cs fs) (pre ++ lm :: post)) as [s1| |] eqn:R; try discriminate. simpl in H.
  replace (o_lossless o && (0 <? 0)) with false in H by (destruct (o_lossless o); reflexivity).
  destruct (run_landmark _ _ _ _ _ _ _ R (good_init cs fs P) L) as [tp [lt [tq [T [S1 [S2 [S3 [D [I0 [Lp [B1 [B2 _]]]]]]]]]]]].
  destruct (close_any _ _ H) as [E1 _]. simpl in T, B1.
  exists tp, lt, tq. rewrite E1. repeat split; assumption.
Qed.

(* data offsets of the sub-blobs after rebasing: every one of writer j lies in [d_j, d_j + its size] *)
Lemma combine_bounds : forall i o parts cs fs ws d, run_parts i o parts cs fs = Ok ws -> pos_all cs ->
  forall t, In t (combine_toc ws d) -> is_data t = true -> d <= t_off t /\ t_off t <= d + combine_total ws.
Proof.
  induction parts as [|p ps IH]; intros cs fs ws d H P t Ht Hd; simpl in H.
  - injection H as <-. simpl in Ht. contradiction.
  - destruct (run_writer i o 0 p cs fs) as [w| |] eqn:R; try discriminate. simpl in H.
    destruct (run_parts i o ps (w_cs w) (w_fs w)) as [ws'| |] eqn:R'; try discriminate. simpl in H. injection H as <-.
    destruct (writer_bound _ _ _ _ _ _ R P) as [B Pw]. simpl in Ht. simpl combine_total.
    apply in_app_or in Ht. destruct Ht as [Ht|Ht].
    + apply in_map_iff in Ht. destruct Ht as [t0 [E Ht0]]. subst t. rewrite is_data_shift in Hd.
      specialize (B t0 Ht0 Hd). unfold shift. rewrite Hd. simpl. lia.
    + destruct (IH _ _ _ (d + w_cwn w) R' Pw t Ht Hd). lia.
Qed.

Lemma concat_split : forall (A : Type) (parts : list (list A)) pre x post,
  concat parts = pre ++ x :: post ->
  exists P1 pa pb P2, parts = P1 ++ (pa ++ x :: pb) :: P2 /\ pre = concat P1 ++ pa /\ post = pb ++ concat P2.
Proof.
  induction parts as [|p ps IH]; intros pre x post H; simpl in H.
  - destruct pre; discriminate.
  - revert pre H. induction p as [|a p IHp]; intros pre H; simpl in H.
    + destruct (IH _ _ _ H) as [P1 [pa [pb [P2 [E1 [E2 E3]]]]]].
      exists ([] :: P1), pa, pb, P2. simpl. subst. repeat split; reflexivity.
    + destruct pre as [|b pre]; simpl in H.
      * inversion H; subst. exists [], [], p, ps. simpl. repeat split; reflexivity.
      * inversion H; subst. destruct (IHp _ H2) as [P1 [pa [pb [P2 [E1 [E2 E3]]]]]].
        destruct P1 as [|q P1]; simpl in E1.
        -- inversion E1; subst. exists [], (b :: pa), pb, P2. simpl. repeat split; reflexivity.
        -- inversion E1; subst. exists ((b :: q) :: P1), pa, pb, P2. simpl. rewrite <- ?app_assoc. repeat split; reflexivity.
Qed.

Lemma run_parts_app : forall i o P1 P2 cs fs ws, run_parts i o (P1 ++ P2) cs fs = Ok ws ->
  exists ws1 ws2 cs' fs', ws = ws1 ++ ws2 /\ run_parts i o P1 cs fs = Ok ws1 /\ run_parts i o P2 cs' fs' = Ok ws2
    /\ (pos_all cs -> pos_all cs').
Proof.
  induction P1 as [|p P1 IH]; intros P2 cs fs ws H; simpl in H.
  - exists [], ws, cs, fs. simpl. repeat split; auto.
  - destruct (run_writer i o 0 p cs fs) as [w| |] eqn:R; try discriminate. simpl in H.
    destruct (run_parts i o (P1 ++ P2) (w_cs w) (w_fs w)) as [ws'| |] eqn:R'; try discriminate. simpl in H. injection H as <-.
    destruct (IH _ _ _ _ R') as [ws1 [ws2 [cs' [fs' [E [R1 [R2 Pp]]]]]]].
    exists (w :: ws1), ws2, cs', fs'. subst ws'. simpl. rewrite R. simpl. rewrite R1. simpl. repeat split; auto.
    intro P. apply Pp. destruct (writer_bound _ _ _ _ _ _ R P). assumption.
Qed.

Lemma combine_toc_app : forall ws1 ws2 d,
  combine_toc (ws1 ++ ws2) d = combine_toc ws1 d ++ combine_toc ws2 (d + combine_total ws1).
Proof.
  induction ws1 as [|w ws1 IH]; intros ws2 d; simpl.
  - rewrite N.add_0_r. reflexivity.
  - rewrite IH, <- app_assoc. f_equal. f_equal. f_equal. lia.
Qed.

(* Build: sort order pre ++ landmark :: post, any partition into sub-blobs *)
Lemma parts_landmark : forall i o parts pre lm post cs fs ws,
  concat parts = pre ++ lm :: post -> run_parts i o parts cs fs = Ok ws -> pos_all cs -> landmark_entry lm ->
  exists tp lt tq,
    combine_toc ws 0 = tp ++ lt :: tq
    /\ map strip tp = flat_map (toc_spec o) pre /\ strip lt :: nil = toc_spec o lm
    /\ map strip tq = flat_map (toc_spec o) post
    /\ is_data lt = true /\ t_inner lt = 0
    /\ (forall t, In t tp -> is_data t = true -> t_off t < t_off lt)
    /\ (forall t, In t tq -> is_data t = true -> t_off lt <= t_off t).
Proof.
  intros i o parts pre lm post cs fs ws Hc H P L.
  destruct (concat_split _ _ _ _ _ Hc) as [P1 [pa [pb [P2 [Ep [Epre Epost]]]]]]. subst parts.
  destruct (run_parts_app _ _ _ _ _ _ _ H) as [ws1 [wsr [cs1 [fs1 [Ew [R1 [Rr Pp]]]]]]].
  specialize (Pp P). simpl in Rr.
  destruct (run_writer i o 0 (pa ++ lm :: pb) cs1 fs1) as [w| |] eqn:Rw; try discriminate. simpl in Rr.
  destruct (run_parts i o P2 (w_cs w) (w_fs w)) as [ws2| |] eqn:R2; try discriminate. simpl in Rr. injection Rr as <-.
  destruct (writer_landmark _ _ _ _ _ _ _ _ Rw Pp L) as [tp [lt [tq [T [S1 [S2 [S3 [D [I0 [Lpos [B1 B2]]]]]]]]]]].
  destruct (writer_bound _ _ _ _ _ _ Rw Pp) as [Bw Pw].
  subst ws. rewrite combine_toc_app. simpl combine_toc. rewrite ?N.add_0_l.
  set (d := combine_total ws1). rewrite T. rewrite map_app. simpl map.
  exists (combine_toc ws1 0 ++ map (shift d) tp), (shift d lt), (map (shift d) tq ++ combine_toc ws2 (d + w_cwn w)).
  assert (Dl : t_off (shift d lt) = t_off lt + d) by (unfold shift; rewrite D; reflexivity).
  split; [rewrite <- !app_assoc; reflexivity|].
  split.
  { rewrite map_app, map_map. rewrite (parts_toc_complete _ _ _ _ _ _ 0 R1). subst pre. rewrite flat_map_app. f_equal.
    rewrite <- S1. apply map_ext. intro t. apply strip_shift. }
  split; [rewrite strip_shift; assumption|].
  split.
  { rewrite map_app, map_map. rewrite (parts_toc_complete _ _ _ _ _ _ (d + w_cwn w) R2). subst post. rewrite flat_map_app. f_equal.
    rewrite <- S3. apply map_ext. intro t. apply strip_shift. }
  split; [rewrite is_data_shift; assumption|].
  split; [unfold shift; rewrite D; simpl; assumption|].
  split.
  - intros t Ht Hd. rewrite Dl. apply in_app_or in Ht. destruct Ht as [Ht|Ht].
    + destruct (combine_bounds _ _ _ _ _ _ 0 R1 P t Ht Hd) as [_ U]. fold d in U. lia.
    + apply in_map_iff in Ht. destruct Ht as [t0 [E Ht0]]. subst t. rewrite is_data_shift in Hd.
      specialize (B1 t0 Ht0 Hd). unfold shift. rewrite Hd. simpl. lia.
  - intros t Ht Hd. rewrite Dl. apply in_app_or in Ht. destruct Ht as [Ht|Ht].
    + apply in_map_iff in Ht. destruct Ht as [t0 [E Ht0]]. subst t. rewrite is_data_shift in Hd.
      specialize (B2 t0 Ht0 Hd). unfold shift. rewrite Hd. simpl. lia.
    + destruct (combine_bounds _ _ _ _ _ _ (d + w_cwn w) R2 Pw t Ht Hd) as [U _].
      assert (X : In lt (w_toc w)) by (rewrite T; apply in_or_app; right; left; reflexivity).
      specialize (Bw lt X D). lia.
Qed.
