(* Lemmas closing the C08 theorems (Properties/C08.v). *)
From Coq Require Import List Arith Bool Lia.
From SV Require Import Model.Snap Proofs.SnapBase Proofs.SnapPrim Proofs.SnapInv.
Import ListNotations.

Arguments rm_dirent : simpl never.
Arguments rm_mount : simpl never.

(* ---------- metadata and directories in step ---------- *)
Lemma live_dirs s : Inv s ->
  (closed s = false -> forall n i, lookup (meta s) n = Some i -> In (DId (i_id i)) (dirs s)) /\
  (forall d, In d (dirs s) -> exists id, d = DId id /\ id <= seq s) /\
  (forall n i n' i', lookup (meta s) n = Some i -> lookup (meta s) n' = Some i' -> i_id i = i_id i' -> n = n').
Proof.
  intros I. split; [|split].
  - intros C n i L. eapply inv_has; eauto. apply lookup_in. exact L.
  - apply inv_dirs. exact I.
  - intros n i n' i' L L' E.
    assert (X : (n, i) = (n', i')).
    { eapply ids_inj; eauto using lookup_in. apply inv_ids. exact I. }
    congruence.
Qed.

(* ---------- cleanup leaves exactly the directories of live snapshots ---------- *)
Lemma dirs_exact_after_cleanup ub s :
  Inv s -> closed s = false ->
  let s' := cleanup_dirs ub s (cleanup_list s false) in
  meta s' = meta s /\
  forall d, In d (dirs s') <-> exists n i, lookup (meta s') n = Some i /\ d = DId (i_id i).
Proof.
  intros I C s'. destruct (cleanup_dirs_spec ub (cleanup_list s false) s) as [E [Sh [D _]]].
  fold s' in Sh, D. assert (M : meta s' = meta s) by (destruct Sh; auto). split; [exact M|].
  intros d. rewrite D, M. split.
  - intros [A B]. destruct (inv_dirs _ I d A) as [id [Q _]]. subst d.
    destruct (mem id (ids_of (meta s))) eqn:Mm.
    + apply mem_in in Mm. apply in_ids in Mm. destruct Mm as [n [i [F Q]]].
      exists n, i. split; [|congruence]. apply in_lookup; auto. apply inv_names; exact I.
    + exfalso. apply B. apply cleanup_list_in. split; auto. apply mem_false. exact Mm.
  - intros [n [i [L Q]]]. subst d. apply lookup_in in L. split.
    + eapply inv_has; eauto.
    + intros F. apply cleanup_list_in in F. destruct F as [_ F]. apply F. apply in_ids. eauto.
Qed.

Lemma cleanup_exact s ub :
  Inv s -> closed s = false -> snd (step s (Cleanup ub)) = ROk ->
  let s' := fst (step s (Cleanup ub)) in
  forall d, In d (dirs s') <-> exists n i, lookup (meta s') n = Some i /\ d = DId (i_id i).
Proof.
  simpl. unfold do_cleanup. intros I C. rewrite C. destruct (Nat.eqb (seq s) 0); simpl; [discriminate|].
  intros _. apply dirs_exact_after_cleanup; auto.
Qed.

Lemma remove_sync_exact s key ub :
  Inv s -> async s = false -> snd (step s (Remove key ub)) = ROk ->
  let s' := fst (step s (Remove key ub)) in
  lookup (meta s') key = None /\
  forall d, In d (dirs s') <-> exists n i, lookup (meta s') n = Some i /\ d = DId (i_id i).
Proof.
  simpl. unfold do_remove. intros I A. destruct (closed s) eqn:C; simpl; [discriminate|].
  destruct (lookup (meta s) key) as [i|] eqn:LK; simpl; [|discriminate].
  destruct (has_child (meta s) key) eqn:HC; simpl; [discriminate|].
  destruct (match i_parent i with
            | Some p => match lookup (meta s) p with Some _ => false | None => true end
            | None => false
            end); simpl; [discriminate|].
  rewrite A. simpl. intros _.
  pose proof (remove_meta_inv s key i (EvMetaRemove (i_id i)) I LK HC) as I1.
  set (s1 := emit (set_meta s (del (meta s) key)) (EvMetaRemove (i_id i))) in *.
  destruct (dirs_exact_after_cleanup ub s1 I1 C) as [M X]. split; [|exact X].
  rewrite M. simpl. apply lookup_del_eq.
Qed.

(* ---------- parent chains ---------- *)
Lemma parents_chain f : forall m p l, parents f m p = POk l -> chain_ids m p l.
Proof.
  induction f as [|f IH]; intros m p l; simpl; [discriminate|].
  destruct (lookup m p) as [i|] eqn:L; [|discriminate].
  destruct (i_parent i) as [q|] eqn:P.
  - destruct (parents f m q) as [l'| |] eqn:R; try discriminate.
    intros H; inversion H; subst. eapply ci_step; eauto.
  - intros H; inversion H; subst. apply ci_root; auto.
Qed.

Lemma parents_total s : Inv s -> forall f p i,
  lookup (meta s) p = Some i -> i_id i < f -> exists l, parents f (meta s) p = POk l.
Proof.
  intros I. induction f as [|f IH]; intros p i L Lt; [lia|]. simpl. rewrite L.
  destruct (i_parent i) as [q|] eqn:P; [|eauto].
  pose proof (inv_par _ I _ _ (lookup_in _ _ _ L)) as PO. unfold parent_ok in PO. rewrite P in PO.
  destruct PO as [pi [LP [_ Lt']]]. destruct (IH q pi LP) as [l R]; [lia|]. rewrite R. eauto.
Qed.

Lemma parents_never_stuck s p i : Inv s -> lookup (meta s) p = Some i ->
  exists l, parents (fuel_of s) (meta s) p = POk l /\ chain_ids (meta s) p l.
Proof.
  intros I L. destruct (parents_total s I (fuel_of s) p i L) as [l R].
  - unfold fuel_of. pose proof (inv_le _ I _ _ (lookup_in _ _ _ L)). lia.
  - exists l. split; auto. apply parents_chain with (f := fuel_of s). exact R.
Qed.

Lemma chain_ids_cons m key x p l : lookup m key = None -> chain_ids m p l -> chain_ids ((key, x) :: m) p l.
Proof.
  intros LK. induction 1 as [p i L P|p i q l L P C IH].
  - apply ci_root; auto. simpl. destruct (Nat.eqb_spec key p); auto. subst; congruence.
  - eapply ci_step; eauto. simpl. destruct (Nat.eqb_spec key p); auto. subst; congruence.
Qed.
