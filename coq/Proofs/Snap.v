(* Lemmas closing the C08 theorems (Properties/C08.v). *)
From Coq Require Import List Arith Bool Lia.
From SV Require Import Model.Snap Proofs.SnapBase Proofs.SnapPrim Proofs.SnapInv.
Import ListNotations.

Arguments rm_dirent : simpl never.
Arguments rm_mount : simpl never.

(* ---------- metadata and directories in step ---------- *)
(* sequential histories leave no temp directory at rest (under concurrency a failed createSnapshot's temp
   directory is visible until its deferred cleanup ran: Proofs/SnapConc.v) *)
Definition NT (s : st) : Prop := forall d, In d (dirs s) -> exists id, d = DId id.

Lemma live_dirs s : Inv s -> NT s ->
  (closed s = false -> forall n i, lookup (meta s) n = Some i -> In (DId (i_id i)) (dirs s)) /\
  (forall d, In d (dirs s) -> exists id, d = DId id /\ id <= seq s) /\
  (forall n i n' i', lookup (meta s) n = Some i -> lookup (meta s) n' = Some i' -> i_id i = i_id i' -> n = n').
Proof.
  intros I N. split; [|split].
  - intros C n i L. eapply inv_has; eauto. apply lookup_in. exact L.
  - intros d H. destruct (N d H) as [id ->]. exists id. split; auto. eapply inv_dirs; eauto.
  - intros n i n' i' L L' E.
    assert (X : (n, i) = (n', i')).
    { eapply ids_inj; eauto using lookup_in. apply inv_ids. exact I. }
    congruence.
Qed.

(* ---------- cleanup leaves exactly the directories of live snapshots ---------- *)
Lemma dirs_exact_after_cleanup ub s :
  Inv s -> closed s = false ->
  let s' := cleanup_dirs ub s (cleanup_list s false) in
  meta s' = meta s /\
  forall d, In d (dirs s') <-> exists n i, lookup (meta s') n = Some i /\ d = DId (i_id i).
Proof.
  intros I C s'. destruct (cleanup_dirs_spec ub (cleanup_list s false) s) as [E [Sh [D _]]].
  fold s' in Sh, D. assert (M : meta s' = meta s) by (destruct Sh; auto). split; [exact M|].
  intros d. rewrite D, M. split.
  - intros [A B]. destruct d as [id|tn]; [|exfalso; apply B; apply cleanup_list_in; auto].
    destruct (mem id (ids_of (meta s))) eqn:Mm.
    + apply mem_in in Mm. apply in_ids in Mm. destruct Mm as [n [i [F Q]]].
      exists n, i. split; [|congruence]. apply in_lookup; auto. apply inv_names; exact I.
    + exfalso. apply B. apply cleanup_list_in. split; auto. apply mem_false. exact Mm.
  - intros [n [i [L Q]]]. subst d. apply lookup_in in L. split.
    + eapply inv_has; eauto.
    + intros F. apply cleanup_list_in in F. destruct F as [_ F]. apply F. apply in_ids. eauto.
Qed.

Lemma cleanup_exact s ub :
  Inv s -> closed s = false -> snd (step s (Cleanup ub)) = ROk ->
  let s' := fst (step s (Cleanup ub)) in
  forall d, In d (dirs s') <-> exists n i, lookup (meta s') n = Some i /\ d = DId (i_id i).
Proof.
  simpl. unfold do_cleanup. intros I C. rewrite C. simpl.
  intros _. apply dirs_exact_after_cleanup; auto.
Qed.

Lemma remove_sync_exact s key ub :
  Inv s -> async s = false -> snd (step s (Remove key ub)) = ROk ->
  let s' := fst (step s (Remove key ub)) in
  lookup (meta s') key = None /\
  forall d, In d (dirs s') <-> exists n i, lookup (meta s') n = Some i /\ d = DId (i_id i).
Proof.
  simpl. unfold do_remove. intros I A. destruct (closed s) eqn:C; simpl; [discriminate|].
  destruct (lookup (meta s) key) as [i|] eqn:LK; simpl; [|discriminate].
  destruct (has_child (meta s) key) eqn:HC; simpl; [discriminate|].
  destruct (match i_parent i with
            | Some p => match lookup (meta s) p with Some _ => false | None => true end
            | None => false
            end); simpl; [discriminate|].
  rewrite A. simpl. intros _.
  pose proof (remove_meta_inv s key i (EvMetaRemove (i_id i)) I LK HC) as I1.
  set (s1 := emit (set_meta s (del (meta s) key)) (EvMetaRemove (i_id i))) in *.
  destruct (dirs_exact_after_cleanup ub s1 I1 C) as [M X]. split; [|exact X].
  rewrite M. simpl. apply lookup_del_eq.
Qed.

(* ---------- parent chains ---------- *)
Lemma parents_chain f : forall m p l, parents f m p = POk l -> chain_ids m p l.
Proof.
  induction f as [|f IH]; intros m p l; simpl; [discriminate|].
  destruct (lookup m p) as [i|] eqn:L; [|discriminate].
  destruct (i_parent i) as [q|] eqn:P.
  - destruct (parents f m q) as [l'| |] eqn:R; try discriminate.
    intros H; inversion H; subst. eapply ci_step; eauto.
  - intros H; inversion H; subst. apply ci_root; auto.
Qed.

Lemma parents_mono f : forall m p l, parents f m p = POk l -> parents (S f) m p = POk l.
Proof.
  induction f as [|f IH]; intros m p l; [discriminate|]. intros H. simpl in H.
  change (parents (S (S f)) m p) with
    (match lookup m p with
     | None => PMissing
     | Some i => match i_parent i with
                 | None => POk [i_id i]
                 | Some q => match parents (S f) m q with POk l => POk (i_id i :: l) | r => r end
                 end
     end).
  destruct (lookup m p) as [i|]; [|discriminate]. destruct (i_parent i) as [q|]; [|exact H].
  destruct (parents f m q) as [l'| |] eqn:R; try discriminate. rewrite (IH _ _ _ R). exact H.
Qed.

Lemma lookup_app_r pre t p : ~ In p (map fst pre) -> lookup (pre ++ t) p = lookup t p.
Proof.
  induction pre as [|[n i] pre IH]; simpl; intros H; auto.
  destruct (Nat.eqb_spec n p); [exfalso; apply H; left; exact e|]. apply IH. intros F. apply H. right. exact F.
Qed.

(* the chain walk terminates because the metadata list is topologically sorted *)
Lemma parents_topo t : forall pre, NoDup (map fst (pre ++ t)) -> topo t ->
  forall p i, lookup t p = Some i -> exists l, parents (S (length t)) (pre ++ t) p = POk l.
Proof.
  induction t as [|[n i0] t IH]; intros pre ND T p i L; [discriminate|].
  destruct T as [T1 T2]. simpl in L.
  assert (ND' : NoDup (map fst ((pre ++ [(n, i0)]) ++ t))) by (rewrite <- app_assoc; exact ND).
  assert (EQ : (pre ++ [(n, i0)]) ++ t = pre ++ (n, i0) :: t) by (rewrite <- app_assoc; reflexivity).
  destruct (Nat.eqb_spec n p) as [E|NE].
  - subst n. inversion L; subst i0. clear L.
    assert (NP : ~ In p (map fst pre)).
    { rewrite map_app in ND. simpl in ND. apply NoDup_remove_2 in ND. intros F. apply ND. apply in_or_app. left. exact F. }
    assert (LM : lookup (pre ++ (p, i) :: t) p = Some i).
    { rewrite lookup_app_r; auto. simpl. rewrite Nat.eqb_refl. reflexivity. }
    change (length ((p, i) :: t)) with (S (length t)).
    change (parents (S (S (length t))) (pre ++ (p, i) :: t) p) with
      (match lookup (pre ++ (p, i) :: t) p with
       | None => PMissing
       | Some j => match i_parent j with
                   | None => POk [i_id j]
                   | Some q => match parents (S (length t)) (pre ++ (p, i) :: t) q with POk l => POk (i_id j :: l) | r => r end
                   end
       end).
    rewrite LM. destruct (i_parent i) as [q|]; [|eauto].
    destruct T1 as [qi LQ]. destruct (IH _ ND' T2 q qi LQ) as [l R]. rewrite EQ in R. rewrite R. eauto.
  - destruct (IH _ ND' T2 p i L) as [l R]. rewrite EQ in R. exists l. apply parents_mono. exact R.
Qed.

Lemma parents_never_stuck s p i : Inv s -> lookup (meta s) p = Some i ->
  exists l, parents (fuel_of s) (meta s) p = POk l /\ chain_ids (meta s) p l.
Proof.
  intros I L. destruct (parents_topo (meta s) [] (inv_names _ I) (inv_topo _ I) p i L) as [l R]. simpl in R.
  exists l. split; [exact R|]. apply parents_chain with (f := fuel_of s). exact R.
Qed.

Lemma chain_ids_cons m key x p l : lookup m key = None -> chain_ids m p l -> chain_ids ((key, x) :: m) p l.
Proof.
  intros LK. induction 1 as [p i L P|p i q l L P C IH].
  - apply ci_root; auto. simpl. destruct (Nat.eqb_spec key p); auto. subst; congruence.
  - eapply ci_step; eauto. simpl. destruct (Nat.eqb_spec key p); auto. subst; congruence.
Qed.

(* ---------- mounts(): availability of the chain ---------- *)
Lemma skipn_app_len {A} (l E : list A) : skipn (length l) (l ++ E) = E.
Proof. induction l; simpl; auto. Qed.

Ltac msplit := match goal with |- _ /\ _ => split; [|msplit] | _ => idtac end.

Lemma mounts_of_spec cbad s sn ck :
  exists E, shrink s (fst (mounts_of cbad s sn ck)) E /\
    dirs (fst (mounts_of cbad s sn ck)) = dirs s /\ mounts (fst (mounts_of cbad s sn ck)) = mounts s /\
    Forall is_check E /\
    (snd (mounts_of cbad s sn ck) = RMounts (mount_shape sn) \/ snd (mounts_of cbad s sn ck) = RErr EUnavail) /\
    (forall m, snd (mounts_of cbad s sn ck) = RMounts m -> forall k, ck = Some k ->
       forall n i, on_chain (meta s) k n i -> l_remote (i_labels i) = true ->
         mounted s (i_id i) = true /\ ~ In (i_id i) cbad /\ In (EvCheck (i_id i) true) E) /\
    (forall id, In (EvCheck id false) E -> snd (mounts_of cbad s sn ck) = RErr EUnavail).
Proof.
  unfold mounts_of. destruct ck as [k|].
  2:{ exists []. split; [apply shrink_refl|]. simpl. msplit; auto.
      - intros m _ k Q. discriminate.
      - intros id []. }
  unfold check_avail. destruct (closed s).
  { exists []. split; [apply shrink_refl|]. simpl. msplit; auto.
    intros m Q. discriminate. }
  destruct (check_chain_spec cbad (fuel_of s) s k) as [E [Sh [D [M [F [T N]]]]]].
  destruct (check_chain (fuel_of s) cbad s k) as [s1 ok] eqn:CC. simpl in *.
  exists E. destruct ok; simpl; msplit; auto.
  - intros m _ k0 Q. inversion Q; subst. apply T; auto.
  - intros id H. specialize (N id H). discriminate.
  - intros m Q. discriminate.
Qed.

(* ---------- the shape of every Prepare ---------- *)
Definition created (s : st) (k : kind) (key : name) (parent : option name) (l : labels) : st :=
  mkSt (async s) ((key, mkI (S (seq s)) k parent l) :: meta s) (S (seq s))
       (DId (S (seq s)) :: rm_dirent (fresh_dir s :: dirs s) (fresh_dir s)) (S (tmpc s)) (mounts s) false (log s).

Definition P0 (s : st) (d : dirent) : Prop := exists id, d = DId id /\ seq s < id.

Lemma prepare_cases s key parent l mok cbad lm :
  let s' := fst (do_prepare s key parent l mok cbad lm) in
  let r := snd (do_prepare s key parent l mok cbad lm) in
  (exists e E, r = RErr e /\ shrink s s' E /\ selfd (P0 s) E /\
               (forall id, In (DId id) (dirs s) -> id <= seq s -> In (DId id) (dirs s')) /\
               (forall x, In x (mounts s) -> fst x <= seq s -> In x (mounts s')) /\
               create_snapshot s KActive key parent l = (s', inl e))
  \/
  (exists sn, create_snapshot s KActive key parent l = (created s KActive key parent l, inr sn) /\
     let s1 := created s KActive key parent l in
     let id := S (seq s) in
     ( (exists s2, ((l_target lm = None /\ s2 = s1) \/ (l_target lm <> None /\ mok = false /\ s2 = fs_mount s1 id lm false)) /\
                   s' = fst (mounts_of cbad s2 sn parent) /\ r = snd (mounts_of cbad s2 sn parent))
       \/ (exists t np, l_target lm = Some t /\ mok = true /\ lookup (meta s1) t = None /\ r = RTargetExists /\
             s' = emit (set_meta (fs_mount s1 id lm true)
                                 ((t, mkI id KCommitted np (set_remote l)) :: del (meta s1) key)) (EvRemoteCommit id))
       \/ (exists t j, l_target lm = Some t /\ mok = true /\ lookup (meta s1) t = Some j /\ r = RTargetExists /\
             s' = fs_mount s1 id lm true)
       \/ (exists t e, l_target lm = Some t /\ mok = true /\ e <> EExists /\ r = RErr e /\
             s' = fs_mount s1 id lm true) )).
Proof.
  unfold do_prepare.
  destruct (create_snapshot s KActive key parent l) as [s1 [e|sn]] eqn:CS.
  { left. simpl. pose proof CS as CS'. apply create_err in CS. destruct CS as [E [Sh [KD [KM [SD _]]]]].
    exists e, E. split; [reflexivity|]. split; [exact Sh|]. split; [exact SD|]. split; [exact KD|]. split; [exact KM|reflexivity]. }
  right. pose proof (create_ok _ _ _ _ _ _ _ CS) as OK.
  destruct OK as [C [LK [ID [KD [E1 [_ [ND PR]]]]]]].
  fold (created s KActive key parent l) in E1. subst s1. exists sn. split; [reflexivity|].
  set (s1 := created s KActive key parent l). cbv zeta.
  destruct (l_target lm) as [t|] eqn:LT.
  2:{ left. exists s1. split; [left; auto|]. split; reflexivity. }
  assert (LK1 : lookup (meta s1) key = Some (mkI (S (seq s)) KActive parent l)).
  { unfold s1, created. simpl. rewrite Nat.eqb_refl. reflexivity. }
  rewrite LK1. cbn [i_id].
  destruct mok.
  2:{ left. exists (fs_mount s1 (S (seq s)) lm false). split; [right; split; [congruence|auto]|]. split; reflexivity. }
  right.
  set (s2 := fs_mount s1 (S (seq s)) lm true).
  assert (M2 : meta s2 = meta s1) by reflexivity.
  assert (C2 : closed s2 = false) by reflexivity.
  unfold commit_active. rewrite C2, M2, LK1. cbn [i_id i_kind i_parent negb andb].
  destruct (bad_name t) eqn:BN.
  { right. right. exists t, EOther. simpl. split; [reflexivity|]. split; [reflexivity|]. split; [discriminate|]. split; reflexivity. }
  destruct (lookup (meta s1) t) as [j|] eqn:LT1.
  { right. left. exists t, j. simpl. auto. }
  cbn [kind_eqb negb].
  destruct (commit_parent parent (l_wp (set_remote l))) as [e|np] eqn:CP.
  { assert (EE : e = EInvalid).
    { unfold commit_parent in CP. destruct parent as [p|]; [|discriminate].
      destruct (l_wp (set_remote l)) as [q|]; [|discriminate]. destruct (Nat.eqb p q); inversion CP. reflexivity. }
    subst e. right. right. exists t, EInvalid. simpl.
    split; [reflexivity|]. split; [reflexivity|]. split; [discriminate|split; reflexivity]. }
  destruct (match np with
            | Some p => if Nat.eqb p t then Some ENotFound else
                        match lookup (del (meta s1) key) p with
                        | Some pi => if kind_eqb (i_kind pi) KCommitted then None else Some EFailedPre
                        | None => Some ENotFound
                        end
            | None => None
            end) as [e|] eqn:PE.
  { assert (EE : e = ENotFound \/ e = EFailedPre).
    { destruct np as [p|]; [|discriminate]. destruct (Nat.eqb p t); [inversion PE; auto|].
      destruct (lookup (del (meta s1) key) p) as [pi|]; [|inversion PE; auto].
      destruct (kind_eqb (i_kind pi) KCommitted); inversion PE. auto. }
    right. right. exists t, e.
    destruct EE; subst e; simpl; (split; [reflexivity|]; split; [reflexivity|]; split; [discriminate|split; reflexivity]). }
  left. exists t, np. simpl. split; [reflexivity|]. split; [reflexivity|]. split; [exact LT1|]. split; reflexivity.
Qed.

(* ---------- events of one step; unmount discipline ---------- *)
Ltac qt := repeat (apply Forall_cons; [exact I|]); apply Forall_nil.
Definition Pun (s' : st) (o : op) (d : dirent) : Prop :=
  is_close o = true \/ exists id, d = DId id /\ ~ In id (ids_of (meta s')).

Lemma disciplined_mono (P Q : dirent -> Prop) : (forall d, P d -> Q d) ->
  forall l prev, disciplined P prev l -> disciplined Q prev l.
Proof.
  intros PQ. induction l as [|e l IH]; simpl; intros prev H; auto.
  destruct H as [A B]. split; auto. destruct e; auto. destruct live; auto.
Qed.

Lemma selfd_mono (P Q : dirent -> Prop) l : (forall d, P d -> Q d) -> selfd P l -> selfd Q l.
Proof. intros PQ H prev. eapply disciplined_mono; eauto. Qed.

Lemma commit_log s nm key l r s' x : commit_active s nm key l r = (s', x) ->
  log s' = log s /\ mounts s' = mounts s /\ dirs s' = dirs s /\ closed s' = closed s /\ seq s' = seq s.
Proof.
  intros H. destruct x as [e|].
  - apply commit_err in H. subst. auto.
  - apply commit_ok in H. destruct H as [_ [i [np [_ [_ [_ [_ [_ E]]]]]]]]. subst. simpl. auto.
Qed.

Lemma mounts_of_log cbad s sn ck : exists E,
  log (fst (mounts_of cbad s sn ck)) = log s ++ E /\ Forall quiet E /\ meta (fst (mounts_of cbad s sn ck)) = meta s.
Proof.
  destruct (mounts_of_spec cbad s sn ck) as [E [Sh [_ [_ [F _]]]]]. exists E.
  destruct Sh. split; auto. split; auto. apply is_check_quiet. exact F.
Qed.

Lemma quiet_ext P s s2 s' E0 E :
  log s2 = log s ++ E0 -> Forall quiet E0 -> log s' = log s2 ++ E -> Forall quiet E ->
  exists E', log s' = log s ++ E' /\ selfd P E'.
Proof.
  intros A QA B QB. exists (E0 ++ E). split.
  - rewrite B, A, app_assoc. reflexivity.
  - apply selfd_quiet. apply Forall_app. auto.
Qed.

Lemma cleanup_log ub s o s' :
  Inv s -> s' = cleanup_dirs ub s (cleanup_list s false) ->
  exists E, log s' = log s ++ E /\ selfd (Pun s' o) E.
Proof.
  intros I ->. destruct (cleanup_dirs_spec ub (cleanup_list s false) s) as [E [Sh [_ [CT _]]]].
  exists E. split; [destruct Sh; auto|].
  eapply ctrace_selfd; [|exact CT]. intros id Q. right.
  apply cleanup_list_in in Q. destruct Q as [Q1 Q2]. exists id. split; auto.
  destruct Sh. rewrite sh_meta. exact Q2.
Qed.

Lemma create_err_log s k key parent l s' e o :
  Inv s -> create_snapshot s k key parent l = (s', inl e) ->
  exists E, log s' = log s ++ E /\ selfd (Pun s' o) E.
Proof.
  intros I CS. apply create_err in CS. destruct CS as [E [Sh [_ [_ [SD _]]]]].
  exists E. split; [destruct Sh; auto|]. eapply selfd_mono; [|exact SD].
  intros d [id [-> Lt]]. right. exists id. split; auto. destruct Sh. rewrite sh_meta.
  intros F. apply in_ids in F. destruct F as [n [i [F Q]]]. apply (inv_le _ I) in F. lia.
Qed.

Lemma step_log s o : Inv s ->
  exists E, log (fst (step s o)) = log s ++ E /\ selfd (Pun (fst (step s o)) o) E.
Proof.
  intros I.
  assert (NIL : forall s', log s' = log s -> exists E, log s' = log s ++ E /\ selfd (Pun s' o) E).
  { intros s' H. exists []. split; [rewrite app_nil_r; auto|apply selfd_nil]. }
  destruct o; simpl; nrm.
  - (* Prepare *)
    pose proof (prepare_cases s key parent l mok cbad lm) as PC. cbv zeta in PC.
    destruct PC as [[e [E [R [Sh [SD _]]]]]|[sn [CS [B1|[B2|[B3|B4]]]]]].
    + exists E. split; [destruct Sh; auto|]. eapply selfd_mono; [|exact SD].
      intros d [id [-> Lt]]. right. exists id. split; auto. destruct Sh. rewrite sh_meta.
      intros F. apply in_ids in F. destruct F as [n [i [F Q]]]. apply (inv_le _ I) in F. lia.
    + destruct B1 as [s2 [S2 [E' _]]]. rewrite E'.
      destruct (mounts_of_log cbad s2 sn parent) as [E2 [L2 [Q2 _]]].
      destruct S2 as [[_ ->]|[_ [_ ->]]].
      * eapply quiet_ext with (E0 := []); [ | |exact L2|exact Q2]; [simpl; rewrite app_nil_r; reflexivity|qt].
      * eapply quiet_ext with (E0 := [EvMount (S (seq s)) lm false]); [ | |exact L2|exact Q2]; [reflexivity|qt].
    + destruct B2 as [t [np [_ [_ [_ [_ E']]]]]]. rewrite E'.
      exists [EvMount (S (seq s)) lm true; EvRemoteCommit (S (seq s))]. split.
      * simpl. rewrite <- app_assoc. reflexivity.
      * apply selfd_quiet. qt.
    + destruct B3 as [t [j [_ [_ [_ [_ E']]]]]]. rewrite E'.
      exists [EvMount (S (seq s)) lm true]. split; [reflexivity|]. apply selfd_quiet. qt.
    + destruct B4 as [t [e4 [_ [_ [_ [_ E']]]]]]. rewrite E'.
      exists [EvMount (S (seq s)) lm true]. split; [reflexivity|]. apply selfd_quiet. qt.
  - (* View *)
    unfold do_view. destruct (create_snapshot s KView key parent l) as [s1 [e|sn]] eqn:CS.
    + simpl. eapply create_err_log; eauto.
    + apply create_ok in CS. destruct CS as [_ [_ [_ [_ [E1 _]]]]].
      destruct (mounts_of_log cbad s1 sn parent) as [E2 [L2 [Q2 _]]].
      eapply quiet_ext with (E0 := []); [ | |exact L2|exact Q2]; [subst s1; simpl; rewrite app_nil_r; reflexivity|qt].
  - (* Commit *)
    destruct (commit_active s nm key l false) as [s1 r] eqn:CA. simpl. apply NIL.
    apply commit_log in CA. tauto.
  - (* Mounts *)
    unfold do_mounts. destruct (closed s); [apply NIL; reflexivity|].
    destruct (lookup (meta s) key) as [i|]; [|apply NIL; reflexivity].
    destruct (kind_eqb (i_kind i) KCommitted); [apply NIL; reflexivity|].
    assert (MO : forall sn, exists E, log (fst (mounts_of cbad s sn (Some key))) = log s ++ E /\
                   selfd (Pun (fst (mounts_of cbad s sn (Some key))) (Mounts key cbad)) E).
    { intros sn. destruct (mounts_of_log cbad s sn (Some key)) as [E2 [L2 [Q2 _]]].
      exists E2. split; auto. apply selfd_quiet. exact Q2. }
    destruct (i_parent i) as [p|]; [|apply MO].
    destruct (parents (fuel_of s) (meta s) p); try (apply NIL; reflexivity). apply MO.
  - (* Remove *)
    unfold do_remove. destruct (closed s); [apply NIL; reflexivity|].
    destruct (lookup (meta s) key) as [i|] eqn:LK; [|apply NIL; reflexivity].
    destruct (has_child (meta s) key) eqn:HC; [apply NIL; reflexivity|].
    destruct (match i_parent i with
              | Some p => match lookup (meta s) p with Some _ => false | None => true end
              | None => false
              end); [apply NIL; reflexivity|].
    pose proof (remove_meta_inv s key i (EvMetaRemove (i_id i)) I LK HC) as I1.
    set (s1 := emit (set_meta s (del (meta s) key)) (EvMetaRemove (i_id i))) in *.
    destruct (async s); simpl.
    + exists [EvMetaRemove (i_id i)]. split; [reflexivity|]. apply selfd_quiet. qt.
    + destruct (cleanup_log ubad s1 (Remove key ubad) _ I1 eq_refl) as [E [L SD]].
      exists ([EvMetaRemove (i_id i)] ++ E). split.
      * rewrite L. unfold s1. simpl. rewrite <- app_assoc. reflexivity.
      * apply selfd_app; auto. apply selfd_quiet. qt.
  - (* Cleanup *)
    unfold do_cleanup. destruct (closed s); [apply NIL; reflexivity|].
    simpl.
    eapply cleanup_log; eauto.
  - (* Update *)
    unfold do_update. destruct (closed s); [apply NIL; reflexivity|].
    destruct (lookup (meta s) nm); apply NIL; reflexivity.
  - (* Stat *)
    unfold do_stat. destruct (closed s); [apply NIL; reflexivity|].
    destruct (lookup (meta s) nm); apply NIL; reflexivity.
  - (* Close *)
    unfold do_close. destruct (closed s); [apply NIL; reflexivity|].
    destruct (Nat.eqb (seq s) 0); simpl.
    + exists [EvClose]. split; [reflexivity|]. apply selfd_quiet. qt.
    + destruct (cleanup_dirs_spec ubad (cleanup_list (emit s EvClose) true) (emit s EvClose)) as [E [Sh [_ [CT _]]]].
      exists ([EvClose] ++ E). split.
      * destruct Sh. rewrite sh_log. simpl. rewrite <- app_assoc. reflexivity.
      * apply selfd_app; [apply selfd_quiet; repeat constructor|].
        eapply ctrace_selfd; [|exact CT]. intros d _. left. reflexivity.
Qed.

Lemma unmount_discipline s o : Inv s -> disciplined (Pun (fst (step s o)) o) None (step_events s o).
Proof.
  intros I. destruct (step_log s o I) as [E [L SD]]. unfold step_events. rewrite L, skipn_app_len. apply SD.
Qed.

(* ---------- mounts are handed out only for an available chain ---------- *)
Lemma mounts_of_avail cbad s s2 sn ck E0 m :
  log s2 = log s ++ E0 ->
  snd (mounts_of cbad s2 sn ck) = RMounts m ->
  forall k, ck = Some k -> forall n i,
    on_chain (meta (fst (mounts_of cbad s2 sn ck))) k n i -> l_remote (i_labels i) = true ->
    mounted (fst (mounts_of cbad s2 sn ck)) (i_id i) = true /\ ~ In (i_id i) cbad /\
    In (EvCheck (i_id i) true) (skipn (length (log s)) (log (fst (mounts_of cbad s2 sn ck)))).
Proof.
  intros L0 R k CK n i OC RM.
  destruct (mounts_of_spec cbad s2 sn ck) as [E [Sh [_ [M [_ [_ [T _]]]]]]].
  destruct Sh. rewrite sh_meta in OC.
  destruct (T m R k CK n i OC RM) as [A [B C]]. split; [|split; auto].
  - unfold mounted in *. rewrite M. exact A.
  - rewrite sh_log, L0, <- app_assoc, skipn_app_len. apply in_or_app. right. exact C.
Qed.

Lemma step_avail s o m : Inv s -> snd (step s o) = RMounts m ->
  forall ck, check_key o = Some ck -> forall n i,
    on_chain (meta (fst (step s o))) ck n i -> l_remote (i_labels i) = true ->
    mounted (fst (step s o)) (i_id i) = true /\ ~ In (i_id i) (cbad_of o) /\
    In (EvCheck (i_id i) true) (step_events s o).
Proof.
  intros I. unfold step_events. destruct o; simpl; try (intros _ ck Q; discriminate); nrm.
  - (* Prepare *)
    pose proof (prepare_cases s key parent l mok cbad lm) as PC. cbv zeta in PC.
    destruct PC as [[e [E [R _]]]|[sn [CS [B1|[B2|[B3|B4]]]]]].
    + rewrite R. discriminate.
    + destruct B1 as [s2 [S2 [E' R']]]. rewrite E', R'. intros R ck CK.
      destruct S2 as [[_ ->]|[_ [_ ->]]].
      * eapply mounts_of_avail with (E0 := []); eauto. simpl. rewrite app_nil_r. reflexivity.
      * eapply mounts_of_avail with (E0 := [EvMount (S (seq s)) lm false]); eauto.
    + destruct B2 as [t [np [_ [_ [_ [R _]]]]]]. rewrite R. discriminate.
    + destruct B3 as [t [j [_ [_ [_ [R _]]]]]]. rewrite R. discriminate.
    + destruct B4 as [t [e4 [_ [_ [_ [R _]]]]]]. rewrite R. discriminate.
  - (* View *)
    unfold do_view. destruct (create_snapshot s KView key parent l) as [s1 [e|sn]] eqn:CS.
    + simpl. discriminate.
    + apply create_ok in CS. destruct CS as [_ [_ [_ [_ [E1 _]]]]]. intros R ck CK.
      eapply mounts_of_avail with (E0 := []); eauto. subst s1. simpl. rewrite app_nil_r. reflexivity.
  - (* Mounts *)
    unfold do_mounts. destruct (closed s); [simpl; discriminate|].
    destruct (lookup (meta s) key) as [i|]; [|simpl; discriminate].
    destruct (kind_eqb (i_kind i) KCommitted); [simpl; discriminate|].
    assert (MO : forall sn, snd (mounts_of cbad s sn (Some key)) = RMounts m ->
      forall ck, Some key = Some ck -> forall n i0,
        on_chain (meta (fst (mounts_of cbad s sn (Some key)))) ck n i0 -> l_remote (i_labels i0) = true ->
        mounted (fst (mounts_of cbad s sn (Some key))) (i_id i0) = true /\ ~ In (i_id i0) cbad /\
        In (EvCheck (i_id i0) true) (skipn (length (log s)) (log (fst (mounts_of cbad s sn (Some key)))))).
    { intros sn R ck CK. eapply mounts_of_avail with (E0 := []); eauto. rewrite app_nil_r. reflexivity. }
    destruct (i_parent i) as [p|]; [|apply MO].
    destruct (parents (fuel_of s) (meta s) p); try (simpl; discriminate). apply MO.
Qed.

(* ---------- lower directories: the parent chain, nearest parent first ---------- *)
Definition lower_spec (m : list (name * info)) (i : info) (sn : snap) : Prop :=
  sn_id sn = i_id i /\ sn_kind sn = i_kind i /\
  match i_parent i with
  | None => sn_parents sn = []
  | Some p => chain_ids m p (sn_parents sn)
  end.

Lemma created_lower s k key parent l sn cbad s2 m :
  create_snapshot s k key parent l = (created s k key parent l, inr sn) ->
  meta s2 = meta (created s k key parent l) ->
  snd (mounts_of cbad s2 sn parent) = RMounts m ->
  exists i, lookup (meta (fst (mounts_of cbad s2 sn parent))) key = Some i /\ m = mount_shape sn /\
            lower_spec (meta (fst (mounts_of cbad s2 sn parent))) i sn.
Proof.
  intros CS M2 R. apply create_ok in CS. destruct CS as [_ [LK [ID [KD [_ [_ [_ PR]]]]]]].
  destruct (mounts_of_spec cbad s2 sn parent) as [E [Sh [_ [_ [_ [RR _]]]]]].
  destruct Sh. rewrite sh_meta, M2. simpl. rewrite Nat.eqb_refl.
  eexists. split; [reflexivity|]. split.
  - destruct RR as [RR|RR]; rewrite RR in R; inversion R; auto.
  - unfold lower_spec. simpl. split; [auto|]. split; [auto|].
    destruct parent as [p|]; auto. destruct PR as [pi [_ [_ PP]]].
    apply chain_ids_cons; auto. eapply parents_chain; eauto.
Qed.

Lemma non_mount s o m : op_key o = None -> snd (step s o) <> RMounts m.
Proof.
  destruct o; simpl; try discriminate; intros _; nrm.
  - destruct (commit_active s nm key l false) as [s1 [e|]]; simpl; discriminate.
  - unfold do_remove. destruct (closed s); [simpl; discriminate|].
    destruct (lookup (meta s) key) as [i|]; [|simpl; discriminate].
    destruct (has_child (meta s) key); [simpl; discriminate|].
    destruct (match i_parent i with
              | Some p => match lookup (meta s) p with Some _ => false | None => true end
              | None => false
              end); [simpl; discriminate|].
    destruct (async s); simpl; discriminate.
  - unfold do_cleanup. destruct (closed s); simpl; discriminate.
  - unfold do_update. destruct (closed s); [simpl; discriminate|].
    destruct (lookup (meta s) nm); simpl; discriminate.
  - unfold do_stat. destruct (closed s); [simpl; discriminate|].
    destruct (lookup (meta s) nm); simpl; discriminate.
  - unfold do_close. destruct (closed s); [simpl; discriminate|].
    destruct (Nat.eqb (seq s) 0); simpl; discriminate.
Qed.

Lemma step_lower s o m : Inv s -> snd (step s o) = RMounts m ->
  exists key i sn, op_key o = Some key /\ lookup (meta (fst (step s o))) key = Some i /\
                   m = mount_shape sn /\ lower_spec (meta (fst (step s o))) i sn.
Proof.
  intros I. destruct o; try (intros H; exfalso; eapply non_mount; [|exact H]; reflexivity); simpl; nrm.
  - (* Prepare *)
    pose proof (prepare_cases s key parent l mok cbad lm) as PC. cbv zeta in PC.
    destruct PC as [[e [E [R _]]]|[sn [CS [B1|[B2|[B3|B4]]]]]].
    + rewrite R. discriminate.
    + destruct B1 as [s2 [S2 [E' R']]]. rewrite E', R'. intros R.
      assert (M2 : meta s2 = meta (created s KActive key parent l)).
      { destruct S2 as [[_ ->]|[_ [_ ->]]]; reflexivity. }
      destruct (created_lower _ _ _ _ _ _ _ _ _ CS M2 R) as [i [A [B C]]].
      exists key, i, sn. auto.
    + destruct B2 as [t [np [_ [_ [_ [R _]]]]]]. rewrite R. discriminate.
    + destruct B3 as [t [j [_ [_ [_ [R _]]]]]]. rewrite R. discriminate.
    + destruct B4 as [t [e4 [_ [_ [_ [R _]]]]]]. rewrite R. discriminate.
  - (* View *)
    unfold do_view. destruct (create_snapshot s KView key parent l) as [s1 [e|sn]] eqn:CS.
    + simpl. discriminate.
    + pose proof (create_ok _ _ _ _ _ _ _ CS) as OK. destruct OK as [_ [_ [_ [_ [E1 _]]]]].
      fold (created s KView key parent l) in E1. subst s1. intros R.
      destruct (created_lower _ _ _ _ _ _ _ _ _ CS eq_refl R) as [i [A [B C]]].
      exists key, i, sn. auto.
  - (* Mounts *)
    unfold do_mounts. destruct (closed s); [simpl; discriminate|].
    destruct (lookup (meta s) key) as [i|] eqn:LK; [|simpl; discriminate].
    destruct (kind_eqb (i_kind i) KCommitted); [simpl; discriminate|].
    assert (MO : forall sn, lower_spec (meta s) i sn ->
       snd (mounts_of cbad s sn (Some key)) = RMounts m ->
       exists key0 i0 sn0, Some key = Some key0 /\
         lookup (meta (fst (mounts_of cbad s sn (Some key)))) key0 = Some i0 /\
         m = mount_shape sn0 /\ lower_spec (meta (fst (mounts_of cbad s sn (Some key)))) i0 sn0).
    { intros sn LS R. destruct (mounts_of_spec cbad s sn (Some key)) as [E [Sh [_ [_ [_ [RR _]]]]]].
      destruct Sh. rewrite sh_meta. exists key, i, sn. split; auto. split; auto. split; auto.
      destruct RR as [RR|RR]; rewrite RR in R; inversion R; auto. }
    destruct (i_parent i) as [p|] eqn:P.
    + destruct (parents (fuel_of s) (meta s) p) as [lw| |] eqn:PP; try (simpl; discriminate).
      apply MO. unfold lower_spec. simpl. rewrite P. split; auto. split; auto.
      eapply parents_chain; eauto.
    + apply MO. unfold lower_spec. simpl. rewrite P. auto.
Qed.

Lemma mount_shape_lower sn :
  match sn_parents sn with
  | [] => mount_shape sn = MBind (sn_id sn) (kind_eqb (sn_kind sn) KView)
  | p :: rest =>
      (sn_kind sn = KActive /\ mount_shape sn = MOverlay (Some (sn_id sn)) (p :: rest)) \/
      (sn_kind sn <> KActive /\ rest = [] /\ mount_shape sn = MBind p true) \/
      (sn_kind sn <> KActive /\ rest <> [] /\ mount_shape sn = MOverlay None (p :: rest))
  end.
Proof.
  unfold mount_shape. destruct (sn_parents sn) as [|p rest]; auto.
  destruct (sn_kind sn); simpl.
  - right. destruct rest; [left|right]; repeat split; auto; discriminate.
  - left. auto.
  - right. destruct rest; [left|right]; repeat split; auto; discriminate.
Qed.

(* ---------- outcome of a Prepare that names a target ---------- *)
Lemma count_none (l : list (nat * labels)) id :
  (forall x, In x l -> fst x <> id) -> length (filter (fun p => Nat.eqb (fst p) id) l) = 0.
Proof.
  induction l as [|x l IH]; simpl; intros H; auto.
  destruct (Nat.eqb_spec (fst x) id) as [E|E].
  - exfalso. eapply H; eauto.
  - apply IH. intros y Hy. apply H. auto.
Qed.

Lemma prepare_target s key parent l mok cbad t :
  Inv s -> l_target l = Some t -> t <> key ->
  (forall j, lookup (meta s) t = Some j -> i_kind j = KCommitted) ->
  target_outcome s (fst (step s (Prepare key parent l mok cbad))) key l mok t
                 (snd (step s (Prepare key parent l mok cbad))).
Proof.
  intros I LT NE TC. simpl. unfold target_outcome. remember (norm l) as ln eqn:Hn. clear Hn.
  pose proof (prepare_cases s key parent ln mok cbad l) as PC. cbv zeta in PC.
  destruct PC as [[e [E [R [Sh _]]]]|[sn [CS [B1|[B2|[B3|B4]]]]]].
  - rewrite R. simpl. left. destruct Sh; auto.
  - destruct B1 as [s2 [S2 [E' R']]]. rewrite E', R'.
    destruct S2 as [[Q _]|[_ [MF ->]]]; [congruence|]. subst mok.
    pose proof (create_ok _ _ _ _ _ _ _ CS) as OK. destruct OK as [_ [LK [ID [KD _]]]].
    set (s2 := fs_mount (created s KActive key parent ln) (S (seq s)) l false).
    destruct (mounts_of_spec cbad s2 sn parent) as [E [Sh [_ [M [_ [RR _]]]]]].
    destruct RR as [RR|RR]; rewrite RR; simpl; [|right; left; auto].
    split; [reflexivity|]. destruct Sh. rewrite sh_meta. simpl. rewrite Nat.eqb_refl.
    eexists. split; [reflexivity|]. simpl. split; [reflexivity|]. split; [reflexivity|]. split.
    + destruct (mounted (fst (mounts_of cbad s2 sn parent)) (S (seq s))) eqn:MM; auto.
      apply mounted_in in MM. destruct MM as [lb MM]. rewrite M in MM. simpl in MM.
      apply (inv_mle _ I) in MM. simpl in MM. lia.
    + unfold mount_shape. rewrite KD, ID. destruct (sn_parents sn); simpl; eauto.
  - destruct B2 as [t' [np [LT' [MT [LN [R E']]]]]]. rewrite R, E'. assert (t' = t) by congruence. subst t'.
    simpl. rewrite Nat.eqb_refl. eexists. split; [reflexivity|]. simpl. split; [reflexivity|].
    intros _. split; [reflexivity|]. split; [|split].
    + unfold mount_count. simpl. rewrite Nat.eqb_refl. simpl. f_equal. apply count_none.
      intros x Hx Q. apply (inv_mle _ I) in Hx. lia.
    + left. reflexivity.
    + destruct (Nat.eqb_spec t key); [congruence|]. rewrite Nat.eqb_refl. apply lookup_del_eq.
  - destruct B3 as [t' [j [LT' [MT [LS [R E']]]]]]. rewrite R, E'. assert (t' = t) by congruence. subst t'.
    simpl in LS. destruct (Nat.eqb_spec key t); [congruence|].
    simpl. destruct (Nat.eqb_spec key t); [congruence|]. exists j. split; [exact LS|]. split; [eauto|].
    intros Q. congruence.
  - destruct B4 as [t' [e4 [LT' [MT [BN [R E']]]]]]. rewrite R, E'. simpl. right. right.
    split; [exact MT|]. split; [exact BN|]. rewrite Nat.eqb_refl. eexists. split; [reflexivity|].
    simpl. split; [reflexivity|]. split; [reflexivity|].
    unfold mount_count. simpl. rewrite Nat.eqb_refl. simpl. f_equal. apply count_none.
    intros x Hx Q. apply (inv_mle _ I) in Hx. lia.
Qed.

(* ---------- a snapshot committed as remote keeps its backend mount until removed or closed ---------- *)
Definition RInv (s : st) : Prop := forall id, In (EvRemoteCommit id) (log s) ->
  id <= seq s /\ (closed s = false -> In id (ids_of (meta s)) -> mounted s id = true).

Definition norc (E : list event) : Prop := forall id, ~ In (EvRemoteCommit id) E.

Lemma norc_nil : norc [].
Proof. intros id []. Qed.

Lemma norc_app E1 E2 : norc E1 -> norc E2 -> norc (E1 ++ E2).
Proof. intros A B id H. apply in_app_or in H. destruct H; [eapply A|eapply B]; eauto. Qed.

Lemma ctrace_norc Q E : ctrace Q E -> norc E.
Proof.
  induction 1 as [|d lv ok t Qd Lv CT IH]; [apply norc_nil|].
  intros id [H|[H|H]]; try discriminate. eapply IH; eauto.
Qed.

Lemma check_norc E : Forall is_check E -> norc E.
Proof.
  intros F id H. rewrite Forall_forall in F. apply F in H. exact H.
Qed.

Lemma rinv_gen s s' E :
  RInv s -> log s' = log s ++ E -> norc E -> seq s <= seq s' ->
  (closed s' = false -> closed s = false) ->
  (forall id, id <= seq s -> In id (ids_of (meta s')) -> In id (ids_of (meta s))) ->
  (forall id, In id (ids_of (meta s)) -> mounted s id = true -> In id (ids_of (meta s')) -> mounted s' id = true) ->
  RInv s'.
Proof.
  intros R L N Sq C Ids M id H. rewrite L in H. apply in_app_or in H. destruct H as [H|H]; [|exfalso; eapply N; eauto].
  destruct (R id H) as [Le K]. split; [lia|]. intros C' I'. pose proof (Ids id Le I') as I0. auto.
Qed.

Lemma rinv_shrink s s' E :
  RInv s -> shrink s s' E -> norc E ->
  (forall x, In x (mounts s) -> In (fst x) (ids_of (meta s)) -> In x (mounts s')) -> RInv s'.
Proof.
  intros R Sh N K. destruct Sh. eapply rinv_gen; [exact R|exact sh_log|exact N|lia|congruence| | ].
  - intros id _. rewrite sh_meta. auto.
  - intros id I0 M _. apply mounted_in in M. destruct M as [lb M]. apply mounted_in. exists lb.
    apply K; auto.
Qed.

Lemma del_ids_sub m k id : In id (ids_of (del m k)) -> In id (ids_of m).
Proof.
  intros H. apply in_ids in H. destruct H as [n [i [H Q]]]. apply del_in in H. apply in_ids. exists n, i. tauto.
Qed.

Lemma rinv_mounts_of cbad s sn ck : RInv s -> RInv (fst (mounts_of cbad s sn ck)).
Proof.
  intros R. destruct (mounts_of_spec cbad s sn ck) as [E [Sh [_ [M [F _]]]]].
  eapply rinv_shrink; eauto using check_norc. intros x H _. rewrite M. exact H.
Qed.

Lemma rinv_create_err s k key parent l s' e :
  Inv s -> RInv s -> create_snapshot s k key parent l = (s', inl e) -> RInv s'.
Proof.
  intros I R CS. apply create_err in CS. destruct CS as [E [Sh [_ [KM [_ CT]]]]].
  eapply rinv_shrink; eauto using ctrace_norc. intros x H _. apply KM; auto. eapply inv_mle; eauto.
Qed.

Lemma rinv_created s k key parent l : closed s = false -> RInv s -> RInv (created s k key parent l).
Proof.
  intros C R. eapply rinv_gen with (E := []); [exact R| |apply norc_nil| | | | ]; simpl.
  - rewrite app_nil_r. reflexivity.
  - lia.
  - auto.
  - intros id Le [H|H]; [lia|exact H].
  - auto.
Qed.

Lemma rinv_mount s id l ok : RInv s -> RInv (fs_mount s id l ok).
Proof.
  intros R. unfold fs_mount. destruct ok.
  - eapply rinv_gen with (E := [EvMount id l true]); [exact R|reflexivity| |simpl; lia|auto|auto| ].
    + intros j [H|[]]. discriminate.
    + intros j _ M _. apply mounted_in in M. destruct M as [lb M]. apply mounted_in. exists lb. simpl. auto.
  - eapply rinv_gen with (E := [EvMount id l false]); [exact R|reflexivity| |simpl; lia|auto|auto|auto].
    intros j [H|[]]. discriminate.
Qed.

Lemma rinv_commit s nm key l r s' x : RInv s -> commit_active s nm key l r = (s', x) -> RInv s'.
Proof.
  intros R H. destruct x as [e|].
  - apply commit_err in H. subst. exact R.
  - apply commit_ok in H. destruct H as [_ [i [np [LK [_ [_ [_ [_ E]]]]]]]]. subst.
    eapply rinv_gen with (E := []); [exact R| |apply norc_nil|simpl; lia|auto| |auto]; simpl.
    + rewrite app_nil_r. reflexivity.
    + intros id _ [H|H].
      * apply in_ids. exists key, i. split; auto. apply lookup_in. exact LK.
      * eapply del_ids_sub; eauto.
Qed.

Lemma rinv_cleanup ub s : RInv s -> RInv (cleanup_dirs ub s (cleanup_list s false)).
Proof.
  intros R. destruct (cleanup_dirs_spec ub (cleanup_list s false) s) as [E [Sh [_ [CT K]]]].
  eapply rinv_shrink; eauto using ctrace_norc. intros x H I0. apply K; auto.
  intros F. apply cleanup_list_in in F. destruct F as [_ F]. contradiction.
Qed.

Lemma rinv_closed s' : (forall id, In (EvRemoteCommit id) (log s') -> id <= seq s') -> closed s' = true -> RInv s'.
Proof. intros H C id Hid. split; [auto|]. congruence. Qed.

Lemma step_rinv s o : Inv s -> RInv s -> RInv (fst (step s o)).
Proof.
  intros I R. destruct o; simpl; nrm.
  - (* Prepare *)
    pose proof (prepare_cases s key parent l mok cbad lm) as PC. cbv zeta in PC.
    destruct PC as [[e [E [_ [_ [_ [_ [_ CS]]]]]]]|[sn [CS [B1|[B2|[B3|B4]]]]]].
    + eapply rinv_create_err; eauto.
    + destruct B1 as [s2 [S2 [E' _]]]. rewrite E'. apply rinv_mounts_of.
      pose proof (create_ok _ _ _ _ _ _ _ CS) as [C0 _].
      destruct S2 as [[_ ->]|[_ [_ ->]]]; [|apply rinv_mount]; apply rinv_created; auto.
    + destruct B2 as [t [np [_ [_ [LN [_ E']]]]]]. rewrite E'.
      set (s1 := created s KActive key parent l) in *.
      set (s2 := fs_mount s1 (S (seq s)) lm true).
      pose proof (create_ok _ _ _ _ _ _ _ CS) as [C0 _].
      assert (R2 : RInv s2) by (apply rinv_mount; apply rinv_created; auto).
      intros id H. simpl in H. apply in_app_or in H. destruct H as [H|[H|[]]].
      * assert (H2 : In (EvRemoteCommit id) (log s2)) by exact H.
        destruct (R2 id H2) as [Le K]. split; [exact Le|]. intros _ I3. apply K; [reflexivity|].
        simpl in I3. rewrite Nat.eqb_refl in I3. destruct I3 as [I3|I3].
        -- subst id. simpl. left. reflexivity.
        -- simpl. right. eapply del_ids_sub; exact I3.
      * inversion H; subst id. split; [simpl; lia|]. intros _ _. unfold mounted, s2, fs_mount. simpl. rewrite Nat.eqb_refl. reflexivity.
    + destruct B3 as [t [j [_ [_ [_ [_ E']]]]]]. rewrite E'.
      pose proof (create_ok _ _ _ _ _ _ _ CS) as [C0 _]. apply rinv_mount. apply rinv_created; auto.
    + destruct B4 as [t [e4 [_ [_ [_ [_ E']]]]]]. rewrite E'.
      pose proof (create_ok _ _ _ _ _ _ _ CS) as [C0 _]. apply rinv_mount. apply rinv_created; auto.
  - (* View *)
    unfold do_view. destruct (create_snapshot s KView key parent l) as [s1 [e|sn]] eqn:CS.
    + simpl. eapply rinv_create_err; eauto.
    + pose proof (create_ok _ _ _ _ _ _ _ CS) as OK. destruct OK as [C0 [_ [_ [_ [E1 _]]]]].
      fold (created s KView key parent l) in E1. subst s1. apply rinv_mounts_of. apply rinv_created; auto.
  - (* Commit *)
    destruct (commit_active s nm key l false) as [s1 r] eqn:CA. simpl. eapply rinv_commit; eauto.
  - (* Mounts *)
    unfold do_mounts. destruct (closed s); [exact R|].
    destruct (lookup (meta s) key) as [i|]; [|exact R].
    destruct (kind_eqb (i_kind i) KCommitted); [exact R|].
    destruct (i_parent i) as [p|]; [|apply rinv_mounts_of; exact R].
    destruct (parents (fuel_of s) (meta s) p); try exact R. apply rinv_mounts_of; exact R.
  - (* Remove *)
    unfold do_remove. destruct (closed s); [exact R|].
    destruct (lookup (meta s) key) as [i|] eqn:LK; [|exact R].
    destruct (has_child (meta s) key) eqn:HC; [exact R|].
    destruct (match i_parent i with
              | Some p => match lookup (meta s) p with Some _ => false | None => true end
              | None => false
              end); [exact R|].
    assert (R1 : RInv (emit (set_meta s (del (meta s) key)) (EvMetaRemove (i_id i)))).
    { eapply rinv_gen with (E := [EvMetaRemove (i_id i)]); [exact R|reflexivity| |simpl; lia|auto| |auto]; simpl.
      - intros j [H|[]]. discriminate.
      - intros id _ H. eapply del_ids_sub; eauto. }
    destruct (async s); simpl; [exact R1|]. apply rinv_cleanup. exact R1.
  - (* Cleanup *)
    unfold do_cleanup. destruct (closed s); [exact R|].
    simpl. apply rinv_cleanup. exact R.
  - (* Update *)
    unfold do_update. destruct (closed s); [exact R|].
    destruct (lookup (meta s) nm); [|exact R]. simpl.
    eapply rinv_gen with (E := []); [exact R| |apply norc_nil|simpl; lia|auto| |auto]; simpl.
    + rewrite app_nil_r. reflexivity.
    + intros id _. rewrite upd_ids. auto.
  - (* Stat *)
    unfold do_stat. destruct (closed s); [exact R|]. destruct (lookup (meta s) nm); exact R.
  - (* Close *)
    unfold do_close. destruct (closed s) eqn:C; [exact R|].
    destruct (Nat.eqb (seq s) 0); simpl.
    + apply rinv_closed; [|reflexivity]. simpl. intros id H. apply in_app_or in H.
      destruct H as [H|[H|[]]]; [apply R; exact H|discriminate].
    + destruct (cleanup_dirs_spec ubad (cleanup_list (emit s EvClose) true) (emit s EvClose)) as [E [Sh [_ [CT _]]]].
      apply rinv_closed; [|reflexivity]. destruct Sh. simpl. rewrite sh_log, sh_seq. simpl.
      intros id H. apply in_app_or in H. destruct H as [H|H]; [|exfalso; eapply ctrace_norc; eauto].
      apply in_app_or in H. destruct H as [H|[H|[]]]; [apply R; exact H|discriminate].
Qed.

Lemma exec_rinv os : forall s, Inv s -> RInv s -> RInv (exec s os).
Proof.
  induction os as [|o os IH]; intros s I R; simpl; auto.
  apply IH; [apply step_inv; exact I|apply step_rinv; assumption].
Qed.

Lemma count_one (l : list (nat * labels)) id :
  NoDup (map fst l) -> (exists lb, In (id, lb) l) -> length (filter (fun p => Nat.eqb (fst p) id) l) = 1.
Proof.
  induction l as [|x l IH]; simpl; intros ND [lb H]; [contradiction|].
  inversion ND as [|? ? Hn ND']; subst.
  destruct (Nat.eqb_spec (fst x) id) as [E|E].
  - simpl. f_equal. apply count_none. intros y Hy Q. apply Hn. rewrite E, <- Q. apply in_map. exact Hy.
  - destruct H as [H|H]; [subst x; simpl in E; congruence|]. apply IH; eauto.
Qed.

Lemma remote_has_mount a os id :
  let s := exec (init a) os in
  In (EvRemoteCommit id) (log s) -> closed s = false -> In id (ids_of (meta s)) ->
  mount_count s id = 1 /\ In (DId id) (dirs s).
Proof.
  intros s H C I0.
  assert (I : Inv s) by apply reach_inv.
  assert (R : RInv s). { apply exec_rinv; [apply inv_init|]. intros j []. }
  destruct (R id H) as [_ K]. specialize (K C I0). split.
  - unfold mount_count. apply count_one; [apply inv_mnd; exact I|]. apply mounted_in. exact K.
  - apply in_ids in I0. destruct I0 as [n [i [F Q]]]. subst id. eapply inv_has; eauto.
Qed.


(* ---------- availability, converse: a failed Check makes the call fail as Unavailable ---------- *)
Definition nocheck (E : list event) : Prop := forall id b, ~ In (EvCheck id b) E.

Lemma ctrace_nocheck Q E : ctrace Q E -> nocheck E.
Proof.
  induction 1 as [|d lv ok t Qd Lv CT IH]; intros id b H; [contradiction|].
  destruct H as [H|[H|H]]; try discriminate. eapply IH; eauto.
Qed.

Lemma nocheck_app E1 E2 : nocheck E1 -> nocheck E2 -> nocheck (E1 ++ E2).
Proof. intros A B id b H. apply in_app_or in H. destruct H; [eapply A|eapply B]; eauto. Qed.

Lemma cleanup_nocheck ub s ds : exists E, log (cleanup_dirs ub s ds) = log s ++ E /\ nocheck E.
Proof.
  destruct (cleanup_dirs_spec ub ds s) as [E [Sh [_ [CT _]]]]. exists E. split; [destruct Sh; auto|].
  eapply ctrace_nocheck; eauto.
Qed.

Lemma mounts_of_fail cbad s s2 sn ck E0 id :
  log s2 = log s ++ E0 -> nocheck E0 ->
  In (EvCheck id false) (skipn (length (log s)) (log (fst (mounts_of cbad s2 sn ck)))) ->
  snd (mounts_of cbad s2 sn ck) = RErr EUnavail.
Proof.
  intros L0 N0 H. destruct (mounts_of_spec cbad s2 sn ck) as [E [Sh [_ [_ [_ [_ [_ N]]]]]]].
  destruct Sh. rewrite sh_log, L0, <- app_assoc, skipn_app_len in H.
  apply in_app_or in H. destruct H as [H|H]; [exfalso; eapply N0; eauto|]. eapply N; eauto.
Qed.

Lemma step_check_fail s o id :
  In (EvCheck id false) (step_events s o) -> snd (step s o) = RErr EUnavail.
Proof.
  unfold step_events.
  assert (NO : forall s' E, log s' = log s ++ E -> nocheck E ->
                 In (EvCheck id false) (skipn (length (log s)) (log s')) -> False).
  { intros s' E L N. rewrite L, skipn_app_len. apply N. }
  assert (NIL : forall s', log s' = log s -> In (EvCheck id false) (skipn (length (log s)) (log s')) -> False).
  { intros s' L. apply NO with (E := []); [rewrite app_nil_r; exact L|]. intros j b []. }
  assert (N1 : forall e, match e with EvCheck _ _ => False | _ => True end -> nocheck [e]).
  { intros e Q j b [H|[]]. subst e. exact Q. }
  destruct o; simpl; nrm.
  - (* Prepare *)
    pose proof (prepare_cases s key parent l mok cbad lm) as PC. cbv zeta in PC.
    destruct PC as [[e [E [_ [_ [_ [_ [_ CS]]]]]]]|[sn [CS [B1|[B2|[B3|B4]]]]]].
    + intros H. exfalso. apply create_err in CS. destruct CS as [E' [Sh [_ [_ [_ CT]]]]]. destruct Sh.
      eapply NO; eauto. eapply ctrace_nocheck; eauto.
    + destruct B1 as [s2 [S2 [E' R']]]. rewrite E', R'.
      destruct S2 as [[_ ->]|[_ [_ ->]]].
      * apply mounts_of_fail with (E0 := []); [simpl; rewrite app_nil_r; reflexivity|intros j b []].
      * apply mounts_of_fail with (E0 := [EvMount (S (seq s)) lm false]); [reflexivity|apply N1; exact I].
    + destruct B2 as [t [np [_ [_ [_ [_ E']]]]]]. rewrite E'. intros H. exfalso.
      eapply NO with (E := [EvMount (S (seq s)) lm true] ++ [EvRemoteCommit (S (seq s))]); [| |exact H].
      * simpl. rewrite <- app_assoc. reflexivity.
      * apply nocheck_app; apply N1; exact I.
    + destruct B3 as [t [j [_ [_ [_ [_ E']]]]]]. rewrite E'. intros H. exfalso.
      eapply NO with (E := [EvMount (S (seq s)) lm true]); [ | |exact H]; [reflexivity|apply N1; exact I].
    + destruct B4 as [t [e4 [_ [_ [_ [_ E']]]]]]. rewrite E'. intros H. exfalso.
      eapply NO with (E := [EvMount (S (seq s)) lm true]); [ | |exact H]; [reflexivity|apply N1; exact I].
  - (* View *)
    unfold do_view. destruct (create_snapshot s KView key parent l) as [s1 [e|sn]] eqn:CS.
    + simpl. intros H. exfalso. apply create_err in CS. destruct CS as [E' [Sh [_ [_ [_ CT]]]]]. destruct Sh.
      eapply NO; eauto. eapply ctrace_nocheck; eauto.
    + apply create_ok in CS. destruct CS as [_ [_ [_ [_ [E1 _]]]]].
      apply mounts_of_fail with (E0 := []); [subst s1; simpl; rewrite app_nil_r; reflexivity|intros j b []].
  - (* Commit *)
    destruct (commit_active s nm key l false) as [s1 r] eqn:CA. simpl. intros H. exfalso.
    apply commit_log in CA. eapply NIL; [|exact H]. tauto.
  - (* Mounts *)
    unfold do_mounts. destruct (closed s); [simpl; intros H; exfalso; eapply NIL; eauto|].
    destruct (lookup (meta s) key) as [i|]; [|simpl; intros H; exfalso; eapply NIL; eauto].
    destruct (kind_eqb (i_kind i) KCommitted); [simpl; intros H; exfalso; eapply NIL; eauto|].
    assert (MO : forall sn, In (EvCheck id false) (skipn (length (log s)) (log (fst (mounts_of cbad s sn (Some key))))) ->
                 snd (mounts_of cbad s sn (Some key)) = RErr EUnavail).
    { intros sn. apply mounts_of_fail with (E0 := []); [rewrite app_nil_r; reflexivity|intros j b []]. }
    destruct (i_parent i) as [p|]; [|apply MO].
    destruct (parents (fuel_of s) (meta s) p); try (simpl; intros H; exfalso; eapply NIL; eauto; fail). apply MO.
  - (* Remove *)
    unfold do_remove. destruct (closed s); [simpl; intros H; exfalso; eapply NIL; eauto|].
    destruct (lookup (meta s) key) as [i|]; [|simpl; intros H; exfalso; eapply NIL; eauto].
    destruct (has_child (meta s) key); [simpl; intros H; exfalso; eapply NIL; eauto|].
    destruct (match i_parent i with
              | Some p => match lookup (meta s) p with Some _ => false | None => true end
              | None => false
              end); [simpl; intros H; exfalso; eapply NIL; eauto|].
    set (s1 := emit (set_meta s (del (meta s) key)) (EvMetaRemove (i_id i))).
    destruct (async s); cbn [fst snd]; intros H; exfalso.
    + eapply NO with (E := [EvMetaRemove (i_id i)]); [ | |exact H]; [reflexivity|apply N1; exact I].
    + destruct (cleanup_nocheck ubad s1 (cleanup_list s1 false)) as [E [L N]].
      eapply NO with (E := [EvMetaRemove (i_id i)] ++ E); [| |exact H].
      * rewrite L. unfold s1. simpl. rewrite <- app_assoc. reflexivity.
      * apply nocheck_app; [apply N1; exact I|exact N].
  - (* Cleanup *)
    unfold do_cleanup. destruct (closed s); cbn [fst snd]; intros H; exfalso; [eapply NIL; eauto|].
    destruct (cleanup_nocheck ubad s (cleanup_list s false)) as [E [L N]]. eapply NO; eauto.
  - (* Update *)
    unfold do_update. destruct (closed s); [simpl; intros H; exfalso; eapply NIL; eauto|].
    destruct (lookup (meta s) nm); simpl; intros H; exfalso; eapply NIL; eauto.
  - (* Stat *)
    unfold do_stat. destruct (closed s); [simpl; intros H; exfalso; eapply NIL; eauto|].
    destruct (lookup (meta s) nm); simpl; intros H; exfalso; eapply NIL; eauto.
  - (* Close *)
    unfold do_close. destruct (closed s); [simpl; intros H; exfalso; eapply NIL; eauto|].
    destruct (Nat.eqb (seq s) 0); cbn [fst snd]; intros H; exfalso.
    + eapply NO with (E := [EvClose]); [ | |exact H]; [reflexivity|apply N1; exact I].
    + destruct (cleanup_nocheck ubad (emit s EvClose) (cleanup_list (emit s EvClose) true)) as [E [L N]].
      eapply NO with (E := [EvClose] ++ E); [| |exact H].
      * unfold set_closed. cbn [log]. rewrite L. unfold emit. cbn [log]. rewrite <- app_assoc. reflexivity.
      * apply nocheck_app; [apply N1; exact I|exact N].
Qed.

(* ---------- no temp directory at rest in sequential histories ---------- *)
Lemma step_dirs s o d : In d (dirs (fst (step s o))) -> In d (dirs s) \/ exists id, d = DId id.
Proof.
  assert (CR : forall k key parent l, In d (dirs (created s k key parent l)) -> In d (dirs s) \/ exists id, d = DId id).
  { intros k key parent l [H|H]; [right; exists (S (seq s)); symmetry; exact H|]. apply rm_dirent_in in H. destruct H as [[H|H] N]; [congruence|auto]. }
  assert (MO : forall cbad s2 sn ck, In d (dirs (fst (mounts_of cbad s2 sn ck))) -> In d (dirs s2)).
  { intros cbad s2 sn ck H. destruct (mounts_of_spec cbad s2 sn ck) as [E [_ [D _]]]. rewrite D in H. exact H. }
  assert (CL : forall ub s2 ds, In d (dirs (cleanup_dirs ub s2 ds)) -> In d (dirs s2)).
  { intros ub s2 ds H. destruct (cleanup_dirs_spec ub ds s2) as [E [Sh _]]. destruct Sh. auto. }
  destruct o; simpl; nrm.
  - pose proof (prepare_cases s key parent l mok cbad lm) as PC. cbv zeta in PC.
    destruct PC as [[e [E [_ [Sh _]]]]|[sn [CS [B1|[B2|[B3|B4]]]]]].
    + intros H. left. destruct Sh. auto.
    + destruct B1 as [s2 [S2 [E' _]]]. rewrite E'. intros H. apply MO in H.
      destruct S2 as [[_ ->]|[_ [_ ->]]]; apply (CR KActive key parent l); exact H.
    + destruct B2 as [t [np [_ [_ [_ [_ E']]]]]]. rewrite E'. intros H. apply (CR KActive key parent l). exact H.
    + destruct B3 as [t [j [_ [_ [_ [_ E']]]]]]. rewrite E'. intros H. apply (CR KActive key parent l). exact H.
    + destruct B4 as [t [e4 [_ [_ [_ [_ E']]]]]]. rewrite E'. intros H. apply (CR KActive key parent l). exact H.
  - unfold do_view. destruct (create_snapshot s KView key parent l) as [s1 [e|sn]] eqn:CS.
    + simpl. apply create_err in CS. destruct CS as [E [Sh _]]. destruct Sh. auto.
    + pose proof (create_ok _ _ _ _ _ _ _ CS) as OK. destruct OK as [_ [_ [_ [_ [E1 _]]]]].
      fold (created s KView key parent l) in E1. subst s1. intros H. apply MO in H. apply (CR KView key parent l). exact H.
  - destruct (commit_active s nm key l false) as [s1 r] eqn:CA. simpl. apply commit_log in CA.
    destruct CA as [_ [_ [D _]]]. rewrite D. auto.
  - unfold do_mounts. destruct (closed s); [auto|]. destruct (lookup (meta s) key) as [i|]; [|auto].
    destruct (kind_eqb (i_kind i) KCommitted); [auto|].
    destruct (i_parent i) as [p|]; [|intros H; left; eapply MO; eauto].
    destruct (parents (fuel_of s) (meta s) p); auto. intros H; left; eapply MO; eauto.
  - unfold do_remove. destruct (closed s); [auto|]. destruct (lookup (meta s) key) as [i|]; [|auto].
    destruct (has_child (meta s) key); [auto|].
    destruct (match i_parent i with
              | Some p => match lookup (meta s) p with Some _ => false | None => true end
              | None => false
              end); [auto|].
    destruct (async s); simpl; [auto|]. intros H. left. apply CL in H. exact H.
  - unfold do_cleanup. destruct (closed s); simpl; [auto|]. intros H. left. eapply CL; eauto.
  - unfold do_update. destruct (closed s); [auto|]. destruct (lookup (meta s) nm); auto.
  - unfold do_stat. destruct (closed s); [auto|]. destruct (lookup (meta s) nm); auto.
  - unfold do_close. destruct (closed s); [auto|]. destruct (Nat.eqb (seq s) 0); [simpl; auto|].
    intros H. left. unfold set_closed in H. cbn [fst dirs] in H. apply CL in H. exact H.
Qed.

Lemma exec_nt os : forall s, NT s -> NT (exec s os).
Proof.
  induction os as [|o os IH]; intros s N; simpl; auto. apply IH.
  intros d H. apply step_dirs in H. destruct H as [H|H]; auto.
Qed.

Lemma reach_nt a os : NT (exec (init a) os).
Proof. apply exec_nt. intros d []. Qed.
