(* Proofs about entry-name cleaning, the mode conversion to FUSE and the duplicate rule of the view
   (Model/TarView.v). *)
From Coq Require Import List ZArith Bool Arith String Ascii Lia.
From SV Require Import Model.ChunkRead Model.TarView.
Import ListNotations.
Open Scope Z_scope.

(* ---------- clean_name ---------- *)
(* a component that survives cleaning *)
Definition good (c : string) : Prop := c <> ""%string /\ c <> "."%string /\ c <> ".."%string.

Lemma clean_stack_good : forall cs acc, Forall good acc -> Forall good (clean_stack acc cs).
Proof.
  induction cs as [|c t IH]; intros acc H; simpl; [assumption|].
  destruct (String.eqb c "") eqn:E1; simpl; [apply IH; assumption|].
  destruct (String.eqb c ".") eqn:E2; simpl; [apply IH; assumption|].
  destruct (String.eqb c "..") eqn:E3.
  - apply IH. destruct acc; simpl; [constructor|]. inversion H; assumption.
  - apply IH. constructor; [|assumption].
    apply String.eqb_neq in E1. apply String.eqb_neq in E2. apply String.eqb_neq in E3. repeat split; assumption.
Qed.

Lemma clean_stack_sub : forall (P : string -> Prop) cs acc, Forall P acc -> Forall P cs -> Forall P (clean_stack acc cs).
Proof.
  intros P. induction cs as [|c t IH]; intros acc Ha Hc; simpl; [assumption|].
  inversion Hc as [|? ? Hc1 Hc2]; subst.
  destruct (String.eqb c "" || String.eqb c "."); [apply IH; assumption|].
  destruct (String.eqb c "..").
  - apply IH; [|assumption]. destruct acc; simpl; [constructor|]. inversion Ha; assumption.
  - apply IH; [constructor; assumption|assumption].
Qed.

Lemma clean_stack_of_good : forall cs acc, Forall good cs -> clean_stack acc cs = rev cs ++ acc.
Proof.
  induction cs as [|c t IH]; intros acc H; simpl; [reflexivity|].
  inversion H as [|? ? (H1 & H2 & H3) Ht]; subst.
  apply String.eqb_neq in H1. apply String.eqb_neq in H2. apply String.eqb_neq in H3.
  rewrite H1, H2, H3. simpl. rewrite IH by assumption. rewrite <- app_assoc. reflexivity.
Qed.

Lemma clean_comps_good : forall cs, Forall good (clean_comps cs).
Proof. intros cs. unfold clean_comps. apply Forall_rev. apply clean_stack_good. constructor. Qed.

Lemma clean_comps_of_good : forall cs, Forall good cs -> clean_comps cs = cs.
Proof.
  intros cs H. unfold clean_comps. rewrite clean_stack_of_good by assumption.
  rewrite app_nil_r. apply rev_involutive.
Qed.

(* idempotence on components *)
Lemma clean_comps_idem : forall cs, clean_comps (clean_comps cs) = clean_comps cs.
Proof. intros cs. apply clean_comps_of_good. apply clean_comps_good. Qed.

(* never escapes the root: no component of a clean path is "", "." or ".." *)
Lemma clean_name_good : forall s, Forall good (clean_name s).
Proof. intros s. apply clean_comps_good. Qed.

(* the prefixes ./ / ../ (repeated in any order) do not matter *)
Lemma clean_name_dot_slash : forall s, clean_name (String "." (String "/" s)) = clean_name s.
Proof.
  intros s. unfold clean_name. simpl. unfold clean_comps. destruct (split_slash s); reflexivity.
Qed.
Lemma clean_name_slash : forall s, clean_name (String "/" s) = clean_name s.
Proof. intros s. unfold clean_name. simpl. reflexivity. Qed.
Lemma clean_name_dotdot_slash : forall s, clean_name (String "." (String "." (String "/" s))) = clean_name s.
Proof.
  intros s. unfold clean_name. simpl. unfold clean_comps. destruct (split_slash s); reflexivity.
Qed.

(* strings without '/' *)
Fixpoint no_slash (s : string) : bool :=
  match s with
  | EmptyString => true
  | String c r => negb (Ascii.eqb c slash) && no_slash r
  end.

Lemma split_nonempty : forall s, split_slash s <> [].
Proof.
  induction s as [|c r IH]; simpl; [discriminate|].
  destruct (Ascii.eqb c slash); [discriminate|]. destruct (split_slash r); discriminate.
Qed.

Lemma split_no_slash : forall s, Forall (fun c => no_slash c = true) (split_slash s).
Proof.
  induction s as [|c r IH]; simpl.
  - constructor; [reflexivity|constructor].
  - destruct (Ascii.eqb c slash) eqn:E.
    + constructor; [reflexivity|assumption].
    + destruct (split_slash r) as [|h t] eqn:Es.
      * constructor; [simpl; rewrite E; reflexivity|constructor].
      * inversion IH; subst. constructor; [simpl; rewrite E; simpl; assumption|assumption].
Qed.

Lemma split_single : forall c, no_slash c = true -> split_slash c = [c].
Proof.
  induction c as [|a r IH]; simpl; intros H; [reflexivity|].
  apply andb_true_iff in H. destruct H as (H1 & H2). apply negb_true_iff in H1. rewrite H1.
  rewrite IH by assumption. reflexivity.
Qed.

Lemma split_cons : forall c r, no_slash c = true -> split_slash (c ++ String slash r) = c :: split_slash r.
Proof.
  induction c as [|a c' IH]; intros r H; simpl.
  - reflexivity.
  - simpl in H. apply andb_true_iff in H. destruct H as (H1 & H2). apply negb_true_iff in H1. rewrite H1.
    rewrite IH by assumption. reflexivity.
Qed.

Lemma split_join : forall p, p <> [] -> Forall (fun c => no_slash c = true) p -> split_slash (join_slash p) = p.
Proof.
  induction p as [|c t IH]; intros Hne H; [congruence|].
  inversion H as [|? ? Hc Ht]; subst.
  destruct t as [|c2 t'].
  - simpl. apply split_single. assumption.
  - change (join_slash (c :: c2 :: t')) with (c ++ String slash (join_slash (c2 :: t')))%string.
    rewrite split_cons by assumption. f_equal. apply IH; [discriminate|assumption].
Qed.

(* idempotence on names: cleaning the printed clean path gives the same path *)
Lemma clean_name_idem : forall s, clean_name (join_slash (clean_name s)) = clean_name s.
Proof.
  intros s. destruct (clean_name s) as [|c t] eqn:E.
  - reflexivity.
  - unfold clean_name at 1. rewrite split_join.
    + rewrite <- E. apply clean_comps_of_good. apply clean_name_good.
    + discriminate.
    + rewrite <- E. unfold clean_name, clean_comps. apply Forall_rev.
      apply clean_stack_sub; [constructor|apply split_no_slash].
Qed.

(* ---------- mode conversion ---------- *)
Definition kinds : list kind := [KReg; KDir; KSymlink; KHardlink; KChar; KBlock; KFifo].

Lemma kinds_all : forall k, In k kinds.
Proof. destruct k; simpl; tauto. Qed.

Fixpoint check_upto (n : nat) (f : Z -> bool) : bool :=
  match n with
  | O => true
  | S k => f (Z.of_nat k) && check_upto k f
  end.

Lemma check_upto_spec : forall n f, check_upto n f = true -> forall z, 0 <= z < Z.of_nat n -> f z = true.
Proof.
  induction n as [|k IH]; intros f H z Hz; [lia|].
  simpl in H. apply andb_true_iff in H. destruct H as (H1 & H2).
  destruct (Z.eq_dec z (Z.of_nat k)) as [->|Hne]; [assumption|].
  apply IH; [assumption|lia].
Qed.

Definition sweep_fun (m : Z) : bool := forallb (fun k => fuse_mode (stat_mode k m) =? posix_mode k m) kinds.

(* stated literally in the form [check_upto_spec] consumes, so that the kernel never has to convert it
   (it is checked once, by the VM) *)
Lemma sweep_ok : check_upto (Z.to_nat 4096) sweep_fun = true.
Proof. vm_compute. reflexivity. Qed.

Lemma stat_mode_low : forall k m, stat_mode k m = stat_mode k (Z.land m 4095).
Proof.
  intros k m. unfold stat_mode.
  assert (H1 : Z.land (Z.land m 4095) ModePerm = Z.land m ModePerm).
  { rewrite <- Z.land_assoc. reflexivity. }
  assert (Hb : forall i, 0 <= i < 12 -> Z.testbit (Z.land m 4095) i = Z.testbit m i).
  { intros i Hi. rewrite Z.land_spec. change 4095 with (Z.ones 12). rewrite Z.ones_spec_low by lia. apply andb_true_r. }
  rewrite H1, (Hb 11), (Hb 10), (Hb 9) by lia. reflexivity.
Qed.

Lemma posix_mode_low : forall k m, posix_mode k m = posix_mode k (Z.land m 4095).
Proof. intros k m. unfold posix_mode. rewrite <- Z.land_assoc. reflexivity. Qed.

(* attr_conversion: for EVERY tar header mode and every entry type, the FUSE st_mode is the POSIX mode the tar describes *)
Lemma mode_conversion : forall k m, fuse_mode (stat_mode k m) = posix_mode k m.
Proof.
  intros k m. rewrite stat_mode_low, posix_mode_low.
  set (m' := Z.land m 4095).
  assert (Hr : 0 <= m' < 4096).
  { unfold m'. change 4095 with (Z.ones 12). rewrite Z.land_ones by lia. apply Z.mod_pos_bound. lia. }
  assert (Hs : sweep_fun m' = true).
  { apply (check_upto_spec (Z.to_nat 4096) sweep_fun sweep_ok). rewrite Z2Nat.id by lia. exact Hr. }
  unfold sweep_fun in Hs. rewrite forallb_forall in Hs. specialize (Hs k (kinds_all k)).
  apply Z.eqb_eq in Hs. exact Hs.
Qed.

(* ---------- duplicates: the last entry of a name wins ---------- *)
Lemma path_eqb_refl : forall p, path_eqb p p = true.
Proof.
  induction p as [|c t IH]; simpl; [reflexivity|]. unfold path_eqb in *. simpl. rewrite String.eqb_refl. assumption.
Qed.

Lemma dedup_acc_snoc : forall es acc e,
  dedup_acc (es ++ [e]) acc = filter (fun x => negb (path_eqb (cname x) (cname e))) (dedup_acc es acc) ++ [e].
Proof.
  induction es as [|x t IH]; intros acc e; simpl; [reflexivity|]. apply IH.
Qed.

Lemma find_filter_none : forall (es : list tent) p,
  find (fun e => path_eqb (cname e) p) (filter (fun x => negb (path_eqb (cname x) p)) es) = None.
Proof.
  induction es as [|x t IH]; intros p; simpl; [reflexivity|].
  destruct (path_eqb (cname x) p) eqn:E; simpl; [apply IH|]. rewrite E. apply IH.
Qed.

Lemma find_app_none : forall {A} (f : A -> bool) l1 l2, find f l1 = None -> find f (l1 ++ l2) = find f l2.
Proof. induction l1 as [|x t IH]; intros l2 H; simpl in *; [reflexivity|]. destruct (f x); [discriminate|]. apply IH. assumption. Qed.

Lemma filter_find_comm : forall (es : list tent) (g : tent -> bool) p,
  (forall e, path_eqb (cname e) p = true -> g e = true) ->
  find (fun e => path_eqb (cname e) p) (filter g es) = find (fun e => path_eqb (cname e) p) es.
Proof.
  induction es as [|x t IH]; intros g p H; simpl; [reflexivity|].
  destruct (path_eqb (cname x) p) eqn:E.
  - rewrite (H x E). simpl. rewrite E. reflexivity.
  - destruct (g x); simpl; [rewrite E|]; apply IH; assumption.
Qed.

(* path_eqb decides equality of paths *)
Lemma path_eqb_eq : forall a b, path_eqb a b = true <-> a = b.
Proof.
  induction a as [|x a IH]; destruct b as [|y b]; unfold path_eqb in *; simpl; split; intros H; try reflexivity; try discriminate.
  - apply andb_true_iff in H. destruct H as (H1 & H2). apply String.eqb_eq in H1. apply IH in H2. subst. reflexivity.
  - inversion H; subst. rewrite String.eqb_refl. simpl. apply IH. reflexivity.
Qed.

(* the entry found for the name of the last entry of an archive is that entry (unless the name is reserved) *)
Lemma last_duplicate_wins : forall tar e, reserved (cname e) = false ->
  find_ent (dedup (tar ++ [e])) (cname e) = Some e.
Proof.
  intros tar e Hr. unfold find_ent, dedup. rewrite dedup_acc_snoc.
  rewrite filter_find_comm.
  - rewrite find_app_none by apply find_filter_none. simpl. rewrite path_eqb_refl. reflexivity.
  - intros x Hx. apply path_eqb_eq in Hx. rewrite Hx, Hr. reflexivity.
Qed.

(* and it is served with its own attributes and content when it is not a hardlink *)
Lemma last_duplicate_node : forall tar e, reserved (cname e) = false -> t_kind e <> KHardlink ->
  node_at (dedup (tar ++ [e])) (cname e) = Some (node_of_ent (dedup (tar ++ [e])) e).
Proof.
  intros tar e Hr Hk. unfold node_at. rewrite last_duplicate_wins by assumption.
  unfold resolve_in. destruct (List.length (dedup (tar ++ [e]))); simpl; destruct (t_kind e); try congruence; reflexivity.
Qed.

(* a path that has no entry but lies above one is a directory rwxr-xr-x owned by root *)
Lemma implicit_parent : forall es p, find_ent es p = None -> existsb (path_eqb p) (all_paths es) = true ->
  exists n, node_at es p = Some n /\ v_kind n = KDir /\ fuse_mode (v_mode n) = Z.lor S_IFDIR 493 /\ v_uid n = 0 /\ v_gid n = 0.
Proof.
  intros es p Hf He. unfold node_at. rewrite Hf, He. eexists. split; [reflexivity|]. simpl.
  split; [reflexivity|]. split; [|split; reflexivity]. apply (mode_conversion KDir 493).
Qed.

(* a hardlink is served as the node of its target: same attributes, same content, same owner *)
Lemma hardlink_denotes_target : forall es h t, find_ent es (cname h) = Some h ->
  resolve_in es h = Some t -> node_at es (cname h) = Some (node_of_ent es t).
Proof. intros es h t Hf Hr. unfold node_at. rewrite Hf, Hr. reflexivity. Qed.

(* the general form of "the last duplicate wins": an entry that no later entry of the archive names again
   is the entry found for its name *)
Lemma find_app_some : forall {A} (f : A -> bool) l1 l2 x, find f l1 = Some x -> find f (l1 ++ l2) = Some x.
Proof.
  induction l1 as [|y t IH]; intros l2 x H; simpl in *; [discriminate|]. destruct (f y); [assumption|]. apply IH. assumption.
Qed.

Lemma dedup_acc_last_of_name : forall l2 l1 e,
  Forall (fun x => cname x <> cname e) l2 ->
  find (fun x => path_eqb (cname x) (cname e)) (dedup_acc (l1 ++ e :: l2) []) = Some e.
Proof.
  induction l2 as [|y t IH] using rev_ind; intros l1 e H.
  - rewrite dedup_acc_snoc. rewrite find_app_none by apply find_filter_none. simpl. rewrite path_eqb_refl. reflexivity.
  - apply Forall_app in H. destruct H as (Ht & Hy). inversion Hy as [|? ? Hne _]; subst.
    replace (l1 ++ e :: t ++ [y]) with ((l1 ++ e :: t) ++ [y]) by (rewrite <- app_assoc; reflexivity).
    rewrite dedup_acc_snoc. apply find_app_some.
    rewrite filter_find_comm.
    + apply IH. assumption.
    + intros x Hx. apply path_eqb_eq in Hx. apply negb_true_iff.
      destruct (path_eqb (cname x) (cname y)) eqn:E; [|reflexivity].
      apply path_eqb_eq in E. congruence.
Qed.

Lemma last_of_name_wins : forall l1 e l2, reserved (cname e) = false ->
  Forall (fun x => cname x <> cname e) l2 ->
  find_ent (dedup (l1 ++ e :: l2)) (cname e) = Some e.
Proof.
  intros l1 e l2 Hr H. unfold find_ent, dedup. rewrite filter_find_comm.
  - apply dedup_acc_last_of_name. assumption.
  - intros x Hx. apply path_eqb_eq in Hx. rewrite Hx, Hr. reflexivity.
Qed.

(* and an earlier entry of a name that is named again later is never served *)
Lemma dedup_acc_in : forall es acc x, In x (dedup_acc es acc) -> In x acc \/ In x es.
Proof.
  induction es as [|e t IH]; intros acc x H; simpl in *; [left; assumption|].
  apply IH in H. destruct H as [H|H]; [|right; right; assumption].
  apply in_app_or in H. destruct H as [H|H].
  - apply filter_In in H. left. tauto.
  - simpl in H. destruct H as [->|[]]. right; left; reflexivity.
Qed.
