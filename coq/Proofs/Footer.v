(* C04 — totality of the footer parsers and of estargz.Open's decompressor selection (Model/Footer.v). *)
From Coq Require Import List ZArith NArith Bool Lia.
From SV Require Import Gen.Consts Model.Footer.
Import ListNotations.
Local Open Scope Z_scope.

Definition total {A} (r : outcome A) : Prop := r <> Panic /\ r <> OutOfFuel.

Lemma total_ok {A} (a : A) : total (Ok a). Proof. split; discriminate. Qed.
Lemma total_err {A} : total (@Err A). Proof. split; discriminate. Qed.
#[export] Hint Resolve total_ok total_err : c04.

Lemma zlen_nonneg {A} (l : list A) : 0 <= zlen l.
Proof. unfold zlen. lia. Qed.

Lemma sl_some {A} (l : list A) lo hi :
  0 <= lo -> lo <= hi -> hi <= zlen l -> exists x, sl l lo hi = Some x.
Proof.
  intros H1 H2 H3. unfold sl.
  destruct (0 <=? lo) eqn:E1; [|lia].
  destruct (lo <=? hi) eqn:E2; [|lia].
  destruct (hi <=? zlen l) eqn:E3; [|lia].
  simpl. eauto.
Qed.

Lemma sl_none_inv {A} (l : list A) lo hi :
  sl l lo hi = None -> ~ (0 <= lo /\ lo <= hi /\ hi <= zlen l).
Proof.
  intros H [H1 [H2 H3]]. destruct (sl_some l lo hi H1 H2 H3) as [x Hx]. congruence.
Qed.

Lemma sl_length {A} (l : list A) lo hi x :
  sl l lo hi = Some x -> zlen x = hi - lo.
Proof.
  unfold sl. destruct (0 <=? lo) eqn:E1; simpl; [|discriminate].
  destruct (lo <=? hi) eqn:E2; simpl; [|discriminate].
  destruct (hi <=? zlen l) eqn:E3; simpl; [|discriminate].
  intros H. inversion H; subst. unfold zlen in *.
  rewrite firstn_length, skipn_length. lia.
Qed.

Lemma ix_some {A} (l : list A) i : 0 <= i -> i < zlen l -> exists x, ix l i = Some x.
Proof.
  intros H1 H2. unfold ix.
  destruct (0 <=? i) eqn:E1; [|lia]. destruct (i <? zlen l) eqn:E2; [|lia]. simpl.
  destruct (nth_error l (Z.to_nat i)) eqn:E; eauto.
  apply nth_error_None in E. unfold zlen in H2. lia.
Qed.

Lemma pbind_total {A B} (o : option A) (f : A -> outcome B) :
  (exists a, o = Some a) -> (forall a, o = Some a -> total (f a)) -> total (pbind o f).
Proof. intros [a Ha] H. subst. simpl. auto. Qed.

Lemma offset_field_total (f : bytes) : zlen f = 22 -> total (offset_field f).
Proof.
  intros Hl. unfold offset_field.
  apply pbind_total. { apply sl_some; lia. }
  intros magic _. destruct (negb (bytes_eqb magic s_STARGZ)); auto with c04.
  apply pbind_total. { apply sl_some; lia. }
  intros hex _. destruct (parse_int16 hex); auto with c04.
Qed.

Lemma parse_footer_gzip_total p gz : total (parse_footer_gzip p gz).
Proof.
  unfold parse_footer_gzip.
  destruct (negb (zlen p =? c04_footer_size)); auto with c04.
  destruct gz as [|extra]; auto with c04.
  destruct (zlen extra <? 4) eqn:E4; auto with c04.
  apply Z.ltb_ge in E4.
  apply pbind_total. { apply ix_some; lia. } intros si1 _.
  apply pbind_total. { apply ix_some; lia. } intros si2 _.
  apply pbind_total. { apply sl_some; lia. } intros sflen _.
  apply pbind_total. { apply sl_some; lia. } intros subfield _.
  destruct (negb (N.eqb si1 83 && N.eqb si2 71)); auto with c04.
  destruct (negb (le_uint sflen =? 22)); auto with c04.
  destruct (negb (zlen subfield =? 22)) eqn:E22; auto with c04.
  apply negb_false_iff, Z.eqb_eq in E22.
  apply offset_field_total; assumption.
Qed.

Lemma parse_footer_legacy_total p gz : total (parse_footer_legacy p gz).
Proof.
  unfold parse_footer_legacy.
  destruct (negb (zlen p =? c04_legacy_footer_size)); auto with c04.
  destruct gz as [|extra]; auto with c04.
  destruct (negb (zlen extra =? 22)) eqn:E22; auto with c04.
  apply negb_false_iff, Z.eqb_eq in E22.
  apply offset_field_total; assumption.
Qed.

Lemma parse_footer_ext_total p gz : total (parse_footer_ext p gz).
Proof.
  unfold parse_footer_ext.
  destruct (negb (zlen p =? c04_ext_footer_size)); auto with c04.
  destruct gz as [|extra]; auto with c04.
  destruct (zlen extra <? 4) eqn:E4; auto with c04.
  apply Z.ltb_ge in E4.
  apply pbind_total. { apply ix_some; lia. } intros si1 _.
  apply pbind_total. { apply ix_some; lia. } intros si2 _.
  apply pbind_total. { apply sl_some; lia. } intros sflen _.
  apply pbind_total. { apply sl_some; lia. } intros subfield _.
  destruct (negb (N.eqb si1 83 && N.eqb si2 71)); auto with c04.
  destruct (negb (le_uint sflen =? 17)); auto with c04.
  destruct (negb (bytes_eqb subfield s_EXT)); auto with c04.
Qed.

Lemma parse_footer_zstd_total p : total (parse_footer_zstd p).
Proof.
  unfold parse_footer_zstd.
  destruct (zlen p <? c04_zstd_footer_size) eqn:E; auto with c04.
  apply Z.ltb_ge in E. unfold c04_zstd_footer_size in E.
  apply pbind_total. { apply sl_some; lia. } intros o8 _.
  apply pbind_total. { apply sl_some; lia. } intros l8 _.
  apply pbind_total. { apply sl_some; lia. } intros mg _.
  destruct (negb (bytes_eqb zstd_magic mg)); auto with c04.
Qed.

Lemma parse_footer_total d p gz : total (parse_footer d p gz).
Proof.
  destruct d; simpl.
  - apply parse_footer_gzip_total.
  - apply parse_footer_legacy_total.
  - apply parse_footer_zstd_total.
  - apply parse_footer_ext_total.
Qed.

(* ---- Open ---- *)

Lemma open_loop_total size footer gzs toc ds : forall i, total (open_loop size footer gzs toc ds i).
Proof.
  induction ds as [|d t IH]; intros i; simpl; auto with c04.
  pose proof (zlen_nonneg footer) as Hn.
  assert (Hp : 0 <= positive (zlen footer - footer_size d) <= zlen footer).
  { unfold positive. destruct (zlen footer - footer_size d <? 0) eqn:E.
    - lia.
    - apply Z.ltb_ge in E. destruct d; unfold footer_size, c04_footer_size, c04_legacy_footer_size, c04_zstd_footer_size, c04_ext_footer_size in *; lia. }
  apply pbind_total. { apply sl_some; lia. } intros maybe_toc Hmt.
  apply pbind_total. { apply sl_some; lia. } intros p _.
  pose proof (parse_footer_total d p (gzs d)) as [Hpf1 Hpf2].
  destruct (parse_footer d p (gzs d)) as [[[bps toc_off] toc_size0]| | |]; try congruence; auto.
  set (toc_size := if (0 <=? toc_off) && (toc_size0 <=? 0) then size - toc_off - footer_size d else toc_size0).
  destruct ((0 <=? toc_off) && ((toc_size <? 0) || (size - toc_off <? toc_size))) eqn:Erange; auto.
  apply pbind_total.
  - destruct ((0 <=? toc_off) && (toc_size <? zlen maybe_toc)) eqn:Ec; [|eauto].
    apply andb_true_iff in Ec. destruct Ec as [Ec1 Ec2].
    rewrite Ec1 in Erange. simpl in Erange. apply orb_false_iff in Erange. destruct Erange as [Er1 Er2].
    apply Z.ltb_ge in Er1. apply Z.ltb_lt in Ec2.
    apply sl_some; lia.
  - intros _ _. destruct (toc d); auto with c04.
Qed.

Lemma open_select_total size ext tocoff tail51 gzs toc :
  0 <= size -> total (open_select size ext tocoff tail51 gzs toc).
Proof.
  intros Hsize. unfold open_select.
  set (ds := decompressors ext).
  set (fetch0 := max_footer_size size ds 0).
  destruct ((fetch0 <? tocoff) && (size <? tocoff)) eqn:E1; auto with c04.
  assert (Hf0 : 0 <= fetch0).
  { unfold fetch0. clear.
    assert (G : forall ds r, 0 <= r -> 0 <= max_footer_size size ds r).
    { intros ds0. induction ds0 as [|d t IH]; intros r Hr.
      - simpl. exact Hr.
      - simpl. apply IH. destruct ((r <? footer_size d) && (footer_size d <=? size)) eqn:E; auto.
        apply andb_true_iff in E. destruct E as [E _]. apply Z.ltb_lt in E. lia. }
    apply G. lia. }
  set (fetch := if fetch0 <? tocoff then size - tocoff else fetch0).
  assert (Hfetch : 0 <= fetch).
  { unfold fetch. destruct (fetch0 <? tocoff) eqn:E2; auto.
    simpl in E1. apply Z.ltb_ge in E1. lia. }
  destruct (fetch <? 0) eqn:E3. { apply Z.ltb_lt in E3. lia. }
  destruct ((size <? fetch) || (fetch =? 0)); auto with c04.
  apply open_loop_total.
Qed.
