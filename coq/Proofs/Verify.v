(* Proofs about Model/Verify.v (property C01). *)
From Coq Require Import List NArith ZArith Bool Lia.
From SV Require Import Model.Verify.
Import ListNotations.
Local Open Scope Z_scope.

Arguments good : simpl never.
Arguments recorded : simpl never.
Arguments check : simpl never.

Ltac brk := repeat (simpl; match goal with
  | |- context [if ?x then _ else _] => destruct x eqn:?
  | |- context [match chunk_at ?a ?b ?c with _ => _ end] => destruct (chunk_at a b c) eqn:?
  | |- context [match nth_error ?a ?b with _ => _ end] => destruct (nth_error a b) eqn:?
  | |- context [match get ?a ?b with _ => _ end] => destruct (get a b) eqn:?
  | |- context [let (_, _) := ?p in _] => destruct p
  end); simpl.

(* ---------- generic list facts ---------- *)

Lemma Forall_remove_nth {A} (P : A -> Prop) (l : list A) n : Forall P l -> Forall P (remove_nth l n).
Proof.
  revert n. induction l as [|a l IH]; intros n Hf; simpl.
  - destruct n; constructor.
  - inversion Hf as [|? ? Ha Hl]; subst. destruct n; simpl; auto.
Qed.

Lemma Forall_upd_nth {A} (P : A -> Prop) (l : list A) n x : Forall P l -> P x -> Forall P (upd_nth l n x).
Proof.
  revert n. induction l as [|a l IH]; intros n Hf Hx; simpl.
  - destruct n; constructor.
  - inversion Hf as [|? ? Ha Hl]; subst. destruct n; simpl; auto.
Qed.

Lemma Forall_filter {A} (P : A -> Prop) f (l : list A) : Forall P l -> Forall P (filter f l).
Proof.
  induction l as [|a l IH]; intros Hf; simpl; auto.
  inversion Hf; subst. destruct (f a); auto.
Qed.

Lemma key_eqb_eq a b : key_eqb a b = true -> a = b.
Proof.
  destruct a as [[f o] z], b as [[f' o'] z']. unfold key_eqb.
  rewrite !andb_true_iff. intros [[Hf Ho] Hz].
  apply N.eqb_eq in Hf. apply Z.eqb_eq in Ho. apply Z.eqb_eq in Hz. subst. reflexivity.
Qed.

Lemma get_In c k b : get c k = Some b -> In (k, b) c.
Proof.
  induction c as [|[k' b'] c IH]; simpl; [discriminate|].
  destruct (key_eqb k' k) eqn:E.
  - intros Hs. inversion Hs; subst. apply key_eqb_eq in E. subst. auto.
  - intros Hs. auto.
Qed.

Lemma search_nth cs off i j c : search cs off i = Some (j, c) -> exists m, j = (i + m)%nat /\ nth_error cs m = Some c.
Proof.
  revert i. induction cs as [|a cs IH]; intros i; simpl; [discriminate|].
  destruct ((off <=? c_off a) || ((c_off a <? off) && (off <? c_off a + c_size a))).
  - intros Hs. inversion Hs; subst. exists O. split; [lia|reflexivity].
  - intros Hs. apply IH in Hs. destruct Hs as [m [Hj Hn]]. exists (S m). split; [lia|exact Hn].
Qed.

Lemma chunk_for_at T f off i c : chunk_for T f off = Some (i, c) -> chunk_at T f i = Some c.
Proof.
  unfold chunk_for, chunk_at.
  destruct (file_chunks T f) as [|a [|a' l]] eqn:E.
  - discriminate.
  - destruct (c_size a <=? off); [discriminate|]. intros Hs. inversion Hs; subst. reflexivity.
  - intros Hs. apply search_nth in Hs. destruct Hs as [m [Hj Hn]]. simpl in Hj. subst. exact Hn.
Qed.

(* ---------- the model with an arbitrary hash function ---------- *)

Section WithHash.
Variable H : bytes -> digest.

Definition Good (T : toc) (k : key) (b : bytes) : Prop := good H T k b = true.

(* a byte string that is a concatenation of whole chunks of file f, each hashing to a digest recorded for it *)
Inductive goodcat (T : toc) (f : N) : bytes -> Prop :=
| gc_nil : goodcat T f []
| gc_app acc c i b : goodcat T f acc -> chunk_at T f i = Some c -> Good T (key_of f c) b -> goodcat T f (acc ++ b).

Definition kfile (k : key) : N := fst (fst k).
Definition all_good (T : toc) (l : list (key * bytes)) : Prop := Forall (fun kb => goodcat T (kfile (fst kb)) (snd kb)) l.
Definition merges_good (T : toc) (l : list (N * bytes)) : Prop := Forall (fun fb => goodcat T (fst fb) (snd fb)) l.

Lemma goodcat_one T f i c b : chunk_at T f i = Some c -> Good T (key_of f c) b -> goodcat T f b.
Proof. intros Hc Hg. change b with ([] ++ b). eapply gc_app; eauto. constructor. Qed.

Lemma goodcat_app T f a b : goodcat T f a -> goodcat T f b -> goodcat T f (a ++ b).
Proof.
  intros Ha Hb. induction Hb as [|acc c i b0 Hacc IH Hc Hg]; [rewrite app_nil_r; exact Ha|].
  rewrite app_assoc. eapply gc_app; eauto.
Qed.

Lemma good_chunk T f o z b : good H T (f, o, z) b = true -> exists i c, chunk_at T f i = Some c /\ key_of f c = (f, o, z).
Proof.
  unfold good, recorded. intros Hg. apply existsb_exists in Hg. destruct Hg as [c [Hin Hc]].
  apply In_nth_error in Hin. destruct Hin as [i Hi]. exists i, c. split; [exact Hi|].
  apply andb_true_iff in Hc. destruct Hc as [Hc _]. apply andb_true_iff in Hc. destruct Hc as [Ho Hz].
  apply Z.eqb_eq in Ho. apply Z.eqb_eq in Hz. unfold key_of. congruence.
Qed.

Lemma good_goodcat T k b : good H T k b = true -> goodcat T (kfile k) b.
Proof.
  destruct k as [[f o] z]. intros Hg. destruct (good_chunk T f o z b Hg) as [i [c [Hc Hk]]].
  simpl. apply (goodcat_one T f i c b Hc). unfold Good. rewrite Hk. exact Hg.
Qed.

Lemma check_good T pre f i c b : chunk_at T f i = Some c -> check H pre c b = true -> Good T (key_of f c) b.
Proof.
  unfold chunk_at, check, Good, good, recorded, key_of. intros Hn Hc.
  apply existsb_exists. exists c. split; [eapply nth_error_In; eauto|].
  rewrite !Z.eqb_refl. simpl. destruct pre; rewrite Hc; auto using orb_true_r.
Qed.

(* --- fields that never change / only grow --- *)

Lemma step_toc s o : s_toc (fst (step H s o)) = s_toc s /\ s_tocd (fst (step H s o)) = s_tocd s.
Proof.
  destruct o; unfold step, verify_toc; brk; auto.
Qed.

Lemma exec_toc os s : s_toc (exec H s os) = s_toc s /\ s_tocd (exec H s os) = s_tocd s.
Proof.
  revert s. induction os as [|o os IH]; intros s; simpl; auto.
  destruct (IH (fst (step H s o))) as [A B]. destruct (step_toc s o) as [C D]. split; congruence.
Qed.

Lemma step_mono s o :
  (s_lasterr s = true -> s_lasterr (fst (step H s o)) = true) /\
  (s_tainted s = true -> s_tainted (fst (step H s o)) = true) /\
  (s_verify s = true -> s_verify (fst (step H s o)) = true) /\
  (s_decided s = true -> s_decided (fst (step H s o)) = true).
Proof.
  destruct o; unfold step, verify_toc; brk; repeat split; intros; try congruence; auto.
  all: try match goal with Ht : s_tainted _ = true |- _ => rewrite Ht; reflexivity end.
Qed.

(* the RW-lock handshake, part 1: once the decision is taken, lastVerifyErr cannot change any more, so the
   value VerifyTOC read inside its lock section is the value at any later time *)
Lemma last_err_frozen s o : s_decided s = true -> s_lasterr (fst (step H s o)) = s_lasterr s.
Proof.
  intros Hd. destruct o; unfold step, verify_toc; brk; try congruence; auto.
Qed.

Lemma exec_mono os s :
  (s_lasterr s = true -> s_lasterr (exec H s os) = true) /\
  (s_tainted s = true -> s_tainted (exec H s os) = true) /\
  (s_verify s = true -> s_verify (exec H s os) = true) /\
  (s_decided s = true -> s_decided (exec H s os) = true).
Proof.
  revert s. induction os as [|o os IH]; intros s; simpl; [tauto|].
  destruct (IH (fst (step H s o))) as [A [B [C D]]]. destruct (step_mono s o) as [A' [B' [C' D']]].
  repeat split; auto.
Qed.

(* --- main invariant --- *)

Definition Inv (s : st) : Prop :=
  (s_verify s = true -> s_decided s = true /\ s_lasterr s = false) /\
  (s_tainted s = false -> s_lasterr s = false ->
     all_good (s_toc s) (s_cache s) /\ all_good (s_toc s) (s_pend s) /\ merges_good (s_toc s) (s_merge s)).

Lemma Inv_init T d : Inv (init T d).
Proof. split; simpl; [discriminate|]. intros _ _. repeat split; constructor. Qed.

Lemma all_good_app T l kb : all_good T l -> goodcat T (kfile (fst kb)) (snd kb) -> all_good T (l ++ [kb]).
Proof. intros A B. apply Forall_app. split; auto. Qed.

Lemma Inv_same s s' : Inv s ->
  s_toc s' = s_toc s -> s_cache s' = s_cache s -> s_pend s' = s_pend s -> s_merge s' = s_merge s ->
  s_tainted s' = s_tainted s -> s_lasterr s' = s_lasterr s ->
  (s_verify s' = true -> s_decided s' = true /\ s_lasterr s' = false) -> Inv s'.
Proof.
  intros [I1 I2] Et Ec Ep Em En El Hv. split; auto. rewrite Et, Ec, Ep, Em, En, El. exact I2.
Qed.

Lemma Inv_decisions s o : Inv s ->
  match o with Decide | VerifyTOC _ | SkipVerify | LVerify _ | LSkip => True | _ => False end ->
  Inv (fst (step H s o)).
Proof.
  intros Hi Ho. pose proof Hi as [I1 I2].
  destruct o; try contradiction; apply (Inv_same s); auto; unfold step, verify_toc; brk; auto;
    intros Hv; try (destruct (I1 Hv); split; congruence); try (split; congruence).
Qed.

Lemma Inv_step s o : Inv s -> Inv (fst (step H s o)).
Proof.
  intros Hi. pose proof Hi as [I1 I2].
  destruct o; try (apply Inv_decisions; [exact Hi|exact I]); simpl.
  - (* PfCheck *)
    destruct (chunk_at (s_toc s) f i) as [c|] eqn:Ec; simpl; [|exact Hi].
    destruct (check H pre c b) eqn:Ek; simpl.
    + split; simpl; [exact I1|]. intros Ht Hl. destruct (I2 Ht Hl) as [A [B C]]. split; [exact A|split; [|exact C]].
      apply all_good_app; [exact B|]. simpl. apply (goodcat_one (s_toc s) f i c b Ec). eapply check_good; eauto.
    + destruct (s_decided s) eqn:Ed; simpl; [exact Hi|].
      split; simpl.
      * intros Hv. destruct (I1 Hv). congruence.
      * intros _ Hx. discriminate Hx.
  - (* OdCheck *)
    destruct (chunk_at (s_toc s) f i) as [c|] eqn:Ec; simpl; [|exact Hi].
    destruct (s_handle s); simpl; [|exact Hi].
    destruct (s_verify s) eqn:Ev; simpl.
    + destruct (check H pre c b) eqn:Ek; simpl; [|exact Hi].
      split; simpl; [intros _; apply I1; reflexivity|]. intros Ht Hl. destruct (I2 Ht Hl) as [A [B C]].
      split; [exact A|split; [|exact C]].
      apply all_good_app; [exact B|]. simpl. apply (goodcat_one (s_toc s) f i c b Ec). eapply check_good; eauto.
    + split; simpl; [intros Hv; congruence|]. intros Ht Hl. apply orb_false_iff in Ht. destruct Ht as [Ht Hg].
      destruct (I2 Ht Hl) as [A [B C]]. split; [exact A|split; [|exact C]]. apply all_good_app; [exact B|]. simpl.
      apply (goodcat_one (s_toc s) f i c b Ec).
      unfold Good. destruct (good H (s_toc s) (key_of f c) b); [reflexivity|discriminate].
  - (* Commit *)
    destruct (nth_error (s_pend s) i) as [kb|] eqn:En; simpl; [|exact Hi].
    split; simpl; [exact I1|]. intros Ht Hl. destruct (I2 Ht Hl) as [A [B C]]. split; [|split; [|exact C]].
    + constructor; [|exact A]. apply nth_error_In in En. unfold all_good in B. rewrite Forall_forall in B. apply B; auto.
    + apply Forall_remove_nth; auto.
  - (* Evict *)
    split; simpl; [exact I1|]. intros Ht Hl. destruct (I2 Ht Hl) as [A [B C]]. split; [|split; [exact B|exact C]].
    apply Forall_filter; auto.
  - (* MgStart *)
    destruct (negb (s_handle s)); simpl; [exact Hi|].
    split; simpl; [exact I1|]. intros Ht Hl. destruct (I2 Ht Hl) as [A [B C]]. split; [exact A|split; [exact B|]].
    apply Forall_app. split; [exact C|]. constructor; [|constructor]. simpl. constructor.
  - (* MgHit *)
    destruct (nth_error (s_merge s) m) as [[f acc]|] eqn:Em; simpl; [|exact Hi].
    destruct (chunk_at (s_toc s) f i) as [c|] eqn:Ec; simpl; [|exact Hi].
    destruct (get (s_cache s) (key_of f c)) as [b|] eqn:Eg; simpl; [|exact Hi].
    destruct (zlen b =? c_size c); simpl; [|exact Hi].
    split; simpl; [exact I1|]. intros Ht Hl. destruct (I2 Ht Hl) as [A [B C]]. split; [exact A|split; [exact B|]].
    apply Forall_upd_nth; [exact C|]. simpl. apply goodcat_app.
    + apply nth_error_In in Em. unfold merges_good in C. rewrite Forall_forall in C. apply (C _ Em).
    + apply get_In in Eg. unfold all_good in A. rewrite Forall_forall in A. apply (A _ Eg).
  - (* MgFetch *)
    destruct (nth_error (s_merge s) m) as [[f acc]|] eqn:Em; simpl; [|exact Hi].
    destruct (chunk_at (s_toc s) f i) as [c|] eqn:Ec; simpl; [|exact Hi].
    destruct (s_handle s); simpl; [|exact Hi].
    destruct (s_verify s) eqn:Ev; simpl.
    + destruct (check H false c b) eqn:Ek; simpl; [|exact Hi].
      split; simpl; [intros _; apply I1; reflexivity|]. intros Ht Hl. destruct (I2 Ht Hl) as [A [B C]].
      split; [exact A|split; [exact B|]]. apply Forall_upd_nth; [exact C|]. simpl.
      eapply gc_app; eauto.
      * apply nth_error_In in Em. unfold merges_good in C. rewrite Forall_forall in C. apply (C _ Em).
      * eapply check_good; eauto.
    + split; simpl; [intros Hv; congruence|]. intros Ht Hl. apply orb_false_iff in Ht. destruct Ht as [Ht Hg].
      destruct (I2 Ht Hl) as [A [B C]]. split; [exact A|split; [exact B|]]. apply Forall_upd_nth; [exact C|]. simpl.
      eapply gc_app; eauto.
      * apply nth_error_In in Em. unfold merges_good in C. rewrite Forall_forall in C. apply (C _ Em).
      * unfold Good. destruct (good H (s_toc s) (key_of f c) b); [reflexivity|discriminate].
  - (* MgCommit *)
    destruct (nth_error (s_merge s) m) as [[f acc]|] eqn:Em; simpl; [|exact Hi].
    split; simpl; [exact I1|]. intros Ht Hl. destruct (I2 Ht Hl) as [A [B C]]. split; [|split; [exact B|]].
    + constructor; [|exact A]. simpl. apply nth_error_In in Em. unfold merges_good in C. rewrite Forall_forall in C. apply (C _ Em).
    + apply Forall_remove_nth; auto.
  - (* MgAbort *)
    split; simpl; [exact I1|]. intros Ht Hl. destruct (I2 Ht Hl) as [A [B C]]. split; [exact A|split; [exact B|]].
    apply Forall_remove_nth; auto.
Qed.

Lemma Inv_exec os s : Inv s -> Inv (exec H s os).
Proof. revert s. induction os as [|o os IH]; intros s Hi; simpl; auto. apply IH. apply Inv_step; auto. Qed.

Lemma reach_inv T d os : Inv (exec H (init T d) os).
Proof. apply Inv_exec. apply Inv_init. Qed.

(* every cached or pending chunk of an untainted reader without recorded verification failure is good *)
Lemma cache_ok T d os k b :
  let s := exec H (init T d) os in
  s_tainted s = false -> s_lasterr s = false -> In (k, b) (s_cache s ++ s_pend s) -> goodcat T (kfile k) b.
Proof.
  intros s Ht Hl Hin. destruct (reach_inv T d os) as [_ I2]. fold s in I2.
  destruct (I2 Ht Hl) as [A [B _]]. destruct (exec_toc os (init T d)) as [Et _]. fold s in Et. simpl in Et.
  rewrite Et in A, B. unfold all_good in A, B. rewrite Forall_forall in A, B.
  apply in_app_or in Hin. destruct Hin as [Hin|Hin]; [apply (A _ Hin)|apply (B _ Hin)].
Qed.

Lemma verified_cache_ok T d os k b :
  let s := exec H (init T d) os in
  s_verify s = true -> s_tainted s = false -> In (k, b) (s_cache s ++ s_pend s) -> goodcat T (kfile k) b.
Proof.
  intros s Hv Ht Hin. destruct (reach_inv T d os) as [I1 _]. fold s in I1. destruct (I1 Hv) as [_ Hl].
  eapply cache_ok; eauto.
Qed.

(* the same for the bytes a passthrough merge has written so far *)
Lemma merge_ok T d os f b :
  let s := exec H (init T d) os in
  s_tainted s = false -> s_lasterr s = false -> In (f, b) (s_merge s) -> goodcat T f b.
Proof.
  intros s Ht Hl Hin. destruct (reach_inv T d os) as [_ I2]. fold s in I2.
  destruct (I2 Ht Hl) as [_ [_ C]]. destruct (exec_toc os (init T d)) as [Et _]. fold s in Et. simpl in Et.
  rewrite Et in C. unfold merges_good in C. rewrite Forall_forall in C. apply (C _ Hin).
Qed.

(* --- verification decisions --- *)

Lemma verify_toc_ok s d : snd (verify_toc s d) = OOk ->
  s_tocd s = d /\ s_lasterr s = false /\ s_verify (fst (verify_toc s d)) = true /\
  s_decided (fst (verify_toc s d)) = true /\ s_lasterr (fst (verify_toc s d)) = false /\
  s_handle (fst (verify_toc s d)) = true.
Proof.
  unfold verify_toc; simpl. destruct (s_lasterr s) eqn:El; simpl; [discriminate|].
  destruct (s_tocd s =? d)%N eqn:Ed; simpl; [|discriminate]. apply N.eqb_eq in Ed. intros _. auto 10.
Qed.

Lemma verify_pins s d o : (o = VerifyTOC d \/ o = LVerify d) -> snd (step H s o) = OOk ->
  s_tocd s = d /\ s_lasterr s = false /\ s_verify (fst (step H s o)) = true /\ s_lasterr (fst (step H s o)) = false.
Proof.
  intros [-> | ->]; simpl.
  - intros Ho. destruct (verify_toc_ok s d Ho) as [A [B [C [D [E F]]]]]. auto.
  - destruct (s_lr s).
    + intros Ho. destruct (verify_toc_ok s d Ho) as [A [B [C [D [E F]]]]]. auto.
    + destruct (snd (verify_toc s d)) eqn:Ev; simpl.
      * intros _. destruct (verify_toc_ok s d Ev) as [A [B [C [D [E F]]]]]. auto.
      * rewrite Ev. discriminate.
      * rewrite Ev. discriminate.
Qed.

Lemma mount_pins_toc T D os d o : (o = VerifyTOC d \/ o = LVerify d) ->
  let s := exec H (init T D) os in
  snd (step H s o) = OOk ->
  d = D /\ s_verify (fst (step H s o)) = true /\ s_lasterr (fst (step H s o)) = false.
Proof.
  intros Ho s Hr. destruct (verify_pins s d o Ho Hr) as [A [B [C E]]].
  destruct (exec_toc os (init T D)) as [_ Et]. fold s in Et. simpl in Et. split; [congruence|auto].
Qed.

(* the digest a verification pins is the hash of the whole TOC stream the chunk tables were decoded from *)
Lemma toc_digest_covers_stream dec stream s0 os d o : (o = VerifyTOC d \/ o = LVerify d) ->
  open_layer H dec stream = Some s0 ->
  snd (step H (exec H s0 os) o) = OOk ->
  d = H stream /\ dec stream = Some (s_toc (exec H s0 os)).
Proof.
  unfold open_layer. intros Ho Hop Hr. destruct (dec stream) as [T|] eqn:Ed; [|discriminate Hop].
  inversion Hop; subst s0. destruct (mount_pins_toc T (H stream) os d o Ho Hr) as [A _].
  split; [exact A|]. destruct (exec_toc os (init T (H stream))) as [Et _]. rewrite Et. reflexivity.
Qed.

(* a reader cloned onto a new section reader (background fetch, Cache(WithReader)) works with tables decoded from a
   TOC stream that hashes to the digest of the TOC the layer was opened with - hence, after any successful
   verification with d anywhere in the history, to d *)
Lemma clone_pins_toc dec stream s0 os stream' T' :
  open_layer H dec stream = Some s0 ->
  clone_layer H dec (exec H s0 os) stream' = Some T' ->
  H stream' = H stream /\ dec stream' = Some T' /\
  (forall d o, (o = VerifyTOC d \/ o = LVerify d) -> snd (step H (exec H s0 os) o) = OOk -> H stream' = d) /\
  ((forall x y, H x = H y -> dec x = dec y) -> T' = s_toc (exec H s0 os)).
Proof.
  unfold open_layer, clone_layer. intros Hop Hc. destruct (dec stream) as [T|] eqn:Ed; [|discriminate Hop].
  inversion Hop; subst s0. destruct (exec_toc os (init T (H stream))) as [Et Etd]. simpl in Et, Etd.
  rewrite Etd in Hc. destruct (H stream' =? H stream)%N eqn:Eh; [|discriminate Hc]. apply N.eqb_eq in Eh.
  split; [exact Eh|]. split; [exact Hc|]. split.
  - intros d o Ho Hr. destruct (mount_pins_toc T (H stream) os d o Ho Hr) as [A _]. congruence.
  - intros Hinj. rewrite Et. specialize (Hinj _ _ Eh). congruence.
Qed.

(* sticky error: once a prefetch recorded a verification failure, no verification can succeed any more *)
Lemma sticky s os d o : (o = VerifyTOC d \/ o = LVerify d) -> s_lasterr s = true -> snd (step H (exec H s os) o) = OErr.
Proof.
  intros Ho Hl. destruct (exec_mono os s) as [A _]. specialize (A Hl).
  assert (Hv : snd (verify_toc (exec H s os) d) = OErr) by (unfold verify_toc; simpl; rewrite A; reflexivity).
  destruct Ho as [-> | ->]; simpl; auto.
  destruct (s_lr (exec H s os)); auto. rewrite Hv. exact Hv.
Qed.

(* the handshake, part 2: an altered chunk that a prefetch put (or is about to put) in the cache of a reader not
   tainted by unverified reads has made lastVerifyErr sticky: every present and future verification fails *)
Lemma handshake T D os k b os' d o : (o = VerifyTOC d \/ o = LVerify d) ->
  let s := exec H (init T D) os in
  s_tainted s = false -> In (k, b) (s_cache s ++ s_pend s) -> ~ goodcat T (kfile k) b ->
  snd (step H (exec H s os') o) = OErr.
Proof.
  intros Ho s Ht Hin Hb. apply (sticky s os' d o Ho).
  destruct (s_lasterr s) eqn:El; auto.
  exfalso. apply Hb. exact (cache_ok T D os k b Ht El Hin).
Qed.

(* a failing step changes neither the cache nor the pending writers *)
Lemma failed_step_no_residue s o : snd (step H s o) = OErr ->
  s_cache (fst (step H s o)) = s_cache s /\ s_pend (fst (step H s o)) = s_pend s.
Proof.
  destruct o; unfold step, verify_toc; brk; intros; try discriminate; auto.
Qed.

(* --- histories without skip-verify --- *)

Definition is_skip (o : op) : bool := match o with SkipVerify | LSkip => true | _ => false end.

Definition NoSkipSt (s : st) : Prop := (s_handle s = true -> s_verify s = true) /\ s_tainted s = false.

Lemma NoSkip_step s o : is_skip o = false -> NoSkipSt s -> NoSkipSt (fst (step H s o)).
Proof.
  intros Ho [N1 N2]. destruct o; simpl in Ho; try discriminate; unfold step, verify_toc; brk;
    split; simpl; auto; try congruence.
  all: try match goal with
           | Hn : negb (s_handle ?s) = false, N : s_handle ?s = true -> _ = true |- _ =>
               apply negb_false_iff in Hn; specialize (N Hn); congruence
           end.
Qed.

Lemma NoSkip_exec os s : forallb (fun o => negb (is_skip o)) os = true -> NoSkipSt s -> NoSkipSt (exec H s os).
Proof.
  revert s. induction os as [|o os IH]; intros s Hf Hn; simpl; auto.
  simpl in Hf. apply andb_true_iff in Hf. destruct Hf as [Ho Hf]. apply negb_true_iff in Ho.
  apply IH; auto. apply NoSkip_step; auto.
Qed.

Lemma no_skip_untainted T D os : forallb (fun o => negb (is_skip o)) os = true ->
  let s := exec H (init T D) os in s_tainted s = false /\ (s_handle s = true -> s_verify s = true).
Proof.
  intros Hf s. destruct (NoSkip_exec os (init T D) Hf) as [A B]; [split; simpl; [discriminate|reflexivity]|]. auto.
Qed.

(* ---------- composites are schedules of atomic steps ---------- *)

Definition steps (s s' : st) : Prop := exists os, s' = exec H s os.

Lemma steps_refl s : steps s s. Proof. exists []. reflexivity. Qed.
Lemma steps_one s o : steps s (fst (step H s o)). Proof. exists [o]. reflexivity. Qed.
Lemma exec_app s a b : exec H s (a ++ b) = exec H (exec H s a) b.
Proof. unfold exec. apply fold_left_app. Qed.
Lemma steps_trans a b c : steps a b -> steps b c -> steps a c.
Proof. intros [x ->] [y ->]. exists (x ++ y). symmetry. apply exec_app. Qed.

Lemma pf_core_steps s pre f i b : steps s (fst (pf_core H s pre f i b)).
Proof.
  unfold pf_core. destruct (step H s (PfCheck pre f i b)) as [s1 r] eqn:E.
  assert (Hs : steps s s1) by (pose proof (steps_one s (PfCheck pre f i b)) as X; rewrite E in X; exact X).
  destruct r; cbn [fst]; auto.
  eapply steps_trans; [exact Hs|apply steps_one].
Qed.
Lemma od_core_steps s pre f i b : steps s (fst (od_core H s pre f i b)).
Proof.
  unfold od_core. destruct (step H s (OdCheck pre f i b)) as [s1 r] eqn:E.
  assert (Hs : steps s s1) by (pose proof (steps_one s (OdCheck pre f i b)) as X; rewrite E in X; exact X).
  destruct r; cbn [fst]; auto.
  eapply steps_trans; [exact Hs|apply steps_one].
Qed.

Lemma pre_reads_steps core l s :
  (forall s pre f i b, steps s (fst (core s pre f i b))) -> steps s (fst (pre_reads core s l)).
Proof.
  intros Hc. revert s. induction l as [|[[f i] pv] l IH]; intros s; simpl; [apply steps_refl|].
  destruct (cached s f i); [apply IH|].
  destruct pv; simpl; try apply steps_refl.
  destruct (core s true f i b) as [s1 r] eqn:E.
  assert (Hs : steps s s1) by (specialize (Hc s true f i b); rewrite E in Hc; exact Hc).
  destruct r; simpl; auto. eapply steps_trans; [exact Hs|apply IH].
Qed.

Lemma prefetch_chunk_steps s f i ft : steps s (fst (prefetch_chunk H s f i ft)).
Proof.
  unfold prefetch_chunk. destruct (chunk_at (s_toc s) f i); [|apply steps_refl].
  destruct (cached s f i); [apply steps_refl|]. destruct ft as [ft|]; [|apply steps_refl].
  destruct (pre_reads (pf_core H) s (f_pre ft)) as [s1 ok] eqn:E.
  assert (Hs : steps s s1).
  { pose proof (pre_reads_steps (pf_core H) (f_pre ft) s pf_core_steps) as P. rewrite E in P. exact P. }
  destruct ok; simpl; auto. destruct (f_main ft); simpl; auto.
  destruct (n <? c_size c); simpl; auto. eapply steps_trans; [exact Hs|apply pf_core_steps].
Qed.

Lemma cache_all_steps l s acc : steps s (fst (cache_all H s l acc)).
Proof.
  revert s acc. induction l as [|[[f i] ft] l IH]; intros s acc; simpl; [apply steps_refl|].
  destruct (prefetch_chunk H s f i ft) as [s1 r] eqn:E.
  assert (Hs : steps s s1) by (pose proof (prefetch_chunk_steps s f i ft) as P; rewrite E in P; exact P).
  eapply steps_trans; [exact Hs|apply IH].
Qed.

Lemma od_fetch_steps s ft : steps s (fst (od_fetch H s ft)).
Proof.
  unfold od_fetch. destruct (pre_reads (od_core H) s (f_pre ft)) as [s1 ok] eqn:E.
  assert (Hs : steps s s1).
  { pose proof (pre_reads_steps (od_core H) (f_pre ft) s od_core_steps) as P. rewrite E in P. exact P. }
  destruct ok; simpl; auto. destruct (f_main ft); simpl; auto.
Qed.

(* A general induction principle for file.ReadAt: a state property preserved by atomic steps and an accumulator
   property extended by pieces coming from cached or freshly checked chunks are preserved by the loop. *)
Section ReadLoop.
Variable P : st -> Prop.                       (* preserved by every atomic step *)
Variable Q : N -> st -> bytes -> Prop.         (* about the accumulated output *)
Hypothesis P_step : forall s o, P s -> P (fst (step H s o)).
Hypothesis Q_steps : forall f s s' acc, P s -> steps s s' -> Q f s acc -> Q f s' acc.
Hypothesis Q_hit : forall f s acc c i b lo n, P s -> Q f s acc ->
  chunk_at (s_toc s) f i = Some c -> get (s_cache s) (key_of f c) = Some b -> Q f s (acc ++ slice lo n b).
Hypothesis Q_miss : forall f s acc c i ip lo n, P s -> Q f s acc ->
  chunk_at (s_toc s) f i = Some c -> snd (od_core H s false f i ip) = OOk ->
  Q f (fst (od_core H s false f i ip)) (acc ++ slice lo n ip).

Lemma P_steps s s' : P s -> steps s s' -> P s'.
Proof.
  intros Hp [os ->]. revert s Hp. induction os as [|o os IH]; intros s Hp; simpl; auto.
Qed.

Ltac fin Hp := cbn [fst snd]; split; [exact Hp|split; [auto using steps_refl|]];
  try (intros out Ho; discriminate Ho);
  try (match goal with |- forall out, match ?fs with _ => _ end = _ -> _ => destruct fs; intros out Ho; try discriminate Ho end).

Lemma read_loop_ind fuel : forall s f off len nr acc fs,
  P s -> Q f s acc ->
  let r := read_loop H fuel s f off len nr acc fs in
  P (fst r) /\ steps s (fst r) /\ (forall out, snd r = ROk out -> Q f (fst r) out).
Proof.
  induction fuel as [|fuel IH]; intros s f off len nr acc fs Hp Hq; simpl.
  - fin Hp.
  - destruct (len <=? nr).
    { fin Hp. inversion Ho; subst; auto. }
    destruct (chunk_for (s_toc s) f (off + nr)) as [[i c]|] eqn:Ec.
    2:{ fin Hp. inversion Ho; subst; auto. }
    apply chunk_for_at in Ec.
    destruct ((c_off c <? 0) || (c_off c + c_size c <? c_off c) || (off + nr <? c_off c) || (c_off c + c_size c <=? off + nr)).
    { fin Hp. }
    set (lower := off + nr - c_off c). set (upper := positive (c_off c + c_size c - (off + len))).
    set (expected := c_size c - upper - lower).
    destruct ((expected <? 0) || (len <? nr + expected)).
    { fin Hp. }
    match goal with |- context [match ?h with Some piece => _ | None => _ end] =>
      destruct h as [piece|] eqn:Eh end.
    { (* served from the cache *)
      destruct (get (s_cache s) (key_of f c)) as [b|] eqn:Eg; [|discriminate Eh].
      destruct (zlen (slice lower expected b) =? expected); [|discriminate Eh].
      inversion Eh; subst piece. apply IH; auto. eapply Q_hit; eauto. }
    clear Eh.
    destruct fs as [|ft fs']; [fin Hp|].
    destruct (od_fetch H s ft) as [s1 [[n ip]|]] eqn:Ef.
    2:{ assert (Hs1 : steps s s1) by (pose proof (od_fetch_steps s ft) as X; rewrite Ef in X; exact X).
        destruct ((lower =? 0) && (upper =? 0)); [destruct (len <? nr + c_size c); [fin Hp|]|];
          fin (P_steps _ _ Hp Hs1). }
    assert (Hs1 : steps s s1) by (pose proof (od_fetch_steps s ft) as X; rewrite Ef in X; exact X).
    assert (Hp1 : P s1) by (eapply P_steps; eauto).
    assert (Et : s_toc s1 = s_toc s) by (destruct Hs1 as [os ->]; apply exec_toc).
    assert (Ec1 : chunk_at (s_toc s1) f i = Some c) by (rewrite Et; exact Ec).
    pose proof (Q_steps f s s1 acc Hp Hs1 Hq) as Hq1.
    destruct ((lower =? 0) && (upper =? 0)).
    + destruct (len <? nr + c_size c); [fin Hp|].
      destruct (od_core H s1 false f i ip) as [s2 r] eqn:Eo.
      assert (Hs2 : steps s1 s2) by (pose proof (od_core_steps s1 false f i ip) as X; rewrite Eo in X; exact X).
      assert (Hs02 : steps s s2) by (eapply steps_trans; eauto).
      assert (Hp2 : P s2) by (eapply P_steps; eauto).
      destruct r; [|fin Hp2|fin Hp2].
      destruct (n =? 0).
      * fin Hp2. inversion Ho; subst. eapply Q_steps; [exact Hp1|exact Hs2|exact Hq1].
      * assert (Hq2 : Q f s2 (acc ++ slice 0 n ip)).
        { pose proof (Q_miss f s1 acc c i ip 0 n Hp1 Hq1 Ec1) as X. rewrite Eo in X. apply X. reflexivity. }
        destruct (IH s2 f off len (nr + n) (acc ++ slice 0 n ip) fs' Hp2 Hq2) as [A [B C]].
        split; [exact A|split; [eapply steps_trans; eauto|exact C]].
    + destruct (od_core H s1 false f i ip) as [s2 r] eqn:Eo.
      assert (Hs2 : steps s1 s2) by (pose proof (od_core_steps s1 false f i ip) as X; rewrite Eo in X; exact X).
      assert (Hs02 : steps s s2) by (eapply steps_trans; eauto).
      assert (Hp2 : P s2) by (eapply P_steps; eauto).
      destruct r; [|fin Hp2|fin Hp2].
      destruct (zlen (slice lower expected ip) =? expected); [|fin Hp2].
      assert (Hq2 : Q f s2 (acc ++ slice lower expected ip)).
      { pose proof (Q_miss f s1 acc c i ip lower expected Hp1 Hq1 Ec1) as X. rewrite Eo in X. apply X. reflexivity. }
      destruct (IH s2 f off len (nr + expected) (acc ++ slice lower expected ip) fs' Hp2 Hq2) as [A [B C]].
      split; [exact A|split; [eapply steps_trans; eauto|exact C]].
Qed.
End ReadLoop.

Lemma read_at_steps s f off len fs : steps s (fst (read_at H s f off len fs)).
Proof.
  unfold read_at. destruct (negb (s_handle s)); [apply steps_refl|].
  refine (proj1 (proj2 (read_loop_ind (fun _ => True) (fun _ _ _ => True) _ _ _ _ _ s f off len 0 [] fs I I))); auto.
Qed.

Lemma merge_loop_steps m seq fts cs : forall s, steps s (fst (merge_loop H s m seq cs fts)).
Proof.
  induction cs as [|[i c] cs IH]; intros s; [apply steps_refl|].
  cbn [merge_loop].
  destruct (step H s (MgHit m i)) as [s1 r] eqn:E.
  assert (Hs1 : steps s s1) by (pose proof (steps_one s (MgHit m i)) as X; rewrite E in X; exact X).
  assert (Hmiss : steps s (fst match find_fetch fts i with
            | Some ft =>
                let (s2, o) := od_fetch H s1 ft in
                match o with
                | Some (n, ip) =>
                    if negb seq && negb (n =? c_size c) then (s2, RErr)
                    else let '(s3, r3) := step H s2 (MgFetch m i ip) in
                         match r3 with OOk => merge_loop H s3 m seq cs fts | _ => (s3, RErr) end
                | None => (s2, RErr)
                end
            | None => (s1, RDesync)
            end)).
  { destruct (find_fetch fts i) as [ft|]; [|exact Hs1].
    destruct (od_fetch H s1 ft) as [s2 [[n ip]|]] eqn:Ef;
      assert (Hs2 : steps s1 s2) by (pose proof (od_fetch_steps s1 ft) as X; rewrite Ef in X; exact X);
      [|eapply steps_trans; eauto].
    destruct (negb seq && negb (n =? c_size c)); [eapply steps_trans; eauto|].
    destruct (step H s2 (MgFetch m i ip)) as [s3 r3] eqn:E3.
    assert (Hs3 : steps s2 s3) by (pose proof (steps_one s2 (MgFetch m i ip)) as X; rewrite E3 in X; exact X).
    assert (Hs03 : steps s s3) by (eapply steps_trans; [exact Hs1|eapply steps_trans; eauto]).
    destruct r3; try exact Hs03. eapply steps_trans; [exact Hs03|apply IH]. }
  destruct r; try exact Hmiss. eapply steps_trans; [exact Hs1|apply IH].
Qed.

Lemma pass_fd_steps s f buf fts : steps s (fst (pass_fd H s f buf fts)).
Proof.
  unfold pass_fd. destruct (negb (s_handle s)); [apply steps_refl|].
  destruct (enum_chunks _ _ _ _) as [cs|]; [|apply steps_refl].
  destruct (get (s_cache s) (f, 0, sum_sizes cs)); [apply steps_refl|].
  destruct (step H s (MgStart f)) as [s0 r0] eqn:E0.
  assert (Hs0 : steps s s0) by (pose proof (steps_one s (MgStart f)) as X; rewrite E0 in X; exact X).
  match goal with |- context [merge_loop H s0 ?m ?q cs fts] =>
    pose proof (merge_loop_steps m q fts cs s0) as Hm; destruct (merge_loop H s0 m q cs fts) as [s1 r] end.
  cbn [fst] in Hm.
  destruct r; cbn [fst]; (eapply steps_trans; [exact Hs0|eapply steps_trans; [exact Hm|apply steps_one]]).
Qed.

Lemma hstep_steps s h : steps s (fst (hstep H s h)).
Proof.
  destruct h; unfold hstep.
  1-4, 11: match goal with
          | |- context [step H ?s0 ?o] => pose proof (steps_one s0 o) as X; destruct (step H s0 o) as [s1 r]; exact X
          end.
  - pose proof (prefetch_chunk_steps s f i ft) as X. destruct (prefetch_chunk H s f i ft). exact X.
  - pose proof (cache_all_steps l s OOk) as X. destruct (cache_all H s l OOk). exact X.
  - pose proof (read_at_steps s f off len fs) as X. destruct (read_at H s f off len fs). exact X.
  - destruct (d' =? s_tocd s)%N; [|apply steps_refl].
    pose proof (cache_all_steps l s OOk) as X. destruct (cache_all H s l OOk). exact X.
  - apply steps_refl.
  - pose proof (pass_fd_steps s f buf fts) as X. destruct (pass_fd H s f buf fts). exact X.
Qed.

Lemma hexec_steps hs s : steps s (hexec H s hs).
Proof.
  revert s. induction hs as [|h hs IH]; intros s; simpl; [apply steps_refl|].
  eapply steps_trans; [apply hstep_steps|apply IH].
Qed.

Lemma hrun_hexec hs s : fst (hrun H s hs) = hexec H s hs.
Proof.
  revert s. induction hs as [|h hs IH]; intros s; simpl; auto.
  destruct (hstep H s h) as [s1 x] eqn:E. specialize (IH s1). destruct (hrun H s1 hs) as [s2 xs]. simpl in *. exact IH.
Qed.

(* ---------- what a successful read returns ---------- *)

(* the output is a concatenation of slices of chunks of file f that are good *)
Inductive pieces_of (T : toc) (f : N) : bytes -> Prop :=
| po_nil : pieces_of T f []
| po_app acc b lo n : pieces_of T f acc -> goodcat T f b -> pieces_of T f (acc ++ slice lo n b).

(* the state of a verifying, untainted reader *)
Definition Clean (T : toc) (s : st) : Prop :=
  s_toc s = T /\ s_verify s = true /\ s_decided s = true /\ s_lasterr s = false /\ s_tainted s = false /\
  all_good T (s_cache s) /\ all_good T (s_pend s) /\ merges_good T (s_merge s).

Lemma Clean_step T s o : Clean T s -> Clean T (fst (step H s o)).
Proof.
  intros [Ct [Cv [Cd [Cl [Cn [Cc [Cp Cm]]]]]]].
  assert (Hi : Inv s).
  { split; [auto|]. intros _ _. rewrite Ct. auto. }
  pose proof (Inv_step s o Hi) as [I1 I2].
  destruct (step_mono s o) as [_ [_ [Mv Md]]]. destruct (step_toc s o) as [Et _].
  pose proof (last_err_frozen s o Cd) as Fl.
  assert (Tn : s_tainted (fst (step H s o)) = false).
  { destruct o; unfold step, verify_toc; brk; auto; congruence. }
  unfold Clean. rewrite Et, Ct in *. rewrite Fl, Cl in *.
  destruct (I2 Tn eq_refl) as [A [B C]]. repeat split; auto.
Qed.

Lemma reach_clean T D os : let s := exec H (init T D) os in
  s_verify s = true -> s_tainted s = false -> Clean T s.
Proof.
  intros s Hv Ht. destruct (reach_inv T D os) as [I1 I2]. fold s in I1, I2.
  destruct (I1 Hv) as [Hd Hl]. destruct (I2 Ht Hl) as [A [B C]].
  destruct (exec_toc os (init T D)) as [Et _]. fold s in Et. simpl in Et. rewrite Et in A, B, C.
  unfold Clean. repeat split; auto.
Qed.

Lemma od_core_ok_good T s f i c ip : Clean T s -> chunk_at (s_toc s) f i = Some c ->
  snd (od_core H s false f i ip) = OOk -> Good T (key_of f c) ip.
Proof.
  intros [Ct [Cv _]] Hc. unfold od_core. simpl. rewrite Hc, Cv.
  destruct (s_handle s); simpl; [|discriminate].
  destruct (check H false c ip) eqn:Ek; simpl; [|discriminate].
  intros _. rewrite <- Ct. eapply check_good; eauto.
Qed.

Lemma read_at_verified T s f off len fs : Clean T s ->
  let r := read_at H s f off len fs in
  Clean T (fst r) /\ steps s (fst r) /\ (forall out, snd r = ROk out -> pieces_of T f out).
Proof.
  intros Hc. unfold read_at. destruct (negb (s_handle s)).
  { cbn [fst snd]. split; [exact Hc|split; [apply steps_refl|intros out Hx; discriminate Hx]]. }
  apply (read_loop_ind (Clean T) (fun f _ acc => pieces_of T f acc)).
  - intros; apply Clean_step; auto.
  - auto.
  - intros f0 s0 acc c i b lo n Hc0 Hq Hat Hg. destruct Hc0 as [Ct [_ [_ [_ [_ [Cc _]]]]]].
    apply po_app; [exact Hq|].
    apply get_In in Hg. unfold all_good in Cc. rewrite Forall_forall in Cc. apply (Cc _ Hg).
  - intros f0 s0 acc c i ip lo n Hc0 Hq Hat Ho.
    pose proof (od_core_ok_good T s0 f0 i c ip Hc0 Hat Ho) as Hg.
    destruct Hc0 as [Ct _]. rewrite Ct in Hat. apply po_app; [exact Hq|]. eapply goodcat_one; eauto.
  - exact Hc.
  - constructor.
Qed.

Lemma Clean_steps T s s' : Clean T s -> steps s s' -> Clean T s'.
Proof.
  intros Hc [os ->]. revert s Hc. induction os as [|o os IH]; intros s Hc; simpl; auto.
  apply IH. apply Clean_step. exact Hc.
Qed.

Lemma Clean_cache T s k b : Clean T s -> get (s_cache s) k = Some b -> goodcat T (kfile k) b.
Proof.
  intros [_ [_ [_ [_ [_ [Cc _]]]]]] Hg. apply get_In in Hg.
  unfold all_good in Cc. rewrite Forall_forall in Cc. apply (Cc _ Hg).
Qed.

(* GetPassthroughFd on a verifying untainted reader: the whole-file cache entry it hands out is a concatenation of
   chunks of that file that hash to their recorded digests; success or failure, the state stays clean *)
Lemma pass_fd_verified T s f buf fts : Clean T s ->
  let r := pass_fd H s f buf fts in
  Clean T (fst r) /\ steps s (fst r) /\ (forall out, snd r = ROk out -> goodcat T f out).
Proof.
  intros Hc r. pose proof (pass_fd_steps s f buf fts) as Hs. fold r in Hs.
  pose proof (Clean_steps T s (fst r) Hc Hs) as Hc'.
  split; [exact Hc'|split; [exact Hs|]].
  revert Hc'. unfold r, pass_fd. destruct (negb (s_handle s)); [intros _ out Hx; discriminate Hx|].
  destruct (enum_chunks _ _ _ _) as [cs|]; [|intros _ out Hx; discriminate Hx].
  destruct (get (s_cache s) (f, 0, sum_sizes cs)) as [b|] eqn:Eg.
  { intros _ out Hx. cbn [snd] in Hx. inversion Hx; subst. exact (Clean_cache T s _ _ Hc Eg). }
  destruct (step H s (MgStart f)) as [s0 r0].
  destruct (merge_loop H s0 _ _ cs fts) as [s1 r1].
  destruct r1; cbn [fst snd]; try (intros _ out Hx; discriminate Hx).
  intros Hc2 out Hx.
  destruct (get (s_cache (fst (step H s1 (MgCommit (length (s_merge s)) (sum_sizes cs))))) (f, 0, sum_sizes cs)) as [b2|] eqn:Eg2;
    [|discriminate Hx].
  inversion Hx; subst. exact (Clean_cache T _ _ _ Hc2 Eg2).
Qed.

Lemma passthrough_verified T D os f buf fts : let s := exec H (init T D) os in
    s_verify s = true -> s_tainted s = false ->
    let r := pass_fd H s f buf fts in
    (forall out, snd r = ROk out -> goodcat T f out)
    /\ s_verify (fst r) = true /\ s_tainted (fst r) = false
    /\ (exists os', fst r = exec H (init T D) (os ++ os')).
Proof.
  intros s Hv Ht r.
  destruct (pass_fd_verified T s f buf fts (reach_clean T D os Hv Ht)) as [Hc [[os' C] E]].
  fold r in Hc, C, E. destruct Hc as [_ [A [_ [_ [B _]]]]].
  split; [exact E|]. split; [exact A|]. split; [exact B|].
  exists os'. rewrite C. unfold s. symmetry. apply exec_app.
Qed.

Lemma reads_verified_partial T D os f off len fs : let s := exec H (init T D) os in
    s_verify s = true -> s_tainted s = false ->
    let r := read_at H s f off len fs in
    (forall out, snd r = ROk out -> pieces_of T f out)
    /\ s_verify (fst r) = true /\ s_tainted (fst r) = false
    /\ (exists os', fst r = exec H (init T D) (os ++ os')).
Proof.
  intros s Hv Ht r.
  destruct (read_at_verified T s f off len fs (reach_clean T D os Hv Ht)) as [Hc [[os' C] E]].
  fold r in Hc, C, E. destruct Hc as [_ [A [_ [_ [B _]]]]].
  split; [exact E|]. split; [exact A|]. split; [exact B|].
  exists os'. rewrite C. unfold s. symmetry. apply exec_app.
Qed.

Lemma reads_verified_no_skip T D os f off len fs out : let s := exec H (init T D) os in
    forallb (fun o => negb (is_skip o)) os = true ->
    snd (read_at H s f off len fs) = ROk out -> pieces_of T f out.
Proof.
  intros s Hn Hr.
  destruct (no_skip_untainted T D os Hn) as [Ht Hh]. fold s in Ht, Hh.
  destruct (s_handle s) eqn:Eh.
  - destruct (read_at_verified T s f off len fs (reach_clean T D os (Hh eq_refl) Ht)) as [_ [_ E]]. auto.
  - unfold read_at in Hr. rewrite Eh in Hr. discriminate Hr.
Qed.

End WithHash.

(* ---------- the known residue: a concrete history on the faithful model ---------- *)

(* file 1 has one chunk [0,2) whose recorded digest is 7; H maps the genuine bytes [1;2] to 7 and everything else to 0 *)
Definition wT : toc := [(1%N, [mkChunk 0 2 (Some 7%N) (Some 7%N)])].
Definition wH : bytes -> digest := tabH [([1%N; 2%N], 7%N)].
Definition wHist : list hop :=
  [HLSkip; HRead 1%N 0 2 [mkFetch [] (MOk 2 [9%N; 9%N])]; HLVerify 5%N; HRead 1%N 0 2 []].

Lemma residue_witness :
  let s := hexec wH (init wT 5%N) wHist in
  snd (hrun wH (init wT 5%N) wHist) = [HO ONone; HR (ROk [9%N; 9%N]); HO OOk; HR (ROk [9%N; 9%N])]
  /\ s_verify s = true /\ s_lasterr s = false /\ s_tainted s = true
  /\ good wH wT (1%N, 0, 2) [9%N; 9%N] = false.
Proof. vm_compute. repeat split. Qed.

Lemma bytes_eqb_eq a b : bytes_eqb a b = true -> a = b.
Proof.
  revert b. induction a as [|x a IH]; intros [|y b]; simpl; try discriminate; auto.
  intros Hx. apply andb_true_iff in Hx. destruct Hx as [Hx Hr]. apply N.eqb_eq in Hx. subst. f_equal. auto.
Qed.

(* with wH / wT the only good chunk content is [1;2]: altered bytes [9;9] are not a concatenation of good chunks *)
Lemma w_goodcat_shape b : goodcat wH wT 1%N b -> b = [] \/ exists acc, b = acc ++ [1%N; 2%N].
Proof.
  intros Hg. induction Hg as [|acc c i b Hacc IH Hc Hgood]; [left; reflexivity|].
  right. exists acc. f_equal.
  unfold Good, good, recorded, key_of in Hgood. cbv beta iota zeta in Hgood.
  remember (wH b) as h eqn:Eh.
  apply existsb_exists in Hgood. destruct Hgood as [c' [Hin Hc']].
  simpl in Hin. destruct Hin as [<-|[]]. cbn [c_dig c_pdig opt_is] in Hc'.
  apply andb_true_iff in Hc'. destruct Hc' as [_ Hc'].
  assert (Hh : (7 =? h)%N = true) by (destruct (7 =? h)%N; [reflexivity|discriminate Hc']).
  apply N.eqb_eq in Hh. subst h. unfold wH, tabH in Hh.
  destruct (bytes_eqb [1%N; 2%N] b) eqn:Eb; [|discriminate Hh].
  symmetry. apply bytes_eqb_eq. exact Eb.
Qed.

Lemma w_altered_not_goodcat : ~ goodcat wH wT 1%N [9%N; 9%N].
Proof.
  intros Hg. apply w_goodcat_shape in Hg. destruct Hg as [Hx|[acc Hx]]; [discriminate Hx|].
  assert (Hl : last [9%N; 9%N] 0%N = last (acc ++ [1%N; 2%N]) 0%N) by (rewrite <- Hx; reflexivity).
  change (acc ++ [1%N; 2%N]) with (acc ++ [1%N] ++ [2%N]) in Hl. rewrite app_assoc, last_last in Hl.
  simpl in Hl. discriminate Hl.
Qed.
